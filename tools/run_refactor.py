#!/usr/bin/env python3
"""run_refactor.py <label> <diff>... -- <property>...: apply behaviour-preserving changes to /repo, run the quick checks,
undo; any VIOLATION here is a false alarm of the machinery.  Results are appended to refactors/results.jsonl"""
import json, os, shutil, subprocess, sys, tempfile
args = sys.argv[1:]
label = args[0]
i = args.index("--")
diffs, props_ = args[1:i], args[i + 1:]
assert subprocess.run(["git", "-C", "/repo", "status", "--porcelain", "--untracked-files=no"], capture_output=True, text=True).stdout.strip() == "", "/repo not clean"
diffs = [os.path.abspath(d) for d in diffs]
applied = []
for d in diffs:
    if subprocess.run(["git", "-C", "/repo", "apply", d]).returncode == 0:
        applied.append(d)
    else:
        print(label, "SKIPPED (does not apply on top of the others):", d, flush=True)
diffs = applied
evbak = tempfile.mkdtemp(prefix="evbak_")
for f in os.listdir("/verif/evidence"):
    shutil.copy2(os.path.join("/verif/evidence", f), evbak)
res = {}
try:
    for p in props_:
        r = subprocess.run(["./check", p, "--tier", "quick"], cwd="/verif", capture_output=True, text=True)
        v = [l for l in r.stdout.splitlines() if l.startswith("VIOLATION")]
        res[p] = dict(exit=r.returncode, violation=v[0] if v else None)
        print(label, p, r.returncode, v[:1], flush=True)
        if v:
            import re
            m = re.search(r"replay=(\S+)", v[0])
            if m and os.path.exists(os.path.join("/verif", m.group(1))):
                os.makedirs("/verif/refactors/replays", exist_ok=True)
                shutil.move(os.path.join("/verif", m.group(1)), os.path.join("/verif/refactors/replays", f"{label}_{p}.json"))
finally:
    subprocess.run(["git", "-C", "/repo", "checkout", "--", "."], check=True)
    for f in os.listdir(evbak):
        shutil.copy2(os.path.join(evbak, f), "/verif/evidence")
    shutil.rmtree(evbak)
os.makedirs("/verif/refactors", exist_ok=True)
with open("/verif/refactors/results.jsonl", "a") as f:
    f.write(json.dumps(dict(label=label, diffs=[os.path.basename(d) for d in diffs], results=res)) + "\n")
