#!/usr/bin/env python3
"""Regenerate MANIFEST.json and coq/PINNED.json from tools/props.py."""
import hashlib, json, os, re, sys
sys.path.insert(0, os.path.dirname(os.path.abspath(__file__)))
import vlib, props

ALL = [f"C{i:02d}" for i in range(1, 21)]
checks = []
for pid in ALL:
    if pid not in props.PROPS or pid in props.UNCLAIMED:
        continue
    vf = os.path.join(vlib.COQ, "Props", f"{pid}.v")
    if not os.path.exists(vf) or not re.search(r"\bTheorem\b", vlib.strip_comments(open(vf).read())):
        props.UNCLAIMED[pid] = "model, specification and correspondence families run on every check; the property theorems are not merged yet (proof in progress)"
        continue
    P = props.PROPS[pid]
    checks.append(dict(
        property_id=pid,
        quick_cmd=f"./check {pid} --tier quick",
        thorough_cmd=f"./check {pid} --tier thorough",
        evidence_file=f"evidence/{pid}.json",
        replay_cmd_template=f"./check {pid} --replay {{path}}",
        engine="coq-model+correspondence",
        level_claimed=dict(category="proof", text=P.level_text, design_ref=f"DESIGN.md section 5, {pid}"),
        level_note=P.level_note,
        technique="Coq 8.16 theorems over a hand-written Gallina model + vm_compute correspondence check against the Rust crate",
    ))
na = [dict(property_id=p, reason=props.UNCLAIMED.get(p, "check not built yet in this session (see DESIGN.md section 9 for status)"))
      for p in ALL if p not in [c["property_id"] for c in checks]]
m = dict(
    version=1,
    setup_cmd="./check --setup",
    hooks=dict(guard="bao_tree_verif", enable="none needed: all observations go through the public API (RUSTFLAGS unchanged)",
               baseline_off_cmd="cd /repo && cargo test --workspace --no-fail-fast --offline",
               source_commits=[], add_only=True),
    engines=[dict(name="coq-model+correspondence", path="check",
                  serves_properties=[c["property_id"] for c in checks],
                  kind_free_text="Coq development under coq/ (model, specs, proofs, pinned property theorems) + Rust harness under harness/ "
                                 "+ python driver under tools/; model and implementation run on the same cases, verdicts computed by coqc vm_compute")],
    checks=checks,
    not_applicable=na,
    notes="Every check: (1) re-checks the property's theorems with coqc and Print Assumptions, greps for Admitted/Axiom, "
          "(2) rebuilds harness + bao-tree from /repo's working tree (dev and release), (3) runs model and implementation on generated cases. "
          "Known findings in known_findings.json.",
)
json.dump(m, open(os.path.join(vlib.ROOT, "MANIFEST.json"), "w"), indent=1)

# pinned statements
pinned = {}
for pid in ALL + ["C02enc", "C13b", "Bridge"]:
    vf = os.path.join(vlib.COQ, "Props", f"{pid}.v")
    if not os.path.exists(vf):
        continue
    src = vlib.strip_comments(open(vf).read())
    d = {}
    for mm in re.finditer(r"\bTheorem\s+([A-Za-z0-9_']+)\s*:(.*?)\bProof\.", src, re.S):
        d[mm.group(1)] = hashlib.sha256(" ".join(mm.group(2).split()).encode()).hexdigest()
    if d:
        pinned[pid] = d
json.dump(pinned, open(os.path.join(vlib.COQ, "PINNED.json"), "w"), indent=1, sort_keys=True)
print("claimed:", [c["property_id"] for c in checks])
