import json, os
META = {
 "C02-bufreader": ("C02", "sync::decode_ranges wraps the reader in a BufReader: read-ahead is lost, so more than the response is consumed", "reader passed by &mut that carries further bytes after the response (two responses on one stream)"),
 "C02-newwithbuffer": ("C02", "query canonicalisation moved from DecodeResponseIter::new_with_buffer to ::new", "decoder built with new_with_buffer, block size >= 1, query reaching to / past the end of the blob"),
 "C15-shiftedlevel": ("C15", "PreOrderPartialChunkIterRef compares the shifted node's level with min_full_level", "block size > 0 together with min level > 0 and a fully selected subtree"),
 "C15-splitinner": ("C15", "split_inner canonicalises the right half only for a start strictly below mid", "block size >= 1 and a selected interval starting exactly at a subtree midpoint below the block level"),
 "C05-fsmwritefirst": ("C05", "fsm validating encoder writes the re-encoded partial chunk group before comparing its hash", "async encoder, block size >= 1, query selecting part of a chunk group, corrupt data byte in that group"),
 "C05-syncdropcheck": ("C05", "sync validating encoder discards the hash returned by encode_selected_rec (no comparison for partial groups)", "sync encoder, block size >= 1, partially selected chunk group with a corrupt data byte"),
 "C03-readshort": ("C03", "sync outboard_impl reads each leaf with a single read() instead of read_exact()", "a Read source that returns short reads before EOF (BufReader after a header, Chain, pipes)"),
 "C03-zerocache": ("C03", "all-zero chunk groups are hashed once and the value reused (chunk counter ignored)", "data with at least two all-zero chunk groups of equal length (zero-filled / sparse blobs)"),
 "C12-offsetnocheck": ("C12", "pre_order_offset shifts the node without checking that its level reaches the block size", "block size > 0 and a node below the block level: direct query, or a sub-group decode into an io-backed pre-order outboard (overwrites a real slot)"),
 "C12-copybreak": ("C12", "sync::copy stops at the first node without a pair", "a source outboard that answers None for a persisted node (node-keyed store holding a partial tree)"),
 "C01-skipsubgroup": ("C01", "sync decoder returns early for pairs below the block size, after pushing their halves and before verifying them", "block size > 0, sub-group query, stream whose first deviation is at or below a sub-group pair (items spliced from another blob)"),
 "C01-fsmcontinue": ("C01", "fsm decode_ranges remembers the first error but keeps decoding and writing", "async decode_ranges driver, a bad pair whose subtree is self-consistent (subtree spliced from another blob), caller inspects target / outboard after the error"),
 "C17-chunkssaturate": ("C17", "ChunkNum::chunks computed as saturating_add(1023) >> 10", "a closed byte range ending within 1023 bytes of u64::MAX"),
 "C17-fcgbreak": ("C17", "full_chunk_groups uses break instead of continue for a range without a full group", "at least two ranges, block size > 0, a range without a full group before one with"),
}

META.update({
 "C09-secondhash": ("C09", "sync decoder reads the two hashes of a pair separately; only the first read maps EOF to ParentNotFound", "sync decoder, stream cut at offset 32..63 inside a parent's 64 bytes"),
 "C09-fsmshortleaf": ("C09", "fsm decoder uses read_bytes and treats only an empty read as EOF", "async decoder, stream cut strictly inside a leaf"),
 "C13-stableround": ("C13", "stability test compares chunk counts (rounded up) instead of bytes", "blob size not a multiple of 1024 whose partial last chunk ends a complete outboard subtree"),
 "C13-stablestrict": ("C13", "stability test uses < instead of <=", "blob length exactly the end of some outboard subtree"),
 "C06-leafunlinked": ("C06", "data validators check the stored pair against its parent only at inner nodes", "corruption of a leaf-level stored pair (one half flipped, or forged together with the data)"),
 "C06-fsmguard": ("C06", "async data validator guards the right group of a leaf pair with the left group's ranges", "async validator and a query touching exactly one of two sibling groups"),
 "C07-saveafter": ("C07", "sync decode_ranges saves the pending parents only after the next leaf was written", "a failing outboard save during a step (k-th save fails)"),
 "C07-zeroskip": ("C07", "sync decode_ranges does not write all-zero leaves (except the last)", "blob with an all-zero leaf that is not the last, target not zero there (recycled buffer)"),
 "C14-emptyblob": ("C14", "truncated_len returns 0 for an empty blob", "blob size exactly 0 with any non-empty query"),
 "C14-ownedfast": ("C14", "truncate_ranges_owned returns open-ended sets unchanged", "fsm decode path, open-ended query with >= 3 boundaries whose last closed range ends at / behind the last chunk, block size >= 2"),
 "C04-splitinner": ("C04", "split_inner canonicalises the right half only for a start strictly below mid", "block size >= 1 and a selection starting at an odd multiple of 2^L chunks (1 <= L <= bs) covering that subtree"),
 "C04-shortwrite": ("C04", "sync validating encoder writes leaf payloads with write() instead of write_all()", "a sink that performs short writes, payload larger than one accepted write"),
 "C08-mixedsendfirst": ("C08", "item-stream traversal sends the items of a partially selected group before comparing its hash", "block size > 0, query cutting through a group, altered byte in that group"),
 "C08-fsmreadbytes": ("C08", "fsm decoder reads leaves with read_bytes (short buffer at EOF is hashed)", "truncated stream whose cut falls inside or right before a leaf"),
 "C10-writenotall": ("C10", "sync outboard_post_order writes the pair with write() and drops the count", "a writer that accepts fewer bytes than offered or Ok(0) (full fixed-size target)"),
 "C10-flushafterfail": ("C10", "PostOrderOutboard::init_from flushes the target even after a failed save", "the k-th write of the outboard target fails; observed as a further call on the failed object"),
 "C11-chunkwiseleaf": ("C11", "sync decoder reads leaves through 1024-byte read calls and clamps afterwards", "a short read strictly inside a non-final leaf followed by a larger fragment"),
 "C11-loadreadat": ("C11", "io-backed outboards load a pair with a single read_at", "a ReadAt store returning short reads with a fragment boundary inside a 64-byte pair"),
 "C16-fsmshortleaf": ("C16", "fsm decoder accepts a short read for the last leaf", "claimed size larger than the true size within the same last chunk group, honest stream"),
 "C16-emptyclaimed": ("C16", "sync decoder selects nothing when the claimed size is 0", "claimed size exactly 0 for a non-empty blob"),
 "C18-countbelowi32": ("C18", "count_below computed as (2 << level) - 2 in i32", "a node of level >= 30"),
 "C18-rpclosedform": ("C18", "restricted_parent in closed form via next_left_ancestor", "a start node with id >= len"),
 "C19-skipemptyleaf": ("C19", "Leaf::data gets skip_serializing_if = is_empty", "a leaf with an empty payload in a non-self-describing format (postcard)"),
 "C19-ioerrpayload": ("C19", "io error message taken from the error's payload instead of Display", "an io error without a boxed payload (raw OS error, bare ErrorKind)"),
 "C20-minlevelclamp": ("C20", "PreOrderPartialChunkIterRef clamps min_full_level to root level + 1", "blob small relative to the block size; someone asks the decoder for tree()"),
 "C20-sentinelstack": ("C20", "root hash kept as a stack sentinel, but the leaf branch still pops it", "single-leaf response, hash() called after its only item"),
 "C20-syncbufreader": ("C20", "sync DecodeResponseIter wraps its reader in a BufReader", "reader lent by &mut with more bytes after the response"),
})

META.update({
 "C01b-1": ("C01", "sync decoder yields the whole decode buffer instead of the slice that was read", "decoder built with new_with_buffer on a recycled non-empty buffer longer than the first leaf"),
 "C01b-2": ("C01", "fsm decoder skips the pair check when the left half is not descended into", "async decoder, query selecting nothing in the left half of some subtree, tampered pair on that path"),
 "C02b-1": ("C02", "read_parent fills its buffer with a hand-written loop that always reads into the start", "a Read returning short reads with a fragment boundary inside a hash pair"),
 "C02b-2": ("C02", "the sync decoder's leaf buffer is only grown, never shrunk", "new_with_buffer with a non-empty buffer and a first leaf shorter than it"),
 "C03b-1": ("C03", "create() rewinds/reads relative to the handle's current position: a second create from the same handle sees an empty blob", "two outboards created from one handle, or a handle not at position 0"),
 "C03b-2": ("C03", "single-group fast path hashes everything the reader holds instead of tree.size bytes", "tree of exactly one chunk group and a reader holding more bytes than the size"),
 "C05b-1": ("C05", "sync validating encoder does not compare the root node's stored pair", "corruption inside the root pair of the store"),
 "C05b-2": ("C05", "item-stream validating encoder skips the pair check when both halves are descended into", "experimental-mixed traversal, corrupted upper-level pair on a two-sided node"),
 "C06b-1": ("C06", "data validator splits the query at the shifted node's midpoint", "block size > 0 and a query other than all chunks"),
 "C06b-2": ("C06", "data validator reads a group with a single short read into a reused buffer", "data file shorter than the blob, content repeating from group to group"),
 "C07b-1": ("C07", "io-backed PostOrderOutboard saves a pair with one write_at and drops the count", "sync decode into PostOrderOutboard over a WriteAt store that takes fewer than 64 bytes per call"),
 "C07b-2": ("C07", "fsm decode_ranges swallows InvalidInput errors from outboard.save", "async decode_ranges, k-th save fails with kind InvalidInput for a pair not yet stored"),
 "C12b-1": ("C12", "count_below isolates the lowest bit with an i32 shift", "a node of level >= 31 (blob of at least 2^32 chunk groups)"),
 "C12b-2": ("C12", "pre_order_offset_loop climbs at most 32 levels", "a tree whose root level exceeds 32"),
 "C15b-1": ("C15", "the size of a query leaf is taken from the shifted node", "block size > 0, min level > block size, fully covered subtree between the two levels"),
 "C15b-2": ("C15", "the empty-query guard also returns an empty plan for empty blobs", "blob size exactly 0 with a non-empty query"),
})

META.update({
 "C04c-1": ("C04", "sync encode_ranges fills a leaf with a hand-written read_at loop that never advances the read position", "non-validating sync encoder over a ReadAt source returning short reads inside a leaf"),
 "C04c-2": ("C04", "fsm encode_ranges splits the query at tree.chunks() (parts behind the end no longer select the last chunk)", "async non-validating encoder, query reaching the last chunk only through a part at / behind the end"),
 "C08c-1": ("C08", "item-stream traversal emits a Parent for unselected subtrees inside a partially selected group", "experimental-mixed, block size >= 2, query cutting through a group leaving an aligned unselected subtree of >= 2 chunks"),
 "C08c-2": ("C08", "sync CreateOutboard::create hashes from the handle's current position to the end", "a handle not at position 0 (header read before, second create on the same handle)"),
 "C09c-1": ("C09", "sync decoder reads a leaf with one read() and reports LeafNotFound on a short count", "a Read returning fewer bytes than asked for while more follow"),
 "C09c-2": ("C09", "sync decode_ranges loops with try_for_each through io::Error: every typed decode error comes back as DecodeError::Io", "a stream fault observed through sync::decode_ranges with the typed variant inspected"),
 "C10c-1": ("C10", "sync valid_ranges treats UnexpectedEof from the data read as 'range not valid'", "sync data validator, failing data read of kind UnexpectedEof, tree of more than one block"),
 "C10c-2": ("C10", "fsm encode_ranges maps the error of a helper that reads and writes a leaf with maybe_leaf_write", "async non-validating encoder, data read fails with ConnectionReset"),
 "C11c-1": ("C11", "sync encoders read leaves through a retry helper that computes the position as offset + last count", "ReadAt data source delivering one leaf in three or more pieces"),
 "C11c-2": ("C11", "sync decode_ranges wraps the reader in a BufReader (read-ahead dropped on return)", "further use of the same stream after decode_ranges over a transport whose reads cross the end of the response"),
 "C13c-1": ("C13", "CreateOutboard::create restores the handle's position instead of rewinding: the outboard covers blob[pos..]", "Read + Seek handle whose position is not 0 (grow-by-append chain through one handle)"),
 "C13c-2": ("C13", "outboard_post_order_impl writes a pair with one write() and drops the count", "a Write target returning short counts with a pair straddling its boundary"),
 "C14c-1": ("C14", "query canonicalisation moved from DecodeResponseIter::new_with_buffer up into ::new", "decoder built with new_with_buffer, block size >= 1, non-canonical query reaching the end"),
 "C14c-2": ("C14", "fsm validating encoder canonicalises the query against min(data size, tree size)", "provider holding only a group-aligned prefix of the blob with the complete outboard, query ending exactly at the end of the prefix"),
 "C16c-1": ("C16", "sync decoder checks a hash pair only at or above the block level", "sync decoder, block size >= 1, wrong claimed size, query hitting the last chunk but not its whole group, padded / spliced stream"),
 "C16c-2": ("C16", "fsm decoder validates a pair only when the left child is selected", "fsm decoder, claimed size of more than one chunk, query skipping the left half, padded / truncated / spliced stream"),
 "C17c-1": ("C17", "chunk_group_start masks with a u32 complement zero-extended to u64", "range start with chunk number >= 2^32 (or ChunkNum(u64::MAX)..)"),
 "C17c-2": ("C17", "round_up_to_chunks skips a range that starts inside the last covered chunk", "two closed byte ranges, the later starting inside the last chunk of the earlier and extending past it"),
 "C18c-1": ("C18", "chunk_range computes the span with an i32 shift", "a node of level >= 31"),
 "C18c-2": ("C18", "left_child / right_child share an offset helper with an i32 shift", "a node of level >= 32"),
 "C19c-1": ("C19", "Leaf::offset serialised as a chunk count", "a Leaf whose offset is not a multiple of 1024"),
 "C19c-2": ("C19", "io error deserialisation parses the kind from a table and drops it from the text when unknown", "an io error of a kind outside the table (StorageFull, IsADirectory, ...)"),
 "C20c-1": ("C20", "fsm decoder replaces its iterator by an exhausted one over a placeholder tree after an error", "tree() called on the decoder handed back with an error item"),
 "C20c-2": ("C20", "sync decoder only grows the leaf buffer and reads the whole buffer", "new_with_buffer with a non-empty buffer, a leaf shorter than it, trailing bytes on the stream"),
 "C20c-3": ("C20", "the chunk iterator returns a placeholder-tree empty iterator for an empty query", "empty query, then tree() on the decoder"),
})

META.update({
 "C01d-1": ("C01", "sync DecodeResponseIter::next retries when next0 reports Interrupted / TimedOut (the plan iterator has already advanced)", "a reader reporting a transient TimedOut at the read of a non-root parent directly followed by another parent"),
 "C01d-2": ("C01", "sync decode_ranges writes one zero byte at size-1 before decoding", "target whose last byte is not 0 and a query that excludes the last chunk group (second step of a history)"),
 "C02d-1": ("C02", "io-backed outboards' save returns InvalidInput for a node without a slot", "sync decode_ranges into an io-backed outboard, block size >= 1, query selecting part of a chunk group"),
 "C02d-2": ("C02", "fsm decoder replaces a canonicalised query lying entirely behind the blob by the empty query", "async decoder and a non-empty query at / behind the chunk count (ChunkNum(u64::MAX)..)"),
 "C03d-1": ("C03", "sync::outboard wraps its reader in a BufReader (reads past tree.size from the caller's stream)", "two creations from one stream holding blobs back to back"),
 "C03d-2": ("C03", "outboard_post_order wraps its writer in a BufWriter without an explicit flush (flush errors lost in Drop)", "a write fault within the last 8 KiB of the outboard"),
 "C04d-1": ("C04", "sync validating encoder canonicalises only closed queries", "open-ended query with >= 3 boundaries whose open tail starts behind the end, block size >= 1, fully selected last group of >= 2 chunks"),
 "C04d-2": ("C04", "fsm validating encoder reads chunk_group_bytes per leaf and accepts any length >= size", "data source longer than the blob, selection touching a short last leaf"),
 "C05d-1": ("C05", "fsm validating encoder delegates to the non-validating one when the outboard is empty and the query is all", "async encoder, blob of at most one chunk group, corrupt data byte"),
 "C05d-2": ("C05", "item-stream traversal sends Done after Error", "experimental-mixed, any error path, observer of the last item"),
 "C06d-1": ("C06", "outboard validators drop the relevance test and report the range when load answers None", "an outboard answering Ok(None) at stored nodes (EmptyOutboard, node-keyed stores)"),
 "C06d-2": ("C06", "validators split the query at tree.chunks() instead of canonicalising it", "query with a part at / behind the end that does not otherwise cover the last chunk"),
 "C07d-1": ("C07", "sync data validator checks the right group of a bottom pair only if the left one was valid", "right sibling group delivered before the left"),
 "C07d-2": ("C07", "pre_order_offset shifts the node without the level check (sub-group parents map to an ancestor's slot)", "block size >= 1, sub-group query decoded into an io-backed pre-order outboard"),
 "C08d-1": ("C08", "sync decoder grows but never shrinks the leaf buffer and reads the whole buffer", "new_with_buffer with a non-empty buffer, first leaf shorter than it"),
 "C08d-2": ("C08", "sync non-validating encoder rejects a data source whose size differs from the tree size (SizeMismatch)", "data file shorter or longer than the blob with the requested ranges present"),
 "C09d-1": ("C09", "fsm decode_ranges coalesces adjacent leaves and drops the pending buffer on error", "async decode_ranges, fault after at least one validated leaf, target inspected after the error"),
 "C09d-2": ("C09", "From<DecodeError> for io::Error maps ParentNotFound to ErrorKind::NotFound", "stream cut in or right before a hash pair, error converted to io::Error"),
 "C10d-1": ("C10", "sync outboard validator awaits both child recursions before propagating an error", "sync valid_outboard_ranges, >= 3 blocks, failing load in a left subtree"),
 "C10d-2": ("C10", "fsm validating encoder writes a partially selected group without the leaf-write error mapping", "async validating encoder, block size > 0, sub-group query, ConnectionReset on that write"),
})

for sid, (prop, what, needs) in META.items():
    d = f"/verif/seeded/{sid}"
    if not os.path.isdir(d):
        continue
    mp = f"{d}/meta.json"
    m = json.load(open(mp)) if os.path.exists(mp) else {}
    m.update(dict(id=sid, property=prop, change=what, needs_to_manifest=needs,
                  confirmed="tools/confirm_seed.sh in a scratch worktree of /repo HEAD: unedited suite passes with the change (71 tests), demo.rs fails with it and passes without it",
                  origin="sub-agent given only the property text and a scratch worktree"))
    json.dump(m, open(mp, "w"), indent=1)
print("ok")
