"""Shared machinery of the /verif checks: build, run implementation, run model in coqc, verdicts,
evidence, replays.  See DESIGN.md sections 1 and 3."""
import hashlib
import json
import os
import re
import subprocess
import sys
import time
from concurrent.futures import ThreadPoolExecutor

ROOT = os.path.dirname(os.path.dirname(os.path.abspath(__file__)))
COQ = os.path.join(ROOT, "coq")
BUILD = os.path.join(ROOT, "build")
HARNESS = os.path.join(ROOT, "harness")
TARGET = os.path.join(BUILD, "target")
PANIC = (1 << 128) - 1
JOBS = int(os.environ.get("VERIF_JOBS", "16"))

ENV = dict(os.environ, CARGO_NET_OFFLINE="true")


def log(*a):
    print(*a, file=sys.stderr, flush=True)


def sh(cmd, cwd=None, timeout=3600, check=True, env=None):
    r = subprocess.run(cmd, cwd=cwd, shell=isinstance(cmd, str), stdout=subprocess.PIPE,
                       stderr=subprocess.STDOUT, timeout=timeout, env=env or ENV, text=True)
    if check and r.returncode != 0:
        raise RuntimeError(f"command failed ({r.returncode}): {cmd}\n{r.stdout[-4000:]}")
    return r


# ---------------------------------------------------------------- coq build
def coq_makefile():
    mk = os.path.join(COQ, "Makefile")
    cp = os.path.join(COQ, "_CoqProject")
    if not os.path.exists(mk) or os.path.getmtime(mk) < os.path.getmtime(cp):
        sh("coq_makefile -f _CoqProject -o Makefile", cwd=COQ)


def coq_make(targets=None, timeout=3000):
    """full .vo build of the given targets (all if None); returns (ok, output)"""
    coq_makefile()
    t = " ".join(targets) if targets else ""
    r = sh(f"timeout {timeout} make -j{JOBS} {t}", cwd=COQ, timeout=timeout + 60, check=False)
    return r.returncode == 0, r.stdout


FORBIDDEN = re.compile(r"\b(Admitted|admit|Axiom|Axioms|Parameter|Parameters|Conjecture|Admit Obligations|"
                       r"Unset Guard Checking|Unset Positivity Checking|Unset Universe Checking|bypass_check|"
                       r"type-in-type|impredicative-set)\b")


def strip_comments(src):
    out, depth, i = [], 0, 0
    while i < len(src):
        if src.startswith("(*", i):
            depth += 1
            i += 2
        elif src.startswith("*)", i) and depth:
            depth -= 1
            i += 2
        else:
            if not depth:
                out.append(src[i])
            i += 1
    return "".join(out)


def grep_forbidden():
    """no Admitted / Axiom / ... anywhere in the development (Variables inside Sections are allowed)"""
    bad = []
    for d, _, fs in os.walk(COQ):
        for f in fs:
            if f.endswith(".v"):
                p = os.path.join(d, f)
                src = strip_comments(open(p).read())
                for m in FORBIDDEN.finditer(src):
                    line = src.count("\n", 0, m.start()) + 1
                    bad.append(f"{os.path.relpath(p, ROOT)}:{line}: {m.group(0)}")
    for f in ("_CoqProject",):
        s = open(os.path.join(COQ, f)).read()
        for w in ("-type-in-type", "-impredicative-set", "-vos", "-vok"):
            if w in s:
                bad.append(f"coq/{f}: {w}")
    return bad


ALLOWED_AXIOMS = set()  # axioms any property theorem may depend on (none)
# the collision-form theorems (Proofs/Collision.v) use excluded middle of the standard library, and only they may
COLLISION_AXIOMS = {"Classical_Prop.classic", "classic"}

_SRC_HASH = None


def sources_hash():
    """sha256 over the contents of every .v file of the development and of _CoqProject"""
    global _SRC_HASH
    if _SRC_HASH is None:
        h = hashlib.sha256()
        files = []
        for d, _, fs in os.walk(COQ):
            for f in fs:
                if f.endswith(".v") or f == "_CoqProject":
                    files.append(os.path.join(d, f))
        for p in sorted(files):
            h.update(os.path.relpath(p, COQ).encode())
            h.update(b"\0")
            with open(p, "rb") as fh:
                h.update(fh.read())
            h.update(b"\0")
        _SRC_HASH = h.hexdigest()[:24]
    return _SRC_HASH


def check_props_file(pid):
    """Re-check coq/Props/<pid>.v with the kernel, verify pinned statements and Print Assumptions.
    Returns dict(obligations=[names], discharged=[names], problems=[...])."""
    res = dict(obligations=[], discharged=[], problems=[], axioms={})
    vf = os.path.join(COQ, "Props", f"{pid}.v")
    if not os.path.exists(vf):
        res["problems"].append(f"missing coq/Props/{pid}.v")
        return res
    ok, out = coq_make([f"Props/{pid}.vo"])
    if not ok:
        res["problems"].append("make Props/%s.vo failed:\n%s" % (pid, out[-3000:]))
    src = strip_comments(open(vf).read())
    names = re.findall(r"\bTheorem\s+([A-Za-z0-9_']+)", src)
    res["obligations"] = names
    # pinned statements
    pinned_path = os.path.join(COQ, "PINNED.json")
    pinned = json.load(open(pinned_path)) if os.path.exists(pinned_path) else {}
    stmts = {}
    for m in re.finditer(r"\bTheorem\s+([A-Za-z0-9_']+)\s*:(.*?)\bProof\.", src, re.S):
        stmts[m.group(1)] = hashlib.sha256(" ".join(m.group(2).split()).encode()).hexdigest()
    for n in names:
        if n in pinned.get(pid, {}) and pinned[pid][n] != stmts.get(n):
            res["problems"].append(f"statement of {n} differs from coq/PINNED.json")
    for n in pinned.get(pid, {}):
        if n not in names:
            res["problems"].append(f"pinned theorem {n} missing from Props/{pid}.v")
    res["stmts"] = stmts
    if not ok:
        return res
    # run coqc on the props file itself to capture Print Assumptions (its output is a function of the Coq sources
    # only: it is kept under build/pa_cache keyed by a hash of every .v file of the development)
    key = sources_hash()
    cdir = os.path.join(BUILD, "pa_cache")
    cfile = os.path.join(cdir, f"{pid}-{key}.txt")
    if os.path.exists(cfile):
        out_text = open(cfile).read()
    else:
        tmpd = os.path.join(cdir, "tmp_" + pid)
        os.makedirs(tmpd, exist_ok=True)
        r = sh(f"timeout 900 coqc -q -Q . BaoV -o {os.path.join(tmpd, pid + '.vo')} Props/{pid}.v", cwd=COQ, check=False, timeout=1000)
        if r.returncode != 0:
            res["problems"].append("coqc Props/%s.v failed:\n%s" % (pid, r.stdout[-3000:]))
            return res
        out_text = r.stdout
        for f in os.listdir(cdir):
            if f.startswith(pid + "-"):
                try:
                    os.remove(os.path.join(cdir, f))
                except OSError:
                    pass
        with open(cfile, "w") as f:
            f.write(out_text)

    class _R:
        pass
    r = _R()
    r.stdout = out_text
    # output: for each Print Assumptions either "Closed under the global context" or "Axioms:\n..."
    blocks = re.split(r"(?=Closed under the global context|Axioms:)", r.stdout)
    blocks = [b for b in blocks if b.startswith("Closed") or b.startswith("Axioms:")]
    if len(blocks) != len(names):
        res["problems"].append(f"{len(names)} theorems but {len(blocks)} Print Assumptions outputs")
    for n, b in zip(names, blocks):
        if b.startswith("Closed"):
            res["discharged"].append(n)
            res["axioms"][n] = []
        else:
            ax = [a for a in re.findall(r"^([A-Za-z0-9_.']+)\s*:", b, re.M) if a != "Axioms"]
            res["axioms"][n] = ax
            if all(a in ALLOWED_AXIOMS or (n.endswith("_or_collision") and a in COLLISION_AXIOMS) for a in ax):
                res["discharged"].append(n)
            else:
                res["problems"].append(f"{n} depends on axioms {ax}")
    return res


# ---------------------------------------------------------------- harness
def build_harness():
    """rebuild the harness (and bao-tree from /repo's working tree) in both profiles"""
    bins = {}
    for prof, flag, sub in (("dev", "", "debug"), ("release", "--release", "release")):
        r = sh(f"cargo build --offline {flag}", cwd=HARNESS, check=False, timeout=1800)
        if r.returncode != 0:
            raise RuntimeError("harness build failed:\n" + r.stdout[-4000:])
        bins[prof] = os.path.join(TARGET, sub, "btv")
    return bins


def run_harness(binary, lines, tag):
    """lines: list of 'family id args...' strings.  Returns dict id -> obs list"""
    os.makedirs(os.path.join(BUILD, "cases"), exist_ok=True)
    # shard over JOBS processes
    n = max(1, min(JOBS, len(lines) // 50 + 1))
    shards = [lines[i::n] for i in range(n)]

    def run_lines(ls, path, timeout):
        with open(path, "w") as f:
            f.write("\n".join(ls) + "\n")
        try:
            r = subprocess.run([binary, path], stdout=subprocess.PIPE, stderr=subprocess.PIPE, text=True, timeout=timeout)
        except subprocess.TimeoutExpired:
            return None
        return r.stdout if r.returncode == 0 else None

    def one(i):
        p = os.path.join(BUILD, "cases", f"in_{tag}_{i}.txt")
        out = run_lines(shards[i], p, max(1200, len(shards[i]) // 2))
        if out is not None:
            return out
        # the process died (abort, stack overflow, ...) or hung: run the lines one by one; a line that kills or
        # hangs the process is observed as the panic code
        log(f"harness shard {p} crashed or timed out; isolating")
        outs, nfail = [], 0
        for j, ln in enumerate(shards[i]):
            o = run_lines([ln], p + f".{j}", 120) if nfail < 5 else None
            if o is None:
                nfail += 1
                toks = ln.split()
                o = f"{toks[0]} {toks[1]} | {PANIC}\n"
            outs.append(o)
        return "".join(outs)

    res = {}
    with ThreadPoolExecutor(n) as ex:
        for out in ex.map(one, range(n)):
            for ln in out.splitlines():
                left, right = ln.split("|")
                toks = left.split()
                res[int(toks[1])] = [int(x) for x in right.split()]
    return res


# ---------------------------------------------------------------- coq evaluation
def coq_list(nums, chunk=400):
    if len(nums) <= chunk:
        return "[" + ";".join(str(x) for x in nums) + "]"
    parts = [nums[i:i + chunk] for i in range(0, len(nums), chunk)]
    return "(" + " ++ ".join("[" + ";".join(str(x) for x in p) + "]" for p in parts) + ")"


class Family:
    """a correspondence family: Coq runner module + run/holds function names"""

    def __init__(self, name, module, run, holds, nontrivial=None):
        self.name, self.module, self.run, self.holds = name, module, run, holds
        self.nontrivial = nontrivial or (lambda args, obs: True)


def run_coq(fam, cases, tag, budget_numbers=12000):
    """cases: list of (id, args, obs).  Returns dict id -> verdict (nonzero only), raises on coqc failure"""
    os.makedirs(os.path.join(BUILD, "coqcases"), exist_ok=True)
    shards, cur, cnt = [], [], 0
    max_cases = getattr(fam, "shard_cases", 400)
    # spread over all cores when there is enough work
    if len(cases) > 2 * JOBS:
        max_cases = min(max_cases, max(4, len(cases) // (2 * JOBS) + 1))
    for c in cases:
        w = len(c[1]) + len(c[2]) + 4
        if cur and (cnt + w > budget_numbers or len(cur) >= max_cases):
            shards.append(cur)
            cur, cnt = [], 0
        cur.append(c)
        cnt += w
    if cur:
        shards.append(cur)

    def eval_cases(cs, name, timeout):
        """evaluate a list of cases in one coqc run; None if coqc fails or exceeds the timeout"""
        p = os.path.join(BUILD, "coqcases", name + ".v")
        with open(p, "w") as f:
            f.write(f"From BaoV Require Import {fam.module}.\nOpen Scope N_scope.\n")
            for j, (cid, args, obs) in enumerate(cs):
                f.write(f"Definition c{j} : case := ({cid}, {coq_list(args)}, {coq_list(obs)}).\n")
            names = [f"c{j}" for j in range(len(cs))]
            groups = [names[k:k + 200] for k in range(0, len(names), 200)]
            f.write("Definition cases : list case := " +
                    " ++ ".join("[" + ";".join(g) + "]" for g in groups) + ".\n")
            f.write(f"Eval vm_compute in (verdicts {fam.run} {fam.holds} cases).\n")
        r = subprocess.run(f"ulimit -s unlimited 2>/dev/null; timeout {timeout} coqc -q -noglob -Q {COQ} BaoV {p}",
                           shell=True, stdout=subprocess.PIPE, stderr=subprocess.STDOUT, text=True,
                           cwd=os.path.join(BUILD, "coqcases"))
        for ext in (".vo", ".vok", ".vos", ".glob"):
            try:
                os.remove(os.path.join(BUILD, "coqcases", name + ext))
            except OSError:
                pass
        if r.returncode != 0:
            return None, r.stdout[-3000:]
        m = re.search(r"=\s*(\[.*\])\s*:\s*list", r.stdout, re.S)
        if not m:
            return None, r.stdout[-2000:]
        out = {}
        for a, b in re.findall(r"\((\d+),\s*(\d+)\)", m.group(1)):
            out[int(a)] = int(b)
        return out, ""

    def solve(cs, name, timeout):
        """verdicts of the cases; a case on which the model / checker evaluation itself fails or does not
        terminate in time gets verdict 4 (isolated by bisection)"""
        out, msg = eval_cases(cs, name, timeout)
        if out is not None:
            return out
        if len(cs) == 1:
            log(f"model evaluation failed on case {cs[0][0]} of family {fam.name}: {msg[-400:]}")
            return {cs[0][0]: 4}
        h = len(cs) // 2
        res = {}
        res.update(solve(cs[:h], name + "a", max(90, timeout // 3)))
        res.update(solve(cs[h:], name + "b", max(90, timeout // 3)))
        return res

    def one(i):
        return solve(shards[i], f"cases_{tag}_{fam.name}_{i}", 1500)

    verd = {}
    if not shards:
        return verd
    with ThreadPoolExecutor(min(JOBS, len(shards))) as ex:
        for o in ex.map(one, range(len(shards))):
            verd.update(o)
    return verd
