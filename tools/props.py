"""Property table: families, generators, evidence text.  One entry per property id."""
import json
import os
import random

import vlib
from vlib import Family

ROOT = vlib.ROOT

TRUSTED_BASE = [
    "Coq 8.16.1 kernel (coqc full .vo build; coqchk in the thorough tier); no native_compute",
    "vm_compute + primitive Uint63 used only to run the model in the correspondence check, in no theorem",
    "hand transcription Rust -> Gallina (coq/Model), tied to /repo by the correspondence run of this check",
    "harness/ (Rust) and tools/ (Python): case generation, io wrappers, observation encoding",
]


class Prop:
    def __init__(self, families, gen, rule, trusted=None, assumptions=None, status="", level_text="", level_note=""):
        self.families, self.gen, self.rule = families, gen, rule
        self.trusted = trusted or []
        self.assumptions = assumptions or []
        self.status = status
        self.level_text = level_text or ("Kernel-checked theorems about the Gallina model of the anchored code, for all inputs; "
                                         "the model is tied to /repo by running model and crate on the same generated cases on every run. "
                                         + status)
        self.level_note = level_note or ("Trusted: Coq kernel, the hand transcription (checked by the correspondence run, bounded by its generators), "
                                         "harness and drivers. " + "; ".join(assumptions or []))


# properties with a check under construction (not claimed in MANIFEST yet): id -> reason
UNCLAIMED = {}


def corpus(pid):
    """minimised failures kept from earlier runs; run first"""
    p = os.path.join(ROOT, "replays", "corpus", f"{pid}.json")
    if os.path.exists(p):
        return [(c["family"], c["args"]) for c in json.load(open(p))]
    return []


def thorough_proof_checks(pid):
    """coqchk on the property's theorem file"""
    r = vlib.sh(f"timeout 3000 coqchk -o -silent -Q . BaoV BaoV.Props.{pid}", cwd=vlib.COQ, check=False, timeout=3100)
    out = r.stdout
    probs = []
    if r.returncode != 0:
        probs.append("coqchk failed: " + out[-2000:])
    elif "Axioms: <none>" not in out.replace("\n", " ").replace("  ", " ") and "* Axioms: <none>" not in out:
        # list whatever coqchk names
        import re
        m = re.search(r"\* Axioms:(.*?)(\n\s*\n|\Z)", out, re.S)
        ax = m.group(1).strip() if m else "?"
        if ax != "<none>":
            probs.append("coqchk reports axioms: " + ax[:500])
    return probs


KNOWN_CLASSES = {}
# theorem files (coq/Props/<name>.v) that belong to a property besides coq/Props/<id>.v
EXTRA_PROPS = {"C02": ["C02enc", "Bridge"], "C13": ["C13b"]}

# ------------------------------------------------------------------ geometry families
F_NODE = Family("node", "Run.RunGeom", "run_node", "holds_node", lambda a, o: a[0] > 0)
F_RESTRICTED = Family("restricted", "Run.RunGeom", "run_restricted", "holds_restricted", lambda a, o: o != [0])
F_TREE = Family("tree", "Run.RunGeom", "run_tree", "holds_tree", lambda a, o: len(o) > 12)
F_OFFSETS = Family("offsets", "Run.RunGeom", "run_offsets", "holds_offsets", lambda a, o: len(a) > 2)


def patterned_ids(maxbits):
    ids = set()
    for k in range(1, maxbits + 1):
        for d in (-2, -1, 0, 1):
            v = (1 << k) + d
            if 0 <= v < (1 << maxbits):
                ids.add(v)
    for k in range(2, maxbits, 3):
        ids.add(int("10" * (k // 2), 2))
        ids.add(int("01" * (k // 2), 2))
        ids.add(((1 << k) - 1) ^ (1 << (k // 2)))
    return sorted(ids)


def gen_c18(tier, rng):
    cases = []
    lim = 4096 if tier == "quick" else 1 << 15
    for x in range(lim):
        shifts = range(0, 11) if (tier == "thorough" and x < 4096) or x < 256 else (x % 11, (x * 7 + 3) % 11)
        for n in shifts:
            cases.append(("node", [x, n]))
    for x in patterned_ids(62):
        for n in (0, 1, 4, 10):
            cases.append(("node", [x, n]))
    nrand = 2000 if tier == "quick" else 30000
    for _ in range(nrand):
        lvl = rng.randrange(0, 53)
        k = rng.randrange(0, 1 << rng.randrange(1, 62 - lvl))
        x = (2 * k + 1) * (1 << lvl) - 1
        cases.append(("node", [x, rng.randrange(0, 11)]))
    maxlen = 48 if tier == "quick" else 200
    for ln in range(0, maxlen + 1):
        for x in range(0, ln + 3):
            cases.append(("restricted", [x, ln]))
    for _ in range(300 if tier == "quick" else 5000):
        ln = rng.randrange(1, 1 << rng.randrange(1, 54))
        x = rng.randrange(0, ln + 2)
        cases.append(("restricted", [x, ln]))
    return cases


def size_classes(nblocks, bs):
    g = 1024 << bs
    base = (nblocks - 1) * g
    out = {base + g, base + 1, base + g // 2, base + g // 2 + 1, base + g - 1}
    if base + g // 2 - 1 > base:
        out.add(base + g // 2 - 1)
    if nblocks == 1:
        out.add(0)
    return sorted(s for s in out if s >= 0)


def gen_tree_cases(tier, rng, bss, maxblocks, stride_after):
    cases = []
    for bs in bss:
        nb = 1
        while nb <= maxblocks:
            for s in size_classes(nb, bs):
                cases.append(("tree", [s, bs]))
            nb += 1 if nb < stride_after else rng.randrange(1, 9)
    return cases


def tree_nodes(size, bs):
    """ids of the nodes of the tree (block-size-0 numbering), python mirror of the Shape; used only to pick probes"""
    g = 1024 << bs
    nb = max(1, (size + g - 1) // g)
    leaves = (nb + 1) // 2
    return nb, 2 * leaves - 1


def gen_offsets_cases(tier, rng, count):
    cases = []
    for k in list(range(10, 63)):
        for d in (-1, 0, 1):
            size = (1 << k) + d
            for bs in (0, 1, 4, 10):
                nb, ln = tree_nodes(size, bs)
                probes = set()
                # spine nodes, a few random nodes, nodes just outside
                for _ in range(6):
                    probes.add(rng.randrange(0, ln))
                probes.update([0, ln - 1, ln, ln + 1, max(0, ln - 2)])
                x = 0
                while x < ln:
                    probes.add(x)
                    x = 2 * x + 1
                nodes = sorted(((s + 1) << bs) - 1 for s in probes)
                # plus nodes below the block level
                if bs > 0:
                    nodes += [0, (1 << bs) - 2]
                cases.append(("offsets", [size, bs] + nodes))
    for _ in range(count):
        size = rng.randrange(0, 1 << rng.randrange(1, 63))
        bs = rng.randrange(0, 11)
        nb, ln = tree_nodes(size, bs)
        nodes = sorted(((rng.randrange(0, ln + 2) + 1) << bs) - 1 for _ in range(8))
        cases.append(("offsets", [size, bs] + nodes))
    return cases


def gen_c12(tier, rng):
    if tier == "quick":
        c = gen_tree_cases(tier, rng, (0, 1, 4, 10), 160, 96)
        c += gen_offsets_cases(tier, rng, 200)
    else:
        c = gen_tree_cases(tier, rng, (0, 1, 2, 4, 7, 10), 640, 256)
        c += gen_offsets_cases(tier, rng, 5000)
    return c


PROPS = {}

PROPS["C18"] = Prop(
    [F_NODE, F_RESTRICTED], gen_c18,
    "node: all ids below 4096 (quick) / 2^15 (thorough) x block-size shifts, patterned ids 2^k+-d up to 2^62, "
    "random (level<=52, index) ids; restricted: all (x, len) with len <= 48/200 plus random len up to 2^53. "
    "non-trivial = id > 0 (node) / a parent exists (restricted); distinct by (family, args)",
    assumptions=["node ids < 2^62 (every node of a tree of at most 2^63 bytes and its parent)", "shifts <= 10"],
)
PROPS["C12"] = Prop(
    [F_TREE, F_OFFSETS], gen_c12,
    "tree: every block count 1..96 then strided to 160 (quick) / 1..400 strided to 1200 (thorough) x 5-6 byte-size classes "
    "around the last group x block sizes {0,1,4,10} / 0..10, all nodes of both traversals with both offsets; "
    "offsets: sizes 2^k, 2^k+-1 for k=10..62 x bs {0,1,4,10} with spine / random / just-outside / below-block-level probes, "
    "plus random (size, bs). non-trivial = more than one block (tree) / at least one probe (offsets)",
    assumptions=["size <= 2^63, bs <= 10"],
)
PROPS["C13"] = Prop(
    [F_TREE, F_OFFSETS], gen_c12,
    "same geometry families as C12 (Stable/Unstable tag and value of every node checked by holds_tree / holds_offsets); "
    "byte-level prefix families are added with the hashing model",
    assumptions=["size <= 2^63, bs <= 10"],
)


# ------------------------------------------------------------------ plans and range sets
F_PLAN = Family("plan", "Run.RunPlan", "run_plan", "holds_plan", lambda a, o: len(o) > 6)
F_PLAN.profiled = True
F_PLANSPEC = Family("planspec", "Run.RunPlan", "run_planspec", "(fun _ _ => true)", lambda a, o: len(o) > 6)
F_PLANSPEC.profiled = True
F_PLANSPEC.prep_obs = lambda o: o if vlib.PANIC in o else [0 if i % 6 == 5 else x for i, x in enumerate(o)]
F_RANGES = Family("ranges", "Run.RunPlan", "run_ranges", "holds_ranges", lambda a, o: len(a) > 3)
F_RANGES.profiled = True


def all_subsets(universe):
    u = list(universe)
    for m in range(1 << len(u)):
        yield [u[i] for i in range(len(u)) if m >> i & 1]


def small_sizes(maxchunks):
    out = {0, 1}
    for c in range(1, maxchunks + 1):
        out.update({c * 1024, c * 1024 - 1, (c - 1) * 1024 + 1, (c - 1) * 1024 + 512})
    return sorted(x for x in out if x >= 0)


def nchunks(size):
    return max(1, (size + 1023) // 1024)


def rand_query(rng, n, extra=3):
    """random strictly sorted boundary list around 0..n+extra, sometimes with huge boundaries"""
    k = rng.randrange(0, 6)
    u = sorted(rng.sample(range(0, n + extra + 1), min(k, n + extra + 1)))
    if rng.random() < 0.1:
        u.append(rng.choice([(1 << 64) - 1, 1 << 63, (1 << 62) + 5]))
    return u


def gen_c15(tier, rng):
    cases = []
    maxc = 5 if tier == "quick" else 8
    exh = 4 if tier == "quick" else 6
    for size in small_sizes(maxc):
        n = nchunks(size)
        for bs in range(0, 4):
            cases.append(("plan", [size, bs, 0, 0]))
            cases.append(("planspec", [size, bs, 0, 0]))
            qs = list(all_subsets(range(0, n + 3))) if n <= exh else [rand_query(rng, n) for _ in range(40)]
            for q in qs:
                mls = range(0, 6) if (len(q) <= 2 and n <= 3) or tier == "thorough" else (rng.randrange(0, 6),)
                for ml in mls:
                    cases.append(("plan", [size, bs, ml, 1] + q))
                    if rng.random() < 0.5:
                        cases.append(("planspec", [size, bs, ml, 1] + q))
                cases.append(("plan", [size, bs, 0, 2] + q))
                if rng.random() < 0.5:
                    cases.append(("planspec", [size, bs, 0, 2] + q))
    # sampled large trees with sparse queries
    for _ in range(150 if tier == "quick" else 3000):
        size = rng.randrange(1, 1 << rng.randrange(11, 41))
        bs = rng.randrange(0, 9)
        n = nchunks(size)
        pts = set()
        for _ in range(rng.randrange(1, 4)):          # narrow ranges: plans stay short
            p0 = rng.randrange(0, n + 2)
            pts.symmetric_difference_update({p0, p0 + rng.randrange(1, 4)})
        if rng.random() < 0.3:
            pts.add(n + rng.randrange(0, 3))          # open-ended tail near / past the end
        pts = sorted(pts)
        if len(pts) % 2 == 1 and pts[-1] < n - 40:
            pts = pts[:-1]
        which = rng.choice([1, 1, 2])
        fam = rng.choice(["plan", "plan", "planspec"])
        cases.append((fam, [size, bs, rng.randrange(0, 12), which] + pts))
    # very large, unbalanced trees (up to 2^62 bytes): narrow queries at the end and around the spine's joints
    for _ in range(80 if tier == "quick" else 1500):
        a_ = rng.randrange(34, 62)
        size = (1 << a_) + sum(1 << rng.randrange(10, a_) for _ in range(rng.randrange(0, 3))) + rng.choice([0, 1, 1024, 1025])
        bs = rng.randrange(0, 5)
        n = nchunks(size)
        joint = (1 << (a_ - 10))
        p0 = rng.choice([n - 1, n - 2, joint, joint - 1, joint + 1, n - rng.randrange(1, 1 << 20)])
        p0 = max(0, p0)
        pts = sorted({p0, p0 + rng.randrange(1, 3)}) if rng.random() < 0.7 else [p0]
        if len(pts) == 1 and pts[0] < n - 40:
            pts = [pts[0], pts[0] + 1]
        which = rng.choice([1, 2])
        fam = rng.choice(["plan", "plan", "planspec"])
        cases.append((fam, [size, bs, rng.randrange(0, 6), which] + pts))
    return cases


def gen_c17(tier, rng):
    cases = []
    M = (1 << 64) - 1
    for bs in (0, 1, 2):
        g = 1 << bs
        uni = range(0, 3 * g + 2) if tier == "thorough" or bs < 2 else range(0, 2 * g + 3)
        for q in all_subsets(uni):
            if len(q) > 6 and tier == "quick":
                continue
            cases.append(("ranges", [3, bs, 0] + q))
            cases.append(("ranges", [4, bs, 0] + q))
    # byte ranges around chunk boundaries
    pts = [0, 1, 1023, 1024, 1025, 2047, 2048, 2049, 3072]
    for q in all_subsets(pts):
        if len(q) <= (5 if tier == "quick" else 9):
            cases.append(("ranges", [2, 0, 0] + q))
    big = [1 << k for k in range(1, 64)] + [(1 << k) - 1 for k in range(2, 65)] + [(1 << k) + 1 for k in range(2, 64)]
    for _ in range(600 if tier == "quick" else 20000):
        k = rng.randrange(1, 5)
        q = sorted(set(rng.choice(big) if rng.random() < 0.7 else rng.randrange(0, 1 << 64) for _ in range(k)))
        bs = rng.randrange(0, 11)
        fn = rng.choice([2, 3, 4])
        cases.append(("ranges", [fn, bs, 0] + q))
    for q in ([M - 1023, M], [M - 1024, M], [0, M], [M - 5, M - 1], [M - 2048, M - 1023], [M - 1022], [7, M - 1024, M - 3, M]):
        cases.append(("ranges", [2, 0, 0] + q))
    # the crate's own "last chunk" query and its neighbours
    for bs in range(0, 11):
        for q in ([M], [M - 1], [M - (1 << bs)], [M - (1 << bs) + 1], [5, M], [0, M], [M - 1, M], [3, M - (1 << bs)], [3, M - (1 << bs) + 1]):
            for fn in (2, 3, 4):
                cases.append(("ranges", [fn, bs, 0] + q))
    return cases


def gen_c14_ranges(tier, rng):
    cases = []
    maxc = 6 if tier == "quick" else 8
    for size in small_sizes(maxc):
        n = nchunks(size)
        for q in all_subsets(range(0, n + 3)):
            cases.append(("ranges", [0, size, 0] + q))
    M = (1 << 64) - 1
    for _ in range(400 if tier == "quick" else 10000):
        size = rng.randrange(0, 1 << rng.randrange(1, 64))
        n = nchunks(size)
        k = rng.randrange(0, 6)
        cand = [n - 2, n - 1, n, n + 1, n + 2, 0, 1, M, M - 1, 1 << 63, 1 << 54, (1 << 54) + 1, 3 << 54, (1 << 54) - 1] + [rng.randrange(0, 2 * n + 2) for _ in range(4)]
        q = sorted(set(x for x in rng.sample(cand, min(k, len(cand))) if 0 <= x <= M))
        cases.append(("ranges", [0, size, 0] + q))
    return cases


def known_empty_query_plan(r):
    # plan family: args [size, bs, ml, which, q...] with which in (1, 2) and empty q
    return r["family"] in ("plan", "planspec") and r["args"][3] in (1, 2) and len(r["args"]) == 4


KNOWN_CLASSES["empty_query_plan"] = known_empty_query_plan


def known_c17_overflow(r):
    if r["family"] != "ranges":
        return False
    fn, bs = r["args"][0], r["args"][1]
    q = r["args"][3:]
    lim = (1 << 64) - (1 << bs)
    if fn == 3:
        return any(e > lim for e in q[1::2])
    if fn == 4:
        return any(s >= lim for s in q[0::2])
    return False


KNOWN_CLASSES["c17_overflow"] = known_c17_overflow

PROPS["C15"] = Prop(
    [F_PLAN, F_PLANSPEC], gen_c15,
    "plan: every byte-size class up to 5 (quick) / 8 (thorough) chunks x bs 0..3 x {post-order plan, pre-order plan with "
    "min_level 0..5, response plan} x every subset of boundaries in 0..nchunks+2 (exhaustive up to 4/6 chunks, random beyond), "
    "plus sampled trees up to 2^40 bytes with sparse queries and very large unbalanced trees (up to 2^62 bytes) with narrow queries at the end and around the joints of the right spine; planspec: the same observations compared with the recursive "
    "specification Spec/PlanSpec.v. non-trivial = plan with more than one item",
    assumptions=["size <= 2^63, bs <= 10, min_level <= 63, boundaries strictly sorted < 2^64"],
)
PROPS["C17"] = Prop(
    [F_RANGES], gen_c17,
    "ranges: every boundary subset over 0..3*2^bs+1 for bs<=2 (open and closed), byte-range subsets around chunk boundaries, "
    "random sets over 2^k, 2^k+-1 up to u64::MAX with bs 0..10, and ChunkNum(u64::MAX).. with neighbours; both build profiles. "
    "non-trivial = non-empty input set",
    assumptions=["bs <= 10; groups: closed ends <= 2^64-2^bs; full: starts <= 2^64-2^bs (outside: known finding)"],
)

PROPS["C14"] = Prop(
    [F_RANGES], gen_c14_ranges,
    "ranges(truncate): every boundary subset in 0..nchunks+2 for every byte-size class up to 6 (quick) / 8 (thorough) chunks, "
    "plus random sizes up to 2^63 with boundaries around the end and at u64::MAX; cross encode/decode families are added "
    "with the hashing model. non-trivial = non-empty query",
    assumptions=["boundaries strictly sorted < 2^64, size <= 2^63"],
)


# ------------------------------------------------------------------ protocol families (hashing)
F_OUTBOARD = Family("outboard", "Run.RunProto", "run_outboard", "holds_outboard", lambda a, o: a[2] > 1024)
F_ENCODE = Family("encode", "Run.RunProto", "run_encode", "holds_encode", lambda a, o: len(o) > 2 and o[2] > 0)
F_DECODE = Family("decode", "Run.RunProto", "run_decode", "holds_decode", lambda a, o: len(o) > 11 and o[9] > 0)
F_VALIDATE = Family("validate", "Run.RunProto", "run_validate", "holds_validate", lambda a, o: len(o) > 2)

BLOB_SIZES = [0, 1, 1023, 1024, 1025, 2047, 2048, 2049, 3 * 1024, 4 * 1024 + 1, 5 * 1024 + 7, 8 * 1024, 8 * 1024 + 1,
              13 * 1024 + 100, 16 * 1024, 23 * 1024 + 512, 31 * 1024 + 1]


def gen_c03(tier, rng):
    cases = []
    sizes = BLOB_SIZES if tier == "quick" else BLOB_SIZES + [k * 512 for k in range(1, 65)] + [40 * 1024 + 3, 64 * 1024]
    i = 0
    for size in sizes:
        for bs in range(0, 4 if tier == "quick" else 5):
            for entry in range(0, 20):
                kinds = (i % 4,) if tier == "quick" else (0, 1, 2, 3)
                i += 1
                for kind in kinds:
                    cases.append(("outboard", [kind, rng.randrange(1, 1 << 40), size, bs, entry]))
                # all-zero and sparse blobs (identical zero chunk groups at different positions)
                if i % 3 == 0 or tier == "thorough":
                    cases.append(("outboard", [1, 0, size, bs, entry]))
                    cases.append(("outboard", [4, rng.randrange(1, 1 << 40), size, bs, entry]))
    return cases


PROPS["C03"] = Prop(
    [F_OUTBOARD], gen_c03,
    "outboard: byte-size classes around chunk and group boundaries up to 32 KiB (quick) / 64 KiB plus every multiple of 512 up to "
    "32 KiB (thorough) x block sizes 0..3/4 x 20 creation entry points (incl. two creates from one handle, a handle not at position 0, sources longer than the size, two blobs back to back on one stream) (sync/fsm x pre/post x io/memory, create / create_sized / "
    "init_from over a stale outboard / outboard() into pre-sized memory outboards / outboard_post_order writers) x contents "
    "{random, constant, repeating chunk, chunk-index pattern}. Observed: root, stored bytes, load() of every node, plus the harness's own "
    "comparison with blake3::hash and bao::encode::outboard. non-trivial = more than one chunk",
    trusted=["blake3 1.8 hazmat subtree hashing = left-full tree over chunk chaining values (exercised by every case)",
             "bao 0.12.1 as the reference for the block-size-0 pre-order outboard"],
    assumptions=["model runs with real bytes use blobs <= 64 KiB and bs <= 4; theorems quantify over all sizes and bs"],
)


M64 = (1 << 64) - 1


def std_queries(n, rng, k_random=3):
    """representative queries for a blob of n chunks: all, single chunks, two ranges, cut through a group,
    past the end, u64::MAX.., hole + past-the-end, random subsets of boundaries in 0..n+2"""
    qs = [[0], [0, 1], [n - 1, n], [n, n + 1], [n + 5], [M64], [0, n], [0, n + 1]]
    if n >= 2:
        qs += [[1, 2], [0, 1, n - 1, n], [1], [0, n - 1]]
    qs += [[0, n, n + 4], [0, max(1, n - 1), n + 7], [0, n + 1, 1000]]
    if n >= 3:
        qs += [[1, n - 1], [0, 1, 2, 3], [0, 1, n + 2, n + 3], [1, 2, n, n + 9], [0, 1, 2, n - 1, n + 50]]
    if n >= 5:
        qs += [[2, 5], [3, 4], [0, 2, 4, 5]]
    for _ in range(k_random):
        qs.append(rand_query(rng, n))
    out, seen = [], set()
    for q in qs:
        q = [x for x in q if 0 <= x <= M64]
        if all(q[i] < q[i + 1] for i in range(len(q) - 1)) and tuple(q) not in seen:
            seen.add(tuple(q))
            out.append(q)
    return out


def pick_queries(n, rng, k_random, count):
    """count representative queries: the full query, then a random sample of the rest (so that interior
    ranges, cuts through groups and past-the-end forms all appear across a run, not only the first few)"""
    qs = std_queries(n, rng, k_random)
    if len(qs) <= count:
        return qs
    if count <= 2:
        return rng.sample(qs, count)
    return qs[:1] + rng.sample(qs[1:], count - 1)


ENC_SIZES = [0, 1, 1024, 1025, 2048, 2049, 3 * 1024, 4 * 1024 + 1, 5 * 1024 + 7, 8 * 1024, 8 * 1024 + 1, 13 * 1024 + 100, 16 * 1024]


def seed(rng):
    return rng.randrange(1, 1 << 40)


def gen_encode_honest(tier, rng, encoders, exhaustive_chunks):
    """intact stores: every encoder flavour, every store kind"""
    cases = []
    sizes = ENC_SIZES if tier == "quick" else ENC_SIZES + [k * 512 for k in range(1, 41)] + [31 * 1024 + 1]
    for size in sizes:
        n = nchunks(size)
        for bs in range(0, 4 if tier == "quick" else 5):
            if n <= exhaustive_chunks:
                qs = [q for q in all_subsets(range(0, n + 3))]
            else:
                qs = std_queries(n, rng, 3 if tier == "quick" else 10)
            for q in qs:
                enc = rng.choice(encoders) if (tier == "quick" and len(qs) > 12) else None
                for e in ([enc] if enc is not None else encoders):
                    cases.append(("encode", [rng.randrange(0, 3), seed(rng), size, bs, e, rng.randrange(0, 4), 0] + q))
    return cases


def gen_c04(tier, rng):
    cases = gen_encode_honest(tier, rng, [0, 1, 4], 3 if tier == "quick" else 5)
    # the non-validating encoders produce the same bytes wherever every touched group is fully selected
    # (always at block size 0; group-aligned selections above it; elsewhere: finding F6, checked under C08)
    for size in (ENC_SIZES if tier == "quick" else ENC_SIZES + [23 * 1024 + 512, 31 * 1024 + 1]):
        n = nchunks(size)
        for q in pick_queries(n, rng, 2, (8 if tier == "quick" else 24)):
            for e in (2, 3):
                cases.append(("encode", [rng.randrange(0, 3), seed(rng), size, 0, e, rng.randrange(0, 4), 0] + q))
        for bs in (1, 2, 3):
            g = 1 << bs
            groups = -(-n // g)
            qs = [[0]]
            for _ in range(4):
                k = rng.randrange(0, groups)
                m = rng.randrange(k + 1, groups + 3)
                qs += [[k * g], [k * g, m * g], [0, m * g]]
            for q in qs:
                for e in (2, 3):
                    cases.append(("encode", [rng.randrange(0, 3), seed(rng), size, bs, e, rng.randrange(0, 4), 0] + q))
    return cases


def gen_c05(tier, rng):
    cases = []
    sizes = [1, 1025, 2049, 4 * 1024 + 1, 5 * 1024 + 7, 8 * 1024, 13 * 1024 + 100] if tier == "quick" else ENC_SIZES[1:] + [31 * 1024 + 1]
    for size in sizes:
        n = nchunks(size)
        for bs in range(0, 3 if tier == "quick" else 4):
            oblen = 64 * (max(1, -(-n // (1 << bs))) - 1)
            for q in pick_queries(n, rng, 1, (6 if tier == 'quick' else 30)):
                cors = []
                stride = 997 if tier == "quick" else 257
                for pos in list(range(0, size, stride)) + [size - 1]:
                    cors.append([0, pos, 1 + rng.randrange(255)])
                for slot in range(oblen // 64):
                    for half in (0, 32):
                        cors.append([1, slot * 64 + half + rng.randrange(32), 1 + rng.randrange(255)])
                for _ in range(3):
                    k = rng.randrange(2, 5)
                    c = []
                    seenp = set()
                    for _ in range(k):
                        w = rng.randrange(0, 2) if oblen else 0
                        pos = rng.randrange(0, size if w == 0 else oblen)
                        if (w, pos) not in seenp:
                            seenp.add((w, pos))
                            c += [w, pos, 1 + rng.randrange(255)]
                    cors.append(c)
                if tier == "quick":
                    cors = rng.sample(cors, min(len(cors), 8))
                for c in cors:
                    ok = rng.randrange(0, 4)
                    sd = seed(rng)
                    for e in (0, 1, 4):
                        cases.append(("encode", [0, sd, size, bs, e, ok, len(c) // 3] + c + q))
    return cases


PROPS["C04"] = Prop(
    [F_ENCODE], gen_c04,
    "encode (intact stores): byte-size classes up to 16 KiB (quick) / every multiple of 512 up to 20 KiB and 31 KiB+1 (thorough) x bs 0..3/4 x "
    "every boundary subset in 0..nchunks+2 for blobs of <= 3/5 chunks, representative + random queries beyond, x {sync, fsm, item-stream} "
    "validating encoders x 4 store kinds; output compared with the recursive spec enc_spec (pruning rule); the two non-validating encoders at "
    "block size 0 (all queries) and on group-aligned selections at bs 1..3. The harness's bao slice "
    "comparison families are listed separately. non-trivial = non-empty output",
    trusted=["Spec/EncSpec.v enc_spec is my statement of the pruned bao format; tied to bao 0.12.1 at block size 0 by the bao family"],
)
PROPS["C05"] = Prop(
    [F_ENCODE], gen_c05,
    "encode (corrupted stores): blobs up to 13 KiB (quick) / 31 KiB (thorough) x bs 0..2/3 x representative queries x corruption sets "
    "{single data byte at a stride and at the end, each half of each stored pair, random 2-4 position combinations} x three validating "
    "encoders x four store kinds; expected result = first corrupted plan unit in the order of the honest encoding. non-trivial = non-empty output",
)


# ------------------------------------------------------------------ decode family generators
def py_mem(q, c):
    import bisect
    i = bisect.bisect_right(q, c)
    return i % 2 == 1


def py_sel(q, size):
    n = nchunks(size)
    past = (len(q) % 2 == 1) or (len(q) > 0 and q[-1] > n)
    return lambda c: c < n and (py_mem(q, c) or (c == n - 1 and past))


def honest_layout(size, bs, q):
    """(kind, id, nbytes) of every item of the honest encoding (python mirror of Spec/EncSpec.v, sizes only)"""
    sel = py_sel(q, size)
    out = []

    def nbytes(a, b):
        return min(b * 1024, size) - min(a * 1024, size)

    def rec(a, b):
        cs = range(a, b)
        if not any(sel(c) for c in cs):
            return
        n = b - a
        if n <= 1:
            out.append((1, a, nbytes(a, b)))
            return
        cap = 1 << (n - 1).bit_length()
        half = cap // 2
        if all(sel(c) for c in cs) and cap <= (1 << bs):
            out.append((1, a, nbytes(a, b)))
            return
        out.append((0, a + half - 1, 64))
        rec(a, a + half)
        rec(a + half, b)

    rec(0, nchunks(size))
    return out


def dec_case(kind, sd, size, bs, claimed, driver, sink, q, bs_s=None, size2=0, seed2=0, qs=None, ops=()):
    bs_s = bs if bs_s is None else bs_s
    qs = q if qs is None else qs
    return ("decode", [kind, sd, size, bs, claimed, driver, sink, bs_s, size2, seed2, len(q)] + list(q) + [len(qs)] + list(qs) + list(ops))


def drivers_and_sinks(rng, full):
    ds = [(0, 0), (1, 0), (4, 0)]
    sinks = range(0, 5) if full else (rng.randrange(0, 5),)
    for s in sinks:
        ds.append((2, s))
        ds.append((3, s))
    return ds


def gen_c02(tier, rng):
    cases = []
    sizes = ENC_SIZES if tier == "quick" else ENC_SIZES + [k * 512 for k in range(1, 33)] + [31 * 1024 + 1]
    exh = 3 if tier == "quick" else 5
    for size in sizes:
        n = nchunks(size)
        for bs in range(0, 4 if tier == "quick" else 5):
            qs = list(all_subsets(range(0, n + 3))) if n <= exh else std_queries(n, rng, 3 if tier == "quick" else 12)
            for q in qs:
                full = (tier == "thorough") or (n <= 2 and len(q) <= 2)
                dss = drivers_and_sinks(rng, full)
                if tier == "quick" and not full:
                    dss = rng.sample(dss, 2)
                for (d, sk) in dss:
                    cases.append(dec_case(rng.randrange(0, 3), seed(rng), size, bs, size, d, sk, q))
                # the response followed by more bytes on the same stream: exactly the response must be consumed
                (d, sk) = rng.choice(dss)
                cases.append(dec_case(rng.randrange(0, 3), seed(rng), size, bs, size, d, sk, q,
                                      ops=[4, seed(rng), rng.choice([1, 63, 64, 1000, 9000, 20000]), 0]))
    return cases


def stream_positions(layout, tier, rng, dense_limit):
    L = sum(x[2] for x in layout)
    pos = set()
    off = 0
    for (_, _, nb) in layout:
        for d in (-1, 0, 1):
            if 0 <= off + d < L:
                pos.add(off + d)
        if nb >= 64:
            pos.add(off + 31)
            pos.add(off + 32)
            pos.add(off + nb // 2)
        off += nb
    if L:
        pos.add(L - 1)
    if L <= dense_limit:
        pos.update(range(0, L))
    else:
        pos.update(range(0, L, 211 if tier == "quick" else 37))
    return sorted(pos), L


def gen_c09(tier, rng):
    cases = []
    sizes = [0, 1, 1024, 1025, 2049, 3 * 1024] if tier == "quick" else [0, 1, 1024, 1025, 2048, 2049, 3 * 1024, 4 * 1024 + 1, 5 * 1024 + 7, 8 * 1024 + 1]
    for size in sizes:
        n = nchunks(size)
        for bs in range(0, 3):
            for q in pick_queries(n, rng, 0, (4 if tier == 'quick' else 12)):
                if not q:
                    continue
                lay = honest_layout(size, bs, q)
                pos, L = stream_positions(lay, tier, rng, 300 if tier == "quick" else 2200)
                sd = seed(rng)
                for p in pos:
                    sk = rng.randrange(0, 2)
                    for d in (0, 1, rng.choice([2, 3, 4])):
                        cases.append(dec_case(0, sd, size, bs, size, d, sk, q, ops=[1, p, 0, 0]))
                    for d in (rng.randrange(0, 2), rng.choice([2, 3, 4])):
                        cases.append(dec_case(0, sd, size, bs, size, d, sk, q, ops=[2, p, 1 + rng.randrange(255), 0]))
    return cases


def gen_c01(tier, rng):
    cases = []
    sizes = [1, 1025, 2049, 3 * 1024, 5 * 1024 + 7, 8 * 1024 + 1] if tier == "quick" else ENC_SIZES[1:]
    contents = (0, 1, 2)
    for size in sizes:
        n = nchunks(size)
        for bs in range(0, 3 if tier == "quick" else 4):
            for q in pick_queries(n, rng, 1, (5 if tier == 'quick' else 20)):
                if not q:
                    continue
                kind = rng.choice(contents)
                sd = seed(rng)
                lay = honest_layout(size, bs, q)
                pos, L = stream_positions(lay, tier, rng, 0)
                if tier == "quick":
                    pos = rng.sample(pos, min(len(pos), 6))
                muts = []
                for p in pos:
                    muts.append([2, p, 1 + rng.randrange(255), 0])
                    muts.append([1, p, 0, 0])
                muts.append([4, seed(rng), rng.randrange(1, 200), 0])        # extended with random bytes
                muts.append([5, 64, 0, 0])                                    # extended with zeros
                off = 0
                leaf_offs = []
                for (k, _, nb) in lay:
                    if k == 0:
                        muts.append([3, off, 0, 0])                           # hash halves swapped
                    else:
                        leaf_offs.append((off, nb))
                    off += nb
                if len(leaf_offs) >= 2:
                    (o1, n1), (o2, n2) = leaf_offs[0], leaf_offs[-1]
                    muts.append([7, o1, o2, min(n1, n2)])                     # leaf replayed from another offset
                    muts.append([7, o2, o1, min(n1, n2)])
                muts.append([1, 0, 0, 0, 4, seed(rng), max(L, 64), 0])        # random stream
                muts.append([1, 0, 0, 0, 5, max(L, 64), 0, 0])                # all-zero stream
                # items spliced in from the honest encoding of a different blob (same geometry)
                if lay:
                    i = rng.randrange(len(lay))
                    o = sum(x[2] for x in lay[:i])
                    muts.append([6, o, lay[i][2], o])
                    muts.append([1, o, 0, 0, 8, o, L, 0])                     # honest prefix then the other blob's tail
                for m in muts:
                    d, sk = rng.choice(drivers_and_sinks(rng, False))
                    cases.append(dec_case(kind, sd, size, bs, size, d, sk, q, size2=size, seed2=sd + 1, ops=m))
                # stream for a different query / block size, and a wrong claimed size
                q2 = rng.choice(std_queries(n, rng, 1)) or [0]
                d, sk = rng.choice(drivers_and_sinks(rng, False))
                cases.append(dec_case(kind, sd, size, bs, size, d, sk, q, qs=q2))
                cases.append(dec_case(kind, sd, size, bs, size, d, sk, q, bs_s=(bs + 1) % 4))
                for claimed in (size + 1, max(0, size - 1), size + 1024, (n - 1) * 1024 if n > 1 else 2048):
                    if claimed != size:
                        d2 = rng.randrange(0, 4)
                        cases.append(dec_case(kind, sd, size, bs, claimed, d2, rng.randrange(0, 2), q))
    return cases


def gen_c16(tier, rng):
    cases = []
    sizes = [0, 1, 500, 1024, 1025, 1500, 2000, 2048, 2049, 3 * 1024, 4 * 1024 + 1, 5000, 5100, 8 * 1024, 8 * 1024 + 1, 12 * 1024]
    if tier == "quick":
        sizes = [0, 1, 1024, 1025, 1500, 2000, 2049, 4 * 1024 + 1, 5000, 5100, 8 * 1024]
    big = sorted({(1 << k) + d for k in range(10, 64) for d in (-1, 0, 1)} - {(1 << 63) + 1})
    for size in sizes:
        n = nchunks(size)
        for bs in (0, 2, 4) if tier == "thorough" else (0, 2):
            sd = seed(rng)
            for claimed in [c for c in sizes if c != size] + (big if tier == "thorough" else rng.sample(big, 12)):
                nc = nchunks(claimed)
                for q in ([0], [M64], [0, 1, nc + 2, nc + 3]):
                    d = rng.randrange(0, 2) if claimed > 64 * 1024 else rng.randrange(0, 4)
                    sk = rng.randrange(0, 2)
                    # honest encoding for the true geometry
                    cases.append(dec_case(0, sd, size, bs, claimed, d, sk, q))
                    if claimed <= 16 * 1024:
                        # honest encoding of the padded / truncated blob for the claimed geometry, and a mixture
                        cases.append(dec_case(0, sd, size, bs, claimed, d, sk, q, size2=claimed, seed2=sd, ops=[1, 0, 0, 0, 8, 0, 1 << 20, 0]))
                        cases.append(dec_case(0, sd, size, bs, claimed, d, sk, q, size2=claimed, seed2=sd, ops=[1, 64, 0, 0, 8, 64, 1 << 20, 0]))
    return cases


def gen_c20(tier, rng):
    cases = []
    for size in ([0, 1, 1024, 1025, 3000, 8 * 1024 + 1] if tier == "quick" else [0, 1, 1024, 1025, 2048, 3000, 5 * 1024, 8 * 1024 + 1, 16 * 1024]):
        n = nchunks(size)
        for bs in range(0, 3):
            for q in pick_queries(n, rng, 1, (6 if tier == 'quick' else 20)) + [[]]:
                sd = seed(rng)
                lay = honest_layout(size, bs, q)
                L = sum(x[2] for x in lay)
                for d in (0, 1, 4):
                    cases.append(dec_case(0, sd, size, bs, size, d, 0, q))
                    # every prefix of the decode step sequence: cut after each item, and inside each item
                    off = 0
                    for (_, _, nb) in lay:
                        cases.append(dec_case(0, sd, size, bs, size, d, 0, q, ops=[1, off, 0, 0]))
                        cases.append(dec_case(0, sd, size, bs, size, d, 0, q, ops=[2, off + nb // 2, 7, 0]))
                        off += nb
                    cases.append(dec_case(0, sd, size, bs, size, d, 0, q, ops=[4, seed(rng), 100, 0]))
    return cases


DEC_ASSUME = ["model runs with real bytes use blobs <= 32 KiB and bs <= 4; theorems quantify over all sizes and bs"]
PROPS["C02"] = Prop(
    [F_DECODE], gen_c02,
    "decode (honest streams from the independent reference encoder): byte-size classes up to 16 KiB / 31 KiB x bs 0..3/4 x every boundary "
    "subset in 0..nchunks+2 for blobs of <= 3/5 chunks (incl. the empty query), representative + random queries beyond, x {sync iterator, "
    "fsm machine, sync decode_ranges, fsm decode_ranges} x five sink kinds. non-trivial = non-empty stream",
    assumptions=DEC_ASSUME)
PROPS["C09"] = Prop(
    [F_DECODE], gen_c09,
    "decode: every truncation length and every single-byte alteration position of the honest stream for streams <= 300 bytes (quick) / 2200 bytes "
    "(thorough), strided beyond plus every item boundary +-1 and the middle of each hash; blobs of 0..3 / 0..9 chunks, bs 0..2, sync and fsm, "
    "iterator and decode_ranges drivers. non-trivial = non-empty stream",
    assumptions=DEC_ASSUME)
PROPS["C01"] = Prop(
    [F_DECODE], gen_c01,
    "decode (hostile streams): honest encodings with a byte changed / truncated at item boundaries +-1 and strided positions, extended with "
    "random or zero bytes, hash halves swapped at every parent, leaves replayed from another offset, items and tails spliced in from the honest "
    "encoding of a different blob, whole streams for a different query / block size, random and all-zero streams, wrong claimed sizes; contents "
    "{random, constant, repeating chunk}; four drivers, five sinks. non-trivial = non-empty stream",
    assumptions=DEC_ASSUME)
PROPS["C16"] = Prop(
    [F_DECODE], gen_c16,
    "decode with a wrong claimed size: all pairs (true, claimed) over byte-size classes up to 12 KiB, claimed sizes 2^k, 2^k+-1 up to 2^63, "
    "bs {0,2,4}, size-proof queries {all, u64::MAX.., hole + past-the-end}, streams {honest for the true geometry, honest encoding of the padded / "
    "truncated blob for the claimed geometry, mixture}. non-trivial = non-empty stream",
    assumptions=DEC_ASSUME)
PROPS["C20"] = Prop(
    [F_DECODE], gen_c20,
    "decode with accessor trace: hash() and tree() of the fsm decoder before every step and after an error, tree() of the sync iterator, "
    "reader position at Done; blobs of 0, 1, 1024, 1025, 3000, 8 KiB+1 bytes (more in thorough) x bs 0..2 x queries x {honest, cut after every "
    "item, altered inside every item, extended}. non-trivial = non-empty stream",
    assumptions=DEC_ASSUME)


def gen_c06(tier, rng):
    cases = []
    sizes = [0, 1, 1025, 2049, 4 * 1024 + 1, 5 * 1024 + 7, 8 * 1024, 13 * 1024 + 100] if tier == "quick" else ENC_SIZES + [23 * 1024 + 512, 31 * 1024 + 1]
    for size in sizes:
        n = nchunks(size)
        for bs in range(0, 3 if tier == "quick" else 4):
            oblen = 64 * (max(1, -(-n // (1 << bs))) - 1)
            for q in pick_queries(n, rng, 1, (5 if tier == 'quick' else 24)):
                cors = [[]]
                stride = 1499 if tier == "quick" else 311
                for pos in list(range(0, size, stride)) + ([size - 1] if size else []):
                    cors.append([0, pos, 1 + rng.randrange(255)])
                for slot in range(oblen // 64):
                    for half in (0, 32):
                        cors.append([1, slot * 64 + half + rng.randrange(32), 1 + rng.randrange(255)])
                for _ in range(3):
                    c = []
                    seenp = set()
                    for _ in range(rng.randrange(2, 5)):
                        w = rng.randrange(0, 2) if oblen else 0
                        pos = rng.randrange(0, max(1, size if w == 0 else oblen))
                        if (w, pos) not in seenp:
                            seenp.add((w, pos))
                            c += [w, pos, 1 + rng.randrange(255)]
                    cors.append(c)
                # zero-filled (never written) regions of data and outboard
                if size > 1:
                    cors.append([2, rng.randrange(0, size), 0])
                    cors.append([2, (rng.randrange(0, n)) * 1024, 0])
                if oblen:
                    cors.append([3, 64 * rng.randrange(0, oblen // 64), 0])
                    cors.append([3, 0, 0])
                if tier == "quick":
                    cors = [[]] + rng.sample(cors[1:], min(len(cors) - 1, 7))
                for c in cors:
                    v = rng.randrange(0, 4)
                    ok = rng.randrange(0, 5)
                    cases.append(("validate", [0 if size else 0, seed(rng), size, bs, v, ok, len(c) // 3] + c + q))
                # a node-keyed store from which some pairs are missing (load answers None): nothing below a missing pair is reported
                nslots = oblen // 64
                if nslots >= 1:
                    for _ in range(2):
                        miss = sorted(set(rng.randrange(0, nslots) for _ in range(rng.randrange(1, 3))))
                        c = []
                        for m in miss:
                            c += [7, m, 1]
                        for v in range(0, 4):
                            cases.append(("validate", [0, seed(rng), size, bs, v, 5, len(miss)] + c + q))
                # partially filled data file (shorter than the blob), with contents that repeat from group to group
                if size > 1024:
                    for _ in range(2):
                        cut = rng.choice([rng.randrange(1, size), (rng.randrange(1, n)) * 1024, size - 1])
                        for v in (0, 2):
                            cases.append(("validate", [rng.choice([1, 2]), seed(rng), size, bs, v, rng.randrange(0, 4), 1, 4, cut, 0] + q))
    return cases


def known_nonblank(r):
    return False


PROPS["C06"] = Prop(
    [F_VALIDATE], gen_c06,
    "validate: blobs up to 13 KiB (quick) / 31 KiB (thorough) x bs 0..2/3 x representative queries x stores {intact, one data byte altered "
    "(strided), each half of each stored pair altered, random 2-4 position combinations, data zero-filled from a position / chunk boundary, "
    "outboard zero-filled from a slot / entirely} x {sync, fsm} x {data, outboard-only} validators x five outboard kinds. "
    "non-trivial = at least one range reported or withheld",
    assumptions=DEC_ASSUME)


# ------------------------------------------------------------------ C08 agreement families
F_AGREE_ENC = Family("agree_enc", "Run.RunProto", "run_agree_enc", "holds_agree_enc", lambda a, o: len(o) > 3 and o[2] > 0)
F_AGREE_DEC = Family("agree_dec", "Run.RunProto", "run_agree_dec", "holds_agree_dec", lambda a, o: len(o) > 12)
F_AGREE_OB = Family("agree_ob", "Run.RunProto", "run_agree_ob", "holds_agree_ob", lambda a, o: a[2] > 1024)
for f in (F_OUTBOARD, F_ENCODE, F_DECODE, F_VALIDATE, F_AGREE_ENC, F_AGREE_DEC, F_AGREE_OB):
    f.shard_cases = 40


def gen_c08(tier, rng):
    cases = []
    # encoders: intact and corrupted stores
    for (fam, args) in gen_c04(tier, rng)[:: (3 if tier == "quick" else 2)]:
        cases.append(("agree_enc", args))
    for (fam, args) in gen_c05(tier, rng)[:: (3 if tier == "quick" else 2)]:
        cases.append(("agree_enc", args))
    # decoders: honest and tampered streams, all drivers
    for (fam, args) in gen_c02(tier, rng)[:: (12 if tier == "quick" else 4)]:
        cases.append(("agree_dec", args))
    for (fam, args) in gen_c01(tier, rng)[:: (6 if tier == "quick" else 2)]:
        cases.append(("agree_dec", args))
    for (fam, args) in gen_c09(tier, rng)[:: (12 if tier == "quick" else 4)]:
        cases.append(("agree_dec", args))
    # outboards
    sizes = BLOB_SIZES if tier == "quick" else BLOB_SIZES + [k * 512 for k in range(1, 41)]
    for size in sizes:
        for bs in range(0, 3 if tier == "quick" else 5):
            cases.append(("agree_ob", [rng.randrange(0, 4), seed(rng), size, bs]))
    return cases


def known_f6(r):
    """non-validating encoders differ from the validating ones when a touched chunk group is not fully selected"""
    if r["family"] != "agree_enc":
        return False
    a = r["args"]
    size, bs, ncor = a[2], a[3], a[6]
    if ncor != 0:
        return False
    q = a[7:]
    if not q:
        return False
    sel = py_sel(q, size)
    n = nchunks(size)
    g = 1 << bs
    for ga in range(0, n, g):
        cs = range(ga, min(ga + g, n))
        if any(sel(c) for c in cs) and not all(sel(c) for c in cs):
            return True
    return False


KNOWN_CLASSES["f6_partial_group"] = known_f6

PROPS["C08"] = Prop(
    [F_AGREE_ENC, F_AGREE_DEC, F_AGREE_OB], gen_c08,
    "agree_enc: the five encoders (sync/fsm validating, sync/fsm non-validating, item stream) side by side on the encode cases of C04 "
    "(intact) and C05 (corrupted); agree_dec: the four decode drivers side by side on the streams of C02, C01 and C09; agree_ob: all 15 "
    "outboard creation entry points side by side. Each implementation is also compared with its own separately transcribed model. "
    "non-trivial = non-empty output / stream / more than one chunk",
    assumptions=DEC_ASSUME)


# ------------------------------------------------------------------ C07 histories
F_HISTORY = Family("history", "Run.RunProto", "run_history", "holds_history", lambda a, o: a[7] >= 2)
F_HISTORY.shard_cases = 24


def hist_alphabet(size, bs, rng, k):
    """(query, cutkind, cutparam) triples: complete, cut at / inside item boundaries, failing writes / saves"""
    n = nchunks(size)
    qs = std_queries(n, rng, 2)
    qs = [q for q in qs if q]
    ops = []
    for q in qs:
        lay = honest_layout(size, bs, q)
        L = sum(x[2] for x in lay)
        ops.append((q, 0, 0))
        off = 0
        nl = sum(1 for x in lay if x[0] == 1)
        npar = len(lay) - nl
        for (kd, _, nb) in lay:
            ops.append((q, 1, off))
            ops.append((q, 1, off + nb // 2))
            off += nb
        for i in range(nl):
            ops.append((q, 2, i))
        for i in range(npar):
            ops.append((q, 3, i))
            ops.append((q, 4, i))
    rng.shuffle(ops)
    # always keep a few completing ops so that histories converge
    comp = [(q, 0, 0) for q in ([0], [0, max(1, n // 2)], [n // 2])]
    return comp + ops[: max(0, k - len(comp))]


def enc_op(op):
    q, ck, cp = op
    return [len(q)] + list(q) + [ck, cp]


def gen_c07(tier, rng):
    cases = []
    sizes = [1025, 3 * 1024 + 5, 5 * 1024 + 7, 7 * 1024] if tier == "quick" else [1025, 2048, 3 * 1024 + 5, 4 * 1024 + 1, 5 * 1024 + 7, 7 * 1024, 11 * 1024 + 3, 14 * 1024]
    depth = 2 if tier == "quick" else 3
    for size in sizes:
        for bs in range(0, 3):
            combos = [(s, d) for s in range(0, 4) for d in (2, 3)] + [(5, 2), (6, 2)]   # 5 / 6: io-backed sinks over a store taking 48 bytes per write
            for (sink, driver) in (rng.sample(combos, 2) if tier == "quick" else combos):
                alpha = hist_alphabet(size, bs, rng, 8 if tier == "quick" else 7)
                sd = seed(rng)
                # recycled (non-zero) targets with blobs that contain all-zero chunk groups, or zeroed targets with random blobs
                kind, prefill = rng.choice([(0, 0), (0, 170), (4, 170), (4, 85)])
                import itertools
                for seq_ in itertools.product(alpha, repeat=depth):
                    ops = []
                    for op in seq_:
                        ops += enc_op(op)
                    cases.append(("history", [kind, sd, size, bs, sink, driver, prefill, depth] + ops))
                big = hist_alphabet(size, bs, rng, 40)
                for _ in range(6 if tier == "quick" else 40):
                    ln = rng.randrange(3, 9 if tier == "quick" else 13)
                    ops = []
                    for _ in range(ln):
                        ops += enc_op(rng.choice(big))
                    cases.append(("history", [kind, sd, size, bs, sink, driver, prefill, ln] + ops))
    return cases


PROPS["C07"] = Prop(
    [F_HISTORY], gen_c07,
    "history: blobs of 2..7 (quick) / 2..14 (thorough) chunks without zero chunks x bs 0..2 x sinks {pre/post order x io/memory} x {sync, fsm} "
    "decode_ranges; alphabet = queries (all, halves, single chunks, sub-group, past-the-end, random) x {complete, stream cut at every item boundary and "
    "inside every item, k-th target write fails, k-th save fails}; ALL sequences of depth 2 (quick) / 3 (thorough) over an 8 / 7 letter alphabet per "
    "configuration plus random sequences of length up to 8 / 12. After every step: target bytes, outboard bytes, valid_ranges. non-trivial = at least two steps",
    assumptions=DEC_ASSUME + ["blobs contain no all-zero chunk (otherwise 'exactly the delivered groups' is false of any implementation)"])


# ------------------------------------------------------------------ C19 serde
F_SERDE = Family("serde", "Run.RunSerde", "run_serde", "holds_serde", lambda a, o: True)
F_SERDE.shard_cases = 60
MSGS = ["boom", "", "with \"quotes\" and \\ backslash", "\u00fcn\u00efc\u00f6d\u00e9 \u2713", "a:b:c", "line\nbreak\ttab"]


def gen_c19(tier, rng):
    cases = []
    nrand = 40 if tier == "quick" else 400

    def node():
        lvl = rng.randrange(0, 53)
        k = rng.randrange(0, 1 << rng.randrange(1, 62 - lvl))
        return (2 * k + 1) * (1 << lvl) - 1

    lens = [0, 1, 63, 64, 65, 1024, 16 * 1024] + ([64 * 1024] if tier == "thorough" else [])
    for fmt in (0, 1):
        for x in [0, 1, 127, 128, 16383, 16384, (1 << 32), (1 << 63), (1 << 63) - 1, (1 << 62) - 1, 3 * (1 << 61) - 1, M64 - 1, M64] + [node() for _ in range(nrand)]:
            cases.append(("serde", [0, fmt, x]))
            cases.append(("serde", [1, fmt, x]))
        for _ in range(nrand):
            cases.append(("serde", [2, fmt, node(), seed(rng)]))
            cases.append(("serde", [4, fmt, 0, node(), seed(rng)]))
            cases.append(("serde", [5, fmt, 1, node(), seed(rng)]))
        for ln in lens + [rng.randrange(0, 3000) for _ in range(nrand // 4)]:
            off = rng.choice([0, 1024, rng.randrange(0, 1 << 62), M64])
            cases.append(("serde", [3, fmt, off, ln, seed(rng)]))
            cases.append(("serde", [4, fmt, 1, off, ln, seed(rng)]))
            cases.append(("serde", [5, fmt, 2, off, ln, seed(rng)]))
        for v in range(0, 5):
            for x in (0, 5, node(), M64):
                cases.append(("serde", [6, fmt, v, x]))
                cases.append(("serde", [5, fmt, 3, v, x]))
        for kc in range(0, 5):
            for m in MSGS:
                mb = list(m.encode())
                cases.append(("serde", [6, fmt, 5, kc, len(mb)] + mb))
                cases.append(("serde", [5, fmt, 3, 5, kc, len(mb)] + mb))
        cases.append(("serde", [5, fmt, 0, rng.randrange(0, 1 << 63)]))
        cases.append(("serde", [5, fmt, 0, M64]))
        cases.append(("serde", [5, fmt, 4]))
        # io errors without a payload (bare kinds, raw OS errors): the message must still come back
        for kc in range(0, 5):
            cases.append(("serde", [6, fmt, 6, kc]))
        for os_code in (1, 2, 5, 13, 21, 28, 32, 104):
            cases.append(("serde", [6, fmt, 7, os_code]))
    return cases


PROPS["C19"] = Prop(
    [F_SERDE], gen_c19,
    "serde: TreeNode / ChunkNum over boundary values and random nodes of all levels, Parent with random hashes, Leaf with payload lengths "
    "0, 1, 63, 64, 65, 1 KiB, 16 KiB (64 KiB thorough) and random, BaoContentItem / EncodedItem in every variant, EncodeError in every variant incl. "
    "io errors of five kinds with messages containing quotes, backslashes, non-ASCII and control characters; postcard (bytes compared with the "
    "model's wire format, round trip) and serde_json (text compared for scalar/struct types, round trip for all). non-trivial = all",
    trusted=["serde derive expansion and serde_json's lexer / printer are trusted at the data-model level (C19 is partial there: the JSON side is "
             "carried by the round-trip runs, the postcard side by theorems)", "postcard 1.0.8 wire format as modelled in Model/Serde.v"],
)


# ------------------------------------------------------------------ C11 / C10 (stream side): scheduled readers
F_SCHED = Family("sched", "Run.RunSched", "run_sched", "holds_sched", lambda a, o: len(a) > 10)
F_SCHED.shard_cases = 40


def frags_from_cuts(cuts, L):
    pts = sorted(set(c for c in cuts if 0 < c < L))
    out, prev = [], 0
    for c in pts:
        out.append(c - prev)
        prev = c
    return out


def sched_case(kind, sd, size, bs, driver, fail, cut, q, evs):
    fk, fkind = fail if fail else (0, 0)
    flat = []
    for e in evs:
        flat += list(e)
    return ("sched", [kind, sd, size, bs, driver, fk, fkind, cut, len(q)] + list(q) + flat)


def gen_sched(tier, rng, with_faults):
    cases = []
    sizes = [1, 1025, 2049, 3 * 1024, 5 * 1024 + 7] if tier == "quick" else [0, 1, 1024, 1025, 2049, 3 * 1024, 4 * 1024 + 1, 5 * 1024 + 7, 8 * 1024 + 1]
    for size in sizes:
        n = nchunks(size)
        for bs in range(0, 3):
            for q in pick_queries(n, rng, 1, (3 if tier == 'quick' else 10)):
                if not q:
                    continue
                lay = honest_layout(size, bs, q)
                L = sum(x[2] for x in lay)
                bounds, off = [], 0
                for (_, _, nb) in lay:
                    off += nb
                    bounds.append(off)
                cand = sorted(set(b + d for b in bounds for d in (-1, 0, 1) if 0 < b + d < L))
                sd = seed(rng)
                scheds = []
                # cut sets around item boundaries: all singletons and pairs for short streams, random subsets otherwise
                import itertools
                subsets = [[c] for c in cand] + ([list(p) for p in itertools.combinations(cand, 2)] if len(lay) <= 6 else [])
                subsets += [sorted(rng.sample(cand, rng.randrange(1, len(cand) + 1))) for _ in range(6)] if cand else []
                if tier == "quick":
                    subsets = rng.sample(subsets, min(len(subsets), 6))
                for sub in subsets:
                    scheds.append([(0, f) for f in frags_from_cuts(sub, L)])
                scheds.append([(0, 1)] * min(L, 700))                       # one byte at a time
                scheds.append([(0, rng.randrange(1, 100)) for _ in range(60)])  # arbitrary short reads
                scheds.append([(0, 64), (0, 1), (0, 63), (0, 1024)] * 10)
                for sc in scheds:
                    for driver in (0, 1, 2):
                        evs = list(sc)
                        # Pending between polls (async) / Interrupted anywhere (sync; for one async case in four)
                        intr_fsm = rng.random() < 0.25
                        mixed = []
                        for e in evs:
                            if driver == 1 and rng.random() < 0.4:
                                mixed.append((2, 0))
                            if driver == 1 and intr_fsm and rng.random() < 0.15:
                                mixed.append((1, 0))        # tokio does not retry Interrupted: it surfaces as Io(Interrupted)
                            if driver in (0, 2) and rng.random() < 0.2:
                                mixed.append((1, 0))
                            mixed.append(e)
                        for cut in (0, 0, rng.randrange(1, L + 1) if L else 0):
                            cases.append(sched_case(0, sd, size, bs, driver, None, cut, q, mixed))
                if with_faults:
                    # the k-th read of the stream reader fails, for every k up to the fault-free call count (sync read sizes are exact)
                    for k in range(0, 2 * len(lay) + 3):
                        # (6 = TimedOut: a transient-looking kind must surface like any other)
                        for kindc in ((0, 1, 2, 3, 6) if tier == "thorough" else (rng.choice([0, 1, 2, 3, 6]),)):
                            sc = rng.choice(scheds)
                            cases.append(sched_case(0, sd, size, bs, rng.choice([0, 0, 2]), (k + 1, kindc), 0, q, sc))
        # outboard creation through a scheduled data reader
        for bs in range(0, 3):
            sd = seed(rng)
            for _ in range(4 if tier == "quick" else 12):
                sc = [(0, rng.choice([1, 7, 64, 1000, 1023, 1024, 1025, 3000]))] * rng.randrange(1, 40)
                mixed = []
                for e in sc:
                    if rng.random() < 0.2:
                        mixed.append((1, 0))
                    mixed.append(e)
                drv = rng.choice([4, 5])
                cases.append(sched_case(rng.randrange(0, 3), sd, size, bs, drv, None, 0, [], mixed))
                cases.append(sched_case(0, sd, size, bs, 9 - drv, None, 0, [], mixed))
                cases.append(sched_case(0, sd, size, bs, drv, None, rng.randrange(1, size + 1) if size else 0, [], mixed))
                if with_faults:
                    cases.append(sched_case(0, sd, size, bs, 4, (rng.randrange(1, 2 * n + 3), rng.randrange(0, 4)), 0, [], mixed))
    return cases


PROPS["C11"] = Prop(
    [F_SCHED], lambda tier, rng: gen_sched(tier, rng, False),
    "sched: honest and truncated streams under readers that fragment at cut sets around every item boundary (all singletons and pairs for streams "
    "of <= 6 items, random subsets beyond), one byte at a time, arbitrary short reads, with Interrupted returns (sync Read) and Pending polls between "
    "reads (tokio AsyncRead behind TokioStreamReader); sync DecodeResponseIter, fsm ResponseDecoder, and sync outboard_post_order reading the blob "
    "through such a reader. Compared with the unfragmented run (oracle) and with the model's read loops. non-trivial = at least one schedule event",
    trusted=["std Read::read_exact, tokio read_exact, iroh-io 0.6.2 TokioStreamReader (take + read_to_end) as transcribed in Model/IOSched.v",
             "poll-level suspension is exhibited by the harness only: in the model an await is 'poll until ready' (C11 is partial there)"],
    assumptions=DEC_ASSUME)


# ------------------------------------------------------------------ C10 fault enumeration
F_FAULT = Family("fault", "Run.RunFault", "run_fault", "holds_fault", lambda a, o: a[6] > 0)
F_FAULT.shard_cases = 60
OP_OBJECTS = {0: (1, 7, 8), 1: (1, 7, 8), 9: (1, 7, 8), 2: (1, 7), 3: (1, 4), 4: (1, 4), 5: (2, 6, 4), 6: (2, 6, 4), 7: (2, 6, 4), 8: (2, 6, 4),
              10: (3, 5, 7), 11: (3, 5, 7), 12: (6, 7), 13: (6, 7), 14: (6, 2), 15: (6, 2), 16: (6,), 17: (6,)}


def gen_c10(tier, rng):
    cases = gen_sched(tier, rng, True)[:: (4 if tier == "quick" else 1)]
    sizes = [0, 1, 1025, 3 * 1024 + 5, 5 * 1024 + 7] if tier == "quick" else [0, 1, 1024, 1025, 2049, 3 * 1024 + 5, 5 * 1024 + 7, 8 * 1024 + 1]
    for size in sizes:
        n = nchunks(size)
        for bs in (0, 1, 2):
            sd = seed(rng)
            for op, objs in OP_OBJECTS.items():
                needs_q = op in (5, 6, 7, 8, 10, 11, 14, 15, 16, 17)
                qs = pick_queries(n, rng, 1, (2 if tier == 'quick' else 6)) if needs_q else [[]]
                if needs_q:
                    qs = [q for q in qs if q] or [[0]]
                for q in qs:
                    okind = rng.randrange(0, 4)
                    base = [0, sd, size, bs, op]
                    cases.append(("fault", base + [0, 0, 0, okind] + q))
                    maxk = 2 * n + 4
                    for fo in objs:
                        ks = range(0, maxk) if tier == "thorough" else sorted(set([0, 1, 2, maxk - 1] + [rng.randrange(0, maxk) for _ in range(3)]))
                        for k in ks:
                            kinds = (0, 1, 2, 3) if tier == "thorough" else (rng.randrange(0, 4),)
                            for kc in kinds:
                                cases.append(("fault", base + [fo, k + 1, kc, okind] + q))
    return cases


PROPS["C10"] = Prop(
    [F_FAULT, F_SCHED], gen_c10,
    "fault: operations {sync / fsm outboard creation into an outboard (+sync), sync / fsm outboard_post_order, sync / fsm validating and non-validating "
    "encoders, sync / fsm decode_ranges, sync / fsm copy, sync / fsm valid_ranges and valid_outboard_ranges} x every io object involved (sequential data reader, positioned data reader, "
    "stream reader, stream writer, target, outboard load / save / sync) x failing call index k (every k up to the fault-free count in thorough; first, "
    "last and random in quick) x kinds {Other, UnexpectedEof, ConnectionReset, WriteZero}; observation = result + the full call log of the wrappers. "
    "the certified checker holds_fault accepts: result = the injected io error (or NotFound for a decoder at EOF), exactly k+1 calls on the failed object with the failing one last, log = prefix of the fault-free log; "
    "for a ConnectionReset on the stream writer of the two fsm encoders it accepts only ParentWrite / LeafWrite (which item is named is compared with the model). "
    "sched: the k-th read of a fragmenting stream reader fails. non-trivial = a fault is injected",
    trusted=["the io wrappers of harness/src/fault.rs define what a 'call' is (one log entry per trait method call)",
             "what the OS / runtime does around a failing call (partial writes inside write_all, cancellation of a pending future) is outside the model: C10 is partial there"],
    assumptions=DEC_ASSUME)


# ------------------------------------------------------------------ bao / copy / grow families
F_BAO = Family("bao", "Run.RunProto", "run_bao", "holds_bao", lambda a, o: a[2] > 1024)
F_COPY = Family("copy", "Run.RunProto", "run_copy", "holds_copy", lambda a, o: a[2] > 2048)
F_GROW = Family("grow", "Run.RunProto", "run_grow", "holds_grow", lambda a, o: a[3] > a[2])
for f in (F_BAO, F_COPY, F_GROW):
    f.shard_cases = 40


def gen_bao(tier, rng):
    cases = []
    for size in (ENC_SIZES if tier == "quick" else ENC_SIZES + [k * 512 for k in range(1, 33)]):
        n = nchunks(size)
        rs = [(a, b) for a in range(0, n + 2) for b in range(a + 1, n + 3)]
        if tier == "quick":
            rs = rng.sample(rs, min(len(rs), 8))
        for (a, b) in rs:
            cases.append(("bao", [rng.randrange(0, 3), seed(rng), size, a, b]))
    return cases


def gen_copy(tier, rng):
    cases = []
    for size in (BLOB_SIZES[::2] if tier == "quick" else BLOB_SIZES):
        for bs in range(0, 3):
            for fk in range(0, 4):
                for tk in range(0, 5) if tier == "thorough" else (rng.randrange(0, 5),):
                    cases.append(("copy", [0, seed(rng), size, bs, fk, tk, rng.randrange(0, 2)]))
            # incomplete node-keyed source: pairs missing at some slots, all others must be copied
            nb = max(1, -(-nchunks(size) // (1 << bs)))
            if nb > 2:
                for _ in range(2):
                    rem = sorted(set(rng.randrange(0, nb - 1) for _ in range(rng.randrange(1, 3))))
                    cases.append(("copy", [0, seed(rng), size, bs, 5, rng.randrange(0, 4), 0] + rem))
    return cases


def gen_grow(tier, rng):
    cases = []
    maxg = 12 if tier == "quick" else 24
    for bs in range(0, 3):
        g = 1024 << bs
        sizes = sorted({k * g + d for k in range(0, maxg + 1) for d in (0, 1, g // 2, g - 1)} - {0})
        sizes = [s for s in sizes if s <= 32 * 1024]
        pairs = [(s1, s2) for s1 in sizes for s2 in sizes if s1 <= s2]
        if tier == "quick":
            pairs = rng.sample(pairs, min(len(pairs), 120))
        elif len(pairs) > 1500:
            pairs = rng.sample(pairs, 1500)
        for i, (s1, s2) in enumerate(pairs):
            # route 0: memory outboards from slices; 1: one file handle appended to and re-hashed with create();
            # 2: outboard_post_order into a sink that takes at most 48 bytes per write
            cases.append(("grow", [0, seed(rng), s1, s2, bs, i % 3]))
    return cases


_old_c04 = PROPS["C04"]
PROPS["C04"] = Prop(
    [F_ENCODE, F_BAO], lambda tier, rng: gen_c04(tier, rng) + gen_bao(tier, rng),
    _old_c04.rule + " bao: every single chunk range [a,b) with b <= nchunks+2 (sampled in quick) on the same size classes: bao::encode::SliceExtractor output = "
    "little-endian size ++ block-size-0 encoding (crate and spec), and bao::decode::SliceDecoder accepts it and returns the selected bytes.",
    trusted=_old_c04.trusted)
_old_c12 = PROPS["C12"]
PROPS["C12"] = Prop(
    [F_TREE, F_OFFSETS, F_COPY], lambda tier, rng: gen_c12(tier, rng) + gen_copy(tier, rng),
    _old_c12.rule + "; copy: sync / fsm copy between every pair of outboard kinds and flip().flip() of the memory outboards on real outboards up to 32 KiB",
    assumptions=_old_c12.assumptions)
_old_c13 = PROPS["C13"]
PROPS["C13"] = Prop(
    [F_TREE, F_OFFSETS, F_GROW], lambda tier, rng: gen_c12(tier, rng) + gen_grow(tier, rng),
    "geometry families of C12 (Stable / Unstable tag and slot of every node); grow: pairs (prefix length, extended length) over byte-size classes "
    "{k groups, +1 byte, half group, group-1} up to 12 (quick, 120 sampled pairs per block size) / 24 groups (thorough), bs 0..2, real hashing: the "
    "common byte prefix of the two post-order outboards covers at least the stable pairs. non-trivial = more than one block / proper extension",
    assumptions=_old_c13.assumptions)


def gen_odd_providers(tier, rng):
    """providers whose data file is shorter (a group-aligned prefix) or longer than the blob the outboard describes"""
    cases = []
    for size in ([5 * 1024 + 7, 16 * 1024 + 1] if tier == "quick" else [2049, 5 * 1024 + 7, 8 * 1024, 16 * 1024 + 1, 31 * 1024]):
        n = nchunks(size)
        for bs in (0, 1, 2):
            g = 1 << bs
            groups = -(-n // g)
            if groups < 2:
                continue
            for _ in range(2 if tier == "quick" else 6):
                c = rng.randrange(1, groups) * g          # chunks held (group aligned)
                a0 = rng.randrange(0, c)
                qs = [[0, c], [a0, c], [0, max(1, c - 1)], [0, c + 1], [0, 1, a0 + 1, c] if a0 >= 1 else [0, c]]
                qs = [q for q in qs if all(q[i] < q[i + 1] for i in range(len(q) - 1))]
                sd = seed(rng)
                for cor in ([4, c * 1024, 0], [4, min(size, c * 1024 + rng.randrange(1, 1024)), 0], [5, rng.choice([1, 700, 5000]), 0]):
                    for q in qs + ([[0], [n - 1, n + 3]] if cor[0] == 5 else []):
                        # (the non-validating encoders only at block size 0: above it they send partially selected groups whole, finding F6)
                        for e in (range(0, 5) if bs == 0 else (0, 1, 4)):
                            cases.append(("encode", [0, sd, size, bs, e, rng.randrange(0, 4), 1] + cor + q))
    return cases


def gen_c14_cross(tier, rng):
    """sel-equal query pairs: identical encodings, and each decodes the other's encoding"""
    cases = []
    sizes = [1, 1025, 2049, 3 * 1024] if tier == "quick" else [0, 1, 1024, 1025, 2048, 2049, 3 * 1024, 4 * 1024 + 1, 5 * 1024]
    for size in sizes:
        n = nchunks(size)
        classes = {}
        extra = [[M64], [n - 1, M64], [0, M64], [n + 7], [n, n + 100]]
        for q in list(all_subsets(range(0, n + 3))) + extra:
            q = sorted(set(q))
            if not q:
                continue
            sig = tuple(py_sel(q, size)(c) for c in range(n))
            classes.setdefault(sig, []).append(q)
        for sig, qs in classes.items():
            if len(qs) < 2:
                continue
            pairs = [(rng.choice(qs), rng.choice(qs)) for _ in range(3 if tier == "quick" else 10)]
            for (q1, q2) in pairs:
                if q1 == q2:
                    continue
                for bs in (0, 1, 2):
                    sd = seed(rng)
                    e = rng.choice([0, 1, 4] + ([2, 3] if bs == 0 else []))
                    cases.append(("encode", [0, sd, size, bs, e, rng.randrange(0, 4), 0] + q1))
                    cases.append(("encode", [0, sd, size, bs, e, rng.randrange(0, 4), 0] + q2))
                    d, sk = rng.choice(drivers_and_sinks(rng, False))
                    cases.append(dec_case(0, sd, size, bs, size, d, sk, q1, qs=q2))
    cases += gen_odd_providers(tier, rng)
    return cases


PROPS["C14"] = Prop(
    [F_RANGES, F_ENCODE, F_DECODE], lambda tier, rng: gen_c14_ranges(tier, rng) + gen_c14_cross(tier, rng),
    "ranges(truncate): every boundary subset in 0..nchunks+2 for every byte-size class up to 6 (quick) / 8 (thorough) chunks, plus random sizes up to "
    "2^63 with boundaries around the end and at u64::MAX; cross: for blobs of 1..3 (quick) / 0..5 chunks every class of queries selecting the same chunks "
    "(subsets of 0..nchunks+2 plus u64::MAX-ended ones): sampled pairs are encoded (identical bytes expected, compared with the spec) and the encoding "
    "of one is decoded with the other (sync and fsm, all sinks); providers holding only a group-aligned (+ a few bytes) prefix of the blob with the complete "
    "outboard, all five encoders, queries ending at / before / behind the end of the prefix. non-trivial = non-empty query",
    assumptions=["boundaries strictly sorted < 2^64, size <= 2^63"] + DEC_ASSUME,
)


# ------------------------------------------------------------------ short-writing sinks / short positioned reads
F_SHORTW = Family("shortw", "Run.RunSched", "run_shortw", "holds_shortw", lambda a, o: a[2] > 1024)
F_SHORTW.shard_cases = 40
BIGCAP = 1 << 40


def gen_shortw(tier, rng):
    cases = []
    sizes = [1025, 3 * 1024 + 5, 5 * 1024 + 7, 16 * 1024 + 1] if tier == "quick" else [1, 1024, 1025, 2049, 3 * 1024 + 5, 5 * 1024 + 7, 8 * 1024, 16 * 1024 + 1, 31 * 1024]
    for size in sizes:
        n = nchunks(size)
        for bs in (0, 2, 4) if tier == "quick" else (0, 1, 2, 3, 4):
            sd = seed(rng)
            for q in pick_queries(n, rng, 1, (3 if tier == 'quick' else 8)):
                if not q:
                    continue
                for maxw in (1, 63, 1000, 4096) if tier == "thorough" else (rng.choice([1, 63, 1000]), 4096):
                    ok = rng.randrange(0, 4)
                    cases.append(("shortw", [0, sd, size, bs, 0, maxw, BIGCAP, ok] + q))
                    cases.append(("shortw", [0, sd, size, bs, 1, maxw, BIGCAP, ok] + q))
                    # a sink that fills up: WriteZero after exactly cap bytes
                    cases.append(("shortw", [0, sd, size, bs, 0, maxw, rng.randrange(0, size + 200), ok] + q))
                    # stores that return short positioned reads (page sizes not aligned to 64)
                    cases.append(("shortw", [0, sd, size, bs, 3, rng.choice([1, 7, 63, 100, 1000, 4096]), BIGCAP, rng.randrange(0, 2)] + q))
                    cases.append(("shortw", [0, sd, size, bs, 4, rng.choice([7, 100, 1000]), BIGCAP, rng.randrange(0, 2)] + q))
                    cases.append(("shortw", [0, sd, size, bs, 5, rng.choice([1, 7, 63, 100, 1000, 4096]), BIGCAP, rng.randrange(0, 2)] + q))
            for maxw in (1, 31, 32, 33, 64, 1000):
                cases.append(("shortw", [0, sd, size, bs, 2, maxw, BIGCAP, 0]))
                cases.append(("shortw", [0, sd, size, bs, 2, maxw, rng.randrange(0, 64 * n + 1), 0]))
    return cases


_c11 = PROPS["C11"]
PROPS["C11"] = Prop(
    [F_SCHED, F_SHORTW], lambda tier, rng: gen_sched(tier, rng, False) + gen_shortw(tier, rng),
    _c11.rule + " shortw: the sync encoders and outboard_post_order writing into sinks that accept at most 1 / 31..33 / 63 / 64 / 1000 / 4096 bytes per "
    "call (and sinks that fill up after a chosen number of bytes), and the sync encoders (validating and not) / validator reading an io-backed outboard and the data "
    "through stores whose positioned reads never cross a page boundary (page sizes 1, 7, 63, 100, 1000, 4096).",
    trusted=_c11.trusted, assumptions=_c11.assumptions)
_c10 = PROPS["C10"]
PROPS["C10"] = Prop(
    [F_FAULT, F_SCHED, F_SHORTW], lambda tier, rng: gen_c10(tier, rng) + gen_shortw(tier, rng)[::3],
    _c10.rule + " Also CreateOutboard::init_from of the io-backed pre / post order outboards over a logging byte store (positioned writes and flush), and sinks "
    "that stop accepting bytes (Ok(0) -> WriteZero).",
    trusted=_c10.trusted, assumptions=_c10.assumptions)


# ------------------------------------------------------------------ decoders polled again after an error
F_POSTSTEP = Family("poststep", "Run.RunProto", "run_poststep", "holds_poststep", lambda a, o: len(o) > 8)
F_POSTSTEP.shard_cases = 40
F_POSTSTEP9 = Family("poststep9", "Run.RunProto", "run_poststep", "holds_poststep9", lambda a, o: len(o) > 8)
F_POSTSTEP9.shard_cases = 40


def gen_poststep(tier, rng):
    cases = []
    for (fam, args) in gen_c01(tier, rng)[:: (4 if tier == "quick" else 2)] + gen_c09(tier, rng)[:: (10 if tier == "quick" else 4)]:
        for d in (0, 1):
            b = list(args)
            b[5] = d
            cases.append(("poststep", b))
    # a stream crafted for a caller who keeps polling: the pair of an inner node is damaged, and the pair that follows it is
    # replaced by the (honest) pair of the node whose hash is then on top of the pending stack
    for (size, dmg, dst, src) in ((8192, 70, 128, 4352), (8192, 100, 128, 4352), (4096, 70, 128, 2240)):
        for d in (0, 1):
            cases.append(("poststep", dec_case(0, seed(rng), size, 0, size, d, 0, [0], ops=[2, dmg, 1 + rng.randrange(255), 0, 7, dst, src, 64])[1]))
    return cases


def known_sync_post_error_panic(r):
    """sync iterator polled again after it returned a hash mismatch: the pending-hash stack is one short"""
    if r["family"] != "poststep9" or r["args"][5] != 0:
        return False
    o = r["obs_dev"]
    ev = [o[i:i + 4] for i in range(0, len(o), 4)]
    seen_mismatch = False
    for e in ev:
        if e[0] == 3 and e[1] in (3, 4):
            seen_mismatch = True
        if e[0] == 9:
            return seen_mismatch
    return False


def known_fsm_post_error_ok(r):
    """fsm decoder polled again after a ParentHashMismatch: the unverified halves were pushed, so items below
    that pair are checked against attacker-chosen hashes and come back as Ok"""
    if r["family"] != "poststep" or r["args"][5] != 1:
        return False
    o = r["obs_dev"]
    ev = [o[i:i + 4] for i in range(0, len(o), 4)]
    seen = False
    for e in ev:
        if e[0] == 3 and e[1] == 3:
            seen = True
        elif e[0] in (1, 2) and seen:
            return True
    return False


def known_sync_post_error_ok(r):
    """sync iterator polled again after a ParentHashMismatch: the expected hash was popped and the children were not
    pushed, so the next pair in the stream is compared with the hash of a different node and can come back as Ok
    under the wrong node id (before the iterator eventually panics)"""
    if r["family"] != "poststep" or r["args"][5] != 0:
        return False
    o = r["obs_dev"]
    ev = [o[i:i + 4] for i in range(0, len(o), 4)]
    seen = False
    for e in ev:
        if e[0] == 3 and e[1] == 3:
            seen = True
        elif e[0] in (1, 2) and seen:
            return True
    return False


KNOWN_CLASSES["sync_post_error_ok"] = known_sync_post_error_ok
KNOWN_CLASSES["sync_post_error_panic"] = known_sync_post_error_panic
KNOWN_CLASSES["fsm_post_error_ok"] = known_fsm_post_error_ok

_c01 = PROPS["C01"]
PROPS["C01"] = Prop(
    [F_DECODE, F_POSTSTEP], lambda tier, rng: gen_c01(tier, rng) + gen_poststep(tier, rng),
    _c01.rule + " poststep: the same hostile streams with the iterator / state machine polled again after every error until it ends (at most 64 calls).",
    assumptions=_c01.assumptions)
_c09 = PROPS["C09"]
PROPS["C09"] = Prop(
    [F_DECODE, F_POSTSTEP9], lambda tier, rng: gen_c09(tier, rng) + [("poststep9", a) for i, (_, a) in enumerate(gen_poststep(tier, rng)) if i % 4 < 2],
    _c09.rule + " poststep: truncated / altered streams with the decoder polled again after the error (panic observable).",
    assumptions=_c09.assumptions)
_c04b = PROPS["C04"]
PROPS["C04"] = Prop(
    [F_ENCODE, F_BAO, F_SHORTW], lambda tier, rng: gen_c04(tier, rng) + gen_bao(tier, rng) + [c for c in gen_shortw(tier, rng) if c[1][4] == 0][::2],
    _c04b.rule + " shortw: the sync validating encoder writing into sinks that take 1..4096 bytes per call (the encoding must not depend on the sink).",
    trusted=_c04b.trusted)


# ------------------------------------------------------------------ what each check establishes (MANIFEST level text)
# ------------------------------------------------------------------ transports that fragment, in the checks of the
# properties whose code does the reading / writing (so that a slip in a read or write loop is reported there too)
def _with(pid, fams, extra, note):
    old = PROPS[pid]
    g = old.gen
    PROPS[pid] = Prop(old.families + [f for f in fams if f not in old.families],
                      (lambda tier, rng, g=g: g(tier, rng) + extra(tier, rng)), old.rule + " " + note,
                      trusted=old.trusted, assumptions=old.assumptions)


_with("C02", [F_SCHED], lambda tier, rng: [c for c in gen_sched(tier, random.Random(rng.randrange(1 << 30)), False)
                                         if c[1][4] in (0, 1, 2) and c[1][7] == 0][:: (3 if tier == "quick" else 1)],
      "sched: the same honest streams delivered through transports that fragment, interrupt and suspend (decoder iterators and decode_ranges, "
      "with further bytes behind the response).")
_with("C01", [F_SCHED], lambda tier, rng: [c for c in gen_sched(tier, random.Random(rng.randrange(1 << 30)), True)
                                         if c[1][4] in (0, 1, 2) and c[1][5] != 0][:: (2 if tier == "quick" else 1)],
      "sched: the k-th read of the transport fails (kinds incl. TimedOut): the decoder stops there; it never goes on to yield items.")
_with("C09", [F_SCHED], lambda tier, rng: [c for c in gen_sched(tier, random.Random(rng.randrange(1 << 30)), False)
                                         if c[1][4] in (0, 1, 2)][:: (3 if tier == "quick" else 1)],
      "sched: honest and truncated streams delivered through fragmenting transports (a short read is not an end of stream).")
_with("C03", [F_SCHED], lambda tier, rng: [c for c in gen_sched(tier, random.Random(rng.randrange(1 << 30)), False) if c[1][4] in (4, 5)],
      "sched: creation reading the blob through fragmenting / interrupting readers.")
_with("C03", [F_SHORTW], lambda tier, rng: [c for c in gen_shortw(tier, random.Random(rng.randrange(1 << 30))) if c[1][4] == 2],
      "shortw: outboard_post_order writing into sinks that take few bytes per call or fill up (the error must surface).")
for _p in ("C04", "C05", "C08"):
    _with(_p, [F_ENCODE], lambda tier, rng: gen_odd_providers(tier, random.Random(rng.randrange(1 << 30))),
          "encode: providers whose data file is a group-aligned prefix of the blob, or longer than the blob, with the complete outboard: "
          "all five encoders send exactly what a complete provider would, up to the first group they do not hold.")
# ---- C01 read literally under wrong claimed sizes: pairs must be the true pairs of the ids they are yielded under
F_DECODE_IDS = Family("decode_ids", "Run.RunProto", "run_decode", "holds_decode_ids", lambda a, o: len(o) > 11 and o[9] > 0)
F_DECODE_IDS.shard_cases = 60


def gen_decode_ids(tier, rng):
    cases = []
    sizes = [2049, 3 * 1024 + 5, 5 * 1024 + 7, 6 * 1024 + 1] if tier == "quick" else [1025, 2049, 3 * 1024 + 5, 4 * 1024 + 1, 5 * 1024 + 7, 6 * 1024 + 1, 8 * 1024 + 1]
    for size in sizes:
        n = nchunks(size)
        for bs in (0, 1):
            for claimed in sorted({size, size - 1, (n - 1) * 1024, (n + 1) * 1024, 2 * n * 1024, max(1, size // 2)}):
                for d, sk in ((0, 0), (1, 0), (2, 0), (2, 2), (3, 1)):
                    cases.append(("decode_ids", dec_case(0, seed(rng), size, bs, claimed, d, sk, [0])[1]))
    return cases


def known_wrong_size_node_id(r):
    # decode_ids: args [kind, seed, size, bs, claimed, ...]: a claimed size with a different number of chunks
    if r["family"] != "decode_ids":
        return False
    a = r["args"]
    return nchunks(a[4]) != nchunks(a[2])


KNOWN_CLASSES["wrong_size_node_id"] = known_wrong_size_node_id
_with("C01", [F_DECODE_IDS], lambda tier, rng: gen_decode_ids(tier, random.Random(rng.randrange(1 << 30))),
      "decode_ids: honest streams decoded under claimed sizes around the true one (same and different chunk counts): every pair yielded / stored must be "
      "the true pair of the node id it carries (known finding F10 for claimed sizes with a different chunk count).")
# ---- the four validators side by side, incl. io-backed outboard stores shorter than the full outboard (finding F9)
F_AGREE_VAL = Family("agree_val", "Run.RunProto", "run_agree_val", "holds_agree_val", lambda a, o: a[2] > 1024)
F_AGREE_VAL.shard_cases = 60


def gen_agree_val(tier, rng):
    cases = []
    sizes = [1025, 2049, 5 * 1024 + 7, 8 * 1024, 13 * 1024 + 100] if tier == "quick" else ENC_SIZES[3:] + [23 * 1024 + 512, 31 * 1024 + 1]
    for size in sizes:
        n = nchunks(size)
        for bs in range(0, 3):
            oblen = 64 * (max(1, -(-n // (1 << bs))) - 1)
            for q in pick_queries(n, rng, 1, (3 if tier == "quick" else 10)):
                cors = [[]]
                cors.append([0, rng.randrange(0, size), 1 + rng.randrange(255)])
                if oblen:
                    cors.append([1, rng.randrange(0, oblen), 1 + rng.randrange(255)])
                    cors.append([3, 64 * rng.randrange(0, oblen // 64), 0])
                cors.append([2, rng.randrange(0, size), 0])
                cors.append([4, rng.randrange(0, size), 0])
                for c in cors:
                    cases.append(("agree_val", [rng.choice([0, 1, 2]), seed(rng), size, bs, 0, rng.randrange(0, 5), len(c) // 3] + c + q))
                if oblen >= 64:
                    cases.append(("agree_val", [0, seed(rng), size, bs, 0, 5, 1, 7, rng.randrange(0, oblen // 64), 1] + q))
                # a partially written outboard file: shorter than the full outboard (io-backed stores only)
                if oblen >= 128:
                    for cut in (64 * rng.randrange(0, oblen // 64), rng.randrange(1, oblen)):
                        cases.append(("agree_val", [0, seed(rng), size, bs, 0, rng.randrange(0, 2), 1, 6, cut, 0] + q))
    return cases


def known_f9(r):
    # agree_val: args [kind, seed, size, bs, _, okind, ncor, (w, pos, delta)*, q...]
    if r["family"] != "agree_val":
        return False
    a = r["args"]
    return a[5] in (0, 1) and any(a[7 + 3 * k] == 6 for k in range(a[6]))


KNOWN_CLASSES["f9_short_outboard_file"] = known_f9
for _p in ("C06", "C08"):
    _with(_p, [F_AGREE_VAL], lambda tier, rng: gen_agree_val(tier, random.Random(rng.randrange(1 << 30))),
          "agree_val: the two data validators and the two outboard validators side by side (sync vs fsm) on intact, altered, zero-filled and "
          "truncated stores, incl. io-backed outboard files shorter than the full outboard (known finding F9).")
for _p in ("C12", "C13"):
    _with(_p, [F_SHORTW], lambda tier, rng: [c for c in gen_shortw(tier, random.Random(rng.randrange(1 << 30))) if c[1][4] == 2],
          "shortw: outboard_post_order into sinks that take few bytes per call or fill up (every pair lands in its slot, or the error surfaces).")
_with("C13", [F_FAULT], lambda tier, rng: [c for c in gen_c10(tier, random.Random(rng.randrange(1 << 30)))
                                         if c[0] == "fault" and c[1][4] in (1, 9) and c[1][6] == 0],
      "fault (fault-free runs only): the call sequence of init_from on an io-backed outboard, incl. the final flush of the store.")
_with("C04", [F_SHORTW], lambda tier, rng: [c for c in gen_shortw(tier, random.Random(rng.randrange(1 << 30)))
                                          if c[1][4] in (0, 1, 3, 5) and c[1][6] == BIGCAP],
      "shortw: the sync encoders writing into sinks that take few bytes per call and reading data / outboard through stores with short positioned reads.")



STATUS = {
 "C01": "Proved for every stream (hash_ok hypothesis): both decoders, set up with the blob's root / size / block size and any well-formed non-empty query, yield a prefix of the honest items, finish only on streams that start with the honest encoding, fail exactly where the stream departs, never panic (C01_e2e_sync/fsm), and decode_ranges writes only those items' bytes (C01_e2e_decode_ranges*). Stated up to the first error; past-the-error behaviour of the fsm decoder is known finding F7. Wrong claimed sizes: C16. Audit additions: every statement for every well-formed query incl. the empty one; arbitrary poll sequences after errors characterised (sound while only leaf mismatches occurred; refuted with witnesses after a parent mismatch = findings F7 / F8 and the sync foreign-parent case); targets of any length; stored pairs are the true pairs.",
 "C02": "Proved (hash_ok): on any store created by the crate both validating encoders return flat(honest) (C02_enc_is_spec_*, C05_created_store_ok), and every decoder (sync, fsm, decode_ranges) fed that encoding followed by arbitrary further bytes yields exactly the honest items, finishes, and leaves the further bytes unread (C02_roundtrip_full_*); the leaves deliver exactly the selected chunks (C02_delivers_selection); the empty query encodes / decodes to nothing. Audit additions: the store need only be intact on the plan's nodes; decoder geometry given separately from the store's; every sink kind incl. io-backed stores of any length (exact slot frame) and targets of any length; each selected chunk is delivered exactly once, in increasing order; the non-validating encoders round-trip wherever every touched group is fully selected (always at block size 0); the item stream characterised at item level.",
 "C03": "Proved unconditionally (C03_*_e2e): every creation entry point of the model returns root_hash = BLAKE3 tree hash of the data (C03_root_is_blake3_tree) and the io-backed / memory outboards hold exactly the recursive spec_outboard bytes of (blocks-1)*64 bytes. bao equality at block size 0 is carried by the harness comparison with the bao crate. Audit additions: stored pairs written out explicitly, the pre-order outboard at block size 0 equals a plain definition of bao's outboard, all entry points agree, init_from over io stores of any length (the tail of a longer stale store is kept).",
 "C04": "Proved: both validating encoders compute the recursive specification, which depends on (data, block size, selected chunks) only (C04_function_of_selection*), the parent items are those of the block-size-0 encoding minus exactly the nodes inside fully selected subtrees of at most one group (C04_pruning, C04_keep_def, C04_honest_nodes), nothing is pruned at block size 0 (C04_bs0_is_bao_layout). Byte equality with the bao crate at block size 0 is carried by the bao correspondence family (the bao crate is not modelled). Audit additions: a plain recursive definition of bao's slice format and its equality with the honest encoding at block size 0 for all five encoders on created stores.",
 "C05": "Proved (hash_ok): on ANY store contents the validating encoders (sync, fsm) write a prefix of flat(honest) and stop with the hash-mismatch error at the first plan unit whose stored bytes differ (C05_prefix*, C05_detects*), independent of everything behind it (C05_independent*); on a created store they succeed with flat(honest) (C05_created_store_ok). The item-stream encoder inherits this through C08_encode_agree (same items, same error, any store). Audit additions: the item stream at the same strength, Ok exactly when every plan unit is intact, the receiver's side (every prefix written is accepted item by item by a decoder with the true root).",
 "C06": "Proved (hash_ok): the four validators compute the (touched, chain_ok, leaf_ok) recursion on ANY store contents (C06_data_exact, C06_outboard_exact); everything reported is truly stored and chained to the root (C06_reported_is_true, C06_chain_ok_true, C06_leaf_ok_true), everything valid and touched is reported (C06_valid_is_reported), intact / created stores are reported completely (C06_intact_complete, C06_created_store_complete), sync = fsm on tree nodes (C06_sync_eq_fsm_tree). Audit additions: the fsm validators on arbitrary stores without loader premises, data files shorter / longer than the blob (exact output), finding F9 (short io-backed outboard stores) with kernel-checked witnesses.",
 "C07": "Proved (hash_ok): Inv (target and store agree with the blob on the delivered set) holds initially and is preserved by every decode_ranges step, sync or fsm, on ANY stream and under any sink fault (C07_inv_step, C07_inv_history); the validator reports exactly the completely delivered groups in every reachable state (C07_validator_exact*); once the delivered set covers all chunks the state is (blob, created store) (C07_converges, C07_history_converges*). Audit additions: the frame clause made explicit relative to any initial target / store content (InvR), the exact effect of the k-th failing target write or save for both drivers, the outboard-only validators in history states, io sinks that are not pre-sized (fsm validators stay exact; the sync ones need the property's pre-sized premise: finding F9), convergence with failed, truncated or corrupted steps in the middle and from any initial content.",
 "C08": "Proved: creation sync = fsm unconditionally (C08_outboard_agree); decoding sync = fsm on EVERY stream (C08_decode_agree, C08_decode_cases); validating encoders sync = fsm under load agreement, discharged for memory and pre-sized io-backed stores (C08_encode_agree, C08_load_agree_*); the non-validating encoders equal the validating ones exactly when every touched group is fully selected, refuted otherwise = known finding F6 (C08_nonvalidating_*). The item-stream traversal yields, for any data and any store, Size, then items whose bytes are exactly the sync encoder's output, then Done / the same error (C08_encode_agree, C08_mixed_frame). Audit additions: item stream = sync encoder item by item, decode_ranges sync = fsm on every stream, all creation entry points and loaders agree, the exact output of the non-validating encoders for every query (the honest encoding of the selection widened to whole groups), finding F9.",
 "C09": "Proved (hash_ok): truncation at any byte / alteration of any byte of the honest stream yields exactly the items before it and NotFound / HashMismatch naming the item containing the byte (C09_e2e_*), io kinds by computation; no panic up to the first error (C16_total). Panic of the sync iterator polled after an error: known finding F8. Audit additions: exact location and io kind for both decode_ranges drivers, the decoder states after each kind of error, the fsm decoder never panics on any poll sequence, the plan iterator inside the decoders never panics.",
 "C10": "Two strengths. (a) Operational theorems about the model of the operations: stream-read faults over whole decoder runs (sync, fsm), target / save faults of both decode_ranges drivers (exact effect), reader faults of sync outboard / outboard_post_order, failing data / outboard sources under every encoder, validator, copy and the item stream, a full sink under the sync non-validating encoder, truncated blobs. (b) Call-list level: first-failure semantics (surfaces, nothing after, prefix) and the classification of every call site are proved over the per-operation call lists of Model/IOCalls.v, which are NOT derived from the operational model but tied to the crate by the logged-call correspondence (every call of every operation, every failing index in the thorough tier): writer faults of the validating sync encoder and the fsm encoders (ConnectionReset naming the item), save / sync faults in creation and copy, reader faults in fsm creation. Failing writes are atomic in the model; OS / runtime behaviour around a failing call is outside it.",
 "C11": "Proved: the three exact-read loops, both decoders and outboard creation give schedule-independent results (Interrupted excluded for tokio read_exact, with a refuting witness). Partial by nature: poll-level suspension is exhibited by the harness only. Audit additions: sync::outboard over any schedule, std / tokio write_all and positioned read_exact_at loops over scheduled environments, the sync encoder over both.",
 "C12": "Proved unboundedly: node iterators = Shape listings, pre / post offsets = positions 0..n-1 of the persisted nodes in traversal order, nothing for nodes below the block level and the half leaf, NoDup / permutation. copy / flip: correspondence family. Audit additions: copy / copy_fsm / flip lose and invent nothing (exact outcome characterisation, node-keyed sources with holes, flip after flip is the identity, created stores stay created stores); offsets stated over the model's own iterators; the size bound is sharp (refutation above 2^63).",
 "C13": "Proved: stable iff persisted and subtree inside the blob, stable slots form a prefix, stable nodes keep slot (C13) and pair (C13_keeps_pair), stable byte prefix of post-order outboards under appends (C13_prefix). Audit additions: stability for every node id (only no-wrap), exact slot listing, stored pairs of created stores kept (all kinds, sync and fsm loaders), byte prefix for the model's writers and for chains of appends.",
 "C14": "Proved: truncation preserves the selection, is idempotent and well formed; sel-equal queries have identical honest encodings and cross-decode (C14_encode_equiv, C14_cross_decode). C14_truncate_canonical as first stated is refuted with a witness and replaced by the two true variants. Audit additions: chunk plans, all four encoders (any store), both decoders and decode_ranges (every stream) and all four validators are functions of the selection; requester and provider may use different equivalent queries.",
 "C15": "Proved unboundedly: the three stack-machine plans equal the recursive plans, which satisfy every well-formedness checker (stack discipline, ordered disjoint leaves, structure, root flag, cover); the checkers are thereby a certified oracle (C15_holds_pre/post). Audit additions: every well-formedness clause stated of the three stack machines themselves for any min level, exact cover (chunk groups touched / chunks selected), granularity of leaves, the root item, ResponseIter = chunk iterator at block size 0.",
 "C16": "Proved (hash_ok): for every stream, a decoder with the true root but claimed size s' whose query selects the last claimed chunk can finish only if s' = |data| (sync and fsm); no claimed size <= 2^63 makes the model decoders panic. Audit additions: a wrong claimed size ends in an error (not merely no success) for iterators and for both decode_ranges drivers; the all-chunks query is a size proof.",
 "C17": "Proved under the stated guards: exact membership characterisations, monotonicity, idempotence; outside the guards refuted with witnesses = known finding F5. Audit additions: covers / least / greatest / aligned characterisations, list-level idempotence, guards tight for every block size, release-build monotonicity and idempotence, the debug build panics exactly outside the guard.",
 "C18": "Proved for ids < 2^62 and shifts <= 10 (20 theorems), incl. enumeration of post-order offsets and soundness / completeness of the restricted operations. Audit additions: every clause re-proved for every id a u64 can hold (children, parent, ranges, counts, offsets, block-size conversion, restricted operations), refuted exactly at u64::MAX, explicit enumeration of subtrees.",
 "C19": "Proved: postcard round trip of every wire type in the byte-level model; refutation of the pinned snapshot's length hint (fixed, F1). Partial by nature on the JSON side (serde_json round trip + text comparison by the harness). Audit additions: decoder soundness (anything accepted re-serialises to itself, up to varint canonicity), rejection of truncations, bad tags and short sequences, the io-error text convention, JSON round trips for u64 / Parent / Leaf.",
 "C20": "Proved: tree() and hash() constant on every reachable state incl. after errors, reader position at Done / finish (C20_*). Audit additions: accessors over arbitrary poll sequences, reader position after any poll sequence and per kind of result. (The recycled buffer of new_with_buffer is not part of the model state; its irrelevance is carried by the correspondence runs with a non-empty buffer.)",
}
for _pid, _txt in STATUS.items():
    if _pid in PROPS:
        PROPS[_pid].status = _txt
        PROPS[_pid].level_text = ("Kernel-checked theorems (Coq 8.16) about the hand-written Gallina model of the anchored code, for all inputs; the model is tied to /repo by "
                                  "running model and crate on the same generated cases on every run (vm_compute verdicts). " + _txt)
