#!/bin/bash
# confirm_seed.sh <src_worktree> <n> <id>: confirm mutation n of an agent's worktree in a scratch worktree and store it under /verif/seeded/<id>
# checks: (1) with the change the unedited test suite passes, (2) the demo fails with the change, (3) the demo passes without it
set -u
SRC=$1; N=$2; ID=$3
W=/tmp/confirm_$ID
export CARGO_NET_OFFLINE=true
rm -rf $W; git -C /repo worktree prune; git -C /repo worktree add -q $W HEAD || exit 2
cd $W
mkdir -p tests
cp $SRC/tests/demo_$N.rs tests/demo_$N.rs
echo "== demo without the change"
cargo test --offline --features experimental-mixed --test demo_$N > /tmp/confirm_$ID.base.log 2>&1; BASE=$?
git apply $SRC/mutation_$N.diff || { echo "patch does not apply"; exit 3; }
echo "== suite with the change"
mv tests /tmp/confirm_${ID}_tests
cargo test --workspace --no-fail-fast --offline > /tmp/confirm_$ID.suite.log 2>&1; SUITE=$?
mv /tmp/confirm_${ID}_tests tests
echo "== demo with the change"
cargo test --offline --features experimental-mixed --test demo_$N > /tmp/confirm_$ID.mut.log 2>&1; MUT=$?
echo "base_demo_rc=$BASE suite_rc=$SUITE mutated_demo_rc=$MUT"
grep -E "^test result" /tmp/confirm_$ID.suite.log | head -3
if [ $BASE -eq 0 ] && [ $SUITE -eq 0 ] && [ $MUT -ne 0 ]; then
  D=/verif/seeded/$ID; mkdir -p $D
  cp $SRC/mutation_$N.diff $D/patch.diff
  cp $SRC/tests/demo_$N.rs $D/demo.rs
  grep -E "panicked|assert|FAILED|failed" /tmp/confirm_$ID.mut.log | head -5 > $D/demo_failure.txt
  echo CONFIRMED
else
  echo NOT-CONFIRMED
fi
cd /; git -C /repo worktree remove --force $W
