#!/usr/bin/env python3
"""Build replays/corpus/<Cxx>.json from the failing inputs the checks found for the seeded changes
(seeded/<id>/replay_<Cxx>.json): they run first in every check of that property."""
import glob, json, os, sys
sys.path.insert(0, os.path.join(os.path.dirname(os.path.abspath(__file__))))
import props
out = {}
for rp in sorted(glob.glob("/verif/seeded/*/replay_*.json")):
    pid = os.path.basename(rp)[len("replay_"):-len(".json")]
    if pid not in props.PROPS:
        continue
    fams = {f.name for f in props.PROPS[pid].families}
    try:
        r = json.load(open(rp))
    except Exception:
        continue
    for c in r.get("cases", []):
        if c.get("family") in fams:
            key = (c["family"], tuple(c["args"]))
            out.setdefault(pid, {})[key] = os.path.basename(os.path.dirname(rp))
os.makedirs("/verif/replays/corpus", exist_ok=True)
for pid, d in out.items():
    cases = [dict(family=f, args=list(a), from_seed=s) for (f, a), s in sorted(d.items(), key=lambda x: (x[0][0], len(x[0][1]), x[0][1]))]
    json.dump(cases, open(f"/verif/replays/corpus/{pid}.json", "w"), indent=0)
    print(pid, len(cases))
