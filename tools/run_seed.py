#!/usr/bin/env python3
"""run_seed.py <seed-id> <property> [<property>...]: apply seeded/<id>/patch.diff to /repo, run the quick checks, undo, record in meta.json"""
import json, os, subprocess, sys
sid, props_ = sys.argv[1], sys.argv[2:]
d = f"/verif/seeded/{sid}"
assert subprocess.run(["git", "-C", "/repo", "status", "--porcelain", "--untracked-files=no"], capture_output=True, text=True).stdout.strip() == "", "/repo not clean"
subprocess.run(["git", "-C", "/repo", "apply", f"{d}/patch.diff"], check=True)
res = {}
import shutil, tempfile
evbak = tempfile.mkdtemp(prefix="evbak_")
for f in os.listdir("/verif/evidence"):
    shutil.copy2(os.path.join("/verif/evidence", f), evbak)
try:
    for p in props_:
        r = subprocess.run(["./check", p, "--tier", "quick"], cwd="/verif", capture_output=True, text=True)
        v = [l for l in r.stdout.splitlines() if l.startswith("VIOLATION")]
        res[p] = dict(exit=r.returncode, violation=v[0] if v else None)
        if v:
            import re, shutil
            m = re.search(r"replay=(\S+)", v[0])
            if m and os.path.exists(os.path.join("/verif", m.group(1))):
                shutil.move(os.path.join("/verif", m.group(1)), os.path.join(d, f"replay_{p}.json"))
        print(p, r.returncode, v[:1], flush=True)
finally:
    subprocess.run(["git", "-C", "/repo", "checkout", "--", "."], check=True)
    # evidence files must describe runs on the unchanged tree: put them back
    for f in os.listdir(evbak):
        shutil.copy2(os.path.join(evbak, f), "/verif/evidence")
    shutil.rmtree(evbak)
mp = f"{d}/meta.json"
meta = json.load(open(mp)) if os.path.exists(mp) else {}
meta.setdefault("checks_run", {}).update(res)
meta["caught_by"] = sorted(p for p, r in meta["checks_run"].items() if r["exit"] != 0)
json.dump(meta, open(mp, "w"), indent=1)
