#!/usr/bin/env python3
"""Regenerate the seeded-change table of DESIGN.md (between the SEED_TABLE markers) from seeded/*/meta.json"""
import glob, json, os, re
rows = []
for mp in sorted(glob.glob("/verif/seeded/*/meta.json")):
    m = json.load(open(mp))
    cr = m.get("checks_run", {})
    caught = []
    for p, r in sorted(cr.items()):
        if r["exit"] != 0:
            caught.append(p + (" (no-failing-input-found)" if r.get("violation") and "no-failing-input-found" in r["violation"] else ""))
    missed = [p for p, r in sorted(cr.items()) if r["exit"] == 0]
    rows.append("| `%s` | %s | %s | %s | %s |" % (m.get("id", os.path.basename(os.path.dirname(mp))), m.get("property", "?"), m.get("change", ""), m.get("needs_to_manifest", ""),
                                               (", ".join(caught) or "**none**") + ((" — not flagged by: " + ", ".join(missed)) if missed else "")))
table = "| seed | property | change | needs | caught by (quick checks) |\n|---|---|---|---|---|\n" + "\n".join(rows)
p = "/verif/DESIGN.md"
s = open(p).read()
if "<!-- SEED_TABLE_BEGIN -->" in s:
    s = re.sub(r"<!-- SEED_TABLE_BEGIN -->.*?<!-- SEED_TABLE_END -->", "<!-- SEED_TABLE_BEGIN -->\n" + table + "\n<!-- SEED_TABLE_END -->", s, flags=re.S)
else:
    s = s.replace("SEED_TABLE", "<!-- SEED_TABLE_BEGIN -->\n" + table + "\n<!-- SEED_TABLE_END -->")
open(p, "w").write(s)
print(len(rows), "seeds")
