#!/bin/bash
# regenerate every evidence file with the quick check on the unchanged tree (to be run before committing)
cd /verif
git -C /repo status --porcelain --untracked-files=no | grep -q . && { echo "/repo not clean"; exit 1; }
for p in $(python3 -c "import json;print(' '.join(c['property_id'] for c in json.load(open('MANIFEST.json'))['checks']))"); do
  timeout 2400 ./check $p --tier quick 2>&1 | tail -1 | cut -c1-150
done
