//! sched family (C10 stream-reader faults, C11): readers that fragment, interrupt, suspend and fail
use crate::common::*;
use crate::proto::{dec_rc, kind_code, take_list};
use crate::refenc;
use bao_tree::{
    io::{fsm, sync, BaoContentItem, DecodeError, Leaf, Parent},
    BaoTree, BlockSize,
};
use futures_lite::future::block_on;
use std::io::{self, Read};
use std::pin::Pin;
use std::task::{Context, Poll};

#[derive(Clone, Copy, Debug)]
pub enum Ev {
    Frag(usize),
    Intr,
    Pending,
}
pub struct SchedReader {
    pub data: Vec<u8>,
    pub pos: usize,
    pub sched: std::collections::VecDeque<Ev>,
    pub calls: u64,
    pub fail: Option<(u64, io::ErrorKind)>,
    pub after_fail_calls: u64,
    pub failed: bool,
}
impl SchedReader {
    pub fn new(data: Vec<u8>, sched: Vec<Ev>, fail: Option<(u64, io::ErrorKind)>) -> Self {
        SchedReader { data, pos: 0, sched: sched.into(), calls: 0, fail, after_fail_calls: 0, failed: false }
    }
    /// one completed read call (Pending events already skipped)
    fn do_read(&mut self, buf: &mut [u8]) -> io::Result<usize> {
        if self.failed {
            self.after_fail_calls += 1;
        }
        let n = self.calls;
        self.calls += 1;
        let ev = self.sched.pop_front();
        if let Some((k, kind)) = self.fail {
            if k == n {
                self.failed = true;
                return Err(io::Error::new(kind, "injected"));
            }
        }
        match ev {
            Some(Ev::Intr) => Err(io::Error::new(io::ErrorKind::Interrupted, "intr")),
            Some(Ev::Frag(m)) => {
                let k = m.max(1).min(buf.len()).min(self.data.len() - self.pos);
                buf[..k].copy_from_slice(&self.data[self.pos..self.pos + k]);
                self.pos += k;
                Ok(k)
            }
            _ => {
                self.sched.clear();
                let k = buf.len().min(self.data.len() - self.pos);
                buf[..k].copy_from_slice(&self.data[self.pos..self.pos + k]);
                self.pos += k;
                Ok(k)
            }
        }
    }
}
impl Read for SchedReader {
    fn read(&mut self, buf: &mut [u8]) -> io::Result<usize> {
        while let Some(Ev::Pending) = self.sched.front() {
            self.sched.pop_front();
        }
        self.do_read(buf)
    }
}
impl tokio::io::AsyncRead for SchedReader {
    fn poll_read(mut self: Pin<&mut Self>, cx: &mut Context<'_>, buf: &mut tokio::io::ReadBuf<'_>) -> Poll<io::Result<()>> {
        if let Some(Ev::Pending) = self.sched.front() {
            self.sched.pop_front();
            cx.waker().wake_by_ref();
            return Poll::Pending;
        }
        let mut tmp = vec![0u8; buf.remaining()];
        match self.do_read(&mut tmp) {
            Ok(k) => {
                buf.put_slice(&tmp[..k]);
                Poll::Ready(Ok(()))
            }
            Err(e) => Poll::Ready(Err(e)),
        }
    }
}

fn item_obs(it: &BaoContentItem, o: &mut Vec<u128>) {
    match it {
        BaoContentItem::Parent(Parent { node, pair }) => {
            let mut p = pair.0.as_bytes().to_vec();
            p.extend_from_slice(pair.1.as_bytes());
            o.extend_from_slice(&[0, nv(*node) as u128, 64, digest(&p) as u128]);
        }
        BaoContentItem::Leaf(Leaf { offset, data }) => {
            o.extend_from_slice(&[1, *offset as u128, data.len() as u128, digest(data) as u128]);
        }
    }
}
fn kind_from(c: u128) -> io::ErrorKind {
    match c {
        0 => io::ErrorKind::Other,
        1 => io::ErrorKind::UnexpectedEof,
        2 => io::ErrorKind::ConnectionReset,
        3 => io::ErrorKind::WriteZero,
        4 => io::ErrorKind::InvalidInput,
        6 => io::ErrorKind::TimedOut,
        _ => io::ErrorKind::InvalidData,
    }
}

/// sched: args [kind, seed, size, bs, driver, fail_k_plus_1, fail_kind, cut_plus_1, nq, q.., (evkind, evarg)*]
///   driver 0: sync DecodeResponseIter over the scheduled Read; 1: fsm ResponseDecoder over TokioStreamReader;
///          4: sync outboard_post_order reading the blob through the scheduled Read
///  -> [outcome, payload, calls_after_failure, nitems, (tag,id,len,dg)*]   (driver 4: [rc, root_dg, out_len, out_dg, calls_after_failure])
pub fn sched(a: &[u128]) -> Vec<u128> {
    let data = gen_data(a[0] as u64, a[1] as u64, a[2] as usize);
    let bs = a[3] as u8;
    let driver = a[4];
    let fail = if a[5] == 0 { None } else { Some((a[5] as u64 - 1, kind_from(a[6]))) };
    let cut = a[7];
    let (q, i) = take_list(a, 8);
    let evs: Vec<Ev> = a[i..]
        .chunks(2)
        .map(|c| match c[0] {
            0 => Ev::Frag(c[1] as usize),
            1 => Ev::Intr,
            _ => Ev::Pending,
        })
        .collect();
    let t = BaoTree::new(data.len() as u64, BlockSize::from_chunk_log(bs));
    if driver == 5 {
        // sync::outboard into a pre-sized PreOrderMemOutboard, reading the blob through the scheduled reader
        let mut src = data.clone();
        if cut > 0 {
            src.truncate(cut as usize - 1);
        }
        let mut rd = SchedReader::new(src, evs, fail);
        let mut ob = bao_tree::io::outboard::PreOrderMemOutboard { root: bao_tree::blake3::Hash::from([0; 32]), tree: t, data: vec![0u8; t.outboard_size() as usize] };
        let r = sync::outboard(&mut rd, t, &mut ob);
        return match r {
            Ok(h) => vec![0, digest(h.as_bytes()) as u128, ob.data.len() as u128, digest(&ob.data) as u128, rd.after_fail_calls as u128],
            Err(e) => vec![1 + kind_code(e.kind()), 0, ob.data.len() as u128, digest(&ob.data) as u128, rd.after_fail_calls as u128],
        };
    }
    if driver == 4 {
        let mut src = data.clone();
        if cut > 0 {
            src.truncate(cut as usize - 1);
        }
        let mut rd = SchedReader::new(src, evs, fail);
        let mut out = Vec::new();
        let r = sync::outboard_post_order(&mut rd, t, &mut out);
        return match r {
            Ok(h) => vec![0, digest(h.as_bytes()) as u128, out.len() as u128, digest(&out) as u128, rd.after_fail_calls as u128],
            Err(e) => vec![1 + kind_code(e.kind()), 0, out.len() as u128, digest(&out) as u128, rd.after_fail_calls as u128],
        };
    }
    let mut stream = refenc::flatten(&refenc::encode(&data, bs, &refenc::sel_fn(q.clone(), data.len())));
    if cut > 0 {
        stream.truncate(cut as usize - 1);
    }
    let root = refenc::root(&data);
    let ranges = mk_ranges(&q);
    if driver == 2 {
        // sync::decode_ranges over the scheduled transport, with 300 further bytes behind the response:
        //  -> [outcome, payload, calls_after_failure, bytes left on the transport, target digest]
        stream.extend_from_slice(&gen_data(0, (a[1] as u64).wrapping_add(1), 300));
        let mut rd = SchedReader::new(stream, evs, fail);
        let mut target = vec![0u8; data.len()];
        let mut ob = bao_tree::io::outboard::PreOrderMemOutboard { root, tree: t, data: vec![0u8; t.outboard_size() as usize] };
        let r = sync::decode_ranges(&mut rd, &ranges, &mut target, &mut ob);
        let oc = match &r {
            Ok(()) => (0, 0),
            Err(e) => dec_rc(e),
        };
        return vec![oc.0, oc.1, rd.after_fail_calls as u128, (rd.data.len() - rd.pos) as u128, digest(&target) as u128];
    }
    let mut items = Vec::new();
    let mut n = 0u128;
    let mut outcome = (0u128, 0u128);
    let after;
    if driver == 0 {
        let mut rd = SchedReader::new(stream, evs, fail);
        {
            let it = sync::DecodeResponseIter::new(root, t, &mut rd, &ranges);
            for x in it {
                match x {
                    Ok(item) => {
                        item_obs(&item, &mut items);
                        n += 1;
                    }
                    Err(e) => {
                        outcome = dec_rc(&e);
                        break;
                    }
                }
            }
        }
        after = rd.after_fail_calls;
    } else {
        let rd = iroh_io::TokioStreamReader::new(SchedReader::new(stream, evs, fail));
        let mut dec = fsm::ResponseDecoder::new(root, ranges.clone(), t, rd);
        let rd_back;
        loop {
            match block_on(dec.next()) {
                fsm::ResponseDecoderNext::Done(r) => {
                    rd_back = r;
                    break;
                }
                fsm::ResponseDecoderNext::More((d, r)) => {
                    dec = d;
                    match r {
                        Ok(item) => {
                            item_obs(&item, &mut items);
                            n += 1;
                        }
                        Err(e) => {
                            outcome = dec_rc(&e);
                            rd_back = dec.finish();
                            break;
                        }
                    }
                }
            }
        }
        after = rd_back.into_inner().after_fail_calls;
    }
    let mut o = vec![outcome.0, outcome.1, after as u128, n];
    o.extend(items);
    let _: Option<DecodeError> = None;
    o
}

/// a Write sink that accepts at most `maxw` bytes per call and at most `cap` bytes in total (then Ok(0))
pub struct ShortW {
    pub buf: Vec<u8>,
    pub maxw: usize,
    pub cap: usize,
}
impl io::Write for ShortW {
    fn write(&mut self, b: &[u8]) -> io::Result<usize> {
        let n = b.len().min(self.maxw).min(self.cap - self.buf.len());
        self.buf.extend_from_slice(&b[..n]);
        Ok(n)
    }
    fn flush(&mut self) -> io::Result<()> {
        Ok(())
    }
}
/// a ReadAt store that never lets one read_at cross a page boundary
pub struct PagedStore {
    pub data: Vec<u8>,
    pub page: usize,
}
impl sync::Size for PagedStore {
    fn size(&self) -> io::Result<Option<u64>> {
        Ok(Some(self.data.len() as u64))
    }
}
impl sync::ReadAt for PagedStore {
    fn read_at(&self, pos: u64, buf: &mut [u8]) -> io::Result<usize> {
        let pos = pos as usize;
        if pos >= self.data.len() {
            return Ok(0);
        }
        let to_page_end = self.page - (pos % self.page);
        let k = buf.len().min(to_page_end).min(self.data.len() - pos);
        buf[..k].copy_from_slice(&self.data[pos..pos + k]);
        Ok(k)
    }
}

/// shortw: args [kind, seed, size, bs, op, maxw, cap, okind, q...] -> [rc, payload, out_len, out_dg]
///  op 0: sync encode_ranges_validated, 1: sync encode_ranges, 2: sync outboard_post_order, each writing into a
///  short-writing sink; op 3: sync encode_ranges_validated from an io-backed outboard whose store (page size = maxw)
///  and data source return short positioned reads; op 4: sync valid_ranges over such stores (obs: ranges digest)
pub fn shortw(a: &[u128]) -> Vec<u128> {
    use crate::proto::{enc_rc, Ob};
    use bao_tree::io::outboard::{PostOrderOutboard, PreOrderOutboard};
    let data = gen_data(a[0] as u64, a[1] as u64, a[2] as usize);
    let bs = a[3] as u8;
    let op = a[4];
    let maxw = (a[5] as usize).max(1);
    let cap = a[6] as usize;
    let okind = a[7];
    let q: Vec<u64> = a[8..].iter().map(|x| *x as u64).collect();
    let ranges = mk_ranges(&q);
    let t = BaoTree::new(data.len() as u64, BlockSize::from_chunk_log(bs));
    let mut w = ShortW { buf: Vec::new(), maxw, cap };
    let ob = Ob::intact(okind, &data, bs);
    macro_rules! with_any {
        ($o:ident => $e:expr) => {
            match &ob {
                Ob::PreIO($o) => $e,
                Ob::PostIO($o) => $e,
                Ob::PreMem($o) => $e,
                Ob::PostMem($o) => $e,
                Ob::Empty($o) => $e,
            }
        };
    }
    let (rc, p) = match op {
        0 => with_any!(o => enc_rc(&sync::encode_ranges_validated(&data[..], o, &ranges, &mut w))),
        1 => with_any!(o => enc_rc(&sync::encode_ranges(&data[..], o, &ranges, &mut w))),
        2 => match sync::outboard_post_order(io::Cursor::new(&data), t, &mut w) {
            Ok(_) => (0, 0),
            Err(e) => (6, kind_code(e.kind())),
        },
        _ => {
            let post = okind == 1;
            let store = PagedStore { data: refenc::outboard(&data, bs, post), page: maxw };
            let src = PagedStore { data: data.clone(), page: maxw + 3 };
            let root = refenc::root(&data);
            if op == 5 {
                let mut out = Vec::new();
                let r = if post {
                    sync::encode_ranges(&src, PostOrderOutboard { root, tree: t, data: store }, &ranges, &mut out)
                } else {
                    sync::encode_ranges(&src, PreOrderOutboard { root, tree: t, data: store }, &ranges, &mut out)
                };
                w.buf = out;
                enc_rc(&r)
            } else if op == 3 {
                let mut out = Vec::new();
                let r = if post {
                    sync::encode_ranges_validated(&src, PostOrderOutboard { root, tree: t, data: store }, &ranges, &mut out)
                } else {
                    sync::encode_ranges_validated(&src, PreOrderOutboard { root, tree: t, data: store }, &ranges, &mut out)
                };
                w.buf = out;
                enc_rc(&r)
            } else {
                let mut out = Vec::new();
                let mut rc = (0u128, 0u128);
                let mut push = |r: io::Result<std::ops::Range<bao_tree::ChunkNum>>| match r {
                    Ok(r) => {
                        out.extend_from_slice(&r.start.0.to_le_bytes());
                        out.extend_from_slice(&r.end.0.to_le_bytes());
                    }
                    Err(e) => rc = (6, kind_code(e.kind())),
                };
                if post {
                    for r in sync::valid_ranges(PostOrderOutboard { root, tree: t, data: store }, &src, &ranges) {
                        push(r)
                    }
                } else {
                    for r in sync::valid_ranges(PreOrderOutboard { root, tree: t, data: store }, &src, &ranges) {
                        push(r)
                    }
                }
                w.buf = out;
                rc
            }
        }
    };
    vec![rc, p, w.buf.len() as u128, digest(&w.buf) as u128]
}
