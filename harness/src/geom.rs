//! geometry families: every public TreeNode / BaoTree method as observables
use crate::common::*;
use bao_tree::{iter::*, BaoTree, BlockSize, PostOrderOffset};

/// node: args [x, n] -> the public TreeNode methods on x (and on its children)
pub fn node(a: &[u128]) -> Vec<u128> {
    let x = a[0] as u64;
    let n = a[1] as u8;
    let t = tn(x);
    let mut o = Vec::new();
    o.push(guard(|| t.level() as u128));
    o.push(guard(|| b(t.is_leaf())));
    o.push(guard(|| t.mid().0 as u128));
    o.push(guard(|| nv(t.subtract_block_size(n)) as u128));
    o.push(guard(|| opt(t.add_block_size(n).map(nv))));
    o.push(guard(|| t.count_below() as u128));
    o.push(guard(|| opt(t.next_left_ancestor().map(nv))));
    o.push(guard(|| opt(t.left_child().map(nv))));
    o.push(guard(|| opt(t.right_child().map(nv))));
    o.push(guard(|| opt(t.parent().map(nv))));
    let (p, q) = guard2(|| {
        let r = t.node_range();
        (nv(r.start) as u128, nv(r.end) as u128)
    });
    o.push(p);
    o.push(q);
    let (p, q) = guard2(|| {
        let r = t.chunk_range();
        (r.start.0 as u128, r.end.0 as u128)
    });
    o.push(p);
    o.push(q);
    o.push(guard(|| t.right_count() as u128));
    o.push(guard(|| t.post_order_offset() as u128));
    let (p, q) = guard2(|| {
        let r = t.post_order_range();
        (r.start as u128, r.end as u128)
    });
    o.push(p);
    o.push(q);
    // children: parent, level, chunk_range (0 when there is no child)
    for c in [t.left_child(), t.right_child()] {
        match c {
            None => o.extend_from_slice(&[0, 0, 0, 0]),
            Some(c) => {
                o.push(guard(|| opt(c.parent().map(nv))));
                o.push(guard(|| c.level() as u128));
                let (p, q) = guard2(|| {
                    let r = c.chunk_range();
                    (r.start.0 as u128, r.end.0 as u128)
                });
                o.push(p);
                o.push(q);
            }
        }
    }
    // add_block_size(subtract_block_size(x)) round trip
    o.push(guard(|| opt(t.subtract_block_size(n).add_block_size(n).map(nv))));
    o
}

/// restricted: args [x, len] -> restricted_parent(len); and right_descendant(len) observed through
/// the pre-order node iterator (first node emitted after coming back to x from the left)
pub fn restricted(a: &[u128]) -> Vec<u128> {
    let x = a[0] as u64;
    let len = a[1] as u64;
    let t = tn(x);
    let mut o = Vec::new();
    o.push(guard(|| opt(t.restricted_parent(tn(len)).map(nv))));
    o
}

fn po(o: Option<PostOrderOffset>) -> (u128, u128) {
    match o {
        None => (0, 0),
        Some(PostOrderOffset::Stable(v)) => (1, v as u128),
        Some(PostOrderOffset::Unstable(v)) => (2, v as u128),
    }
}

/// tree: args [size, bs] -> root, blocks, chunks, outboard_size, then the pre-order node list with
/// both offsets per node, then the post-order node list.
/// layout: [root, blocks, chunks, outboard_size, npre, (node, pre_off, po_tag, po_val)*, npost, node*]
pub fn tree(a: &[u128]) -> Vec<u128> {
    let size = a[0] as u64;
    let bs = a[1] as u8;
    let t = BaoTree::new(size, BlockSize::from_chunk_log(bs));
    let mut o = Vec::new();
    o.push(guard(|| nv(t.root()) as u128));
    o.push(guard(|| t.blocks() as u128));
    o.push(guard(|| t.chunks().0 as u128));
    o.push(guard(|| t.outboard_size() as u128));
    let pre: Vec<_> = t.pre_order_nodes_iter().collect();
    o.push(pre.len() as u128);
    for n in &pre {
        o.push(nv(*n) as u128);
        o.push(guard(|| opt(t.pre_order_offset(*n))));
        let (p, q) = guard2(|| po(t.post_order_offset(*n)));
        o.push(p);
        o.push(q);
    }
    let post: Vec<_> = t.post_order_nodes_iter().collect();
    o.push(post.len() as u128);
    for n in &post {
        o.push(nv(*n) as u128);
    }
    o
}

/// offsets: args [size, bs, node*] -> per node (pre_off, po_tag, po_val); for huge trees and probes
/// of nodes inside / just outside the tree
pub fn offsets(a: &[u128]) -> Vec<u128> {
    let size = a[0] as u64;
    let bs = a[1] as u8;
    let t = BaoTree::new(size, BlockSize::from_chunk_log(bs));
    let mut o = Vec::new();
    o.push(guard(|| nv(t.root()) as u128));
    o.push(guard(|| t.blocks() as u128));
    o.push(guard(|| t.chunks().0 as u128));
    o.push(guard(|| t.outboard_size() as u128));
    for x in &a[2..] {
        let n = tn(*x as u64);
        o.push(guard(|| opt(t.pre_order_offset(n))));
        let (p, q) = guard2(|| po(t.post_order_offset(n)));
        o.push(p);
        o.push(q);
    }
    o
}

#[allow(unused)]
fn _unused(_: PreOrderNodeIter) {}
