//! plan and range-set families
use crate::common::*;
use bao_tree::{
    io::{full_chunk_groups, round_up_to_chunks, round_up_to_chunks_groups},
    iter::{BaoChunk, ResponseIter},
    BaoTree, BlockSize, ByteRanges, ChunkNum,
};

fn rdig(r: &[u64]) -> u128 {
    let mut d: u128 = 0;
    for b in r {
        d = (d * 1000003 + *b as u128 + 1) % (1u128 << 63);
    }
    d
}

fn enc<R>(c: &BaoChunk<R>, rs: Option<u128>, o: &mut Vec<u128>) {
    match c {
        BaoChunk::Parent { node, is_root, left, right, .. } => {
            o.extend_from_slice(&[0, nv(*node) as u128, b(*is_root), b(*left), b(*right), rs.unwrap_or(0)])
        }
        BaoChunk::Leaf { start_chunk, size, is_root, .. } => {
            o.extend_from_slice(&[1, start_chunk.0 as u128, *size as u128, b(*is_root), 0, rs.unwrap_or(0)])
        }
    }
}

/// plan: args [size, bs, min_level, which, q...]
pub fn plan(a: &[u128]) -> Vec<u128> {
    let size = a[0] as u64;
    let bs = a[1] as u8;
    let ml = a[2] as u8;
    let which = a[3];
    let q: Vec<u64> = a[4..].iter().map(|x| *x as u64).collect();
    let t = BaoTree::new(size, BlockSize::from_chunk_log(bs));
    let mut o = Vec::new();
    match which {
        0 => {
            for c in t.post_order_chunks_iter() {
                enc(&c, None, &mut o);
            }
        }
        1 => {
            let r = mk_ranges(&q);
            for c in t.ranges_pre_order_chunks_iter_ref(&r, ml) {
                let rs = match &c {
                    BaoChunk::Parent { ranges, .. } => rdig(&boundaries(ranges)),
                    BaoChunk::Leaf { ranges, .. } => rdig(&boundaries(ranges)),
                };
                enc(&c, Some(rs), &mut o);
            }
        }
        _ => {
            let r = mk_ranges(&q);
            for c in ResponseIter::new(t, r) {
                enc(&c, None, &mut o);
            }
        }
    }
    o
}

/// ranges: args [fn, p1, p2, boundaries...]
pub fn ranges(a: &[u128]) -> Vec<u128> {
    let f = a[0];
    let p1 = a[1] as u64;
    let bnd: Vec<u64> = a[3..].iter().map(|x| *x as u64).collect();
    let out: Vec<u64> = match f {
        0 => {
            let r = mk_ranges(&bnd);
            boundaries(bao_tree::io::sync::truncate_ranges(&r, p1))
        }
        1 => {
            // truncate_ranges_owned is observed through the fsm decoder; here the public ref variant on an owned copy
            let r = mk_ranges(&bnd);
            boundaries(bao_tree::io::sync::truncate_ranges(&r.clone(), p1))
        }
        2 => {
            let v: smallvec::SmallVec<[u64; 2]> = bnd.iter().copied().collect();
            let br = ByteRanges::new(v).expect("sorted");
            boundaries(&round_up_to_chunks(&br))
        }
        3 => boundaries(&round_up_to_chunks_groups(mk_ranges(&bnd), BlockSize::from_chunk_log(p1 as u8))),
        _ => boundaries(&full_chunk_groups(&mk_ranges(&bnd), BlockSize::from_chunk_log(p1 as u8))),
    };
    let _ = ChunkNum(0);
    out.into_iter().map(|x| x as u128).collect()
}
