//! fault family (C10): every io object is wrapped; the wrappers log every call and fail the k-th call
//! on one chosen object.  Observation: result of the public operation + the call log.
use crate::common::*;
use crate::proto::{dec_rc, enc_rc, kind_code, take_list, Ob};
use crate::refenc;
use bao_tree::{
    blake3,
    io::{fsm, outboard::*, sync, DecodeError, EncodeError},
    BaoTree, BlockSize, ChunkRanges, TreeNode,
};
use bytes::Bytes;
use futures_lite::future::block_on;
use std::cell::RefCell;
use std::io::{self, Read, Write};
use std::rc::Rc;

pub const DATA_SEQ: u128 = 1;
pub const DATA_AT: u128 = 2;
pub const STREAM_IN: u128 = 3;
pub const STREAM_OUT: u128 = 4;
pub const TARGET: u128 = 5;
pub const OB_LOAD: u128 = 6;
pub const OB_SAVE: u128 = 7;
pub const OB_SYNC: u128 = 8;

pub struct Ctl {
    pub log: Vec<(u128, u128, u128)>,
    pub fault: Option<(u128, u64, io::ErrorKind)>,
    pub counts: [u64; 10],
}
pub type C = Rc<RefCell<Ctl>>;
/// log the call; Err if it is the chosen one
fn call(c: &C, obj: u128, a: u128, b: u128) -> io::Result<()> {
    let mut c = c.borrow_mut();
    c.log.push((obj, a, b));
    let n = c.counts[obj as usize];
    c.counts[obj as usize] += 1;
    if let Some((o, k, kind)) = c.fault {
        if o == obj && k == n {
            return Err(io::Error::new(kind, "injected"));
        }
    }
    Ok(())
}

pub struct LRead<'a>(pub &'a [u8], pub C, pub u128);
impl Read for LRead<'_> {
    fn read(&mut self, buf: &mut [u8]) -> io::Result<usize> {
        call(&self.1, self.2, buf.len() as u128, 0)?;
        self.0.read(buf)
    }
}
pub struct LReadAt<'a>(pub &'a [u8], pub C);
impl sync::ReadAt for LReadAt<'_> {
    fn read_at(&self, pos: u64, buf: &mut [u8]) -> io::Result<usize> {
        call(&self.1, DATA_AT, pos as u128, buf.len() as u128)?;
        sync::ReadAt::read_at(&self.0, pos, buf)
    }
}
impl sync::Size for LReadAt<'_> {
    fn size(&self) -> io::Result<Option<u64>> {
        Ok(Some(self.0.len() as u64))
    }
}
pub struct LWrite(pub Vec<u8>, pub C);
impl Write for LWrite {
    fn write(&mut self, buf: &[u8]) -> io::Result<usize> {
        call(&self.1, STREAM_OUT, buf.len() as u128, 0)?;
        self.0.extend_from_slice(buf);
        Ok(buf.len())
    }
    fn flush(&mut self) -> io::Result<()> {
        Ok(())
    }
}
pub struct LTarget(pub Vec<u8>, pub C);
impl sync::WriteAt for LTarget {
    fn write_at(&mut self, pos: u64, buf: &[u8]) -> io::Result<usize> {
        call(&self.1, TARGET, pos as u128, buf.len() as u128)?;
        sync::WriteAt::write_at(&mut self.0, pos, buf)
    }
    fn flush(&mut self) -> io::Result<()> {
        Ok(())
    }
}
impl fsm::AsyncSliceWriter for LTarget {
    async fn write_at(&mut self, offset: u64, data: &[u8]) -> io::Result<()> {
        call(&self.1, TARGET, offset as u128, data.len() as u128)?;
        fsm::AsyncSliceWriter::write_at(&mut self.0, offset, data).await
    }
    async fn write_bytes_at(&mut self, offset: u64, data: Bytes) -> io::Result<()> {
        call(&self.1, TARGET, offset as u128, data.len() as u128)?;
        fsm::AsyncSliceWriter::write_bytes_at(&mut self.0, offset, data).await
    }
    async fn set_len(&mut self, len: u64) -> io::Result<()> {
        fsm::AsyncSliceWriter::set_len(&mut self.0, len).await
    }
    async fn sync(&mut self) -> io::Result<()> {
        Ok(())
    }
}
pub struct LOb<O>(pub O, pub C);
impl<O: sync::Outboard> sync::Outboard for LOb<O> {
    fn root(&self) -> blake3::Hash {
        self.0.root()
    }
    fn tree(&self) -> BaoTree {
        self.0.tree()
    }
    fn load(&self, node: TreeNode) -> io::Result<Option<(blake3::Hash, blake3::Hash)>> {
        call(&self.1, OB_LOAD, nv(node) as u128, 0)?;
        self.0.load(node)
    }
}
impl<O: sync::OutboardMut> sync::OutboardMut for LOb<O> {
    fn save(&mut self, node: TreeNode, pair: &(blake3::Hash, blake3::Hash)) -> io::Result<()> {
        call(&self.1, OB_SAVE, nv(node) as u128, 0)?;
        self.0.save(node, pair)
    }
    fn sync(&mut self) -> io::Result<()> {
        call(&self.1, OB_SYNC, 0, 0)?;
        self.0.sync()
    }
}
impl<O: fsm::Outboard> fsm::Outboard for LOb<O> {
    fn root(&self) -> blake3::Hash {
        self.0.root()
    }
    fn tree(&self) -> BaoTree {
        self.0.tree()
    }
    async fn load(&mut self, node: TreeNode) -> io::Result<Option<(blake3::Hash, blake3::Hash)>> {
        call(&self.1, OB_LOAD, nv(node) as u128, 0)?;
        self.0.load(node).await
    }
}
impl<O: fsm::OutboardMut> fsm::OutboardMut for LOb<O> {
    async fn save(&mut self, node: TreeNode, pair: &(blake3::Hash, blake3::Hash)) -> io::Result<()> {
        call(&self.1, OB_SAVE, nv(node) as u128, 0)?;
        self.0.save(node, pair).await
    }
    async fn sync(&mut self) -> io::Result<()> {
        call(&self.1, OB_SYNC, 0, 0)?;
        self.0.sync().await
    }
}
/// async slice reader over bytes
pub struct LSliceReader(pub Bytes, pub C);
impl fsm::AsyncSliceReader for LSliceReader {
    async fn read_at(&mut self, offset: u64, len: usize) -> io::Result<Bytes> {
        call(&self.1, DATA_AT, offset as u128, len as u128)?;
        fsm::AsyncSliceReader::read_at(&mut self.0, offset, len).await
    }
    async fn size(&mut self) -> io::Result<u64> {
        Ok(self.0.len() as u64)
    }
}
pub struct LStreamWriter(pub Vec<u8>, pub C);
impl iroh_io::AsyncStreamWriter for LStreamWriter {
    async fn write(&mut self, data: &[u8]) -> io::Result<()> {
        call(&self.1, STREAM_OUT, data.len() as u128, 0)?;
        self.0.extend_from_slice(data);
        Ok(())
    }
    async fn write_bytes(&mut self, data: Bytes) -> io::Result<()> {
        call(&self.1, STREAM_OUT, data.len() as u128, 0)?;
        self.0.extend_from_slice(&data);
        Ok(())
    }
    async fn sync(&mut self) -> io::Result<()> {
        Ok(())
    }
}
pub struct LStreamReader(pub Bytes, pub C, pub u128);
impl iroh_io::AsyncStreamReader for LStreamReader {
    async fn read_bytes(&mut self, len: usize) -> io::Result<Bytes> {
        call(&self.1, self.2, len as u128, 0)?;
        iroh_io::AsyncStreamReader::read_bytes(&mut self.0, len).await
    }
    async fn read<const L: usize>(&mut self) -> io::Result<[u8; L]> {
        call(&self.1, self.2, L as u128, 0)?;
        iroh_io::AsyncStreamReader::read::<L>(&mut self.0).await
    }
}

/// a byte store (WriteAt) that logs positioned writes as OB_SAVE and flushes as OB_SYNC
pub struct LStore(pub Vec<u8>, pub C);
impl sync::WriteAt for LStore {
    fn write_at(&mut self, pos: u64, buf: &[u8]) -> io::Result<usize> {
        call(&self.1, OB_SAVE, pos as u128, buf.len() as u128)?;
        sync::WriteAt::write_at(&mut self.0, pos, buf)
    }
    fn flush(&mut self) -> io::Result<()> {
        call(&self.1, OB_SYNC, 0, 0)
    }
}

fn kind_from(c: u128) -> io::ErrorKind {
    match c {
        0 => io::ErrorKind::Other,
        1 => io::ErrorKind::UnexpectedEof,
        2 => io::ErrorKind::ConnectionReset,
        3 => io::ErrorKind::WriteZero,
        4 => io::ErrorKind::InvalidInput,
        _ => io::ErrorKind::InvalidData,
    }
}
fn io_codes(r: &io::Result<()>) -> (u128, u128) {
    match r {
        Ok(()) => (0, 0),
        Err(e) => (6, kind_code(e.kind())),
    }
}

/// fault: args [kind, seed, size, bs, op, fobj, fk_plus_1, fkind, okind, q...]
///  -> [rc, payload, nlog, (obj, a, b)*, nfree, (obj, a, b)*]: the run with the fault, then the call log of the same
///     operation run without a fault (the reference the faulted run is compared with)
pub fn fault(a: &[u128]) -> Vec<u128> {
    let mut r1 = fault_once(a);
    if r1.len() < 3 {
        return r1;
    }
    let r0 = if a[6] == 0 {
        r1.clone()
    } else {
        let mut b = a.to_vec();
        b[6] = 0;
        match std::panic::catch_unwind(std::panic::AssertUnwindSafe(|| fault_once(&b))) {
            Ok(v) => v,
            Err(_) => vec![crate::PANIC, 0, 0],
        }
    };
    r1.extend_from_slice(&r0[2..]);
    r1
}

fn fault_once(a: &[u128]) -> Vec<u128> {
    let data = gen_data(a[0] as u64, a[1] as u64, a[2] as usize);
    let bs = a[3] as u8;
    let op = a[4];
    let fault = if a[6] == 0 { None } else { Some((a[5], a[6] as u64 - 1, kind_from(a[7]))) };
    let okind = a[8];
    let q: Vec<u64> = a[9..].iter().map(|x| *x as u64).collect();
    let ranges = mk_ranges(&q);
    let c: C = Rc::new(RefCell::new(Ctl { log: Vec::new(), fault, counts: [0; 10] }));
    let t = BaoTree::new(data.len() as u64, BlockSize::from_chunk_log(bs));
    let root = refenc::root(&data);
    let intact = || Ob::intact(okind, &data, bs);
    let zero_ob = || Ob::new(okind, root, t, vec![0u8; t.outboard_size() as usize]);
    let honest = || refenc::flatten(&refenc::encode(&data, bs, &refenc::sel_fn(q.clone(), data.len())));
    macro_rules! sync_ob {
        ($ob:expr, $o:ident => $e:expr) => {
            match $ob {
                Ob::PreIO(x) => { let $o = LOb(x, c.clone()); $e }
                Ob::PostIO(x) => { let $o = LOb(x, c.clone()); $e }
                Ob::PreMem(x) => { let $o = LOb(x, c.clone()); $e }
                Ob::PostMem(x) => { let $o = LOb(x, c.clone()); $e }
                Ob::Empty(x) => { let $o = LOb(x, c.clone()); $e }
            }
        };
    }
    macro_rules! fsm_ob {
        ($ob:expr, $o:ident => $e:expr) => {
            match $ob {
                Ob::PreIO(x) => { let $o = LOb(PreOrderOutboard { root: x.root, tree: x.tree, data: bytes::BytesMut::from(&x.data[..]) }, c.clone()); $e }
                Ob::PostIO(x) => { let $o = LOb(PostOrderOutboard { root: x.root, tree: x.tree, data: bytes::BytesMut::from(&x.data[..]) }, c.clone()); $e }
                Ob::PreMem(x) => { let $o = LOb(x, c.clone()); $e }
                Ob::PostMem(x) => { let $o = LOb(x, c.clone()); $e }
                Ob::Empty(x) => { let $o = LOb(x, c.clone()); $e }
            }
        };
    }
    let (rc, p): (u128, u128) = match op {
        // sync outboard creation into an outboard (init_from: outboard() then sync())
        0 => sync_ob!(zero_ob(), o => {
            let mut o = o;
            let r = sync::outboard(LRead(&data, c.clone(), DATA_SEQ), t, &mut o).map(|_| ());
            let r = r.and_then(|_| sync::OutboardMut::sync(&mut o));
            io_codes(&r)
        }),
        // CreateOutboard::init_from of the io-backed outboards over a logging store
        1 => {
            use sync::CreateOutboard;
            let mut o = PostOrderOutboard { root, tree: t, data: LStore(Vec::new(), c.clone()) };
            io_codes(&o.init_from(LRead(&data, c.clone(), DATA_SEQ)))
        }
        9 => {
            use sync::CreateOutboard;
            let mut o = PreOrderOutboard { root, tree: t, data: LStore(Vec::new(), c.clone()) };
            io_codes(&o.init_from(LRead(&data, c.clone(), DATA_SEQ)))
        }
        // sync post-order writer
        3 => {
            let mut w = LWrite(Vec::new(), c.clone());
            let r = sync::outboard_post_order(LRead(&data, c.clone(), DATA_SEQ), t, &mut w).map(|_| ());
            io_codes(&r)
        }
        // fsm outboard creation
        2 => fsm_ob!(zero_ob(), o => {
            let mut o = o;
            let r = block_on(fsm::outboard(LStreamReader(Bytes::from(data.clone()), c.clone(), DATA_SEQ), t, &mut o)).map(|_| ());
            io_codes(&r)
        }),
        4 => {
            let mut w = LStreamWriter(Vec::new(), c.clone());
            let r = block_on(fsm::outboard_post_order(LStreamReader(Bytes::from(data.clone()), c.clone(), DATA_SEQ), t, &mut w)).map(|_| ());
            io_codes(&r)
        }
        5 => sync_ob!(intact(), o => enc_rc(&sync::encode_ranges_validated(LReadAt(&data, c.clone()), o, &ranges, LWrite(Vec::new(), c.clone())))),
        7 => sync_ob!(intact(), o => enc_rc(&sync::encode_ranges(LReadAt(&data, c.clone()), o, &ranges, LWrite(Vec::new(), c.clone())))),
        6 => fsm_ob!(intact(), o => enc_rc(&block_on(fsm::encode_ranges_validated(LSliceReader(Bytes::from(data.clone()), c.clone()), o, &ranges, LStreamWriter(Vec::new(), c.clone()))))),
        8 => fsm_ob!(intact(), o => enc_rc(&block_on(fsm::encode_ranges(LSliceReader(Bytes::from(data.clone()), c.clone()), o, &ranges, LStreamWriter(Vec::new(), c.clone()))))),
        10 => sync_ob!(zero_ob(), o => {
            let s = honest();
            let r: Result<(), DecodeError> = sync::decode_ranges(LRead(&s, c.clone(), STREAM_IN), &ranges, LTarget(vec![0u8; data.len()], c.clone()), o);
            match &r { Ok(()) => (0, 0), Err(e) => dec_rc(e) }
        }),
        11 => fsm_ob!(zero_ob(), o => {
            let s = honest();
            let r = block_on(fsm::decode_ranges(LStreamReader(Bytes::from(s), c.clone(), STREAM_IN), ranges.clone(), LTarget(vec![0u8; data.len()], c.clone()), o));
            match &r { Ok(()) => (0, 0), Err(e) => dec_rc(e) }
        }),
        12 => sync_ob!(intact(), from => {
            let to_kind = (okind + 1) % 4;
            sync_ob!(Ob::new(to_kind, root, t, vec![0u8; t.outboard_size() as usize]), to => io_codes(&sync::copy(from, to)))
        }),
        13 => fsm_ob!(intact(), from => {
            let to_kind = (okind + 1) % 4;
            fsm_ob!(Ob::new(to_kind, root, t, vec![0u8; t.outboard_size() as usize]), to => io_codes(&block_on(fsm::copy(from, to))))
        }),
        // fsm data validator, sync / fsm outboard validators: the error is the last item of the stream
        15 => fsm_ob!(intact(), o => {
            use futures_lite::StreamExt;
            let mut rc = (0u128, 0u128);
            let mut s = Box::pin(fsm::valid_ranges(o, LSliceReader(Bytes::from(data.clone()), c.clone()), &ranges));
            while let Some(r) = block_on(s.next()) {
                if let Err(e) = r {
                    rc = (6, kind_code(e.kind()));
                }
            }
            rc
        }),
        16 => sync_ob!(intact(), o => {
            let mut rc = (0u128, 0u128);
            for r in sync::valid_outboard_ranges(o, &ranges) {
                if let Err(e) = r {
                    rc = (6, kind_code(e.kind()));
                }
            }
            rc
        }),
        17 => fsm_ob!(intact(), o => {
            use futures_lite::StreamExt;
            let mut rc = (0u128, 0u128);
            let mut s = Box::pin(fsm::valid_outboard_ranges(o, &ranges));
            while let Some(r) = block_on(s.next()) {
                if let Err(e) = r {
                    rc = (6, kind_code(e.kind()));
                }
            }
            rc
        }),
        // sync data validator: the error is the last item of the iterator
        _ => sync_ob!(intact(), o => {
            let mut rc = (0u128, 0u128);
            for r in sync::valid_ranges(o, LReadAt(&data, c.clone()), &ranges) {
                if let Err(e) = r {
                    rc = (6, kind_code(e.kind()));
                }
            }
            rc
        }),
    };
    let _: Option<(EncodeError, ChunkRanges)> = None;
    let ctl = c.borrow();
    let mut o = vec![rc, p, ctl.log.len() as u128];
    for (x, y, z) in &ctl.log {
        o.extend_from_slice(&[*x, *y, *z]);
    }
    o
}
