//! protocol families: outboard creation, encoders, decoders, validators, histories
use crate::common::*;
use crate::refenc;
use bao_tree::{
    blake3,
    io::{
        fsm, mixed,
        outboard::{EmptyOutboard, PostOrderMemOutboard, PostOrderOutboard, PreOrderMemOutboard, PreOrderOutboard},
        sync, BaoContentItem, DecodeError, EncodeError, Leaf, Parent,
    },
    BaoTree, BlockSize, ChunkNum, ChunkRanges,
};
use bytes::Bytes;
use futures_lite::future::block_on;
use std::io::{self, Cursor};

pub fn kind_code(k: io::ErrorKind) -> u128 {
    use io::ErrorKind::*;
    match k {
        Other => 0,
        UnexpectedEof => 1,
        ConnectionReset => 2,
        WriteZero => 3,
        InvalidInput => 4,
        InvalidData => 5,
        Interrupted => 6,
        // injected as fault kind 6 by the sched family; the model treats it as any other kind
        TimedOut => 0,
        _ => 50,
    }
}

fn tree(size: u64, bs: u8) -> BaoTree {
    BaoTree::new(size, BlockSize::from_chunk_log(bs))
}
fn hd(h: &blake3::Hash) -> u128 {
    digest(h.as_bytes()) as u128
}

/// the five outboard kinds as one enum so that families can be written once
pub enum Ob {
    PreIO(PreOrderOutboard<Vec<u8>>),
    PostIO(PostOrderOutboard<Vec<u8>>),
    PreMem(PreOrderMemOutboard<Vec<u8>>),
    PostMem(PostOrderMemOutboard<Vec<u8>>),
    Empty(EmptyOutboard),
}
impl Ob {
    pub fn new(kind: u128, root: blake3::Hash, tree: BaoTree, data: Vec<u8>) -> Ob {
        match kind {
            0 => Ob::PreIO(PreOrderOutboard { root, tree, data }),
            1 => Ob::PostIO(PostOrderOutboard { root, tree, data }),
            2 => Ob::PreMem(PreOrderMemOutboard { root, tree, data }),
            3 => Ob::PostMem(PostOrderMemOutboard { root, tree, data }),
            _ => Ob::Empty(EmptyOutboard { root, tree }),
        }
    }
    /// intact store of the given kind, built from the reference implementation
    pub fn intact(kind: u128, data: &[u8], bs: u8) -> Ob {
        let t = tree(data.len() as u64, bs);
        let post = kind == 1 || kind == 3;
        Ob::new(kind, refenc::root(data), t, refenc::outboard(data, bs, post))
    }
    pub fn data(&self) -> Vec<u8> {
        match self {
            Ob::PreIO(o) => o.data.clone(),
            Ob::PostIO(o) => o.data.clone(),
            Ob::PreMem(o) => o.data.clone(),
            Ob::PostMem(o) => o.data.clone(),
            Ob::Empty(_) => vec![],
        }
    }
    pub fn data_mut(&mut self) -> Option<&mut Vec<u8>> {
        match self {
            Ob::PreIO(o) => Some(&mut o.data),
            Ob::PostIO(o) => Some(&mut o.data),
            Ob::PreMem(o) => Some(&mut o.data),
            Ob::PostMem(o) => Some(&mut o.data),
            Ob::Empty(_) => None,
        }
    }
    pub fn root(&self) -> blake3::Hash {
        match self {
            Ob::PreIO(o) => o.root,
            Ob::PostIO(o) => o.root,
            Ob::PreMem(o) => o.root,
            Ob::PostMem(o) => o.root,
            Ob::Empty(o) => o.root,
        }
    }
    pub fn tree(&self) -> BaoTree {
        match self {
            Ob::PreIO(o) => o.tree,
            Ob::PostIO(o) => o.tree,
            Ob::PreMem(o) => o.tree,
            Ob::PostMem(o) => o.tree,
            Ob::Empty(o) => o.tree,
        }
    }
}
macro_rules! with_ob {
    ($ob:expr, $o:ident => $e:expr) => {
        match $ob {
            Ob::PreIO($o) => $e,
            Ob::PostIO($o) => $e,
            Ob::PreMem($o) => $e,
            Ob::PostMem($o) => $e,
            Ob::Empty($o) => $e,
        }
    };
}

/// fsm flavour: io-backed outboards need a BytesMut store (AsyncSliceReader + AsyncSliceWriter);
/// the bytes are copied back afterwards
macro_rules! with_ob_fsm {
    ($ob:expr, $o:ident => $e:expr) => {
        match $ob {
            Ob::PreIO(x) => {
                let mut tmp = PreOrderOutboard { root: x.root, tree: x.tree, data: bytes::BytesMut::from(&x.data[..]) };
                let r = {
                    let $o = &mut tmp;
                    $e
                };
                x.data = tmp.data.to_vec();
                x.root = tmp.root;
                r
            }
            Ob::PostIO(x) => {
                let mut tmp = PostOrderOutboard { root: x.root, tree: x.tree, data: bytes::BytesMut::from(&x.data[..]) };
                let r = {
                    let $o = &mut tmp;
                    $e
                };
                x.data = tmp.data.to_vec();
                x.root = tmp.root;
                r
            }
            Ob::PreMem($o) => $e,
            Ob::PostMem($o) => $e,
            Ob::Empty($o) => $e,
        }
    };
}

/// digest over the concatenated pairs `load` returns for every node of the pre-order traversal
fn loads_digest(ob: &Ob) -> u128 {
    use sync::Outboard;
    let t = ob.tree();
    let mut all = Vec::new();
    for n in t.pre_order_nodes_iter() {
        let r = with_ob!(ob, o => o.load(n));
        match r {
            Ok(Some((l, r))) => {
                all.extend_from_slice(l.as_bytes());
                all.extend_from_slice(r.as_bytes());
            }
            Ok(None) => {}
            Err(e) => all.push(200 + kind_code(e.kind()) as u8),
        }
    }
    digest(&all) as u128
}

fn io_rc<T>(r: &io::Result<T>) -> u128 {
    match r {
        Ok(_) => 0,
        Err(e) => 1 + kind_code(e.kind()),
    }
}

/// outboard: args [kind, seed, size, bs, entry] -> [rc, root_dg, data_len, data_dg, loads_dg, root_is_blake3, bao_equal]
pub fn outboard(a: &[u128]) -> Vec<u128> {
    use fsm::CreateOutboard as FC;
    use sync::CreateOutboard as SC;
    let data = gen_data(a[0] as u64, a[1] as u64, a[2] as usize);
    let size = data.len() as u64;
    let bs = a[3] as u8;
    let bsz = BlockSize::from_chunk_log(bs);
    let t = tree(size, bs);
    let entry = a[4];
    let stale = |extra: usize| vec![0xAAu8; t.outboard_size() as usize + extra];
    let (rc, ob): (u128, Option<Ob>) = match entry {
        0 => {
            let r = <PreOrderOutboard<Vec<u8>> as SC>::create_sized(Cursor::new(&data), size, bsz);
            (io_rc(&r), r.ok().map(Ob::PreIO))
        }
        1 => {
            let r = <PostOrderOutboard<Vec<u8>> as SC>::create_sized(Cursor::new(&data), size, bsz);
            (io_rc(&r), r.ok().map(Ob::PostIO))
        }
        2 => (0, Some(Ob::PreMem(PreOrderMemOutboard::create(&data, bsz)))),
        3 => (0, Some(Ob::PostMem(PostOrderMemOutboard::create(&data, bsz)))),
        4 => {
            let mut out = Vec::new();
            let r = sync::outboard_post_order(Cursor::new(&data), t, &mut out);
            let rc = io_rc(&r);
            (rc, r.ok().map(|root| Ob::PostIO(PostOrderOutboard { root, tree: t, data: out })))
        }
        5 => {
            let r = block_on(<PreOrderOutboard<bytes::BytesMut> as FC>::create_sized(Bytes::from(data.clone()), size, bsz));
            (io_rc(&r), r.ok().map(|o| Ob::PreIO(PreOrderOutboard { root: o.root, tree: o.tree, data: o.data.to_vec() })))
        }
        6 => {
            let r = block_on(<PostOrderOutboard<bytes::BytesMut> as FC>::create_sized(Bytes::from(data.clone()), size, bsz));
            (io_rc(&r), r.ok().map(|o| Ob::PostIO(PostOrderOutboard { root: o.root, tree: o.tree, data: o.data.to_vec() })))
        }
        7 => {
            let mut out = Vec::new();
            let r = block_on(fsm::outboard_post_order(Bytes::from(data.clone()), t, &mut out));
            let rc = io_rc(&r);
            (rc, r.ok().map(|root| Ob::PostIO(PostOrderOutboard { root, tree: t, data: out })))
        }
        8 => {
            let mut ob = PreOrderOutboard { root: blake3::Hash::from([0xAA; 32]), tree: t, data: stale(64) };
            let r = SC::init_from(&mut ob, Cursor::new(&data));
            (io_rc(&r), Some(Ob::PreIO(ob)))
        }
        9 => {
            let mut ob = PostOrderOutboard { root: blake3::Hash::from([0xAA; 32]), tree: t, data: stale(64) };
            let r = SC::init_from(&mut ob, Cursor::new(&data));
            (io_rc(&r), Some(Ob::PostIO(ob)))
        }
        10 => {
            let r = <PreOrderOutboard<Vec<u8>> as SC>::create(Cursor::new(&data), bsz);
            (io_rc(&r), r.ok().map(Ob::PreIO))
        }
        11 => {
            let r = block_on(<PostOrderOutboard<bytes::BytesMut> as FC>::create(Bytes::from(data.clone()), bsz));
            (io_rc(&r), r.ok().map(|o| Ob::PostIO(PostOrderOutboard { root: o.root, tree: o.tree, data: o.data.to_vec() })))
        }
        12 => {
            let mut ob = PostOrderMemOutboard { root: blake3::Hash::from([0; 32]), tree: t, data: vec![0u8; t.outboard_size() as usize] };
            let r = sync::outboard(Cursor::new(&data), t, &mut ob);
            let rc = io_rc(&r);
            if let Ok(root) = r {
                ob.root = root;
            }
            (rc, Some(Ob::PostMem(ob)))
        }
        13 => {
            let mut ob = PreOrderMemOutboard { root: blake3::Hash::from([0; 32]), tree: t, data: vec![0u8; t.outboard_size() as usize] };
            let r = block_on(fsm::outboard(Bytes::from(data.clone()), t, &mut ob));
            let rc = io_rc(&r);
            if let Ok(root) = r {
                ob.root = root;
            }
            (rc, Some(Ob::PreMem(ob)))
        }
        14 => {
            let mut ob = PostOrderOutboard { root: blake3::Hash::from([0xAA; 32]), tree: t, data: bytes::BytesMut::from(&stale(64)[..]) };
            let r = block_on(FC::init_from(&mut ob, Bytes::from(data.clone())));
            (io_rc(&r), Some(Ob::PostIO(PostOrderOutboard { root: ob.root, tree: ob.tree, data: ob.data.to_vec() })))
        }
        15 => {
            // two outboards in a row from the same seekable handle: the second one is observed
            let mut cur = Cursor::new(&data);
            let _first = <PostOrderOutboard<Vec<u8>> as SC>::create(&mut cur, bsz);
            let r = <PreOrderOutboard<Vec<u8>> as SC>::create(&mut cur, bsz);
            (io_rc(&r), r.ok().map(Ob::PreIO))
        }
        16 => {
            // create() on a handle that is not at position 0: it measures and rewinds, the whole blob counts
            let mut cur = Cursor::new(&data);
            cur.set_position(std::cmp::min(8, data.len() as u64));
            let r = <PostOrderOutboard<Vec<u8>> as SC>::create(&mut cur, bsz);
            (io_rc(&r), r.ok().map(Ob::PostIO))
        }
        17 => {
            // create_sized from a source that holds more bytes than `size`
            let mut longer = data.clone();
            longer.extend_from_slice(&[0x5Au8; 3000]);
            let r = <PreOrderOutboard<Vec<u8>> as SC>::create_sized(Cursor::new(&longer), size, bsz);
            (io_rc(&r), r.ok().map(Ob::PreIO))
        }
        18 => {
            let mut longer = data.clone();
            longer.extend_from_slice(&[0x5Au8; 3000]);
            let mut ob = PostOrderOutboard { root: blake3::Hash::from([0xAA; 32]), tree: t, data: stale(0) };
            let r = SC::init_from(&mut ob, Cursor::new(&longer));
            (io_rc(&r), Some(Ob::PostIO(ob)))
        }
        19 => {
            // two copies of the blob back to back on one stream: the second creation starts where the first stopped
            let mut twice = data.clone();
            twice.extend_from_slice(&data);
            let mut cur = Cursor::new(&twice);
            let first = <PreOrderOutboard<Vec<u8>> as SC>::create_sized(&mut cur, size, bsz);
            let r = <PostOrderOutboard<Vec<u8>> as SC>::create_sized(&mut cur, size, bsz);
            let ok = first.is_ok() && cur.position() == 2 * size;
            (if ok { io_rc(&r) } else { 77 }, r.ok().map(Ob::PostIO))
        }
        _ => panic!("entry"),
    };
    match ob {
        None => vec![rc, 0, 0, 0, 0, 0, 0],
        Some(ob) => {
            let d = ob.data();
            let root_ok = ob.root() == blake3::hash(&data);
            let is_pre = matches!(ob, Ob::PreIO(_) | Ob::PreMem(_));
            let mut bao_ok = if bs == 0 && is_pre && !matches!(entry, 8 | 9 | 14) {
                let (bo, bh) = bao::encode::outboard(&data);
                bo[8..] == d[..] && bh.as_bytes() == ob.root().as_bytes()
            } else {
                true
            };
            // the size-prefixed / size-suffixed forms of the memory outboards
            let sz = (data.len() as u64).to_le_bytes();
            match &ob {
                Ob::PreMem(x) if !matches!(entry, 8 | 9 | 14) => {
                    let v = x.clone().into_inner_with_prefix();
                    bao_ok = bao_ok && v[..8] == sz && v[8..] == d[..];
                    if bs == 0 {
                        bao_ok = bao_ok && v == bao::encode::outboard(&data).0;
                    }
                }
                Ob::PostMem(x) if !matches!(entry, 8 | 9 | 14) => {
                    let v = x.clone().into_inner_with_suffix();
                    bao_ok = bao_ok && v[v.len() - 8..] == sz && v[..v.len() - 8] == d[..];
                }
                _ => {}
            }
            vec![rc, hd(&ob.root()), d.len() as u128, digest(&d) as u128, loads_digest(&ob), b(root_ok), b(bao_ok)]
        }
    }
}

pub fn enc_rc(r: &Result<(), EncodeError>) -> (u128, u128) {
    match r {
        Ok(()) => (0, 0),
        Err(EncodeError::ParentHashMismatch(n)) => (1, nv(*n) as u128),
        Err(EncodeError::LeafHashMismatch(c)) => (2, c.0 as u128),
        Err(EncodeError::ParentWrite(n)) => (3, nv(*n) as u128),
        Err(EncodeError::LeafWrite(c)) => (4, c.0 as u128),
        Err(EncodeError::SizeMismatch) => (5, 0),
        Err(EncodeError::Io(e)) => (6, kind_code(e.kind())),
    }
}
pub fn dec_rc(e: &DecodeError) -> (u128, u128) {
    match e {
        DecodeError::ParentNotFound(n) => (1, nv(*n) as u128),
        DecodeError::LeafNotFound(c) => (2, c.0 as u128),
        DecodeError::ParentHashMismatch(n) => (3, nv(*n) as u128),
        DecodeError::LeafHashMismatch(c) => (4, c.0 as u128),
        DecodeError::Io(e) => (5, kind_code(e.kind())),
    }
}

struct VecSender(Vec<mixed::EncodedItem>);
impl mixed::Sender for VecSender {
    type Error = ();
    fn send(&mut self, item: mixed::EncodedItem) -> impl std::future::Future<Output = Result<(), ()>> + '_ {
        async move {
            self.0.push(item);
            Ok(())
        }
    }
}

/// parse a length-prefixed boundary list starting at a[i]; returns (list, next index)
pub fn take_list(a: &[u128], i: usize) -> (Vec<u64>, usize) {
    let n = a[i] as usize;
    (a[i + 1..i + 1 + n].iter().map(|x| *x as u64).collect(), i + 1 + n)
}

/// encode: args [kind, seed, size, bs, encoder, okind, ncor, (where, pos, delta)*, q...]
///   -> [rc, payload, out_len, out_dg, frame_ok]
pub fn encode(a: &[u128]) -> Vec<u128> {
    let mut data = gen_data(a[0] as u64, a[1] as u64, a[2] as usize);
    let bs = a[3] as u8;
    let encoder = a[4];
    let okind = a[5];
    let mut ob = Ob::intact(okind, &data, bs);
    let ncor = a[6] as usize;
    for k in 0..ncor {
        let (w, pos, delta) = (a[7 + 3 * k], a[8 + 3 * k] as usize, a[9 + 3 * k] as u8);
        if w == 4 {
            // the provider holds only a prefix of the blob (complete outboard)
            data.truncate(pos);
        } else if w == 5 {
            // the data file is longer than the blob the outboard describes
            data.extend_from_slice(&vec![0x5Au8; pos]);
        } else if w == 0 {
            if !data.is_empty() {
                let p = pos % data.len();
                data[p] ^= delta;
            }
        } else if let Some(d) = ob.data_mut() {
            if !d.is_empty() {
                let p = pos % d.len();
                d[p] ^= delta;
            }
        }
    }
    let q: Vec<u64> = a[7 + 3 * ncor..].iter().map(|x| *x as u64).collect();
    let ranges = mk_ranges(&q);
    let mut out: Vec<u8> = Vec::new();
    let mut frame_ok = 1u128;
    let r: Result<(), EncodeError> = match encoder {
        0 => with_ob!(&ob, o => sync::encode_ranges_validated(&data[..], o, &ranges, &mut out)),
        2 => with_ob!(&ob, o => sync::encode_ranges(&data[..], o, &ranges, &mut out)),
        1 => with_ob_fsm!(&mut ob, o => block_on(fsm::encode_ranges_validated(Bytes::from(data.clone()), o, &ranges, &mut out))),
        3 => with_ob_fsm!(&mut ob, o => block_on(fsm::encode_ranges(Bytes::from(data.clone()), o, &ranges, &mut out))),
        _ => {
            let mut s = VecSender(Vec::new());
            let bytes = Bytes::from(data.clone());
            let _ = with_ob!(&ob, o => block_on(mixed::traverse_ranges_validated(bytes, o, &ranges, &mut s)));
            // framing: Size first, Done or Error last, nothing else in between but Parent / Leaf
            let items = s.0;
            let n = items.len();
            let mut res = Ok(());
            for (i, it) in items.into_iter().enumerate() {
                match it {
                    mixed::EncodedItem::Size(sz) => {
                        if i != 0 || sz != a[2] as u64 {
                            frame_ok = 0;
                        }
                    }
                    mixed::EncodedItem::Parent(Parent { pair, .. }) => {
                        if i == 0 || i == n - 1 {
                            frame_ok = 0;
                        }
                        out.extend_from_slice(pair.0.as_bytes());
                        out.extend_from_slice(pair.1.as_bytes());
                    }
                    mixed::EncodedItem::Leaf(Leaf { data, .. }) => {
                        if i == 0 || i == n - 1 {
                            frame_ok = 0;
                        }
                        out.extend_from_slice(&data);
                    }
                    mixed::EncodedItem::Done => {
                        if i != n - 1 {
                            frame_ok = 0;
                        }
                    }
                    mixed::EncodedItem::Error(e) => {
                        if i != n - 1 {
                            frame_ok = 0;
                        }
                        res = Err(e);
                    }
                }
            }
            if n < 2 {
                frame_ok = 0;
            }
            res
        }
    };
    let (rc, p) = enc_rc(&r);
    vec![rc, p, out.len() as u128, digest(&out) as u128, frame_ok]
}

/// build a stream from ops over a base and an alternative honest encoding
/// ops: (1, n, _, _) truncate to n; (2, pos, delta, _) xor; (3, pos, _, _) swap 32 bytes at pos with pos+32;
/// (4, seed, len, _) append random; (5, len, _, _) append zeros; (6, pos, len, altpos) splice from alt;
/// (7, dst, src, len) copy within the stream; (8, pos, len, _) append alt[pos..pos+len];
/// (9, pos, len, _) append base[pos..pos+len] (the unmodified base)
pub fn build_stream(base: Vec<u8>, alt: &[u8], ops: &[u128]) -> Vec<u8> {
    let orig = base.clone();
    let mut s = base;
    for op in ops.chunks(4) {
        let (o, x, y, z) = (op[0], op[1] as usize, op[2] as usize, op[3] as usize);
        match o {
            1 => s.truncate(x),
            2 => {
                if x < s.len() {
                    s[x] ^= y as u8;
                }
            }
            3 => {
                if x + 64 <= s.len() {
                    for i in 0..32 {
                        s.swap(x + i, x + 32 + i);
                    }
                }
            }
            4 => {
                let r = gen_data(0, op[1] as u64, y);
                s.extend_from_slice(&r);
            }
            5 => s.extend(std::iter::repeat(0u8).take(x)),
            6 => {
                for i in 0..y {
                    if x + i < s.len() && z + i < alt.len() {
                        s[x + i] = alt[z + i];
                    }
                }
            }
            7 => {
                for i in 0..z {
                    if x + i < s.len() && y + i < s.len() {
                        s[x + i] = s[y + i];
                    }
                }
            }
            8 => {
                let e = std::cmp::min(x + y, alt.len());
                if x < e {
                    s.extend_from_slice(&alt[x..e]);
                }
            }
            9 => {
                let e = std::cmp::min(x + y, orig.len());
                if x < e {
                    s.extend_from_slice(&orig[x..e]);
                }
            }
            _ => {}
        }
    }
    s
}

/// 1 = hash() always equalled the root, 0 = some mismatch, 2 = hash() panicked at least once
fn upd_hash(cur: u128, x: u128) -> u128 {
    if x == crate::PANIC || cur == 2 {
        2
    } else if x == 0 {
        0
    } else {
        cur
    }
}

fn item_obs(it: &BaoContentItem, o: &mut Vec<u128>) {
    match it {
        BaoContentItem::Parent(Parent { node, pair }) => {
            let mut p = pair.0.as_bytes().to_vec();
            p.extend_from_slice(pair.1.as_bytes());
            o.extend_from_slice(&[0, nv(*node) as u128, 64, digest(&p) as u128]);
        }
        BaoContentItem::Leaf(Leaf { offset, data }) => {
            o.extend_from_slice(&[1, *offset as u128, data.len() as u128, digest(data) as u128]);
        }
    }
}

/// decode: args [kind, seed, size, bs, claimed, driver, sink, bs_s, size2, seed2, nq, q.., nqs, qs.., ops(4 each)..]
///  -> [outcome, payload, io_kind, consumed, hash_ok, tree_ok, target_len, target_dg, ob_dg, stream_len, stream_dg, nitems, (tag,id,len,dg)*]
pub fn decode(a: &[u128]) -> Vec<u128> {
    let data = gen_data(a[0] as u64, a[1] as u64, a[2] as usize);
    let bs = a[3] as u8;
    let claimed = a[4] as u64;
    let driver = a[5];
    let sink = a[6];
    let bs_s = a[7] as u8;
    let size2 = a[8] as usize;
    let seed2 = a[9] as u64;
    let (q, i) = take_list(a, 10);
    let (qs, i) = take_list(a, i);
    let ops = &a[i..];
    // honest streams from the reference implementation
    let base = refenc::flatten(&refenc::encode(&data, bs_s, &refenc::sel_fn(qs.clone(), data.len())));
    let data2 = gen_data(a[0] as u64, seed2, size2);
    let alt = refenc::flatten(&refenc::encode(&data2, bs, &refenc::sel_fn(q.clone(), data2.len())));
    let stream = build_stream(base, &alt, ops);
    let root = refenc::root(&data);
    let t = tree(claimed, bs);
    let ranges = mk_ranges(&q);
    let mut items: Vec<u128> = Vec::new();
    let mut nitems = 0u128;
    let mut outcome = (0u128, 0u128);
    let mut iokind = 0u128;
    let mut consumed = 0u128;
    let mut hash_ok = 1u128;
    let mut tree_ok = 1u128;
    let mut target: Vec<u8> = if driver == 2 || driver == 3 { vec![0xA5u8; claimed as usize] } else { Vec::new() };
    let mut ob_dg = 0u128;
    let set_err = |e: DecodeError, outcome: &mut (u128, u128), iokind: &mut u128| {
        *outcome = dec_rc(&e);
        *iokind = 1 + kind_code(io::Error::from(e).kind());
    };
    match driver {
        0 | 4 => {
            let mut rd = Cursor::new(&stream[..]);
            {
                let mut it = if driver == 0 {
                    sync::DecodeResponseIter::new(root, t, &mut rd, &ranges)
                } else {
                    // the public constructor that takes a caller-provided buffer: a recycled, non-empty one
                    sync::DecodeResponseIter::new_with_buffer(root, t, &mut rd, &ranges, bytes::BytesMut::from(&vec![0xEEu8; t.block_size().bytes() + 7][..]))
                };
                if it.tree() != t {
                    tree_ok = 0;
                }
                let mut failed = false;
                while let Some(x) = it.next() {
                    if it.tree() != t {
                        tree_ok = 0;
                    }
                    match x {
                        Ok(item) => {
                            item_obs(&item, &mut items);
                            nitems += 1;
                        }
                        Err(e) => {
                            set_err(e, &mut outcome, &mut iokind);
                            failed = true;
                            break;
                        }
                    }
                }
                // accessor after the last step (also after an error)
                let _ = failed;
                if it.tree() != t {
                    tree_ok = 0;
                }
            }
            if outcome.0 == 0 {
                consumed = rd.position() as u128;
            }
        }
        1 => {
            let mut dec = fsm::ResponseDecoder::new(root, ranges.clone(), t, &stream[..]);
            loop {
                // accessors before every step
                hash_ok = upd_hash(hash_ok, guard(|| b(*dec.hash() == root)));
                if dec.tree() != t {
                    tree_ok = 0;
                }
                match block_on(dec.next()) {
                    fsm::ResponseDecoderNext::Done(rest) => {
                        consumed = (stream.len() - rest.len()) as u128;
                        break;
                    }
                    fsm::ResponseDecoderNext::More((d, r)) => {
                        dec = d;
                        match r {
                            Ok(item) => {
                                item_obs(&item, &mut items);
                                nitems += 1;
                            }
                            Err(e) => {
                                // accessors after an error, then finish
                                hash_ok = upd_hash(hash_ok, guard(|| b(*dec.hash() == root)));
                                if dec.tree() != t {
                                    tree_ok = 0;
                                }
                                set_err(e, &mut outcome, &mut iokind);
                                break;
                            }
                        }
                    }
                }
            }
        }
        _ => {
            let obdata = if sink == 4 { vec![] } else { vec![0u8; t.outboard_size() as usize] };
            let mut ob = Ob::new(sink, root, t, obdata);
            let r = if driver == 2 {
                let mut rd = Cursor::new(&stream[..]);
                let r = with_ob!(&mut ob, o => sync::decode_ranges(&mut rd, &ranges, &mut target, o));
                if r.is_ok() {
                    consumed = rd.position() as u128;
                }
                r
            } else {
                let mut rd = &stream[..];
                let r = with_ob_fsm!(&mut ob, o => block_on(fsm::decode_ranges(&mut rd, ranges.clone(), &mut target, o)));
                if r.is_ok() {
                    consumed = (stream.len() - rd.len()) as u128;
                }
                r
            };
            if let Err(e) = r {
                set_err(e, &mut outcome, &mut iokind);
            }
            ob_dg = digest(&ob.data()) as u128;
        }
    }
    let mut o = vec![
        outcome.0,
        outcome.1,
        iokind,
        consumed,
        hash_ok,
        tree_ok,
        target.len() as u128,
        digest(&target) as u128,
        ob_dg,
        stream.len() as u128,
        digest(&stream) as u128,
        nitems,
    ];
    o.extend(items);
    o
}

/// validate: args [kind, seed, size, bs, validator, okind, ncor, (where,pos,delta)*, q...]
///   where 2 = zero-fill data from pos to the end, 3 = zero-fill outboard from pos to the end
///  -> [trailing_rc, n, (start, end)*]
pub fn validate(a: &[u128]) -> Vec<u128> {
    use futures_lite::StreamExt;
    let mut data = gen_data(a[0] as u64, a[1] as u64, a[2] as usize);
    let bs = a[3] as u8;
    let validator = a[4];
    let okind = a[5];
    let mut ob = Ob::intact(if okind == 5 { 0 } else { okind }, &data, bs);
    let ncor = a[6] as usize;
    for k in 0..ncor {
        let (w, pos, delta) = (a[7 + 3 * k], a[8 + 3 * k] as usize, a[9 + 3 * k] as u8);
        match w {
            7 => {}
            0 => {
                if !data.is_empty() {
                    let p = pos % data.len();
                    data[p] ^= delta;
                }
            }
            1 => {
                if let Some(d) = ob.data_mut() {
                    if !d.is_empty() {
                        let p = pos % d.len();
                        d[p] ^= delta;
                    }
                }
            }
            2 => {
                for x in data.iter_mut().skip(pos) {
                    *x = 0;
                }
            }
            4 => data.truncate(pos),
            5 => data.extend_from_slice(&vec![0x5Au8; pos]),
            // the outboard store is shorter than the full outboard (a partially written file): io-backed kinds only
            6 => {
                if let Some(d) = ob.data_mut() {
                    d.truncate(pos);
                }
            }
            _ => {
                if let Some(d) = ob.data_mut() {
                    for x in d.iter_mut().skip(pos) {
                        *x = 0;
                    }
                }
            }
        }
    }
    let q: Vec<u64> = a[7 + 3 * ncor..].iter().map(|x| *x as u64).collect();
    let ranges = mk_ranges(&q);
    let mut out: Vec<(u64, u64)> = Vec::new();
    let mut rc = 0u128;
    let mut push = |r: io::Result<std::ops::Range<ChunkNum>>| match r {
        Ok(r) => out.push((r.start.0, r.end.0)),
        Err(e) => rc = 1 + kind_code(e.kind()),
    };
    if okind == 5 {
        // a node-keyed store ("use the node number as the key") that answers None for pairs never stored
        use sync::Outboard;
        let t = ob.tree();
        let missing: Vec<u128> = (0..ncor).filter(|k| a[7 + 3 * k] == 7).map(|k| a[8 + 3 * k]).collect();
        let mut map = std::collections::BTreeMap::new();
        let mut slot = 0u128;
        for n in t.pre_order_nodes_iter() {
            if let Ok(Some(p)) = with_ob!(&ob, o => o.load(n)) {
                if !missing.contains(&slot) {
                    map.insert(nv(n), p);
                }
                slot += 1;
            }
        }
        let mut m = MapOb { root: ob.root(), tree: t, map };
        match validator {
            0 => for r in sync::valid_ranges(&m, &data[..], &ranges) { push(r) },
            1 => for r in sync::valid_outboard_ranges(&m, &ranges) { push(r) },
            2 => {
                let bytes = Bytes::from(data.clone());
                let mut s = Box::pin(fsm::valid_ranges(&mut m, bytes, &ranges));
                while let Some(r) = block_on(s.next()) { push(r) }
            }
            _ => {
                let mut s = Box::pin(fsm::valid_outboard_ranges(&mut m, &ranges));
                while let Some(r) = block_on(s.next()) { push(r) }
            }
        }
        let mut o = vec![rc, out.len() as u128];
        for (s, e) in out {
            o.push(s as u128);
            o.push(e as u128);
        }
        return o;
    }
    match validator {
        0 => with_ob!(&ob, o => for r in sync::valid_ranges(o, &data[..], &ranges) { push(r) }),
        1 => with_ob!(&ob, o => for r in sync::valid_outboard_ranges(o, &ranges) { push(r) }),
        2 => with_ob_fsm!(&mut ob, o => {
            let bytes = Bytes::from(data.clone());
            let mut s = Box::pin(fsm::valid_ranges(o, bytes, &ranges));
            while let Some(r) = block_on(s.next()) { push(r) }
        }),
        _ => with_ob_fsm!(&mut ob, o => {
            let mut s = Box::pin(fsm::valid_outboard_ranges(o, &ranges));
            while let Some(r) = block_on(s.next()) { push(r) }
        }),
    }
    let mut o = vec![rc, out.len() as u128];
    for (s, e) in out {
        o.push(s as u128);
        o.push(e as u128);
    }
    o
}

#[allow(unused)]
fn _u(_: ChunkRanges) {}


/// agree_enc: args as `encode` (the encoder field is ignored) -> the five encoders' observations concatenated
pub fn agree_enc(a: &[u128]) -> Vec<u128> {
    let mut o = Vec::new();
    for e in 0..5u128 {
        let mut b = a.to_vec();
        b[4] = e;
        let r = match std::panic::catch_unwind(std::panic::AssertUnwindSafe(|| encode(&b))) {
            Ok(v) => v,
            Err(_) => vec![crate::PANIC, 0, 0, 0, 0],
        };
        o.extend(r);
    }
    o
}

/// agree_val: args as `validate` (validator field ignored) -> per validator 0..3: [len, obs...]
pub fn agree_val(a: &[u128]) -> Vec<u128> {
    let mut o = Vec::new();
    for v in 0..4u128 {
        let mut b = a.to_vec();
        b[4] = v;
        let r = match std::panic::catch_unwind(std::panic::AssertUnwindSafe(|| validate(&b))) {
            Ok(x) => x,
            Err(_) => vec![crate::PANIC],
        };
        o.push(r.len() as u128);
        o.extend(r);
    }
    o
}

/// agree_dec: args as `decode` (driver field ignored) -> per driver 0..4: [len, obs...]
pub fn agree_dec(a: &[u128]) -> Vec<u128> {
    let mut o = Vec::new();
    for d in 0..5u128 {
        let mut b = a.to_vec();
        b[5] = d;
        let r = match std::panic::catch_unwind(std::panic::AssertUnwindSafe(|| decode(&b))) {
            Ok(v) => v,
            Err(_) => vec![crate::PANIC],
        };
        o.push(r.len() as u128);
        o.extend(r);
    }
    o
}

/// agree_ob: args [kind, seed, size, bs] -> all 15 creation entry points' observations concatenated
pub fn agree_ob(a: &[u128]) -> Vec<u128> {
    let mut o = Vec::new();
    for e in 0..19u128 {
        let mut b = a.to_vec();
        b.push(e);
        let r = match std::panic::catch_unwind(std::panic::AssertUnwindSafe(|| outboard(&b))) {
            Ok(v) => v,
            Err(_) => vec![crate::PANIC, 0, 0, 0, 0, 0, 0],
        };
        o.extend(r);
    }
    o
}

/// bao: args [kind, seed, size, a, b] -> bao 0.12 slice for bytes [a*1024, b*1024) (length prefix included):
///   [len, dg, decoded_ok, crate_equal]  (decoded_ok: bao's SliceDecoder returns the selected bytes;
///   crate_equal: le64(size) ++ encode_ranges_validated(bs 0) is byte-identical to bao's slice)
pub fn bao_case(a: &[u128]) -> Vec<u128> {
    use std::io::Read;
    let data = gen_data(a[0] as u64, a[1] as u64, a[2] as usize);
    let (ca, cb) = (a[3] as u64, a[4] as u64);
    let (start, len) = (ca * 1024, (cb - ca) * 1024);
    let (enc, hash) = bao::encode::encode(&data);
    let mut ex = bao::encode::SliceExtractor::new(Cursor::new(&enc), start, len);
    let mut slice = Vec::new();
    ex.read_to_end(&mut slice).unwrap();
    let mut dec = bao::decode::SliceDecoder::new(&slice[..], &hash, start, len);
    let mut got = Vec::new();
    let ok = dec.read_to_end(&mut got).is_ok();
    let lo = std::cmp::min(start as usize, data.len());
    let hi = std::cmp::min((start + len) as usize, data.len());
    let decoded_ok = ok && got[..] == data[lo..hi];
    // the crate at block size 0
    let ob = PreOrderMemOutboard::create(&data, BlockSize::ZERO);
    let ranges = mk_ranges(&[ca, cb]);
    let mut out = (data.len() as u64).to_le_bytes().to_vec();
    sync::encode_ranges_validated(&data[..], &ob, &ranges, &mut out).unwrap();
    vec![slice.len() as u128, digest(&slice) as u128, b(decoded_ok), b(out == slice)]
}

/// a node-keyed outboard (as the trait docs suggest: "store the hashes in a database and use the node number as the key")
pub struct MapOb {
    pub root: blake3::Hash,
    pub tree: BaoTree,
    pub map: std::collections::BTreeMap<u64, (blake3::Hash, blake3::Hash)>,
}
impl sync::Outboard for MapOb {
    fn root(&self) -> blake3::Hash {
        self.root
    }
    fn tree(&self) -> BaoTree {
        self.tree
    }
    fn load(&self, node: bao_tree::TreeNode) -> io::Result<Option<(blake3::Hash, blake3::Hash)>> {
        Ok(self.map.get(&nv(node)).copied())
    }
}

impl fsm::Outboard for MapOb {
    fn root(&self) -> blake3::Hash {
        self.root
    }
    fn tree(&self) -> BaoTree {
        self.tree
    }
    async fn load(&mut self, node: bao_tree::TreeNode) -> io::Result<Option<(blake3::Hash, blake3::Hash)>> {
        Ok(self.map.get(&nv(node)).copied())
    }
}

/// copy: args [kind, seed, size, bs, from_kind, to_kind, driver, removed slots...] -> [rc, to_data_dg, to_loads_dg, from_loads_dg, flipflip_equal]
///   from_kind 5: a node-keyed (map) outboard from which the pairs at the given pre-order slots were removed (sync copy only)
pub fn copy_case(a: &[u128]) -> Vec<u128> {
    let data = gen_data(a[0] as u64, a[1] as u64, a[2] as usize);
    let bs = a[3] as u8;
    if a[4] == 5 {
        use sync::Outboard;
        let full = Ob::intact(0, &data, bs);
        let t = full.tree();
        let mut map = std::collections::BTreeMap::new();
        let mut slot = 0u128;
        for n in t.pre_order_nodes_iter() {
            if let Ok(Some(p)) = with_ob!(&full, o => o.load(n)) {
                if !a[7..].contains(&slot) {
                    map.insert(nv(n), p);
                }
                slot += 1;
            }
        }
        let from = MapOb { root: full.root(), tree: t, map };
        let mut to = Ob::new(a[5], full.root(), t, vec![0u8; t.outboard_size() as usize]);
        let r = with_ob!(&mut to, o => sync::copy(&from, o));
        return vec![io_rc(&r), digest(&to.data()) as u128, loads_digest(&to), 0, 1];
    }
    let from = Ob::intact(a[4], &data, bs);
    let t = from.tree();
    let mut to = Ob::new(a[5], from.root(), t, vec![0u8; t.outboard_size() as usize]);
    let mut from2 = Ob::intact(a[4], &data, bs);
    let r: io::Result<()> = if a[6] == 0 {
        with_ob!(&from, f => with_ob!(&mut to, o => sync::copy(f, o)))
    } else {
        with_ob_fsm!(&mut from2, f => with_ob_fsm!(&mut to, o => block_on(fsm::copy(f, o))))
    };
    // flip().flip() on the memory outboards
    let pre = PreOrderMemOutboard { root: from.root(), tree: t, data: refenc::outboard(&data, bs, false) };
    let post = PostOrderMemOutboard { root: from.root(), tree: t, data: refenc::outboard(&data, bs, true) };
    let mut ff = pre.flip().flip() == pre && post.flip().flip() == post && pre.flip() == post && post.flip() == pre;
    // flipping an outboard held in an oversized buffer (slots are addressed from the start: the post-order bytes with the
    // size suffix still attached, a pre-order outboard at the start of a page-rounded buffer) invents nothing
    let mut post_long = post.data.clone();
    post_long.extend_from_slice(&(data.len() as u64).to_le_bytes());
    let mut pre_long = pre.data.clone();
    pre_long.extend_from_slice(&[0x77u8; 100]);
    let post_l = PostOrderMemOutboard { root: from.root(), tree: t, data: post_long };
    let pre_l = PreOrderMemOutboard { root: from.root(), tree: t, data: pre_long };
    ff = ff && post_l.flip() == pre && pre_l.flip() == post;
    vec![io_rc(&r), digest(&to.data()) as u128, loads_digest(&to), loads_digest(&from), b(ff)]
}

/// grow: args [kind, seed, size1, size2, bs] (size1 <= size2) -> post-order outboards of the blob and its extension:
///   [len1, dg1, len2, dg2, common_prefix_len]
pub fn grow_case(a: &[u128]) -> Vec<u128> {
    let d2 = gen_data(a[0] as u64, a[1] as u64, a[3] as usize);
    let d1 = &d2[..a[2] as usize];
    let bsz = BlockSize::from_chunk_log(a[4] as u8);
    let route = if a.len() > 5 { a[5] } else { 0 };
    let (o1, o2): (Vec<u8>, Vec<u8>) = match route {
        1 => {
            // one handle: write the prefix, hash it, append the rest, hash again
            use bao_tree::io::sync::CreateOutboard as SC;
            use std::io::{Seek, SeekFrom, Write};
            let mut file = Cursor::new(Vec::<u8>::new());
            file.write_all(d1).unwrap();
            let o1 = <PostOrderOutboard<Vec<u8>> as SC>::create(&mut file, bsz).unwrap();
            file.seek(SeekFrom::End(0)).unwrap();
            file.write_all(&d2[d1.len()..]).unwrap();
            let o2 = <PostOrderOutboard<Vec<u8>> as SC>::create(&mut file, bsz).unwrap();
            (o1.data, o2.data)
        }
        2 => {
            let mut w1 = crate::sched::ShortW { buf: Vec::new(), maxw: 48, cap: usize::MAX };
            sync::outboard_post_order(Cursor::new(d1), BaoTree::new(d1.len() as u64, bsz), &mut w1).unwrap();
            let mut w2 = crate::sched::ShortW { buf: Vec::new(), maxw: 48, cap: usize::MAX };
            sync::outboard_post_order(Cursor::new(&d2), BaoTree::new(d2.len() as u64, bsz), &mut w2).unwrap();
            (w1.buf, w2.buf)
        }
        _ => (PostOrderMemOutboard::create(d1, bsz).data, PostOrderMemOutboard::create(&d2, bsz).data),
    };
    let cp = o1.iter().zip(o2.iter()).take_while(|(x, y)| x == y).count();
    vec![o1.len() as u128, digest(&o1) as u128, o2.len() as u128, digest(&o2) as u128, cp as u128]
}

/// poststep: args as `decode` (driver 0 = sync iterator, 1 = fsm decoder); the decoder is polled again after
/// errors, until it ends, panics, or `limit` calls were made.
///  -> events, 4 numbers each: [0,0,0,0] end; [1,node,64,dg] Ok parent; [2,offset,len,dg] Ok leaf; [3,rc,payload,0] Err; [9,0,0,0] panic
pub fn poststep(a: &[u128]) -> Vec<u128> {
    use std::panic::{catch_unwind, AssertUnwindSafe};
    let data = gen_data(a[0] as u64, a[1] as u64, a[2] as usize);
    let bs = a[3] as u8;
    let claimed = a[4] as u64;
    let driver = a[5];
    let bs_s = a[7] as u8;
    let size2 = a[8] as usize;
    let seed2 = a[9] as u64;
    let (q, i) = take_list(a, 10);
    let (qs, i) = take_list(a, i);
    let ops = &a[i..];
    let base = refenc::flatten(&refenc::encode(&data, bs_s, &refenc::sel_fn(qs.clone(), data.len())));
    let data2 = gen_data(a[0] as u64, seed2, size2);
    let alt = refenc::flatten(&refenc::encode(&data2, bs, &refenc::sel_fn(q.clone(), data2.len())));
    let stream = build_stream(base, &alt, ops);
    let root = refenc::root(&data);
    let t = tree(claimed, bs);
    let ranges = mk_ranges(&q);
    let limit = 64usize;
    let mut ev: Vec<u128> = Vec::new();
    let mut push_item = |ev: &mut Vec<u128>, r: Result<BaoContentItem, DecodeError>| match r {
        Ok(BaoContentItem::Parent(Parent { node, pair })) => {
            let mut p = pair.0.as_bytes().to_vec();
            p.extend_from_slice(pair.1.as_bytes());
            ev.extend_from_slice(&[1, nv(node) as u128, 64, digest(&p) as u128]);
        }
        Ok(BaoContentItem::Leaf(Leaf { offset, data })) => ev.extend_from_slice(&[2, offset as u128, data.len() as u128, digest(&data) as u128]),
        Err(e) => {
            let (rc, p) = dec_rc(&e);
            ev.extend_from_slice(&[3, rc, p, 0]);
        }
    };
    if driver == 0 {
        let mut rd = Cursor::new(&stream[..]);
        let mut it = sync::DecodeResponseIter::new(root, t, &mut rd, &ranges);
        for _ in 0..limit {
            match catch_unwind(AssertUnwindSafe(|| it.next())) {
                Err(_) => {
                    ev.extend_from_slice(&[9, 0, 0, 0]);
                    std::mem::forget(it);
                    return ev;
                }
                Ok(None) => {
                    ev.extend_from_slice(&[0, 0, 0, 0]);
                    break;
                }
                Ok(Some(r)) => push_item(&mut ev, r),
            }
        }
    } else {
        let mut dec = Some(fsm::ResponseDecoder::new(root, ranges.clone(), t, &stream[..]));
        for _ in 0..limit {
            let d = dec.take().unwrap();
            match catch_unwind(AssertUnwindSafe(|| block_on(d.next()))) {
                Err(_) => {
                    ev.extend_from_slice(&[9, 0, 0, 0]);
                    return ev;
                }
                Ok(fsm::ResponseDecoderNext::Done(_)) => {
                    ev.extend_from_slice(&[0, 0, 0, 0]);
                    break;
                }
                Ok(fsm::ResponseDecoderNext::More((d2, r))) => {
                    dec = Some(d2);
                    push_item(&mut ev, r);
                }
            }
        }
    }
    ev
}
