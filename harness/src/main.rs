//! btv: runs bao-tree on case lines and prints observations.
//!
//! Input (stdin or file): one case per line: `<family> <id> <arg> <arg> ...` (decimal numbers).
//! Output: `<family> <id> <args...> | <obs...>`.  A panic inside the crate is the single
//! observation PANIC.
#![allow(clippy::all)]
#![allow(dead_code)]
use std::io::{BufRead, Write};
use std::panic::{catch_unwind, AssertUnwindSafe};

mod common;
mod geom;
mod plan;
mod proto;
mod fault;
mod sched;
mod serde_fam;
mod history;
mod refenc;

pub const PANIC: u128 = 340282366920938463463374607431768211455; // 2^128-1

fn run_case(family: &str, args: &[u128]) -> Vec<u128> {
    match family {
        "node" => geom::node(args),
        "restricted" => geom::restricted(args),
        "tree" => geom::tree(args),
        "offsets" => geom::offsets(args),
        "plan" | "planspec" => plan::plan(args),
        "ranges" => plan::ranges(args),
        "outboard" => proto::outboard(args),
        "encode" => proto::encode(args),
        "decode" | "decode_ids" => proto::decode(args),
        "validate" => proto::validate(args),
        "agree_enc" => proto::agree_enc(args),
        "agree_dec" => proto::agree_dec(args),
        "agree_val" => proto::agree_val(args),
        "agree_ob" => proto::agree_ob(args),
        "history" => history::history(args),
        "serde" => serde_fam::serde_case(args),
        "sched" => sched::sched(args),
        "shortw" => sched::shortw(args),
        "fault" => fault::fault(args),
        "poststep" | "poststep9" => proto::poststep(args),
        "bao" => proto::bao_case(args),
        "copy" => proto::copy_case(args),
        "grow" => proto::grow_case(args),
        _ => panic!("unknown family {family}"),
    }
}

fn main() {
    std::panic::set_hook(Box::new(|_| {}));
    let args: Vec<String> = std::env::args().collect();
    let input: Box<dyn BufRead> = if args.len() > 1 {
        Box::new(std::io::BufReader::new(std::fs::File::open(&args[1]).unwrap()))
    } else {
        Box::new(std::io::BufReader::new(std::io::stdin()))
    };
    let out = std::io::stdout();
    let mut out = std::io::BufWriter::new(out.lock());
    for line in input.lines() {
        let line = line.unwrap();
        let line = line.trim();
        if line.is_empty() || line.starts_with('#') {
            continue;
        }
        let mut it = line.split_whitespace();
        let family = it.next().unwrap().to_string();
        let id = it.next().unwrap().to_string();
        let nums: Vec<u128> = it.map(|s| s.parse::<u128>().expect("number")).collect();
        let obs = match catch_unwind(AssertUnwindSafe(|| run_case(&family, &nums))) {
            Ok(v) => v,
            Err(_) => vec![PANIC],
        };
        write!(out, "{family} {id}").unwrap();
        for n in &nums {
            write!(out, " {n}").unwrap();
        }
        write!(out, " |").unwrap();
        for n in &obs {
            write!(out, " {n}").unwrap();
        }
        writeln!(out).unwrap();
    }
}
