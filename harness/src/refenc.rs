//! Independent reference implementation used to BUILD inputs (honest streams, intact stores):
//! recursion over the blob with the blake3 crate's hazmat API only; nothing from bao_tree's
//! iterators, encoders or outboards.
use bao_tree::blake3;

pub fn chunk_cv(counter: u64, d: &[u8], root: bool) -> blake3::Hash {
    use blake3::hazmat::HasherExt;
    if root {
        blake3::hash(d)
    } else {
        let mut h = blake3::Hasher::new();
        h.set_input_offset(counter * 1024);
        h.update(d);
        blake3::Hash::from(h.finalize_non_root())
    }
}
pub fn parent(l: &blake3::Hash, r: &blake3::Hash, root: bool) -> blake3::Hash {
    use blake3::hazmat::{merge_subtrees_non_root, merge_subtrees_root, Mode};
    if root {
        merge_subtrees_root(l.as_bytes(), r.as_bytes(), Mode::Hash)
    } else {
        blake3::Hash::from(merge_subtrees_non_root(l.as_bytes(), r.as_bytes(), Mode::Hash))
    }
}
pub fn nchunks(len: usize) -> u64 {
    std::cmp::max(1, (len as u64 + 1023) / 1024)
}
fn bytes_of(data: &[u8], a: u64, b: u64) -> &[u8] {
    let lo = std::cmp::min((a * 1024) as usize, data.len());
    let hi = std::cmp::min((b * 1024) as usize, data.len());
    &data[lo..hi]
}
/// hash of the subtree over chunks [a, b)
pub fn subtree(data: &[u8], a: u64, b: u64, root: bool) -> blake3::Hash {
    let n = b - a;
    if n == 1 {
        return chunk_cv(a, bytes_of(data, a, b), root);
    }
    let half = n.next_power_of_two() / 2;
    parent(&subtree(data, a, a + half, false), &subtree(data, a + half, b, false), root)
}
pub fn root(data: &[u8]) -> blake3::Hash {
    subtree(data, 0, nchunks(data.len()), true)
}

/// outboard bytes in pre or post order for chunk groups of 2^bs chunks
pub fn outboard(data: &[u8], bs: u8, post: bool) -> Vec<u8> {
    let g = 1u64 << bs;
    let n = nchunks(data.len());
    let groups = (n + g - 1) / g;
    let mut out = Vec::new();
    fn rec(data: &[u8], g: u64, n: u64, ga: u64, k: u64, post: bool, out: &mut Vec<u8>) {
        // subtree over groups [ga, ga+k)
        if k <= 1 {
            return;
        }
        let half = k.next_power_of_two() / 2;
        let a = ga * g;
        let m = (ga + half) * g;
        let e = std::cmp::min((ga + k) * g, n);
        let l = subtree(data, a, m, false);
        let r = subtree(data, m, e, false);
        if !post {
            out.extend_from_slice(l.as_bytes());
            out.extend_from_slice(r.as_bytes());
        }
        rec(data, g, n, ga, half, post, out);
        rec(data, g, n, ga + half, k - half, post, out);
        if post {
            out.extend_from_slice(l.as_bytes());
            out.extend_from_slice(r.as_bytes());
        }
    }
    rec(data, g, n, 0, groups, post, &mut out);
    out
}

#[derive(Clone, Debug, PartialEq)]
pub enum Item {
    P { start: u64, cap: u64, pair: Vec<u8> },
    L { off: u64, data: Vec<u8> },
}

/// membership in a boundary list
pub fn contains(bs: &[u64], x: u64) -> bool {
    match bs.binary_search(&x) {
        Ok(i) => i % 2 == 0,
        Err(i) => i % 2 == 1,
    }
}
/// selected chunks: queried chunks inside the blob, plus the last chunk when the query reaches past the end
pub fn sel_fn(bounds: Vec<u64>, len: usize) -> impl Fn(u64) -> bool {
    let n = nchunks(len);
    let lc = n - 1;
    let past = if bounds.len() % 2 == 1 { true } else { bounds.last().map(|l| *l > n).unwrap_or(false) };
    move |c| c <= lc && (contains(&bounds, c) || (c == lc && past))
}

/// honest encoding of a selection: pre-order, pairs of fully selected subtrees of at most one group omitted
pub fn encode(data: &[u8], bs: u8, sel: &dyn Fn(u64) -> bool) -> Vec<Item> {
    let mut out = Vec::new();
    fn rec(data: &[u8], a: u64, b: u64, root: bool, bs: u8, sel: &dyn Fn(u64) -> bool, out: &mut Vec<Item>) {
        let any = (a..b).any(|c| sel(c));
        if !any {
            return;
        }
        let all = (a..b).all(|c| sel(c));
        let n = b - a;
        if n == 1 {
            out.push(Item::L { off: a * 1024, data: bytes_of(data, a, b).to_vec() });
            return;
        }
        let cap = n.next_power_of_two();
        let half = cap / 2;
        let mid = a + half;
        if all && cap <= (1u64 << bs) {
            out.push(Item::L { off: a * 1024, data: bytes_of(data, a, b).to_vec() });
            return;
        }
        let l = subtree(data, a, mid, false);
        let r = subtree(data, mid, b, false);
        let mut p = l.as_bytes().to_vec();
        p.extend_from_slice(r.as_bytes());
        out.push(Item::P { start: a, cap, pair: p });
        rec(data, a, mid, false, bs, sel, out);
        rec(data, mid, b, false, bs, sel, out);
    }
    rec(data, 0, nchunks(data.len()), true, bs, sel, &mut out);
    out
}
pub fn flatten(items: &[Item]) -> Vec<u8> {
    let mut v = Vec::new();
    for i in items {
        match i {
            Item::P { pair, .. } => v.extend_from_slice(pair),
            Item::L { data, .. } => v.extend_from_slice(data),
        }
    }
    v
}
