//! history family (C07): a sequence of partial downloads into one pre-sized target and outboard
use crate::common::*;
use crate::proto::{dec_rc, kind_code, Ob};
use crate::refenc;
use bao_tree::{
    blake3,
    io::{fsm, outboard::*, sync, DecodeError},
    BaoTree, BlockSize, ChunkNum, ChunkRanges, TreeNode,
};
use bytes::Bytes;
use futures_lite::future::block_on;
use std::io;

/// target whose k-th positional write fails
pub struct FailTarget {
    pub data: Vec<u8>,
    pub fail_at: Option<usize>,
    pub n: usize,
}
impl sync::WriteAt for FailTarget {
    fn write_at(&mut self, pos: u64, buf: &[u8]) -> io::Result<usize> {
        if Some(self.n) == self.fail_at {
            self.n += 1;
            return Err(io::Error::new(io::ErrorKind::Other, "injected"));
        }
        self.n += 1;
        sync::WriteAt::write_at(&mut self.data, pos, buf)
    }
    fn flush(&mut self) -> io::Result<()> {
        Ok(())
    }
}
impl fsm::AsyncSliceWriter for FailTarget {
    async fn write_at(&mut self, offset: u64, data: &[u8]) -> io::Result<()> {
        if Some(self.n) == self.fail_at {
            self.n += 1;
            return Err(io::Error::new(io::ErrorKind::Other, "injected"));
        }
        self.n += 1;
        fsm::AsyncSliceWriter::write_at(&mut self.data, offset, data).await
    }
    async fn write_bytes_at(&mut self, offset: u64, data: Bytes) -> io::Result<()> {
        if Some(self.n) == self.fail_at {
            self.n += 1;
            return Err(io::Error::new(io::ErrorKind::Other, "injected"));
        }
        self.n += 1;
        fsm::AsyncSliceWriter::write_bytes_at(&mut self.data, offset, data).await
    }
    async fn set_len(&mut self, len: u64) -> io::Result<()> {
        fsm::AsyncSliceWriter::set_len(&mut self.data, len).await
    }
    async fn sync(&mut self) -> io::Result<()> {
        Ok(())
    }
}

/// outboard whose k-th save call fails
pub struct FailOb<'a, O> {
    pub inner: &'a mut O,
    pub fail_at: Option<usize>,
    pub n: usize,
    pub kind: io::ErrorKind,
}
/// a byte store whose positioned writes take at most `max` bytes per call (reads are complete)
pub struct Choppy {
    pub data: Vec<u8>,
    pub max: usize,
}
impl sync::WriteAt for Choppy {
    fn write_at(&mut self, pos: u64, buf: &[u8]) -> io::Result<usize> {
        let n = buf.len().min(self.max);
        sync::WriteAt::write_at(&mut self.data, pos, &buf[..n])
    }
    fn flush(&mut self) -> io::Result<()> {
        Ok(())
    }
}
impl sync::ReadAt for Choppy {
    fn read_at(&self, pos: u64, buf: &mut [u8]) -> io::Result<usize> {
        sync::ReadAt::read_at(&self.data, pos, buf)
    }
}
impl<O: sync::Outboard> sync::Outboard for FailOb<'_, O> {
    fn root(&self) -> blake3::Hash {
        self.inner.root()
    }
    fn tree(&self) -> BaoTree {
        self.inner.tree()
    }
    fn load(&self, node: TreeNode) -> io::Result<Option<(blake3::Hash, blake3::Hash)>> {
        self.inner.load(node)
    }
}
impl<O: sync::OutboardMut> sync::OutboardMut for FailOb<'_, O> {
    fn save(&mut self, node: TreeNode, pair: &(blake3::Hash, blake3::Hash)) -> io::Result<()> {
        if Some(self.n) == self.fail_at {
            self.n += 1;
            return Err(io::Error::new(self.kind, "injected"));
        }
        self.n += 1;
        self.inner.save(node, pair)
    }
    fn sync(&mut self) -> io::Result<()> {
        self.inner.sync()
    }
}
pub struct FailObA<'a, O> {
    pub inner: &'a mut O,
    pub fail_at: Option<usize>,
    pub n: usize,
    pub kind: io::ErrorKind,
}
impl<O: fsm::Outboard> fsm::Outboard for FailObA<'_, O> {
    fn root(&self) -> blake3::Hash {
        self.inner.root()
    }
    fn tree(&self) -> BaoTree {
        self.inner.tree()
    }
    async fn load(&mut self, node: TreeNode) -> io::Result<Option<(blake3::Hash, blake3::Hash)>> {
        self.inner.load(node).await
    }
}
impl<O: fsm::OutboardMut> fsm::OutboardMut for FailObA<'_, O> {
    async fn save(&mut self, node: TreeNode, pair: &(blake3::Hash, blake3::Hash)) -> io::Result<()> {
        if Some(self.n) == self.fail_at {
            self.n += 1;
            return Err(io::Error::new(self.kind, "injected"));
        }
        self.n += 1;
        self.inner.save(node, pair).await
    }
    async fn sync(&mut self) -> io::Result<()> {
        self.inner.sync().await
    }
}

fn step_sync<O: sync::Outboard + sync::OutboardMut>(
    ob: &mut O,
    target: &mut FailTarget,
    fail_save: Option<usize>,
    kind: io::ErrorKind,
    stream: &[u8],
    ranges: &ChunkRanges,
) -> Result<(), DecodeError> {
    let fo = FailOb { inner: ob, fail_at: fail_save, n: 0, kind };
    sync::decode_ranges(io::Cursor::new(stream), ranges, target, fo)
}
fn step_fsm<O: fsm::Outboard + fsm::OutboardMut>(
    ob: &mut O,
    target: &mut FailTarget,
    fail_save: Option<usize>,
    kind: io::ErrorKind,
    stream: &[u8],
    ranges: &ChunkRanges,
) -> Result<(), DecodeError> {
    let fo = FailObA { inner: ob, fail_at: fail_save, n: 0, kind };
    let mut rd = stream;
    block_on(fsm::decode_ranges(&mut rd, ranges.clone(), target, fo))
}

/// history: args [kind, seed, size, bs, sink, driver, prefill, nops, (nq, q.., cutkind, cutparam)*]
///  cutkind 0: complete; 1: stream cut after cutparam bytes; 2: cutparam-th target write fails; 3: cutparam-th save fails
///  -> per step [rc, payload, target_dg, ob_dg, nranges, (start,end)*]
pub fn history(a: &[u128]) -> Vec<u128> {
    let data = gen_data(a[0] as u64, a[1] as u64, a[2] as usize);
    let bs = a[3] as u8;
    let sink = a[4];
    let driver = a[5];
    let prefill = a[6] as u8;
    let nops = a[7] as usize;
    let t = BaoTree::new(data.len() as u64, BlockSize::from_chunk_log(bs));
    let root = refenc::root(&data);
    let choppy = sink >= 5;
    let sink = if sink >= 5 { sink - 5 } else { sink };
    let mut ob = Ob::new(sink, root, t, vec![0u8; t.outboard_size() as usize]);
    let mut target = FailTarget { data: vec![prefill; data.len()], fail_at: None, n: 0 };
    let mut i = 8;
    let mut o = Vec::new();
    for _ in 0..nops {
        let (q, j) = crate::proto::take_list(a, i);
        let cutkind = a[j];
        let cutparam = a[j + 1] as usize;
        i = j + 2;
        let mut stream = refenc::flatten(&refenc::encode(&data, bs, &refenc::sel_fn(q.clone(), data.len())));
        if cutkind == 1 {
            stream.truncate(cutparam);
        }
        target.fail_at = if cutkind == 2 { Some(cutparam) } else { None };
        target.n = 0;
        let fail_save = if cutkind == 3 || cutkind == 4 { Some(cutparam) } else { None };
        let kind = if cutkind == 4 { io::ErrorKind::InvalidInput } else { io::ErrorKind::Other };
        let ranges = mk_ranges(&q);
        let r = match (&mut ob, driver) {
            (Ob::PreIO(x), 2) if choppy => {
                let mut tmp = PreOrderOutboard { root: x.root, tree: x.tree, data: Choppy { data: std::mem::take(&mut x.data), max: 48 } };
                let r = step_sync(&mut tmp, &mut target, fail_save, kind, &stream, &ranges);
                x.data = tmp.data.data;
                r
            }
            (Ob::PostIO(x), 2) if choppy => {
                let mut tmp = PostOrderOutboard { root: x.root, tree: x.tree, data: Choppy { data: std::mem::take(&mut x.data), max: 48 } };
                let r = step_sync(&mut tmp, &mut target, fail_save, kind, &stream, &ranges);
                x.data = tmp.data.data;
                r
            }
            (Ob::PreIO(x), 2) => step_sync(x, &mut target, fail_save, kind, &stream, &ranges),
            (Ob::PostIO(x), 2) => step_sync(x, &mut target, fail_save, kind, &stream, &ranges),
            (Ob::PreMem(x), 2) => step_sync(x, &mut target, fail_save, kind, &stream, &ranges),
            (Ob::PostMem(x), 2) => step_sync(x, &mut target, fail_save, kind, &stream, &ranges),
            (Ob::Empty(x), 2) => step_sync(x, &mut target, fail_save, kind, &stream, &ranges),
            (Ob::PreIO(x), _) => {
                let mut tmp = PreOrderOutboard { root: x.root, tree: x.tree, data: bytes::BytesMut::from(&x.data[..]) };
                let r = step_fsm(&mut tmp, &mut target, fail_save, kind, &stream, &ranges);
                x.data = tmp.data.to_vec();
                r
            }
            (Ob::PostIO(x), _) => {
                let mut tmp = PostOrderOutboard { root: x.root, tree: x.tree, data: bytes::BytesMut::from(&x.data[..]) };
                let r = step_fsm(&mut tmp, &mut target, fail_save, kind, &stream, &ranges);
                x.data = tmp.data.to_vec();
                r
            }
            (Ob::PreMem(x), _) => step_fsm(x, &mut target, fail_save, kind, &stream, &ranges),
            (Ob::PostMem(x), _) => step_fsm(x, &mut target, fail_save, kind, &stream, &ranges),
            (Ob::Empty(x), _) => step_fsm(x, &mut target, fail_save, kind, &stream, &ranges),
        };
        let (rc, p) = match &r {
            Ok(()) => (0, 0),
            Err(e) => dec_rc(e),
        };
        o.extend_from_slice(&[rc, p, digest(&target.data) as u128, digest(&ob.data()) as u128]);
        // validator over the pair (sync data validator, all chunks)
        let all = ChunkRanges::all();
        let mut rs: Vec<(u64, u64)> = Vec::new();
        let mut verr = 0u128;
        macro_rules! val {
            ($x:expr) => {
                for r in sync::valid_ranges(&*$x, &target.data[..], &all) {
                    match r {
                        Ok(r) => rs.push((r.start.0, r.end.0)),
                        Err(e) => verr = 1 + kind_code(e.kind()),
                    }
                }
            };
        }
        match &ob {
            Ob::PreIO(x) => val!(x),
            Ob::PostIO(x) => val!(x),
            Ob::PreMem(x) => val!(x),
            Ob::PostMem(x) => val!(x),
            Ob::Empty(x) => val!(x),
        }
        o.push(verr);
        o.push(rs.len() as u128);
        for (s, e) in rs {
            o.push(s as u128);
            o.push(e as u128);
        }
    }
    let _ = ChunkNum(0);
    o
}
