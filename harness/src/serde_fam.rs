//! serde family (C19): postcard and JSON round trips of every serialisable protocol type
use crate::common::*;
use bao_tree::{
    blake3,
    io::{mixed::EncodedItem, BaoContentItem, EncodeError, Leaf, Parent},
    ChunkNum, TreeNode,
};
use bytes::Bytes;
use serde::{de::DeserializeOwned, Serialize};
use std::io;

fn mk_parent(node: u64, seed: u64) -> Parent {
    let h = gen_data(0, seed, 64);
    let l: [u8; 32] = h[..32].try_into().unwrap();
    let r: [u8; 32] = h[32..].try_into().unwrap();
    Parent { node: tn(node), pair: (blake3::Hash::from(l), blake3::Hash::from(r)) }
}
fn mk_leaf(off: u64, len: usize, seed: u64) -> Leaf {
    Leaf { offset: off, data: Bytes::from(gen_data(0, seed, len)) }
}
fn eq_parent(a: &Parent, b: &Parent) -> bool {
    a.node == b.node && a.pair == b.pair
}
fn eq_leaf(a: &Leaf, b: &Leaf) -> bool {
    a.offset == b.offset && a.data == b.data
}
fn kind_of(c: u128) -> io::ErrorKind {
    match c {
        0 => io::ErrorKind::Other,
        1 => io::ErrorKind::UnexpectedEof,
        2 => io::ErrorKind::ConnectionReset,
        3 => io::ErrorKind::WriteZero,
        _ => io::ErrorKind::NotFound,
    }
}
fn eq_err(a: &EncodeError, b: &EncodeError) -> bool {
    use EncodeError::*;
    match (a, b) {
        (ParentHashMismatch(x), ParentHashMismatch(y)) => x == y,
        (LeafHashMismatch(x), LeafHashMismatch(y)) => x == y,
        (ParentWrite(x), ParentWrite(y)) => x == y,
        (LeafWrite(x), LeafWrite(y)) => x == y,
        (SizeMismatch, SizeMismatch) => true,
        // an io error comes back as an io error whose text contains the original kind and message
        (Io(x), Io(y)) => {
            let t = y.to_string();
            t.contains(&format!("{:?}", x.kind())) && t.contains(&x.to_string())
        }
        _ => false,
    }
}
fn mk_err(a: &[u128]) -> EncodeError {
    match a[0] {
        0 => EncodeError::ParentHashMismatch(tn(a[1] as u64)),
        1 => EncodeError::LeafHashMismatch(ChunkNum(a[1] as u64)),
        2 => EncodeError::ParentWrite(tn(a[1] as u64)),
        3 => EncodeError::LeafWrite(ChunkNum(a[1] as u64)),
        4 => EncodeError::SizeMismatch,
        // io errors without a boxed payload: a bare kind, a raw OS error
        6 => EncodeError::Io(io::Error::from(kind_of(a[1]))),
        7 => EncodeError::Io(io::Error::from_raw_os_error(a[1] as i32)),
        _ => {
            let n = a[2] as usize;
            let msg: Vec<u8> = a[3..3 + n].iter().map(|x| *x as u8).collect();
            EncodeError::Io(io::Error::new(kind_of(a[1]), String::from_utf8(msg).unwrap()))
        }
    }
}

fn round<T: Serialize + DeserializeOwned>(v: &T, fmt: u128, eq: impl Fn(&T, &T) -> bool, want_bytes: bool) -> Vec<u128> {
    if fmt == 0 {
        match postcard::to_stdvec(v) {
            Err(_) => vec![1, 0, 0, 0, 0],
            Ok(b) => {
                let (de_rc, equal) = match postcard::from_bytes::<T>(&b) {
                    Ok(w) => (0, b2(eq(v, &w))),
                    Err(_) => (1, 0),
                };
                vec![0, b.len() as u128, digest_n(&b), de_rc, equal]
            }
        }
    } else {
        match serde_json::to_string(v) {
            Err(_) => vec![1, 0, 0, 0, 0],
            Ok(s) => {
                let (de_rc, equal) = match serde_json::from_str::<T>(&s) {
                    Ok(w) => (0, b2(eq(v, &w))),
                    Err(_) => (1, 0),
                };
                if want_bytes {
                    vec![0, s.len() as u128, digest_n(s.as_bytes()), de_rc, equal]
                } else {
                    vec![0, 0, 0, de_rc, equal]
                }
            }
        }
    }
}
fn b2(x: bool) -> u128 {
    x as u128
}
/// digest as computed by the model over N (same recurrence as common::digest)
fn digest_n(b: &[u8]) -> u128 {
    digest(b) as u128
}

/// serde: args [type, fmt, params...] -> [ser_rc, ser_len, ser_dg, de_rc, equal]
pub fn serde_case(a: &[u128]) -> Vec<u128> {
    let ty = a[0];
    let fmt = a[1];
    let p = &a[2..];
    match ty {
        0 => round(&tn(p[0] as u64), fmt, |x: &TreeNode, y| x == y, true),
        1 => round(&ChunkNum(p[0] as u64), fmt, |x: &ChunkNum, y| x == y, true),
        2 => round(&mk_parent(p[0] as u64, p[1] as u64), fmt, eq_parent, true),
        3 => round(&mk_leaf(p[0] as u64, p[1] as usize, p[2] as u64), fmt, eq_leaf, true),
        4 => {
            let v = if p[0] == 0 {
                BaoContentItem::Parent(mk_parent(p[1] as u64, p[2] as u64))
            } else {
                BaoContentItem::Leaf(mk_leaf(p[1] as u64, p[2] as usize, p[3] as u64))
            };
            round(&v, fmt, |x: &BaoContentItem, y| match (x, y) {
                (BaoContentItem::Parent(a), BaoContentItem::Parent(b)) => eq_parent(a, b),
                (BaoContentItem::Leaf(a), BaoContentItem::Leaf(b)) => eq_leaf(a, b),
                _ => false,
            }, false)
        }
        5 => {
            let v = match p[0] {
                0 => EncodedItem::Size(p[1] as u64),
                1 => EncodedItem::Parent(mk_parent(p[1] as u64, p[2] as u64)),
                2 => EncodedItem::Leaf(mk_leaf(p[1] as u64, p[2] as usize, p[3] as u64)),
                3 => EncodedItem::Error(mk_err(&p[1..])),
                _ => EncodedItem::Done,
            };
            round(&v, fmt, |x: &EncodedItem, y| match (x, y) {
                (EncodedItem::Size(a), EncodedItem::Size(b)) => a == b,
                (EncodedItem::Parent(a), EncodedItem::Parent(b)) => eq_parent(a, b),
                (EncodedItem::Leaf(a), EncodedItem::Leaf(b)) => eq_leaf(a, b),
                (EncodedItem::Error(a), EncodedItem::Error(b)) => eq_err(a, b),
                (EncodedItem::Done, EncodedItem::Done) => true,
                _ => false,
            }, false)
        }
        _ => {
            let mut r = round(&mk_err(p), fmt, eq_err, false);
            if p[0] >= 6 {
                // the text of a payload-less error is the platform's; only the round trip is compared
                r[1] = 0;
                r[2] = 0;
            }
            r
        }
    }
}
