use bao_tree::{ChunkNum, ChunkRanges, TreeNode};
use std::panic::{catch_unwind, AssertUnwindSafe};

pub fn tn(x: u64) -> TreeNode {
    serde_json::from_str(&x.to_string()).expect("TreeNode from u64")
}
pub fn nv(n: TreeNode) -> u64 {
    n.to_string().parse().expect("TreeNode display")
}
/// option encoding: None = 0, Some(v) = v + 1
pub fn opt(o: Option<u64>) -> u128 {
    match o {
        None => 0,
        Some(v) => v as u128 + 1,
    }
}
pub fn b(x: bool) -> u128 {
    x as u128
}
/// run f, PANIC code if it panics
pub fn guard(f: impl FnOnce() -> u128) -> u128 {
    match catch_unwind(AssertUnwindSafe(f)) {
        Ok(v) => v,
        Err(_) => crate::PANIC,
    }
}
pub fn guard2(f: impl FnOnce() -> (u128, u128)) -> (u128, u128) {
    match catch_unwind(AssertUnwindSafe(f)) {
        Ok(v) => v,
        Err(_) => (crate::PANIC, crate::PANIC),
    }
}

/// boundaries -> ChunkRanges (boundaries strictly increasing; odd length = open ended)
pub fn mk_ranges(bounds: &[u64]) -> ChunkRanges {
    let v: smallvec::SmallVec<[ChunkNum; 2]> = bounds.iter().map(|x| ChunkNum(*x)).collect();
    ChunkRanges::new(v).expect("strictly sorted boundaries")
}
pub fn boundaries(r: &bao_tree::ChunkRangesRef) -> Vec<u64> {
    r.boundaries().iter().map(|c| c.0).collect()
}

/// 63-bit LCG shared with the Coq model (Base/Gen.v)
pub const M63: u64 = (1u64 << 63) - 1;
pub fn lcg(s: u64) -> u64 {
    s.wrapping_mul(6364136223846793005).wrapping_add(1442695040888963407) & M63
}
/// data generator shared with the model: kind 0 = random, 1 = constant, 2 = repeating chunk, 3 = make_test_data
pub fn gen_data(kind: u64, seed: u64, n: usize) -> Vec<u8> {
    match kind {
        0 => {
            let mut s = seed & M63;
            (0..n)
                .map(|_| {
                    s = lcg(s);
                    ((s >> 33) & 0xff) as u8
                })
                .collect()
        }
        1 => vec![(seed & 0xff) as u8; n],
        2 => {
            let mut s = seed & M63;
            let chunk: Vec<u8> = (0..1024)
                .map(|_| {
                    s = lcg(s);
                    ((s >> 33) & 0xff) as u8
                })
                .collect();
            (0..n).map(|i| chunk[i % 1024]).collect()
        }
        4 => {
            // sparse: random head and tail, zeros in between
            let r = gen_data(0, seed, n);
            (0..n).map(|i| if i < 700 || i + 300 >= n { r[i] } else { 0 }).collect()
        }
        _ => (0..n).map(|i| ((i / 1024) % 256) as u8).collect(),
    }
}
/// 63-bit rolling digest shared with the model
pub fn digest(bytes: &[u8]) -> u64 {
    let mut d: u64 = 0;
    for x in bytes {
        d = (d.wrapping_mul(1000003).wrapping_add(*x as u64 + 1)) & M63;
    }
    d
}
