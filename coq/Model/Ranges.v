(* Model of range sets as used by the crate: range_collections 0.4.5 RangeSetRef/RangeSet
   (strictly increasing boundary list; odd length = open-ended), plus src/lib.rs:839-871
   (split, split_inner), src/rec.rs:26-79 (truncate_ranges), src/io/mod.rs:135-202
   (rounding helpers).  Definitions only. *)
From BaoV Require Export Model.Tree.

Definition ranges := list N.

Definition r_is_empty (r : ranges) : bool := match r with [] => true | _ => false end.
Definition r_is_all (r : ranges) : bool := match r with [x] => x =? 0 | _ => false end.

(* slice::binary_search on a strictly sorted slice: (true, i) = Ok(i), (false, ip) = Err(ip) *)
Fixpoint bsearch_from (l : list N) (x : N) (i : nat) : bool * nat :=
  match l with
  | [] => (false, i)
  | y :: t => if y =? x then (true, i) else if x <? y then (false, i) else bsearch_from t x (S i)
  end.
Definition bsearch (l : list N) (x : N) : bool * nat := bsearch_from l x 0.

Definition r_contains (r : ranges) (x : N) : bool :=
  let '(found, i) := bsearch r x in
  if found then Nat.even i else Nat.odd i.

(* range_collections::range_set::split *)
Definition r_split (r : ranges) (at_ : N) : ranges * ranges :=
  let l := length r in
  let '(found, i) := bsearch r at_ in
  if Nat.even i then (firstn i r, skipn i r)
  else if found then (firstn i r, skipn (Nat.min (S i) l) r)
  else (firstn i r, skipn (Nat.pred i) r).

(* src/lib.rs:850-871 *)
Definition split_inner (r : ranges) (start mid_ : N) : ranges * ranges :=
  let '(a, b) := r_split r mid_ in
  let a' := match a with [x] => if x <=? start then [0] else a | _ => a end in
  let b' := match b with [x] => if x <=? mid_ then [0] else b | _ => b end in
  (a', b').
Definition split (r : ranges) (node : N) : ranges * ranges :=
  split_inner r (fst (chunk_range node)) (mid node).

(* src/rec.rs:42-79 *)
Definition truncated_len (r : ranges) (size : N) : nat :=
  let e := chunks size in
  let lc := e - 1 in   (* saturating_sub *)
  let '(found, i) := bsearch r lc in
  if found then
    if Nat.even i then S i
    else if Nat.eqb (length r) (S i) then S i else i
  else
    if Nat.even i then (if Nat.eqb (length r) i then i else S i)
    else i.
Definition truncate_ranges (r : ranges) (size : N) : ranges := firstn (truncated_len r size) r.
(* fsm variant: Vec::truncate(n) *)
Definition truncate_ranges_owned (r : ranges) (size : N) : ranges := firstn (truncated_len r size) r.

(* ---- RangeSet construction and union ---- *)
Definition r_from_range (a b : N) : ranges := if a <? b then [a; b] else [].
Definition r_from_range_from (a : N) : ranges := [a].

(* union = boundaries of the pointwise OR (VecMergeState with UnionOp) *)
Fixpoint r_union_aux (fuel : nat) (a b : ranges) (ia ib : bool) : ranges :=
  match fuel with
  | O => []
  | S f =>
    match a, b with
    | [], [] => []
    | x :: a', [] =>
        let ia' := negb ia in
        if Bool.eqb (ia || ib) (ia' || ib) then r_union_aux f a' b ia' ib else x :: r_union_aux f a' b ia' ib
    | [], y :: b' =>
        let ib' := negb ib in
        if Bool.eqb (ia || ib) (ia || ib') then r_union_aux f a b' ia ib' else y :: r_union_aux f a b' ia ib'
    | x :: a', y :: b' =>
        if x <? y then
          let ia' := negb ia in
          if Bool.eqb (ia || ib) (ia' || ib) then r_union_aux f a' b ia' ib else x :: r_union_aux f a' b ia' ib
        else if y <? x then
          let ib' := negb ib in
          if Bool.eqb (ia || ib) (ia || ib') then r_union_aux f a b' ia ib' else y :: r_union_aux f a b' ia ib'
        else
          let ia' := negb ia in let ib' := negb ib in
          if Bool.eqb (ia || ib) (ia' || ib') then r_union_aux f a' b' ia' ib' else x :: r_union_aux f a' b' ia' ib'
    end
  end.
Definition r_union (a b : ranges) : ranges := r_union_aux (S (length a + length b)) a b false false.

(* RangeSetRef::iter: items are (start, Some end) or (start, None) *)
Fixpoint r_iter (r : ranges) : list (N * option N) :=
  match r with
  | [] => []
  | [a] => [(a, None)]
  | a :: b :: t => (a, Some b) :: r_iter t
  end.

(* ---- src/io/mod.rs:135-202.  Word-level: result None = panic in a build with overflow checks ---- *)
Definition round_up_to_chunks (br : ranges) : ranges :=
  fold_left (fun res it =>
    match it with
    | (s, None) => r_union res (r_from_range_from (full_chunks s))
    | (s, Some e) => r_union res (r_from_range (full_chunks s) (chunks e))
    end) (r_iter br) [].

Definition round_up_to_chunks_groups (r : ranges) (bs : N) : ranges :=
  fold_left (fun res it =>
    match it with
    | (s, None) => r_union res (r_from_range_from (chunk_group_start s bs))
    | (s, Some e) => r_union res (r_from_range (chunk_group_start s bs) (chunk_group_end_w e bs))
    end) (r_iter r) [].

Definition fcg_floor (v sh : N) : N := shl64 (N.shiftr v sh) sh.
(* (value + (1 << shift) - 1) >> shift << shift ; the addition can overflow *)
Definition fcg_ceil_checked (v sh : N) : option N :=
  let s := v + N.shiftl 1 sh in
  if W64 <=? s then None else Some (shl64 (N.shiftr (s - 1) sh) sh).
Definition fcg_ceil_wrapping (v sh : N) : N :=
  let s := wrap64 (wrap64 (v + N.shiftl 1 sh) + MAX64) in   (* x - 1 = x + (2^64-1) mod 2^64 *)
  shl64 (N.shiftr s sh) sh.

(* full_chunk_groups; dev = checked arithmetic (None = panic), release = wrapping *)
Definition full_chunk_groups_gen (ceil : N -> N -> option N) (r : ranges) (bs : N) : option ranges :=
  fold_left (fun acc it =>
    match acc with
    | None => None
    | Some res =>
      match it with
      | (s, None) => match ceil s bs with None => None | Some st => Some (r_union res (r_from_range_from st)) end
      | (s, Some e) =>
          match ceil s bs with
          | None => None
          | Some st => let en := fcg_floor e bs in
                       Some (if st <? en then r_union res (r_from_range st en) else res)
          end
      end
    end) (r_iter r) (Some []).
Definition full_chunk_groups_dev := full_chunk_groups_gen fcg_ceil_checked.
Definition full_chunk_groups_rel := full_chunk_groups_gen (fun v s => Some (fcg_ceil_wrapping v s)).
