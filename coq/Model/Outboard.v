(* src/io/outboard.rs and the Outboard / OutboardMut impls of src/io/sync.rs:136-258 and
   src/io/fsm.rs:148-302.  Backing stores are byte vectors (Vec<u8>): positioned writes past the end
   zero-extend.  Definitions only. *)
From BaoV Require Export Model.Rec.

Inductive ob_kind := PreIO | PostIO | PreMem | PostMem | EmptyOb.

Section Outboard.
Variable HO : hops.
Notation bytes := (bytes HO).
Notation hash := (hash HO).

Record outboard := mkOb { ob_k : ob_kind; ob_root : hash; ob_tree : tree; ob_data : bytes }.

Definition parse_pair (b : bytes) : hash * hash := (firstn 32 b, skipn 32 b).
Definition combine_pair (l r : hash) : bytes := l ++ r.

(* Vec<u8> as WriteAt / AsyncSliceWriter: zero-extend, overwrite, extend *)
Definition write_at (d : bytes) (off : N) (b : bytes) : bytes :=
  let d' := if blen HO d <? off then d ++ zeros HO (N.to_nat (off - blen HO d)) else d in
  take HO off d' ++ b ++ drop HO (off + blen HO b) d'.

Definition ob_offset (ob : outboard) (node : N) : option N :=
  match ob_k ob with
  | PreIO | PreMem => pre_order_offset (ob_tree ob) node
  | PostIO | PostMem => option_map po_value (post_order_offset (ob_tree ob) node)
  | EmptyOb => if is_relevant_for_outboard (ob_tree ob) node then Some 0 else None
  end.

Definition zero_pair : hash * hash := (zero_hash HO, zero_hash HO).

(* sync::Outboard::load *)
Definition load_sync (ob : outboard) (node : N) : res io_kind (option (hash * hash)) :=
  match ob_offset ob node with
  | None => Ok None
  | Some o =>
    let off := o * 64 in
    match ob_k ob with
    | EmptyOb => Ok (Some zero_pair)
    | PreIO | PostIO =>
        (* read_exact_at *)
        let c := slice HO off 64 (ob_data ob) in
        if blen HO c =? 64 then Ok (Some (parse_pair c)) else Err KUnexpectedEof
    | PreMem | PostMem =>
        if off + 64 <=? blen HO (ob_data ob) then Ok (Some (parse_pair (slice HO off 64 (ob_data ob)))) else Panic
    end
  end.

(* fsm::Outboard::load: io-backed outboards turn a short read into a zero pair *)
Definition load_fsm (ob : outboard) (node : N) : res io_kind (option (hash * hash)) :=
  match ob_offset ob node with
  | None => Ok None
  | Some o =>
    let off := o * 64 in
    match ob_k ob with
    | EmptyOb => Ok (Some zero_pair)
    | PreIO | PostIO =>
        let c := slice HO off 64 (ob_data ob) in
        if blen HO c =? 64 then Ok (Some (parse_pair c)) else Ok (Some zero_pair)
    | PreMem | PostMem =>
        if off + 64 <=? blen HO (ob_data ob) then Ok (Some (parse_pair (slice HO off 64 (ob_data ob)))) else Panic
    end
  end.

(* OutboardMut::save (sync and fsm behave alike on byte vectors) *)
Definition save (ob : outboard) (node : N) (l r : hash) : res io_kind outboard :=
  match ob_k ob with
  | EmptyOb => if level node <? tbs (ob_tree ob) then Ok ob
               else if is_relevant_for_outboard (ob_tree ob) node then Ok ob else Err KInvalidInput
  | PreIO | PostIO =>
      match ob_offset ob node with
      | None => Ok ob
      | Some o => Ok (mkOb (ob_k ob) (ob_root ob) (ob_tree ob) (write_at (ob_data ob) (o * 64) (combine_pair l r)))
      end
  | PreMem | PostMem =>
      if level node <? tbs (ob_tree ob) then Ok ob else
      match ob_offset ob node with
      | None => Err KInvalidInput
      | Some o =>
          if o * 64 + 64 <=? blen HO (ob_data ob)
          then Ok (mkOb (ob_k ob) (ob_root ob) (ob_tree ob) (write_at (ob_data ob) (o * 64) (combine_pair l r)))
          else Panic
      end
  end.

Definition set_root (ob : outboard) (h : hash) : outboard := mkOb (ob_k ob) h (ob_tree ob) (ob_data ob).

End Outboard.
Arguments mkOb {HO}. Arguments ob_k {HO}. Arguments ob_root {HO}. Arguments ob_tree {HO}. Arguments ob_data {HO}.
