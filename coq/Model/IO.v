(* decode_ranges with failing sinks (sync.rs:505-528, fsm.rs:596-626): the k-th positional write to the
   target / the k-th call of OutboardMut::save fails with an io error; `?` turns it into DecodeError::Io.
   With no fault these are decode_ranges / decode_ranges_fsm (Proofs).  Definitions only. *)
From BaoV Require Export Model.Fsm.

Section IO.
Variable HO : hops.
Notation bytes := (bytes HO).
Notation hash := (hash HO).
Notation outboard := (outboard HO).
Notation item := (item HO).

(* fault plan for the sinks: index (from 0) of the failing target write / save call, and the error kind *)
Record sink_faults := mkSF { sf_target : option N; sf_save : option N; sf_kind : io_kind }.
Definition no_faults : sink_faults := mkSF None None KOther.
Definition hits (o : option N) (n : N) : bool := match o with Some k => k =? n | None => false end.

Definition decode_step_f (sf : sink_faults) (s : dstate HO * bytes * outboard * N * N)
  : (dstate HO * bytes * outboard * N * N) + (res dec_err unit * bytes * outboard * dstate HO) :=
  let '(st, target, ob, nw, ns) := s in
  match dec_next HO st with
  | None => inr (Ok tt, target, ob, st)
  | Some (Err e, st') => inr (Err e, target, ob, st')
  | Some (Panic, st') => inr (Panic, target, ob, st')
  | Some (Ok (IParent node l r), st') =>
      if hits (sf_save sf) ns then inr (Err (DIo (sf_kind sf)), target, ob, st')
      else match save HO ob node l r with
           | Ok ob' => inl (st', target, ob', nw, ns + 1)
           | Err k => inr (Err (DIo k), target, ob, st')
           | Panic => inr (Panic, target, ob, st')
           end
  | Some (Ok (ILeaf off d), st') =>
      if hits (sf_target sf) nw then inr (Err (DIo (sf_kind sf)), target, ob, st')
      else inl (st', write_at HO target off d, ob, nw + 1, ns)
  end.
Definition decode_ranges_f (sf : sink_faults) (encoded : bytes) (q : ranges) (target : bytes) (ob : outboard)
  : res dec_err unit * bytes * outboard * dstate HO :=
  match loop2 LOOP_DEPTH (decode_step_f sf) (dec_new HO (ob_root ob) (ob_tree ob) encoded q, target, ob, 0, 0) with
  | inr r => r
  | inl (st, target', ob', _, _) => (Panic, target', ob', st)
  end.

Definition decode_step_fsm_f (sf : sink_faults) (s : rstate HO * bytes * outboard * N * N)
  : (rstate HO * bytes * outboard * N * N) + (res dec_err unit * bytes * outboard * rstate HO) :=
  let '(st, target, ob, nw, ns) := s in
  match rd_next HO st with
  | RDone _ => inr (Ok tt, target, ob, st)
  | RMore st' (Err e) => inr (Err e, target, ob, st')
  | RMore st' Panic => inr (Panic, target, ob, st')
  | RMore st' (Ok (IParent node l r)) =>
      if hits (sf_save sf) ns then inr (Err (DIo (sf_kind sf)), target, ob, st')
      else match save HO ob node l r with
           | Ok ob' => inl (st', target, ob', nw, ns + 1)
           | Err k => inr (Err (DIo k), target, ob, st')
           | Panic => inr (Panic, target, ob, st')
           end
  | RMore st' (Ok (ILeaf off d)) =>
      if hits (sf_target sf) nw then inr (Err (DIo (sf_kind sf)), target, ob, st')
      else inl (st', write_at HO target off d, ob, nw + 1, ns)
  end.
Definition decode_ranges_fsm_f (sf : sink_faults) (encoded : bytes) (q : ranges) (target : bytes) (ob : outboard)
  : res dec_err unit * bytes * outboard * rstate HO :=
  match loop2 LOOP_DEPTH (decode_step_fsm_f sf) (rd_new HO (ob_root ob) q (ob_tree ob) encoded, target, ob, 0, 0) with
  | inr r => r
  | inl (st, target', ob', _, _) => (Panic, target', ob', st)
  end.
End IO.
