(* C10: the io calls each public operation performs, in order, on a fault-free run, together with what
   the failure of each call turns into at its call site (`?`, maybe_parent_not_found, maybe_leaf_write, ...).
   The behaviour under "the k-th call on object X fails" is then first-failure semantics over that list
   (`with_fault`): the error of the failing site is the result and no later call happens.  The lists are
   derived from the same plans the pure model walks.  Definitions only. *)
From BaoV Require Export Model.IOSched.

Inductive io_obj := ODataSeq | ODataAt | OStreamIn | OStreamOut | OTarget | OObLoad | OObSave | OObSync.
Definition obj_code (o : io_obj) : N :=
  match o with ODataSeq => 1 | ODataAt => 2 | OStreamIn => 3 | OStreamOut => 4 | OTarget => 5 | OObLoad => 6 | OObSave => 7 | OObSync => 8 end.
Definition obj_eqb (a b : io_obj) : bool := obj_code a =? obj_code b.

(* result codes shared with the harness: encoders [6; kind] = Io, [3; node] ParentWrite, [4; chunk] LeafWrite;
   decoders [1; node] ParentNotFound, [2; chunk] LeafNotFound, [5; kind] Io *)
Definition kcode (k : io_kind) : N :=
  match k with
  | KOther => 0 | KUnexpectedEof => 1 | KConnectionReset => 2 | KWriteZero => 3
  | KInvalidInput => 4 | KInvalidData => 5 | KInterrupted => 6
  end.
Record site := mkSite { s_obj : io_obj; s_a : N; s_b : N; s_err : io_kind -> N * N }.

Definition io_err (k : io_kind) : N * N := (6, kcode k).
Definition enc_code (e : enc_err) : N * N :=
  match e with
  | EParentHashMismatch n => (1, n) | ELeafHashMismatch c => (2, c) | EParentWrite n => (3, n)
  | ELeafWrite c => (4, c) | ESizeMismatch => (5, 0) | EIo k => (6, kcode k)
  end.
Definition dec_code (e : dec_err) : N * N :=
  match e with
  | DParentNotFound n => (1, n) | DLeafNotFound c => (2, c) | DParentHashMismatch n => (3, n)
  | DLeafHashMismatch c => (4, c) | DIo k => (5, kcode k)
  end.

(* first-failure semantics: fault = (object, k, kind): the k-th call (from 0) on that object fails *)
Fixpoint with_fault (sites : list site) (fobj : io_obj) (k : N) (kind : io_kind) (ok : N * N) (acc : list site)
  : (N * N) * list site :=
  match sites with
  | [] => (ok, rev acc)
  | s :: rest =>
      if obj_eqb (s_obj s) fobj then
        if k =? 0 then (s_err s kind, rev (s :: acc))
        else with_fault rest fobj (k - 1) kind ok (s :: acc)
      else with_fault rest fobj k kind ok (s :: acc)
  end.

Section Calls.
Variable HO : hops.
Notation bytes := (bytes HO).
Notation outboard := (outboard HO).

(* outboard creation into an outboard: sync::outboard / fsm::outboard, then sync() *)
Definition create_sites (t : tree) (with_sync : bool) : list site :=
  flat_map (fun c => match c with
                     | CLeaf _ size _ _ => [mkSite ODataSeq size 0 io_err]
                     | CParent node _ _ _ _ => [mkSite OObSave node 0 io_err]
                     end) (post_order_chunks_iter t)
  ++ (if with_sync then [mkSite OObSync 0 0 io_err] else []).
(* outboard_post_order: two writes of 32 bytes per parent *)
Definition create_po_sites (t : tree) : list site :=
  flat_map (fun c => match c with
                     | CLeaf _ size _ _ => [mkSite ODataSeq size 0 io_err]
                     | CParent _ _ _ _ _ => [mkSite OStreamOut 32 0 io_err; mkSite OStreamOut 32 0 io_err]
                     end) (post_order_chunks_iter t).

(* encoders over an intact store; fsm maps ConnectionReset on a stream write to ParentWrite / LeafWrite *)
Definition enc_sites (fsm_ validated : bool) (t : tree) (data : bytes) (q : ranges) : list site :=
  if validated && negb fsm_ && r_is_empty q then []
  else
    let q' := if validated then truncate_ranges q (tsize t) else q in
    flat_map (fun c => match c with
      | CParent node _ _ _ _ =>
          [mkSite OObLoad node 0 (fun k => enc_code (EIo k));
           mkSite OStreamOut 64 0 (fun k => enc_code (if fsm_ then maybe_parent_write k node else EIo k))]
      | CLeaf start size is_root rs =>
          let wlen := if validated && negb (r_is_all rs)
                      then blen HO (fst (encode_selected_rec HO REC_FUEL start (slice HO (to_bytes start) size data) is_root rs (tbs t) true))
                      else size in
          [mkSite ODataAt (to_bytes start) size (fun k => enc_code (EIo k));
           mkSite OStreamOut wlen 0 (fun k => enc_code (if fsm_ then maybe_leaf_write k start else EIo k))]
      end) (pre_order_chunks_iter t q' 0).

(* decode_ranges on the honest stream: read, then save / write *)
Definition dec_sites (t : tree) (q : ranges) : list site :=
  flat_map (fun c => match c with
    | CParent node _ _ _ _ =>
        [mkSite OStreamIn 64 0 (fun k => dec_code (maybe_parent_not_found k node));
         mkSite OObSave node 0 (fun k => dec_code (DIo k))]
    | CLeaf start size _ _ =>
        [mkSite OStreamIn size 0 (fun k => dec_code (maybe_leaf_not_found k start));
         mkSite OTarget (to_bytes start) size (fun k => dec_code (DIo k))]
    end) (response_iter t (truncate_ranges q (tsize t))).

(* copy: load every node of the pre-order traversal, save those that have a pair *)
Definition copy_sites (from : outboard) : list site :=
  flat_map (fun n => mkSite OObLoad n 0 io_err ::
                     match load_sync HO from n with
                     | Ok (Some _) => [mkSite OObSave n 0 io_err]
                     | _ => []
                     end) (pre_order_nodes_iter (ob_tree from)).

(* the sync data validator over an intact store *)
Fixpoint val_sites (fuel : nat) (t : tree) (filled : N) (shifted_ : N) (rs : ranges) : list site :=
  match fuel with
  | O => []
  | S f =>
    if r_is_empty rs then []
    else
      let node := subtract_block_size shifted_ (tbs t) in
      let '(l, m, r) := leaf_byte_ranges3 t node in
      if negb (is_relevant_for_outboard t node) then [mkSite ODataAt l (r - l) io_err]
      else
        mkSite OObLoad node 0 io_err ::
        let '(l_rs, r_rs) := split rs node in
        if is_leaf shifted_ then
          (if negb (r_is_empty l_rs) then [mkSite ODataAt l (m - l) io_err] else []) ++
          (if negb (r_is_empty r_rs) then [mkSite ODataAt m (r - m) io_err] else [])
        else
          match left_child shifted_, right_descendant shifted_ filled with
          | Some lc, Some rc => val_sites f t filled lc l_rs ++ val_sites f t filled rc r_rs
          | _, _ => []
          end
  end.
Definition valid_ranges_sites (t : tree) (q : ranges) : list site :=
  if blocks t =? 1 then [mkSite ODataAt 0 (tsize t) io_err]
  else let '(root, filled) := shifted t in val_sites 70 t filled root (truncate_ranges q (tsize t)).
End Calls.
