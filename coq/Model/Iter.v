(* Model of src/iter.rs: node iterators and chunk plans, as the stack / state machines they are.
   Definitions only. *)
From BaoV Require Export Model.Ranges.

Inductive prev := PParent | PLeft | PRight | PDone.
Record nstate := mkN { n_len : N; n_curr : N; n_prev : prev }.

Definition niter_new (root len : N) : nstate := mkN len root PParent.

Definition go_up (st : nstate) (curr : N) : nstate :=
  match restricted_parent curr (n_len st) with
  | Some p => mkN (n_len st) p (if curr <? p then PLeft else PRight)
  | None => mkN (n_len st) curr PDone
  end.

(* One call of PostOrderNodeIter::next.  None at the top level = iterator exhausted or
   an unwrap() failed (the latter is excluded by the theorems); fuel bounds the inner `loop`. *)
Fixpoint post_next (fuel : nat) (st : nstate) : option (N * nstate) :=
  match fuel with
  | O => None
  | S f =>
    let curr := n_curr st in
    match n_prev st with
    | PParent =>
        match left_child curr with
        | Some c => post_next f (mkN (n_len st) c PParent)
        | None => Some (curr, go_up st curr)
        end
    | PLeft =>
        match right_descendant curr (n_len st) with
        | Some r => post_next f (mkN (n_len st) r PParent)
        | None => None (* unwrap panic *)
        end
    | PRight => Some (curr, go_up st curr)
    | PDone => None
    end
  end.

Fixpoint pre_next (fuel : nat) (st : nstate) : option (N * nstate) :=
  match fuel with
  | O => None
  | S f =>
    let curr := n_curr st in
    match n_prev st with
    | PParent =>
        match left_child curr with
        | Some c => Some (curr, mkN (n_len st) c PParent)
        | None => Some (curr, go_up st curr)
        end
    | PLeft =>
        match right_descendant curr (n_len st) with
        | Some r => pre_next f (mkN (n_len st) r PParent)
        | None => None
        end
    | PRight => pre_next f (go_up st curr)
    | PDone => None
    end
  end.

Definition NEXT_FUEL : nat := 200.

(* Generic loop with lazily exponential fuel: loop2 d runs `step` up to 2^d times and stops at the
   first `inr`.  With d = 64 no loop of the crate can exhaust it; unlike a unary `nat` bound it costs
   nothing to pass around (the model runs trees of 2^40 bytes). *)
Fixpoint loop2 {S R : Type} (d : nat) (step : S -> S + R) (s : S) : S + R :=
  match d with
  | O => step s
  | S d' => match loop2 d' step s with
            | inl s' => loop2 d' step s'
            | inr r => inr r
            end
  end.
Definition LOOP_DEPTH : nat := 64.

(* collect all items of an iterator *)
Definition run_iter {S A} (next : S -> option (A * S)) (st : S) : list A :=
  match loop2 LOOP_DEPTH
          (fun sa : S * list A =>
             match next (fst sa) with
             | None => inr (rev (snd sa))
             | Some (a, st') => inl (st', a :: snd sa)
             end) (st, []) with
  | inr l => l
  | inl sa => rev (snd sa)
  end.

Definition post_order_nodes_shifted (root len : N) : list N :=
  run_iter (post_next NEXT_FUEL) (niter_new root len).
Definition pre_order_nodes_shifted (root len : N) : list N :=
  run_iter (pre_next NEXT_FUEL) (niter_new root len).

(* BaoTree::post_order_nodes_iter / pre_order_nodes_iter *)
Definition post_order_nodes_iter (t : tree) : list N :=
  let '(root, len) := shifted t in
  map (fun x => subtract_block_size x (tbs t)) (post_order_nodes_shifted root len).
Definition pre_order_nodes_iter (t : tree) : list N :=
  let '(root, len) := shifted t in
  map (fun x => subtract_block_size x (tbs t)) (pre_order_nodes_shifted root len).

(* ---- BaoChunk ---- *)
Inductive chunk :=
| CParent (node : N) (is_root left right : bool) (rs : ranges)
| CLeaf (start_chunk size : N) (is_root : bool) (rs : ranges).

Definition without_ranges (c : chunk) : chunk :=
  match c with
  | CParent n ir l r _ => CParent n ir l r []
  | CLeaf s z ir _ => CLeaf s z ir []
  end.
Definition chunk_size (c : chunk) : N := match c with CParent _ _ _ _ _ => 64 | CLeaf _ z _ _ => z end.

(* ---- PostOrderChunkIter (src/iter.rs:391-465) ---- *)
Record pocstate := mkPoc { poc_tree : tree; poc_inner : nstate; poc_stack : list chunk; poc_root : N }.
Definition poc_new (t : tree) : pocstate :=
  let '(root, len) := shifted t in mkPoc t (niter_new root len) [] root.

Fixpoint poc_next (fuel : nat) (st : pocstate) : option (chunk * pocstate) :=
  match fuel with
  | O => None
  | S f =>
    match poc_stack st with
    | item :: rest => Some (item, mkPoc (poc_tree st) (poc_inner st) rest (poc_root st))
    | [] =>
      match post_next NEXT_FUEL (poc_inner st) with
      | None => None
      | Some (sh, inner') =>
        let t := poc_tree st in
        let is_root := sh =? poc_root st in
        let node := subtract_block_size sh (tbs t) in
        if is_leaf sh then
          let '(s, m, e) := leaf_byte_ranges3 t node in
          let l_start := fst (chunk_range node) in
          let r_start := l_start + chunk_group_chunks t in
          let is_half_leaf := m =? e in
          let stack' :=
            if is_half_leaf then []
            else [CLeaf r_start (e - m) false []; CParent node is_root true true []] in
          Some (CLeaf l_start (m - s) (is_root && is_half_leaf) [],
                mkPoc t inner' stack' (poc_root st))
        else
          poc_next f (mkPoc t inner' [CParent node is_root true true []] (poc_root st))
      end
    end
  end.

(* the whole plan *)
Definition post_order_chunks_iter (t : tree) : list chunk :=
  run_iter (poc_next 4) (poc_new t).

(* ---- PreOrderPartialChunkIterRef (src/iter.rs:492-644) ---- *)
Record ppstate := mkPP {
  pp_tree : tree; pp_min_full_level : N;
  pp_stack : list (N * ranges);       (* top of the stack first *)
  pp_filled : N; pp_root : N;
  pp_buffer : list chunk }.           (* top first *)

Definition pp_new (t : tree) (r : ranges) (min_full_level : N) : ppstate :=
  let '(root, filled) := shifted t in
  mkPP t min_full_level (if r_is_empty r then [] else [(root, r)]) filled root [].

(* result: None = exhausted; Some None = a panic inside next (unwrap on None); Some (Some ..) = item *)
Definition pp_next (st : ppstate) : option (option (chunk * ppstate)) :=
  let t := pp_tree st in
  match pp_buffer st with
  | item :: rest =>
      Some (Some (item, mkPP t (pp_min_full_level st) (pp_stack st) (pp_filled st) (pp_root st) rest))
  | [] =>
    match pp_stack st with
    | [] => None
    | (sh, rs) :: stk =>
      let node := subtract_block_size sh (tbs t) in
      let ranges_is_all := r_is_all rs in
      let below := level node <? pp_min_full_level st in
      let query_leaf := ranges_is_all && below in
      let is_root := sh =? pp_root st in
      let cr := chunk_range node in
      let br := byte_range t node in
      let size := snd br - fst br in
      let mk s b := mkPP t (pp_min_full_level st) s (pp_filled st) (pp_root st) b in
      if query_leaf then
        Some (Some (CLeaf (fst cr) size is_root rs, mk stk []))
      else if negb (is_leaf sh) then
        let '(l_rs, r_rs) := split rs node in
        match (if r_is_empty r_rs then Some stk
               else match right_descendant sh (pp_filled st) with
                    | Some r => Some ((r, r_rs) :: stk) | None => None end) with
        | None => Some None
        | Some stk1 =>
          match (if r_is_empty l_rs then Some stk1
                 else match left_child sh with
                      | Some l => Some ((l, l_rs) :: stk1) | None => None end) with
          | None => Some None
          | Some stk2 =>
            Some (Some (CParent node is_root (negb (r_is_empty l_rs)) (negb (r_is_empty r_rs)) rs, mk stk2 []))
          end
        end
      else
        let mid_chunk := mid node in
        let m := to_bytes mid_chunk in
        if tsize t <=? m then
          Some (Some (CLeaf (fst cr) size is_root rs, mk stk []))
        else
          let '(l_rs, r_rs) := split rs node in
          let buf1 := if r_is_empty r_rs then [] else [CLeaf mid_chunk (snd br - m) false r_rs] in
          let buf2 := if r_is_empty l_rs then buf1 else CLeaf (fst cr) (m - fst br) false l_rs :: buf1 in
          Some (Some (CParent node is_root (negb (r_is_empty l_rs)) (negb (r_is_empty r_rs)) rs, mk stk buf2))
    end
  end.

Definition pp_next' (st : ppstate) : option (chunk * ppstate) :=
  match pp_next st with Some (Some x) => Some x | _ => None end.

Definition pre_order_chunks_iter (t : tree) (r : ranges) (min_level : N) : list chunk :=
  run_iter pp_next' (pp_new t r min_level).

(* ResponseIterRef::new(tree, ranges): block size 0 tree, min_full_level = bs *)
Definition response_new (t : tree) (r : ranges) : ppstate :=
  pp_new (mkTree (tsize t) 0) r (tbs t).
Definition response_tree (st : ppstate) : tree := mkTree (tsize (pp_tree st)) (pp_min_full_level st).
Definition response_next (st : ppstate) : option (chunk * ppstate) :=
  match pp_next' st with
  | Some (c, st') => Some (without_ranges c, st')
  | None => None
  end.
Definition response_iter (t : tree) (r : ranges) : list chunk :=
  run_iter response_next (response_new t r).
