(* Model of TreeNode / ChunkNum arithmetic (src/lib.rs:545-827, src/tree.rs).  Definitions only.
   A node is the u64 it wraps.  Arithmetic is over N; where Rust's result depends on
   64-bit truncation (!, <<, unary minus) the word-level helpers of Base/U64 are used. *)
From BaoV Require Export Base.U64.

(* ---- ChunkNum (src/tree.rs:182-217) ---- *)
Definition chunk_group_start (start bs : N) : N := N.shiftl (N.shiftr start bs) bs.
(* word-level: the final << can lose bits (C17) *)
Definition chunk_group_end_w (e bs : N) : N :=
  let mask := N.shiftl 1 bs - 1 in
  let part := b2n (negb (N.land e mask =? 0)) in
  let whole := N.shiftr e bs in
  shl64 (whole + part) bs.
Definition chunks (size : N) : N := N.shiftr size 10 + b2n (negb (N.land size 1023 =? 0)).
Definition full_chunks (size : N) : N := N.shiftr size 10.
Definition to_bytes (c : N) : N := shl64 c 10.

(* ---- TreeNode (src/lib.rs:572-789) ---- *)
Definition level (x : N) : N := trailing_ones x.
Definition is_leaf (x : N) : bool := N.land x 1 =? 0.
Definition mid (x : N) : N := x + 1.
Definition half_span (x : N) : N := N.shiftl 1 (level x).

Definition subtract_block_size (x n : N) : N := not64 (shl64 (not64 x) n).
Definition add_block_size (x n : N) : option N :=
  let mask := N.shiftl 1 n - 1 in
  if N.land x mask =? mask then Some (N.shiftr x n) else None.

Definition count_below (x : N) : N :=
  let y := x + 1 in
  let lowest := N.land y (neg64 y) in
  lowest * 2 - 2.

Definition next_left_ancestor0 (x : N) : option N :=
  let y := x + 1 in
  let w := N.land y (y - 1) in
  if w =? 0 then None else Some (w - 1).
Definition next_left_ancestor := next_left_ancestor0.

Definition left_child (x : N) : option N :=
  let l := level x in
  if l =? 0 then None else Some (x - N.shiftl 1 (l - 1)).
Definition right_child (x : N) : option N :=
  let l := level x in
  if l =? 0 then None else Some (x + N.shiftl 1 (l - 1)).

Definition parent (x : N) : option N :=
  let l := level x in
  if l =? 63 then None else
  let span := N.shiftl 1 l in
  Some (if N.land x (span * 2) =? 0 then x + span else x - span).

(* while let Some(parent) = curr.parent() { if parent < len { return Some(parent) } curr = parent }; None *)
Fixpoint restricted_parent_loop (fuel : nat) (curr len : N) : option N :=
  match fuel with
  | O => None
  | S f =>
    match parent curr with
    | None => None
    | Some p => if p <? len then Some p else restricted_parent_loop f p len
    end
  end.
Definition restricted_parent (x len : N) : option N := restricted_parent_loop 65 x len.

(* let mut node = self.right_child()?; while node >= len { node = node.left_child()? }; Some(node) *)
Fixpoint right_descendant_loop (fuel : nat) (node len : N) : option N :=
  match fuel with
  | O => None
  | S f => if len <=? node then
             match left_child node with
             | None => None
             | Some c => right_descendant_loop f c len
             end
           else Some node
  end.
Definition right_descendant (x len : N) : option N :=
  match right_child x with
  | None => None
  | Some r => right_descendant_loop 65 r len
  end.

Definition node_range (x : N) : N * N :=
  let hs := half_span x in (x + 1 - hs, x + hs).
Definition chunk_range (x : N) : N * N :=
  let span := N.shiftl 1 (level x) in
  let m := x + 1 in (m - span, m + span).
Definition node_byte_range (x : N) : N * N :=
  let '(s, e) := chunk_range x in (to_bytes s, to_bytes e).
Definition right_count (x : N) : N := popcount (x + 1) - 1.

Definition post_order_offset_node (x : N) : N :=
  let below := count_below x in
  match next_left_ancestor0 x with
  | Some nla => below + nla + 1 - popcount (nla + 1)
  | None => below
  end.
Definition post_order_range (x : N) : N * N :=
  let off := post_order_offset_node x in (off - count_below x, off + 1).

(* TreeNode::root(chunks) *)
Definition node_root (chunks : N) : N := next_pow2 (div_ceil2 chunks) - 1.

(* pre_order_offset_loop (src/lib.rs:796-827) *)
Fixpoint pre_loop (fuel : nat) (offset span len parent_count : N) : N :=
  match fuel with
  | O => parent_count
  | S f =>
    let pspan := span * 2 in
    let offset' := if N.land offset pspan =? 0 then offset + span else offset - span in
    let pc := if offset' <? len then parent_count + 1 else parent_count in
    if len <=? pspan then pc else pre_loop f offset' pspan len pc
  end.
Definition pre_order_offset_loop (node len : N) : N :=
  let lvl := trailing_zeros64 (not64 node) in
  let span := N.shiftl 1 lvl in
  let left := node + 1 - span in
  let pc := pre_loop 65 node span len 0 in
  left - popcount left + pc.
