(* Serialisation of the wire items (src/io/mod.rs:27-106, src/io/mixed.rs:16-28, src/io/error.rs:90-105,
   src/lib.rs:873-916) in the postcard 1.0 wire format: LEB128 varints, length-prefixed byte strings and
   sequences, varint variant indices, fixed-size arrays as plain element sequences.  The sequence access of
   postcard is bounded by the length written in front of the sequence.  Bytes are N < 256.
   Definitions only. *)
From BaoV Require Export Base.U64.

Record parent_v := mkParent { p_node : N; p_l : list N; p_r : list N }.
Record leaf_v := mkLeaf { l_off : N; l_data : list N }.
Inductive content_v := CParentV (p : parent_v) | CLeafV (l : leaf_v).
Inductive eerr_v :=
| VParentHashMismatch (n : N) | VLeafHashMismatch (c : N) | VParentWrite (n : N) | VLeafWrite (c : N)
| VSizeMismatch | VIo (text : list N).     (* "{kind:?}:{msg}" as utf-8 bytes *)
Inductive eitem_v := VSize (n : N) | VParent (p : parent_v) | VLeaf (l : leaf_v) | VError (e : eerr_v) | VDone.

(* ---- varint(u64) ---- *)
Fixpoint varint_enc (fuel : nat) (n : N) : list N :=
  match fuel with
  | O => []
  | S f => if n <? 128 then [n] else (n mod 128 + 128) :: varint_enc f (n / 128)
  end.
Definition varint (n : N) : list N := varint_enc 10 n.
(* try_take_varint_u64: at most 10 bytes, the 10th at most 1 *)
Fixpoint varint_dec (i : nat) (fuel : nat) (l : list N) : option (N * list N) :=
  match fuel with
  | O => None
  | S f =>
    match l with
    | [] => None
    | b :: r =>
        if b <? 128 then (if Nat.eqb i 9 && (1 <? b) then None else Some (b * 2 ^ (7 * N.of_nat i), r))
        else match varint_dec (S i) f r with
             | Some (v, r') => Some ((b - 128) * 2 ^ (7 * N.of_nat i) + v, r')
             | None => None
             end
    end
  end.
Definition take_varint (l : list N) : option (N * list N) := varint_dec 0 10 l.

Definition take_n (n : nat) (l : list N) : option (list N * list N) :=
  if Nat.leb n (length l) then Some (firstn n l, skipn n l) else None.

(* ---- serialisers ---- *)
(* `hint` is the length passed to serialize_seq by the hand-written impl (src/io/mod.rs:35) *)
Definition ser_parent (hint : N) (p : parent_v) : list N :=
  varint hint ++ varint (p_node p) ++ p_l p ++ p_r p.
Definition ser_bytes (d : list N) : list N := varint (N.of_nat (length d)) ++ d.
Definition ser_leaf (l : leaf_v) : list N := varint (l_off l) ++ ser_bytes (l_data l).
Definition ser_content (hint : N) (c : content_v) : list N :=
  match c with CParentV p => varint 0 ++ ser_parent hint p | CLeafV l => varint 1 ++ ser_leaf l end.
Definition ser_eerr (e : eerr_v) : list N :=
  match e with
  | VParentHashMismatch n => varint 0 ++ varint n
  | VLeafHashMismatch c => varint 1 ++ varint c
  | VParentWrite n => varint 2 ++ varint n
  | VLeafWrite c => varint 3 ++ varint c
  | VSizeMismatch => varint 4
  | VIo t => varint 5 ++ ser_bytes t
  end.
Definition ser_eitem (hint : N) (i : eitem_v) : list N :=
  match i with
  | VSize n => varint 0 ++ varint n
  | VParent p => varint 1 ++ ser_parent hint p
  | VLeaf l => varint 2 ++ ser_leaf l
  | VError e => varint 3 ++ ser_eerr e
  | VDone => varint 4
  end.

(* ---- deserialisers: Some (value, rest) or None (error) ---- *)
(* visit_seq of the hand-written Parent visitor over postcard's bounded SeqAccess *)
Definition de_parent (l : list N) : option (parent_v * list N) :=
  do (len, r0) <- take_varint l;
  if len <? 1 then None else
  do (node, r1) <- take_varint r0;
  if len <? 2 then None else
  do (lh, r2) <- take_n 32 r1;
  if len <? 3 then None else       (* next_element returns None: invalid_length(2) *)
  do (rh, r3) <- take_n 32 r2;
  Some (mkParent node lh rh, r3).
Definition de_bytes (l : list N) : option (list N * list N) :=
  do (n, r) <- take_varint l; take_n (N.to_nat n) r.
Definition de_leaf (l : list N) : option (leaf_v * list N) :=
  do (off, r) <- take_varint l;
  do (d, r') <- de_bytes r;
  Some (mkLeaf off d, r').
Definition de_content (l : list N) : option (content_v * list N) :=
  do (v, r) <- take_varint l;
  if v =? 0 then do (p, r') <- de_parent r; Some (CParentV p, r')
  else if v =? 1 then do (x, r') <- de_leaf r; Some (CLeafV x, r')
  else None.
Definition de_eerr (l : list N) : option (eerr_v * list N) :=
  do (v, r) <- take_varint l;
  if v =? 0 then do (n, r') <- take_varint r; Some (VParentHashMismatch n, r')
  else if v =? 1 then do (n, r') <- take_varint r; Some (VLeafHashMismatch n, r')
  else if v =? 2 then do (n, r') <- take_varint r; Some (VParentWrite n, r')
  else if v =? 3 then do (n, r') <- take_varint r; Some (VLeafWrite n, r')
  else if v =? 4 then Some (VSizeMismatch, r)
  else if v =? 5 then do (t, r') <- de_bytes r; Some (VIo t, r')
  else None.
Definition de_eitem (l : list N) : option (eitem_v * list N) :=
  do (v, r) <- take_varint l;
  if v =? 0 then do (n, r') <- take_varint r; Some (VSize n, r')
  else if v =? 1 then do (p, r') <- de_parent r; Some (VParent p, r')
  else if v =? 2 then do (x, r') <- de_leaf r; Some (VLeaf x, r')
  else if v =? 3 then do (e, r') <- de_eerr r; Some (VError e, r')
  else if v =? 4 then Some (VDone, r)
  else None.

(* the length hint the crate's Parent serialiser passes (3 after the fix of finding F1; the pinned
   snapshot passed 2) *)
Definition PARENT_HINT : N := 3.

(* ---- JSON (serde_json compact output) as text ---- *)
Fixpoint dec_digits (fuel : nat) (n : N) (acc : list N) : list N :=
  match fuel with
  | O => acc
  | S f => let acc' := (48 + n mod 10) :: acc in if n <? 10 then acc' else dec_digits f (n / 10) acc'
  end.
Definition jnum (n : N) : list N := dec_digits 25 n [].
Fixpoint jlist_body (l : list N) : list N :=
  match l with
  | [] => []
  | [x] => jnum x
  | x :: r => jnum x ++ [44] ++ jlist_body r
  end.
Definition jarr (l : list N) : list N := [91] ++ jlist_body l ++ [93].
Definition jstr_lit (s : list N) : list N := [34] ++ s ++ [34].   (* for plain ASCII without quotes / backslashes *)
Definition json_parent (p : parent_v) : list N :=
  [91] ++ jnum (p_node p) ++ [44] ++ jarr (p_l p) ++ [44] ++ jarr (p_r p) ++ [93].
(* {"offset":N,"data":[..]} *)
Definition json_leaf (l : leaf_v) : list N :=
  [123; 34; 111; 102; 102; 115; 101; 116; 34; 58] ++ jnum (l_off l) ++ [44; 34; 100; 97; 116; 97; 34; 58] ++ jarr (l_data l) ++ [125].
