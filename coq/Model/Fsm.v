(* src/io/fsm.rs, transcribed separately from sync.rs: ResponseDecoder state machine, encoders,
   decode_ranges, outboard creation, copy, validators.  Differences from Model/Sync.v that exist in the
   Rust: the decoder pushes the children before comparing; hash() reads the bottom of the pending stack;
   read::<64>() on a slice reader consumes nothing on EOF; the validating encoder has no empty-query
   short-circuit; io-backed outboards load a short read as a zero pair.  Definitions only. *)
From BaoV Require Export Model.Sync.

Section Fsm.
Variable HO : hops.
Notation bytes := (bytes HO).
Notation hash := (hash HO).
Notation outboard := (outboard HO).
Notation item := (item HO).

(* ---------- ResponseDecoder (fsm.rs:316-449) ---------- *)
Record rstate := mkR { r_iter : ppstate; r_stack : list hash; r_enc : bytes; r_root : hash }.

Definition rd_new (root : hash) (q : ranges) (t : tree) (encoded : bytes) : rstate :=
  mkR (response_new t (truncate_ranges_owned q (tsize t))) [root] encoded root.
Definition rd_tree (st : rstate) : tree := response_tree (r_iter st).
(* &self.0.hash: the root hash kept in its own field (None would be a panic; there is none) *)
Definition rd_hash (st : rstate) : option hash := Some (r_root st).
Definition rd_finish (st : rstate) : bytes := r_enc st.

Inductive rnext := RMore (st : rstate) (r : res dec_err item) | RDone (reader : bytes).

Definition rd_next (st : rstate) : rnext :=
  match response_next (r_iter st) with
  | None => RDone (r_enc st)
  | Some (CParent node is_root lf rt _, it') =>
      let enc := r_enc st in
      if blen HO enc <? 64 then RMore (mkR it' (r_stack st) enc (r_root st)) (Err (DParentNotFound node))
      else
        let '(l, r) := parse_pair HO (take HO 64 enc) in
        let enc' := drop HO 64 enc in
        match r_stack st with
        | [] => RMore (mkR it' [] enc' (r_root st)) Panic
        | ph :: stk =>
            let actual := parent_cv HO l r is_root in
            let stk1 := if rt then r :: stk else stk in
            let stk2 := if lf then l :: stk1 else stk1 in
            if negb (bytes_eqb HO ph actual) then RMore (mkR it' stk2 enc' (r_root st)) (Err (DParentHashMismatch node))
            else RMore (mkR it' stk2 enc' (r_root st)) (Ok (IParent node l r))
        end
  | Some (CLeaf start size is_root _, it') =>
      let enc := r_enc st in
      if blen HO enc <? size then RMore (mkR it' (r_stack st) [] (r_root st)) (Err (DLeafNotFound start))
      else
        let data := take HO size enc in
        let enc' := drop HO size enc in
        match r_stack st with
        | [] => RMore (mkR it' [] enc' (r_root st)) Panic
        | lh :: stk =>
            let actual := hash_subtree HO start data is_root in
            if negb (bytes_eqb HO lh actual) then RMore (mkR it' stk enc' (r_root st)) (Err (DLeafHashMismatch start))
            else RMore (mkR it' stk enc' (r_root st)) (Ok (ILeaf (to_bytes start) data))
        end
  end.

Definition rd_run (st : rstate) : list item * outcome * rstate :=
  match loop2 LOOP_DEPTH
          (fun sa : rstate * list item =>
             match rd_next (fst sa) with
             | RDone _ => inr (rev (snd sa), Finished, fst sa)
             | RMore st' (Ok it) => inl (st', it :: snd sa)
             | RMore st' (Err e) => inr (rev (snd sa), Failed e, st')
             | RMore st' Panic => inr (rev (snd sa), Panicked, st')
             end) (st, []) with
  | inr r => r
  | inl sa => (rev (snd sa), OutOfFuel, fst sa)
  end.

(* ---------- decode_ranges (fsm.rs:596-626) ---------- *)
Definition decode_step_fsm (s : rstate * bytes * outboard)
  : (rstate * bytes * outboard) + (res dec_err unit * bytes * outboard * rstate) :=
  let '(st, target, ob) := s in
  match rd_next st with
  | RDone _ => inr (Ok tt, target, ob, st)
  | RMore st' (Err e) => inr (Err e, target, ob, st')
  | RMore st' Panic => inr (Panic, target, ob, st')
  | RMore st' (Ok (IParent node l r)) =>
      match save HO ob node l r with
      | Ok ob' => inl (st', target, ob')
      | Err k => inr (Err (DIo k), target, ob, st')
      | Panic => inr (Panic, target, ob, st')
      end
  | RMore st' (Ok (ILeaf off d)) => inl (st', write_at HO target off d, ob)
  end.
Definition decode_ranges_fsm (encoded : bytes) (q : ranges) (target : bytes) (ob : outboard)
  : res dec_err unit * bytes * outboard * rstate :=
  match loop2 LOOP_DEPTH decode_step_fsm (rd_new (ob_root ob) q (ob_tree ob) encoded, target, ob) with
  | inr r => r
  | inl (st, target', ob') => (Panic, target', ob', st)
  end.

(* ---------- encoders (fsm.rs:458-590) ---------- *)
Fixpoint encode_loop_fsm (items : list chunk) (data : bytes) (ob : outboard) (out : bytes)
  : res enc_err unit * bytes :=
  match items with
  | [] => (Ok tt, out)
  | CParent node _ _ _ _ :: rest =>
      match load_fsm HO ob node with
      | Ok (Some (l, r)) => encode_loop_fsm rest data ob (out ++ combine_pair HO l r)
      | Ok None => (Panic, out)
      | Err k => (Err (EIo k), out)
      | Panic => (Panic, out)
      end
  | CLeaf start size _ _ :: rest =>
      match read_exact_at HO data (to_bytes start) size with
      | Ok buf => encode_loop_fsm rest data ob (out ++ buf)
      | Err k => (Err (EIo k), out)
      | Panic => (Panic, out)
      end
  end.
Definition encode_ranges_fsm (data : bytes) (ob : outboard) (q : ranges) : res enc_err unit * bytes :=
  let t := ob_tree ob in
  encode_loop_fsm (pre_order_chunks_iter t q 0) data ob [].

Fixpoint encode_val_loop_fsm (items : list chunk) (stack : list hash) (t : tree) (data : bytes) (ob : outboard) (out : bytes)
  : res enc_err unit * bytes :=
  match items with
  | [] => (Ok tt, out)
  | CParent node is_root lf rt _ :: rest =>
      match load_fsm HO ob node with
      | Ok (Some (l, r)) =>
          let actual := parent_cv HO l r is_root in
          match stack with
          | [] => (Panic, out)
          | expected :: stk =>
              if negb (bytes_eqb HO actual expected) then (Err (EParentHashMismatch node), out)
              else
                let stk1 := if rt then r :: stk else stk in
                let stk2 := if lf then l :: stk1 else stk1 in
                encode_val_loop_fsm rest stk2 t data ob (out ++ combine_pair HO l r)
          end
      | Ok None => (Panic, out)
      | Err k => (Err (EIo k), out)
      | Panic => (Panic, out)
      end
  | CLeaf start size is_root rs :: rest =>
      match stack with
      | [] => (Panic, out)
      | expected :: stk =>
          match read_exact_at HO data (to_bytes start) size with
          | Ok buf =>
              let '(to_write, actual) :=
                if negb (r_is_all rs)
                then encode_selected_rec HO (REC_FUEL) start buf is_root rs (tbs t) true
                else (buf, hash_subtree HO start buf is_root) in
              if negb (bytes_eqb HO actual expected) then (Err (ELeafHashMismatch start), out)
              else encode_val_loop_fsm rest stk t data ob (out ++ to_write)
          | Err k => (Err (EIo k), out)
          | Panic => (Panic, out)
          end
      end
  end.
(* no `if ranges.is_empty()` short-circuit here *)
Definition encode_ranges_validated_fsm (data : bytes) (ob : outboard) (q : ranges) : res enc_err unit * bytes :=
  let t := ob_tree ob in
  let q' := truncate_ranges q (tsize t) in
  encode_val_loop_fsm (pre_order_chunks_iter t q' 0) [ob_root ob] t data ob [].

(* ---------- outboard creation (fsm.rs:637-734) ---------- *)
Fixpoint outboard_loop_fsm (items : list chunk) (stack : list hash) (data : bytes) (ob : outboard)
  : res io_kind hash * outboard * bytes :=
  match items with
  | [] => match stack with
          | [h] => (Ok h, ob, data)
          | _ => (Panic, ob, data)
          end
  | CParent node is_root _ _ _ :: rest =>
      match stack with
      | rh :: lh :: stk =>
          match save HO ob node lh rh with
          | Ok ob' => outboard_loop_fsm rest (parent_cv HO lh rh is_root :: stk) data ob'
          | Err k => (Err k, ob, data)
          | Panic => (Panic, ob, data)
          end
      | _ => (Panic, ob, data)
      end
  | CLeaf start size is_root _ :: rest =>
      (* read_bytes_exact *)
      if blen HO data <? size then (Err KUnexpectedEof, ob, [])
      else outboard_loop_fsm rest (hash_subtree HO start (take HO size data) is_root :: stack) (drop HO size data) ob
  end.
Definition outboard_impl_fsm (t : tree) (data : bytes) (ob : outboard) :=
  outboard_loop_fsm (post_order_chunks_iter t) [] data ob.

Fixpoint outboard_po_loop_fsm (items : list chunk) (stack : list hash) (data : bytes) (out : bytes)
  : res io_kind hash * bytes * bytes :=
  match items with
  | [] => match stack with
          | [h] => (Ok h, out, data)
          | _ => (Panic, out, data)
          end
  | CParent node is_root _ _ _ :: rest =>
      match stack with
      | rh :: lh :: stk => outboard_po_loop_fsm rest (parent_cv HO lh rh is_root :: stk) data (out ++ lh ++ rh)
      | _ => (Panic, out, data)
      end
  | CLeaf start size is_root _ :: rest =>
      if blen HO data <? size then (Err KUnexpectedEof, out, [])
      else outboard_po_loop_fsm rest (hash_subtree HO start (take HO size data) is_root :: stack) (drop HO size data) out
  end.
Definition outboard_post_order_fsm (t : tree) (data : bytes) :=
  outboard_po_loop_fsm (post_order_chunks_iter t) [] data [].

Definition init_from_fsm (ob : outboard) (data : bytes) : res io_kind outboard :=
  match outboard_impl_fsm (ob_tree ob) data ob with
  | (Ok h, ob', _) => Ok (set_root HO ob' h)
  | (Err k, _, _) => Err k
  | (Panic, _, _) => Panic
  end.
Definition create_sized_fsm (k : ob_kind) (data : bytes) (size bs : N) : res io_kind outboard :=
  init_from_fsm (mkOb k (hash_subtree HO 0 [] true) (mkTree size bs) []) data.

(* ---------- copy (fsm.rs:740-748) ---------- *)
Fixpoint copy_loop_fsm (nodes : list N) (from to : outboard) : res io_kind outboard :=
  match nodes with
  | [] => Ok to
  | n :: rest =>
      match load_fsm HO from n with
      | Ok (Some (l, r)) =>
          match save HO to n l r with
          | Ok to' => copy_loop_fsm rest from to'
          | Err k => Err k
          | Panic => Panic
          end
      | Ok None => copy_loop_fsm rest from to
      | Err k => Err k
      | Panic => Panic
      end
  end.
Definition copy_fsm (from to : outboard) : res io_kind outboard :=
  copy_loop_fsm (pre_order_nodes_iter (ob_tree from)) from to.

(* ---------- validators (fsm.rs:750-999) ---------- *)
Definition yield_if_valid_fsm (data : bytes) (s e : N) (h : hash) (is_root : bool) : res io_kind (list (N * N)) :=
  match read_exact_at HO data s (e - s) with
  | Ok tmp =>
      let actual := hash_subtree HO (full_chunks s) tmp is_root in
      Ok (if bytes_eqb HO actual h then [(full_chunks s, chunks e)] else [])
  | Err k => Err k
  | Panic => Panic
  end.

Fixpoint validate_rec_fsm (fuel : nat) (with_data : bool) (t : tree) (filled : N) (ob : outboard) (data : bytes)
         (parent_hash : hash) (shifted_ : N) (is_root : bool) (rs : ranges)
  : list (N * N) * res io_kind unit :=
  match fuel with
  | O => ([], Panic)
  | S f =>
    if r_is_empty rs then ([], Ok tt)
    else
      let node := subtract_block_size shifted_ (tbs t) in
      let '(l, m, r) := leaf_byte_ranges3 t node in
      let yield s e h root :=
        if with_data then
          match yield_if_valid_fsm data s e h root with
          | Ok ys => (ys, Ok tt) | Err k => ([], Err k) | Panic => ([], Panic) end
        else ([(full_chunks s, chunks e)], Ok tt) in
      if negb (is_relevant_for_outboard t node) then yield l r parent_hash is_root
      else
        match load_fsm HO ob node with
        | Err k => ([], Err k)
        | Panic => ([], Panic)
        | Ok None => ([], Ok tt)
        | Ok (Some (lh, rh)) =>
            let actual := parent_cv HO lh rh is_root in
            if negb (bytes_eqb HO actual parent_hash) then ([], Ok tt)
            else
              let '(l_rs, r_rs) := split rs node in
              if is_leaf shifted_ then
                let '(ys1, r1) := if negb (r_is_empty l_rs) then yield l m lh false else ([], Ok tt) in
                match r1 with
                | Ok _ =>
                    let '(ys2, r2) := if negb (r_is_empty r_rs) then yield m r rh false else ([], Ok tt) in
                    (ys1 ++ ys2, r2)
                | _ => (ys1, r1)
                end
              else
                match left_child shifted_ with
                | None => ([], Panic)
                | Some lc =>
                    let '(ys1, r1) := validate_rec_fsm f with_data t filled ob data lh lc false l_rs in
                    match r1 with
                    | Ok _ =>
                        match right_descendant shifted_ filled with
                        | None => (ys1, Panic)
                        | Some rc =>
                            let '(ys2, r2) := validate_rec_fsm f with_data t filled ob data rh rc false r_rs in
                            (ys1 ++ ys2, r2)
                        end
                    | _ => (ys1, r1)
                    end
                end
        end
  end.

Definition valid_ranges_fsm (ob : outboard) (data : bytes) (q : ranges) : list (N * N) * res io_kind unit :=
  let t := ob_tree ob in
  if blocks t =? 1 then
    match read_exact_at HO data 0 (tsize t) with
    | Ok tmp => ((if bytes_eqb HO (hash_subtree HO 0 tmp true) (ob_root ob) then [(0, tree_chunks t)] else []), Ok tt)
    | Err k => ([], Err k)
    | Panic => ([], Panic)
    end
  else
    let q' := truncate_ranges q (tsize t) in
    let '(root, filled) := shifted t in
    validate_rec_fsm 70 true t filled ob data (ob_root ob) root true q'.

Definition valid_outboard_ranges_fsm (ob : outboard) (q : ranges) : list (N * N) * res io_kind unit :=
  let t := ob_tree ob in
  if blocks t =? 1 then ([(0, tree_chunks t)], Ok tt)
  else
    let q' := truncate_ranges q (tsize t) in
    let '(root, filled) := shifted t in
    validate_rec_fsm 70 false t filled ob [] (ob_root ob) root true q'.

End Fsm.
Arguments RMore {HO}. Arguments RDone {HO}.

(* ---------- src/io/mixed.rs ---------- *)
Section Mixed.
Variable HO : hops.
Notation bytes := (bytes HO).
Notation hash := (hash HO).
Notation outboard := (outboard HO).
Notation item := (item HO).

Inductive eitem := ESize (n : N) | EItem (i : item) | EError (e : enc_err) | EDone.

Fixpoint traverse_loop (items : list chunk) (stack : list hash) (t : tree) (data : bytes) (ob : outboard) (out : list item)
  : res enc_err unit * list item :=
  match items with
  | [] => (Ok tt, out)
  | CParent node is_root lf rt _ :: rest =>
      match load_sync HO ob node with
      | Ok (Some (l, r)) =>
          let actual := parent_cv HO l r is_root in
          match stack with
          | [] => (Panic, out)
          | expected :: stk =>
              if negb (bytes_eqb HO actual expected) then (Err (EParentHashMismatch node), out)
              else
                let stk1 := if rt then r :: stk else stk in
                let stk2 := if lf then l :: stk1 else stk1 in
                traverse_loop rest stk2 t data ob (out ++ [IParent node l r])
          end
      | Ok None => (Panic, out)
      | Err k => (Err (EIo k), out)
      | Panic => (Panic, out)
      end
  | CLeaf start size is_root rs :: rest =>
      match stack with
      | [] => (Panic, out)
      | expected :: stk =>
          (* ReadBytesAt::read_bytes_at: exact read *)
          match read_exact_at HO data (to_bytes start) size with
          | Ok buf =>
              if negb (r_is_all rs) then
                let '(its, actual) := traverse_selected_rec HO (REC_FUEL) start buf is_root rs (tbs t) true in
                if negb (bytes_eqb HO actual expected) then (Err (ELeafHashMismatch start), out)
                else traverse_loop rest stk t data ob (out ++ its)
              else
                let actual := hash_subtree HO start buf is_root in
                if negb (bytes_eqb HO actual expected) then (Err (ELeafHashMismatch start), out)
                else traverse_loop rest stk t data ob (out ++ [ILeaf (to_bytes start) buf])
          | Err k => (Err (EIo k), out)
          | Panic => (Panic, out)
          end
      end
  end.

(* traverse_ranges_validated with a sender that never fails; None = panic *)
Definition traverse_ranges_validated (data : bytes) (ob : outboard) (q : ranges) : option (list eitem) :=
  let t := ob_tree ob in
  let '(r, its) :=
    if r_is_empty q then (Ok tt, [])
    else
      let q' := truncate_ranges q (tsize t) in
      traverse_loop (pre_order_chunks_iter t q' 0) [ob_root ob] t data ob [] in
  match r with
  | Ok _ => Some (ESize (tsize t) :: map EItem its ++ [EDone])
  | Err e => Some (ESize (tsize t) :: map EItem its ++ [EError e])
  | Panic => None
  end.
End Mixed.
Arguments ESize {HO}. Arguments EItem {HO}. Arguments EError {HO}. Arguments EDone {HO}.
