(* Concrete BLAKE3 (hash mode) chunk and parent chaining values over primitive 63-bit integers,
   the `hops` instance used to RUN the model in the correspondence check, the shared data generator
   and the rolling digest.  Appears in no theorem. *)
From Coq Require Import Uint63 ZArith.
From BaoV Require Export Model.Hash.
Open Scope uint63_scope.

Definition m32 : int := 0xFFFFFFFF.
Definition add32 (a b : int) : int := (a + b) land m32.
Definition rotr32 (x : int) (n : int) : int := ((x >> n) lor (x << (32 - n))) land m32.

Definition IV : list int := [0x6A09E667; 0xBB67AE85; 0x3C6EF372; 0xA54FF53A; 0x510E527F; 0x9B05688C; 0x1F83D9AB; 0x5BE0CD19].

Record st := mk { s0:int; s1:int; s2:int; s3:int; s4:int; s5:int; s6:int; s7:int;
                  s8:int; s9:int; s10:int; s11:int; s12:int; s13:int; s14:int; s15:int }.

Definition G (a b c d mx my : int) : int*int*int*int :=
  let a := add32 (add32 a b) mx in
  let d := rotr32 (d lxor a) 16 in
  let c := add32 c d in
  let b := rotr32 (b lxor c) 12 in
  let a := add32 (add32 a b) my in
  let d := rotr32 (d lxor a) 8 in
  let c := add32 c d in
  let b := rotr32 (b lxor c) 7 in
  (a,b,c,d).

Definition nth' (l : list int) (n : nat) := nth n l 0.

Definition round (s : st) (m : list int) : st :=
  let '(a0,b0,c0,d0) := G (s0 s) (s4 s) (s8 s) (s12 s) (nth' m 0) (nth' m 1) in
  let '(a1,b1,c1,d1) := G (s1 s) (s5 s) (s9 s) (s13 s) (nth' m 2) (nth' m 3) in
  let '(a2,b2,c2,d2) := G (s2 s) (s6 s) (s10 s) (s14 s) (nth' m 4) (nth' m 5) in
  let '(a3,b3,c3,d3) := G (s3 s) (s7 s) (s11 s) (s15 s) (nth' m 6) (nth' m 7) in
  let '(a0,b1,c2,d3) := G a0 b1 c2 d3 (nth' m 8) (nth' m 9) in
  let '(a1,b2,c3,d0) := G a1 b2 c3 d0 (nth' m 10) (nth' m 11) in
  let '(a2,b3,c0,d1) := G a2 b3 c0 d1 (nth' m 12) (nth' m 13) in
  let '(a3,b0,c1,d2) := G a3 b0 c1 d2 (nth' m 14) (nth' m 15) in
  mk a0 a1 a2 a3 b0 b1 b2 b3 c0 c1 c2 c3 d0 d1 d2 d3.

Definition PERM : list nat := [2;6;3;10;7;0;4;13;1;11;12;5;9;14;15;8]%nat.
Definition permute (m : list int) : list int := map (fun i => nth' m i) PERM.

Fixpoint rounds (n : nat) (s : st) (m : list int) : st :=
  match n with
  | O => s
  | S O => round s m
  | S n' => rounds n' (round s m) (permute m)
  end.

Definition compress (cv : list int) (m : list int) (counter : int) (blen : int) (flags : int) : list int :=
  let s := mk (nth' cv 0) (nth' cv 1) (nth' cv 2) (nth' cv 3) (nth' cv 4) (nth' cv 5) (nth' cv 6) (nth' cv 7)
              (nth' IV 0) (nth' IV 1) (nth' IV 2) (nth' IV 3) (counter land m32) ((counter >> 32) land m32) blen flags in
  let s := rounds 7 s m in
  [s0 s lxor s8 s; s1 s lxor s9 s; s2 s lxor s10 s; s3 s lxor s11 s;
   s4 s lxor s12 s; s5 s lxor s13 s; s6 s lxor s14 s; s7 s lxor s15 s].

Fixpoint words (n : nat) (bs : list int) : list int :=
  match n with
  | O => []
  | S n' =>
    match bs with
    | b0 :: b1 :: b2 :: b3 :: r => (b0 lor (b1 << 8) lor (b2 << 16) lor (b3 << 24)) :: words n' r
    | [b0; b1; b2] => (b0 lor (b1 << 8) lor (b2 << 16)) :: words n' []
    | [b0; b1] => (b0 lor (b1 << 8)) :: words n' []
    | [b0] => b0 :: words n' []
    | [] => 0 :: words n' []
    end
  end.
Definition word_bytes (w : int) : list int :=
  [w land 255; (w >> 8) land 255; (w >> 16) land 255; (w >> 24) land 255].
Definition cv_bytes (cv : list int) : list int := flat_map word_bytes cv.

Definition CHUNK_START := 1. Definition CHUNK_END := 2. Definition PARENT := 4. Definition ROOT := 8.

Fixpoint chunk_blocks (fuel : nat) (cv : list int) (bs : list int) (len : nat) (counter : int) (first : bool) (root : bool) : list int :=
  match fuel with
  | O => cv
  | S f =>
    let sflag := if first then CHUNK_START else 0 in
    if Nat.leb len 64 then
      compress cv (words 16 bs) counter (of_Z (Z.of_nat len)) (sflag lor CHUNK_END lor (if root then ROOT else 0))
    else
      chunk_blocks f (compress cv (words 16 (firstn 64 bs)) counter 64 sflag) (skipn 64 bs) (len - 64) counter false root
  end.

Definition b3_chunk_cv (counter : N) (bs : list int) (root : bool) : list int :=
  cv_bytes (chunk_blocks 17 IV bs (length bs) (of_Z (Z.of_N counter)) true root).
Definition b3_parent_cv (l r : list int) (root : bool) : list int :=
  cv_bytes (compress IV (words 16 (l ++ r)) 0 64 (PARENT lor (if root then ROOT else 0))).

Definition B3 : hops := mkHops int Uint63.eqb 0 b3_chunk_cv b3_parent_cv.

(* ---- shared data generator (harness/src/common.rs gen_data) ---- *)
Definition lcg (s : int) : int := s * 6364136223846793005 + 1442695040888963407.
Fixpoint gen_rand (n : nat) (s : int) : list int :=
  match n with
  | O => []
  | S k => let s' := lcg s in ((s' >> 33) land 255) :: gen_rand k s'
  end.
Fixpoint cycle_take (n : nat) (pat cur : list int) : list int :=
  match n with
  | O => []
  | S k => match cur with
           | x :: r => x :: cycle_take k pat r
           | [] => match pat with
                   | x :: r => x :: cycle_take k pat r
                   | [] => []
                   end
           end
  end.
Fixpoint gen_test (n : nat) (i : int) : list int :=
  match n with
  | O => []
  | S k => ((i / 1024) land 255) :: gen_test k (i + 1)
  end.
Definition int_of_N (n : N) : int := of_Z (Z.of_N n).
Definition N_of_int (i : int) : N := Z.to_N (to_Z i).
Definition gen_data (kind seed : N) (n : N) : list int :=
  let k := N.to_nat n in
  if (kind =? 0)%N then gen_rand k (int_of_N seed)
  else if (kind =? 1)%N then repeat (int_of_N seed land 255) k
  else if (kind =? 2)%N then let c := gen_rand 1024 (int_of_N seed) in cycle_take k c c
  else if (kind =? 4)%N then
    let r := gen_rand k (int_of_N seed) in
    firstn 700 r ++ repeat 0 (k - 700 - 300) ++ skipn (Nat.max 700 (k - 300)) r
  else gen_test k 0.

(* 63-bit rolling digest (harness/src/common.rs digest) *)
Definition digest (bs : list int) : N :=
  N_of_int (fold_left (fun d x => d * 1000003 + x + 1) bs 0).
