(* Abstract hashing interface and the shared value types of the protocol model.
   Theorems quantify over a `hops` record (byte type + chunk / parent chaining-value functions);
   Model/Blake3.v provides the concrete instance used to run the model.  Definitions only. *)
From BaoV Require Export Model.Iter.

Record hops := mkHops {
  B : Type;                                   (* a byte *)
  beq : B -> B -> bool;
  bzero : B;
  chunk_cv : N -> list B -> bool -> list B;   (* chunk counter, <= 1024 bytes, is_root -> 32-byte cv *)
  parent_cv : list B -> list B -> bool -> list B
}.

Section Hashing.
Variable HO : hops.
Definition bytes := list (B HO).
Definition hash := list (B HO).

Fixpoint bytes_eqb (a b : bytes) : bool :=
  match a, b with
  | [], [] => true
  | x :: a', y :: b' => beq HO x y && bytes_eqb a' b'
  | _, _ => false
  end.

Definition zeros (n : nat) : bytes := repeat (bzero HO) n.
Definition zero_hash : hash := zeros 32.
Definition blen (d : bytes) : N := N.of_nat (length d).
Definition take (n : N) (d : bytes) : bytes := firstn (N.to_nat n) d.
Definition drop (n : N) (d : bytes) : bytes := skipn (N.to_nat n) d.
Definition slice (off len : N) (d : bytes) : bytes := take len (drop off d).

(* hash_subtree (src/lib.rs:235-247): blake3 of <= 1 chunk is its chunk cv; of more data the
   left-full tree of chunk cvs (blake3::hash for the root, the hazmat offset hasher otherwise).
   fuel bounds the tree depth. *)
Fixpoint subtree_cv (fuel : nat) (start_chunk : N) (d : bytes) (is_root : bool) : hash :=
  match fuel with
  | O => []
  | S f =>
    let len := blen d in
    if len <=? 1024 then chunk_cv HO start_chunk d is_root
    else
      let n := (len + 1023) / 1024 in
      let half := next_pow2 n / 2 in
      parent_cv HO (subtree_cv f start_chunk (take (half * 1024) d) false)
                  (subtree_cv f (start_chunk + half) (drop (half * 1024) d) false) is_root
  end.
Definition hash_subtree (start_chunk : N) (d : bytes) (is_root : bool) : hash :=
  subtree_cv 64 start_chunk d is_root.

(* wire items and errors *)
Inductive item := IParent (node : N) (l r : hash) | ILeaf (offset : N) (data : bytes).
Definition item_bytes (i : item) : bytes :=
  match i with IParent _ l r => l ++ r | ILeaf _ d => d end.

Inductive io_kind := KOther | KUnexpectedEof | KConnectionReset | KWriteZero | KInvalidInput | KInvalidData | KInterrupted.
Inductive dec_err :=
| DParentNotFound (n : N) | DLeafNotFound (c : N)
| DParentHashMismatch (n : N) | DLeafHashMismatch (c : N) | DIo (k : io_kind).
Inductive enc_err :=
| EParentHashMismatch (n : N) | ELeafHashMismatch (c : N)
| EParentWrite (n : N) | ELeafWrite (c : N) | ESizeMismatch | EIo (k : io_kind).

(* outcome of an operation: Panic = an unwrap()/index/debug_assert failure in the Rust *)
Inductive res (E A : Type) := Ok (a : A) | Err (e : E) | Panic.
Arguments Ok {E A}. Arguments Err {E A}. Arguments Panic {E A}.

(* From<DecodeError> for io::Error / From<EncodeError> for io::Error: the resulting kind *)
Definition dec_err_kind (e : dec_err) : io_kind :=
  match e with
  | DIo k => k
  | DParentHashMismatch _ | DLeafHashMismatch _ => KInvalidData
  | DLeafNotFound _ | DParentNotFound _ => KUnexpectedEof
  end.
Definition enc_err_kind (e : enc_err) : io_kind :=
  match e with
  | EIo k => k
  | EParentHashMismatch _ | ELeafHashMismatch _ | ESizeMismatch => KInvalidData
  | EParentWrite _ | ELeafWrite _ => KConnectionReset
  end.
Definition maybe_parent_not_found (k : io_kind) (n : N) : dec_err :=
  match k with KUnexpectedEof => DParentNotFound n | _ => DIo k end.
Definition maybe_leaf_not_found (k : io_kind) (c : N) : dec_err :=
  match k with KUnexpectedEof => DLeafNotFound c | _ => DIo k end.
Definition maybe_parent_write (k : io_kind) (n : N) : enc_err :=
  match k with KConnectionReset => EParentWrite n | _ => EIo k end.
Definition maybe_leaf_write (k : io_kind) (c : N) : enc_err :=
  match k with KConnectionReset => ELeafWrite c | _ => EIo k end.

End Hashing.
Arguments Ok {E A}. Arguments Err {E A}. Arguments Panic {E A}.
Arguments IParent {HO}. Arguments ILeaf {HO}.
