(* Transport model for C10 / C11: a byte source that hands out its bytes according to a schedule of
   short reads, Interrupted returns and Pending polls, and that can fail at its k-th read call; on top
   of it the exact-length read loops the crate relies on (std Read::read_exact, tokio read_exact,
   iroh-io TokioStreamReader::read_bytes = take(len).read_to_end, AsyncStreamReader::read_bytes_exact),
   and the two decoders written against an abstract exact reader.  An `.await` is "poll until ready":
   Pending events are skipped.  Definitions only. *)
From BaoV Require Export Model.IO.

Section IOSched.
Variable HO : hops.
Notation bytes := (bytes HO).
Notation hash := (hash HO).
Notation item := (item HO).

Inductive ev := EFrag (n : N) | EIntr | EPending.
Record reader := mkRd { rd_rest : bytes; rd_sched : list ev; rd_calls : N; rd_fail : option (N * io_kind) }.
Definition plain_reader (b : bytes) : reader := mkRd b [] 0 None.

Fixpoint drop_pending (s : list ev) : list ev :=
  match s with EPending :: r => drop_pending r | _ => s end.

(* one read(buf) call with |buf| = len > 0, polled to readiness *)
Definition rd_read (r : reader) (len : N) : res io_kind bytes * reader :=
  let s := drop_pending (rd_sched r) in
  let n := rd_calls r in
  match rd_fail r with
  | Some (k, kind) =>
      if k =? n then (Err kind, mkRd (rd_rest r) (tl s) (n + 1) (rd_fail r))
      else
        match s with
        | EIntr :: s' => (Err KInterrupted, mkRd (rd_rest r) s' (n + 1) (rd_fail r))
        | EFrag m :: s' => let got := take HO (N.min (N.max m 1) len) (rd_rest r) in
                           (Ok got, mkRd (drop HO (blen HO got) (rd_rest r)) s' (n + 1) (rd_fail r))
        | _ => let got := take HO len (rd_rest r) in
               (Ok got, mkRd (drop HO (blen HO got) (rd_rest r)) [] (n + 1) (rd_fail r))
        end
  | None =>
      match s with
      | EIntr :: s' => (Err KInterrupted, mkRd (rd_rest r) s' (n + 1) None)
      | EFrag m :: s' => let got := take HO (N.min (N.max m 1) len) (rd_rest r) in
                         (Ok got, mkRd (drop HO (blen HO got) (rd_rest r)) s' (n + 1) None)
      | _ => let got := take HO len (rd_rest r) in
             (Ok got, mkRd (drop HO (blen HO got) (rd_rest r)) [] (n + 1) None)
      end
  end.

(* std::io::Read::read_exact (default): retry on Interrupted, UnexpectedEof on a 0-byte read *)
Fixpoint read_exact_std (fuel : nat) (r : reader) (len : N) (acc : bytes) : res io_kind bytes * reader :=
  match fuel with
  | O => (Panic, r)
  | S f =>
    if len =? 0 then (Ok acc, r)
    else match rd_read r len with
         | (Ok got, r') => if blen HO got =? 0 then (Err KUnexpectedEof, r')
                           else read_exact_std f r' (len - blen HO got) (acc ++ got)
         | (Err KInterrupted, r') => read_exact_std f r' len acc
         | (Err k, r') => (Err k, r')
         | (Panic, r') => (Panic, r')
         end
  end.
(* fuel: every call makes progress or consumes a schedule event *)
Definition rx_fuel (r : reader) (len : N) : nat := S (N.to_nat len + length (rd_sched r)).
Definition read_exact_sync (r : reader) (len : N) : res io_kind bytes * reader :=
  read_exact_std (rx_fuel r len) r len [].

(* tokio AsyncReadExt::read_exact: same loop, no Interrupted retry *)
Fixpoint read_exact_tokio (fuel : nat) (r : reader) (len : N) (acc : bytes) : res io_kind bytes * reader :=
  match fuel with
  | O => (Panic, r)
  | S f =>
    if len =? 0 then (Ok acc, r)
    else match rd_read r len with
         | (Ok got, r') => if blen HO got =? 0 then (Err KUnexpectedEof, r')
                           else read_exact_tokio f r' (len - blen HO got) (acc ++ got)
         | (Err k, r') => (Err k, r')
         | (Panic, r') => (Panic, r')
         end
  end.
(* take(len).read_to_end: read until `len` bytes or EOF.  tokio's read_to_end (unlike std's) does not
   retry: every error of the transport, Interrupted included, is returned (tokio 1.36 read_to_end.rs:
   `Err(err) => return Poll::Ready(Err(err))`) *)
Fixpoint take_read_to_end (fuel : nat) (r : reader) (len : N) (acc : bytes) : res io_kind bytes * reader :=
  match fuel with
  | O => (Panic, r)
  | S f =>
    if len =? 0 then (Ok acc, r)
    else match rd_read r len with
         | (Ok got, r') => if blen HO got =? 0 then (Ok acc, r')
                           else take_read_to_end f r' (len - blen HO got) (acc ++ got)
         | (Err k, r') => (Err k, r')
         | (Panic, r') => (Panic, r')
         end
  end.
(* TokioStreamReader::read::<L>() *)
Definition tokio_read_n (r : reader) (len : N) : res io_kind bytes * reader :=
  read_exact_tokio (rx_fuel r len) r len [].
(* AsyncStreamReader::read_bytes_exact over TokioStreamReader::read_bytes *)
Definition tokio_read_bytes_exact (r : reader) (len : N) : res io_kind bytes * reader :=
  match take_read_to_end (rx_fuel r len) r len [] with
  | (Ok b, r') => if blen HO b <? len then (Err KUnexpectedEof, r') else (Ok b, r')
  | x => x
  end.

(* ---- the sync decoder step against an abstract reader (sync.rs:313-362) ---- *)
Record dstate_r := mkDR { dr_inner : ppstate; dr_stack : list hash; dr_rd : reader }.
Definition dec_next_r (st : dstate_r) : option (res dec_err item * dstate_r) :=
  match response_next (dr_inner st) with
  | None => None
  | Some (CParent node is_root lf rt _, inner') =>
      match read_exact_sync (dr_rd st) 64 with
      | (Ok buf, rd') =>
          let '(l, r) := parse_pair HO buf in
          match dr_stack st with
          | [] => Some (Panic, mkDR inner' [] rd')
          | ph :: stk =>
              if negb (bytes_eqb HO ph (parent_cv HO l r is_root)) then Some (Err (DParentHashMismatch node), mkDR inner' stk rd')
              else
                let stk1 := if rt then r :: stk else stk in
                let stk2 := if lf then l :: stk1 else stk1 in
                Some (Ok (IParent node l r), mkDR inner' stk2 rd')
          end
      | (Err k, rd') => Some (Err (maybe_parent_not_found k node), mkDR inner' (dr_stack st) rd')
      | (Panic, rd') => Some (Panic, mkDR inner' (dr_stack st) rd')
      end
  | Some (CLeaf start size is_root _, inner') =>
      match read_exact_sync (dr_rd st) size with
      | (Ok buf, rd') =>
          match dr_stack st with
          | [] => Some (Panic, mkDR inner' [] rd')
          | lh :: stk =>
              if negb (bytes_eqb HO lh (hash_subtree HO start buf is_root)) then Some (Err (DLeafHashMismatch start), mkDR inner' stk rd')
              else Some (Ok (ILeaf (to_bytes start) buf), mkDR inner' stk rd')
          end
      | (Err k, rd') => Some (Err (maybe_leaf_not_found k start), mkDR inner' (dr_stack st) rd')
      | (Panic, rd') => Some (Panic, mkDR inner' (dr_stack st) rd')
      end
  end.
Definition dec_new_r (root : hash) (t : tree) (rd : reader) (q : ranges) : dstate_r :=
  mkDR (response_new t (truncate_ranges q (tsize t))) [root] rd.
Definition dec_run_r (st : dstate_r) : list item * outcome * dstate_r :=
  match loop2 LOOP_DEPTH
          (fun sa : dstate_r * list item =>
             match dec_next_r (fst sa) with
             | None => inr (rev (snd sa), Finished, fst sa)
             | Some (Ok it, st') => inl (st', it :: snd sa)
             | Some (Err e, st') => inr (rev (snd sa), Failed e, st')
             | Some (Panic, st') => inr (rev (snd sa), Panicked, st')
             end) (st, []) with
  | inr r => r
  | inl sa => (rev (snd sa), OutOfFuel, fst sa)
  end.

(* ---- the fsm decoder step against TokioStreamReader (fsm.rs:390-448) ---- *)
Record rstate_r := mkRR { rr_iter : ppstate; rr_stack : list hash; rr_rd : reader }.
Definition rd_next_r (st : rstate_r) : option (res dec_err item * rstate_r) :=
  match response_next (rr_iter st) with
  | None => None
  | Some (CParent node is_root lf rt _, it') =>
      match tokio_read_n (rr_rd st) 64 with
      | (Ok buf, rd') =>
          let '(l, r) := parse_pair HO buf in
          match rr_stack st with
          | [] => Some (Panic, mkRR it' [] rd')
          | ph :: stk =>
              let stk1 := if rt then r :: stk else stk in
              let stk2 := if lf then l :: stk1 else stk1 in
              if negb (bytes_eqb HO ph (parent_cv HO l r is_root)) then Some (Err (DParentHashMismatch node), mkRR it' stk2 rd')
              else Some (Ok (IParent node l r), mkRR it' stk2 rd')
          end
      | (Err k, rd') => Some (Err (maybe_parent_not_found k node), mkRR it' (rr_stack st) rd')
      | (Panic, rd') => Some (Panic, mkRR it' (rr_stack st) rd')
      end
  | Some (CLeaf start size is_root _, it') =>
      match tokio_read_bytes_exact (rr_rd st) size with
      | (Ok data, rd') =>
          match rr_stack st with
          | [] => Some (Panic, mkRR it' [] rd')
          | lh :: stk =>
              if negb (bytes_eqb HO lh (hash_subtree HO start data is_root)) then Some (Err (DLeafHashMismatch start), mkRR it' stk rd')
              else Some (Ok (ILeaf (to_bytes start) data), mkRR it' stk rd')
          end
      | (Err k, rd') => Some (Err (maybe_leaf_not_found k start), mkRR it' (rr_stack st) rd')
      | (Panic, rd') => Some (Panic, mkRR it' (rr_stack st) rd')
      end
  end.
Definition rd_new_r (root : hash) (q : ranges) (t : tree) (rd : reader) : rstate_r :=
  mkRR (response_new t (truncate_ranges_owned q (tsize t))) [root] rd.
Definition rd_run_r (st : rstate_r) : list item * outcome * rstate_r :=
  match loop2 LOOP_DEPTH
          (fun sa : rstate_r * list item =>
             match rd_next_r (fst sa) with
             | None => inr (rev (snd sa), Finished, fst sa)
             | Some (Ok it, st') => inl (st', it :: snd sa)
             | Some (Err e, st') => inr (rev (snd sa), Failed e, st')
             | Some (Panic, st') => inr (rev (snd sa), Panicked, st')
             end) (st, []) with
  | inr r => r
  | inl sa => (rev (snd sa), OutOfFuel, fst sa)
  end.

(* ---- outboard creation reading its data through a scheduled reader (sync.rs:545-579) ---- *)
Fixpoint outboard_po_loop_r (items : list chunk) (stack : list hash) (rd : reader) (out : bytes)
  : res io_kind hash * bytes * reader :=
  match items with
  | [] => match stack with [h] => (Ok h, out, rd) | _ => (Panic, out, rd) end
  | CParent node is_root _ _ _ :: rest =>
      match stack with
      | rh :: lh :: stk => outboard_po_loop_r rest (parent_cv HO lh rh is_root :: stk) rd (out ++ lh ++ rh)
      | _ => (Panic, out, rd)
      end
  | CLeaf start size is_root _ :: rest =>
      match read_exact_sync rd size with
      | (Ok buf, rd') => outboard_po_loop_r rest (hash_subtree HO start buf is_root :: stack) rd' out
      | (Err k, rd') => (Err k, out, rd')
      | (Panic, rd') => (Panic, out, rd')
      end
  end.
Definition outboard_post_order_r (t : tree) (rd : reader) : res io_kind hash * bytes * reader :=
  outboard_po_loop_r (post_order_chunks_iter t) [] rd [].

(* sync::outboard (outboard_impl) reading the blob through a scheduled reader (sync.rs:545-579) *)
Fixpoint outboard_loop_r (items : list chunk) (stack : list hash) (rd : reader) (ob : outboard HO)
  : res io_kind hash * outboard HO * reader :=
  match items with
  | [] => match stack with [h] => (Ok h, ob, rd) | _ => (Panic, ob, rd) end
  | CParent node is_root _ _ _ :: rest =>
      match stack with
      | rh :: lh :: stk =>
          match save HO ob node lh rh with
          | Ok ob' => outboard_loop_r rest (parent_cv HO lh rh is_root :: stk) rd ob'
          | Err k => (Err k, ob, rd)
          | Panic => (Panic, ob, rd)
          end
      | _ => (Panic, ob, rd)
      end
  | CLeaf start size is_root _ :: rest =>
      match read_exact_sync rd size with
      | (Ok buf, rd') => outboard_loop_r rest (hash_subtree HO start buf is_root :: stack) rd' ob
      | (Err k, rd') => (Err k, ob, rd')
      | (Panic, rd') => (Panic, ob, rd')
      end
  end.
Definition outboard_impl_r (t : tree) (rd : reader) (ob : outboard HO) : res io_kind hash * outboard HO * reader :=
  outboard_loop_r (post_order_chunks_iter t) [] rd ob.
End IOSched.
