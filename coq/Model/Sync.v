(* src/io/sync.rs: outboard creation, decoder, encoders, decode_ranges, copy, validators.
   Fault-free io: readers / writers are byte lists.  Definitions only. *)
From BaoV Require Export Model.Outboard.

Section Sync.
Variable HO : hops.
Notation bytes := (bytes HO).
Notation hash := (hash HO).
Notation outboard := (outboard HO).
Notation item := (item HO).

(* ---------- outboard creation (sync.rs:534-633) ---------- *)
(* outboard_impl: returns (result, outboard after, unread data) *)
Fixpoint outboard_loop (items : list chunk) (stack : list hash) (data : bytes) (ob : outboard)
  : res io_kind hash * outboard * bytes :=
  match items with
  | [] => match stack with
          | [h] => (Ok h, ob, data)
          | _ => (Panic, ob, data)      (* debug_assert_eq!(stack.len(), 1) / pop().unwrap() *)
          end
  | CParent node is_root _ _ _ :: rest =>
      match stack with
      | rh :: lh :: stk =>
          match save HO ob node lh rh with
          | Ok ob' => outboard_loop rest (parent_cv HO lh rh is_root :: stk) data ob'
          | Err k => (Err k, ob, data)
          | Panic => (Panic, ob, data)
          end
      | _ => (Panic, ob, data)
      end
  | CLeaf start size is_root _ :: rest =>
      if blen HO data <? size then (Err KUnexpectedEof, ob, [])
      else outboard_loop rest (hash_subtree HO start (take HO size data) is_root :: stack) (drop HO size data) ob
  end.

Definition outboard_impl (t : tree) (data : bytes) (ob : outboard) : res io_kind hash * outboard * bytes :=
  outboard_loop (post_order_chunks_iter t) [] data ob.

(* outboard_post_order_impl: pairs are appended to a writer *)
Fixpoint outboard_po_loop (items : list chunk) (stack : list hash) (data : bytes) (out : bytes)
  : res io_kind hash * bytes * bytes :=
  match items with
  | [] => match stack with
          | [h] => (Ok h, out, data)
          | _ => (Panic, out, data)
          end
  | CParent node is_root _ _ _ :: rest =>
      match stack with
      | rh :: lh :: stk => outboard_po_loop rest (parent_cv HO lh rh is_root :: stk) data (out ++ lh ++ rh)
      | _ => (Panic, out, data)
      end
  | CLeaf start size is_root _ :: rest =>
      if blen HO data <? size then (Err KUnexpectedEof, out, [])
      else outboard_po_loop rest (hash_subtree HO start (take HO size data) is_root :: stack) (drop HO size data) out
  end.
Definition outboard_post_order (t : tree) (data : bytes) : res io_kind hash * bytes * bytes :=
  outboard_po_loop (post_order_chunks_iter t) [] data [].

(* CreateOutboard::init_from for the io-backed outboards: outboard(); root := ..; sync() *)
Definition init_from (ob : outboard) (data : bytes) : res io_kind outboard :=
  match outboard_impl (ob_tree ob) data ob with
  | (Ok h, ob', _) => Ok (set_root HO ob' h)
  | (Err k, _, _) => Err k
  | (Panic, _, _) => Panic
  end.
(* create_sized: Default (empty data, root = hash of empty) with the tree set, then init_from *)
Definition create_sized (k : ob_kind) (data : bytes) (size bs : N) : res io_kind outboard :=
  init_from (mkOb k (hash_subtree HO 0 [] true) (mkTree size bs) []) data.
(* PreOrderMemOutboard::create / PostOrderMemOutboard::create (they unwrap) *)
Definition pre_mem_create (data : bytes) (bs : N) : res io_kind outboard :=
  let t := mkTree (blen HO data) bs in
  let ob0 := mkOb PreMem (zero_hash HO) t (zeros HO (N.to_nat (outboard_size t))) in
  match outboard_impl t data ob0 with
  | (Ok h, ob', _) => Ok (set_root HO ob' h)
  | _ => Panic
  end.
Definition post_mem_create (data : bytes) (bs : N) : res io_kind outboard :=
  let t := mkTree (blen HO data) bs in
  match outboard_post_order t data with
  | (Ok h, out, _) => Ok (mkOb PostMem h t out)
  | _ => Panic
  end.

(* ---------- decoder (sync.rs:260-371) ---------- *)
Record dstate := mkD { d_inner : ppstate; d_stack : list hash; d_enc : bytes }.

Definition dec_new (root : hash) (t : tree) (encoded : bytes) (q : ranges) : dstate :=
  mkD (response_new t (truncate_ranges q (tsize t))) [root] encoded.
Definition dec_tree (st : dstate) : tree := response_tree (d_inner st).

(* one call of Iterator::next: None = iterator finished *)
Definition dec_next (st : dstate) : option (res dec_err item * dstate) :=
  match response_next (d_inner st) with
  | None => None
  | Some (CParent node is_root lf rt _, inner') =>
      let enc := d_enc st in
      if blen HO enc <? 64 then Some (Err (DParentNotFound node), mkD inner' (d_stack st) [])
      else
        let '(l, r) := parse_pair HO (take HO 64 enc) in
        let enc' := drop HO 64 enc in
        match d_stack st with
        | [] => Some (Panic, mkD inner' [] enc')
        | ph :: stk =>
            let actual := parent_cv HO l r is_root in
            if negb (bytes_eqb HO ph actual) then Some (Err (DParentHashMismatch node), mkD inner' stk enc')
            else
              let stk1 := if rt then r :: stk else stk in
              let stk2 := if lf then l :: stk1 else stk1 in
              Some (Ok (IParent node l r), mkD inner' stk2 enc')
        end
  | Some (CLeaf start size is_root _, inner') =>
      let enc := d_enc st in
      if blen HO enc <? size then Some (Err (DLeafNotFound start), mkD inner' (d_stack st) [])
      else
        let buf := take HO size enc in
        let enc' := drop HO size enc in
        let actual := hash_subtree HO start buf is_root in
        match d_stack st with
        | [] => Some (Panic, mkD inner' [] enc')
        | lh :: stk =>
            if negb (bytes_eqb HO lh actual) then Some (Err (DLeafHashMismatch start), mkD inner' stk enc')
            else Some (Ok (ILeaf (to_bytes start) buf), mkD inner' stk enc')
        end
  end.

(* run until the first Err / Panic or the end; returns yielded items, outcome, final state *)
Inductive outcome := Finished | Failed (e : dec_err) | Panicked | OutOfFuel.
Definition dec_run (st : dstate) : list item * outcome * dstate :=
  match loop2 LOOP_DEPTH
          (fun sa : dstate * list item =>
             match dec_next (fst sa) with
             | None => inr (rev (snd sa), Finished, fst sa)
             | Some (Ok it, st') => inl (st', it :: snd sa)
             | Some (Err e, st') => inr (rev (snd sa), Failed e, st')
             | Some (Panic, st') => inr (rev (snd sa), Panicked, st')
             end) (st, []) with
  | inr r => r
  | inl sa => (rev (snd sa), OutOfFuel, fst sa)
  end.

(* ---------- decode_ranges (sync.rs:505-528) ---------- *)
Definition decode_step (s : dstate * bytes * outboard)
  : (dstate * bytes * outboard) + (res dec_err unit * bytes * outboard * dstate) :=
  let '(st, target, ob) := s in
  match dec_next st with
  | None => inr (Ok tt, target, ob, st)
  | Some (Err e, st') => inr (Err e, target, ob, st')
  | Some (Panic, st') => inr (Panic, target, ob, st')
  | Some (Ok (IParent node l r), st') =>
      match save HO ob node l r with
      | Ok ob' => inl (st', target, ob')
      | Err k => inr (Err (DIo k), target, ob, st')
      | Panic => inr (Panic, target, ob, st')
      end
  | Some (Ok (ILeaf off d), st') => inl (st', write_at HO target off d, ob)
  end.
Definition decode_ranges (encoded : bytes) (q : ranges) (target : bytes) (ob : outboard)
  : res dec_err unit * bytes * outboard * dstate :=
  match loop2 LOOP_DEPTH decode_step (dec_new (ob_root ob) (ob_tree ob) encoded q, target, ob) with
  | inr r => r
  | inl (st, target', ob') => (Panic, target', ob', st)
  end.

(* ---------- encoders (sync.rs:380-499) ---------- *)
(* ReadAt::read_exact_at on a byte vector *)
Definition read_exact_at (d : bytes) (off len : N) : res io_kind bytes :=
  let c := slice HO off len d in
  if blen HO c =? len then Ok c else Err KUnexpectedEof.

Fixpoint encode_loop (items : list chunk) (data : bytes) (ob : outboard) (out : bytes)
  : res enc_err unit * bytes :=
  match items with
  | [] => (Ok tt, out)
  | CParent node _ _ _ _ :: rest =>
      match load_sync HO ob node with
      | Ok (Some (l, r)) => encode_loop rest data ob (out ++ combine_pair HO l r)
      | Ok None => (Panic, out)
      | Err k => (Err (EIo k), out)
      | Panic => (Panic, out)
      end
  | CLeaf start size _ _ :: rest =>
      match read_exact_at data (to_bytes start) size with
      | Ok buf => encode_loop rest data ob (out ++ buf)
      | Err k => (Err (EIo k), out)
      | Panic => (Panic, out)
      end
  end.
Definition encode_ranges (data : bytes) (ob : outboard) (q : ranges) : res enc_err unit * bytes :=
  let t := ob_tree ob in
  encode_loop (pre_order_chunks_iter t q 0) data ob [].

Fixpoint encode_val_loop (items : list chunk) (stack : list hash) (t : tree) (data : bytes) (ob : outboard) (out : bytes)
  : res enc_err unit * bytes :=
  match items with
  | [] => (Ok tt, out)
  | CParent node is_root lf rt _ :: rest =>
      match load_sync HO ob node with
      | Ok (Some (l, r)) =>
          let actual := parent_cv HO l r is_root in
          match stack with
          | [] => (Panic, out)
          | expected :: stk =>
              if negb (bytes_eqb HO actual expected) then (Err (EParentHashMismatch node), out)
              else
                let stk1 := if rt then r :: stk else stk in
                let stk2 := if lf then l :: stk1 else stk1 in
                encode_val_loop rest stk2 t data ob (out ++ combine_pair HO l r)
          end
      | Ok None => (Panic, out)
      | Err k => (Err (EIo k), out)
      | Panic => (Panic, out)
      end
  | CLeaf start size is_root rs :: rest =>
      match stack with
      | [] => (Panic, out)
      | expected :: stk =>
          match read_exact_at data (to_bytes start) size with
          | Ok buf =>
              let '(to_write, actual) :=
                if negb (r_is_all rs)
                then encode_selected_rec HO (REC_FUEL) start buf is_root rs (tbs t) true
                else (buf, hash_subtree HO start buf is_root) in
              if negb (bytes_eqb HO actual expected) then (Err (ELeafHashMismatch start), out)
              else encode_val_loop rest stk t data ob (out ++ to_write)
          | Err k => (Err (EIo k), out)
          | Panic => (Panic, out)
          end
      end
  end.
Definition encode_ranges_validated (data : bytes) (ob : outboard) (q : ranges) : res enc_err unit * bytes :=
  if r_is_empty q then (Ok tt, [])
  else
    let t := ob_tree ob in
    let q' := truncate_ranges q (tsize t) in
    encode_val_loop (pre_order_chunks_iter t q' 0) [ob_root ob] t data ob [].

(* ---------- copy (sync.rs:647-655) ---------- *)
Fixpoint copy_loop (nodes : list N) (from to : outboard) : res io_kind outboard :=
  match nodes with
  | [] => Ok to
  | n :: rest =>
      match load_sync HO from n with
      | Ok (Some (l, r)) =>
          match save HO to n l r with
          | Ok to' => copy_loop rest from to'
          | Err k => Err k
          | Panic => Panic
          end
      | Ok None => copy_loop rest from to
      | Err k => Err k
      | Panic => Panic
      end
  end.
Definition copy (from to : outboard) : res io_kind outboard :=
  copy_loop (pre_order_nodes_iter (ob_tree from)) from to.
(* PostOrderMemOutboard::flip / PreOrderMemOutboard::flip *)
Definition flip (ob : outboard) : res io_kind outboard :=
  let k' := match ob_k ob with PostMem => PreMem | PreMem => PostMem | k => k end in
  match copy ob (mkOb k' (ob_root ob) (ob_tree ob) (zeros HO (N.to_nat (outboard_size (ob_tree ob))))) with
  | Ok o => Ok o
  | _ => Panic
  end.

(* ---------- validators (sync.rs:657-906) ---------- *)
(* result: yielded ranges (start, end chunk) and an optional trailing io error; None in the option = panic *)
Definition vres := (list (N * N) * option (res io_kind unit))%type.  (* second: None = completed Ok *)

Definition yield_if_valid (data : bytes) (s e : N) (h : hash) (is_root : bool) : res io_kind (list (N * N)) :=
  match read_exact_at data s (e - s) with
  | Ok tmp =>
      let actual := hash_subtree HO (full_chunks s) tmp is_root in
      Ok (if bytes_eqb HO actual h then [(full_chunks s, chunks e)] else [])
  | Err k => Err k
  | Panic => Panic
  end.

(* with_data = true: valid_ranges, false: valid_outboard_ranges *)
Fixpoint validate_rec (fuel : nat) (with_data : bool) (t : tree) (filled : N) (ob : outboard) (data : bytes)
         (parent_hash : hash) (shifted_ : N) (is_root : bool) (rs : ranges)
  : list (N * N) * res io_kind unit :=
  match fuel with
  | O => ([], Panic)
  | S f =>
    if r_is_empty rs then ([], Ok tt)
    else
      let node := subtract_block_size shifted_ (tbs t) in
      let '(l, m, r) := leaf_byte_ranges3 t node in
      let yield s e h root :=
        if with_data then
          match yield_if_valid data s e h root with
          | Ok ys => (ys, Ok tt) | Err k => ([], Err k) | Panic => ([], Panic) end
        else ([(full_chunks s, chunks e)], Ok tt) in
      if negb (is_relevant_for_outboard t node) then yield l r parent_hash is_root
      else
        match load_sync HO ob node with
        | Err k => ([], Err k)
        | Panic => ([], Panic)
        | Ok None => ([], Ok tt)
        | Ok (Some (lh, rh)) =>
            let actual := parent_cv HO lh rh is_root in
            if negb (bytes_eqb HO actual parent_hash) then ([], Ok tt)
            else
              let '(l_rs, r_rs) := split rs node in
              if is_leaf shifted_ then
                let '(ys1, r1) := if negb (r_is_empty l_rs) then yield l m lh false else ([], Ok tt) in
                match r1 with
                | Ok _ =>
                    let '(ys2, r2) := if negb (r_is_empty r_rs) then yield m r rh false else ([], Ok tt) in
                    (ys1 ++ ys2, r2)
                | _ => (ys1, r1)
                end
              else
                match left_child shifted_ with
                | None => ([], Panic)
                | Some lc =>
                    let '(ys1, r1) := validate_rec f with_data t filled ob data lh lc false l_rs in
                    match r1 with
                    | Ok _ =>
                        match right_descendant shifted_ filled with
                        | None => (ys1, Panic)
                        | Some rc =>
                            let '(ys2, r2) := validate_rec f with_data t filled ob data rh rc false r_rs in
                            (ys1 ++ ys2, r2)
                        end
                    | _ => (ys1, r1)
                    end
                end
        end
  end.

Definition valid_ranges (ob : outboard) (data : bytes) (q : ranges) : list (N * N) * res io_kind unit :=
  let t := ob_tree ob in
  if blocks t =? 1 then
    match read_exact_at data 0 (tsize t) with
    | Ok tmp => ((if bytes_eqb HO (hash_subtree HO 0 tmp true) (ob_root ob) then [(0, tree_chunks t)] else []), Ok tt)
    | Err k => ([], Err k)
    | Panic => ([], Panic)
    end
  else
    let q' := truncate_ranges q (tsize t) in
    let '(root, filled) := shifted t in
    validate_rec 70 true t filled ob data (ob_root ob) root true q'.

Definition valid_outboard_ranges (ob : outboard) (q : ranges) : list (N * N) * res io_kind unit :=
  let t := ob_tree ob in
  if blocks t =? 1 then ([(0, tree_chunks t)], Ok tt)
  else
    let q' := truncate_ranges q (tsize t) in
    let '(root, filled) := shifted t in
    validate_rec 70 false t filled ob [] (ob_root ob) root true q'.

End Sync.
