(* src/rec.rs:99-162 encode_selected_rec and src/io/mixed.rs:223-301 traverse_selected_rec.
   Definitions only. *)
From BaoV Require Export Model.Hash.

Section Rec.
Variable HO : hops.
Notation bytes := (bytes HO).
Notation hash := (hash HO).

(* returns (bytes appended to res, hash) *)
Fixpoint encode_selected_rec (fuel : nat) (start_chunk : N) (d : bytes) (is_root : bool)
         (query : ranges) (min_level : N) (emit_data : bool) : bytes * hash :=
  match fuel with
  | O => ([], [])
  | S f =>
    let len := blen HO d in
    if len <=? 1024 then
      ((if emit_data && negb (r_is_empty query) then d else []), hash_subtree HO start_chunk d is_root)
    else
      let chunks0 := len / 1024 + b2n (negb (len mod 1024 =? 0)) in
      let chunks := next_pow2 chunks0 in
      let lvl := trailing_zeros64 chunks - 1 in
      let mid_ := chunks / 2 in
      let mid_bytes := mid_ * 1024 in
      let mid_chunk := start_chunk + mid_ in
      let '(l_rs, r_rs) := split_inner query start_chunk mid_chunk in
      let full := r_is_all query in
      let emit_parent := negb (r_is_empty query) && (negb full || (min_level <=? lvl)) in
      let '(lb, lh) := encode_selected_rec f start_chunk (take HO mid_bytes d) false l_rs min_level emit_data in
      let '(rb, rh) := encode_selected_rec f mid_chunk (drop HO mid_bytes d) false r_rs min_level emit_data in
      ((if emit_parent then lh ++ rh else []) ++ lb ++ rb, parent_cv HO lh rh is_root)
  end.

(* the item-stream twin: parents carry TreeNode(0) *)
Fixpoint traverse_selected_rec (fuel : nat) (start_chunk : N) (d : bytes) (is_root : bool)
         (query : ranges) (min_level : N) (emit_data : bool) : list (item HO) * hash :=
  match fuel with
  | O => ([], [])
  | S f =>
    let len := blen HO d in
    if len <=? 1024 then
      ((if emit_data && negb (r_is_empty query) then [ILeaf (to_bytes start_chunk) d] else []),
       hash_subtree HO start_chunk d is_root)
    else
      let chunks0 := len / 1024 + b2n (negb (len mod 1024 =? 0)) in
      let chunks := next_pow2 chunks0 in
      let lvl := trailing_zeros64 chunks - 1 in
      let mid_ := chunks / 2 in
      let mid_bytes := mid_ * 1024 in
      let mid_chunk := start_chunk + mid_ in
      let '(l_rs, r_rs) := split_inner query start_chunk mid_chunk in
      let full := r_is_all query in
      let emit_parent := negb (r_is_empty query) && (negb full || (min_level <=? lvl)) in
      let '(li, lh) := traverse_selected_rec f start_chunk (take HO mid_bytes d) false l_rs min_level emit_data in
      let '(ri, rh) := traverse_selected_rec f mid_chunk (drop HO mid_bytes d) false r_rs min_level emit_data in
      ((if emit_parent then [IParent 0 lh rh] else []) ++ li ++ ri, parent_cv HO lh rh is_root)
  end.

Definition REC_FUEL : nat := 64.
End Rec.
