(* Model of BaoTree geometry (src/lib.rs:264-543).  Definitions only. *)
From BaoV Require Export Model.Node.

Record tree := mkTree { tsize : N; tbs : N }.

(* blocks(size, block_size)  (src/lib.rs:536-543) *)
Definition blocks_raw (size bs : N) : N :=
  let bits := bs + 10 in
  let mask := N.shiftl 1 bits - 1 in
  N.shiftr size bits + b2n (negb (N.land size mask =? 0)).
Definition blocks (t : tree) : N := N.max (blocks_raw (tsize t) (tbs t)) 1.
Definition tree_chunks (t : tree) : N := chunks (tsize t).
Definition outboard_hash_pairs (t : tree) : N := blocks t - 1.
Definition outboard_size (t : tree) : N := outboard_hash_pairs t * 64.

(* shifted(): (root, filled_size) of the tree whose leaves are pairs of chunk groups *)
Definition shifted (t : tree) : N * N :=
  let blks := N.max (blocks_raw (tsize t) (tbs t)) 1 in
  let n := div_ceil2 blks in
  (next_pow2 n - 1, n + (n - 1)).

(* root(): does not consider block size *)
Definition tree_root (t : tree) : N :=
  node_root (N.max (blocks_raw (tsize t) 0) 1).

Definition byte_range (t : tree) (node : N) : N * N :=
  let '(s, e) := chunk_range node in
  (to_bytes s, N.min (to_bytes e) (tsize t)).

Definition leaf_byte_ranges3 (t : tree) (leaf : N) : N * N * N :=
  let '(s, e) := node_byte_range leaf in
  let m := to_bytes (mid leaf) in
  (s, N.min m (tsize t), N.min e (tsize t)).

Definition is_relevant_for_outboard (t : tree) (node : N) : bool :=
  let l := level node in
  if l <? tbs t then false
  else if tbs t <? l then true
  else to_bytes (mid node) <? tsize t.

(* test-only in Rust, used by specs *)
Definition is_persisted (t : tree) (node : N) : bool :=
  negb (level node =? tbs t) || (to_bytes (mid node) <? tsize t).

Definition pre_order_offset (t : tree) (node : N) : option N :=
  match add_block_size node (tbs t) with
  | None => None
  | Some sh =>
    let is_half_leaf := is_leaf sh && (tsize t <=? to_bytes (mid node)) in
    if is_half_leaf then None
    else Some (pre_order_offset_loop sh (snd (shifted t)))
  end.

Inductive post_offset := Stable (n : N) | Unstable (n : N).
Definition po_value (o : post_offset) : N := match o with Stable n | Unstable n => n end.

Definition post_order_offset (t : tree) (node : N) : option post_offset :=
  match add_block_size node (tbs t) with
  | None => None
  | Some sh =>
    if snd (node_byte_range node) <=? tsize t then Some (Stable (post_order_offset_node sh))
    else if is_leaf sh && (tsize t <=? to_bytes (mid node)) then None
    else
      let pairs := outboard_hash_pairs t in
      let k := right_count node + 1 in
      if pairs <? k then None else Some (Unstable (pairs - k))
  end.

Definition chunk_group_chunks (t : tree) : N := N.shiftl 1 (tbs t).
Definition chunk_group_bytes (t : tree) : N := to_bytes (chunk_group_chunks t).
