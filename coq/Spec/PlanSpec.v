(* Recursive specifications of the chunk plans (no stacks, no node ids beyond naming the parent):
   the tree over chunk groups [a, a+n) splits at the largest power of two below n.
   Definitions only. *)
From BaoV Require Export Model.Iter Spec.RangeSpec Spec.NodeSpec.

(* byte size of chunks [a, b) of a blob of `size` bytes *)
Definition span_bytes (size a b : N) : N := N.min (b * 1024) size - N.min (a * 1024) size.

(* ---- post-order plan of the whole tree (PostOrderChunkIter) ----
   g = chunks per group; the subtree over groups [ga, ga+n) (n >= 1) *)
Fixpoint post_plan_rec (fuel : nat) (size bs ga n : N) (is_root : bool) : list chunk :=
  match fuel with
  | O => []
  | S f =>
    let g := 2 ^ bs in
    if n =? 1 then [CLeaf (ga * g) (span_bytes size (ga * g) ((ga + 1) * g)) is_root []]
    else if n =? 2 then
      [CLeaf (ga * g) (span_bytes size (ga * g) ((ga + 1) * g)) false [];
       CLeaf ((ga + 1) * g) (span_bytes size ((ga + 1) * g) ((ga + 2) * g)) false [];
       CParent (unshift bs ga) is_root true true []]
    else
      let half := next_pow2 n / 2 in
      post_plan_rec f size bs ga half false ++ post_plan_rec f size bs (ga + half) (n - half) false
      ++ [CParent (unshift bs (ga + half - 1)) is_root true true []]
  end.
Definition post_plan (size bs : N) : list chunk :=
  post_plan_rec 65 size bs 0 (sp_blocks size bs) true.

(* ---- pre-order partial plan (PreOrderPartialChunkIterRef) ----
   The query reaching a node is summarised by two predicates on chunk intervals, exactly the ones the
   code evaluates through is_empty()/is_all() (DESIGN section 5, C15):
     any q a e rm  : some chunk of [a,e) is in q      (right-most nodes: of [a, infinity))
     full q a e rm : every chunk of [a,e) is in q     (right-most nodes: of [a, infinity)) *)
Definition q_any (q : ranges) (a e : N) (rightmost : bool) : bool :=
  if rightmost then reaches q a
  else negb (r_is_empty (filter (fun b => (a <? b) && (b <? e)) q)) || mem q a.
(* every chunk >= a is a member: no boundary after a, and a is a member *)
Definition q_full (q : ranges) (a e : N) (rightmost : bool) : bool :=
  mem q a &&
  (if rightmost then r_is_empty (filter (fun b => a <? b) q)
   else r_is_empty (filter (fun b => (a <? b) && (b <? e)) q)).

(* node over groups [ga, ga + cap) of which n are inside the blob (cap = capacity, power of two >= 2) *)
Fixpoint pre_plan_rec (fuel : nat) (size bs min_level : N) (q : ranges) (ga n : N) (is_root rightmost : bool) : list chunk :=
  match fuel with
  | O => []
  | S f =>
    let g := 2 ^ bs in
    let cap := if n <=? 2 then 2 else next_pow2 n in
    let a := ga * g in                      (* first chunk *)
    let e := (ga + cap) * g in              (* unclipped end chunk *)
    let lvl := N.log2 (cap * g) - 1 in      (* level of the node in block-size-0 numbering *)
    if negb (q_any q a e rightmost) then []
    else if q_full q a e rightmost && (lvl <? min_level) then
      [CLeaf a (span_bytes size a e) is_root []]
    else if cap =? 2 then
      let m := (ga + 1) * g in
      if size <=? m * 1024 then [CLeaf a (span_bytes size a e) is_root []]
      else
        let l := q_any q a m false in
        let r := q_any q m e rightmost in
        [CParent (unshift bs ga) is_root l r []]
        ++ (if l then [CLeaf a (span_bytes size a m) false []] else [])
        ++ (if r then [CLeaf m (span_bytes size m e) false []] else [])
    else
      let half := cap / 2 in
      let m := (ga + half) * g in
      let l := q_any q a m false in
      let r := q_any q m e rightmost in
      [CParent (unshift bs (ga + half - 1)) is_root l r []]
      ++ pre_plan_rec f size bs min_level q ga half false false
      ++ pre_plan_rec f size bs min_level q (ga + half) (n - half) false rightmost
  end.
Definition pre_plan (size bs min_level : N) (q : ranges) : list chunk :=
  pre_plan_rec 65 size bs min_level q 0 (sp_blocks size bs) true true.
