(* Semantics of boundary lists and the selection predicate.  Definitions only. *)
From BaoV Require Export Model.Ranges.

(* well-formed boundary list: strictly increasing, every entry a u64 *)
Fixpoint strictly_sorted (l : list N) : bool :=
  match l with
  | [] => true
  | x :: t => match t with [] => true | y :: _ => (x <? y) && strictly_sorted t end
  end.
Definition wf_ranges (r : ranges) : bool := strictly_sorted r && forallb (fun x => x <? W64) r.

(* membership: x is in the set iff an odd number of boundaries are <= x *)
Fixpoint mem (r : ranges) (x : N) : bool :=
  match r with
  | [] => false
  | b :: t => if b <=? x then negb (mem t x) else false
  end.

(* the set has a member >= n  (open-ended, or the last range ends after n) *)
Definition reaches (r : ranges) (n : N) : bool :=
  if Nat.odd (length r) then true else n <? last r 0.

(* chunks of a blob of `size` bytes: at least one (the empty blob has one empty chunk) *)
Definition nchunks (size : N) : N := N.max 1 (chunks size).

(* selected chunks: queried chunks inside the blob, plus the last chunk when the query reaches past the end *)
Definition sel (q : ranges) (size : N) (c : N) : bool :=
  (c <? nchunks size) && (mem q c || ((c =? nchunks size - 1) && reaches q (nchunks size))).

(* chunk c lies in the chunk group of c' *)
Definition same_group (bs c c' : N) : bool := c / 2 ^ bs =? c' / 2 ^ bs.
