(* The simple specifications the geometry model is compared with and proved against:
   (level, index) arithmetic for nodes  (x + 1 = (2k+1) * 2^level), and the recursive
   left-full tree shape over chunk groups with its pre/post-order listings.
   No bit tricks here.  Definitions only. *)
From BaoV Require Export Base.U64.

(* ---- nodes ---- *)
Definition sp_level (x : N) : N := trailing_zeros64 (x + 1).   (* x+1 > 0 *)
Definition sp_index (x : N) : N := (x + 1) / 2 ^ (sp_level x + 1).
Definition sp_node (l k : N) : N := (2 * k + 1) * 2 ^ l - 1.
Definition sp_left (x : N) : N := sp_node (sp_level x - 1) (2 * sp_index x).
Definition sp_right (x : N) : N := sp_node (sp_level x - 1) (2 * sp_index x + 1).
Definition sp_parent (x : N) : N := sp_node (sp_level x + 1) (sp_index x / 2).
Definition sp_node_start (x : N) : N := 2 * sp_index x * 2 ^ sp_level x.          (* first node id of the subtree *)
Definition sp_chunk_start (x : N) : N := 2 * sp_index x * 2 ^ sp_level x.
Definition sp_chunk_end (x : N) : N := (2 * sp_index x + 2) * 2 ^ sp_level x.
(* position in the post-order enumeration of any complete tree containing x:
   every node left of the subtree except the left ancestors, then the nodes below *)
Definition sp_post_offset (x : N) : N :=
  sp_node_start x - popcount (sp_index x) + (2 ^ (sp_level x + 1) - 2).
(* nearest ancestor that has x in its right subtree: clear the lowest set bit of the index *)
Definition sp_next_left_ancestor (x : N) : option N :=
  let k := sp_index x in
  if k =? 0 then None
  else let tz := trailing_zeros64 k in
       Some (sp_node (sp_level x + tz + 1) (k / 2 ^ (tz + 1))).

(* explicit enumerations of the complete tree of height h whose first node id is off *)
Fixpoint complete_post (h : nat) (off : N) : list N :=
  match h with
  | O => [off]
  | S h' => complete_post h' off ++ complete_post h' (off + 2 ^ N.of_nat h) ++ [off + 2 ^ N.of_nat h - 1]
  end.
Fixpoint complete_pre (h : nat) (off : N) : list N :=
  match h with
  | O => [off]
  | S h' => (off + 2 ^ N.of_nat h - 1) :: complete_pre h' off ++ complete_pre h' (off + 2 ^ N.of_nat h)
  end.

(* ---- trees ---- *)
Definition sp_chunks (size : N) : N := (size + 1023) / 1024.
Definition sp_blocks (size bs : N) : N := N.max 1 ((size + 1024 * 2 ^ bs - 1) / (1024 * 2 ^ bs)).

(* Shape: the tree over n >= 1 consecutive chunk groups starting at group a (a even).
   n <= 2: one leaf (shifted id a).  Otherwise the left subtree is the complete tree over the
   largest power of two < n groups.  Ids are in the shifted numbering (leaves = pairs of groups). *)
Fixpoint sh_pre (fuel : nat) (a n : N) : list N :=
  match fuel with
  | O => []
  | S f => if n <=? 2 then [a]
           else let half := next_pow2 n / 2 in
                (a + half - 1) :: sh_pre f a half ++ sh_pre f (a + half) (n - half)
  end.
Fixpoint sh_post (fuel : nat) (a n : N) : list N :=
  match fuel with
  | O => []
  | S f => if n <=? 2 then [a]
           else let half := next_pow2 n / 2 in
                sh_post f a half ++ sh_post f (a + half) (n - half) ++ [a + half - 1]
  end.
Definition unshift (bs s : N) : N := (s + 1) * 2 ^ bs - 1.
Definition sp_pre_nodes (size bs : N) : list N := map (unshift bs) (sh_pre 65 0 (sp_blocks size bs)).
Definition sp_post_nodes (size bs : N) : list N := map (unshift bs) (sh_post 65 0 (sp_blocks size bs)).

(* a node of the listing stores a pair unless it is the last leaf with only its left group inside *)
Definition sp_persisted (size bs nd : N) : bool :=
  (bs <? sp_level nd) || ((bs =? sp_level nd) && ((nd + 1) * 1024 <? size)).
Definition sp_subtree_inside (size nd : N) : bool := sp_chunk_end nd * 1024 <=? size.
Definition sp_in_tree (size bs nd : N) : bool :=
  (bs <=? sp_level nd) &&
  (let s := (nd + 1) / 2 ^ bs - 1 in
   let leaves := (sp_blocks size bs + 1) / 2 in
   s <? 2 * leaves - 1).
Definition sp_stable_count (size bs : N) : N :=
  N.of_nat (length (filter (fun nd => sp_persisted size bs nd && sp_subtree_inside size nd) (sp_pre_nodes size bs))).

Fixpoint sp_index_of_from (x : N) (l : list N) (i : nat) : option nat :=
  match l with
  | [] => None
  | y :: t => if x =? y then Some i else sp_index_of_from x t (S i)
  end.
Definition sp_index_of (x : N) (l : list N) : option nat := sp_index_of_from x l 0.

(* position of shifted node s in the pre / post listing of Shape(a, n), by descent *)
Fixpoint sh_pre_pos (fuel : nat) (a n s : N) : N :=
  match fuel with
  | O => 0
  | S f => if n <=? 2 then 0
           else let half := next_pow2 n / 2 in
                let r := a + half - 1 in
                if s =? r then 0
                else if s <? r then 1 + sh_pre_pos f a half s
                else 1 + (half - 1) + sh_pre_pos f (a + half) (n - half) s
  end.
Fixpoint sh_post_pos (fuel : nat) (a n s : N) : N :=
  match fuel with
  | O => 0
  | S f => if n <=? 2 then 0
           else let half := next_pow2 n / 2 in
                let r := a + half - 1 in
                if s =? r then n - 2
                else if s <? r then sh_post_pos f a half s
                else (half - 1) + sh_post_pos f (a + half) (n - half) s
  end.
Definition sp_pre_offset (size bs nd : N) : N :=
  sh_pre_pos 65 0 (sp_blocks size bs) ((nd + 1) / 2 ^ bs - 1).
Definition sp_post_offset_tree (size bs nd : N) : N :=
  sh_post_pos 65 0 (sp_blocks size bs) ((nd + 1) / 2 ^ bs - 1).
