(* The plan tree of a blob, block size and selection: the single object whose three projections are the
   decoder's plan, the honest encoding and the root value (Spec/PTree.v).  Mirrors enc_rec of
   Spec/EncSpec.v.  Definitions only. *)
From BaoV Require Export Spec.PTree Spec.EncSpec.

Section SpecTree.
Variable HO : hops.
Notation bytes := (bytes HO).

Fixpoint st_rec (fuel : nat) (data : bytes) (bs : N) (Sel : N -> bool) (a b : N) (is_root : bool) : ptree HO :=
  match fuel with
  | O => PSkip
  | S f =>
    if negb (existsb Sel (chunk_range_list a b)) then PSkip
    else if b - a <=? 1 then PLeaf a is_root (chunk_bytes HO data a b)
    else
      let cap := next_pow2 (b - a) in
      let half := cap / 2 in
      if forallb Sel (chunk_range_list a b) && (cap <=? 2 ^ bs) then PLeaf a is_root (chunk_bytes HO data a b)
      else PNode (a + half - 1) is_root (cv HO data a (a + half) false) (cv HO data (a + half) b false)
                 (st_rec f data bs Sel a (a + half) false) (st_rec f data bs Sel (a + half) b false)
  end.
Definition spec_tree (data : bytes) (bs : N) (q : ranges) : ptree HO :=
  st_rec 64 data bs (sel q (blen HO data)) 0 (blob_chunks HO data) true.
End SpecTree.
