(* Recursive specifications of the hash tree objects: honest encoding of a selection, outboards,
   stored pairs.  Recursion over chunk intervals [a, b) of the blob that split at the largest power
   of two below b - a; no iterators, no stacks, no node arithmetic beyond naming a parent.
   Definitions only. *)
From BaoV Require Export Model.Hash Spec.RangeSpec Spec.NodeSpec.

Section EncSpec.
Variable HO : hops.
Notation bytes := (bytes HO).
Notation hash := (hash HO).
Notation item := (item HO).

(* bytes of chunks [a, b) *)
Definition chunk_bytes (data : bytes) (a b : N) : bytes := slice HO (a * 1024) ((b - a) * 1024) data.

(* chaining value of the subtree over chunks [a, b): the BLAKE3 tree hash recursion *)
Fixpoint cv_rec (fuel : nat) (data : bytes) (a b : N) (is_root : bool) : hash :=
  match fuel with
  | O => []
  | S f =>
    if b - a <=? 1 then chunk_cv HO a (chunk_bytes data a b) is_root
    else let half := next_pow2 (b - a) / 2 in
         parent_cv HO (cv_rec f data a (a + half) false) (cv_rec f data (a + half) b false) is_root
  end.
Definition cv (data : bytes) (a b : N) (is_root : bool) : hash := cv_rec 64 data a b is_root.
Definition blob_chunks (data : bytes) : N := nchunks (blen HO data).
Definition root_hash (data : bytes) : hash := cv data 0 (blob_chunks data) true.

Definition chunk_range_list (a b : N) : list N := map (fun i => a + N.of_nat i) (seq 0 (N.to_nat (b - a))).

(* honest encoding of the chunks selected by Sel: pre-order; a fully selected subtree of at most one
   chunk group (capacity <= 2^bs chunks) is sent as one leaf without inner pairs *)
Fixpoint enc_rec (fuel : nat) (data : bytes) (bs : N) (Sel : N -> bool) (a b : N) : list item :=
  match fuel with
  | O => []
  | S f =>
    if negb (existsb Sel (chunk_range_list a b)) then []
    else if b - a <=? 1 then [ILeaf (a * 1024) (chunk_bytes data a b)]
    else
      let cap := next_pow2 (b - a) in
      let half := cap / 2 in
      if forallb Sel (chunk_range_list a b) && (cap <=? 2 ^ bs) then [ILeaf (a * 1024) (chunk_bytes data a b)]
      else IParent (a + half - 1) (cv data a (a + half) false) (cv data (a + half) b false)
           :: enc_rec f data bs Sel a (a + half) ++ enc_rec f data bs Sel (a + half) b
  end.
Definition enc_spec (data : bytes) (bs : N) (Sel : N -> bool) : list item :=
  enc_rec 64 data bs Sel 0 (blob_chunks data).
Definition flat (l : list item) : bytes := concat (map (item_bytes HO) l).
Definition honest (data : bytes) (bs : N) (q : ranges) : list item :=
  enc_spec data bs (sel q (blen HO data)).

(* outboards: the pairs of every subtree over more than one chunk group, in pre / post order *)
Fixpoint ob_rec (fuel : nat) (post : bool) (data : bytes) (g n ga k : N) : bytes :=
  match fuel with
  | O => []
  | S f =>
    if k <=? 1 then []
    else
      let half := next_pow2 k / 2 in
      let a := ga * g in let m := (ga + half) * g in let e := N.min ((ga + k) * g) n in
      let pair := cv data a m false ++ cv data m e false in
      if post then ob_rec f post data g n ga half ++ ob_rec f post data g n (ga + half) (k - half) ++ pair
      else pair ++ ob_rec f post data g n ga half ++ ob_rec f post data g n (ga + half) (k - half)
  end.
Definition spec_outboard (post : bool) (data : bytes) (bs : N) : bytes :=
  let g := 2 ^ bs in
  let n := blob_chunks data in
  ob_rec 64 post data g n 0 ((n + g - 1) / g).

(* the true pair of a (block-size-0 numbered) node of the blob's tree *)
Definition true_pair (data : bytes) (node : N) : hash * hash :=
  let n := blob_chunks data in
  (cv data (sp_chunk_start node) (node + 1) false, cv data (node + 1) (N.min (sp_chunk_end node) n) false).

End EncSpec.
