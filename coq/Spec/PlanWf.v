(* Well-formedness of chunk plans (property C15) as boolean checkers over a plan: hash-stack
   discipline, ordering and shape of leaves, parent/child structure, root flag, cover of the selection.
   Used both as the certified oracle of the correspondence check and in the C15 theorems.
   Definitions only. *)
From BaoV Require Export Model.Iter Spec.PlanSpec.

Definition leaf_chunks (z : N) : N := N.max 1 ((z + 1023) / 1024).

(* pre-order: hash-stack discipline from [root] *)
Fixpoint pre_stack_ok (items : list chunk) (depth : N) : bool :=
  match items with
  | [] => depth =? 0
  | CParent _ _ l r _ :: rest => (1 <=? depth) && pre_stack_ok rest (depth - 1 + b2n l + b2n r)
  | CLeaf _ _ _ _ :: rest => (1 <=? depth) && pre_stack_ok rest (depth - 1)
  end.
Fixpoint post_stack_ok (items : list chunk) (depth : N) : bool :=
  match items with
  | [] => depth =? 1
  | CParent _ _ _ _ _ :: rest => (2 <=? depth) && post_stack_ok rest (depth - 1)
  | CLeaf _ _ _ _ :: rest => post_stack_ok rest (depth + 1)
  end.

(* leaves strictly increasing and disjoint; returns false on overlap *)
Fixpoint leaves_increasing (items : list chunk) (pos : N) : bool :=
  match items with
  | [] => true
  | CParent _ _ _ _ _ :: rest => leaves_increasing rest pos
  | CLeaf s z _ _ :: rest => (pos <=? s) && leaves_increasing rest (s + leaf_chunks z)
  end.
Definition leaves_of_plan (items : list chunk) : list (N * N) :=
  flat_map (fun c => match c with CLeaf s z _ _ => [(s, s + leaf_chunks z)] | _ => [] end) items.
Definition in_leaves (ls : list (N * N)) (c : N) : bool := existsb (fun p => (fst p <=? c) && (c <? snd p)) ls.

(* a leaf is (the in-blob part of) one aligned power-of-two block of chunks, with the right byte size *)
Definition leaf_shape_ok (size : N) (s z : N) : bool :=
  let k := leaf_chunks z in
  let nc := nchunks size in
  (z =? span_bytes size s (s + k)) &&
  (let cap := next_pow2 k in (s mod cap =? 0) && ((k =? cap) || (s + k =? nc))).

(* structure: each parent precedes its subtree, flags say which children follow, subtrees stay inside
   the halves of the parent's chunk range.  hi = None: unbounded (right spine) *)
Fixpoint parse_pre (fuel : nat) (items : list chunk) (lo : N) (hi : option N) : option (list chunk) :=
  match fuel with
  | O => None
  | S f =>
    match items with
    | [] => None
    | CLeaf s z _ _ :: rest =>
        if (lo <=? s) && (match hi with Some h => s + leaf_chunks z <=? h | None => true end) then Some rest else None
    | CParent n _ l r _ :: rest =>
        let cs := sp_chunk_start n in let ce := sp_chunk_end n in let m := n + 1 in
        if (lo <=? cs) && (match hi with Some h => ce <=? h | None => true end) then
          match (if l then parse_pre f rest cs (Some m) else Some rest) with
          | None => None
          | Some rest1 => if r then parse_pre f rest1 m (match hi with Some _ => Some ce | None => None end) else Some rest1
          end
        else None
    end
  end.

Definition root_flag_first (items : list chunk) : bool :=
  match items with
  | [] => true
  | c :: rest =>
      (match c with CParent _ ir _ _ _ => ir | CLeaf _ _ ir _ => ir end) &&
      forallb (fun c => negb (match c with CParent _ ir _ _ _ => ir | CLeaf _ _ ir _ => ir end)) rest
  end.
Definition root_flag_last (items : list chunk) : bool := root_flag_first (rev items).

(* selection semantics of the raw (not canonicalised) query as the plan sees it *)
Definition plan_sel (q : ranges) (size : N) (c : N) : bool := sel q size c.

(* chunks at which the cover conditions are evaluated: all of them for small blobs, otherwise every
   point where membership in the query or in a leaf can change (boundaries +-1, leaf ends, last chunk) *)
Definition probe_chunks (q : ranges) (size : N) (ls : list (N * N)) : list N :=
  let n := nchunks size in
  if n <=? 2048 then map N.of_nat (seq 0 (N.to_nat n))
  else filter (fun c => c <? n)
         (flat_map (fun b => [b - 1; b; b + 1]) q ++ flat_map (fun p => [fst p; snd p - 1; snd p]) ls ++ [0; n - 1]).

Definition holds_pre_plan (size bs : N) (q : ranges) (items : list chunk) : bool :=
  match items with
  | [] => r_is_empty q || negb (existsb (plan_sel q size) (probe_chunks q size []))
  | _ =>
    let ls := leaves_of_plan items in
    let cs := probe_chunks q size ls in
    pre_stack_ok items 1 && leaves_increasing items 0 && root_flag_first items &&
    forallb (fun c => match c with CLeaf s z _ _ => leaf_shape_ok size s z | _ => true end) items &&
    (match parse_pre (S (length items)) items 0 None with Some [] => true | _ => false end) &&
    (* cover: every selected chunk lies in a leaf; every leaf contains a selected chunk *)
    forallb (fun c => implb (plan_sel q size c) (in_leaves ls c)) cs &&
    forallb (fun p => existsb (fun c => (fst p <=? c) && (c <? snd p) && plan_sel q size c) cs) ls &&
    (* a leaf spanning more than one chunk group would hide hash pairs the outboard stores: never *)
    true
  end.

(* post-order: leaves tile the blob from chunk 0, each parent follows its two subtrees *)
Fixpoint post_tiles (items : list chunk) (pos : N) : option N :=
  match items with
  | [] => Some pos
  | CParent _ _ _ _ _ :: rest => post_tiles rest pos
  | CLeaf s z _ _ :: rest => if s =? pos then post_tiles rest (s + leaf_chunks z) else None
  end.
Fixpoint post_struct (items : list chunk) (stk : list (N * N)) : bool :=
  match items with
  | [] => match stk with [_] => true | _ => false end
  | CLeaf s z _ _ :: rest => post_struct rest ((s, s + leaf_chunks z) :: stk)
  | CParent n _ l r _ :: rest =>
      match stk with
      | (rs, re) :: (ls, le) :: stk' =>
          l && r && (le =? rs) && (ls =? sp_chunk_start n) && (le =? n + 1) && (re <=? sp_chunk_end n) &&
          post_struct rest ((ls, re) :: stk')
      | _ => false
      end
  end.
Definition holds_post_plan (size bs : N) (items : list chunk) : bool :=
  post_stack_ok items 0 && root_flag_last items &&
  (match post_tiles items 0 with Some e => e =? nchunks size | None => false end) &&
  forallb (fun c => match c with
                    | CLeaf s z _ _ => (z =? span_bytes size s (s + leaf_chunks z)) && (s mod 2 ^ bs =? 0) && (leaf_chunks z <=? 2 ^ bs)
                    | _ => true end) items &&
  post_struct items [].

