(* Plan trees: the part of the blob's hash tree that an encoding of a selection walks, with the
   hashes and bytes it carries.  A decoder's plan, the honest items and the expected root value are
   three projections of one plan tree; soundness / completeness of decoders and encoders are stated
   and proved over arbitrary consistent plan trees, and the geometry (which plan tree belongs to a
   blob, block size and query) is connected separately.  Definitions only. *)
From BaoV Require Export Model.Iter Model.Hash.

Section PTree.
Variable HO : hops.
Notation bytes := (bytes HO).
Notation hash := (hash HO).
Notation item := (item HO).

Inductive ptree :=
| PSkip                                                    (* a child the plan does not descend into *)
| PLeaf (start_chunk : N) (is_root : bool) (d : bytes)     (* a leaf item: the bytes of a run of chunks *)
| PNode (node : N) (is_root : bool) (lh rh : hash) (l r : ptree).  (* a parent item: its pair and children *)

Definition is_skip (t : ptree) : bool := match t with PSkip => true | _ => false end.

Fixpoint plan_of (t : ptree) : list chunk :=
  match t with
  | PSkip => []
  | PLeaf s ir d => [CLeaf s (blen HO d) ir []]
  | PNode n ir _ _ l r => CParent n ir (negb (is_skip l)) (negb (is_skip r)) [] :: plan_of l ++ plan_of r
  end.
Fixpoint items_of (t : ptree) : list item :=
  match t with
  | PSkip => []
  | PLeaf s _ d => [ILeaf (to_bytes s) d]
  | PNode n _ lh rh l r => IParent n lh rh :: items_of l ++ items_of r
  end.
(* the value owed for the subtree *)
Definition cv_of (t : ptree) : hash :=
  match t with
  | PSkip => []
  | PLeaf s ir d => hash_subtree HO s d ir
  | PNode _ ir lh rh _ _ => parent_cv HO lh rh ir
  end.
(* the pair of a node consists of the values of its children (where the plan descends) *)
Fixpoint consistent (t : ptree) : Prop :=
  match t with
  | PSkip => True
  | PLeaf _ _ _ => True
  | PNode _ _ lh rh l r =>
      length lh = 32%nat /\ length rh = 32%nat /\
      (is_skip l = false -> cv_of l = lh) /\ (is_skip r = false -> cv_of r = rh) /\
      consistent l /\ consistent r
  end.
Definition flat_items (l : list item) : bytes := concat (map (item_bytes HO) l).
End PTree.
Arguments PSkip {HO}. Arguments PLeaf {HO}. Arguments PNode {HO}.
