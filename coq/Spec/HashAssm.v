(* The assumptions on the hash functions under which the security theorems are stated.
   They are hypotheses of theorems (never axioms): collision-freeness of the chunk / parent chaining
   values across both domains, 32-byte outputs, and a correct byte equality test.  Definitions only. *)
From BaoV Require Export Model.Hash.

Section HashAssm.
Variable HO : hops.
Notation bytes := (bytes HO).
Notation hash := (hash HO).

Inductive hash_input :=
| InChunk (counter : N) (d : bytes) (root : bool)
| InParent (l r : hash) (root : bool).

Definition cv_in (i : hash_input) : hash :=
  match i with
  | InChunk c d f => chunk_cv HO c d f
  | InParent l r f => parent_cv HO l r f
  end.

(* inputs the protocol ever hashes: chunks of at most 1024 bytes, pairs of 32-byte values *)
Definition valid_input (i : hash_input) : Prop :=
  match i with
  | InChunk _ d _ => (length d <= 1024)%nat
  | InParent l r _ => length l = 32%nat /\ length r = 32%nat
  end.

(* no two distinct valid inputs have the same chaining value (a counterexample is a BLAKE3 collision,
   chunk/parent cross-domain collisions included) *)
Definition cv_injective : Prop :=
  forall i j, valid_input i -> valid_input j -> cv_in i = cv_in j -> i = j.
Definition cv_len32 : Prop := forall i, valid_input i -> length (cv_in i) = 32%nat.
Definition beq_correct : Prop := forall a b : B HO, beq HO a b = true <-> a = b.

Record hash_ok : Prop := mkHashOk { ho_inj : cv_injective; ho_len : cv_len32; ho_beq : beq_correct }.
End HashAssm.
