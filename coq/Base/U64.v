(* Word-level helpers over unbounded N.  Definitions only. *)
From Coq Require Export NArith List Bool.
Export ListNotations.
Open Scope N_scope.

Definition W64 : N := 18446744073709551616. (* 2^64 *)
Definition MAX64 : N := 18446744073709551615.

Definition wrap64 (x : N) : N := x mod W64.
(* !x on u64 *)
Definition not64 (x : N) : N := MAX64 - (x mod W64).
(* x << n on u64: bits shifted out are lost, never checked by Rust *)
Definition shl64 (x n : N) : N := (N.shiftl x n) mod W64.
Definition shr64 (x n : N) : N := N.shiftr x n.
(* -(x as i64) as u64 *)
Definition neg64 (x : N) : N := (W64 - (x mod W64)) mod W64.

(* trailing ones / zeros, popcount on the binary representation *)
Fixpoint pos_trailing_ones (p : positive) : N :=
  match p with
  | xI q => N.succ (pos_trailing_ones q)
  | xH => 1
  | xO _ => 0
  end.
Definition trailing_ones (x : N) : N :=
  match x with N0 => 0 | Npos p => pos_trailing_ones p end.

Fixpoint pos_trailing_zeros (p : positive) : N :=
  match p with
  | xO q => N.succ (pos_trailing_zeros q)
  | _ => 0
  end.
(* u64::trailing_zeros: 64 for 0 *)
Definition trailing_zeros64 (x : N) : N :=
  match x with N0 => 64 | Npos p => pos_trailing_zeros p end.

Fixpoint pos_popcount (p : positive) : N :=
  match p with
  | xI q => N.succ (pos_popcount q)
  | xO q => pos_popcount q
  | xH => 1
  end.
Definition popcount (x : N) : N :=
  match x with N0 => 0 | Npos p => pos_popcount p end.

(* u64::next_power_of_two for x <= 2^63 (0 -> 1) *)
Definition next_pow2 (x : N) : N :=
  match x with
  | 0 => 1
  | _ => if x =? 2 ^ (N.log2 x) then x else 2 ^ (N.succ (N.log2 x))
  end.

(* div_ceil(2) *)
Definition div_ceil2 (x : N) : N := (x + 1) / 2.

Definition b2n (b : bool) : N := if b then 1 else 0.

(* option monad *)
Definition obind {A B} (o : option A) (f : A -> option B) : option B :=
  match o with Some a => f a | None => None end.
Notation "'do' x <- o ; k" := (obind o (fun x => k)) (at level 200, x pattern, o at level 100, k at level 200).
