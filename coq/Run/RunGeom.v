(* Case evaluators for the geometry families (harness/src/geom.rs). *)
From BaoV Require Export Run.RunBase Model.Iter Spec.NodeSpec.

(* ---- family node: args [x; n] ---- *)
Definition child_obs (c : option N) : list N :=
  match c with
  | None => [0; 0; 0; 0]
  | Some c => [eopt (parent c); level c; fst (chunk_range c); snd (chunk_range c)]
  end.

Definition run_node (a : list N) : list N :=
  let x := arg a 0 in let n := arg a 1 in
  [ level x; b2n (is_leaf x); mid x; subtract_block_size x n; eopt (add_block_size x n);
    count_below x; eopt (next_left_ancestor x); eopt (left_child x); eopt (right_child x);
    eopt (parent x); fst (node_range x); snd (node_range x); fst (chunk_range x); snd (chunk_range x);
    right_count x; post_order_offset_node x; fst (post_order_range x); snd (post_order_range x) ]
  ++ child_obs (left_child x) ++ child_obs (right_child x)
  ++ [ eopt (obind (Some (subtract_block_size x n)) (fun y => add_block_size y n)) ].

(* C18 as a checker over the observed outputs alone (spec side: Spec/NodeSpec.v) *)
Definition holds_node (a o : list N) : bool :=
  let x := arg a 0 in let n := arg a 1 in
  let g := arg o in
  let l := g 0%nat in
  let k := sp_index x in
  (* level: x+1 = (2k+1) 2^l *)
  (x + 1 =? (2 * k + 1) * 2 ^ l) && (l =? sp_level x) &&
  (g 1%nat =? b2n (l =? 0)) && (g 2%nat =? x + 1) &&
  (* children: one level lower, have x as parent, ranges partition x's range *)
  (if l =? 0 then (g 7%nat =? 0) && (g 8%nat =? 0)
   else
     let lc := g 7%nat - 1 in let rc := g 8%nat - 1 in
     (g 7%nat =? sp_left x + 1) && (g 8%nat =? sp_right x + 1) &&
     (g 18%nat =? x + 1) && (g 22%nat =? x + 1) &&
     (g 19%nat =? l - 1) && (g 23%nat =? l - 1) &&
     (g 20%nat =? g 12%nat) && (g 21%nat =? g 24%nat) && (g 25%nat =? g 13%nat) && (g 21%nat =? x + 1)) &&
  (* ranges and counts agree with the explicit (level, index) forms *)
  (g 10%nat =? sp_node_start x) && (g 11%nat =? sp_node_start x + 2 ^ (l + 1) - 1) &&
  (g 12%nat =? 2 * k * 2 ^ l) && (g 13%nat =? (2 * k + 2) * 2 ^ l) &&
  (g 5%nat =? 2 ^ (l + 1) - 2) &&
  (g 15%nat =? sp_post_offset x) &&
  (g 16%nat =? sp_post_offset x - (2 ^ (l + 1) - 2)) && (g 17%nat =? sp_post_offset x + 1) &&
  (g 14%nat =? popcount k) &&
  (g 6%nat =? eopt (sp_next_left_ancestor x)) &&
  (g 9%nat =? (if l =? 63 then 0 else sp_parent x + 1)) &&
  (* block size conversion: invertible exactly on nodes at or above the block level *)
  (* (subtract_block_size is only meaningful while (x+1) * 2^n fits: ids of trees up to 2^63 bytes) *)
  (if (x + 1) * 2 ^ n <=? 2 ^ 63 then
     (g 26%nat =? x + 1) && (sp_level (g 3%nat) =? l + n) && (sp_index (g 3%nat) =? k)
   else true) &&
  (if n <=? l then
     match dopt (g 4%nat) with
     | Some y => (g 4%nat =? x / 2 ^ n + 1) && (sp_level y =? l - n)
     | None => false
     end
   else g 4%nat =? 0).

(* ---- family restricted: args [x; len] ---- *)
Definition run_restricted (a : list N) : list N :=
  [ eopt (restricted_parent (arg a 0) (arg a 1)) ].
Definition holds_restricted (a o : list N) : bool :=
  let x := arg a 0 in let len := arg a 1 in
  match dopt (arg o 0) with
  | None => true
  | Some p => (p <? len) && (sp_level x <? sp_level p) &&
              (sp_node_start p <=? x) && (x <? sp_node_start p + 2 ^ (sp_level p + 1) - 1)
  end.

(* ---- family tree: args [size; bs] ---- *)
Definition epo (o : option post_offset) : list N :=
  match o with None => [0; 0] | Some (Stable v) => [1; v] | Some (Unstable v) => [2; v] end.

Definition run_tree (a : list N) : list N :=
  let t := mkTree (arg a 0) (arg a 1) in
  let pre := pre_order_nodes_iter t in
  let post := post_order_nodes_iter t in
  [ tree_root t; blocks t; tree_chunks t; outboard_size t; N.of_nat (length pre) ]
  ++ flat_map (fun n => [n; eopt (pre_order_offset t n)] ++ epo (post_order_offset t n)) pre
  ++ [ N.of_nat (length post) ] ++ post.

(* decode the observation layout *)
Fixpoint take4 (n : nat) (l : list N) : list (N * N * N * N) * list N :=
  match n with
  | O => ([], l)
  | S k => match l with
           | a :: b :: c :: d :: r => let '(xs, rest) := take4 k r in ((a, b, c, d) :: xs, rest)
           | _ => ([], [])
           end
  end.

Definition is_seq_from (l : list N) : bool :=
  list_eqb l (map N.of_nat (seq 0 (length l))).

(* C12 over observed outputs: persisted nodes get 0..n-1 in traversal order, others nothing;
   node lists equal the Shape listings; C13 stable iff subtree inside the blob, stable first *)
Definition holds_tree (a o : list N) : bool :=
  let size := arg a 0 in let bs := arg a 1 in
  let t := mkTree size bs in
  match o with
  | root :: blks :: chks :: obsize :: npre :: rest =>
    let '(pre4, rest1) := take4 (N.to_nat npre) rest in
    match rest1 with
    | npost :: post =>
      let pre_nodes := map (fun q => fst (fst (fst q))) pre4 in
      let nb := sp_blocks size bs in
      (blks =? nb) && (obsize =? (nb - 1) * 64) && (chks =? sp_chunks size) &&
      list_eqb pre_nodes (sp_pre_nodes size bs) &&
      list_eqb post (sp_post_nodes size bs) && (npost =? N.of_nat (length post)) &&
      (* pre-order offsets: persisted nodes in listing order get 0,1,2,... *)
      (let offs := flat_map (fun q => match q with (nd, po, _, _) =>
                      if sp_persisted size bs nd then [po] else [] end) pre4 in
       list_eqb offs (map (fun i => N.of_nat i + 1) (seq 0 (length offs))) &&
       (N.of_nat (length offs) =? nb - 1)) &&
      forallb (fun q => match q with (nd, po, tag, _) =>
                 if sp_persisted size bs nd then negb (tag =? 0) else (po =? 0) && (tag =? 0) end) pre4 &&
      (* post-order offsets: looked up per node, must equal the position in the post listing
         restricted to persisted nodes *)
      (let ppost := filter (sp_persisted size bs) post in
       forallb (fun q => match q with (nd, _, tag, v) =>
                  if sp_persisted size bs nd then
                    match sp_index_of nd ppost with Some i => v =? N.of_nat i | None => false end
                  else true end) pre4) &&
      (* C13: stable iff whole subtree inside the blob; stable slots form a prefix *)
      forallb (fun q => match q with (nd, _, tag, v) =>
                 if sp_persisted size bs nd then
                   (tag =? (if sp_subtree_inside size nd then 1 else 2)) &&
                   (if tag =? 1 then v <? sp_stable_count size bs else sp_stable_count size bs <=? v)
                 else true end) pre4
    | _ => false
    end
  | _ => false
  end.

(* ---- family offsets: args [size; bs; node*] ---- *)
Definition run_offsets (a : list N) : list N :=
  match a with
  | size :: bs :: nodes =>
    let t := mkTree size bs in
    [ tree_root t; blocks t; tree_chunks t; outboard_size t ]
    ++ flat_map (fun n => [eopt (pre_order_offset t n)] ++ epo (post_order_offset t n)) nodes
  | _ => []
  end.

Fixpoint take3 (l : list N) : list (N * N * N) :=
  match l with
  | a :: b :: c :: r => (a, b, c) :: take3 r
  | _ => []
  end.

(* closed-form expectations for single nodes of huge trees *)
Definition holds_offsets (a o : list N) : bool :=
  match a, o with
  | size :: bs :: nodes, root :: blks :: chks :: obsize :: rest =>
    let nb := sp_blocks size bs in
    (blks =? nb) && (obsize =? (nb - 1) * 64) && (chks =? sp_chunks size) &&
    Nat.eqb (length nodes) (length (take3 rest)) &&
    forallb (fun p => match p with (nd, (po, tag, v)) =>
      if sp_in_tree size bs nd && sp_persisted size bs nd then
        (po =? sp_pre_offset size bs nd + 1) && (v =? sp_post_offset_tree size bs nd) &&
        (tag =? (if sp_subtree_inside size nd then 1 else 2)) && (po <=? nb - 1) && (v <? nb - 1)
      else if sp_in_tree size bs nd then (po =? 0) && (tag =? 0)
      else if sp_level nd <? bs then (po =? 0) && (tag =? 0)     (* nodes below the block level map to nothing *)
      else true end) (combine nodes (take3 rest))
  | _, _ => false
  end.
