(* Case evaluator for the serde family (harness/src/serde_fam.rs). *)
From Coq Require Import Uint63.
From BaoV Require Export Run.RunBase Model.Serde Model.Blake3.
Open Scope N_scope.

Definition ndigest (l : list N) : N := fold_left (fun d x => (d * 1000003 + x + 1) mod 9223372036854775808) l 0.
Definition rand_bytes (seed n : N) : list N := map N_of_int (gen_data 0 seed n).
Definition mk_parent (node seed : N) : parent_v :=
  let h := rand_bytes seed 64 in mkParent node (firstn 32 h) (skipn 32 h).
Definition mk_leaf (off len seed : N) : leaf_v := mkLeaf off (rand_bytes seed len).

Definition kind_name (c : N) : list N :=
  if c =? 0 then [79;116;104;101;114]                                         (* Other *)
  else if c =? 1 then [85;110;101;120;112;101;99;116;101;100;69;111;102]      (* UnexpectedEof *)
  else if c =? 2 then [67;111;110;110;101;99;116;105;111;110;82;101;115;101;116] (* ConnectionReset *)
  else if c =? 3 then [87;114;105;116;101;90;101;114;111]                     (* WriteZero *)
  else [78;111;116;70;111;117;110;100].                                       (* NotFound *)
Definition mk_err (p : list N) : eerr_v :=
  let v := arg p 0 in
  if v =? 0 then VParentHashMismatch (arg p 1)
  else if v =? 1 then VLeafHashMismatch (arg p 1)
  else if v =? 2 then VParentWrite (arg p 1)
  else if v =? 3 then VLeafWrite (arg p 1)
  else if v =? 4 then VSizeMismatch
  else VIo (kind_name (arg p 1) ++ [58] ++ firstn (N.to_nat (arg p 2)) (skipn 3 p)).

Definition parent_eqb (a b : parent_v) : bool :=
  (p_node a =? p_node b) && list_eqb (p_l a) (p_l b) && list_eqb (p_r a) (p_r b).
Definition leaf_eqb (a b : leaf_v) : bool := (l_off a =? l_off b) && list_eqb (l_data a) (l_data b).
Definition eerr_eqb (a b : eerr_v) : bool :=
  match a, b with
  | VParentHashMismatch x, VParentHashMismatch y | VLeafHashMismatch x, VLeafHashMismatch y
  | VParentWrite x, VParentWrite y | VLeafWrite x, VLeafWrite y => x =? y
  | VSizeMismatch, VSizeMismatch => true
  | VIo x, VIo y => list_eqb x y
  | _, _ => false
  end.

Definition obs_pc {T} (ser : list N) (de : list N -> option (T * list N)) (eqb : T -> bool) : list N :=
  [0; N.of_nat (length ser); ndigest ser] ++
  match de ser with
  | Some (v, []) => [0; b2n (eqb v)]
  | _ => [1; 0]
  end.
Definition de_num (l : list N) : option (N * list N) := take_varint l.

(* args [type; fmt; params...] *)
Definition run_serde (a : list N) : list N :=
  let ty := arg a 0 in let fmt := arg a 1 in
  let p := skipn 2 a in
  if fmt =? 0 then
    if ty <=? 1 then obs_pc (varint (arg p 0)) de_num (N.eqb (arg p 0))
    else if ty =? 2 then let v := mk_parent (arg p 0) (arg p 1) in obs_pc (ser_parent PARENT_HINT v) de_parent (parent_eqb v)
    else if ty =? 3 then let v := mk_leaf (arg p 0) (arg p 1) (arg p 2) in obs_pc (ser_leaf v) de_leaf (leaf_eqb v)
    else if ty =? 4 then
      let v := if arg p 0 =? 0 then CParentV (mk_parent (arg p 1) (arg p 2)) else CLeafV (mk_leaf (arg p 1) (arg p 2) (arg p 3)) in
      obs_pc (ser_content PARENT_HINT v) de_content
             (fun w => match v, w with CParentV x, CParentV y => parent_eqb x y | CLeafV x, CLeafV y => leaf_eqb x y | _, _ => false end)
    else if ty =? 5 then
      let t := arg p 0 in
      let v := if t =? 0 then VSize (arg p 1) else if t =? 1 then VParent (mk_parent (arg p 1) (arg p 2))
               else if t =? 2 then VLeaf (mk_leaf (arg p 1) (arg p 2) (arg p 3)) else if t =? 3 then VError (mk_err (skipn 1 p)) else VDone in
      obs_pc (ser_eitem PARENT_HINT v) de_eitem
             (fun w => match v, w with
                       | VSize x, VSize y => x =? y | VParent x, VParent y => parent_eqb x y | VLeaf x, VLeaf y => leaf_eqb x y
                       | VError x, VError y => eerr_eqb x y | VDone, VDone => true | _, _ => false end)
    else if 6 <=? arg p 0 then [0; 0; 0; 0; 1]     (* payload-less io error: platform text, round trip only *)
    else let v := mk_err p in obs_pc (ser_eerr v) de_eerr (eerr_eqb v)
  else
    (* JSON: text compared for the scalar / struct types, round trip flag for all *)
    if ty <=? 1 then let s := jnum (arg p 0) in [0; N.of_nat (length s); ndigest s; 0; 1]
    else if ty =? 2 then let s := json_parent (mk_parent (arg p 0) (arg p 1)) in [0; N.of_nat (length s); ndigest s; 0; 1]
    else if ty =? 3 then let s := json_leaf (mk_leaf (arg p 0) (arg p 1) (arg p 2)) in [0; N.of_nat (length s); ndigest s; 0; 1]
    else [0; 0; 0; 0; 1].

(* C19: serialisation succeeds, deserialisation succeeds, the value comes back equal *)
Definition holds_serde (a o : list N) : bool :=
  match o with
  | [src; _; _; drc; eq] => (src =? 0) && (drc =? 0) && (eq =? 1)
  | _ => false
  end.
