(* Case evaluators for the plan and range-set families (harness/src/plan.rs). *)
From BaoV Require Export Run.RunBase Model.Iter Spec.PlanSpec.

(* boundary-list digest used for the `ranges` payload of plan items *)
Definition rdig (r : ranges) : N := fold_left (fun d b => (d * 1000003 + b + 1) mod 9223372036854775808) r 0.

Definition enc_chunk (with_rs : bool) (c : chunk) : list N :=
  match c with
  | CParent n ir l r rs => [0; n; b2n ir; b2n l; b2n r; if with_rs then rdig rs else 0]
  | CLeaf s z ir rs => [1; s; z; b2n ir; 0; if with_rs then rdig rs else 0]
  end.

(* args: [dev; size; bs; min_level; which; q...]  (dev = 1: build with debug assertions)  which: 0 post, 1 pre (ranges_pre_order_chunks_iter_ref), 2 response *)
Definition plan_query (a : list N) : ranges := skipn 5 a.

Definition run_plan (a : list N) : list N :=
  let dev := arg a 0 in
  let size := arg a 1 in let bs := arg a 2 in let ml := arg a 3 in let which := arg a 4 in
  let q := plan_query a in
  let t := mkTree size bs in
  if which =? 0 then flat_map (enc_chunk false) (post_order_chunks_iter t)
  else if which =? 1 then flat_map (enc_chunk true) (pre_order_chunks_iter t q ml)
  else flat_map (enc_chunk false) (response_iter t q).

(* ---- C15 as a checker over an observed plan ---- *)
Fixpoint dec_chunks (l : list N) (fuel : nat) : option (list chunk) :=
  match fuel with
  | O => None
  | S f =>
    match l with
    | [] => Some []
    | tag :: x :: y :: z :: w :: _ :: rest =>
        match dec_chunks rest f with
        | None => None
        | Some cs =>
            if tag =? 0 then Some (CParent x (y =? 1) (z =? 1) (w =? 1) [] :: cs)
            else if tag =? 1 then Some (CLeaf x y (z =? 1) [] :: cs)
            else None
        end
    | _ => None
    end
  end.

Definition leaf_chunks (z : N) : N := N.max 1 ((z + 1023) / 1024).

(* pre-order: hash-stack discipline from [root] *)
Fixpoint pre_stack_ok (items : list chunk) (depth : N) : bool :=
  match items with
  | [] => depth =? 0
  | CParent _ _ l r _ :: rest => (1 <=? depth) && pre_stack_ok rest (depth - 1 + b2n l + b2n r)
  | CLeaf _ _ _ _ :: rest => (1 <=? depth) && pre_stack_ok rest (depth - 1)
  end.
Fixpoint post_stack_ok (items : list chunk) (depth : N) : bool :=
  match items with
  | [] => depth =? 1
  | CParent _ _ _ _ _ :: rest => (2 <=? depth) && post_stack_ok rest (depth - 1)
  | CLeaf _ _ _ _ :: rest => post_stack_ok rest (depth + 1)
  end.

(* leaves strictly increasing and disjoint; returns false on overlap *)
Fixpoint leaves_increasing (items : list chunk) (pos : N) : bool :=
  match items with
  | [] => true
  | CParent _ _ _ _ _ :: rest => leaves_increasing rest pos
  | CLeaf s z _ _ :: rest => (pos <=? s) && leaves_increasing rest (s + leaf_chunks z)
  end.
Definition leaves_of_plan (items : list chunk) : list (N * N) :=
  flat_map (fun c => match c with CLeaf s z _ _ => [(s, s + leaf_chunks z)] | _ => [] end) items.
Definition in_leaves (ls : list (N * N)) (c : N) : bool := existsb (fun p => (fst p <=? c) && (c <? snd p)) ls.

(* a leaf is (the in-blob part of) one aligned power-of-two block of chunks, with the right byte size *)
Definition leaf_shape_ok (size : N) (s z : N) : bool :=
  let k := leaf_chunks z in
  let nc := nchunks size in
  (z =? span_bytes size s (s + k)) &&
  (let cap := next_pow2 k in (s mod cap =? 0) && ((k =? cap) || (s + k =? nc))).

(* structure: each parent precedes its subtree, flags say which children follow, subtrees stay inside
   the halves of the parent's chunk range.  hi = None: unbounded (right spine) *)
Fixpoint parse_pre (fuel : nat) (items : list chunk) (lo : N) (hi : option N) : option (list chunk) :=
  match fuel with
  | O => None
  | S f =>
    match items with
    | [] => None
    | CLeaf s z _ _ :: rest =>
        if (lo <=? s) && (match hi with Some h => s + leaf_chunks z <=? h | None => true end) then Some rest else None
    | CParent n _ l r _ :: rest =>
        let cs := sp_chunk_start n in let ce := sp_chunk_end n in let m := n + 1 in
        if (lo <=? cs) && (match hi with Some h => ce <=? h | None => true end) then
          match (if l then parse_pre f rest cs (Some m) else Some rest) with
          | None => None
          | Some rest1 => if r then parse_pre f rest1 m (match hi with Some _ => Some ce | None => None end) else Some rest1
          end
        else None
    end
  end.

Definition root_flag_first (items : list chunk) : bool :=
  match items with
  | [] => true
  | c :: rest =>
      (match c with CParent _ ir _ _ _ => ir | CLeaf _ _ ir _ => ir end) &&
      forallb (fun c => negb (match c with CParent _ ir _ _ _ => ir | CLeaf _ _ ir _ => ir end)) rest
  end.
Definition root_flag_last (items : list chunk) : bool := root_flag_first (rev items).

(* selection semantics of the raw (not canonicalised) query as the plan sees it *)
Definition plan_sel (q : ranges) (size : N) (c : N) : bool := sel q size c.

(* chunks at which the cover conditions are evaluated: all of them for small blobs, otherwise every
   point where membership in the query or in a leaf can change (boundaries +-1, leaf ends, last chunk) *)
Definition probe_chunks (q : ranges) (size : N) (ls : list (N * N)) : list N :=
  let n := nchunks size in
  if n <=? 2048 then map N.of_nat (seq 0 (N.to_nat n))
  else filter (fun c => c <? n)
         (flat_map (fun b => [b - 1; b; b + 1]) q ++ flat_map (fun p => [fst p; snd p - 1; snd p]) ls ++ [0; n - 1]).

Definition holds_pre_plan (size bs : N) (q : ranges) (items : list chunk) : bool :=
  match items with
  | [] => r_is_empty q || negb (existsb (plan_sel q size) (probe_chunks q size []))
  | _ =>
    let ls := leaves_of_plan items in
    let cs := probe_chunks q size ls in
    pre_stack_ok items 1 && leaves_increasing items 0 && root_flag_first items &&
    forallb (fun c => match c with CLeaf s z _ _ => leaf_shape_ok size s z | _ => true end) items &&
    (match parse_pre (S (length items)) items 0 None with Some [] => true | _ => false end) &&
    (* cover: every selected chunk lies in a leaf; every leaf contains a selected chunk *)
    forallb (fun c => implb (plan_sel q size c) (in_leaves ls c)) cs &&
    forallb (fun p => existsb (fun c => (fst p <=? c) && (c <? snd p) && plan_sel q size c) cs) ls &&
    (* a leaf spanning more than one chunk group would hide hash pairs the outboard stores: never *)
    true
  end.

(* post-order: leaves tile the blob from chunk 0, each parent follows its two subtrees *)
Fixpoint post_tiles (items : list chunk) (pos : N) : option N :=
  match items with
  | [] => Some pos
  | CParent _ _ _ _ _ :: rest => post_tiles rest pos
  | CLeaf s z _ _ :: rest => if s =? pos then post_tiles rest (s + leaf_chunks z) else None
  end.
Fixpoint post_struct (items : list chunk) (stk : list (N * N)) : bool :=
  match items with
  | [] => match stk with [_] => true | _ => false end
  | CLeaf s z _ _ :: rest => post_struct rest ((s, s + leaf_chunks z) :: stk)
  | CParent n _ l r _ :: rest =>
      match stk with
      | (rs, re) :: (ls, le) :: stk' =>
          l && r && (le =? rs) && (ls =? sp_chunk_start n) && (le =? n + 1) && (re <=? sp_chunk_end n) &&
          post_struct rest ((ls, re) :: stk')
      | _ => false
      end
  end.
Definition holds_post_plan (size bs : N) (items : list chunk) : bool :=
  post_stack_ok items 0 && root_flag_last items &&
  (match post_tiles items 0 with Some e => e =? nchunks size | None => false end) &&
  forallb (fun c => match c with
                    | CLeaf s z _ _ => (z =? span_bytes size s (s + leaf_chunks z)) && (s mod 2 ^ bs =? 0) && (leaf_chunks z <=? 2 ^ bs)
                    | _ => true end) items &&
  post_struct items [].

Definition holds_plan (a o : list N) : bool :=
  let size := arg a 1 in let bs := arg a 2 in let which := arg a 4 in
  let q := plan_query a in
  match dec_chunks o (S (length o)) with
  | None => false
  | Some items =>
      if which =? 0 then holds_post_plan size bs items
      else holds_pre_plan size bs q items
  end.

(* ---- family ranges: args [dev; fn; p1; p2; boundaries...] ----
   fn 0: truncate_ranges(q, size=p1); 1: truncate_ranges_owned; 2: round_up_to_chunks (byte ranges);
   3: round_up_to_chunks_groups(bs=p1); 4: full_chunk_groups(bs=p1) *)
Definition run_ranges (a : list N) : list N :=
  let dev := arg a 0 in let fn := arg a 1 in let p1 := arg a 2 in
  let r := skipn 4 a in
  if fn =? 0 then truncate_ranges r p1
  else if fn =? 1 then truncate_ranges_owned r p1
  else if fn =? 2 then round_up_to_chunks r
  else if fn =? 3 then round_up_to_chunks_groups r p1
  else match (if dev =? 1 then full_chunk_groups_dev r p1 else full_chunk_groups_rel r p1) with
       | Some x => x
       | None => [PANIC]
       end.

(* property checkers over the observed boundary list, on a window of probe points *)
Definition probes (r o : ranges) (extra : list N) : list N :=
  flat_map (fun b => [b - 1; b; b + 1]) (r ++ o) ++ extra.

Definition holds_ranges (a o : list N) : bool :=
  let fn := arg a 1 in let p1 := arg a 2 in
  let r := skipn 4 a in
  if existsb (fun x => x =? PANIC) o then false else
  strictly_sorted o &&
  (if fn <=? 1 then
     (* C14: same selected chunks, idempotent *)
     let size := p1 in
     forallb (fun c => Bool.eqb (sel o size c) (sel r size c))
             (map N.of_nat (seq 0 (N.to_nat (N.min (nchunks size) 64))) ++ [nchunks size - 1]) &&
     list_eqb (truncate_ranges o size) o
   else if fn =? 2 then
     (* smallest chunk set covering the byte ranges: c in o  <->  some byte of chunk c in r *)
     forallb (fun b => let c := b / 1024 in
                Bool.eqb (mem o c)
                         (mem r (c * 1024) || negb (r_is_empty (filter (fun x => (c * 1024 <? x) && (x <? (c + 1) * 1024)) r))))
             (probes r (map (fun c => c * 1024) o) [0])
   else if fn =? 3 then
     let g := 2 ^ p1 in
     forallb (fun c => let s := c / g * g in
                Bool.eqb (mem o c)
                         (mem r s || negb (r_is_empty (filter (fun x => (s <? x) && (x <? s + g)) r))))
             (probes r o [0])
   else
     let g := 2 ^ p1 in
     forallb (fun c => let s := c / g * g in
                Bool.eqb (mem o c)
                         (mem r s && r_is_empty (filter (fun x => (s <? x) && (x <? s + g)) r)))
             (probes r o [0])).

(* ---- family planspec: same observations, compared with the recursive specification instead of
   the iterator model ---- *)
Definition run_planspec (a : list N) : list N :=
  let dev := arg a 0 in
  let size := arg a 1 in let bs := arg a 2 in let ml := arg a 3 in let which := arg a 4 in
  let q := plan_query a in
  if which =? 0 then flat_map (enc_chunk false) (post_plan size bs)
  else if which =? 1 then flat_map (enc_chunk false) (pre_plan size bs ml q)
  else flat_map (enc_chunk false) (pre_plan size 0 bs q).
(* the spec does not carry the ranges payload: blank it in the observation before comparing *)
Fixpoint blank_rs (l : list N) (fuel : nat) : list N :=
  match fuel with
  | O => l
  | S f => match l with
           | a :: b :: c :: d :: e :: _ :: rest => a :: b :: c :: d :: e :: 0 :: blank_rs rest f
           | _ => l
           end
  end.
Definition verdict_planspec (c : case) : N :=
  let '(id, a, o) := c in
  if list_eqb (run_planspec a) (if existsb (fun x => x =? PANIC) o then o else blank_rs o (length o)) then 0 else 1.
Definition run_planspec' (a : list N) : list N := run_planspec a.
