(* Case evaluators for the plan and range-set families (harness/src/plan.rs). *)
From BaoV Require Export Run.RunBase Model.Iter Spec.PlanSpec Spec.PlanWf.

(* boundary-list digest used for the `ranges` payload of plan items *)
Definition rdig (r : ranges) : N := fold_left (fun d b => (d * 1000003 + b + 1) mod 9223372036854775808) r 0.

Definition enc_chunk (with_rs : bool) (c : chunk) : list N :=
  match c with
  | CParent n ir l r rs => [0; n; b2n ir; b2n l; b2n r; if with_rs then rdig rs else 0]
  | CLeaf s z ir rs => [1; s; z; b2n ir; 0; if with_rs then rdig rs else 0]
  end.

(* args: [dev; size; bs; min_level; which; q...]  (dev = 1: build with debug assertions)  which: 0 post, 1 pre (ranges_pre_order_chunks_iter_ref), 2 response *)
Definition plan_query (a : list N) : ranges := skipn 5 a.

Definition run_plan (a : list N) : list N :=
  let dev := arg a 0 in
  let size := arg a 1 in let bs := arg a 2 in let ml := arg a 3 in let which := arg a 4 in
  let q := plan_query a in
  let t := mkTree size bs in
  if which =? 0 then flat_map (enc_chunk false) (post_order_chunks_iter t)
  else if which =? 1 then flat_map (enc_chunk true) (pre_order_chunks_iter t q ml)
  else flat_map (enc_chunk false) (response_iter t q).

(* ---- C15 as a checker over an observed plan ---- *)
Fixpoint dec_chunks (l : list N) (fuel : nat) : option (list chunk) :=
  match fuel with
  | O => None
  | S f =>
    match l with
    | [] => Some []
    | tag :: x :: y :: z :: w :: _ :: rest =>
        match dec_chunks rest f with
        | None => None
        | Some cs =>
            if tag =? 0 then Some (CParent x (y =? 1) (z =? 1) (w =? 1) [] :: cs)
            else if tag =? 1 then Some (CLeaf x y (z =? 1) [] :: cs)
            else None
        end
    | _ => None
    end
  end.

(* a leaf is at most one chunk group, unless it stands for a fully selected node below min_level:
   a plan leaf never hides a hash pair that the outboard of this block size stores and min_level asks for *)
Definition leaf_bound_ok (bs ml : N) (items : list chunk) : bool :=
  forallb (fun c => match c with
                    | CLeaf _ z _ _ => leaf_chunks z <=? N.max (2 ^ bs) (2 ^ ml)
                    | CParent n _ _ _ _ => true
                    end) items.

Definition holds_plan (a o : list N) : bool :=
  let size := arg a 1 in let bs := arg a 2 in let which := arg a 4 in
  let q := plan_query a in
  match dec_chunks o (S (length o)) with
  | None => false
  | Some items =>
      if which =? 0 then holds_post_plan size bs items
      else holds_pre_plan size bs q items &&
           (if which =? 1 then leaf_bound_ok bs (arg a 3) items else leaf_bound_ok bs bs items)
  end.

(* ---- family ranges: args [dev; fn; p1; p2; boundaries...] ----
   fn 0: truncate_ranges(q, size=p1); 1: truncate_ranges_owned; 2: round_up_to_chunks (byte ranges);
   3: round_up_to_chunks_groups(bs=p1); 4: full_chunk_groups(bs=p1) *)
Definition run_ranges (a : list N) : list N :=
  let dev := arg a 0 in let fn := arg a 1 in let p1 := arg a 2 in
  let r := skipn 4 a in
  if fn =? 0 then truncate_ranges r p1
  else if fn =? 1 then truncate_ranges_owned r p1
  else if fn =? 2 then round_up_to_chunks r
  else if fn =? 3 then round_up_to_chunks_groups r p1
  else match (if dev =? 1 then full_chunk_groups_dev r p1 else full_chunk_groups_rel r p1) with
       | Some x => x
       | None => [PANIC]
       end.

(* property checkers over the observed boundary list, on a window of probe points *)
Definition probes (r o : ranges) (extra : list N) : list N :=
  flat_map (fun b => [b - 1; b; b + 1]) (r ++ o) ++ extra.

Definition holds_ranges (a o : list N) : bool :=
  let fn := arg a 1 in let p1 := arg a 2 in
  let r := skipn 4 a in
  if existsb (fun x => x =? PANIC) o then false else
  strictly_sorted o &&
  (if fn <=? 1 then
     (* C14: same selected chunks, idempotent *)
     let size := p1 in
     forallb (fun c => Bool.eqb (sel o size c) (sel r size c))
             (map N.of_nat (seq 0 (N.to_nat (N.min (nchunks size) 64))) ++ [nchunks size - 1]) &&
     list_eqb (truncate_ranges o size) o
   else if fn =? 2 then
     (* smallest chunk set covering the byte ranges: c in o  <->  some byte of chunk c in r *)
     forallb (fun b => let c := b / 1024 in
                Bool.eqb (mem o c)
                         (mem r (c * 1024) || negb (r_is_empty (filter (fun x => (c * 1024 <? x) && (x <? (c + 1) * 1024)) r))))
             (probes r (map (fun c => c * 1024) o) [0])
   else if fn =? 3 then
     let g := 2 ^ p1 in
     forallb (fun c => let s := c / g * g in
                Bool.eqb (mem o c)
                         (mem r s || negb (r_is_empty (filter (fun x => (s <? x) && (x <? s + g)) r))))
             (probes r o [0])
   else
     let g := 2 ^ p1 in
     forallb (fun c => let s := c / g * g in
                Bool.eqb (mem o c)
                         (mem r s && r_is_empty (filter (fun x => (s <? x) && (x <? s + g)) r)))
             (probes r o [0])).

(* ---- family planspec: same observations, compared with the recursive specification instead of
   the iterator model ---- *)
Definition run_planspec (a : list N) : list N :=
  let dev := arg a 0 in
  let size := arg a 1 in let bs := arg a 2 in let ml := arg a 3 in let which := arg a 4 in
  let q := plan_query a in
  if which =? 0 then flat_map (enc_chunk false) (post_plan size bs)
  else if which =? 1 then flat_map (enc_chunk false) (pre_plan size bs ml q)
  else flat_map (enc_chunk false) (pre_plan size 0 bs q).
(* the spec does not carry the ranges payload: blank it in the observation before comparing *)
Fixpoint blank_rs (l : list N) (fuel : nat) : list N :=
  match fuel with
  | O => l
  | S f => match l with
           | a :: b :: c :: d :: e :: _ :: rest => a :: b :: c :: d :: e :: 0 :: blank_rs rest f
           | _ => l
           end
  end.
Definition verdict_planspec (c : case) : N :=
  let '(id, a, o) := c in
  if list_eqb (run_planspec a) (if existsb (fun x => x =? PANIC) o then o else blank_rs o (length o)) then 0 else 1.
Definition run_planspec' (a : list N) : list N := run_planspec a.
