(* Case evaluator for the sched family (harness/src/sched.rs): scheduled, interrupting, suspending and
   failing readers under the sync / fsm decoders and under outboard creation. *)
From Coq Require Import Uint63.
From BaoV Require Export Run.RunProto Model.IOSched.
Open Scope N_scope.
Notation bytes := (list int).
Notation mkOb3 := (@mkOb B3).

Definition kind_from (c : N) : io_kind :=
  if (c =? 0) || (c =? 6) then KOther else if c =? 1 then KUnexpectedEof else if c =? 2 then KConnectionReset
  else if c =? 3 then KWriteZero else if c =? 4 then KInvalidInput else KInvalidData.
Fixpoint evs_of (l : list N) (fuel : nat) : list ev :=
  match fuel with
  | O => []
  | S f => match l with
           | k :: x :: rest => (if k =? 0 then EFrag x else if k =? 1 then EIntr else EPending) :: evs_of rest f
           | _ => []
           end
  end.

Record ssetup := mkSS { ss_data : bytes; ss_bs : N; ss_driver : N; ss_fail : option (N * io_kind); ss_cut : N;
                        ss_q : ranges; ss_evs : list ev }.
(* args [kind; seed; size; bs; driver; fail_k+1; fail_kind; cut+1; nq; q..; (evkind, evarg)*] *)
Definition sched_setup (a : list N) : ssetup :=
  let '(q, r) := take_list (skipn 8 a) in
  mkSS (blob a) (arg a 3) (arg a 4)
       (if arg a 5 =? 0 then None else Some (arg a 5 - 1, kind_from (arg a 6)))
       (arg a 7) q (evs_of r (length r)).
Definition cut_bytes (cut : N) (b : bytes) : bytes := if cut =? 0 then b else firstn (N.to_nat (cut - 1)) b.

Definition items_obs (oc : outcome) (items : list (item B3)) : list N :=
  match oc with
  | Panicked | OutOfFuel => [PANIC]
  | Finished => [0; 0; 0; N.of_nat (length items)] ++ flat_map item_obs items
  | Failed e => dec_rc e ++ [0; N.of_nat (length items)] ++ flat_map item_obs items
  end.

(* driver 2: decode_ranges = run the iterator, write the leaves; 300 further bytes follow the response *)
Definition trailing (a : list N) : bytes := gen_data 0 (arg a 1 + 1) 300.
Definition leaves_into (items : list (item B3)) (t0 : bytes) : bytes :=
  fold_left (fun t it => match it with ILeaf off d => write_at B3 t off d | _ => t end) items t0.
Definition dr_obs (size : N) (r : list (item B3) * outcome * dstate_r B3) : list N :=
  let '(items, oc, st) := r in
  match oc with
  | Panicked | OutOfFuel => [PANIC]
  | Finished => [0; 0; 0; blen B3 (rd_rest B3 (dr_rd B3 st)); dg (leaves_into items (zeros B3 (N.to_nat size)))]
  | Failed e => dec_rc e ++ [0; blen B3 (rd_rest B3 (dr_rd B3 st)); dg (leaves_into items (zeros B3 (N.to_nat size)))]
  end.

Definition run_sched (a : list N) : list N :=
  let s := sched_setup a in
  let data := ss_data s in
  let t := mkTree (blen B3 data) (ss_bs s) in
  if ss_driver s =? 5 then
    let rd := mkRd B3 (cut_bytes (ss_cut s) data) (ss_evs s) 0 (ss_fail s) in
    let ob0 := mkOb3 PreMem (zero_hash B3) t (zeros B3 (N.to_nat (outboard_size t))) in
    match outboard_impl_r B3 t rd ob0 with
    | (Ok h, ob, _) => [0; dg h; blen B3 (ob_data ob); dg (ob_data ob); 0]
    | (Err k, ob, _) => [1 + kcode k; 0; blen B3 (ob_data ob); dg (ob_data ob); 0]
    | (Panic, _, _) => [PANIC]
    end
  else if ss_driver s =? 4 then
    let rd := mkRd B3 (cut_bytes (ss_cut s) data) (ss_evs s) 0 (ss_fail s) in
    match outboard_post_order_r B3 t rd with
    | (Ok h, out, _) => [0; dg h; blen B3 out; dg out; 0]
    | (Err k, out, _) => [1 + kcode k; 0; blen B3 out; dg out; 0]
    | (Panic, _, _) => [PANIC]
    end
  else
    let stream := cut_bytes (ss_cut s) (flat B3 (honest B3 data (ss_bs s) (ss_q s))) in
    let rd := mkRd B3 stream (ss_evs s) 0 (ss_fail s) in
    let root := root_hash B3 data in
    if ss_driver s =? 2 then
      let rd2 := mkRd B3 (stream ++ trailing a) (ss_evs s) 0 (ss_fail s) in
      dr_obs (blen B3 data) (dec_run_r B3 (dec_new_r B3 root t rd2 (ss_q s)))
    else if ss_driver s =? 0 then
      let '(items, oc, _) := dec_run_r B3 (dec_new_r B3 root t rd (ss_q s)) in items_obs oc items
    else
      let '(items, oc, _) := rd_run_r B3 (rd_new_r B3 root (ss_q s) t rd) in items_obs oc items.

(* C11 / C10 oracle: without a fault the observation is that of the unfragmented run; with the k-th read
   failing, the error surfaces (UnexpectedEof as NotFound, others as Io), nothing is read afterwards and
   the items are a prefix of the fault-free run's *)
Definition holds_sched (a o : list N) : bool :=
  let s := sched_setup a in
  let data := ss_data s in
  let t := mkTree (blen B3 data) (ss_bs s) in
  negb (existsb (fun x => x =? PANIC) o) &&
  if ss_driver s =? 5 then
    let src := cut_bytes (ss_cut s) data in
    let ob0 := mkOb3 PreMem (zero_hash B3) t (zeros B3 (N.to_nat (outboard_size t))) in
    match ss_fail s, o with
    | None, [rc; rd_; len; d; after] =>
        (match outboard_impl B3 t src ob0 with
         | (Ok h, ob, _) => (rc =? 0) && (rd_ =? dg h) && (d =? dg (ob_data ob))
         | (Err k, ob, _) => (rc =? 1 + kcode k) && (d =? dg (ob_data ob))
         | _ => false
         end) && (after =? 0)
    | Some (_, kind), [rc; _; len; d; after] => (after =? 0)
    | _, _ => false
    end
  else if ss_driver s =? 4 then
    let src := cut_bytes (ss_cut s) data in
    match ss_fail s, o with
    | None, [rc; rd_; len; d; after] =>
        (* same as the unfragmented run *)
        (match outboard_post_order B3 t src with
         | (Ok h, out, _) => (rc =? 0) && (rd_ =? dg h) && (d =? dg out) && (len =? blen B3 out)
         | (Err k, out, _) => (rc =? 1 + kcode k) && (d =? dg out) && (len =? blen B3 out)
         | _ => false
         end) && (after =? 0)
    | Some (_, kind), [rc; _; len; d; after] =>
        (after =? 0) &&
        (match outboard_post_order B3 t src with
         | (_, out, _) =>
             (* either the fault was never reached (fewer reads) and the result is the fault-free one, or it surfaces *)
             ((rc =? 1 + kcode kind) || ((len =? blen B3 out) && (d =? dg out))) && (len <=? blen B3 out)
         end)
    | _, _ => false
    end
  else
    let stream := cut_bytes (ss_cut s) (flat B3 (honest B3 data (ss_bs s) (ss_q s))) in
    let root := root_hash B3 data in
    if ss_driver s =? 2 then
      (* the unfragmented run; without a fault nothing behind the response is taken from the transport *)
      let plain2 := dr_obs (blen B3 data) (dec_run_r B3 (dec_new_r B3 root t (plain_reader B3 (stream ++ trailing a)) (ss_q s))) in
      match ss_fail s, o with
      | None, [oc; p; after; left_; d] => list_eqb o plain2 && (if (ss_cut s =? 0) && (oc =? 0) then left_ =? 300 else true)
      | Some _, [oc; p; after; left_; d] => (after =? 0)
      | _, _ => false
      end
    else
    let plain :=
      if ss_driver s =? 0 then let '(items, oc, _) := dec_run B3 (dec_new B3 root t stream (ss_q s)) in items_obs oc items
      else let '(items, oc, _) := rd_run B3 (rd_new B3 root (ss_q s) t stream) in items_obs oc items in
    match ss_fail s, o with
    | None, oc :: p :: after :: n :: items =>
        (* tokio's read_exact / read_to_end do not retry Interrupted (std's do): under the fsm decoder an interrupting
           transport may surface as Io(Interrupted) after a prefix of the items; otherwise the unfragmented result *)
        list_eqb o plain ||
        ((ss_driver s =? 1) && existsb (fun e => match e with EIntr => true | _ => false end) (ss_evs s) &&
         (oc =? 5) && (p =? kcode KInterrupted) && (after =? 0) && is_prefix_n items (skipn 4 plain))
    | None, _ => list_eqb o plain
    | Some (_, kind), oc :: p :: after :: n :: items =>
        (after =? 0) &&
        (list_eqb o plain ||
         ((if match kind with KUnexpectedEof => true | _ => false end then (oc =? 1) || (oc =? 2)
           else (oc =? 5) && (p =? kcode kind)) &&
          is_prefix_n items (skipn 4 plain)))
    | _, _ => false
    end.

(* ---- family shortw: sinks that take at most maxw bytes per call and cap bytes in total; stores that
   return short positioned reads.  write_all / read_exact_at loops make the result independent of maxw;
   a full sink surfaces as WriteZero after exactly cap bytes. ---- *)
(* args [kind; seed; size; bs; op; maxw; cap; okind; q...] *)
Definition limit_out (cap : N) (rc : list N) (out : bytes) : list N :=
  if blen B3 out <=? cap then rc ++ [blen B3 out; dg out]
  else [6; kcode KWriteZero; cap; dg (firstn (N.to_nat cap) out)].
Definition ranges_bytes (ys : list (N * N)) : bytes :=
  flat_map (fun p => le_bytes 8 (fst p) ++ le_bytes 8 (snd p)) ys.
Definition run_shortw (a : list N) : list N :=
  let data := blob a in
  let bs := arg a 3 in let op := arg a 4 in let cap := arg a 6 in
  let k := okind_of (arg a 7) in
  let q := skipn 8 a in
  let t := mkTree (blen B3 data) bs in
  if op =? 0 then let '(r, out) := encode_ranges_validated B3 data (intact k data bs) q in limit_out cap (enc_rc r) out
  else if op =? 1 then let '(r, out) := encode_ranges B3 data (intact k data bs) q in limit_out cap (enc_rc r) out
  else if op =? 2 then
    match outboard_post_order B3 t data with
    | (Ok _, out, _) => limit_out cap [0; 0] out
    | _ => [PANIC]
    end
  else
    let k' := if arg a 7 =? 1 then PostIO else PreIO in
    if op =? 3 then let '(r, out) := encode_ranges_validated B3 data (intact k' data bs) q in enc_rc r ++ [blen B3 out; dg out]
    else if op =? 5 then let '(r, out) := encode_ranges B3 data (intact k' data bs) q in enc_rc r ++ [blen B3 out; dg out]
    else let '(ys, r) := valid_ranges B3 (intact k' data bs) data q in
         let out := ranges_bytes ys in
         (match r with Ok _ => [0; 0] | Err e => [6; kcode e] | Panic => [PANIC; 0] end) ++ [blen B3 out; dg out].
Definition holds_shortw (a o : list N) : bool :=
  let data := blob a in
  let bs := arg a 3 in let op := arg a 4 in let cap := arg a 6 in
  let q := skipn 8 a in
  negb (existsb (fun x => x =? PANIC) o) &&
  (* (the non-validating encoders, ops 1 and 5, are compared with the model only: above block size 0 they
     send partially selected groups whole, finding F6) *)
  if (op =? 0) || (op =? 3) then list_eqb o (limit_out (if op =? 0 then cap else 18446744073709551615) [0; 0] (flat B3 (honest B3 data bs q)))
  else if op =? 2 then list_eqb o (limit_out cap [0; 0] (spec_outboard B3 true data bs))
  else true.
