(* Case evaluator for the fault family (harness/src/fault.rs). *)
From Coq Require Import Uint63.
From BaoV Require Export Run.RunProto Model.IOCalls.
Open Scope N_scope.
Notation mkOb3 := (@mkOb B3).

Definition obj_of (n : N) : io_obj :=
  if n =? 1 then ODataSeq else if n =? 2 then ODataAt else if n =? 3 then OStreamIn else if n =? 4 then OStreamOut
  else if n =? 5 then OTarget else if n =? 6 then OObLoad else if n =? 7 then OObSave else OObSync.
Definition kind_from (c : N) : io_kind :=
  if c =? 0 then KOther else if c =? 1 then KUnexpectedEof else if c =? 2 then KConnectionReset
  else if c =? 3 then KWriteZero else if c =? 4 then KInvalidInput else KInvalidData.

(* args [kind; seed; size; bs; op; fobj; fk+1; fkind; okind; q...] *)
Definition fault_sites (a : list N) : list site :=
  let data := blob a in
  let bs := arg a 3 in
  let op := arg a 4 in
  let t := mkTree (blen B3 data) bs in
  let q := skipn 9 a in
  if (op =? 1) || (op =? 9) then
    (* init_from of an io-backed outboard over a byte store: one positioned write per stored pair, then flush *)
    let ob := mkOb3 (if op =? 1 then PostIO else PreIO) [] t [] in
    flat_map (fun c => match c with
                       | CLeaf _ size _ _ => [mkSite ODataSeq size 0 io_err]
                       | CParent node _ _ _ _ =>
                           match ob_offset B3 ob node with
                           | Some o => [mkSite OObSave (o * 64) 64 io_err]
                           | None => []
                           end
                       end) (post_order_chunks_iter t) ++ [mkSite OObSync 0 0 io_err]
  else if op =? 0 then create_sites t true
  else if op =? 2 then create_sites t false
  else if (op =? 3) || (op =? 4) then create_po_sites t
  else if op =? 5 then enc_sites B3 false true t data q
  else if op =? 6 then enc_sites B3 true true t data q
  else if op =? 7 then enc_sites B3 false false t data q
  else if op =? 8 then enc_sites B3 true false t data q
  else if (op =? 10) || (op =? 11) then dec_sites t q
  else if (op =? 12) || (op =? 13) then copy_sites B3 (intact (okind_of (arg a 8)) data bs)
  else if (op =? 16) || (op =? 17) then
    (* the outboard validators: the same walk without the data reads *)
    filter (fun s => obj_eqb (s_obj s) OObLoad) (valid_ranges_sites t q)
  else valid_ranges_sites t q.

(* zero-length transfers through the std / positioned-io / tokio exact loops (read_exact, write_all, read_exact_at,
   write_all_at of nothing: the leaf of the empty blob) make no call on the underlying object; the iroh-io style
   objects of the fsm side (read_at / write / write_bytes_at with a length argument) are called even for nothing *)
Definition is_sync_op (op : N) : bool := existsb (N.eqb op) [0; 1; 3; 5; 7; 9; 10; 12; 14; 16].
Definition real_sites (a : list N) : list site :=
  let sync_ := is_sync_op (arg a 4) in
  filter (fun s =>
            negb (match s_obj s with
                  | ODataSeq | OStreamOut | OStreamIn => sync_ && (s_a s =? 0)
                  | ODataAt | OTarget => sync_ && (s_b s =? 0)
                  | _ => false
                  end)) (fault_sites a).

Definition run_fault (a : list N) : list N :=
  let sites := real_sites a in
  let '(rc, log) :=
    if arg a 6 =? 0 then ((0, 0), sites)
    else with_fault sites (obj_of (arg a 5)) (arg a 6 - 1) (kind_from (arg a 7)) (0, 0) [] in
  [fst rc; snd rc; N.of_nat (length log)] ++ flat_map (fun s => [obj_code (s_obj s); s_a s; s_b s]) log
  ++ [N.of_nat (length sites)] ++ flat_map (fun s => [obj_code (s_obj s); s_a s; s_b s]) sites.

(* C10 over the observation: the failure surfaces (never success, never a hash mismatch), the failed object
   is not touched again, and the call log is a prefix of the fault-free run's *)
Fixpoint count_obj (l : list N) (o : N) (fuel : nat) : N :=
  match fuel with
  | O => 0
  | S f => match l with x :: _ :: _ :: r => (if x =? o then 1 else 0) + count_obj r o f | _ => 0 end
  end.
(* the reference is the implementation's own fault-free call log (second half of the observation), so that the
   checker does not depend on how the model slices the calls *)
Definition holds_fault (a o : list N) : bool :=
  match o with
  | rc :: p :: n :: rest =>
      let log := firstn (3 * N.to_nat n)%nat rest in
      let free := skipn (S (3 * N.to_nat n))%nat rest in
      (nth (3 * N.to_nat n)%nat rest PANIC =? N.of_nat (Nat.div (length free) 3)) &&
      negb (rc =? PANIC) &&
      is_prefix_n log free &&
      (if arg a 6 =? 0 then (rc =? 0) && list_eqb log free
       else
         let fo := arg a 5 in let k := arg a 6 - 1 in
         let cnt := count_obj log fo (length log) in
         if count_obj free fo (length free) <=? k then (rc =? 0) && list_eqb log free   (* the fault is never reached *)
         else
           (* reached: exactly k+1 calls on the failed object, the last one being the last log entry *)
           (cnt =? k + 1) && (nth (length log - 3) log 0 =? fo) &&
           negb (rc =? 0) &&
           (* the io error itself, or NotFound (decoder EOF) / ParentWrite / LeafWrite (fsm encoder reset).
              A connection reset on the stream writer of the fsm encoders (the sites the property anchors the
              ParentWrite / LeafWrite mapping in: C10_enc_classification_fsm, C10_enc_write_failed_names_item) has to be the write-failed error;
              which item it names is compared with the model by the correspondence bit *)
           (let kc := kcode (kind_from (arg a 7)) in
            let reset_write := (arg a 7 =? 2) && (fo =? 4) && ((arg a 4 =? 6) || (arg a 4 =? 8)) in
            if reset_write then (rc =? 3) || (rc =? 4)
            else
            ((rc =? 6) && (p =? kc)) || ((rc =? 5) && (p =? kc) && ((arg a 4 =? 10) || (arg a 4 =? 11))) ||
            (((rc =? 1) || (rc =? 2)) && (arg a 7 =? 1) && (fo =? 3))))
  | _ => false
  end.
