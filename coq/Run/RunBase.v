(* Correspondence-check plumbing: a case is (id, args, observed outputs of the implementation).
   verdict bit 0: the model's output differs from the implementation's;
   verdict bit 1: the implementation's output fails the property checker. *)
From BaoV Require Export Base.U64.

Definition case := (N * list N * list N)%type.

Fixpoint list_eqb (a b : list N) : bool :=
  match a, b with
  | [], [] => true
  | x :: a', y :: b' => (x =? y) && list_eqb a' b'
  | _, _ => false
  end.

Definition PANIC : N := 340282366920938463463374607431768211455.

Definition verdict (run : list N -> list N) (holds : list N -> list N -> bool) (c : case) : N :=
  let '(id, a, o) := c in
  (* an observation that is just the harness's catch-all panic code fails every property checker; the
     checkers are not run on it (they may take the numbers they are given as sizes / exponents) *)
  (if list_eqb (run a) o then 0 else 1) + (if list_eqb o [PANIC] then 2 else if holds a o then 0 else 2).

Definition verdicts (run : list N -> list N) (holds : list N -> list N -> bool) (cs : list case) : list (N * N) :=
  filter (fun p => negb (snd p =? 0)) (map (fun c => (fst (fst c), verdict run holds c)) cs).

(* encodings *)
Definition eopt (o : option N) : N := match o with None => 0 | Some v => v + 1 end.
Definition dopt (n : N) : option N := if n =? 0 then None else Some (n - 1).
Definition arg (a : list N) (i : nat) : N := nth i a 0.
