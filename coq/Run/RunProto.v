(* Case evaluators for the protocol families (harness/src/proto.rs), instantiated with the concrete
   BLAKE3 instance.  Observations and encodings mirror the harness exactly. *)
From Coq Require Import Uint63.
From BaoV Require Export Run.RunBase Model.Fsm Model.IO Model.Blake3 Spec.EncSpec Spec.PlanSpec.
Open Scope N_scope.

Notation bytes := (list int).
Notation mkOb3 := (@mkOb B3).
Definition dg (b : bytes) : N := digest b.
Definition kcode (k : io_kind) : N :=
  match k with
  | KOther => 0 | KUnexpectedEof => 1 | KConnectionReset => 2 | KWriteZero => 3
  | KInvalidInput => 4 | KInvalidData => 5 | KInterrupted => 6
  end.
Definition okind_of (n : N) : ob_kind :=
  if n =? 0 then PreIO else if n =? 1 then PostIO else if n =? 2 then PreMem else if n =? 3 then PostMem
  else if n =? 5 then PreMem   (* validate family: a node-keyed store, modelled as a memory store with the missing slots zeroed *)
  else EmptyOb.
Definition is_post (k : ob_kind) : bool := match k with PostIO | PostMem => true | _ => false end.
Definition is_pre (k : ob_kind) : bool := match k with PreIO | PreMem => true | _ => false end.

Definition blob (a : list N) : bytes := gen_data (arg a 0) (arg a 1) (arg a 2).

(* intact store from the recursive specification *)
Definition intact (k : ob_kind) (data : bytes) (bs : N) : outboard B3 :=
  mkOb3 k (root_hash B3 data) (mkTree (blen B3 data) bs)
       (match k with EmptyOb => [] | _ => spec_outboard B3 (is_post k) data bs end).

Definition xor_at (d : bytes) (pos : N) (delta : N) : bytes :=
  match d with
  | [] => []
  | _ => let p := N.to_nat (pos mod N.of_nat (length d)) in
         firstn p d ++ (match nth_error d p with Some x => [x lxor int_of_N delta] | None => [] end) ++ skipn (S p) d
  end.
Definition zero_from (d : bytes) (pos : N) : bytes :=
  firstn (N.to_nat pos) d ++ repeat 0%uint63 (length d - N.to_nat pos).

(* ---------------- family outboard ---------------- *)
Definition loads_digest (ob : outboard B3) : N :=
  dg (flat_map (fun n => match load_sync B3 ob n with
                         | Ok (Some (l, r)) => l ++ r
                         | Ok None => []
                         | Err k => [int_of_N (200 + kcode k)]
                         | Panic => [int_of_N 255]
                         end) (pre_order_nodes_iter (ob_tree ob))).
Definition io_rc {A} (r : res io_kind A) : N := match r with Ok _ => 0 | Err k => 1 + kcode k | Panic => PANIC end.

Definition stale (t : tree) : bytes := repeat (170%uint63) (N.to_nat (outboard_size t) + 64).
Definition AA_hash : bytes := repeat (170%uint63) 32.

Definition ob_obs (rc : N) (o : option (outboard B3)) : list N :=
  match o with
  | None => if rc =? PANIC then [PANIC] else [rc; 0; 0; 0; 0; 0; 0]
  | Some ob => [rc; dg (ob_root ob); blen B3 (ob_data ob); dg (ob_data ob); loads_digest ob; 1; 1]
  end.
Definition of_res (r : res io_kind (outboard B3)) : list N :=
  match r with Ok ob => ob_obs 0 (Some ob) | Err k => ob_obs (1 + kcode k) None | Panic => [PANIC] end.

Definition run_outboard (a : list N) : list N :=
  let data := blob a in
  let size := blen B3 data in
  let bs := arg a 3 in
  let t := mkTree size bs in
  let entry := arg a 4 in
  let empty_root := hash_subtree B3 0 [] true in
  if entry =? 0 then of_res (create_sized B3 PreIO data size bs)
  else if entry =? 1 then of_res (create_sized B3 PostIO data size bs)
  else if entry =? 2 then of_res (pre_mem_create B3 data bs)
  else if entry =? 3 then of_res (post_mem_create B3 data bs)
  else if entry =? 4 then
    match outboard_post_order B3 t data with
    | (Ok h, out, _) => ob_obs 0 (Some (mkOb3 PostIO h t out))
    | (Err k, _, _) => ob_obs (1 + kcode k) None
    | (Panic, _, _) => [PANIC]
    end
  else if entry =? 5 then of_res (create_sized_fsm B3 PreIO data size bs)
  else if entry =? 6 then of_res (create_sized_fsm B3 PostIO data size bs)
  else if entry =? 7 then
    match outboard_post_order_fsm B3 t data with
    | (Ok h, out, _) => ob_obs 0 (Some (mkOb3 PostIO h t out))
    | (Err k, _, _) => ob_obs (1 + kcode k) None
    | (Panic, _, _) => [PANIC]
    end
  else if entry =? 8 then
    let ob0 := mkOb3 PreIO AA_hash t (stale t) in
    match init_from B3 ob0 data with Ok ob => ob_obs 0 (Some ob) | Err k => ob_obs (1 + kcode k) (Some ob0) | Panic => [PANIC] end
  else if entry =? 9 then
    let ob0 := mkOb3 PostIO AA_hash t (stale t) in
    match init_from B3 ob0 data with Ok ob => ob_obs 0 (Some ob) | Err k => ob_obs (1 + kcode k) (Some ob0) | Panic => [PANIC] end
  else if entry =? 10 then of_res (create_sized B3 PreIO data size bs)
  else if entry =? 11 then of_res (create_sized_fsm B3 PostIO data size bs)
  else if entry =? 12 then
    let ob0 := mkOb3 PostMem (zero_hash B3) t (zeros B3 (N.to_nat (outboard_size t))) in
    match outboard_impl B3 t data ob0 with
    | (Ok h, ob, _) => ob_obs 0 (Some (set_root B3 ob h))
    | (Err k, ob, _) => ob_obs (1 + kcode k) (Some ob)
    | (Panic, _, _) => [PANIC]
    end
  else if entry =? 13 then
    let ob0 := mkOb3 PreMem (zero_hash B3) t (zeros B3 (N.to_nat (outboard_size t))) in
    match outboard_impl_fsm B3 t data ob0 with
    | (Ok h, ob, _) => ob_obs 0 (Some (set_root B3 ob h))
    | (Err k, ob, _) => ob_obs (1 + kcode k) (Some ob)
    | (Panic, _, _) => [PANIC]
    end
  else if entry =? 14 then
    let ob0 := mkOb3 PostIO AA_hash t (stale t) in
    match init_from_fsm B3 ob0 data with Ok ob => ob_obs 0 (Some ob) | Err k => ob_obs (1 + kcode k) (Some ob0) | Panic => [PANIC] end
  else if entry =? 15 then of_res (create_sized B3 PreIO data size bs)      (* second create() on the same handle *)
  else if entry =? 16 then of_res (create_sized B3 PostIO data size bs)     (* create() on a handle not at position 0 *)
  else if entry =? 17 then of_res (create_sized B3 PreIO (data ++ repeat 90%uint63 3000) size bs)   (* longer source *)
  else if entry =? 19 then of_res (create_sized B3 PostIO data size bs)     (* second blob of a stream of two *)
  else
    let ob0 := mkOb3 PostIO AA_hash t (firstn (N.to_nat (outboard_size t)) (stale t)) in
    match init_from B3 ob0 (data ++ repeat 90%uint63 3000) with Ok ob => ob_obs 0 (Some ob) | Err k => ob_obs (1 + kcode k) (Some ob0) | Panic => [PANIC] end.

(* C03 over the observation: root = BLAKE3 tree hash, stored bytes = spec outboard, size formula *)
Definition holds_outboard (a o : list N) : bool :=
  let data := blob a in
  let bs := arg a 3 in let entry := arg a 4 in
  let post := existsb (N.eqb entry) [1; 3; 4; 6; 7; 9; 11; 12; 14; 16; 18; 19] in
  let is_stale := existsb (N.eqb entry) [8; 9; 14] in
  let spec := spec_outboard B3 post data bs in
  let nb := sp_blocks (blen B3 data) bs in
  match o with
  | [rc; rootd; len; datad; loadsd; f1; f2] =>
      (rc =? 0) && (rootd =? dg (root_hash B3 data)) &&
      (blen B3 spec =? (nb - 1) * 64) &&
      (if is_stale then (len =? (nb - 1) * 64 + 64) && (datad =? dg (spec ++ repeat 170%uint63 64))
       else (len =? (nb - 1) * 64) && (datad =? dg spec)) &&
      (* load of every node in pre-order = the true pairs in pre-order *)
      (loadsd =? dg (spec_outboard B3 false data bs)) &&
      (f1 =? 1) && (f2 =? 1)
  | _ => false
  end.

(* ---------------- family encode ---------------- *)
Fixpoint apply_cor (n : nat) (l : list N) (data obd : bytes) : bytes * bytes * list N :=
  match n with
  | O => (data, obd, l)
  | S k =>
    match l with
    | w :: pos :: delta :: rest =>
        if w =? 0 then apply_cor k rest (xor_at data pos delta) obd
        else if w =? 1 then apply_cor k rest data (xor_at obd pos delta)
        else if w =? 2 then apply_cor k rest (zero_from data pos) obd
        else if w =? 4 then apply_cor k rest (firstn (N.to_nat pos) data) obd
        else if w =? 5 then apply_cor k rest (data ++ repeat 90%uint63 (N.to_nat pos)) obd
        else if w =? 6 then apply_cor k rest data (firstn (N.to_nat pos) obd)
        else if w =? 7 then apply_cor k rest data (write_at B3 obd (pos * 64) (zeros B3 64))
        else apply_cor k rest data (zero_from obd pos)
    | _ => (data, obd, [])
    end
  end.

Definition enc_rc (r : res enc_err unit) : list N :=
  match r with
  | Ok _ => [0; 0]
  | Err (EParentHashMismatch n) => [1; n]
  | Err (ELeafHashMismatch c) => [2; c]
  | Err (EParentWrite n) => [3; n]
  | Err (ELeafWrite c) => [4; c]
  | Err ESizeMismatch => [5; 0]
  | Err (EIo k) => [6; kcode k]
  | Panic => [PANIC; 0]
  end.

(* args [kind; seed; size; bs; encoder; okind; ncor; (where,pos,delta)*; q...] *)
Definition encode_setup (a : list N) : bytes * outboard B3 * ranges * bytes :=
  let data0 := blob a in
  let bs := arg a 3 in
  let k := okind_of (arg a 5) in
  let ob0 := intact k data0 bs in
  let '(data, obd, q) := apply_cor (N.to_nat (arg a 6)) (skipn 7 a) data0 (ob_data ob0) in
  (data, mkOb3 k (ob_root ob0) (ob_tree ob0) obd, q, data0).

Definition flat_items (l : list (item B3)) : bytes := concat (map (item_bytes B3) l).

Definition run_encode (a : list N) : list N :=
  let '(data, ob, q, _) := encode_setup a in
  let encoder := arg a 4 in
  if encoder =? 4 then
    match traverse_ranges_validated B3 data ob q with
    | None => [PANIC]
    | Some its =>
        let body := flat_map (fun e => match e with EItem i => item_bytes B3 i | _ => [] end) its in
        let r := match last its EDone with EError e => Err e | _ => Ok tt end in
        enc_rc r ++ [blen B3 body; dg body; 1]
    end
  else
    let '(r, out) :=
      if encoder =? 0 then encode_ranges_validated B3 data ob q
      else if encoder =? 1 then encode_ranges_validated_fsm B3 data ob q
      else if encoder =? 2 then encode_ranges B3 data ob q
      else encode_ranges_fsm B3 data ob q in
    match r with
    | Panic => [PANIC]
    | _ => enc_rc r ++ [blen B3 out; dg out; 1]
    end.

(* --- C05 / C02 / C04 oracle: the first plan unit (stored pair of a node at or above the block level,
   or a chunk group) whose stored bytes differ from the blob's, in the order of the honest encoding --- *)
Inductive unit_ := UP (node : N) | UG (group_start : N).
Definition unit_eqb (x y : unit_) : bool :=
  match x, y with UP a, UP b => a =? b | UG a, UG b => a =? b | _, _ => false end.
Definition item_unit (bs : N) (i : item B3) : unit_ :=
  match i with
  | IParent n _ _ => if bs <=? sp_level n then UP n else UG (sp_chunk_start n / 2 ^ bs * 2 ^ bs)
  | ILeaf off _ => UG (off / 1024 / 2 ^ bs * 2 ^ bs)
  end.
(* corrupted units from the corruption list (positions are taken modulo the lengths, as in the harness) *)
Fixpoint cor_units (n : nat) (l : list N) (bs size : N) (k : ob_kind) (dlen oblen : N) : list unit_ :=
  match n with
  | O => []
  | S m =>
    match l with
    | w :: pos :: delta :: rest =>
        let tl := cor_units m rest bs size k dlen oblen in
        if delta =? 0 then tl
        else if w =? 0 then (if dlen =? 0 then tl else UG ((pos mod dlen) / 1024 / 2 ^ bs * 2 ^ bs) :: tl)
        else if w =? 1 then
          (if oblen =? 0 then tl else
           let slot := (pos mod oblen) / 64 in
           let nodes := filter (sp_persisted size bs) (if is_post k then sp_post_nodes size bs else sp_pre_nodes size bs) in
           match nth_error nodes (N.to_nat slot) with Some nd => UP nd :: tl | None => tl end)
        else tl
    | _ => []
    end
  end.
Fixpoint first_bad (bs : N) (bad : list unit_) (items : list (item B3)) (acc : bytes) : option unit_ * bytes :=
  match items with
  | [] => (None, acc)
  | i :: rest =>
      let u := item_unit bs i in
      if existsb (unit_eqb u) bad then (Some u, acc) else first_bad bs bad rest (acc ++ item_bytes B3 i)
  end.

(* a provider that holds only the first cut bytes of the blob (complete outboard): everything up to
   the first leaf that reaches behind the cut is sent as for the complete blob, then UnexpectedEof *)
Fixpoint upto_cut (validating : bool) (bs size cut : N) (items : list (item B3)) (acc : bytes) : bool * bytes :=
  match items with
  | [] => (true, acc)
  | i :: rest =>
      let missing :=
        if validating then
          (* the validating encoders read the whole chunk group before sending anything of it *)
          match item_unit bs i with
          | UG g => cut <? N.min ((g + 2 ^ bs) * 1024) size
          | UP _ => false
          end
        else match i with ILeaf off d => cut <? off + blen B3 d | _ => false end in
      if missing then (false, acc) else upto_cut validating bs size cut rest (acc ++ item_bytes B3 i)
  end.

Definition holds_encode (a o : list N) : bool :=
  let data0 := blob a in
  let size := blen B3 data0 in
  let bs := arg a 3 in
  let encoder := arg a 4 in
  let k := okind_of (arg a 5) in
  let ncor := N.to_nat (arg a 6) in
  let q := skipn (7 + 3 * ncor) a in
  let hon := honest B3 data0 bs q in
  let bad := cor_units ncor (skipn 7 a) bs size k size (outboard_size (mkTree size bs)) in
  match o with
  | [rc; p; len; d; frame] =>
      if (arg a 6 =? 1) && (arg a 7 =? 4) then
        let '(complete, out) := upto_cut (existsb (N.eqb encoder) [0; 1; 4]) bs size (arg a 8) hon [] in
        (len =? blen B3 out) && (d =? dg out) &&
        (if complete then (rc =? 0) && (frame =? 1) else (rc =? 6) && (p =? kcode KUnexpectedEof))
      else
      (frame =? 1) &&
      (if existsb (N.eqb encoder) [0; 1; 4] then
         match first_bad bs bad hon [] with
         | (None, out) => (rc =? 0) && (len =? blen B3 out) && (d =? dg out)
         | (Some (UP n), out) => (rc =? 1) && (p =? n) && (len =? blen B3 out) && (d =? dg out)
         | (Some (UG c), out) => (rc =? 2) && (p =? c) && (len =? blen B3 out) && (d =? dg out)
         end
       else
         (* non-validating encoders: on an intact store the same bytes as the validating ones *)
         match bad with
         | [] => (rc =? 0) && (len =? blen B3 (flat B3 hon)) && (d =? dg (flat B3 hon))
         | _ => true
         end)
  | _ => false
  end.

(* ---------------- family decode ---------------- *)
Fixpoint take_n (n : nat) (l : list N) : list N * list N :=
  match n with
  | O => ([], l)
  | S k => match l with x :: r => let '(h, t) := take_n k r in (x :: h, t) | [] => ([], []) end
  end.
Definition take_list (l : list N) : list N * list N :=
  match l with n :: r => take_n (N.to_nat n) r | [] => ([], []) end.

Definition set_at (s : bytes) (i : nat) (v : int) : bytes :=
  if Nat.ltb i (length s) then firstn i s ++ v :: skipn (S i) s else s.
Definition get_at (s : bytes) (i : nat) : int := nth i s 0%uint63.

Fixpoint copy_bytes (n : nat) (dst : bytes) (dpos : nat) (src : bytes) (spos : nat) : bytes :=
  match n with
  | O => dst
  | S k =>
      let dst' := if Nat.ltb dpos (length dst) && Nat.ltb spos (length src) then set_at dst dpos (get_at src spos) else dst in
      copy_bytes k dst' (S dpos) src (S spos)
  end.
(* copy within the stream, byte by byte in increasing order (reads see earlier writes, as in the harness) *)
Fixpoint copy_self (n : nat) (s : bytes) (dpos spos : nat) : bytes :=
  match n with
  | O => s
  | S k =>
      let s' := if Nat.ltb dpos (length s) && Nat.ltb spos (length s) then set_at s dpos (get_at s spos) else s in
      copy_self k s' (S dpos) (S spos)
  end.

Fixpoint build_stream (fuel : nat) (orig s alt : bytes) (ops : list N) : bytes :=
  match fuel with
  | O => s
  | S f =>
    match ops with
    | o :: x :: y :: z :: rest =>
        let s' :=
          if o =? 1 then firstn (N.to_nat x) s
          else if o =? 2 then (if x <? blen B3 s then set_at s (N.to_nat x) (get_at s (N.to_nat x) lxor (int_of_N (y mod 256))) else s)
          else if o =? 3 then
            (if x + 64 <=? blen B3 s then
               let i := N.to_nat x in
               firstn i s ++ firstn 32 (skipn (i + 32) s) ++ firstn 32 (skipn i s) ++ skipn (i + 64) s
             else s)
          else if o =? 4 then s ++ gen_data 0 x y
          else if o =? 5 then s ++ repeat 0%uint63 (N.to_nat x)
          else if o =? 6 then copy_bytes (N.to_nat y) s (N.to_nat x) alt (N.to_nat z)
          else if o =? 7 then copy_self (N.to_nat z) s (N.to_nat x) (N.to_nat y)
          else if o =? 8 then s ++ firstn (N.to_nat y) (skipn (N.to_nat x) alt)
          else if o =? 9 then s ++ firstn (N.to_nat y) (skipn (N.to_nat x) orig)
          else s in
        build_stream f orig s' alt rest
    | _ => s
    end
  end.

Record dsetup := mkDS {
  ds_data : bytes; ds_bs : N; ds_claimed : N; ds_driver : N; ds_sink : N; ds_q : ranges; ds_stream : bytes }.

(* args [kind; seed; size; bs; claimed; driver; sink; bs_s; size2; seed2; nq; q..; nqs; qs..; ops..] *)
Definition decode_setup (a : list N) : dsetup :=
  let data := blob a in
  let bs := arg a 3 in
  let '(q, r1) := take_list (skipn 10 a) in
  let '(qs, ops) := take_list r1 in
  let base := flat B3 (honest B3 data (arg a 7) qs) in
  let data2 := gen_data (arg a 0) (arg a 9) (arg a 8) in
  let alt := flat B3 (honest B3 data2 bs q) in
  mkDS data bs (arg a 4) (arg a 5) (arg a 6) q (build_stream (length ops) base base alt ops).

Definition item_obs (i : item B3) : list N :=
  match i with
  | IParent n l r => [0; n; 64; dg (l ++ r)]
  | ILeaf off d => [1; off; blen B3 d; dg d]
  end.
Definition dec_rc (e : dec_err) : list N :=
  match e with
  | DParentNotFound n => [1; n] | DLeafNotFound c => [2; c]
  | DParentHashMismatch n => [3; n] | DLeafHashMismatch c => [4; c] | DIo k => [5; kcode k]
  end.

(* accessor trace of the fsm decoder: 1 = hash() equals the root before every step and after an error,
   0 = some mismatch, 2 = it panicked *)
Definition upd_hash (cur : N) (st : rstate B3) (root : bytes) : N :=
  match rd_hash B3 st with
  | None => 2
  | Some h => if cur =? 2 then 2 else if bytes_eqb B3 h root then cur else 0
  end.
Definition fsm_trace_step (root : bytes) (s : rstate B3 * list (item B3) * N)
  : (rstate B3 * list (item B3) * N) + (list (item B3) * outcome * rstate B3 * N) :=
  let '(st, acc, hk) := s in
  let hk1 := upd_hash hk st root in
  match rd_next B3 st with
  | RDone _ => inr (rev acc, Finished, st, hk1)
  | RMore st' (Ok it) => inl (st', it :: acc, hk1)
  | RMore st' (Err e) => inr (rev acc, Failed e, st', upd_hash hk1 st' root)
  | RMore st' Panic => inr (rev acc, Panicked, st', hk1)
  end.

Definition run_decode (a : list N) : list N :=
  let s := decode_setup a in
  let data := ds_data s in
  let root := root_hash B3 data in
  let t := mkTree (ds_claimed s) (ds_bs s) in
  let stream := ds_stream s in
  let q := ds_q s in
  let mk_target (_ : unit) := repeat 165%uint63 (N.to_nat (ds_claimed s)) in
  let fin (oc : outcome) (consumed hash_ok tree_ok : N) (target : bytes) (obd : N) (items : list (item B3)) : list N :=
    match oc with
    | Panicked | OutOfFuel => [PANIC]
    | _ =>
      (match oc with
       | Failed e => dec_rc e ++ [1 + kcode (dec_err_kind e); 0]
       | _ => [0; 0; 0; consumed]
       end)
      ++ [hash_ok; tree_ok; blen B3 target; dg target; obd; blen B3 stream; dg stream; N.of_nat (length items)]
      ++ flat_map item_obs items
    end in
  let driver := ds_driver s in
  if (driver =? 0) || (driver =? 4) then
    let '(items, oc, st) := dec_run B3 (dec_new B3 root t stream q) in
    fin oc (blen B3 stream - blen B3 (d_enc B3 st)) 1
        (b2n ((tsize (dec_tree B3 st) =? tsize t) && (tbs (dec_tree B3 st) =? tbs t))) [] 0 items
  else if driver =? 1 then
    match loop2 LOOP_DEPTH (fsm_trace_step root) (rd_new B3 root q t stream, [], 1) with
    | inr (items, oc, st, hk) =>
        fin oc (blen B3 stream - blen B3 (r_enc B3 st)) hk
            (b2n ((tsize (rd_tree B3 st) =? tsize t) && (tbs (rd_tree B3 st) =? tbs t))) [] 0 items
    | inl _ => [PANIC]
    end
  else
    let k := okind_of (ds_sink s) in
    let ob0 := mkOb3 k root t (match k with EmptyOb => [] | _ => zeros B3 (N.to_nat (outboard_size t)) end) in
    if driver =? 2 then
      let '(r, target, ob, st) := decode_ranges B3 stream q (mk_target tt) ob0 in
      match r with
      | Panic => [PANIC]
      | Ok _ => fin Finished (blen B3 stream - blen B3 (d_enc B3 st)) 1 1 target (dg (ob_data ob)) []
      | Err e => fin (Failed e) 0 1 1 target (dg (ob_data ob)) []
      end
    else
      let '(r, target, ob, st) := decode_ranges_fsm B3 stream q (mk_target tt) ob0 in
      match r with
      | Panic => [PANIC]
      | Ok _ => fin Finished (blen B3 stream - blen B3 (r_enc B3 st)) 1 1 target (dg (ob_data ob)) []
      | Err e => fin (Failed e) 0 1 1 target (dg (ob_data ob)) []
      end.

(* --- oracle for every stream (C01, C02, C09, C16, C20): the decoder must yield exactly the honest items
   that lie completely before the first byte at which the stream departs from the honest encoding, then
   NotFound (the stream ends inside that item) or HashMismatch (it does not) naming that item. --- *)
Fixpoint common_prefix_len (x y : bytes) (n : N) : N :=
  match x, y with
  | a :: x', b :: y' => if Uint63.eqb a b then common_prefix_len x' y' (n + 1) else n
  | _, _ => n
  end.
Fixpoint expect_items (items : list (item B3)) (pos depart slen : N) (acc : list (item B3)) : list (item B3) * list N :=
  match items with
  | [] => (rev acc, [0; 0])
  | i :: rest =>
      let e := pos + blen B3 (item_bytes B3 i) in
      if e <=? depart then expect_items rest e depart slen (i :: acc)
      else
        (rev acc,
         match i with
         | IParent n _ _ => if slen <? e then [1; n] else [3; n]
         | ILeaf off _ => if slen <? e then [2; off / 1024] else [4; off / 1024]
         end)
  end.

Fixpoint write_items (items : list (item B3)) (target : bytes) : bytes :=
  match items with
  | [] => target
  | ILeaf off d :: rest => write_items rest (write_at B3 target off d)
  | _ :: rest => write_items rest target
  end.
(* outboard bytes after saving the yielded parents, by the spec positions; None = a parent without a
   slot reached a memory / empty outboard (InvalidInput) *)
Fixpoint save_items (items : list (item B3)) (k : ob_kind) (size bs : N) (obd : bytes) : option bytes * list (item B3) :=
  match items with
  | [] => (Some obd, [])
  | IParent n l r :: rest =>
      if sp_persisted size bs n then
        let nodes := filter (sp_persisted size bs) (if is_post k then sp_post_nodes size bs else sp_pre_nodes size bs) in
        match sp_index_of n nodes with
        | Some i => match k with
                    | EmptyOb => save_items rest k size bs obd
                    | _ => save_items rest k size bs (write_at B3 obd (N.of_nat i * 64) (l ++ r))
                    end
        | None => (None, [])
        end
      else save_items rest k size bs obd   (* pairs below the block size are not stored by any outboard *)
  | _ :: rest => save_items rest k size bs obd
  end.

Definition holds_decode (a o : list N) : bool :=
  let s := decode_setup a in
  let data := ds_data s in
  let size := blen B3 data in
  let bs := ds_bs s in
  let q := ds_q s in
  let claimed := ds_claimed s in
  let stream := ds_stream s in
  match o with
  | oc :: p :: iok :: consumed :: hash_ok :: tree_ok :: tlen :: tdg :: obd :: slen :: sdg :: nitems :: items =>
    (* the harness fed the same stream *)
    (slen =? blen B3 stream) && (sdg =? dg stream) &&
    (* C20 *)
    (hash_ok =? 1) && (tree_ok =? 1) &&
    (* C09: conversion to io::Error *)
    (if (oc =? 1) || (oc =? 2) then iok =? 1 + kcode KUnexpectedEof
     else if (oc =? 3) || (oc =? 4) then iok =? 1 + kcode KInvalidData else true) &&
    (if claimed =? size then
       let hon := honest B3 data bs q in
       let hb := flat B3 hon in
       let depart := common_prefix_len hb stream 0 in
       let '(exp_items, exp_rc) :=
         if depart =? blen B3 hb then (hon, [0; 0]) else expect_items hon 0 depart (blen B3 stream) [] in
       let driver := ds_driver s in
       if (driver <=? 1) || (driver =? 4) then
         list_eqb [oc; p] exp_rc && (nitems =? N.of_nat (length exp_items)) &&
         list_eqb items (flat_map item_obs exp_items) &&
         (if oc =? 0 then consumed =? blen B3 hb else true)
       else
         (* decode_ranges: target and outboard hold exactly the yielded items *)
         let k := okind_of (ds_sink s) in
         let target0 := repeat 165%uint63 (N.to_nat claimed) in
         let ob0 := match k with EmptyOb => [] | _ => zeros B3 (N.to_nat (outboard_size (mkTree size bs))) end in
         match save_items exp_items k size bs ob0 with
         | (Some obd', _) =>
             list_eqb [oc; p] exp_rc && (tdg =? dg (write_items exp_items target0)) && (obd =? dg obd') &&
             (if oc =? 0 then consumed =? blen B3 hb else true)
         | (None, _) => false
         end
     else
       (* wrong claimed size: whatever is yielded must still be the blob's bytes; and a query that selects
          the last chunk of the claimed geometry cannot complete (C16) *)
       (if sel q claimed (nchunks claimed - 1) then negb (oc =? 0) else true))
  | _ => false
  end.

(* family decode_ids (C01, literal reading of "every hash pair it stores equals the corresponding pair of the true blob"
   under ANY claimed size): as decode, and every pair the run yields (= stores, for the decode_ranges drivers) is the true
   pair of the node id it is yielded under.  Under a claimed size with a different chunk count this fails
   (C01_any_size_node_id_refuted): recorded finding. *)
Definition holds_decode_ids (a o : list N) : bool :=
  holds_decode a o &&
  let s := decode_setup a in
  let data := ds_data s in
  let '(items, _, _) := dec_run B3 (dec_new B3 (root_hash B3 data) (mkTree (ds_claimed s) (ds_bs s)) (ds_stream s) (ds_q s)) in
  forallb (fun it => match it with
                     | IParent nd l r => let '(tl, tr) := true_pair B3 data nd in bytes_eqb B3 l tl && bytes_eqb B3 r tr
                     | ILeaf _ _ => true
                     end) items.

(* ---------------- family validate ---------------- *)
(* args [kind; seed; size; bs; validator; okind; ncor; (where,pos,delta)*; q...] -> [rc; n; (s,e)*] *)
Definition run_validate (a : list N) : list N :=
  let '(data, ob, q, _) := encode_setup a in
  let validator := arg a 4 in
  let '(ys, r) :=
    if validator =? 0 then valid_ranges B3 ob data q
    else if validator =? 1 then valid_outboard_ranges B3 ob q
    else if validator =? 2 then valid_ranges_fsm B3 ob data q
    else valid_outboard_ranges_fsm B3 ob q in
  match r with
  | Panic => [PANIC]
  | _ => [io_rc r; N.of_nat (length ys)] ++ flat_map (fun p => [fst p; snd p]) ys
  end.

(* C06 oracle: group g is reported iff the query touches it, every stored pair on the path from the
   root to g hashes to what is owed from above, and (data validator) the stored bytes hash to the leaf value.
   Evaluated by recursion over the tree of groups with the stored pairs looked up by spec position. *)
Definition stored_pair (k : ob_kind) (size bs : N) (obd : bytes) (nd : N) : hash B3 * hash B3 :=
  let nodes := filter (sp_persisted size bs) (if is_post k then sp_post_nodes size bs else sp_pre_nodes size bs) in
  match sp_index_of nd nodes with
  | Some i => let c := slice B3 (N.of_nat i * 64) 64 obd in (firstn 32 c, skipn 32 c)
  | None => ([], [])
  end.
Fixpoint val_rec (fuel : nat) (with_data : bool) (k : ob_kind) (size bs : N) (data obd : bytes) (Sel : N -> bool)
         (ga n : N) (owed : hash B3) (is_root : bool) : list (N * N) :=
  match fuel with
  | O => []
  | S f =>
    let g := 2 ^ bs in
    let nch := nchunks size in
    let a := ga * g in let e := N.min ((ga + n) * g) nch in
    if negb (existsb Sel (chunk_range_list a e)) then []
    else if n <=? 1 then
      if with_data then
        (if bytes_eqb B3 (hash_subtree B3 a (chunk_bytes B3 data a e) is_root) owed then [(a, e)] else [])
      else [(a, e)]
    else
      let half := next_pow2 n / 2 in
      let nd := unshift bs (ga + half - 1) in
      let '(l, r) := stored_pair k size bs obd nd in
      if bytes_eqb B3 (parent_cv B3 l r is_root) owed then
        val_rec f with_data k size bs data obd Sel ga half l false
        ++ val_rec f with_data k size bs data obd Sel (ga + half) (n - half) r false
      else []
  end.

Fixpoint is_prefix_n (p l : list N) : bool :=
  match p, l with [], _ => true | x :: p', y :: l' => (x =? y) && is_prefix_n p' l' | _, _ => false end.
Definition holds_validate (a o : list N) : bool :=
  let '(data, ob, q, data0) := encode_setup a in
  let size := blen B3 data0 in
  let bs := arg a 3 in
  let validator := arg a 4 in
  let k := okind_of (arg a 5) in
  let with_data := (validator =? 0) || (validator =? 2) in
  let nb := sp_blocks size bs in
  let expected :=
    if nb =? 1 then
      (* single block: reported whenever valid, whatever the query *)
      if with_data then (if bytes_eqb B3 (hash_subtree B3 0 data true) (ob_root ob) then [(0, chunks size)] else [])
      else [(0, chunks size)]
    else val_rec 70 with_data k size bs data (ob_data ob) (sel q size) 0 nb (ob_root ob) true in
  match o with
  | rc :: n :: rest =>
      if blen B3 data <? size then
        (* partially filled data file: the run may end with UnexpectedEof; what is reported before must be groups that are
           verifiably stored: a prefix of the groups expected for the zero-padded file, each lying inside the stored bytes *)
        let padded := data ++ repeat 0%uint63 (N.to_nat (size - blen B3 data)) in
        let exp_p :=
          if nb =? 1 then []
          else val_rec 70 with_data k size bs padded (ob_data ob) (sel q size) 0 nb (ob_root ob) true in
        let flat_exp := flat_map (fun p => [fst p; snd p]) exp_p in
        ((rc =? 0) || (rc =? 1 + kcode KUnexpectedEof)) &&
        is_prefix_n rest flat_exp &&
        (if with_data then forallb (fun p => N.min (snd p * 1024) size <=? blen B3 data) (firstn (N.to_nat n) exp_p) else true)
      else
      (rc =? 0) && list_eqb rest (flat_map (fun p => [fst p; snd p]) expected) && (n =? N.of_nat (length expected))
  | _ => false
  end.

(* ---------------- families agree_enc / agree_dec / agree_ob (C08) ---------------- *)
Definition set_nth (l : list N) (i : nat) (v : N) : list N := firstn i l ++ v :: skipn (S i) l.
Definition pad5 (l : list N) : list N := match l with [x] => [x; 0; 0; 0; 0] | _ => l end.
Definition run_agree_enc (a : list N) : list N :=
  flat_map (fun e => pad5 (run_encode (set_nth a 4 e))) [0; 1; 2; 3; 4].
Definition run_agree_dec (a : list N) : list N :=
  flat_map (fun d => let r := run_decode (set_nth a 5 d) in N.of_nat (length r) :: r) [0; 1; 2; 3; 4].
(* the four validators side by side (args as validate; the validator field is overwritten) *)
Definition run_agree_val (a : list N) : list N :=
  flat_map (fun v => let r := run_validate (set_nth a 4 v) in N.of_nat (length r) :: r) [0; 1; 2; 3].
Fixpoint split_lens (fuel : nat) (o : list N) : list (list N) :=
  match fuel with
  | O => []
  | S f => match o with
           | [] => []
           | n :: r => firstn (N.to_nat n) r :: split_lens f (skipn (N.to_nat n) r)
           end
  end.
(* C06 / C08: the sync and the async validator of each flavour report the same ranges and the same outcome *)
Definition holds_agree_val (a o : list N) : bool :=
  match split_lens 5 o with
  | [v0; v1; v2; v3] => list_eqb v0 v2 && list_eqb v1 v3 && negb (existsb (fun x => x =? PANIC) o)
  | _ => false
  end.
Definition pad7 (l : list N) : list N := match l with [x] => [x; 0; 0; 0; 0; 0; 0] | _ => l end.
Definition run_agree_ob (a : list N) : list N :=
  flat_map (fun e => pad7 (run_outboard (a ++ [e]))) [0; 1; 2; 3; 4; 5; 6; 7; 8; 9; 10; 11; 12; 13; 14; 15; 16; 17; 18].

Fixpoint chunks_of (n : nat) (l : list N) (fuel : nat) : list (list N) :=
  match fuel with
  | O => []
  | S f => match l with [] => [] | _ => firstn n l :: chunks_of n (skipn n l) f end
  end.
Definition all_equal (ls : list (list N)) : bool :=
  match ls with [] => true | x :: r => forallb (list_eqb x) r end.

(* sync, fsm and item-stream validating encoders agree (bytes, error variant and payload); the two
   non-validating encoders agree with each other, and with the validating ones on an intact store *)
Definition holds_agree_enc (a o : list N) : bool :=
  match chunks_of 5 o 6 with
  | [e0; e1; e2; e3; e4] =>
      let ncor := arg a 6 in
      all_equal [e0; e1; e4] && list_eqb e2 e3 &&
      (if ncor =? 0 then list_eqb e2 e0 else true) &&
      negb (existsb (fun x => x =? PANIC) o)
  | _ => false
  end.

Fixpoint split_lp (l : list N) (fuel : nat) : list (list N) :=
  match fuel with
  | O => []
  | S f => match l with
           | [] => []
           | n :: r => firstn (N.to_nat n) r :: split_lp (skipn (N.to_nat n) r) f
           end
  end.
(* same items, same error variant and payload for the iterator drivers; same result, target and
   outboard for the two decode_ranges drivers *)
Definition holds_agree_dec (a o : list N) : bool :=
  match split_lp o 6 with
  | [d0; d1; d2; d3; d4] =>
      negb (existsb (fun x => x =? PANIC) o) &&
      (* the two constructors of the sync iterator (new, new_with_buffer on a recycled buffer) behave alike *)
      list_eqb d0 d4 &&
      (* outcome, payload, io kind, consumed *)
      list_eqb (firstn 4 d0) (firstn 4 d1) && list_eqb (skipn 9 d0) (skipn 9 d1) &&
      list_eqb (firstn 4 d2) (firstn 4 d3) && list_eqb (skipn 6 d2) (skipn 6 d3) &&
      list_eqb (firstn 3 d0) (firstn 3 d2)
  | _ => false
  end.
(* byte-identical outboards and roots: all pre-order creation paths agree, all post-order ones agree *)
Definition holds_agree_ob (a o : list N) : bool :=
  match chunks_of 7 o 20 with
  | [e0; e1; e2; e3; e4; e5; e6; e7; e8; e9; e10; e11; e12; e13; e14; e15; e16; e17; e18] =>
      negb (existsb (fun x => x =? PANIC) o) &&
      all_equal [e0; e2; e5; e10; e13; e15; e17] && all_equal [e1; e3; e4; e6; e7; e11; e12; e16; e18] &&
      all_equal (map (fun e => firstn 2 e) [e0; e1; e8; e9; e14]) && list_eqb e9 e14
  | _ => false
  end.

(* ---------------- family history (C07) ---------------- *)
(* args [kind; seed; size; bs; sink; driver; prefill; nops; (nq; q..; cutkind; cutparam)*] *)
Fixpoint hist_ops (n : nat) (l : list N) : list (ranges * N * N) :=
  match n with
  | O => []
  | S k =>
    let '(q, r) := take_list l in
    match r with
    | ck :: cp :: rest => (q, ck, cp) :: hist_ops k rest
    | _ => []
    end
  end.

Definition hist_step_run (data : bytes) (bs driver : N) (st : bytes * outboard B3) (op : ranges * N * N)
  : (bytes * outboard B3) * list N :=
  let '(target, ob) := st in
  let '(q, ck, cp) := op in
  let full := flat B3 (honest B3 data bs q) in
  let stream := if ck =? 1 then firstn (N.to_nat cp) full else full in
  let sf := mkSF (if ck =? 2 then Some cp else None) (if (ck =? 3) || (ck =? 4) then Some cp else None)
                 (if ck =? 4 then KInvalidInput else KOther) in
  let '(r, target', ob') :=
    if driver =? 2 then let '(r, t', o', _) := decode_ranges_f B3 sf stream q target ob in (r, t', o')
    else let '(r, t', o', _) := decode_ranges_fsm_f B3 sf stream q target ob in (r, t', o') in
  let rc := match r with Ok _ => [0; 0] | Err e => dec_rc e | Panic => [PANIC; 0] end in
  let '(ys, vr) := valid_ranges B3 ob' target' [0] in
  ((target', ob'),
   rc ++ [dg target'; dg (ob_data ob'); io_rc vr; N.of_nat (length ys)] ++ flat_map (fun p => [fst p; snd p]) ys).

Definition hist_sink (n : N) : ob_kind := okind_of (if 5 <=? n then n - 5 else n).
Definition run_history (a : list N) : list N :=
  let data := blob a in
  let bs := arg a 3 in
  let t := mkTree (blen B3 data) bs in
  let k := hist_sink (arg a 4) in
  let ob0 := mkOb3 k (root_hash B3 data) t (match k with EmptyOb => [] | _ => zeros B3 (N.to_nat (outboard_size t)) end) in
  let ops := hist_ops (N.to_nat (arg a 7)) (skipn 8 a) in
  snd (fold_left (fun acc op => let '(st, out) := acc in
                                let '(st', o) := hist_step_run data bs (arg a 5) st op in (st', out ++ o))
                 ops ((repeat (int_of_N (arg a 6)) (length data), ob0), [])).

(* --- C07 oracle: D = chunks delivered so far, computed from the honest item list and the cut --- *)
Definition leaf_chunk_list (off len : N) : list N :=
  let s := off / 1024 in map (fun i => s + N.of_nat i) (seq 0 (N.to_nat (N.max 1 ((len + 1023) / 1024)))).
(* items yielded by a step: those lying completely before the cut *)
Fixpoint delivered_items (items : list (item B3)) (ck cp : N) (pos nl np : N) : list (item B3) :=
  match items with
  | [] => []
  | i :: rest =>
      let e := pos + blen B3 (item_bytes B3 i) in
      if (ck =? 1) && (cp <? e) then []
      else match i with
           | ILeaf _ _ => if (ck =? 2) && (nl =? cp) then [] else i :: delivered_items rest ck cp e (nl + 1) np
           | IParent _ _ _ => if ((ck =? 3) || (ck =? 4)) && (np =? cp) then [] else i :: delivered_items rest ck cp e nl (np + 1)
           end
  end.
Definition add_delivered (D : list N) (items : list (item B3)) : list N :=
  D ++ flat_map (fun i => match i with ILeaf off d => leaf_chunk_list off (blen B3 d) | _ => [] end) items.
Definition inD (D : list N) (c : N) : bool := existsb (N.eqb c) D.

Definition expected_target (prefill : N) (data : bytes) (D : list N) : bytes :=
  let n := nchunks (blen B3 data) in
  flat_map (fun c => let cb := chunk_bytes B3 data c (c + 1) in
                     if inD D c then cb else repeat (int_of_N prefill) (length cb))
           (map N.of_nat (seq 0 (N.to_nat n))).
Definition expected_groups (size bs : N) (D : list N) : list N :=
  let n := nchunks size in let g := 2 ^ bs in
  flat_map (fun ga => let a := ga * g in let e := N.min ((ga + 1) * g) n in
                      if forallb (inD D) (chunk_range_list a e) then [a; if size =? 0 then 0 else e] else [])
           (map N.of_nat (seq 0 (N.to_nat ((n + g - 1) / g)))).

Fixpoint holds_hist_steps (fuel : nat) (prefill : N) (data : bytes) (bs : N) (post : bool) (ops : list (ranges * N * N)) (o : list N) (D : list N) : bool :=
  match fuel with
  | O => false
  | S f =>
    match ops with
    | [] => match o with [] => true | _ => false end
    | (q, ck, cp) :: rest =>
      match o with
      | rc :: p :: tdg :: obdg :: verr :: nr :: more =>
          let rs := firstn (2 * N.to_nat nr) more in
          let more' := skipn (2 * N.to_nat nr) more in
          let hon := honest B3 data bs q in
          let D' := add_delivered D (delivered_items hon ck cp 0 0 0) in
          let size := blen B3 data in
          let all := forallb (inD D') (map N.of_nat (seq 0 (N.to_nat (nchunks size)))) in
          (tdg =? dg (expected_target prefill data D')) && (verr =? 0) &&
          list_eqb rs (expected_groups size bs D') &&
          (if all then obdg =? dg (spec_outboard B3 post data bs) else true) &&
          holds_hist_steps f prefill data bs post rest more' D'
      | _ => false
      end
    end
  end.
Definition holds_history (a o : list N) : bool :=
  let data := blob a in
  let ops := hist_ops (N.to_nat (arg a 7)) (skipn 8 a) in
  negb (existsb (fun x => x =? PANIC) o) &&
  holds_hist_steps (S (length ops)) (arg a 6) data (arg a 3) (is_post (hist_sink (arg a 4))) ops o [].

(* ---------------- families bao / copy / grow ---------------- *)
Fixpoint le_bytes (n : nat) (x : N) : bytes :=
  match n with O => [] | S k => int_of_N (x mod 256) :: le_bytes k (x / 256) end.
(* args [kind; seed; size; a; b]: bao slice of chunks [a, b) = little-endian size ++ the block-size-0 encoding *)
Definition run_bao (a : list N) : list N :=
  let data := blob a in
  let s := le_bytes 8 (blen B3 data) ++ flat B3 (honest B3 data 0 [arg a 3; arg a 4]) in
  [blen B3 s; dg s; 1; 1].
Definition holds_bao (a o : list N) : bool :=
  match o with [_; _; ok; eq] => (ok =? 1) && (eq =? 1) | _ => false end.

(* args [kind; seed; size; bs; from_kind; to_kind; driver] *)
(* from_kind 5: a node-keyed source outboard with some pairs missing: every remaining pair must arrive.
   (spec-level expectation: the map outboard is not one of the crate's outboards and has no transcription) *)
Definition run_copy_map (a : list N) : list N :=
  let data := blob a in
  let bs := arg a 3 in
  let full := intact PreIO data bs in
  let t := ob_tree full in
  let k2 := okind_of (arg a 5) in
  let removed := skipn 7 a in
  let nodes := filter (fun n => match load_sync B3 full n with Ok (Some _) => true | _ => false end) (pre_order_nodes_iter t) in
  let to0 := mkOb3 k2 (ob_root full) t (match k2 with EmptyOb => [] | _ => zeros B3 (N.to_nat (outboard_size t)) end) in
  let to := fold_left (fun acc (p : nat * N) =>
                         let '(i, n) := p in
                         if existsb (N.eqb (N.of_nat i)) removed then acc
                         else match load_sync B3 full n with
                              | Ok (Some (l, r)) => match save B3 acc n l r with Ok o => o | _ => acc end
                              | _ => acc
                              end)
                      (combine (seq 0 (length nodes)) nodes) to0 in
  [0; dg (ob_data to); loads_digest to; 0; 1].

Definition run_copy (a : list N) : list N :=
  if arg a 4 =? 5 then run_copy_map a else
  let data := blob a in
  let bs := arg a 3 in
  let from := intact (okind_of (arg a 4)) data bs in
  let t := ob_tree from in
  let k2 := okind_of (arg a 5) in
  let to0 := mkOb3 k2 (ob_root from) t (match k2 with EmptyOb => [] | _ => zeros B3 (N.to_nat (outboard_size t)) end) in
  let r := if arg a 6 =? 0 then copy B3 from to0 else copy_fsm B3 from to0 in
  match r with
  | Ok to => [0; dg (ob_data to); loads_digest to; loads_digest from; 1]
  | Err k => [1 + kcode k; dg (ob_data to0); loads_digest to0; loads_digest from; 1]
  | Panic => [PANIC]
  end.
(* C12: converting / copying loses and invents nothing *)
Definition holds_copy (a o : list N) : bool :=
  let data := blob a in
  let bs := arg a 3 in
  let k2 := okind_of (arg a 5) in
  if arg a 4 =? 5 then list_eqb o (run_copy_map a) else
  match o with
  | [rc; tod; tol; froml; ff] =>
      (rc =? 0) && (ff =? 1) &&
      (match k2 with EmptyOb => true | _ => (tol =? froml) && (tod =? dg (spec_outboard B3 (is_post k2) data bs)) end)
  | _ => false
  end.

Fixpoint common_prefix_n (x y : bytes) (n : N) : N :=
  match x, y with
  | a :: x', b :: y' => if Uint63.eqb a b then common_prefix_n x' y' (n + 1) else n
  | _, _ => n
  end.
(* args [kind; seed; size1; size2; bs] *)
Definition run_grow (a : list N) : list N :=
  let d2 := gen_data (arg a 0) (arg a 1) (arg a 3) in
  let d1 := firstn (N.to_nat (arg a 2)) d2 in
  let bs := arg a 4 in
  let o1 := spec_outboard B3 true d1 bs in
  let o2 := spec_outboard B3 true d2 bs in
  [blen B3 o1; dg o1; blen B3 o2; dg o2; common_prefix_n o1 o2 0].
(* C13: the post-order outboard cut after its stable pairs is a byte prefix of every extension's *)
Definition holds_grow (a o : list N) : bool :=
  let bs := arg a 4 in
  match o with
  | [l1; _; l2; _; cp] =>
      (l1 =? (sp_blocks (arg a 2) bs - 1) * 64) && (l2 =? (sp_blocks (arg a 3) bs - 1) * 64) &&
      (64 * sp_stable_count (arg a 2) bs <=? cp)
  | _ => false
  end.

(* ---------------- family poststep: decoders polled again after errors ---------------- *)
Definition ev_of (r : res dec_err (item B3)) : list N :=
  match r with
  | Ok (IParent n l r') => [1; n; 64; dg (l ++ r')]
  | Ok (ILeaf off d) => [2; off; blen B3 d; dg d]
  | Err e => 3 :: dec_rc e ++ [0]
  | Panic => [9; 0; 0; 0]
  end.
Fixpoint post_sync (fuel : nat) (st : dstate B3) : list N :=
  match fuel with
  | O => []
  | S f => match dec_next B3 st with
           | None => [0; 0; 0; 0]
           | Some (Panic, _) => [9; 0; 0; 0]
           | Some (r, st') => ev_of r ++ post_sync f st'
           end
  end.
Fixpoint post_fsm (fuel : nat) (st : rstate B3) : list N :=
  match fuel with
  | O => []
  | S f => match rd_next B3 st with
           | RDone _ => [0; 0; 0; 0]
           | RMore _ Panic => [9; 0; 0; 0]
           | RMore st' r => ev_of r ++ post_fsm f st'
           end
  end.
Definition run_poststep (a : list N) : list N :=
  let s := decode_setup a in
  let root := root_hash B3 (ds_data s) in
  let t := mkTree (ds_claimed s) (ds_bs s) in
  if ds_driver s =? 0 then post_sync 64 (dec_new B3 root t (ds_stream s) (ds_q s))
  else post_fsm 64 (rd_new B3 root (ds_q s) t (ds_stream s)).

(* C01 / C09 for a decoder that is polled past its first error: still no panic, and whatever it yields as Ok
   is the blob's: a leaf holds the blob's bytes at its offset, a pair is the true pair of its node *)
Fixpoint events4 (l : list N) (fuel : nat) : list (N * N * N * N) :=
  match fuel with
  | O => []
  | S f => match l with a :: b :: c :: d :: r => (a, b, c, d) :: events4 r f | _ => [] end
  end.
Definition holds_poststep_gen (panic_matters foreign_matters : bool) (a o : list N) : bool :=
  let s := decode_setup a in
  let data := ds_data s in
  forallb (fun e => match e with (k, x, y, z) =>
    if k =? 9 then negb panic_matters
    else if negb foreign_matters then true
    else if k =? 2 then (z =? dg (slice B3 x y data)) && (x + y <=? blen B3 data) || ((y =? 0) && (blen B3 data =? 0))
    else if k =? 1 then
      (if ds_claimed s =? blen B3 data then
         let '(l, r) := true_pair B3 data x in z =? dg (l ++ r)
       else true)
    else true end) (events4 o (length o)).
(* C01: whatever is yielded as Ok is the blob's (a panic yields nothing); C09: no panic *)
Definition holds_poststep (a o : list N) : bool := holds_poststep_gen false true a o.
Definition holds_poststep9 (a o : list N) : bool := holds_poststep_gen true false a o.
