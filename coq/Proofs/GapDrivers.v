(* Gap audit:
   C16 - with a wrong claimed size every stream is rejected WITH AN ERROR (iterators), and the two
         decode_ranges drivers return that error (or the io error / panic of a failing save);
   C09 - exact location of a truncation / alteration for the two decode_ranges drivers, with the
         io kind of the reported error;
   C01 - the end-to-end theorems without the side condition q <> [];
   C20 - the position of the reader after ANY sequence of calls of next (errors included). *)
From BaoV Require Import Model.Fsm Spec.RangeSpec Spec.PlanSpec Spec.EncSpec Spec.HashAssm Spec.PTree Spec.SpecTree.
From BaoV Require Proofs.PlanRun Proofs.RangeTrunc.
From BaoV Require Import Proofs.BridgeLeaves.
From BaoV Require Import Proofs.DecLoop Proofs.DecHash Proofs.DecForest Proofs.DecConst Proofs.DecRanges Proofs.DecTheorems.
From BaoV Require Import Proofs.E2EGlue Proofs.E2EDecode Proofs.E2ERanges Proofs.E2EMisc.
From BaoV Require Import Proofs.SizeMain Proofs.GapPolls.
From Coq Require Import Lia Arith.
Open Scope N_scope.

(* ================= C16 ================= *)
Section C16.
Variable HO : hops.
Hypothesis HOK : hash_ok HO.
Variable data : bytes HO.
Variables (size' bs : N) (q : ranges).
Hypothesis Hsize' : size' <= 2 ^ 63.
Hypothesis Hdata : blen HO data <= 2 ^ 63.
Hypothesis Hbs : bs <= 10.
Hypothesis Hwf : wf_ranges q = true.
Hypothesis Hsel : sel q size' (nchunks size' - 1) = true.
Hypothesis Hwrong : size' <> blen HO data.

Theorem c16_rejected_sync : forall (stream : bytes HO) ys o st,
  dec_run HO (dec_new HO (root_hash HO data) (mkTree size' bs) stream q) = (ys, o, st) ->
  exists e, o = Failed e.
Proof.
  intros stream ys o st H.
  destruct (c16_total HO HOK data size' bs q stream Hsize' Hdata Hbs Hwf Hsel) as [T1 _].
  destruct (T1 ys o st H) as [N1 N2].
  destruct o as [|e| |]; [|exists e; reflexivity|contradiction|contradiction].
  exfalso. apply Hwrong.
  exact (c16_size_authenticated HO HOK data size' bs q stream ys st Hsize' Hdata Hbs Hwf Hsel H).
Qed.

Theorem c16_rejected_fsm : forall (stream : bytes HO) ys o st,
  rd_run HO (rd_new HO (root_hash HO data) q (mkTree size' bs) stream) = (ys, o, st) ->
  exists e, o = Failed e.
Proof.
  intros stream ys o st H.
  destruct (c16_total HO HOK data size' bs q stream Hsize' Hdata Hbs Hwf Hsel) as [_ T2].
  destruct (T2 ys o st H) as [N1 N2].
  destruct o as [|e| |]; [|exists e; reflexivity|contradiction|contradiction].
  exfalso. apply Hwrong.
  exact (c16_size_authenticated_fsm HO HOK data size' bs q stream ys st Hsize' Hdata Hbs Hwf Hsel H).
Qed.

Lemma claimed_ends : exists n,
  ends_within response_next (response_new (mkTree size' bs) (truncate_ranges q size')) n /\ N.of_nat n < 2 ^ 64.
Proof.
  destruct (response_ends size' bs (truncate_ranges q size') Hsize' (RangeTrunc.truncate_wf q size' Hwf))
    as (n & He & Hn & _).
  exists n. split; assumption.
Qed.

Theorem c16_decode_ranges_rejected : forall (stream target : bytes HO) (ob : outboard HO) res target' ob' st',
  ob_root ob = root_hash HO data -> ob_tree ob = mkTree size' bs ->
  decode_ranges HO stream q target ob = (res, target', ob', st') ->
  exists ys e, let a := apply_items HO ys target ob in
    res = ranges_result (a_res HO a) (Failed e) /\ target' = a_target HO a /\ ob' = a_ob HO a.
Proof.
  intros stream target ob res target' ob' st' Hr Ht Hd.
  destruct (dec_run HO (dec_new HO (ob_root ob) (ob_tree ob) stream q)) as [[ys o] stf] eqn:Hrun.
  destruct claimed_ends as (n & En & Bn).
  assert (En' : ends_within response_next
                  (response_new (ob_tree ob) (truncate_ranges q (tsize (ob_tree ob)))) n)
    by (rewrite Ht; exact En).
  destruct (decode_ranges_sound HO n stream q target ob ys o stf En' Bn Hrun) as (st1 & Hd').
  rewrite Hr, Ht in Hrun. destruct (c16_rejected_sync stream ys o stf Hrun) as [e ->].
  rewrite Hd in Hd'. injection Hd' as -> -> -> _. exists ys, e. cbv zeta. auto.
Qed.

Theorem c16_decode_ranges_fsm_rejected : forall (stream target : bytes HO) (ob : outboard HO) res target' ob' st',
  ob_root ob = root_hash HO data -> ob_tree ob = mkTree size' bs ->
  decode_ranges_fsm HO stream q target ob = (res, target', ob', st') ->
  exists ys e, let a := apply_items HO ys target ob in
    res = ranges_result (a_res HO a) (Failed e) /\ target' = a_target HO a /\ ob' = a_ob HO a.
Proof.
  intros stream target ob res target' ob' st' Hr Ht Hd.
  destruct (rd_run HO (rd_new HO (ob_root ob) q (ob_tree ob) stream)) as [[ys o] stf] eqn:Hrun.
  destruct claimed_ends as (n & En & Bn).
  assert (En' : ends_within response_next
                  (response_new (ob_tree ob) (truncate_ranges_owned q (tsize (ob_tree ob)))) n)
    by (rewrite Ht, RangeTrunc.truncate_owned_eq; exact En).
  destruct (decode_ranges_fsm_sound HO n stream q target ob ys o stf En' Bn Hrun) as (st1 & Hd').
  rewrite Hr, Ht in Hrun. destruct (c16_rejected_fsm stream ys o stf Hrun) as [e ->].
  rewrite Hd in Hd'. injection Hd' as -> -> -> _. exists ys, e. cbv zeta. auto.
Qed.
End C16.

(* a save into an io-backed or empty outboard never panics, and keeps the kind *)
Section Saves.
Variable HO : hops.
Definition io_kind_ob (ob : outboard HO) : Prop := ob_k ob = PreIO \/ ob_k ob = PostIO \/ ob_k ob = EmptyOb.

Lemma save_io_kind : forall (ob : outboard HO) node l r, io_kind_ob ob ->
  save HO ob node l r <> Panic /\ (forall ob1, save HO ob node l r = Ok ob1 -> io_kind_ob ob1).
Proof.
  intros ob node l r Hk. unfold save, io_kind_ob in *.
  destruct (ob_k ob) eqn:Ek; try (destruct Hk as [Hk|[Hk|Hk]]; discriminate).
  - destruct (ob_offset HO ob node);
      (split; [discriminate|intros ob1 E; injection E as <-; cbn [ob_k]; rewrite ?Ek; auto]).
  - destruct (ob_offset HO ob node);
      (split; [discriminate|intros ob1 E; injection E as <-; cbn [ob_k]; rewrite ?Ek; auto]).
  - destruct (level node <? tbs (ob_tree ob));
      [split; [discriminate|intros ob1 E; injection E as <-; rewrite Ek; auto]|].
    destruct (is_relevant_for_outboard (ob_tree ob) node);
      (split; [discriminate|intros ob1 E; try discriminate; injection E as <-; rewrite Ek; auto]).
Qed.

Lemma apply_items_io_kind : forall (ys : list (item HO)) (target : bytes HO) (ob : outboard HO),
  io_kind_ob ob -> a_res HO (apply_items HO ys target ob) <> SPanic.
Proof.
  induction ys as [|[node l r|off d] ys IH]; intros target ob Hk; cbn [apply_items].
  - discriminate.
  - destruct (save_io_kind ob node l r Hk) as [Hn Hp].
    destruct (save HO ob node l r) as [ob1|k|]; [apply IH; apply Hp; reflexivity|discriminate|contradiction].
  - apply IH. exact Hk.
Qed.

Lemma ranges_result_failed : forall sr e, sr <> SPanic -> exists e', ranges_result sr (Failed e) = Err e'.
Proof. intros [|k|] e H; [exists e|exists (DIo k)|contradiction]; reflexivity. Qed.
End Saves.

Theorem c16_drivers_error : forall HO, hash_ok HO ->
  forall (data : bytes HO) size' bs q (stream target : bytes HO) (ob : outboard HO),
  size' <= 2 ^ 63 -> blen HO data <= 2 ^ 63 -> bs <= 10 -> wf_ranges q = true ->
  sel q size' (nchunks size' - 1) = true -> size' <> blen HO data ->
  ob_root ob = root_hash HO data -> ob_tree ob = mkTree size' bs ->
  (ob_k ob = PreIO \/ ob_k ob = PostIO \/ ob_k ob = EmptyOb) ->
  (exists e, fst (fst (fst (decode_ranges HO stream q target ob))) = Err e) /\
  (exists e, fst (fst (fst (decode_ranges_fsm HO stream q target ob))) = Err e).
Proof.
  intros HO HOK data size' bs q stream target ob H1 H2 H3 H4 H5 H6 Hr Ht Hk. split.
  - destruct (decode_ranges HO stream q target ob) as [[[res t'] ob'] st'] eqn:Hd.
    destruct (c16_decode_ranges_rejected HO HOK data size' bs q H1 H2 H3 H4 H5 H6 _ _ _ _ _ _ _ Hr Ht Hd)
      as (ys & e & Hres & _). cbn [fst]. rewrite Hres.
    apply ranges_result_failed. apply apply_items_io_kind. exact Hk.
  - destruct (decode_ranges_fsm HO stream q target ob) as [[[res t'] ob'] st'] eqn:Hd.
    destruct (c16_decode_ranges_fsm_rejected HO HOK data size' bs q H1 H2 H3 H4 H5 H6 _ _ _ _ _ _ _ Hr Ht Hd)
      as (ys & e & Hres & _). cbn [fst]. rewrite Hres.
    apply ranges_result_failed. apply apply_items_io_kind. exact Hk.
Qed.

(* ================= C09 ================= *)
Lemma item_err_kind : forall HO (nf : bool) (it : item HO),
  dec_err_kind (item_err HO nf it) = if nf then KUnexpectedEof else KInvalidData.
Proof. intros HO nf [n l r|off d]; destruct nf; reflexivity. Qed.

Section C09.
Variable HO : hops.
Hypothesis HOK : hash_ok HO.
Variable data : bytes HO.
Variables (bs : N) (q : ranges).
Hypothesis Hsize : blen HO data <= 2 ^ 63.
Hypothesis Hbs : bs <= 10.
Hypothesis Hwf : wf_ranges q = true.

Notation t := (mkTree (blen HO data) bs).
Notation root := (root_hash HO data).
Notation hon := (honest HO data bs q).

(* an index into the honest bytes exists only for a non-empty query *)
Lemma index_nonempty : forall p k, (p < length (flat HO (firstn (S k) hon)))%nat -> q <> [].
Proof. intros p k H Hq. rewrite Hq, honest_nil in H. cbn in H. lia. Qed.

(* what decode_ranges returns when the decoder yields ys and then fails with e *)
Definition driver_post (ys : list (item HO)) (e : dec_err) (target : bytes HO) (ob : outboard HO)
  (r : res dec_err unit * bytes HO * outboard HO) : Prop :=
  let a := apply_items HO ys target ob in
  r = (ranges_result (a_res HO a) (Failed e), a_target HO a, a_ob HO a) /\
  (a_res HO a = SOk -> fst (fst r) = Err e).

Lemma driver_post_intro : forall ys e target ob,
  let a := apply_items HO ys target ob in
  driver_post ys e target ob (ranges_result (a_res HO a) (Failed e), a_target HO a, a_ob HO a).
Proof. intros ys e target ob. cbv zeta. split; [reflexivity|]. intro H. cbn [fst]. rewrite H. reflexivity. Qed.

Lemma drivers_of_runs : forall (stream target : bytes HO) (ob : outboard HO) ys e,
  ob_root ob = root -> ob_tree ob = t ->
  (forall ys' o st, dec_run HO (dec_new HO root t stream q) = (ys', o, st) -> ys' = ys /\ o = Failed e) ->
  (forall ys' o st, rd_run HO (rd_new HO root q t stream) = (ys', o, st) -> ys' = ys /\ o = Failed e) ->
  driver_post ys e target ob (fst (decode_ranges HO stream q target ob)) /\
  driver_post ys e target ob (fst (decode_ranges_fsm HO stream q target ob)).
Proof.
  intros stream target ob ys e Hr Ht R1 R2.
  destruct (setup_ends HO data bs q Hsize Hbs Hwf) as (n & En & Bn). split.
  - destruct (dec_run HO (dec_new HO (ob_root ob) (ob_tree ob) stream q)) as [[ys' o] stf] eqn:Hrun.
    assert (En' : ends_within response_next
                    (response_new (ob_tree ob) (truncate_ranges q (tsize (ob_tree ob)))) n)
      by (rewrite Ht; exact En).
    destruct (decode_ranges_sound HO n stream q target ob ys' o stf En' Bn Hrun) as (st1 & Hd).
    rewrite Hr, Ht in Hrun. destruct (R1 _ _ _ Hrun) as [-> ->].
    rewrite Hd. cbn [fst]. apply driver_post_intro.
  - destruct (rd_run HO (rd_new HO (ob_root ob) q (ob_tree ob) stream)) as [[ys' o] stf] eqn:Hrun.
    assert (En' : ends_within response_next
                    (response_new (ob_tree ob) (truncate_ranges_owned q (tsize (ob_tree ob)))) n)
      by (rewrite Ht, RangeTrunc.truncate_owned_eq; exact En).
    destruct (decode_ranges_fsm_sound HO n stream q target ob ys' o stf En' Bn Hrun) as (st1 & Hd).
    rewrite Hr, Ht in Hrun. destruct (R2 _ _ _ Hrun) as [-> ->].
    rewrite Hd. cbn [fst]. apply driver_post_intro.
Qed.

Theorem c09_drivers_truncation : forall (p k : nat) (target : bytes HO) (ob : outboard HO),
  (length (flat HO (firstn k hon)) <= p)%nat -> (p < length (flat HO (firstn (S k) hon)))%nat ->
  ob_root ob = root -> ob_tree ob = t ->
  let stream := firstn p (flat HO hon) in
  exists it, nth_error hon k = Some it /\
    dec_err_kind (item_err HO true it) = KUnexpectedEof /\
    driver_post (firstn k hon) (item_err HO true it) target ob (fst (decode_ranges HO stream q target ob)) /\
    driver_post (firstn k hon) (item_err HO true it) target ob (fst (decode_ranges_fsm HO stream q target ob)).
Proof.
  intros p k target ob K1 K2 Hr Ht stream.
  pose proof (index_nonempty p k K2) as Hne.
  destruct (e2e_truncation HO HOK data bs q Hsize Hbs Hwf Hne p k K1 K2) as (it & Hit & R1 & R2).
  exists it. split; [exact Hit|]. split; [apply item_err_kind|].
  exact (drivers_of_runs stream target ob _ _ Hr Ht R1 R2).
Qed.

Theorem c09_drivers_alteration : forall (p k : nat) (b b' : B HO) (target : bytes HO) (ob : outboard HO),
  (length (flat HO (firstn k hon)) <= p)%nat -> (p < length (flat HO (firstn (S k) hon)))%nat ->
  nth_error (flat HO hon) p = Some b -> b' <> b ->
  ob_root ob = root -> ob_tree ob = t ->
  let stream := firstn p (flat HO hon) ++ b' :: skipn (S p) (flat HO hon) in
  exists it, nth_error hon k = Some it /\
    dec_err_kind (item_err HO false it) = KInvalidData /\
    driver_post (firstn k hon) (item_err HO false it) target ob (fst (decode_ranges HO stream q target ob)) /\
    driver_post (firstn k hon) (item_err HO false it) target ob (fst (decode_ranges_fsm HO stream q target ob)).
Proof.
  intros p k b b' target ob K1 K2 Hb Hbb Hr Ht stream.
  pose proof (index_nonempty p k K2) as Hne.
  destruct (e2e_alteration HO HOK data bs q Hsize Hbs Hwf Hne p k b b' K1 K2 Hb Hbb) as (it & Hit & R1 & R2).
  exists it. split; [exact Hit|]. split; [apply item_err_kind|].
  exact (drivers_of_runs stream target ob _ _ Hr Ht R1 R2).
Qed.

(* ================= C01: the end-to-end theorems for every well-formed query, q = [] included ================= *)
Theorem e2e_sync_any : forall (stream : bytes HO) ys o st,
  dec_run HO (dec_new HO root t stream q) = (ys, o, st) ->
  is_prefix ys hon /\
  (o = Finished -> ys = hon /\ stream = flat HO hon ++ d_enc HO st) /\
  (forall e, o = Failed e -> ~ is_prefix (flat HO (firstn (length ys + 1) hon)) stream) /\
  o <> Panicked /\ o <> OutOfFuel.
Proof.
  intros stream ys o st H. destruct q as [|x q0] eqn:Eq.
  - destruct (e2e_empty_query HO data stream bs root t) as (Hh & _ & (st0 & E0 & En0) & _).
    rewrite E0 in H. injection H as <- <- <-. rewrite Hh.
    split; [exists []; reflexivity|]. split; [intros _; split; [reflexivity|symmetry; exact En0]|].
    split; [intros e E; discriminate|split; discriminate].
  - rewrite <- Eq in *.
    exact (e2e_sync HO HOK data bs q Hsize Hbs Hwf ltac:(rewrite Eq; discriminate) stream ys o st H).
Qed.

Theorem e2e_fsm_any : forall (stream : bytes HO) ys o st,
  rd_run HO (rd_new HO root q t stream) = (ys, o, st) ->
  is_prefix ys hon /\
  (o = Finished -> ys = hon /\ stream = flat HO hon ++ Fsm.r_enc HO st) /\
  (forall e, o = Failed e -> ~ is_prefix (flat HO (firstn (length ys + 1) hon)) stream) /\
  o <> Panicked /\ o <> OutOfFuel.
Proof.
  intros stream ys o st H. destruct q as [|x q0] eqn:Eq.
  - destruct (e2e_empty_query HO data stream bs root t) as (Hh & _ & _ & (st0 & E0 & En0)).
    rewrite E0 in H. injection H as <- <- <-. rewrite Hh.
    split; [exists []; reflexivity|]. split; [intros _; split; [reflexivity|symmetry; exact En0]|].
    split; [intros e E; discriminate|split; discriminate].
  - rewrite <- Eq in *.
    exact (e2e_fsm HO HOK data bs q Hsize Hbs Hwf ltac:(rewrite Eq; discriminate) stream ys o st H).
Qed.

Theorem e2e_decode_ranges_any : forall (stream target : bytes HO) (ob : outboard HO),
  ob_root ob = root -> ob_tree ob = t ->
  (exists ys o st',
    let a := apply_items HO ys target ob in
    decode_ranges HO stream q target ob = (ranges_result (a_res HO a) o, a_target HO a, a_ob HO a, st') /\
    is_prefix ys hon /\
    (o = Finished -> ys = hon /\ is_prefix (flat HO hon) stream) /\
    (forall e, o = Failed e -> ~ is_prefix (flat HO (firstn (length ys + 1) hon)) stream) /\
    o <> Panicked /\ o <> OutOfFuel) /\
  (exists ys o st',
    let a := apply_items HO ys target ob in
    decode_ranges_fsm HO stream q target ob = (ranges_result (a_res HO a) o, a_target HO a, a_ob HO a, st') /\
    is_prefix ys hon /\
    (o = Finished -> ys = hon /\ is_prefix (flat HO hon) stream) /\
    (forall e, o = Failed e -> ~ is_prefix (flat HO (firstn (length ys + 1) hon)) stream) /\
    o <> Panicked /\ o <> OutOfFuel).
Proof.
  intros stream target ob Hr Ht.
  destruct (setup_ends HO data bs q Hsize Hbs Hwf) as (n & En & Bn). split.
  - destruct (dec_run HO (dec_new HO (ob_root ob) (ob_tree ob) stream q)) as [[ys o] stf] eqn:Hrun.
    assert (En' : ends_within response_next
                    (response_new (ob_tree ob) (truncate_ranges q (tsize (ob_tree ob)))) n)
      by (rewrite Ht; exact En).
    destruct (decode_ranges_sound HO n stream q target ob ys o stf En' Bn Hrun) as (st' & Hd).
    rewrite Hr, Ht in Hrun.
    destruct (e2e_sync_any stream ys o stf Hrun) as (S1 & S2 & S3 & S4 & S5).
    exists ys, o, st'. cbv zeta. split; [exact Hd|]. split; [exact S1|]. split; [|auto].
    intro Ho. destruct (S2 Ho) as [E1 E2]. split; [exact E1|]. eexists. exact E2.
  - destruct (rd_run HO (rd_new HO (ob_root ob) q (ob_tree ob) stream)) as [[ys o] stf] eqn:Hrun.
    assert (En' : ends_within response_next
                    (response_new (ob_tree ob) (truncate_ranges_owned q (tsize (ob_tree ob)))) n)
      by (rewrite Ht, RangeTrunc.truncate_owned_eq; exact En).
    destruct (decode_ranges_fsm_sound HO n stream q target ob ys o stf En' Bn Hrun) as (st' & Hd).
    rewrite Hr, Ht in Hrun.
    destruct (e2e_fsm_any stream ys o stf Hrun) as (S1 & S2 & S3 & S4 & S5).
    exists ys, o, st'. cbv zeta. split; [exact Hd|]. split; [exact S1|]. split; [|auto].
    intro Ho. destruct (S2 Ho) as [E1 E2]. split; [exact E1|]. eexists. exact E2.
Qed.

(* every byte written is the blob's, for every well-formed query *)
Theorem e2e_decode_ranges_bytes_any : forall (stream target : bytes HO) (ob : outboard HO),
  ob_root ob = root -> ob_tree ob = t -> length target = length data ->
  forall res target' ob',
  (exists st', decode_ranges HO stream q target ob = (res, target', ob', st')) \/
  (exists st', decode_ranges_fsm HO stream q target ob = (res, target', ob', st')) ->
  length target' = length data /\
  (forall c, c < nchunks (blen HO data) ->
     chunk_bytes HO target' c (c + 1) = chunk_bytes HO target c (c + 1) \/
     (sel q (blen HO data) c = true /\ chunk_bytes HO target' c (c + 1) = chunk_bytes HO data c (c + 1))) /\
  (res = Ok tt -> forall c, c < nchunks (blen HO data) ->
     chunk_bytes HO target' c (c + 1) =
     if sel q (blen HO data) c then chunk_bytes HO data c (c + 1) else chunk_bytes HO target c (c + 1)).
Proof.
  intros stream target ob Hr Ht Hlen res target' ob' Hd.
  destruct (e2e_decode_ranges_any stream target ob Hr Ht) as [A B].
  apply (target_post_of HO data bs q Hsize stream target target' res Hlen).
  destruct Hd as [[st' Hd]|[st' Hd]].
  - destruct A as (ys & o & st1 & Hd' & S1 & S2 & S3 & S4 & S5).
    cbv zeta in Hd'. rewrite Hd in Hd'. injection Hd' as -> -> _ _.
    exact (ranges_post_of HO data bs q stream target ob ys o S1 S2 S4 S5).
  - destruct B as (ys & o & st1 & Hd' & S1 & S2 & S3 & S4 & S5).
    cbv zeta in Hd'. rewrite Hd in Hd'. injection Hd' as -> -> _ _.
    exact (ranges_post_of HO data bs q stream target ob ys o S1 S2 S4 S5).
Qed.
End C09.

(* ================= C20: the reader after ANY sequence of calls of next ================= *)
Section Position.
Variable HO : hops.
Notation bytes := (bytes HO).
Notation hash := (hash HO).
Notation rsl := (res dec_err (item HO)).

(* bytes of the plan items polled *)
Definition plan_bytes (plan : list chunk) : nat := fold_right (fun c a => (N.to_nat (csize c) + a)%nat) 0%nat plan.
(* a call that did not report "not found" *)
Definition read_fully (r : rsl) : Prop := forall e, r = Err e -> ~ notfound e.

Lemma drop_skipn : forall (k : N) (d : bytes), drop HO k d = skipn (N.to_nat k) d.
Proof. reflexivity. Qed.

Lemma skipn_split : forall (a b : nat) (l : bytes), (a + b <= length l)%nat ->
  firstn (a + b) l = firstn a l ++ firstn b (skipn a l).
Proof.
  intros a b l H. rewrite <- (firstn_skipn a l) at 1.
  rewrite firstn_app, firstn_firstn, Nat.min_r by lia.
  rewrite firstn_length, Nat.min_l by lia. replace (a + b - a)%nat with b by lia. reflexivity.
Qed.

Section Gen.
Variable step : chunk -> list hash -> bytes -> rsl * list hash * bytes.
(* what one step does to the unread stream *)
Hypothesis Hmove : forall c stk enc r stk' enc', step c stk enc = (r, stk', enc') ->
  (exists pre, enc = pre ++ enc') /\
  (read_fully r -> enc' = skipn (N.to_nat (csize c)) enc /\ (N.to_nat (csize c) <= length enc)%nat).

Lemma poll_position : forall plan stk enc tr stk' enc', poll_list HO step plan stk enc = (tr, stk', enc') ->
  (exists pre, enc = pre ++ enc') /\
  (Forall read_fully tr -> enc = firstn (plan_bytes plan) enc ++ enc' /\ (plan_bytes plan <= length enc)%nat).
Proof.
  induction plan as [|c plan IH]; intros stk enc tr stk' enc' H.
  - injection H as <- <- <-. split; [exists []; reflexivity|]. intros _. cbn. split; [reflexivity|lia].
  - destruct (step c stk enc) as [[r stk1] enc1] eqn:Es.
    rewrite (poll_cons HO _ _ _ _ _ _ _ _ Es) in H.
    destruct (poll_list HO step plan stk1 enc1) as [[tr1 stk2] enc2] eqn:Ep.
    unfold cont in H. cbn [fst snd app] in H. injection H as <- <- <-.
    destruct (Hmove _ _ _ _ _ _ Es) as [[pre1 Hp1] Hm]. destruct (IH _ _ _ _ _ Ep) as [[pre2 Hp2] Hx].
    split; [exists (pre1 ++ pre2); rewrite Hp1, Hp2, app_assoc; reflexivity|].
    intros Hall. pose proof (Forall_inv Hall) as Hr. pose proof (Forall_inv_tail Hall) as Hrest.
    destruct (Hm Hr) as [E1 L1]. destruct (Hx Hrest) as [E2 L2].
    cbn [plan_bytes fold_right]. fold (plan_bytes plan).
    assert (L : (N.to_nat (csize c) + plan_bytes plan <= length enc)%nat).
    { rewrite E1, skipn_length in L2. lia. }
    split; [|exact L].
    rewrite (skipn_split _ _ _ L), <- app_assoc, <- E1, <- E2, E1. symmetry. apply firstn_skipn.
Qed.
End Gen.

Lemma sync_move : forall c stk enc r stk' enc', step_sync HO c stk enc = (r, stk', enc') ->
  (exists pre, enc = pre ++ enc') /\
  (read_fully r -> enc' = skipn (N.to_nat (csize c)) enc /\ (N.to_nat (csize c) <= length enc)%nat).
Proof.
  intros c stk enc r stk' enc' H. pose proof (step_sync_states HO _ _ _ _ _ _ H) as St.
  assert (D : forall k, k <= blen HO enc -> enc = firstn (N.to_nat k) enc ++ drop HO k enc /\ (N.to_nat k <= length enc)%nat).
  { intros k Hk. split; [symmetry; apply firstn_skipn|unfold blen in Hk; lia]. }
  destruct r as [it|e|].
  - destruct St as (h & _ & E & Hc). split; [eexists; exact E|]. intros _.
    rewrite Hc. unfold blen. rewrite Nat2N.id. rewrite E at 1 2. rewrite skipn_app, skipn_all, Nat.sub_diag, app_length. cbn.
    split; [reflexivity|lia].
  - destruct e as [n|n|n|n|k]; try contradiction.
    + destruct St as (_ & -> & _). split; [exists enc; now rewrite app_nil_r|]. intro Hr. exfalso. apply (Hr _ eq_refl). exact I.
    + destruct St as (_ & -> & _). split; [exists enc; now rewrite app_nil_r|]. intro Hr. exfalso. apply (Hr _ eq_refl). exact I.
    + destruct St as (h & _ & -> & Hc). destruct (D _ Hc) as [D1 D2]. split; [eexists; exact D1|]. intros _. split; [reflexivity|exact D2].
    + destruct St as (h & _ & -> & Hc). destruct (D _ Hc) as [D1 D2]. split; [eexists; exact D1|]. intros _. split; [reflexivity|exact D2].
  - destruct St as (_ & _ & -> & Hc). destruct (D _ Hc) as [D1 D2]. split; [eexists; exact D1|]. intros _. split; [reflexivity|exact D2].
Qed.

Lemma fsm_move : forall c stk enc r stk' enc', step_fsm HO c stk enc = (r, stk', enc') ->
  (exists pre, enc = pre ++ enc') /\
  (read_fully r -> enc' = skipn (N.to_nat (csize c)) enc /\ (N.to_nat (csize c) <= length enc)%nat).
Proof.
  intros c stk enc r stk' enc' H. pose proof (step_fsm_states HO _ _ _ _ _ _ H) as St.
  assert (D : forall k, k <= blen HO enc -> enc = firstn (N.to_nat k) enc ++ drop HO k enc /\ (N.to_nat k <= length enc)%nat).
  { intros k Hk. split; [symmetry; apply firstn_skipn|unfold blen in Hk; lia]. }
  destruct r as [it|e|].
  - destruct St as (h & _ & E & Hc). split; [eexists; exact E|]. intros _.
    rewrite Hc. unfold blen. rewrite Nat2N.id. rewrite E at 1 2. rewrite skipn_app, skipn_all, Nat.sub_diag, app_length. cbn.
    split; [reflexivity|lia].
  - destruct e as [n|n|n|n|k]; try contradiction.
    + destruct St as (_ & -> & _). split; [exists []; reflexivity|]. intro Hr. exfalso. apply (Hr _ eq_refl). exact I.
    + destruct St as (_ & -> & _). split; [exists enc; now rewrite app_nil_r|]. intro Hr. exfalso. apply (Hr _ eq_refl). exact I.
    + destruct St as (h & stk0 & l & r0 & lf & rt & _ & E & L1 & L2 & (ir & rs & ->) & _).
      split; [eexists; exact E|]. intros _. cbn [csize]. change (N.to_nat 64) with 64%nat.
      assert (L64 : length (l ++ r0) = 64%nat) by (rewrite app_length; lia).
      rewrite E, <- L64, skipn_app, skipn_all, Nat.sub_diag. cbn [skipn app].
      split; [reflexivity|rewrite !app_length; lia].
    + destruct St as (h & _ & -> & Hc). destruct (D _ Hc) as [D1 D2]. split; [eexists; exact D1|]. intros _. split; [reflexivity|exact D2].
  - destruct St as (_ & _ & -> & Hc). destruct (D _ Hc) as [D1 D2]. split; [eexists; exact D1|]. intros _. split; [reflexivity|exact D2].
Qed.

(* the reader the fsm decoder hands back by finish() after any calls of next: a suffix of the stream;
   exactly the stream minus the bytes of the plan items polled when no call reported "not found" *)
Theorem rd_polls_position : forall root q t (stream : bytes) tr st,
  rd_polls HO (rd_new HO root q t stream) tr st ->
  (exists pre, stream = pre ++ rd_finish HO st) /\
  (forall reader, rd_next HO st = RDone reader -> reader = rd_finish HO st) /\
  (Forall read_fully tr ->
   exists plan, PlanRun.steps response_next (Fsm.r_iter HO (rd_new HO root q t stream)) plan (Fsm.r_iter HO st) /\
     length plan = length tr /\
     stream = firstn (plan_bytes plan) stream ++ rd_finish HO st /\ (plan_bytes plan <= length stream)%nat).
Proof.
  intros root q t stream tr st Hp.
  destruct (rd_polls_plan HO _ _ _ Hp) as (plan & Hs & He & _).
  cbn [rd_new Fsm.r_stack Fsm.r_enc] in He.
  destruct (poll_position _ fsm_move _ _ _ _ _ _ He) as [A B].
  split; [exact A|]. split.
  - intros reader Hd. rewrite rd_next_step in Hd.
    destruct (response_next (Fsm.r_iter HO st)) as [[c it']|].
    + destruct (step_fsm HO c (Fsm.r_stack HO st) (Fsm.r_enc HO st)) as [[r0 stk] enc]. discriminate.
    + injection Hd as <-. reflexivity.
  - intro Hall. exists plan. split; [exact Hs|]. split.
    + pose proof (poll_length HO (step_fsm HO) plan [root] stream) as L. rewrite He in L. symmetry. exact L.
    + exact (B Hall).
Qed.

Theorem dec_polls_position : forall root t (stream : bytes) q tr st,
  dec_polls HO (dec_new HO root t stream q) tr st ->
  (exists pre, stream = pre ++ d_enc HO st) /\
  (Forall read_fully tr ->
   exists plan, PlanRun.steps response_next (d_inner HO (dec_new HO root t stream q)) plan (d_inner HO st) /\
     length plan = length tr /\
     stream = firstn (plan_bytes plan) stream ++ d_enc HO st /\ (plan_bytes plan <= length stream)%nat).
Proof.
  intros root t stream q tr st Hp.
  destruct (dec_polls_plan HO _ _ _ Hp) as (plan & Hs & He).
  cbn [dec_new d_stack d_enc] in He.
  destruct (poll_position _ sync_move _ _ _ _ _ _ He) as [A B].
  split; [exact A|].
  intro Hall. exists plan. split; [exact Hs|]. split.
  - pose proof (poll_length HO (step_sync HO) plan [root] stream) as L. rewrite He in L. symmetry. exact L.
  - exact (B Hall).
Qed.

(* one call of next, result by result (both decoders): where the reader stands afterwards *)
Theorem next_position : forall (st : rstate HO) st' r, rd_next HO st = RMore st' r ->
  match r with
  | Ok it => Fsm.r_enc HO st = item_bytes HO it ++ rd_finish HO st'
  | Err (DParentNotFound _) => rd_finish HO st' = Fsm.r_enc HO st /\ blen HO (Fsm.r_enc HO st) < 64
  | Err (DLeafNotFound _) => rd_finish HO st' = []
  | Err (DParentHashMismatch _) => exists pair, length pair = 64%nat /\ Fsm.r_enc HO st = pair ++ rd_finish HO st'
  | Err (DLeafHashMismatch _) => exists d, Fsm.r_enc HO st = d ++ rd_finish HO st'
  | Err (DIo _) => False
  | Panic => Fsm.r_stack HO st = []
  end.
Proof.
  intros st st' r H. rewrite rd_next_step in H.
  destruct (response_next (Fsm.r_iter HO st)) as [[c it']|]; [|discriminate].
  destruct (step_fsm HO c (Fsm.r_stack HO st) (Fsm.r_enc HO st)) as [[r0 stk] enc] eqn:Es.
  injection H as <- <-. pose proof (step_fsm_states HO _ _ _ _ _ _ Es) as St.
  unfold rd_finish. cbn [Fsm.r_enc].
  destruct r0 as [it|e|].
  - destruct St as (_ & _ & E & _). exact E.
  - destruct e as [n|n|n|n|k]; try contradiction.
    + destruct St as (_ & -> & L). auto.
    + destruct St as (_ & -> & _). reflexivity.
    + destruct St as (h & stk0 & l & r1 & lf & rt & _ & E & L1 & L2 & _).
      exists (l ++ r1). split; [rewrite app_length; lia|exact E].
    + destruct St as (h & _ & -> & _). eexists. symmetry. apply firstn_skipn.
  - destruct St as (E & _). exact E.
Qed.

Theorem next_position_sync : forall (st : dstate HO) st' r, dec_next HO st = Some (r, st') ->
  match r with
  | Ok it => d_enc HO st = item_bytes HO it ++ d_enc HO st'
  | Err (DParentNotFound _) | Err (DLeafNotFound _) => d_enc HO st' = []
  | Err (DParentHashMismatch _) | Err (DLeafHashMismatch _) => exists d, d_enc HO st = d ++ d_enc HO st'
  | Err (DIo _) => False
  | Panic => d_stack HO st = []
  end.
Proof.
  intros st st' r H. rewrite dec_next_step in H.
  destruct (response_next (d_inner HO st)) as [[c it']|]; [|discriminate].
  destruct (step_sync HO c (d_stack HO st) (d_enc HO st)) as [[r0 stk] enc] eqn:Es.
  injection H as <- <-. pose proof (step_sync_states HO _ _ _ _ _ _ Es) as St. cbn [d_enc].
  destruct r0 as [it|e|].
  - destruct St as (_ & _ & E & _). exact E.
  - destruct e as [n|n|n|n|k]; try contradiction.
    + destruct St as (_ & -> & _). reflexivity.
    + destruct St as (_ & -> & _). reflexivity.
    + destruct St as (h & _ & -> & _). eexists. symmetry. apply firstn_skipn.
    + destruct St as (h & _ & -> & _). eexists. symmetry. apply firstn_skipn.
  - destruct St as (E & _). exact E.
Qed.
End Position.

(* ================= C16: which queries are size proofs ================= *)
(* the side condition of the C16 theorems says exactly: the query contains the last chunk of the claimed
   geometry or reaches past the claimed end; the all-chunks query [0] is such a query for every size *)
Lemma size_proof_query_iff : forall (q : ranges) (size' : N),
  sel q size' (nchunks size' - 1) = true <->
  (mem q (nchunks size' - 1) = true \/ reaches q (nchunks size') = true).
Proof.
  intros q size'. unfold sel.
  assert (P : 1 <= nchunks size') by (unfold nchunks; lia).
  replace (nchunks size' - 1 <? nchunks size') with true by (symmetry; apply N.ltb_lt; lia).
  rewrite N.eqb_refl. cbn [andb]. rewrite orb_true_iff. reflexivity.
Qed.

Lemma size_proof_query_all : forall size', wf_ranges [0] = true /\ sel [0] size' (nchunks size' - 1) = true.
Proof.
  intros size'. split; [reflexivity|]. apply size_proof_query_iff. left. cbn [mem].
  replace (0 <=? nchunks size' - 1) with true by (symmetry; apply N.leb_le; lia). reflexivity.
Qed.
