(* C15 (pre-order part, structure): the recursive pre-order plan satisfies the hash-stack discipline,
   the root-flag condition and the parent/child structure checker parse_pre. *)
From BaoV Require Import Model.Iter Spec.PlanSpec Spec.PlanWf Proofs.NodeLevel Proofs.NodeBits Proofs.NodeAlgebra.
From BaoV Require Import Proofs.RangeBase Proofs.PlanBase Proofs.PlanQuery.
From Coq Require Import ZArith Lia.
Open Scope N_scope.
Arguments N.add : simpl never.
Arguments N.sub : simpl never.
Arguments N.mul : simpl never.
Arguments N.pow : simpl never.
Arguments N.shiftl : simpl never.
Arguments N.shiftr : simpl never.
Arguments N.land : simpl never.
Arguments N.div : simpl never.
Arguments N.modulo : simpl never.
Arguments N.log2 : simpl never.
Arguments N.min : simpl never.
Arguments N.max : simpl never.
Ltac Zify.zify_post_hook ::= Z.to_euclidean_division_equations.

(* ---- geometry of the children of an inner node ---- *)
(* capof n = 2 * half, in every case *)
Lemma capof_half n : 1 <= n -> exists i, capof n / 2 = 2 ^ i /\ capof n = 2 * 2 ^ i.
Proof.
  intro H. exists (cexp n). rewrite (capof_pow2 n H), pow2_succ. split; [|reflexivity].
  pose proof (pow2_pos (cexp n)). lia.
Qed.

(* the unclipped end of the left child is the parent's mid point *)
Lemma left_end n : 3 <= n -> capof (capof n / 2) = capof n / 2.
Proof.
  intro H. destruct (capof_inner n H) as (k & E & Eh & L1 & L2 & C1 & C2). now rewrite Eh.
Qed.

(* the unclipped end of the right child is at most the parent's, with equality off the right spine *)
Lemma right_end size bs ga n rm : node_ok size bs ga n rm -> 3 <= n ->
  let half := capof n / 2 in
  half + capof (n - half) <= capof n /\ (rm = false -> half + capof (n - half) = capof n).
Proof.
  intros [P A I R] H. cbn zeta. destruct (capof_inner n H) as (k & E & Eh & L1 & L2 & C1 & C2).
  rewrite Eh. rewrite E in *. replace (k + 2) with (k + 1 + 1) in * by lia.
  rewrite (pow2_succ (k + 1)) in *. split; [lia|].
  intros ->. rewrite R. replace (2 * 2 ^ (k + 1) - 2 ^ (k + 1)) with (2 ^ (k + 1)) by lia.
  rewrite C1. lia.
Qed.

Lemma q_any_right_end q m e e' rm : (rm = false -> e' = e) -> q_any q m e' rm = q_any q m e rm.
Proof. intro H. destruct rm; [reflexivity|]. now rewrite H. Qed.

(* parent id of a node: chunk range and mid point *)
Lemma node_geom size bs ga n rm : node_ok size bs ga n rm ->
  let nd := unshift bs (ga + capof n / 2 - 1) in
  sp_chunk_start nd = ga * 2 ^ bs /\ sp_chunk_end nd = (ga + capof n) * 2 ^ bs /\
  nd + 1 = (ga + capof n / 2) * 2 ^ bs.
Proof.
  intros [P [k A] I R]. cbn zeta. destruct (capof_half n P) as (i & Eh & Ec).
  rewrite Eh, Ec, A, Ec.
  destruct (unshift_geom bs k i) as (_ & G1 & G2 & G3). cbn zeta in *. auto.
Qed.

(* ---- emptiness: the plan of a node is empty exactly when the query misses the node ---- *)
Section Pre.
Variables (size bs ml : N) (q : ranges).

(* the query summary of the node over groups [ga, ga + capof n) *)
Definition nany (ga n : N) (rm : bool) : bool := q_any q (ga * 2 ^ bs) ((ga + capof n) * 2 ^ bs) rm.

Definition emp (ga n : N) (rm : bool) (plan : list chunk) : Prop :=
  (nany ga n rm = false -> plan = []) /\ (nany ga n rm = true -> plan <> []).

Lemma emp_nil ga n rm : nany ga n rm = false -> emp ga n rm [].
Proof. intro H. split; [reflexivity|congruence]. Qed.
Lemma emp_cons ga n rm c t : nany ga n rm = true -> emp ga n rm (c :: t).
Proof. intro H. split; congruence. Qed.

(* the flags of an inner node are the emptiness conditions of its children *)
Lemma flag_left ga n : 3 <= n ->
  q_any q (ga * 2 ^ bs) ((ga + capof n / 2) * 2 ^ bs) false = nany ga (capof n / 2) false.
Proof. intro H. unfold nany. now rewrite left_end. Qed.
Lemma flag_right ga n rm : node_ok size bs ga n rm -> 3 <= n ->
  q_any q ((ga + capof n / 2) * 2 ^ bs) ((ga + capof n) * 2 ^ bs) rm =
  nany (ga + capof n / 2) (n - capof n / 2) rm.
Proof.
  intros Hok H. symmetry. apply q_any_right_end. intros ->.
  destruct (right_end _ _ _ _ _ Hok H) as [_ R]. specialize (R eq_refl).
  set (half := capof n / 2) in *. set (c := capof n) in *. clearbody half c. subst c. f_equal. lia.
Qed.

(* ---- hash-stack discipline ---- *)
Definition P_stack (ga n : N) (ir rm : bool) (plan : list chunk) : Prop :=
  emp ga n rm plan /\
  (nany ga n rm = true -> forall rest d, pre_stack_ok (plan ++ rest) (d + 1) = pre_stack_ok rest d).

Lemma stack_leaf a z ir rs rest d : pre_stack_ok (CLeaf a z ir rs :: rest) (d + 1) = pre_stack_ok rest d.
Proof.
  cbn [pre_stack_ok]. replace (d + 1 - 1) with d by lia.
  assert (E1 : (1 <=? d + 1) = true) by (apply N.leb_le; lia). now rewrite E1.
Qed.

Lemma pre_stack_rec fuel ga n ir rm : node_ok size bs ga n rm -> N.log2 (capof n) <= N.of_nat fuel ->
  P_stack ga n ir rm (pre_plan_rec fuel size bs ml q ga n ir rm).
Proof.
  apply pre_plan_rec_ind; clear fuel ga n ir rm.
  - intros ga n ir rm Hok Ha. split; [now apply emp_nil|]. unfold nany. congruence.
  - intros ga n ir rm Hok Ha _ _. split; [now apply emp_cons|]. intros _ rest d. cbn [app]. apply stack_leaf.
  - intros ga n ir rm Hok _ Ha _ _. split; [now apply emp_cons|]. intros _ rest d. cbn [app]. apply stack_leaf.
  - intros ga n ir rm Hok _ Ha _ _ m l r. split; [now apply emp_cons|]. intros _ rest d.
    cbn [app pre_stack_ok]. replace (d + 1 - 1) with d by lia.
    assert (E1 : (1 <=? d + 1) = true) by (apply N.leb_le; lia). rewrite E1. cbn [andb].
    destruct l, r; cbn [b2n app]; rewrite ?N.add_0_r.
    + replace (d + 1 + 1) with ((d + 1) + 1) by lia. rewrite stack_leaf. apply stack_leaf.
    + apply stack_leaf.
    + apply stack_leaf.
    + reflexivity.
  - intros ga n ir rm pl pr Hok Hn Ha _ half m _ _ [[El1 El2] Sl] [[Er1 Er2] Sr].
    split; [now apply emp_cons|]. intros _ rest d.
    unfold m, half. rewrite (flag_left ga n Hn), (flag_right ga n rm Hok Hn). fold half.
    cbn [app pre_stack_ok]. replace (d + 1 - 1) with d by lia.
    assert (E1 : (1 <=? d + 1) = true) by (apply N.leb_le; lia). rewrite E1. cbn [andb].
    rewrite <- app_assoc.
    destruct (nany ga half false) eqn:Fl; destruct (nany (ga + half) (n - half) rm) eqn:Fr;
      cbn [b2n]; rewrite ?N.add_0_r.
    + replace (d + 1 + 1) with ((d + 1) + 1) by lia. rewrite (Sl eq_refl), (Sr eq_refl). reflexivity.
    + rewrite (Sl eq_refl), (Er1 eq_refl). reflexivity.
    + rewrite (El1 eq_refl). cbn [app]. rewrite (Sr eq_refl). reflexivity.
    + rewrite (El1 eq_refl), (Er1 eq_refl). reflexivity.
Qed.

(* ---- root flag ---- *)
Definition cflag (c : chunk) : bool := match c with CParent _ ir _ _ _ => ir | CLeaf _ _ ir _ => ir end.
Definition noflags (l : list chunk) : bool := forallb (fun c => negb (cflag c)) l.

Definition P_flag (ga n : N) (ir rm : bool) (plan : list chunk) : Prop :=
  match plan with [] => True | c :: rest => cflag c = ir /\ noflags rest = true end.

Lemma P_flag_all ga n rm plan : P_flag ga n false rm plan -> noflags plan = true.
Proof.
  destruct plan as [|c t]; [reflexivity|]. intros [H1 H2]. unfold noflags in *. cbn [forallb].
  rewrite H1, H2. reflexivity.
Qed.

Lemma pre_flag_rec fuel ga n ir rm : node_ok size bs ga n rm -> N.log2 (capof n) <= N.of_nat fuel ->
  P_flag ga n ir rm (pre_plan_rec fuel size bs ml q ga n ir rm).
Proof.
  apply pre_plan_rec_ind; clear fuel ga n ir rm.
  - intros. exact I.
  - intros. split; reflexivity.
  - intros. split; reflexivity.
  - intros ga n ir rm _ _ _ _ _ m l r. cbn [app]. split; [reflexivity|]. destruct l, r; reflexivity.
  - intros ga n ir rm pl pr _ _ _ _ half m _ _ Hl Hr. cbn [app]. split; [reflexivity|].
    unfold noflags. rewrite forallb_app. apply P_flag_all in Hl. apply P_flag_all in Hr.
    unfold noflags in Hl, Hr. rewrite Hl, Hr. reflexivity.
Qed.

(* ---- parent/child structure ---- *)
Lemma node_chunks ga n rm : node_ok size bs ga n rm ->
  ga * 2 ^ bs < (ga + capof n) * 2 ^ bs /\ ga * 2 ^ bs < nchunks size.
Proof.
  intros [P A I R]. pose proof (pow2_pos bs). destruct (capof_spec n P) as (k & _ & L & _). split; [nia|].
  apply group_inside. lia.
Qed.

Lemma parse_leaf f a e ir rs rest lo hi : a < e -> a < nchunks size -> lo <= a ->
  (forall h, hi = Some h -> e <= h) ->
  parse_pre (S f) (CLeaf a (span_bytes size a e) ir rs :: rest) lo hi = Some rest.
Proof.
  intros Hae Ha Hlo Hhi. cbn [parse_pre]. rewrite leaf_chunks_span by assumption.
  assert (E1 : (lo <=? a) = true) by (apply N.leb_le; lia). rewrite E1. cbn [andb].
  destruct hi as [h|]; [|reflexivity]. specialize (Hhi h eq_refl).
  assert (E2 : (a + (N.min e (nchunks size) - a) <=? h) = true) by (apply N.leb_le; lia). now rewrite E2.
Qed.

Lemma parse_parent f nd ir l r rs rest lo hi cs ce m :
  sp_chunk_start nd = cs -> sp_chunk_end nd = ce -> nd + 1 = m -> lo <= cs ->
  (forall h, hi = Some h -> ce <= h) ->
  parse_pre (S f) (CParent nd ir l r rs :: rest) lo hi =
  match (if l then parse_pre f rest cs (Some m) else Some rest) with
  | None => None
  | Some rest1 => if r then parse_pre f rest1 m (match hi with Some _ => Some ce | None => None end) else Some rest1
  end.
Proof.
  intros <- <- <- Hlo Hhi. cbn [parse_pre].
  assert (E1 : (lo <=? sp_chunk_start nd) = true) by (apply N.leb_le; lia). rewrite E1. cbn [andb].
  destruct hi as [h|]; [|reflexivity]. specialize (Hhi h eq_refl).
  assert (E2 : (sp_chunk_end nd <=? h) = true) by (apply N.leb_le; lia). now rewrite E2.
Qed.

Definition P_parse (ga n : N) (ir rm : bool) (plan : list chunk) : Prop :=
  emp ga n rm plan /\
  (nany ga n rm = true -> forall fuel rest lo hi, (length plan <= fuel)%nat -> lo <= ga * 2 ^ bs ->
   (forall h, hi = Some h -> (ga + capof n) * 2 ^ bs <= h) ->
   parse_pre fuel (plan ++ rest) lo hi = Some rest).

Lemma pre_parse_rec fuel ga n ir rm : node_ok size bs ga n rm -> N.log2 (capof n) <= N.of_nat fuel ->
  P_parse ga n ir rm (pre_plan_rec fuel size bs ml q ga n ir rm).
Proof.
  apply pre_plan_rec_ind; clear fuel ga n ir rm.
  - intros ga n ir rm Hok Ha. split; [now apply emp_nil|]. unfold nany. congruence.
  - intros ga n ir rm Hok Ha _ _. split; [now apply emp_cons|]. intros _ fuel rest lo hi Hf Hlo Hhi.
    destruct (node_chunks _ _ _ Hok) as [G1 G2].
    destruct fuel as [|f]; [cbn [length] in Hf; lia|]. cbn [app]. now apply parse_leaf.
  - intros ga n ir rm Hok _ Ha _ _. split; [now apply emp_cons|]. intros _ fuel rest lo hi Hf Hlo Hhi.
    destruct (node_chunks _ _ _ Hok) as [G1 G2].
    destruct fuel as [|f]; [cbn [length] in Hf; lia|]. cbn [app]. now apply parse_leaf.
  - intros ga n ir rm Hok Hn Ha _ Hsz m l r. split; [now apply emp_cons|]. intros _ fuel rest lo hi Hf Hlo Hhi.
    destruct (node_chunks _ _ _ Hok) as [G1 G2].
    destruct (node_geom _ _ _ _ _ Hok) as (S1 & S2 & S3). cbn zeta in S1, S2, S3.
    rewrite (capof_small n Hn) in *. change (2 / 2) with 1 in *.
    replace (ga + 1 - 1) with ga in * by lia. fold m in S3.
    pose proof (pow2_pos bs) as Hp.
    assert (Hm1 : ga * 2 ^ bs < m) by (unfold m; nia).
    assert (Hm2 : m < (ga + 2) * 2 ^ bs) by (unfold m; nia).
    assert (Hm3 : m < nchunks size) by (apply nchunks_spec; right; unfold m; lia).
    destruct fuel as [|f]; [cbn [length app] in Hf; lia|]. cbn [app].
    rewrite (parse_parent f _ _ _ _ _ _ _ _ _ _ _ S1 S2 S3 Hlo Hhi).
    assert (Hf' : (length ((if l then [CLeaf (ga * 2 ^ bs) (span_bytes size (ga * 2 ^ bs) m) false []] else []) ++
                           (if r then [CLeaf m (span_bytes size m ((ga + 2) * 2 ^ bs)) false []] else [])) <= f)%nat)
      by (cbn [length app] in Hf; lia).
    assert (Hr : forall h, match hi with Some _ => Some ((ga + 2) * 2 ^ bs) | None => None end = Some h ->
                           (ga + 2) * 2 ^ bs <= h).
    { intros h Eh. destruct hi; inversion Eh. lia. }
    destruct l, r; cbn [app length] in Hf' |- *.
    + destruct f as [|f']; [lia|]. rewrite parse_leaf; try assumption; try lia.
      * apply parse_leaf; try assumption; lia.
      * intros h Eh. inversion Eh. lia.
    + destruct f as [|f']; [lia|]. rewrite parse_leaf; try assumption; try lia; [reflexivity|].
      intros h Eh. inversion Eh. lia.
    + destruct f as [|f']; [lia|]. apply parse_leaf; try assumption; lia.
    + reflexivity.
  - intros ga n ir rm pl pr Hok Hn Ha _ half m Hokl Hokr [[El1 El2] Sl] [[Er1 Er2] Sr].
    split; [now apply emp_cons|]. intros _ fuel rest lo hi Hf Hlo Hhi.
    destruct (node_geom _ _ _ _ _ Hok) as (S1 & S2 & S3). cbn zeta in S1, S2, S3.
    fold half in S1, S2, S3. fold m in S3.
    unfold m at 1 2, half at 2 3. rewrite (flag_left ga n Hn), (flag_right ga n rm Hok Hn). fold half.
    destruct (right_end _ _ _ _ _ Hok Hn) as [RE _]. cbn zeta in RE. fold half in RE.
    pose proof (left_end n Hn) as LE. fold half in LE.
    pose proof (pow2_pos bs) as Hp.
    destruct fuel as [|f]; [cbn [length app] in Hf; lia|]. cbn [app].
    cbn [app length] in Hf. rewrite app_length in Hf.
    rewrite (parse_parent f _ _ _ _ _ _ _ _ _ _ _ S1 S2 S3 Hlo Hhi).
    rewrite <- app_assoc.
    assert (Hr : forall h, match hi with Some _ => Some ((ga + capof n) * 2 ^ bs) | None => None end = Some h ->
                           (ga + half + capof (n - half)) * 2 ^ bs <= h).
    { intros h Eh. destruct hi; inversion Eh. nia. }
    assert (Hl : forall h, Some m = Some h -> (ga + capof half) * 2 ^ bs <= h).
    { intros h Eh. inversion Eh. rewrite LE. unfold m. lia. }
    assert (Hm : m <= (ga + half) * 2 ^ bs) by (unfold m; lia).
    destruct (nany ga half false) eqn:Fl; destruct (nany (ga + half) (n - half) rm) eqn:Fr.
    + rewrite (Sl eq_refl f (pr ++ rest) (ga * 2 ^ bs) (Some m) ltac:(lia) ltac:(lia) Hl). apply (Sr eq_refl); [lia|exact Hm|exact Hr].
    + rewrite (Sl eq_refl f (pr ++ rest) (ga * 2 ^ bs) (Some m) ltac:(lia) ltac:(lia) Hl). rewrite (Er1 eq_refl). reflexivity.
    + rewrite (El1 eq_refl). cbn [app]. apply (Sr eq_refl); [lia|exact Hm|exact Hr].
    + rewrite (El1 eq_refl), (Er1 eq_refl). reflexivity.
Qed.
End Pre.

(* ---- the root ---- *)
Lemma root_any size bs q : wf_ranges q = true -> q <> [] -> nany bs q 0 (sp_blocks size bs) true = true.
Proof.
  intros Hwf Hne. apply wf_iff in Hwf. destruct Hwf as [Hs _].
  unfold nany, q_any. rewrite N.mul_0_l. now apply reaches_zero.
Qed.

Theorem pre_plan_nonempty : forall size bs ml q, size <= 2 ^ 63 -> bs <= 10 -> wf_ranges q = true -> q <> [] ->
  pre_plan size bs ml q <> [].
Proof.
  intros size bs ml q Hsz _ Hwf Hne.
  pose proof (pre_stack_rec size bs ml q 65 0 (sp_blocks size bs) true true (node_ok_root size bs) (root_fuel size bs Hsz)) as H.
  destruct H  as [[_ H] _].
  apply H. now apply root_any.
Qed.
Theorem pre_stack_plan : forall size bs ml q, size <= 2 ^ 63 -> bs <= 10 -> wf_ranges q = true -> q <> [] ->
  pre_stack_ok (pre_plan size bs ml q) 1 = true.
Proof.
  intros size bs ml q Hsz _ Hwf Hne.
  destruct (pre_stack_rec size bs ml q 65 0 (sp_blocks size bs) true true (node_ok_root size bs) (root_fuel size bs Hsz))
    as [_ H].
  specialize (H (root_any size bs q Hwf Hne) [] 0). rewrite app_nil_r in H. 
  unfold pre_plan. exact H.
Qed.
Theorem pre_root_flag_plan : forall size bs ml q, size <= 2 ^ 63 -> bs <= 10 -> wf_ranges q = true -> q <> [] ->
  root_flag_first (pre_plan size bs ml q) = true.
Proof.
  intros size bs ml q Hsz _ Hwf Hne.
  pose proof (pre_flag_rec size bs ml q 65 0 (sp_blocks size bs) true true (node_ok_root size bs) (root_fuel size bs Hsz)) as H.
  unfold pre_plan. set (p := pre_plan_rec 65 size bs ml q 0 (sp_blocks size bs) true true) in *. clearbody p.
  destruct p as [|c t]; [reflexivity|].
  destruct H as [H1 H2]. unfold root_flag_first. fold (cflag c). rewrite H1. exact H2.
Qed.

Theorem pre_parse_plan : forall size bs ml q, size <= 2 ^ 63 -> bs <= 10 -> wf_ranges q = true -> q <> [] ->
  parse_pre (S (length (pre_plan size bs ml q))) (pre_plan size bs ml q) 0 None = Some [].
Proof.
  intros size bs ml q Hsz _ Hwf Hne.
  destruct (pre_parse_rec size bs ml q 65 0 (sp_blocks size bs) true true (node_ok_root size bs) (root_fuel size bs Hsz))
    as [_ H].
  unfold pre_plan. set (p := pre_plan_rec 65 size bs ml q 0 (sp_blocks size bs) true true) in *. clearbody p.
  specialize (H (root_any size bs q Hwf Hne) (S (length p)) [] 0 None).
  rewrite app_nil_r in H. apply H; [lia|lia|discriminate].
Qed.
