(* The validating encoder loop against the specification, unit by unit.  A plan unit is a parent item
   (its stored pair) or a leaf item (the stored bytes of its chunk group).  [srun] describes the result
   of scanning the plan and comparing every unit of the store with the blob directly: the honest bytes
   of the units before the first differing one, and the error of that unit.  Under the hypothesis that
   a successful hash comparison of a unit implies equality of the stored unit ([good_unit]: true for
   every unit under hash_ok, and for every unit that is intact without any assumption on the hash), the
   loop computes [srun].  The honest bytes of the whole plan are the honest encoding. *)
From BaoV Require Import Model.Fsm Spec.RangeSpec Spec.PlanSpec Spec.EncSpec Spec.HashAssm.
From BaoV Require Import Proofs.RangeBase Proofs.RangeTrunc Proofs.PlanRs.
From BaoV Require Import Proofs.BridgeBase Proofs.BridgeTree Proofs.BridgePlan.
From BaoV Require Import Proofs.EncPlan Proofs.EncRec Proofs.EncGeom Proofs.EncLoop.
From Coq Require Import Lia Arith PeanoNat ZArith ZifyN ZifyNat ZifyBool.
Ltac Zify.zify_post_hook ::= Z.div_mod_to_equations.
Arguments N.add : simpl never.
Arguments N.sub : simpl never.
Arguments N.mul : simpl never.
Arguments N.pow : simpl never.
Arguments N.div : simpl never.
Arguments N.modulo : simpl never.
Arguments N.log2 : simpl never.
Arguments N.min : simpl never.
Arguments N.max : simpl never.

Lemma Ok_inj {E A : Type} (x y : A) : @Ok E A x = Ok y -> x = y.
Proof. intro H. injection H. auto. Qed.
Lemma Some_inj {A : Type} (x y : A) : Some x = Some y -> x = y.
Proof. intro H. injection H. auto. Qed.
Lemma pair_inj {A B : Type} (a a' : A) (b b' : B) : (a, b) = (a', b') -> a = a' /\ b = b'.
Proof. intro H. injection H. auto. Qed.

Lemma sel_nil size c : sel [] size c = false.
Proof.
  unfold sel, reaches. cbn [mem length Nat.odd last orb].
  assert (E : (nchunks size <? 0) = false) by (apply N.ltb_ge; lia).
  rewrite E, !andb_false_r. reflexivity.
Qed.

Section Beq.
Variable HO : hops.
Hypothesis Hbeq : beq_correct HO.
Lemma beqb_refl : forall a : bytes HO, bytes_eqb HO a a = true.
Proof.
  induction a as [|x a IH]; cbn; [reflexivity|]. rewrite IH.
  rewrite (proj2 (Hbeq x x) eq_refl). reflexivity.
Qed.
Lemma beqb_eq : forall a b : bytes HO, bytes_eqb HO a b = true -> a = b.
Proof.
  induction a as [|x a IH]; destruct b as [|y b]; cbn; intro H; try discriminate; [reflexivity|].
  apply andb_true_iff in H. destruct H as [H1 H2]. apply Hbeq in H1. subst. f_equal. auto.
Qed.
End Beq.

Section Main.
Variable HO : hops.
Notation bytes := (bytes HO).
Notation hash := (hash HO).
Variable data : bytes.
Variable bs : N.
Variable q : ranges.
Hypothesis Hwf : wf_ranges q = true.
Hypothesis Hsize : blen HO data <= 2 ^ 63.
Hypothesis Hbs : bs <= 10.
Local Notation size := (blen HO data).
Local Notation nn := (nchunks (blen HO data)).
Local Notation q' := (truncate_ranges q (blen HO data)).
Local Notation Sel := (sel q (blen HO data)).
Local Notation ENC := (ENC HO data bs Sel).

Variable load : loader HO.
Variable data' : bytes.
Hypothesis Hbeq : beq_correct HO.

(* end of the chunk group starting at s, clipped to the blob *)
Definition gE (s : N) : N := N.min (s + 2 ^ bs) nn.

(* honest bytes of a unit *)
Definition hbP (nd : N) : bytes := fst (true_pair HO data nd) ++ snd (true_pair HO data nd).
Definition hbL (s : N) : bytes := flat HO (ENC s (gE s)).
Definition hb (c : chunk) : bytes :=
  match c with CParent nd _ _ _ _ => hbP nd | CLeaf s _ _ _ => hbL s end.
Definition hbs (l : list chunk) : bytes := concat (map hb l).

Lemma hbs_app l1 l2 : hbs (l1 ++ l2) = hbs l1 ++ hbs l2.
Proof. unfold hbs. now rewrite map_app, concat_app. Qed.
Lemma hbs_cons c l : hbs (c :: l) = hb c ++ hbs l.
Proof. reflexivity. Qed.

(* the stored unit equals the blob's *)
Definition unit_ok (c : chunk) : Prop :=
  match c with
  | CParent nd _ _ _ _ => load nd = Ok (Some (true_pair HO data nd))
  | CLeaf s sz _ _ => read_exact_at HO data' (to_bytes s) sz = Ok (chunk_bytes HO data s (gE s))
  end.

(* a successful comparison of the unit implies equality *)
Definition good_unit (c : chunk) : Prop :=
  match c with
  | CParent nd _ _ _ _ => forall l r ir, load nd = Ok (Some (l, r)) ->
      parent_cv HO l r ir = parent_cv HO (fst (true_pair HO data nd)) (snd (true_pair HO data nd)) ir ->
      (l, r) = true_pair HO data nd
  | CLeaf s sz _ _ => forall buf ir, read_exact_at HO data' (to_bytes s) sz = Ok buf ->
      hash_subtree HO s buf ir = hash_subtree HO s (chunk_bytes HO data s (gE s)) ir ->
      buf = chunk_bytes HO data s (gE s)
  end.

Lemma unit_ok_good c : unit_ok c -> good_unit c.
Proof.
  destruct c as [nd ir lf rt rs|s sz ir rs]; cbn [unit_ok good_unit]; intro H.
  - intros l r ir' Hl _. rewrite H in Hl. apply Ok_inj, Some_inj in Hl. symmetry. exact Hl.
  - intros buf ir' Hb _. rewrite H in Hb. apply Ok_inj in Hb. symmetry. exact Hb.
Qed.

(* the unit differs or cannot be read: the result of the encoder *)
Inductive unit_fail : chunk -> res enc_err unit -> Prop :=
| uf_pair nd ir lf rt rs p : load nd = Ok (Some p) -> p <> true_pair HO data nd ->
    unit_fail (CParent nd ir lf rt rs) (Err (EParentHashMismatch nd))
| uf_none nd ir lf rt rs : load nd = Ok None -> unit_fail (CParent nd ir lf rt rs) Panic
| uf_lerr nd ir lf rt rs k : load nd = Err k -> unit_fail (CParent nd ir lf rt rs) (Err (EIo k))
| uf_lpanic nd ir lf rt rs : load nd = Panic -> unit_fail (CParent nd ir lf rt rs) Panic
| uf_leaf s sz ir rs buf : read_exact_at HO data' (to_bytes s) sz = Ok buf -> buf <> chunk_bytes HO data s (gE s) ->
    unit_fail (CLeaf s sz ir rs) (Err (ELeafHashMismatch s))
| uf_rerr s sz ir rs k : read_exact_at HO data' (to_bytes s) sz = Err k -> unit_fail (CLeaf s sz ir rs) (Err (EIo k))
| uf_rpanic s sz ir rs : read_exact_at HO data' (to_bytes s) sz = Panic -> unit_fail (CLeaf s sz ir rs) Panic.

Inductive srun : list chunk -> res enc_err unit * bytes -> Prop :=
| sr_nil : srun [] (Ok tt, [])
| sr_ok c rest r o : unit_ok c -> srun rest (r, o) -> srun (c :: rest) (r, hb c ++ o)
| sr_fail c rest e : unit_fail c e -> srun (c :: rest) (e, []).

Lemma unit_fail_not_ok c e : unit_fail c e -> ~ unit_ok c.
Proof.
  intros H Hok. destruct H; cbn [unit_ok] in Hok; try congruence.
Qed.
Lemma unit_fail_not_Ok c e : unit_fail c e -> e <> Ok tt.
Proof. intros H. destruct H; discriminate. Qed.

(* what a run says *)
Lemma srun_inv P r o : srun P (r, o) ->
  (r = Ok tt /\ o = hbs P /\ Forall unit_ok P) \/
  (exists P1 u P2, P = P1 ++ u :: P2 /\ Forall unit_ok P1 /\ unit_fail u r /\ o = hbs P1).
Proof.
  intro H. remember (r, o) as ro eqn:E. revert r o E.
  induction H as [|c rest r0 o0 Hok Hrest IH|c rest e Hf]; intros r o E; apply pair_inj in E; destruct E as [<- <-].
  - left. repeat split. constructor.
  - destruct (IH r0 o0 eq_refl) as [(-> & -> & Hall)|(P1 & u & P2 & -> & Hall & Hf & ->)].
    + left. repeat split. constructor; assumption.
    + right. exists (c :: P1), u, P2. repeat split; try assumption. constructor; assumption.
  - right. exists [], c, rest. repeat split; try assumption. constructor.
Qed.

Lemma srun_all_ok P r o : Forall unit_ok P -> srun P (r, o) -> r = Ok tt /\ o = hbs P.
Proof.
  intros Hall H. destruct (srun_inv P r o H) as [(-> & -> & _)|(P1 & u & P2 & -> & _ & Hf & _)]; [now split|].
  exfalso. apply Forall_app in Hall. destruct Hall as [_ Hall]. inversion Hall; subst.
  eapply unit_fail_not_ok; eauto.
Qed.

Lemma srun_first_fail P1 u P2 r o : Forall unit_ok P1 -> ~ unit_ok u -> srun (P1 ++ u :: P2) (r, o) ->
  unit_fail u r /\ o = hbs P1.
Proof.
  intros H1 Hu H. revert r o H. induction H1 as [|c P1 Hc _ IH]; intros r o H.
  - cbn [app] in H. inversion H; subst; [contradiction|]. now split.
  - cbn [app] in H. inversion H as [|? ? ? o' ? Hrest|? ? ? Hf]; subst.
    + destruct (IH _ _ Hrest) as [Hf ->]. now split.
    + exfalso. eapply unit_fail_not_ok; eauto.
Qed.

(* ---- steps of the loop ---- *)
Lemma nn53 : nn <= 2 ^ 53.
Proof. now apply nchunks_small. Qed.

Lemma tp_par a m E : par_ok size bs a m E ->
  true_pair HO data (m - 1) = (cv HO data a m false, cv HO data m E false) /\
  (forall ir, cv HO data a E ir = parent_cv HO (cv HO data a m false) (cv HO data m E false) ir).
Proof.
  intros [H1 H2 H3 H4 H5 H6 H7]. pose proof nn53 as Hn.
  assert (P : 2 ^ 53 <= 2 ^ 63) by (apply pow2_le_mono; lia).
  split.
  - unfold true_pair, blob_chunks. rewrite H6, H7. replace (m - 1 + 1) with m by lia. reflexivity.
  - intro ir. rewrite (cv_unfold HO data a E ir) by lia. rewrite H4. replace (a + (m - a)) with m by lia. reflexivity.
Qed.

Lemma good_par a m E ir lf rf rs l r ir' :
  par_ok size bs a m E -> good_unit (CParent (m - 1) ir lf rf rs) ->
  load (m - 1) = Ok (Some (l, r)) -> parent_cv HO l r ir' = cv HO data a E ir' ->
  l = cv HO data a m false /\ r = cv HO data m E false.
Proof.
  intros Hpar Hg Hl Hc. destruct (tp_par a m E Hpar) as [Htp Hcv].
  apply pair_inj. rewrite <- Htp. apply (Hg l r ir' Hl).
  rewrite Htp. cbn [fst snd]. rewrite <- Hcv. exact Hc.
Qed.

Lemma hb_par a m E ir lf rf rs : par_ok size bs a m E ->
  hb (CParent (m - 1) ir lf rf rs) = cv HO data a m false ++ cv HO data m E false.
Proof.
  intro Hpar. destruct (tp_par a m E Hpar) as [Htp _]. cbn [hb]. unfold hbP. rewrite Htp. reflexivity.
Qed.

Lemma par_run a m E ir lf rf rs items stk :
  par_ok size bs a m E -> good_unit (CParent (m - 1) ir lf rf rs) ->
  srun items (bloop HO load items (push HO lf (cv HO data a m false) (push HO rf (cv HO data m E false) stk)) bs data') ->
  srun (CParent (m - 1) ir lf rf rs :: items)
       (bloop HO load (CParent (m - 1) ir lf rf rs :: items) (cv HO data a E ir :: stk) bs data').
Proof.
  intros Hpar Hg Hrest. destruct (tp_par a m E Hpar) as [Htp Hcv].
  cbn [bloop]. destruct (load (m - 1)) as [[[l r]|]|k|] eqn:El.
  - destruct (bytes_eqb HO (parent_cv HO l r ir) (cv HO data a E ir)) eqn:Eb; cbn [negb].
    + apply (beqb_eq HO Hbeq) in Eb.
      destruct (good_par a m E ir lf rf rs l r ir Hpar Hg El Eb) as [-> ->].
      cbv zeta. rewrite app_assoc, <- (hb_par a m E ir lf rf rs Hpar).
      apply sr_ok.
      * cbn [unit_ok]. rewrite El, Htp. reflexivity.
      * rewrite <- surjective_pairing. exact Hrest.
    + apply sr_fail. apply uf_pair with (p := (l, r)); [exact El|]. intro X. rewrite Htp in X.
      apply pair_inj in X. destruct X as [-> ->].
      rewrite <- Hcv in Eb. rewrite (beqb_refl HO Hbeq) in Eb. discriminate.
  - apply sr_fail. now apply uf_none.
  - apply sr_fail. now apply uf_lerr.
  - apply sr_fail. now apply uf_lpanic.
Qed.

Lemma leaf_group q0 a E rm rs : leaf_ok size bs q0 a E rm rs -> gE a = E /\ E - a <= 2 ^ bs.
Proof. intros [H1 H2 H3 _ _ _ _ _]. unfold gE. rewrite <- H3. split; [reflexivity|lia]. Qed.

Lemma leaf_sel a E rm rs : leaf_ok size bs q' a E rm rs -> existsb Sel (chunk_range_list a E) = true.
Proof.
  intros [H1 H2 H3 H4 H5 H6 H7 _].
  pose proof (rs_empty_sel HO data q Hwf Hsize rs a E rm H4 H1 H2 H5 H6) as X.
  destruct rs; [congruence|]. cbn [r_is_empty] in X. now destruct (existsb Sel (chunk_range_list a E)).
Qed.

Lemma leaf_bytes_enc a E rm rs ir : leaf_ok size bs q' a E rm rs ->
  fst (leaf_bytes HO bs a (chunk_bytes HO data a E) ir rs) = flat HO (ENC a E).
Proof.
  intro Hl. destruct (leaf_group _ a E rm rs Hl) as [_ Hg]. pose proof (leaf_sel a E rm rs Hl) as Hs.
  destruct Hl as [H1 H2 H3 H4 H5 H6 H7 _].
  unfold leaf_bytes. destruct (r_is_all rs) eqn:Eall; cbn [negb].
  - cbn [fst]. rewrite (ENC_all HO data bs Sel a E H1 Hg); [now rewrite flat_leaf|].
    destruct (N.lt_ge_cases (a + 1) E) as [L|L].
    + rewrite <- (rs_all_sel HO data q Hwf Hsize rs a E rm H4 L H2 H5 H6). exact Eall.
    + assert (X : E = a + 1) by lia. rewrite X in Hs |- *. rewrite crl_single in Hs. rewrite crl_single.
      cbn [existsb] in Hs. cbn [forallb]. rewrite orb_false_r in Hs. rewrite Hs. reflexivity.
  - rewrite (esr_group_full HO data bs q Hwf Hsize a E rm rs ir H4 H1 H2 H5 H6 Hg). reflexivity.
Qed.

Lemma leaf_run a E rm rs ir rest stk :
  leaf_ok size bs q' a E rm rs -> good_unit (CLeaf a (span_bytes size a E) ir rs) ->
  srun rest (bloop HO load rest stk bs data') ->
  srun (CLeaf a (span_bytes size a E) ir rs :: rest)
       (bloop HO load (CLeaf a (span_bytes size a E) ir rs :: rest) (cv HO data a E ir :: stk) bs data').
Proof.
  intros Hl Hg Hrest. destruct (leaf_group _ a E rm rs Hl) as [HgE _].
  pose proof (leaf_bytes_enc a E rm rs ir Hl) as Henc.
  pose proof Hl as [H1 H2 _ _ _ _ _ _].
  cbn [good_unit] in Hg. rewrite HgE in Hg.
  cbn [bloop]. destruct (read_exact_at HO data' (to_bytes a) (span_bytes size a E)) as [buf|k|] eqn:Er.
  - cbv zeta. rewrite leaf_bytes_hash.
    destruct (bytes_eqb HO (hash_subtree HO a buf ir) (cv HO data a E ir)) eqn:Eb; cbn [negb].
    + apply (beqb_eq HO Hbeq) in Eb. rewrite <- (hash_subtree_cv HO data a E ir H1 H2) in Eb.
      specialize (Hg buf ir eq_refl Eb). subst buf. rewrite Henc.
      rewrite (surjective_pairing (bloop _ _ _ _ _ _)) in Hrest.
      change (flat HO (ENC a E)) with (flat HO (ENC a E)).
      replace (flat HO (ENC a E)) with (hb (CLeaf a (span_bytes size a E) ir rs)) by (cbn [hb]; unfold hbL; now rewrite HgE).
      apply sr_ok; [|exact Hrest]. cbn [unit_ok]. now rewrite HgE.
    + apply sr_fail. apply uf_leaf with (buf := buf); [exact Er|]. rewrite HgE. intros ->.
      rewrite (hash_subtree_cv HO data a E ir H1 H2), (beqb_refl HO Hbeq) in Eb. discriminate.
  - apply sr_fail. now apply uf_rerr.
  - apply sr_fail. now apply uf_rpanic.
Qed.

(* ---- the whole plan ---- *)
Lemma q'_wf : wf_ranges q' = true.
Proof. now apply truncate_wf. Qed.

Lemma q'_nonempty : q <> [] -> q' <> [].
Proof.
  intros Hne Hq. destruct (sel_exists q size Hwf Hne) as (c & Hc).
  rewrite <- (truncate_sel q size c Hwf), Hq, sel_nil in Hc. discriminate.
Qed.

Definition Prun (a E : N) (rm : bool) (rs : ranges) (ir : bool) (plan : list chunk) : Prop :=
  Forall good_unit plan -> forall rest stk,
  srun rest (bloop HO load rest stk bs data') ->
  srun (plan ++ rest) (bloop HO load (plan ++ rest) (cv HO data a E ir :: stk) bs data').

Theorem main_run : q <> [] -> Forall good_unit (rplan size bs q') ->
  srun (rplan size bs q') (bloop HO load (rplan size bs q') [root_hash HO data] bs data').
Proof.
  intros Hne Hgood.
  pose proof (rplan_ind_root size bs q' Hsize Hbs Prun) as H.
  assert (HP : Prun 0 nn true q' true (rplan size bs q')).
  { apply H; clear H.
    - intros a E rm rs ir Hl Hg rest stk Hrest. cbn [app]. apply (leaf_run a E rm); [assumption| |assumption].
      now inversion Hg.
    - intros a m E rm rs ir l_rs r_rs pl pr Hpar Hrs Hrne H1 H2 Esp Hl Hr HPl HPr Hg rest stk Hrest.
      inversion Hg as [|? ? Hgp Hgc]; subst. apply Forall_app in Hgc. destruct Hgc as [Hgl Hgr].
      cbn [app]. rewrite <- app_assoc. apply par_run; [assumption|assumption|].
      assert (HR : srun (pr ++ rest)
                (bloop HO load (pr ++ rest) (push HO (negb (r_is_empty r_rs)) (cv HO data m E false) stk) bs data')).
      { destruct (r_is_empty r_rs); cbn [negb push].
        - subst pr. exact Hrest.
        - now apply HPr. }
      destruct (r_is_empty l_rs); cbn [negb push].
      + subst pl. exact HR.
      + now apply HPl.
    - apply rs_ok_root. exact q'_wf.
    - now apply q'_nonempty. }
  specialize (HP Hgood [] [] sr_nil). rewrite app_nil_r in HP. exact HP.
Qed.

(* ---- the honest bytes of the plan are the honest encoding ----
   generic in the ranges q0 the plan is computed from, given that emptiness of the ranges reaching a
   node is emptiness of the selection on its chunks (true for the truncated and for the raw query) *)
Definition empty_is_sel (q0 : ranges) : Prop :=
  forall rs a E rm, rs_ok q0 rs a E rm -> a < E -> E <= nn -> (rm = true -> E = nn) -> (rm = false -> E < nn) ->
  r_is_empty rs = negb (existsb Sel (chunk_range_list a E)).

Lemma empty_is_sel_trunc : empty_is_sel q'.
Proof. intros rs a E rm. apply (rs_empty_sel HO data q Hwf Hsize). Qed.

Lemma honest_ENC : honest HO data bs q = ENC 0 nn.
Proof. unfold honest, enc_spec, EncRec.ENC, blob_chunks. reflexivity. Qed.

Definition Phb (a E : N) (rm : bool) (rs : ranges) (ir : bool) (plan : list chunk) : Prop :=
  hbs plan = flat HO (ENC a E).

Theorem hbs_plan_gen q0 : wf_ranges q0 = true -> q0 <> [] -> empty_is_sel q0 ->
  hbs (rplan size bs q0) = flat HO (honest HO data bs q).
Proof.
  intros Hq0 Hne Hemp. pose proof nn53 as Hn.
  assert (P63 : 2 ^ 53 <= 2 ^ 63) by (apply pow2_le_mono; lia).
  pose proof (rplan_ind_root size bs q0 Hsize Hbs Phb) as H.
  assert (HP : Phb 0 nn true q0 true (rplan size bs q0)).
  { apply H; clear H.
    - intros a E rm rs ir Hl. unfold Phb. destruct (leaf_group _ a E rm rs Hl) as [HgE _].
      unfold hbs. cbn [map concat hb]. unfold hbL. now rewrite HgE, app_nil_r.
    - intros a m E rm rs ir l_rs r_rs pl pr Hpar Hrs Hrne H1 H2 Esp Hl Hr HPl HPr. unfold Phb in *.
      destruct (tp_par a m E Hpar) as [Htp _]. destruct Hpar as [A1 A2 A3 A4 A5 A6 A7].
      rewrite hbs_cons, hbs_app. cbn [hb]. unfold hbP. rewrite Htp. cbn [fst snd].
      rewrite ENC_unfold by lia.
      pose proof (Hemp rs a E rm Hrs ltac:(lia) A3 H1 H2) as X.
      assert (Ex : existsb Sel (chunk_range_list a E) = true).
      { destruct rs; [congruence|]. cbn [r_is_empty] in X. now destruct (existsb Sel (chunk_range_list a E)). }
      rewrite Ex. cbn [negb].
      assert (E1 : (E - a <=? 1) = false) by (apply N.leb_gt; lia). rewrite E1.
      assert (E2 : (next_pow2 (E - a) <=? 2 ^ bs) = false) by (apply N.leb_gt; lia). rewrite E2, andb_false_r.
      rewrite A4. replace (a + (m - a)) with m by lia.
      rewrite flat_cons_parent, flat_app, <- app_assoc. f_equal. f_equal. f_equal.
      + pose proof (Hemp l_rs a m false Hl A1 ltac:(lia) ltac:(discriminate) ltac:(intros _; lia)) as Y.
        destruct (r_is_empty l_rs).
        * subst pl. rewrite ENC_none; [reflexivity|]. now destruct (existsb Sel (chunk_range_list a m)).
        * exact HPl.
      + pose proof (Hemp r_rs m E rm Hr A2 A3 H1 H2) as Y.
        destruct (r_is_empty r_rs).
        * subst pr. rewrite ENC_none; [reflexivity|]. now destruct (existsb Sel (chunk_range_list m E)).
        * exact HPr.
    - apply rs_ok_root. exact Hq0.
    - exact Hne. }
  unfold Phb in HP. rewrite HP. rewrite honest_ENC. reflexivity.
Qed.

Theorem hbs_plan : q <> [] -> hbs (rplan size bs q') = flat HO (honest HO data bs q).
Proof. intro Hne. apply hbs_plan_gen; [exact q'_wf|now apply q'_nonempty|exact empty_is_sel_trunc]. Qed.

(* ---- geometry of every unit of the plan ---- *)
Definition unit_geom (q0 : ranges) (c : chunk) : Prop :=
  match c with
  | CParent nd _ _ _ _ => exists a m E, par_ok size bs a m E /\ nd = m - 1
  | CLeaf s sz _ rs => exists E rm, leaf_ok size bs q0 s E rm rs /\ sz = span_bytes size s E
  end.

Theorem plan_geom q0 : wf_ranges q0 = true -> q0 <> [] -> Forall (unit_geom q0) (rplan size bs q0).
Proof.
  intros Hq0 Hne.
  apply (rplan_ind_root size bs q0 Hsize Hbs (fun _ _ _ _ _ plan => Forall (unit_geom q0) plan)).
  - intros a E rm rs ir Hl. constructor; [|constructor]. cbn [unit_geom]. now exists E, rm.
  - intros a m E rm rs ir l_rs r_rs pl pr Hpar Hrs Hrne H1 H2 Esp Hl Hr HPl HPr.
    constructor; [cbn [unit_geom]; now exists a, m, E|]. apply Forall_app. split.
    + destruct (r_is_empty l_rs); [subst; constructor|exact HPl].
    + destruct (r_is_empty r_rs); [subst; constructor|exact HPr].
  - now apply rs_ok_root.
  - exact Hne.
Qed.

End Main.
