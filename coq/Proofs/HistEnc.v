(* C07, part 3: applying a prefix of the honest encoding to a pre-sized store: every chunk of a written
   leaf gets the blob's bytes, every save stores the true pair of its node, and the pairs on the path of a
   written leaf's group have all been saved before the leaf. *)
From BaoV Require Import Model.Sync Model.Fsm Spec.PlanSpec Spec.PlanWf Spec.EncSpec Spec.HashAssm.
From BaoV Require Import Proofs.NodeLevel Proofs.NodeBits Proofs.NodeAlgebra
  Proofs.ObBase Proofs.ObLoop Proofs.ObSize Proofs.RangeBase Proofs.BridgeBase Proofs.BridgeTree Proofs.BridgeLeaves
  Proofs.DecLoop Proofs.DecRanges
  Proofs.PlanBase Proofs.PlanNav Proofs.ValSpec Proofs.ValPath Proofs.ValTrue Proofs.ValTop Proofs.HistOb Proofs.HistPath.
From Coq Require Import ZArith Lia.
Open Scope N_scope.
Arguments N.add : simpl never.
Arguments N.sub : simpl never.
Arguments N.mul : simpl never.
Arguments N.pow : simpl never.
Arguments N.shiftl : simpl never.
Arguments N.shiftr : simpl never.
Arguments N.land : simpl never.
Arguments N.div : simpl never.
Arguments N.modulo : simpl never.
Arguments N.log2 : simpl never.
Arguments N.min : simpl never.
Arguments N.max : simpl never.
Ltac Zify.zify_post_hook ::= Z.to_euclidean_division_equations.

Section HistEnc.
Variable HO : hops.
Hypothesis Hlen : cv_len32 HO.
Notation bytes := (bytes HO).
Notation hash := (hash HO).
Notation outboard := (outboard HO).
Notation item := (item HO).

(* chunks covered by the leaves of a list of items *)
Definition item_has (it : item) (c : N) : bool :=
  match it with
  | ILeaf off d => (off / 1024 <=? c) && (c <? off / 1024 + leaf_chunks (blen HO d))
  | IParent _ _ _ => false
  end.
Definition delivered (ys : list item) (c : N) : bool := existsb (fun it => item_has it c) ys.

Lemma delivered_app ys1 ys2 c : delivered (ys1 ++ ys2) c = delivered ys1 c || delivered ys2 c.
Proof. unfold delivered. apply existsb_app. Qed.

Lemma apply_items_app (ys1 ys2 : list item) : forall (t : bytes) (ob : outboard) t1 ob1,
  apply_items HO ys1 t ob = (SOk, t1, ob1) ->
  apply_items HO (ys1 ++ ys2) t ob = apply_items HO ys2 t1 ob1.
Proof.
  induction ys1 as [|[nd l r|off d] ys1 IH]; intros t ob t1 ob1 H; cbn [apply_items app] in *.
  - injection H as <- <-. reflexivity.
  - destruct (save HO ob nd l r) as [ob'| |]; try discriminate. now apply IH.
  - now apply IH.
Qed.

Variable data : bytes.
Variable bs : N.
Hypothesis Hsize : blen HO data <= 2 ^ 63.
Hypothesis Hbs : bs <= 10.
Let size := blen HO data.
Let nc := nchunks size.
Let g := 2 ^ bs.
Let B := sp_blocks size bs.

(* the target after writing the leaves of ys *)
Definition Tgt (ys : list item) (t t' : bytes) : Prop :=
  length t' = length data /\
  forall c, c < nc -> chunk_bytes HO t' c (c + 1) =
                      if delivered ys c then chunk_bytes HO data c (c + 1) else chunk_bytes HO t c (c + 1).

(* the outboard after saving pairs: slots only change to true pairs *)
Definition Mono (ob ob' : outboard) : Prop :=
  ob_sized HO ob' size bs /\ ob_root ob' = ob_root ob /\ ob_k ob' = ob_k ob /\
  forall nd, pnode size bs nd ->
    stored_pair HO ob' nd = stored_pair HO ob nd \/ stored_pair HO ob' nd = Some (true_pair HO data nd).

Lemma Mono_refl ob : ob_sized HO ob size bs -> Mono ob ob.
Proof. intro H. split; [exact H|]. split; [reflexivity|]. split; [reflexivity|]. intros nd _. now left. Qed.

Lemma Mono_trans ob1 ob2 ob3 : Mono ob1 ob2 -> Mono ob2 ob3 -> Mono ob1 ob3.
Proof.
  intros (S1 & R1 & K1 & M1) (S2 & R2 & K2 & M2). split; [exact S2|]. split; [congruence|]. split; [congruence|].
  intros nd Hp. destruct (M2 nd Hp) as [E|E]; [|now right]. rewrite E. now apply M1.
Qed.

Lemma Mono_true ob ob' nd : Mono ob ob' -> pnode size bs nd ->
  stored_pair HO ob nd = Some (true_pair HO data nd) -> stored_pair HO ob' nd = Some (true_pair HO data nd).
Proof. intros (_ & _ & _ & M) Hp H. destruct (M nd Hp) as [E|E]; congruence. Qed.

Lemma Tgt_nil t : length t = length data -> Tgt [] t t.
Proof. intro H. split; [exact H|]. intros c _. reflexivity. Qed.

Lemma Tgt_app ys1 ys2 t t1 t2 : Tgt ys1 t t1 -> Tgt ys2 t1 t2 -> Tgt (ys1 ++ ys2) t t2.
Proof.
  intros [L1 C1] [L2 C2]. split; [exact L2|]. intros c Hc. rewrite delivered_app, (C2 c Hc), (C1 c Hc).
  destruct (delivered ys1 c), (delivered ys2 c); reflexivity.
Qed.

(* a list of items all of whose prefixes apply well: leaves inside [a, b), the nodes P c stored truly
   once chunk c is written *)
Definition Good (items : list item) (a b : N) (P : N -> list N) : Prop :=
  forall ys rest (t : bytes) (ob : outboard), items = ys ++ rest -> length t = length data -> ob_sized HO ob size bs ->
  exists t' ob', apply_items HO ys t ob = (SOk, t', ob') /\ Tgt ys t t' /\ Mono ob ob' /\
    forall c, delivered ys c = true ->
      a <= c < b /\ forall nd, In nd (P c) -> stored_pair HO ob' nd = Some (true_pair HO data nd).

Lemma Good_nil a b P : Good [] a b P.
Proof.
  intros ys rest t ob E Ht Hs. symmetry in E. apply app_eq_nil in E. destruct E as [-> _].
  exists t, ob. split; [reflexivity|]. split; [now apply Tgt_nil|]. split; [now apply Mono_refl|].
  intros c Hc. discriminate.
Qed.

Lemma Good_weaken items a b a' b' P : Good items a b P -> a' <= a -> b <= b' -> Good items a' b' P.
Proof.
  intros G Ha Hb ys rest t ob E Ht Hs. destruct (G ys rest t ob E Ht Hs) as (t' & ob' & A1 & A2 & A3 & A4).
  exists t', ob'. split; [exact A1|]. split; [exact A2|]. split; [exact A3|].
  intros c Hc. destruct (A4 c Hc) as [[X Y] Z]. split; [lia|exact Z].
Qed.

Lemma leaf_chunks_bytes a b : a < b -> b <= nc -> leaf_chunks (blen HO (chunk_bytes HO data a b)) = b - a.
Proof.
  intros Hab Hb. rewrite <- (span_chunk_bytes HO data a b b) by (fold size; fold nc; lia || (left; reflexivity)).
  fold size. rewrite leaf_chunks_span by (fold nc; lia). fold nc. lia.
Qed.

Lemma Good_leaf a b : a < b -> b <= nc -> Good [ILeaf (a * 1024) (chunk_bytes HO data a b)] a b (fun _ => []).
Proof.
  intros Hab Hb ys rest t ob E Ht Hs.
  destruct ys as [|y ys].
  - exists t, ob. split; [reflexivity|]. split; [now apply Tgt_nil|]. split; [now apply Mono_refl|]. intros c Hc. discriminate.
  - cbn [app] in E. injection E as <- E. symmetry in E. apply app_eq_nil in E. destruct E as [-> ->].
    cbn [apply_items].
    destruct (write_chunks HO data t a b Ht Hab Hb) as [W1 W2]. cbv zeta in W1, W2.
    assert (Ed : forall c, delivered [ILeaf (a * 1024) (chunk_bytes HO data a b)] c = (a <=? c) && (c <? b)).
    { intro c. unfold delivered. cbn [existsb item_has]. rewrite orb_false_r, N.div_mul by lia.
      rewrite leaf_chunks_bytes by assumption. replace (a + (b - a)) with b by lia. reflexivity. }
    eexists _, ob. split; [reflexivity|]. split; [|split; [now apply Mono_refl|]].
    + split; [exact W1|]. intros c Hc. rewrite Ed. apply W2. exact Hc.
    + intros c Hc. rewrite Ed in Hc. apply andb_true_iff in Hc. destruct Hc as [H1 H2].
      apply N.leb_le in H1. apply N.ltb_lt in H2. split; [lia|]. intros nd [].
Qed.

(* a parent followed by the items of its two subtrees *)
Lemma Good_node nd (l r : hash) L R a m b (PL PR : N -> list N) (P : N -> list N) :
  Good L a m PL -> Good R m b PR -> a <= m -> m <= b ->
  (forall (ob : outboard), ob_sized HO ob size bs ->
     exists ob1, save HO ob nd l r = Ok ob1 /\ Mono ob ob1 /\
       forall c nd', a <= c < b -> In nd' (P c) -> ~ In nd' (if c <? m then PL c else PR c) ->
                     stored_pair HO ob1 nd' = Some (true_pair HO data nd')) ->
  (forall c nd', a <= c < b -> In nd' (P c) -> pnode size bs nd') ->
  Good (IParent nd l r :: L ++ R) a b P.
Proof.
  intros GL GR Ham Hmb Hsave Hpn ys rest t ob E Ht Hs.
  destruct ys as [|y ys].
  { exists t, ob. split; [reflexivity|]. split; [now apply Tgt_nil|]. split; [now apply Mono_refl|]. intros c Hc. discriminate. }
  cbn [app] in E. injection E as <- E. cbn [apply_items].
  destruct (Hsave ob Hs) as (ob1 & Es & M1 & Hnew). rewrite Es.
  pose proof M1 as (S1 & _).
  assert (Dy : forall ys' c, delivered (IParent nd l r :: ys') c = delivered ys' c) by reflexivity.
  (* the rest is a prefix of L, or L followed by a prefix of R *)
  apply app_eq_app in E. destruct E as (mid_ & [[E1 E2]|[E1 E2]]).
  - (* ys is a prefix of L *)
    destruct (GL ys mid_ t ob1 E1 Ht S1) as (t' & ob' & A1 & A2 & A3 & A4).
    exists t', ob'. split; [exact A1|]. split.
    { destruct A2 as [X Y]. split; [exact X|]. intros c Hc. rewrite Dy. now apply Y. }
    split; [eapply Mono_trans; eauto|].
    intros c Hc. rewrite Dy in Hc. destruct (A4 c Hc) as [[X Y] Z]. split; [lia|].
    intros nd' Hin.
    assert (Ec : (c <? m) = true) by (apply N.ltb_lt; lia).
    destruct (in_dec N.eq_dec nd' (PL c)) as [I|I]; [now apply Z|].
    apply (Mono_true ob1 ob' nd' A3 (Hpn c nd' ltac:(lia) Hin)). apply (Hnew c nd' ltac:(lia) Hin). rewrite Ec. exact I.
  - (* all of L, then a prefix of R *)
    subst ys.
    destruct (GL L [] t ob1 ltac:(now rewrite app_nil_r) Ht S1) as (t1 & ob2 & A1 & A2 & A3 & A4).
    pose proof A3 as (S2 & _). pose proof A2 as [Lt1 _].
    destruct (GR mid_ rest t1 ob2 E2 Lt1 S2) as (t' & ob' & B1 & B2 & B3 & B4).
    exists t', ob'. split; [rewrite (apply_items_app L mid_ t ob1 t1 ob2 A1); exact B1|]. split.
    { pose proof (Tgt_app _ _ _ _ _ A2 B2) as [X Y]. split; [exact X|]. intros c Hc. rewrite Dy. now apply Y. }
    split; [eapply Mono_trans; [exact M1|eapply Mono_trans; eauto]|].
    intros c Hc. rewrite Dy, delivered_app in Hc. apply orb_true_iff in Hc.
    destruct (delivered mid_ c) eqn:Dr.
    + destruct (B4 c Dr) as [[X Y] Z]. split; [lia|]. intros nd' Hin.
      assert (Ec : (c <? m) = false) by (apply N.ltb_ge; lia).
      destruct (in_dec N.eq_dec nd' (PR c)) as [I|I]; [now apply Z|].
      apply (Mono_true ob1 ob' nd' (Mono_trans _ _ _ A3 B3) (Hpn c nd' ltac:(lia) Hin)). apply (Hnew c nd' ltac:(lia) Hin). rewrite Ec. exact I.
    + destruct Hc as [Hc|Hc]; [|discriminate]. destruct (A4 c Hc) as [[X Y] Z]. split; [lia|]. intros nd' Hin.
      assert (Ec : (c <? m) = true) by (apply N.ltb_lt; lia).
      destruct (in_dec N.eq_dec nd' (PL c)) as [I|I].
      * apply (Mono_true ob2 ob' nd' B3 (Hpn c nd' ltac:(lia) Hin)). now apply Z.
      * apply (Mono_true ob1 ob' nd' (Mono_trans _ _ _ A3 B3) (Hpn c nd' ltac:(lia) Hin)). apply (Hnew c nd' ltac:(lia) Hin). rewrite Ec. exact I.
Qed.

Lemma Good_ext items a b P P' : (forall c, a <= c < b -> P' c = P c) -> Good items a b P -> Good items a b P'.
Proof.
  intros HP G ys rest t ob E Ht Hs. destruct (G ys rest t ob E Ht Hs) as (t' & ob' & A1 & A2 & A3 & A4).
  exists t', ob'. split; [exact A1|]. split; [exact A2|]. split; [exact A3|].
  intros c Hc. destruct (A4 c Hc) as [X Z]. split; [exact X|]. rewrite (HP c X). exact Z.
Qed.

Variable Sel : N -> bool.

(* ---- inside one chunk group: parents below the block level, saves are no-ops ---- *)
Lemma inner_level a j k : a = k * 2 ^ (j + 1) -> level (a + 2 ^ j - 1) = j.
Proof.
  intro H. pose proof (pow2_pos j). apply (decomp_unique _ j k). rewrite H, pow2_succ. lia.
Qed.

Lemma enc_group_good : forall fe a b, a < b -> b <= nc -> b - a <= 2 ^ N.of_nat fe ->
  (exists k, a = k * next_pow2 (b - a)) -> next_pow2 (b - a) <= 2 ^ bs ->
  Good (enc_rec HO (S fe) data bs Sel a b) a b (fun _ => []).
Proof.
  induction fe as [|fe IH]; intros a b Hab Hb Hfe [k Hk] Hcap; rewrite enc_rec_unfold.
  - change (2 ^ N.of_nat 0) with 1 in Hfe.
    destruct (negb (existsb Sel (chunk_range_list a b))); [apply Good_nil|].
    replace (b - a <=? 1) with true by (symmetry; apply N.leb_le; lia). now apply Good_leaf.
  - destruct (negb (existsb Sel (chunk_range_list a b))); [apply Good_nil|].
    destruct (N.leb_spec (b - a) 1) as [L1|L1]; [now apply Good_leaf|].
    destruct (forallb Sel (chunk_range_list a b) && (next_pow2 (b - a) <=? 2 ^ bs)); [now apply Good_leaf|].
    destruct (np2_half (b - a) ltac:(lia)) as (j & E & Eh & K1 & K2). rewrite Eh. rewrite E in Hk, Hcap.
    pose proof (pow2_pos j) as Hj. rewrite Nat2N.inj_succ, <- N.add_1_r in Hfe.
    assert (Hjb : j < bs) by (apply BridgeBase.pow2_le_inv in Hcap; lia).
    assert (Hjf : j <= N.of_nat fe).
    { assert (X : 2 ^ j < 2 ^ (N.of_nat fe + 1)) by lia. apply BridgeBase.pow2_lt_inv in X. lia. }
    pose proof (BridgeBase.pow2_le_mono j (N.of_nat fe) Hjf) as Hjf'.
    rewrite pow2_succ in K2.
    apply (Good_node (a + 2 ^ j - 1) _ _ _ _ a (a + 2 ^ j) b (fun _ => []) (fun _ => []) (fun _ => [])); try lia.
    + apply IH; [lia|lia|lia| |].
      * replace (a + 2 ^ j - a) with (2 ^ j) by lia. rewrite np2_pow2. exists (2 * k). rewrite Hk, pow2_succ. lia.
      * replace (a + 2 ^ j - a) with (2 ^ j) by lia. rewrite np2_pow2. apply BridgeBase.pow2_le_mono. lia.
    + assert (Hr : 1 <= b - (a + 2 ^ j)) by lia.
      destruct (np2_spec (b - (a + 2 ^ j)) Hr) as (i & Ei & I1 & I2).
      assert (Hij : i <= j).
      { assert (X : 2 ^ i < 2 ^ (j + 1)) by (rewrite pow2_succ; lia). apply BridgeBase.pow2_lt_inv in X. lia. }
      apply IH; [lia|lia|lia| |].
      * rewrite Ei. exists ((2 * k + 1) * 2 ^ (j - i)). rewrite Hk, pow2_succ.
        replace (2 ^ j) with (2 ^ (j - i) * 2 ^ i) by (rewrite <- pow2_add; f_equal; lia). lia.
      * rewrite Ei. apply BridgeBase.pow2_le_mono. lia.
    + intros ob Hs. exists ob. split; [|split; [now apply Mono_refl|]].
      * apply (below_save HO size bs ob _ _ _ Hs). rewrite (inner_level a j k Hk). exact Hjb.
      * intros c nd' _ [].
    + intros c nd' _ [].
Qed.

(* ---- over the Shape of groups ---- *)
Notation nend := (nend HO data bs).

Lemma group_good fe ga : ga < B -> nend ga 1 - ga * g <= 2 ^ N.of_nat fe ->
  Good (enc_rec HO (S fe) data bs Sel (ga * g) (nend ga 1)) (ga * g) (nend ga 1) (fun _ => []).
Proof.
  intros Hga Hfe. pose proof (group_inside size bs ga Hga) as Hin. fold g in Hin. fold nc in Hin.
  pose proof (pow2_pos bs) as Hp. fold g in Hp.
  assert (Hlo : ga * g < nend ga 1) by (unfold ValTrue.nend; fold size; fold nc; fold g; lia).
  assert (Hhi : nend ga 1 - ga * g <= g) by (unfold ValTrue.nend; fold size; fold nc; fold g; lia).
  apply enc_group_good; try assumption.
  - unfold ValTrue.nend. fold size. fold nc. lia.
  - destruct (np2_spec (nend ga 1 - ga * g) ltac:(lia)) as (i & Ei & I1 & I2). rewrite Ei.
    assert (Hi : i <= bs).
    { assert (X : 2 ^ i < 2 ^ (bs + 1)) by (rewrite pow2_succ; fold g; lia). apply BridgeBase.pow2_lt_inv in X. lia. }
    exists (ga * 2 ^ (bs - i)). unfold g. replace (2 ^ bs) with (2 ^ (bs - i) * 2 ^ i) by (rewrite <- pow2_add; f_equal; lia). lia.
  - apply np2_le. exact Hhi.
Qed.

Lemma node_split ga0 n rm : node_ok size bs ga0 n rm -> 2 <= n ->
  let half := capof n / 2 in
  next_pow2 (nend ga0 n - ga0 * g) = 2 * (half * g) /\ next_pow2 (nend ga0 n - ga0 * g) / 2 = half * g /\
  (ga0 + half) * g < nend ga0 n /\ nend ga0 n <= (ga0 + 2 * half) * g /\
  unshift bs (sid ga0 n) = ga0 * g + half * g - 1.
Proof.
  intros [P [k Al] I R] H2. cbn zeta. pose proof (pow2_pos bs) as Hp. fold g in Hp.
  destruct (capof_spec n P) as (j & Ej & Cn & Cn3). pose proof (pow2_pos j) as Hj.
  assert (Hh : capof n / 2 = 2 ^ j) by (rewrite Ej, pow2_succ, N.mul_comm, N.div_mul by lia; reflexivity).
  rewrite pow2_succ in Ej. rewrite Hh.
  assert (Hhn : 2 ^ j < n).
  { destruct (N.le_gt_cases n 2) as [L|L]; [rewrite capof_small in Ej by assumption; lia|].
    specialize (Cn3 ltac:(lia)). lia. }
  assert (Hin : ga0 + 2 ^ j < sp_blocks size bs) by (fold B; lia).
  pose proof (group_inside size bs _ Hin) as Hgi. fold g in Hgi. fold nc in Hgi.
  assert (Hlo : (ga0 + 2 ^ j) * g < nend ga0 n) by (unfold ValTrue.nend; fold size; fold nc; fold g; nia).
  assert (Hhi : nend ga0 n <= (ga0 + 2 * 2 ^ j) * g).
  { unfold ValTrue.nend. fold size. fold nc. fold g. rewrite Ej in Cn.
    assert ((ga0 + n) * g <= (ga0 + 2 * 2 ^ j) * g) by (apply N.mul_le_mono_r; lia). lia. }
  assert (E2 : next_pow2 (nend ga0 n - ga0 * g) = 2 ^ (j + bs + 1)).
  { apply next_pow2_unique; rewrite !pow2_succ, pow2_add; fold g; nia. }
  split; [rewrite E2, pow2_succ, pow2_add; reflexivity|].
  split; [rewrite E2, pow2_succ, pow2_add, N.mul_comm, N.div_mul by lia; reflexivity|].
  split; [exact Hlo|]. split; [exact Hhi|].
  unfold unshift, sid. rewrite Hh. fold g. nia.
Qed.

Lemma div_lt_mul c x : (c <? x * g) = (c / g <? x).
Proof.
  pose proof (pow2_pos bs) as Hp. fold g in Hp.
  destruct (N.ltb_spec c (x * g)) as [L|L]; symmetry; [apply N.ltb_lt|apply N.ltb_ge].
  - apply N.div_lt_upper_bound; lia.
  - apply N.div_le_lower_bound; lia.
Qed.

Lemma enc_shape_good : forall fuel ga0 n rm, node_ok size bs ga0 n rm -> N.log2 (capof n) <= N.of_nat fuel ->
  (forall ga, ga0 <= ga < ga0 + n -> forall nd rt, In (nd, rt) (grp_path fuel bs ga0 n ga) -> pnode size bs nd) ->
  forall fe, nend ga0 n - ga0 * g <= 2 ^ N.of_nat fe ->
  Good (enc_rec HO (S fe) data bs Sel (ga0 * g) (nend ga0 n)) (ga0 * g) (nend ga0 n)
       (fun c => map fst (grp_path fuel bs ga0 n (c / g))).
Proof.
  induction fuel as [|f IH]; intros ga0 n rm Hok Hf Hpath fe Hfe.
  { destruct (fuel_pos n 0 (nk_pos _ _ _ _ _ Hok) Hf) as [f' Ef]. discriminate. }
  pose proof (pow2_pos bs) as Hp. fold g in Hp.
  pose proof Hok as [Pn [k0 Al] I R]. fold B in I.
  destruct (N.leb_spec n 1) as [L1|L1].
  { assert (n = 1) by lia. subst n.
    apply (Good_ext _ _ _ (fun _ => [])); [intros c _; rewrite grp_path_eq; reflexivity|].
    apply group_good; [lia|exact Hfe]. }
  destruct (node_cv HO data bs Hsize Hbs ga0 n rm false Hok ltac:(lia)) as (TP & _ & NE & Hh1 & Hhn).
  destruct (node_split ga0 n rm Hok ltac:(lia)) as (S1 & S2 & S3 & S4 & S5). cbv zeta in TP, NE, S1, S2, S3, S4, S5.
  fold g in TP, NE.
  set (half := capof n / 2) in *. set (nd0 := unshift bs (sid ga0 n)) in *.
  rewrite enc_rec_unfold.
  destruct (negb (existsb Sel (chunk_range_list (ga0 * g) (nend ga0 n)))); [apply Good_nil|].
  replace (nend ga0 n - ga0 * g <=? 1) with false by (symmetry; apply N.leb_gt; nia).
  replace (next_pow2 (nend ga0 n - ga0 * g) <=? 2 ^ bs) with false by (symmetry; apply N.leb_gt; rewrite S1; fold g; nia).
  rewrite andb_false_r, S2. rewrite <- S5. fold nd0.
  replace (ga0 * g + half * g) with ((ga0 + half) * g) by lia.
  destruct fe as [|fe]; [change (2 ^ N.of_nat 0) with 1 in Hfe; nia|].
  rewrite Nat2N.inj_succ, <- N.add_1_r in Hfe.
  destruct (half_bounds (nend ga0 n - ga0 * g) (N.of_nat fe) ltac:(nia) Hfe) as (_ & _ & HB3 & HB4 & HB5).
  cbv zeta in HB3, HB4, HB5. rewrite S2 in HB3, HB4, HB5.
  assert (Hnd0 : pnode size bs nd0).
  { apply (Hpath ga0 ltac:(lia) nd0 (negb (ga0 <? ga0 + half))). rewrite grp_path_eq.
    replace (n <=? 1) with false by (symmetry; apply N.leb_gt; lia).
    destruct (n <=? 2); [left; f_equal; rewrite N.eqb_refl; replace (ga0 <? ga0 + half) with true by (symmetry; apply N.ltb_lt; lia); reflexivity|].
    cbv zeta. fold half. replace (ga0 <? ga0 + half) with true by (symmetry; apply N.ltb_lt; lia). now left. }
  assert (Hnc : nend ga0 n <= nc) by (unfold ValTrue.nend; fold size; fold nc; lia).
  pose proof (nchunks_bound size Hsize) as Hncb. fold nc in Hncb.
  assert (Ll : length (cv HO data (ga0 * g) ((ga0 + half) * g) false) = 32%nat).
  { apply (cv_len HO Hlen). change (2 ^ 53) with 9007199254740992 in Hncb. change (2 ^ 63) with 9223372036854775808. lia. }
  assert (Lr : length (cv HO data ((ga0 + half) * g) (nend ga0 n) false) = 32%nat).
  { apply (cv_len HO Hlen). change (2 ^ 53) with 9007199254740992 in Hncb. change (2 ^ 63) with 9223372036854775808. lia. }
  assert (Hsave : forall ob : outboard, ob_sized HO ob size bs ->
            exists ob1, save HO ob nd0 (cv HO data (ga0 * g) ((ga0 + half) * g) false) (cv HO data ((ga0 + half) * g) (nend ga0 n) false) = Ok ob1 /\
                        Mono ob ob1 /\ stored_pair HO ob1 nd0 = Some (true_pair HO data nd0)).
  { intros ob Hs. destruct (save_pnode HO size bs Hsize Hbs ob nd0 _ _ Hs Hnd0 Ll Lr) as (ob1 & E1 & E2 & E3 & E4 & E5 & E6).
    exists ob1. split; [exact E1|]. split; [|rewrite E5, TP; reflexivity].
    split; [exact E2|]. split; [exact E3|]. split; [exact E4|]. intros nd Hpn.
    destruct (N.eq_dec nd nd0) as [->|Hne]; [right; rewrite E5, TP; reflexivity|left; now apply E6]. }
  destruct (N.leb_spec n 2) as [L2|L2].
  - (* a shifted leaf: two groups *)
    assert (n = 2) by lia. subst n. assert (Eh : half = 1) by reflexivity.
    apply (Good_node nd0 _ _ _ _ (ga0 * g) ((ga0 + half) * g) (nend ga0 2) (fun _ => []) (fun _ => [])); try lia.
    + rewrite <- NE. rewrite Eh. apply group_good; [lia|]. rewrite <- Eh, NE. lia.
    + assert (En : nend ga0 2 = nend (ga0 + 1) 1) by (unfold ValTrue.nend; do 2 f_equal; lia).
      rewrite Eh, En. apply group_good; [destruct rm; lia|]. rewrite <- En, <- Eh. lia.
    + intros ob Hs. destruct (Hsave ob Hs) as (ob1 & E1 & E2 & E3). exists ob1. split; [exact E1|]. split; [exact E2|].
      intros c nd' Hc Hin _. rewrite grp_path_eq in Hin. change (2 <=? 1) with false in Hin. change (2 <=? 2) with true in Hin.
      cbv iota in Hin. destruct Hin as [<-|[]]. exact E3.
    + intros c nd' Hc Hin. rewrite grp_path_eq in Hin. change (2 <=? 1) with false in Hin. change (2 <=? 2) with true in Hin.
      cbv iota in Hin. destruct Hin as [<-|[]]. exact Hnd0.
  - (* an inner node *)
    assert (H3 : 3 <= n) by lia.
    destruct (fuel_children n f H3 Hf) as [F1 F2]. fold half in F1, F2.
    pose proof (node_ok_left size bs ga0 n rm Hok H3) as Hokl. fold half in Hokl.
    pose proof (node_ok_right size bs ga0 n rm Hok H3) as Hokr. fold half in Hokr.
    assert (En : nend ga0 n = nend (ga0 + half) (n - half)) by (unfold ValTrue.nend; do 2 f_equal; lia).
    assert (Pstep : forall c, map fst (grp_path (S f) bs ga0 n (c / g)) =
              nd0 :: (if c <? (ga0 + half) * g then map fst (grp_path f bs ga0 half (c / g))
                      else map fst (grp_path f bs (ga0 + half) (n - half) (c / g)))).
    { intro c. rewrite grp_path_eq. replace (n <=? 1) with false by (symmetry; apply N.leb_gt; lia).
      replace (n <=? 2) with false by (symmetry; apply N.leb_gt; lia). cbv zeta. fold half. fold nd0.
      rewrite div_lt_mul. destruct (c / g <? ga0 + half); reflexivity. }
    apply (Good_node nd0 _ _ _ _ (ga0 * g) ((ga0 + half) * g) (nend ga0 n)
             (fun c => map fst (grp_path f bs ga0 half (c / g)))
             (fun c => map fst (grp_path f bs (ga0 + half) (n - half) (c / g)))); try lia.
    + rewrite <- NE. apply (IH ga0 half false Hokl F1); [|rewrite NE; lia].
      intros ga Hga nd rt Hin. apply (Hpath ga ltac:(lia) nd rt). rewrite grp_path_eq.
      replace (n <=? 1) with false by (symmetry; apply N.leb_gt; lia).
      replace (n <=? 2) with false by (symmetry; apply N.leb_gt; lia). cbv zeta. fold half.
      replace (ga <? ga0 + half) with true by (symmetry; apply N.ltb_lt; lia). now right.
    + rewrite En. apply (IH (ga0 + half) (n - half) rm Hokr F2); [|rewrite <- En; lia].
      intros ga Hga nd rt Hin. apply (Hpath ga ltac:(lia) nd rt). rewrite grp_path_eq.
      replace (n <=? 1) with false by (symmetry; apply N.leb_gt; lia).
      replace (n <=? 2) with false by (symmetry; apply N.leb_gt; lia). cbv zeta. fold half.
      replace (ga <? ga0 + half) with false by (symmetry; apply N.ltb_ge; lia). now right.
    + intros ob Hs. destruct (Hsave ob Hs) as (ob1 & E1 & E2 & E3). exists ob1. split; [exact E1|]. split; [exact E2|].
      intros c nd' Hc Hin Hnot. rewrite Pstep in Hin. destruct Hin as [<-|Hin]; [exact E3|contradiction].
    + intros c nd' Hc Hin. apply in_map_iff in Hin. destruct Hin as ([nd'' rt] & E1 & Hin). cbn [fst] in E1. subst nd''.
      apply (Hpath (c / g)) with (rt := rt); [|exact Hin].
      split; [apply N.div_le_lower_bound; lia|].
      apply N.div_lt_upper_bound; [lia|]. unfold ValTrue.nend in Hc. fold g in Hc. lia.
Qed.

End HistEnc.
