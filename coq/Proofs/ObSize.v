(* C03: size of the specified outboards, under 32-byte chaining values. *)
From BaoV Require Import Model.Sync Spec.EncSpec Spec.PlanSpec Spec.HashAssm
  Proofs.NodeBits Proofs.RangeRound Proofs.ObBase Proofs.ObLoop Proofs.ObCreate.
From Coq Require Import Lia Arith PeanoNat ZArith ZifyN ZifyNat ZifyBool.

Section ObSize.
Variable HO : hops.
Hypothesis Hlen : cv_len32 HO.
Notation bytes := (bytes HO).
Notation hash := (hash HO).
Notation blen := (blen HO).

Lemma cv_rec_len (data : bytes) : forall (m : nat) f a b r,
  (m < f)%nat -> b - a <= 2 ^ N.of_nat m -> length (cv_rec HO f data a b r) = 32%nat.
Proof.
  assert (Hleaf : forall a b r, b - a <= 1 -> length (chunk_cv HO a (chunk_bytes HO data a b) r) = 32%nat).
  { intros a b r H. apply (Hlen (InChunk HO a (chunk_bytes HO data a b) r)). cbn [valid_input].
    pose proof (blen_chunk_bytes HO data a b) as Hb. unfold Hash.blen in Hb. lia. }
  induction m as [|m IH]; intros f a b r Hf Hm; (destruct f as [|f]; [lia|]); rewrite cv_rec_unfold.
  - apply le1_pow0 in Hm. replace (b - a <=? 1) with true by lia. apply Hleaf. exact Hm.
  - destruct (b - a <=? 1) eqn:E1; [apply Hleaf; lia|]. cbv zeta.
    destruct (half_facts (b - a) m ltac:(lia) Hm) as (Hh1 & Hh2 & Hh3 & Hh4 & _).
    set (half := next_pow2 (b - a) / 2) in *.
    apply (Hlen (InParent HO _ _ r)). cbn [valid_input]. split; apply IH; lia.
Qed.

Lemma cv_len (data : bytes) a b r : b - a <= 2 ^ 63 -> length (cv HO data a b r) = 32%nat.
Proof. intro H. unfold cv. apply (cv_rec_len data 63); [lia|exact H]. Qed.

Definition pair32 (p : N * (hash * hash)) : Prop :=
  length (fst (snd p)) = 32%nat /\ length (snd (snd p)) = 32%nat.

Lemma pairs_rec_len (data : bytes) bs nch post : nch <= 2 ^ 53 ->
  forall (m : nat) f ga n, (m < f)%nat -> 1 <= n -> n <= 2 ^ N.of_nat m -> (ga + n - 1) * 2 ^ bs < nch ->
  length (pairs_rec HO f post data bs nch ga n) = N.to_nat (n - 1) /\
  Forall pair32 (pairs_rec HO f post data bs nch ga n).
Proof.
  intro Hnch. change (2 ^ 53) with 9007199254740992 in Hnch.
  induction m as [|m IH]; intros f ga n Hf H1 Hm Hlast; (destruct f as [|f]; [lia|]).
  - apply le1_pow0 in Hm. assert (n = 1) by lia. subst n. rewrite pairs_rec_1. split; [reflexivity|constructor].
  - destruct (N.eq_dec n 1) as [->|Hn1]; [rewrite pairs_rec_1; split; [reflexivity|constructor]|].
    assert (H2 : 2 <= n) by lia.
    rewrite pairs_rec_unfold by assumption. cbv zeta.
    destruct (half_facts n m H2 Hm) as (Hh1 & Hh2 & Hh3 & Hh4 & _).
    set (half := next_pow2 n / 2) in *.
    pose proof (pow2_pos bs) as Hg.
    assert (HlastL : (ga + half - 1) * 2 ^ bs < nch) by (apply (mul_lt_le _ (ga + n - 1)); [lia|exact Hlast]).
    assert (HlastR : (ga + half + (n - half) - 1) * 2 ^ bs < nch) by (replace (ga + half + (n - half)) with (ga + n) by lia; exact Hlast).
    assert (Hmid : (ga + half) * 2 ^ bs < nch) by (apply (mul_lt_le _ (ga + n - 1)); [lia|exact Hlast]).
    destruct (IH f ga half ltac:(lia) ltac:(lia) ltac:(lia) HlastL) as [L1 F1].
    destruct (IH f (ga + half) (n - half) ltac:(lia) ltac:(lia) ltac:(lia) HlastR) as [L2 F2].
    assert (HP : pair32 (unshift bs (ga + half - 1),
                   (cv HO data (ga * 2 ^ bs) ((ga + half) * 2 ^ bs) false,
                    cv HO data ((ga + half) * 2 ^ bs) (N.min ((ga + n) * 2 ^ bs) nch) false))).
    { split; cbn [fst snd]; apply cv_len; change (2 ^ 63) with 9223372036854775808; lia. }
    destruct post.
    + split.
      * rewrite !app_length, L1, L2. cbn [length]. lia.
      * apply Forall_app; split; [exact F1|]. apply Forall_app; split; [exact F2|]. constructor; [exact HP|constructor].
    + split.
      * cbn [length]. rewrite app_length, L1, L2. lia.
      * constructor; [exact HP|]. apply Forall_app; split; assumption.
Qed.

Lemma blen_flat_pairs l : Forall pair32 l -> blen (flat_pairs HO l) = 64 * N.of_nat (length l).
Proof.
  induction 1 as [|[nd [lh rh]] l [Hp1 Hp2] _ IH]; [reflexivity|]. cbn [fst snd] in Hp1, Hp2.
  change ((nd, (lh, rh)) :: l) with ([(nd, (lh, rh))] ++ l). rewrite flat_pairs_app, blen_app, IH.
  unfold flat_pairs. cbn [map concat length app fst snd]. rewrite app_nil_r.
  unfold Hash.blen. rewrite app_length, Hp1, Hp2. lia.
Qed.

Lemma spec_outboard_size (data : bytes) bs post : blen data <= 2 ^ 63 ->
  blen (spec_outboard HO post data bs) = (sp_blocks (blen data) bs - 1) * 64.
Proof.
  intro Hs. rewrite spec_outboard_flat.
  pose proof (sp_blocks_pos (blen data) bs) as Hb1. pose proof (sp_blocks_bound (blen data) bs Hs) as Hb2.
  assert (Hm : sp_blocks (blen data) bs <= 2 ^ N.of_nat 63).
  { change (2 ^ N.of_nat 63) with 9223372036854775808. change (2 ^ 53) with 9007199254740992 in Hb2. lia. }
  destruct (pairs_rec_len data bs (blob_chunks HO data) post (nchunks_bound _ Hs) 63 64 0 (sp_blocks (blen data) bs)
              ltac:(lia) Hb1 Hm ltac:(exact (sp_blocks_last (blen data) bs))) as [L F].
  rewrite (blen_flat_pairs _ F), L. lia.
Qed.
End ObSize.
