(* Induction principle for the payload plan in chunk coordinates: every leaf item is one chunk group
   clipped to the blob with ranges related to the query by rs_ok; every parent item is the node m - 1
   over the chunk interval [a, E) split at m, E - a more than one chunk group. *)
From BaoV Require Import Model.Iter Spec.PlanSpec Spec.PlanWf Proofs.NodeLevel Proofs.NodeBits Proofs.NodeAlgebra
  Proofs.RangeBase Proofs.PlanBase Proofs.PlanQuery Proofs.PlanRs Proofs.PlanNav Proofs.PlanPreStruct Proofs.EncPlan.
From Coq Require Import ZArith Lia.
Open Scope N_scope.
Arguments N.add : simpl never.
Arguments N.sub : simpl never.
Arguments N.mul : simpl never.
Arguments N.pow : simpl never.
Arguments N.shiftl : simpl never.
Arguments N.shiftr : simpl never.
Arguments N.land : simpl never.
Arguments N.div : simpl never.
Arguments N.modulo : simpl never.
Arguments N.log2 : simpl never.
Arguments N.min : simpl never.
Arguments N.max : simpl never.
Ltac Zify.zify_post_hook ::= Z.to_euclidean_division_equations.

Lemma np2_half_unique x j : 2 ^ j < x -> x <= 2 ^ (j + 1) -> next_pow2 x / 2 = 2 ^ j /\ next_pow2 x = 2 ^ (j + 1).
Proof.
  intros H1 H2. pose proof (pow2_pos j) as Hp.
  assert (E : next_pow2 x = 2 ^ (j + 1)) by (apply next_pow2_unique; [assumption|rewrite pow2_succ; lia]).
  split; [|exact E]. rewrite E, pow2_succ, N.mul_comm, N.div_mul by lia. reflexivity.
Qed.

Lemma nchunks_le53 size : size <= 2 ^ 63 -> nchunks size <= 2 ^ 53.
Proof.
  intro H. destruct (N.le_gt_cases (nchunks size) (2 ^ 53)) as [|G]; [assumption|exfalso].
  apply nchunks_spec in G. change (2 ^ 63) with (2 ^ 53 * 1024) in H. change (2 ^ 53) with 9007199254740992 in *. lia.
Qed.

Lemma span_clip size a e : nchunks size <= e -> span_bytes size a e = span_bytes size a (nchunks size).
Proof.
  intro H. unfold span_bytes.
  assert (H1 : ~ nchunks size < nchunks size) by lia. rewrite nchunks_spec in H1.
  assert (H2 : ~ e < nchunks size) by lia. rewrite nchunks_spec in H2.
  pose proof (nchunks_pos size).
  rewrite (N.min_r (e * 1024)), (N.min_r (nchunks size * 1024)) by lia. reflexivity.
Qed.

Section Geom.
Variables (size bs : N) (q0 : ranges).
Hypothesis Hsize : size <= 2 ^ 63.
Hypothesis Hbs : bs <= 10.
Local Notation nn := (nchunks size).
Local Notation g := (2 ^ bs).
Local Notation B := (sp_blocks size bs).

(* a leaf item: the chunk group starting at a, clipped to the blob *)
Record leaf_ok (a E : N) (rm : bool) (rs : ranges) : Prop := mk_leaf_ok {
  lo_lt : a < E;
  lo_in : E <= nn;
  lo_grp : E = N.min (a + g) nn;
  lo_rs : rs_ok q0 rs a E rm;
  lo_rm : rm = true -> E = nn;
  lo_nrm : rm = false -> E < nn;
  lo_ne : rs <> [];
  lo_al : exists ga, a = ga * g }.

(* a parent item: node m - 1 over [a, E) *)
Record par_ok (a m E : N) : Prop := mk_par_ok {
  po_am : a < m;
  po_mE : m < E;
  po_in : E <= nn;
  po_half : next_pow2 (E - a) / 2 = m - a;
  po_cap : g < next_pow2 (E - a);
  po_start : sp_chunk_start (m - 1) = a;
  po_end : N.min (sp_chunk_end (m - 1)) nn = E }.

Variable P : N -> N -> bool -> ranges -> bool -> list chunk -> Prop.
Hypothesis H_leaf : forall a E rm rs ir, leaf_ok a E rm rs ->
  P a E rm rs ir [CLeaf a (span_bytes size a E) ir rs].
Hypothesis H_node : forall a m E rm rs ir l_rs r_rs pl pr,
  par_ok a m E -> rs_ok q0 rs a E rm -> rs <> [] ->
  (rm = true -> E = nn) -> (rm = false -> E < nn) ->
  split_inner rs a m = (l_rs, r_rs) ->
  rs_ok q0 l_rs a m false -> rs_ok q0 r_rs m E rm ->
  (if r_is_empty l_rs then pl = [] else P a m false l_rs false pl) ->
  (if r_is_empty r_rs then pr = [] else P m E rm r_rs false pr) ->
  P a E rm rs ir (CParent (m - 1) ir (negb (r_is_empty l_rs)) (negb (r_is_empty r_rs)) rs :: pl ++ pr).

Definition EE (ga n : N) : N := N.min ((ga + n) * g) nn.

Lemma blocks_inside j : j < B <-> j * g < nn.
Proof.
  pose proof (pow2_pos bs) as Hp. rewrite sp_blocks_spec, nchunks_spec. split; intros [H|H]; try (right; assumption).
  - left. subst. lia.
  - left. nia.
Qed.

Lemma node_facts ga n rm : node_ok size bs ga n rm -> (rm = false -> ga + n < B) ->
  ga * g < nn /\ (ga + n - 1) * g < EE ga n /\ EE ga n <= nn /\
  (rm = true -> EE ga n = nn) /\ (rm = false -> EE ga n = (ga + n) * g /\ EE ga n < nn) /\
  N.min ((ga + capof n) * g) nn = EE ga n.
Proof.
  intros [P1 [k A] I R] Hx. pose proof (pow2_pos bs) as Hp. unfold EE.
  assert (H1 : ga * g < nn) by (apply blocks_inside; lia).
  assert (H2 : (ga + n - 1) * g < nn) by (apply blocks_inside; lia).
  pose proof (nchunks_le_blocks size bs) as H3.
  assert (H4 : (ga + n - 1) * g < (ga + n) * g) by nia.
  destruct (capof_spec n P1) as (j & Ej & Hn & _).
  assert (H5 : (ga + n) * g <= (ga + capof n) * g) by (apply N.mul_le_mono_r; lia).
  destruct rm.
  - assert (E : N.min ((ga + n) * g) nn = nn) by (rewrite R; lia). rewrite E.
    repeat split; try lia; try discriminate.
  - specialize (Hx eq_refl). assert (H6 : (ga + n) * g < nn) by (apply blocks_inside; lia).
    rewrite <- R. repeat split; try lia; try discriminate.
Qed.

Theorem rplan_ind : forall fuel ga n rm rs ir,
  node_ok size bs ga n rm -> N.log2 (capof n) <= N.of_nat fuel -> (rm = false -> ga + n < B) ->
  rs_ok q0 rs (ga * g) (EE ga n) rm -> rs <> [] ->
  P (ga * g) (EE ga n) rm rs ir (rplan_rec fuel size bs rs ga n ir).
Proof.
  induction fuel as [|f IH]; intros ga n rm rs ir Hok Hf Hx Hrs Hne.
  { destruct (fuel_pos n 0 (nk_pos _ _ _ _ _ Hok) Hf) as [f' Ef]. discriminate. }
  rewrite rplan_rec_eq. cbv zeta.
  assert (Hem : r_is_empty rs = false) by (destruct rs; [congruence|reflexivity]). rewrite Hem.
  pose proof (pow2_pos bs) as Hp.
  destruct (node_facts ga n rm Hok Hx) as (F1 & F2 & F3 & F4 & F5 & F6).
  pose proof (PlanPreStruct.node_geom size bs ga n rm Hok) as G. cbv zeta in G. destruct G as (G1 & G2 & G3).
  pose proof Hok as [P1 [k Al] I R].
  destruct (N.leb_spec n 2) as [L|L].
  - destruct (N.leb_spec size ((ga + 1) * g * 1024)) as [Ls|Ls].
    + (* half leaf *)
      assert (HB : ~ ga + 1 < B) by (rewrite sp_blocks_spec; lia).
      assert (Hrm : rm = true) by (destruct rm; [reflexivity|specialize (Hx eq_refl); lia]).
      subst rm. specialize (F4 eq_refl).
      assert (Hnn : nn <= (ga + 1) * g) by (rewrite blocks_inside in HB; lia).
      assert (Hsp : span_bytes size (ga * g) ((ga + capof n) * g) = span_bytes size (ga * g) (EE ga n)).
      { rewrite F4. apply span_clip. rewrite capof_small by assumption. nia. }
      rewrite Hsp. apply H_leaf. constructor.
      * lia.
      * lia.
      * rewrite F4. nia.
      * exact Hrs.
      * intros _. exact F4.
      * discriminate.
      * exact Hne.
      * now exists ga.
    + (* a pair of groups *)
      assert (HB : ga + 1 < B) by (rewrite sp_blocks_spec; right; exact Ls).
      assert (Hn2 : n = 2).
      { destruct rm; [lia|]. rewrite capof_small in R by assumption. exact R. }
      subst n. rewrite capof_small in * by lia. change (2 / 2) with 1 in *.
      assert (Hm : (ga + 1) * g < nn) by (apply blocks_inside; exact HB).
      replace (ga + 2 - 1) with (ga + 1) in F2 by lia.
      assert (Eid : unshift bs ga = (ga + 1) * g - 1) by (unfold unshift; reflexivity).
      replace (ga + 1 - 1) with ga in * by lia.
      rewrite Eid.
      destruct (split_inner rs (ga * g) ((ga + 1) * g)) as [l_rs r_rs] eqn:Esp. cbn [fst snd].
      destruct (split_ok q0 rs (ga * g) ((ga + 1) * g) (EE ga 2) rm l_rs r_rs Hrs ltac:(nia) F2 Esp) as [Hl Hr].
      assert (Hpar : par_ok (ga * g) ((ga + 1) * g) (EE ga 2)).
      { assert (X1 : 2 ^ bs < EE ga 2 - ga * g) by nia.
        assert (X2 : EE ga 2 - ga * g <= 2 ^ (bs + 1)) by (rewrite pow2_succ; unfold EE; nia).
        destruct (np2_half_unique _ _ X1 X2) as [N1 N2].
        constructor.
        - nia.
        - exact F2.
        - exact F3.
        - rewrite N1. lia.
        - rewrite N2, pow2_succ. lia.
        - rewrite <- Eid. exact G1.
        - rewrite <- Eid, G2. exact F6. }
      apply (H_node (ga * g) ((ga + 1) * g) (EE ga 2) rm rs ir l_rs r_rs);
        [exact Hpar|exact Hrs|exact Hne|exact F4|intro X; now destruct (F5 X)|exact Esp|exact Hl|exact Hr| |].
      * destruct (r_is_empty l_rs) eqn:El; [reflexivity|].
        apply H_leaf. constructor.
        -- nia.
        -- lia.
        -- nia.
        -- exact Hl.
        -- discriminate.
        -- intros _. lia.
        -- destruct l_rs; [discriminate|congruence].
        -- now exists ga.
      * destruct (r_is_empty r_rs) eqn:Er; [reflexivity|].
        assert (Hsp : span_bytes size ((ga + 1) * g) ((ga + 2) * g) = span_bytes size ((ga + 1) * g) (EE ga 2)).
        { destruct rm.
          - rewrite (F4 eq_refl). apply span_clip. rewrite <- (F4 eq_refl). unfold EE. lia.
          - destruct (F5 eq_refl) as [F5a _]. now rewrite F5a. }
        rewrite Hsp. apply H_leaf. constructor.
        -- lia.
        -- lia.
        -- unfold EE. nia.
        -- exact Hr.
        -- exact F4.
        -- intro Erm. now destruct (F5 Erm).
        -- destruct r_rs; [discriminate|congruence].
        -- now exists (ga + 1).
  - (* inner node *)
    assert (Hn : 3 <= n) by lia.
    destruct (capof_inner n Hn) as (j & Ecap & Eh & L1 & L2 & C1 & C2).
    pose proof (pow2_pos (j + 1)) as Hpj.
    destruct (fuel_children n f Hn Hf) as [Fu1 Fu2].
    pose proof (node_ok_left _ _ _ _ _ Hok Hn) as Hokl. pose proof (node_ok_right _ _ _ _ _ Hok Hn) as Hokr.
    set (half := capof n / 2) in *.
    assert (Hhn : half < n) by lia.
    assert (Ecap' : capof n = 2 * half).
    { rewrite Ecap, Eh. replace (j + 2) with (j + 1 + 1) by lia. now rewrite pow2_succ. }
    assert (Hm : (ga + half) * g < nn) by (apply blocks_inside; lia).
    assert (HmE : (ga + half) * g < EE ga n).
    { assert ((ga + half) * g <= (ga + n - 1) * g) by (apply N.mul_le_mono_r; lia). lia. }
    assert (Ham : ga * g < (ga + half) * g) by nia.
    assert (EEl : EE ga half = (ga + half) * g) by (unfold EE; lia).
    assert (EEr : EE (ga + half) (n - half) = EE ga n) by (unfold EE; replace (ga + half + (n - half)) with (ga + n) by lia; reflexivity).
    assert (Eid : unshift bs (ga + half - 1) = (ga + half) * g - 1).
    { unfold unshift. replace (ga + half - 1 + 1) with (ga + half) by lia. reflexivity. }
    rewrite Eid.
    destruct (split_inner rs (ga * g) ((ga + half) * g)) as [l_rs r_rs] eqn:Esp. cbn [fst snd].
    destruct (split_ok q0 rs (ga * g) ((ga + half) * g) (EE ga n) rm l_rs r_rs Hrs Ham HmE Esp) as [Hl Hr].
    assert (Hpar : par_ok (ga * g) ((ga + half) * g) (EE ga n)).
    { assert (X1 : 2 ^ (j + 1 + bs) < EE ga n - ga * g) by (rewrite pow2_add, <- Eh; nia).
      assert (X2 : EE ga n - ga * g <= 2 ^ (j + 1 + bs + 1)).
      { rewrite pow2_succ, pow2_add, <- Eh. unfold EE.
        assert ((ga + n) * g <= (ga + 2 * half) * g) by (apply N.mul_le_mono_r; lia). nia. }
      destruct (np2_half_unique _ _ X1 X2) as [N1 N2].
      constructor.
      - exact Ham.
      - exact HmE.
      - exact F3.
      - rewrite N1, pow2_add, <- Eh. lia.
      - rewrite N2, pow2_succ, pow2_add. pose proof (pow2_pos bs). nia.
      - rewrite <- Eid. exact G1.
      - rewrite <- Eid, G2. exact F6. }
    apply (H_node (ga * g) ((ga + half) * g) (EE ga n) rm rs ir l_rs r_rs);
      [exact Hpar|exact Hrs|exact Hne|exact F4|intro X; now destruct (F5 X)|exact Esp|exact Hl|exact Hr| |].
    + destruct (r_is_empty l_rs) eqn:El.
      * destruct l_rs; [|discriminate]. apply rplan_rec_empty.
      * rewrite <- EEl. apply (IH ga half false); try assumption.
        -- intros _. lia.
        -- rewrite EEl. exact Hl.
        -- destruct l_rs; [discriminate|congruence].
    + destruct (r_is_empty r_rs) eqn:Er.
      * destruct r_rs; [|discriminate]. apply rplan_rec_empty.
      * rewrite <- EEr. apply (IH (ga + half) (n - half) rm); try assumption.
        -- intro Erm. specialize (Hx Erm). lia.
        -- rewrite EEr. exact Hr.
        -- destruct r_rs; [discriminate|congruence].
Qed.

(* the whole plan *)
Theorem rplan_ind_root (q : ranges) : rs_ok q0 q 0 nn true -> q <> [] ->
  P 0 nn true q true (rplan size bs q).
Proof.
  intros Hrs Hne. unfold rplan.
  pose proof (node_ok_root size bs) as Hok.
  destruct (node_facts 0 B true Hok ltac:(discriminate)) as (_ & _ & _ & F4 & _).
  specialize (F4 eq_refl).
  pose proof (rplan_ind 65 0 B true q true Hok (root_fuel size bs Hsize) ltac:(discriminate)) as H.
  rewrite N.mul_0_l, F4 in H. now apply H.
Qed.

End Geom.
