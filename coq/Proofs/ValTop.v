(* C06, part 4: the validators valid_ranges / valid_outboard_ranges: exact output, soundness against the
   blob (under the hash assumptions) and completeness. *)
From BaoV Require Import Model.Sync Model.Fsm Spec.PlanSpec Spec.PlanWf Spec.EncSpec Spec.HashAssm.
From BaoV Require Import Proofs.NodeLevel Proofs.NodeBits Proofs.NodeAlgebra
  Proofs.ObBase Proofs.ObLoop Proofs.ObSize Proofs.DecHash Proofs.RangeBase Proofs.BridgeBase
  Proofs.ShapeBase Proofs.PlanBase Proofs.PlanRs Proofs.PlanNav Proofs.ValSpec Proofs.ValPath Proofs.ValTrue.
From Coq Require Import ZArith Lia.
Open Scope N_scope.
Arguments N.add : simpl never.
Arguments N.sub : simpl never.
Arguments N.mul : simpl never.
Arguments N.pow : simpl never.
Arguments N.shiftl : simpl never.
Arguments N.shiftr : simpl never.
Arguments N.land : simpl never.
Arguments N.div : simpl never.
Arguments N.modulo : simpl never.
Arguments N.log2 : simpl never.
Arguments N.min : simpl never.
Arguments N.max : simpl never.
Ltac Zify.zify_post_hook ::= Z.to_euclidean_division_equations.

Definition VFUEL : nat := 70.

Section Defs.
Variable HO : hops.
Notation bytes := (bytes HO).
Notation hash := (hash HO).
Notation outboard := (outboard HO).

(* loads of the nodes of the tree do not fail (they may find no slot) *)
Definition loads_ok (ob : outboard) (size bs : N) : Prop :=
  forall nd, In nd (sp_pre_nodes size bs) -> exists x, load_sync HO ob nd = Ok x.

(* the stored-pair nodes on the way from the root of the Shape down to group ga *)
Definition top_path (size bs ga : N) : list (N * bool) := grp_path VFUEL bs 0 (sp_blocks size bs) ga.

(* some chunk of group ga is selected by the query *)
Definition touchedb (q : ranges) (size bs ga : N) : bool := touchedn (sel q size) size bs ga 1.
Definition touched (q : ranges) (size bs ga : N) : Prop :=
  exists c, grp_start bs ga <= c < grp_end size bs ga /\ sel q size c = true.
(* the stored pairs on the path of ga verify, from the outboard's root down *)
Definition chain_ok (ob : outboard) (size bs ga : N) : Prop :=
  chain_prop HO ob (top_path size bs ga) (ob_root ob) true.
(* the stored bytes of the group hash to the half of the last pair on its path that is owed to it
   (a single-group tree: to the root, with the root flag) *)
Definition leaf_ok (d : bytes) (ob : outboard) (size bs ga : N) : Prop :=
  exists h, owed_walk HO ob (top_path size bs ga) (Some (ob_root ob)) = Some h /\
    heq HO (hash_subtree HO (grp_start bs ga) (chunk_bytes HO d (grp_start bs ga) (grp_end size bs ga))
              (sp_blocks size bs =? 1)) h.

(* the recursive specification at the root; wd = with data *)
Definition val_top (wd : bool) (ob : outboard) (d : bytes) (size bs : N) (q : ranges) : list (N * N) :=
  val_spec HO VFUEL wd ob d size bs (sel q size) 0 (sp_blocks size bs) (ob_root ob) true.

(* boolean verdict for one group *)
Definition grp_verdict (wd : bool) (ob : outboard) (d : bytes) (size bs ga : N) : bool :=
  grp_okb HO wd ob d size bs ga (top_path size bs ga) (ob_root ob) true.

Lemma touched_iff q size bs ga : touchedb q size bs ga = true <-> touched q size bs ga.
Proof.
  unfold touchedb, touchedn, touched, grp_start, grp_end. rewrite existsb_exists. split.
  - intros (c & Hc & Hs). apply crl_in in Hc. exists c. split; [exact Hc|exact Hs].
  - intros (c & Hc & Hs). exists c. split; [apply crl_in; exact Hc|exact Hs].
Qed.

Lemma chain_prop_walk ob p : forall owed ir, chain_prop HO ob p owed ir -> exists h, chain_walk HO ob p owed ir = Some h.
Proof.
  induction p as [|[nd rt] rest IH]; intros owed ir H; cbn [chain_walk chain_prop] in *.
  - now exists owed.
  - destruct H as (l & r & Es & Hq & Hc). rewrite Es. unfold heq in Hq. rewrite Hq. now apply IH.
Qed.

Lemma grp_okb_iff wd ob d size bs ga p owed ir :
  grp_okb HO wd ob d size bs ga p owed ir = true <->
  chain_prop HO ob p owed ir /\
  (wd = true -> exists h, owed_walk HO ob p (Some owed) = Some h /\
     heq HO (hash_subtree HO (grp_start bs ga) (chunk_bytes HO d (grp_start bs ga) (grp_end size bs ga)) false) h).
Proof.
  unfold grp_okb. split.
  - destruct (chain_walk HO ob p owed ir) as [h|] eqn:Ew; [|discriminate].
    apply chain_walk_iff in Ew. destruct Ew as [C O]. intro H. split; [exact C|].
    intros ->. exists h. split; [exact O|exact H].
  - intros [C L]. destruct (chain_prop_walk ob p owed ir C) as [h Ew]. rewrite Ew.
    destruct wd; [|reflexivity]. destruct (L eq_refl) as (h' & O & Hq).
    apply chain_walk_iff in Ew. destruct Ew as [_ O']. rewrite O in O'. injection O' as ->. exact Hq.
Qed.
End Defs.

(* ------------------------------------------------------------------------------------------- *)
Section Exact.
Variable HO : hops.
Notation bytes := (bytes HO).
Notation hash := (hash HO).
Notation outboard := (outboard HO).

Variables (size bs : N) (q : ranges) (ob : outboard).
Hypothesis Hsize : size <= 2 ^ 63.
Hypothesis Hbs : bs <= 10.
Hypothesis Hwf : wf_ranges q = true.
Hypothesis Htree : ob_tree ob = mkTree size bs.
Hypothesis Hloads : loads_ok HO ob size bs.
Let B := sp_blocks size bs.

Lemma top_fuel : N.log2 (capof B) <= N.of_nat VFUEL.
Proof. clear - Hsize. pose proof (root_fuel size bs Hsize) as H. fold B in H. unfold VFUEL. lia. Qed.

Lemma B_pos : 1 <= B.
Proof. clear. unfold B, sp_blocks. lia. Qed.

Lemma validate_top wd d : (wd = true -> blen HO d = size) -> 2 <= B ->
  validate_rec HO VFUEL wd (mkTree size bs) (filled_of B) ob d (ob_root ob) (sid 0 B) true (truncate_ranges q size)
  = (val_top HO wd ob d size bs q, Ok tt).
Proof. 
  intros Hd HB. unfold val_top. fold B.
  apply (validate_rec_spec HO size bs q Hsize Hbs Hwf ob d wd (fun s => In s (sh_pre VFUEL 0 B))) with (rm := true); try assumption.
  - intros s Hs. apply Hloads. unfold sp_pre_nodes. apply in_map. fold B.
    rewrite (sh_pre_fuel 65 VFUEL 0 B B_pos); [exact Hs| |apply top_fuel].
    pose proof (root_fuel size bs Hsize) as H. exact H.
  - apply node_ok_root.
  - discriminate.
  - apply top_fuel.
  - apply rs_ok_root. apply RangeTrunc.truncate_wf. exact Hwf.
  - intros x Hx. exact Hx.
Qed.

Lemma blocks_B : blocks (mkTree size bs) = B.
Proof.  apply blocks_spec. Qed.

(* C06.1: more than one group *)
Lemma data_exact d : blen HO d = size -> 2 <= B ->
  valid_ranges HO ob d q = (val_top HO true ob d size bs q, Ok tt).
Proof. 
  intros Hd HB. unfold valid_ranges. rewrite Htree, blocks_B.
  destruct (N.eqb_spec B 1) as [E|_]; [lia|].
  rewrite shifted_eq. fold B. cbn [tsize]. apply validate_top; [intros _; exact Hd|exact HB].
Qed.

Lemma outboard_exact : 2 <= B ->
  valid_outboard_ranges HO ob q = (val_top HO false ob [] size bs q, Ok tt).
Proof. 
  intros HB. unfold valid_outboard_ranges. rewrite Htree, blocks_B.
  destruct (N.eqb_spec B 1) as [E|_]; [lia|].
  rewrite shifted_eq. fold B. cbn [tsize]. apply validate_top; [discriminate|exact HB].
Qed.

(* a single group *)
Lemma data_single d : blen HO d = size -> B = 1 ->
  valid_ranges HO ob d q =
  ((if bytes_eqb HO (hash_subtree HO 0 d true) (ob_root ob) then [(0, chunks size)] else []), Ok tt).
Proof. clear - Htree.
  intros Hd HB. unfold valid_ranges. rewrite Htree, blocks_B, HB. cbn [N.eqb Pos.eqb tsize].
  unfold read_exact_at, slice. rewrite ObBase.drop_0, ObBase.take_all by lia. rewrite Hd, N.eqb_refl.
  reflexivity.
Qed.

Lemma outboard_single : B = 1 -> valid_outboard_ranges HO ob q = ([(0, chunks size)], Ok tt).
Proof. clear - Htree. intros HB. unfold valid_outboard_ranges. rewrite Htree, blocks_B, HB. reflexivity. Qed.

(* the output group by group *)
Lemma val_top_groups wd d : 2 <= B ->
  val_top HO wd ob d size bs q =
  flat_map (fun ga => if touchedb q size bs ga && grp_verdict HO wd ob d size bs ga
                      then [(grp_start bs ga, grp_end size bs ga)] else [])
           (chunk_range_list 0 B).
Proof. clear - Hsize.
  intro HB. unfold val_top. fold B.
  rewrite (val_spec_groups HO size bs (sel q size) ob d wd VFUEL 0 B (ob_root ob) true) by (lia || apply top_fuel).
  rewrite N.add_0_l. apply flat_map_ext_in. intros ga _.
  unfold grp_item, touchedb, grp_verdict, top_path. fold B. reflexivity.
Qed.

Lemma grp_verdict_iff wd d ga : 2 <= B ->
  grp_verdict HO wd ob d size bs ga = true <->
  chain_ok HO ob size bs ga /\ (wd = true -> leaf_ok HO d ob size bs ga).
Proof. clear.
  intro HB. unfold grp_verdict, chain_ok, leaf_ok. rewrite grp_okb_iff.
  fold B. replace (B =? 1) with false by (symmetry; apply N.eqb_neq; lia). reflexivity.
Qed.

Lemma val_top_member wd d a e : 2 <= B ->
  In (a, e) (val_top HO wd ob d size bs q) <->
  exists ga, ga < B /\ a = grp_start bs ga /\ e = grp_end size bs ga /\
             touched q size bs ga /\ chain_ok HO ob size bs ga /\ (wd = true -> leaf_ok HO d ob size bs ga).
Proof. clear - Hsize.
  intro HB. rewrite (val_top_groups wd d HB), in_flat_map. split.
  - intros (ga & Hga & Hin). apply crl_in in Hga.
    destruct (touchedb q size bs ga && grp_verdict HO wd ob d size bs ga) eqn:Ev; [|destruct Hin].
    destruct Hin as [Hin|[]]. injection Hin as <- <-. apply andb_true_iff in Ev. destruct Ev as [T V].
    apply touched_iff in T. apply (grp_verdict_iff wd d ga HB) in V. destruct V as [C L].
    exists ga. repeat split; try assumption; lia.
  - intros (ga & Hga & -> & -> & T & C & L). exists ga. split; [apply crl_in; lia|].
    apply touched_iff in T. rewrite T.
    rewrite (proj2 (grp_verdict_iff wd d ga HB) (conj C L)). now left.
Qed.

(* C06.1 in one equation: the reported list, group by group in increasing order *)
Lemma data_exact_groups d : blen HO d = size -> 2 <= B ->
  valid_ranges HO ob d q =
  (flat_map (fun ga => if touchedb q size bs ga && grp_verdict HO true ob d size bs ga
                       then [(grp_start bs ga, grp_end size bs ga)] else [])
            (chunk_range_list 0 B), Ok tt).
Proof. intros Hd HB. rewrite (data_exact d Hd HB), (val_top_groups true d HB). reflexivity. Qed.

Lemma outboard_exact_groups : 2 <= B ->
  valid_outboard_ranges HO ob q =
  (flat_map (fun ga => if touchedb q size bs ga && grp_verdict HO false ob [] size bs ga
                       then [(grp_start bs ga, grp_end size bs ga)] else [])
            (chunk_range_list 0 B), Ok tt).
Proof. intros HB. rewrite (outboard_exact HB), (val_top_groups false [] HB). reflexivity. Qed.

End Exact.

Lemma top_path_eq size bs ga : top_path size bs ga = grp_path VFUEL bs 0 (sp_blocks size bs) ga.
Proof. reflexivity. Qed.

Lemma chain_ok_walk HO (ob : outboard HO) size bs ga : chain_ok HO ob size bs ga ->
  exists h, chain_walk HO ob (top_path size bs ga) (ob_root ob) true = Some h.
Proof. unfold chain_ok. apply chain_prop_walk. Qed.

(* keep the fuel-70 path closed in later conversions *)
Global Opaque top_path val_top.
