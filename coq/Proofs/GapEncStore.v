(* Gap C04 / C05 / C08 (encoders, continued):
   - what a decoder with the true root makes of the output of each validating encoder on ANY store;
   - the fsm validating encoder without the q <> [] premise;
   - all five encoders on a store created by the crate; function of the selection; bao's slice at block size 0. *)
From BaoV Require Import Model.Sync Model.Fsm Spec.RangeSpec Spec.NodeSpec Spec.PlanSpec Spec.EncSpec Spec.HashAssm.
From BaoV Require Import Proofs.RangeBase Proofs.RangeRound Proofs.RangeTrunc Proofs.PlanBase Proofs.PlanNav Proofs.ValSpec Proofs.HistOb.
From BaoV Require Import Proofs.BridgeBase Proofs.BridgeTree Proofs.BridgePlan.
From BaoV Require Import Proofs.EncPlan Proofs.EncRec Proofs.EncLoop Proofs.EncMain Proofs.EncTop Proofs.EncThm Proofs.EncNonval
  Proofs.EncNodes.
From BaoV Require Import Proofs.DecForest Proofs.E2EDecode Proofs.E2EMisc.
From BaoV Require Import Proofs.FinalStore Proofs.FinalEnc Proofs.FinalAgree Proofs.GapBao Proofs.GapEnc.
From Coq Require Import Lia Arith PeanoNat ZArith ZifyN ZifyNat ZifyBool.
Ltac Zify.zify_post_hook ::= Z.div_mod_to_equations.
Arguments N.add : simpl never.
Arguments N.sub : simpl never.
Arguments N.mul : simpl never.
Arguments N.pow : simpl never.
Arguments N.div : simpl never.
Arguments N.modulo : simpl never.
Arguments N.log2 : simpl never.
Arguments N.min : simpl never.
Arguments N.max : simpl never.

(* ---------- the fsm validating encoder, empty query included ---------- *)
Theorem c05_prefix_fsm_all : forall (HO : hops) (data : bytes HO) (bs : N) (q : ranges),
  wf_ranges q = true -> blen HO data <= 2 ^ 63 -> bs <= 10 ->
  forall ob : outboard HO,
  ob_tree ob = mkTree (blen HO data) bs -> ob_root ob = root_hash HO data ->
  forall (data' : bytes HO) (r : res enc_err unit) (out : bytes HO),
  hash_ok HO ->
  encode_ranges_validated_fsm HO data' ob q = (r, out) ->
  (exists tail, flat HO (honest HO data bs q) = out ++ tail /\
                (r = Ok tt -> tail = []) /\ (is_mismatch r -> tail <> [])) /\
  (r = Ok tt \/ is_mismatch r \/ (exists k, r = Err (EIo k)) \/ r = Panic) /\
  ((forall nd, In nd (enc_nodes (blen HO data) bs q) -> exists p, load_fsm HO ob nd = Ok (Some p)) ->
     r <> Panic /\ (blen HO data' = blen HO data -> forall k, r <> Err (EIo k))).
Proof.
  intros HO data bs q Hwf Hsize Hbs ob Htree Hroot data' r out HOK Hrun.
  destruct q as [|x q0] eqn:Eq.
  - rewrite (erv_fsm_plan HO data bs [] Hsize Hbs ob Htree Hroot data') in Hrun.
    rewrite truncate_nil, rplan_nil in Hrun. cbn [bloop] in Hrun.
    apply pair_inj in Hrun. destruct Hrun as [<- <-].
    split; [|split].
    + exists []. rewrite (honest_nil HO data bs). split; [reflexivity|]. split; [reflexivity|].
      intros [[n X]|[c X]]; discriminate.
    + now left.
    + intros _. split; [discriminate|]. intros _ k. discriminate.
  - rewrite <- Eq in *. assert (Hne : q <> []) by (rewrite Eq; discriminate).
    exact (c05_prefix_fsm HO data bs q Hwf Hsize Hbs ob Htree Hroot data' r out HOK Hne Hrun).
Qed.

(* ---------- the receiver's side ---------- *)
Section Receiver.
Variable HO : hops.
Hypothesis HOK : hash_ok HO.
Variable data : bytes HO.
Variables (bs : N) (q : ranges).
Hypothesis Hwf : wf_ranges q = true.
Hypothesis Hsize : blen HO data <= 2 ^ 63.
Hypothesis Hbs : bs <= 10.
Variable ob : outboard HO.
Hypothesis Htree : ob_tree ob = mkTree (blen HO data) bs.
Hypothesis Hroot : ob_root ob = root_hash HO data.
Local Notation hon := (honest HO data bs q).

(* the statement shared by the three encoders: `out` are the bytes written, `r` the encoder's result *)
Definition received (r : res enc_err unit) (out : bytes HO) : Prop :=
  exists (k : nat) (tail : bytes HO),
    flat HO hon = out ++ tail /\ (r = Ok tt -> tail = []) /\ (is_mismatch r -> tail <> []) /\
    (length (flat HO (firstn k hon)) <= length out)%nat /\
    (forall ys o st, dec_run HO (dec_new HO (ob_root ob) (ob_tree ob) out q) = (ys, o, st) ->
       ys = firstn k hon /\
       ((tail = [] /\ k = length hon /\ o = Finished) \/
        (tail <> [] /\ exists it, nth_error hon k = Some it /\ o = Failed (item_err HO true it)))) /\
    (forall ys o st, rd_run HO (rd_new HO (ob_root ob) q (ob_tree ob) out) = (ys, o, st) ->
       ys = firstn k hon /\
       ((tail = [] /\ k = length hon /\ o = Finished) \/
        (tail <> [] /\ exists it, nth_error hon k = Some it /\ o = Failed (item_err HO true it)))).

Lemma received_of_prefix r out tail :
  flat HO hon = out ++ tail -> (r = Ok tt -> tail = []) -> (is_mismatch r -> tail <> []) -> received r out.
Proof.
  intros Ht T1 T2.
  destruct (prefix_accepted HO HOK data bs q Hsize Hbs Hwf out tail Ht) as (k & K & G1 & G2).
  exists k, tail. rewrite Htree, Hroot.
  split; [exact Ht|]. split; [exact T1|]. split; [exact T2|]. split; [exact K|]. split; [exact G1|exact G2].
Qed.

Theorem receiver_sync (data' : bytes HO) r out :
  encode_ranges_validated HO data' ob q = (r, out) -> received r out.
Proof.
  intro Hrun.
  destruct (c05_prefix HO data bs q Hwf Hsize Hbs ob Htree Hroot data' r out HOK Hrun) as ((tail & Ht & T1 & T2) & _).
  exact (received_of_prefix r out tail Ht T1 T2).
Qed.

Theorem receiver_fsm (data' : bytes HO) r out :
  encode_ranges_validated_fsm HO data' ob q = (r, out) -> received r out.
Proof.
  intro Hrun.
  destruct (c05_prefix_fsm_all HO data bs q Hwf Hsize Hbs ob Htree Hroot data' r out HOK Hrun) as ((tail & Ht & T1 & T2) & _).
  exact (received_of_prefix r out tail Ht T1 T2).
Qed.

Theorem receiver_mixed (data' : bytes HO) (its : list (item HO)) (last : eitem HO) :
  traverse_ranges_validated HO data' ob q = Some (ESize (blen HO data) :: map EItem its ++ [last]) ->
  (last = EDone \/ exists e, last = EError e) /\
  received (match last with EError e => Err e | _ => Ok tt end) (concat (map (item_bytes HO) its)).
Proof.
  intro Htr. destruct (trv_erv HO data' ob q) as (its' & E1 & E2).
  destruct (encode_ranges_validated HO data' ob q) as [r out] eqn:Erun. cbn [fst snd] in E1, E2.
  apply pair_inj in E1. destruct E1 as [_ Eout].
  pose proof (receiver_sync data' r out Erun) as HR.
  rewrite Htree in E2. cbn [tsize] in E2. rewrite Htr in E2.
  assert (Hsplit : forall (l1 l2 : list (eitem HO)) a b, l1 ++ [a] = l2 ++ [b] -> l1 = l2 /\ a = b).
  { intros l1 l2 a b H. apply app_inj_tail in H. exact H. }
  assert (Hinj : forall l1 l2 : list (item HO), map (@EItem HO) l1 = map (@EItem HO) l2 -> l1 = l2).
  { induction l1 as [|x l1 IH]; intros [|y l2] H; try discriminate; [reflexivity|].
    cbn [map] in H. injection H as H1 H2. f_equal; [exact H1|exact (IH _ H2)]. }
  destruct r as [u|e|]; [| |discriminate].
  - apply Some_inj in E2. injection E2 as E2. apply Hsplit in E2. destruct E2 as [E2 ->].
    apply Hinj in E2. subst its'. split; [now left|]. destruct u. rewrite <- Eout. exact HR.
  - apply Some_inj in E2. injection E2 as E2. apply Hsplit in E2. destruct E2 as [E2 ->].
    apply Hinj in E2. subst its'. split; [right; now exists e|]. rewrite <- Eout. exact HR.
Qed.

End Receiver.

(* ---------- created stores ---------- *)
Section RawNodes.
Variables (size bs : N).
Hypothesis Hsize : size <= 2 ^ 63.
Hypothesis Hbs : bs <= 10.

(* the parents of the plan of the raw (untruncated) query store a pair, too *)
Theorem enc_nodes_raw_pnode (q : ranges) : wf_ranges q = true ->
  forall nd, In nd (enc_nodes_raw size bs q) -> pnode size bs nd.
Proof.
  intros Hwf nd Hin. rewrite enc_nodes_raw_def in Hin.
  rewrite <- (rplan_nodes size bs q Hsize Hbs Hwf) in Hin.
  rewrite rplan_unfold in Hin.
  assert (Hnr : true = false -> 0 + sp_blocks size bs < sp_blocks size bs) by discriminate.
  destruct (rplan_rec_pnodes size bs Hsize Hbs 65 0 (sp_blocks size bs) true _ true nd (node_ok_root size bs) Hnr
              (root_fuel size bs Hsize) Hin) as [I1 I2].
  rewrite pnodes_eq. apply filter_In. split; [|exact I2].
  rewrite sp_pre_nodes_unfold. exact I1.
Qed.
End RawNodes.

Lemma groups_full_bs0 q size : groups_full 0 q size.
Proof.
  intros c c' Hc Hd _. change (2 ^ 0) with 1 in Hd. rewrite !N.div_1_r in Hd. now subst c'.
Qed.

Lemma groups_full_ext bs q1 q2 size : (forall c, sel q1 size c = sel q2 size c) ->
  groups_full bs q1 size -> groups_full bs q2 size.
Proof. intros E H c c' Hc Hd Hn. rewrite <- E in *. exact (H c c' Hc Hd Hn). Qed.

Section Created.
Variable HO : hops.
Hypothesis HOK : hash_ok HO.
Variable data : bytes HO.
Variable bs : N.
Hypothesis Hsize : blen HO data <= 2 ^ 63.
Hypothesis Hbs : bs <= 10.
Variable ob : outboard HO.
Hypothesis Hst : created_store HO data bs ob.
Local Notation size := (blen HO data).

Lemma cs_raw_stored q : wf_ranges q = true -> forall nd, In nd (enc_nodes_raw size bs q) ->
  stored_ok HO data ob nd /\ stored_ok_fsm HO data ob nd.
Proof.
  intros Hwf nd Hin. destruct Hst as [K T R D]. unfold stored_ok, stored_ok_fsm.
  apply (created_pnode_loads HO HOK data bs Hsize Hbs ob K T D).
  exact (enc_nodes_raw_pnode size bs Hsize Hbs q Hwf nd Hin).
Qed.

(* the five encoders on a created store *)
Theorem created_five (q : ranges) : wf_ranges q = true ->
  encode_ranges_validated HO data ob q = (Ok tt, flat HO (honest HO data bs q)) /\
  encode_ranges_validated_fsm HO data ob q = (Ok tt, flat HO (honest HO data bs q)) /\
  (exists its, traverse_ranges_validated HO data ob q = Some (ESize size :: map EItem its ++ [EDone]) /\
               concat (map (item_bytes HO) its) = flat HO (honest HO data bs q)) /\
  (groups_full bs q size ->
     encode_ranges HO data ob q = (Ok tt, flat HO (honest HO data bs q)) /\
     encode_ranges_fsm HO data ob q = (Ok tt, flat HO (honest HO data bs q))).
Proof.
  intro Hwf. pose proof Hst as [K T R D].
  split; [exact (created_enc_sync HO HOK data bs Hsize Hbs ob K T R D q Hwf)|].
  split; [exact (created_enc_fsm HO HOK data bs Hsize Hbs ob K T R D q Hwf)|].
  split.
  - destruct (created_units_ok HO HOK data bs Hsize Hbs ob K T D q Hwf) as [U _].
    exact (proj2 (c05_independent HO data bs q Hwf Hsize Hbs ob T R data (ho_beq HO HOK) U)).
  - intro Hfull. split.
    + apply (c08_nonval_sync HO data bs q Hwf Hsize Hbs ob T Hfull).
      intros nd Hin. exact (proj1 (cs_raw_stored q Hwf nd Hin)).
    + apply (c08_nonval_fsm HO data bs q Hwf Hsize Hbs ob T Hfull).
      intros nd Hin. exact (proj2 (cs_raw_stored q Hwf nd Hin)).
Qed.

(* the encoding is a function of the selected chunks: all five encoders, no premise on the store beyond
   its being the blob's *)
Theorem created_function_of_selection (q1 q2 : ranges) : wf_ranges q1 = true -> wf_ranges q2 = true ->
  (forall c, sel q1 size c = sel q2 size c) ->
  encode_ranges_validated HO data ob q1 = encode_ranges_validated HO data ob q2 /\
  encode_ranges_validated_fsm HO data ob q1 = encode_ranges_validated_fsm HO data ob q2 /\
  (exists its1 its2,
     traverse_ranges_validated HO data ob q1 = Some (ESize size :: map EItem its1 ++ [EDone]) /\
     traverse_ranges_validated HO data ob q2 = Some (ESize size :: map EItem its2 ++ [EDone]) /\
     concat (map (item_bytes HO) its1) = concat (map (item_bytes HO) its2)) /\
  (groups_full bs q1 size ->
     encode_ranges HO data ob q1 = encode_ranges HO data ob q2 /\
     encode_ranges_fsm HO data ob q1 = encode_ranges_fsm HO data ob q2).
Proof.
  intros W1 W2 Hsel.
  destruct (created_five q1 W1) as (A1 & A2 & (its1 & A3 & A4) & A5).
  destruct (created_five q2 W2) as (B1 & B2 & (its2 & B3 & B4) & B5).
  pose proof (bridge_function_of_selection HO data bs q1 q2 Hsel) as E.
  split; [rewrite A1, B1, E; reflexivity|]. split; [rewrite A2, B2, E; reflexivity|]. split.
  - exists its1, its2. split; [exact A3|]. split; [exact B3|]. rewrite A4, B4, E. reflexivity.
  - intro Hfull. destruct (A5 Hfull) as [A6 A7].
    destruct (B5 (groups_full_ext bs q1 q2 size Hsel Hfull)) as [B6 B7].
    split; [rewrite A6, B6, E; reflexivity|rewrite A7, B7, E; reflexivity].
Qed.

End Created.

(* ---------- block size 0, a single range: bao's slice ---------- *)
Lemma wf_pair s e : s < e -> e < 2 ^ 64 -> wf_ranges [s; e] = true.
Proof.
  intros H1 H2. unfold wf_ranges. cbn [strictly_sorted forallb]. rewrite W64_pow.
  assert (E1 : (s <? e) = true) by (apply N.ltb_lt; exact H1).
  assert (E2 : (s <? 2 ^ 64) = true) by (apply N.ltb_lt; lia).
  assert (E3 : (e <? 2 ^ 64) = true) by (apply N.ltb_lt; exact H2).
  rewrite E1, E2, E3. reflexivity.
Qed.
Lemma wf_single s : s < 2 ^ 64 -> wf_ranges [s] = true.
Proof.
  intros H. unfold wf_ranges. cbn [strictly_sorted forallb]. rewrite W64_pow.
  assert (E2 : (s <? 2 ^ 64) = true) by (apply N.ltb_lt; exact H). rewrite E2. reflexivity.
Qed.

Section Bs0.
Variable HO : hops.
Hypothesis HOK : hash_ok HO.
Variable data : bytes HO.
Hypothesis Hsize : blen HO data <= 2 ^ 63.
Variable ob : outboard HO.
Hypothesis Hst : created_store HO data 0 ob.
Local Notation size := (blen HO data).

Lemma bs0_le : 0 <= 10.
Proof. lia. Qed.

Theorem bs0_encoders_bao_gen (q : ranges) (sl : bytes HO) : wf_ranges q = true ->
  flat HO (honest HO data 0 q) = sl ->
  encode_ranges_validated HO data ob q = (Ok tt, sl) /\
  encode_ranges_validated_fsm HO data ob q = (Ok tt, sl) /\
  (exists its, traverse_ranges_validated HO data ob q = Some (ESize size :: map EItem its ++ [EDone]) /\
               concat (map (item_bytes HO) its) = sl) /\
  encode_ranges HO data ob q = (Ok tt, sl) /\
  encode_ranges_fsm HO data ob q = (Ok tt, sl).
Proof.
  intros Hwf <-.
  destruct (created_five HO HOK data 0 Hsize bs0_le ob Hst q Hwf) as (A1 & A2 & A3 & A5).
  destruct (A5 (groups_full_bs0 q size)) as [A6 A7].
  split; [exact A1|]. split; [exact A2|]. split; [exact A3|]. split; [exact A6|exact A7].
Qed.

Theorem bs0_encoders_are_bao_range (s e : N) : s < e -> e < 2 ^ 64 ->
  let sl := bao_slice HO data (s * 1024) ((e - s) * 1024) in
  encode_ranges_validated HO data ob [s; e] = (Ok tt, sl) /\
  encode_ranges_validated_fsm HO data ob [s; e] = (Ok tt, sl) /\
  (exists its, traverse_ranges_validated HO data ob [s; e] = Some (ESize size :: map EItem its ++ [EDone]) /\
               concat (map (item_bytes HO) its) = sl) /\
  encode_ranges HO data ob [s; e] = (Ok tt, sl) /\
  encode_ranges_fsm HO data ob [s; e] = (Ok tt, sl).
Proof.
  intros H1 H2. cbv zeta. apply (bs0_encoders_bao_gen [s; e] _ (wf_pair s e H1 H2)).
  exact (honest_bs0_is_bao_slice_range HO data s e Hsize H1).
Qed.

Theorem bs0_encoders_are_bao_open (s len : N) : s < 2 ^ 64 -> size <= s * 1024 + len ->
  let sl := bao_slice HO data (s * 1024) len in
  encode_ranges_validated HO data ob [s] = (Ok tt, sl) /\
  encode_ranges_validated_fsm HO data ob [s] = (Ok tt, sl) /\
  (exists its, traverse_ranges_validated HO data ob [s] = Some (ESize size :: map EItem its ++ [EDone]) /\
               concat (map (item_bytes HO) its) = sl) /\
  encode_ranges HO data ob [s] = (Ok tt, sl) /\
  encode_ranges_fsm HO data ob [s] = (Ok tt, sl).
Proof.
  intros H1 H2. cbv zeta. apply (bs0_encoders_bao_gen [s] _ (wf_single s H1)).
  exact (honest_bs0_is_bao_slice_open HO data s len Hsize H2).
Qed.

End Bs0.

(* ---------- non-vacuity: a blob of 3 chunks over the term-algebra hash (hash_ok), block size 0 ----------
   nv_ob is the blob's created store; nv_bad is the same store with the second stored pair (the node over
   chunks 0 and 1) zeroed: the validating encoders send the root pair (64 bytes) and stop with a parent
   hash mismatch at that node, the item stream closes with the same error; a decoder fed those 64 bytes
   yields the root pair and reports the next parent as not found. *)
From BaoV Require Import Proofs.DecWitness.
Definition nv_data : bytes term_hops := repeat TZ 2049.
Definition nv_ob : outboard term_hops :=
  mkOb PreMem (root_hash term_hops nv_data) (mkTree 2049 0) (spec_outboard term_hops false nv_data 0).
Definition nv_bad : outboard term_hops :=
  mkOb PreMem (root_hash term_hops nv_data) (mkTree 2049 0)
       (take term_hops 64 (spec_outboard term_hops false nv_data 0) ++ zeros term_hops 64).

Lemma gap_enc_nonvacuous :
  hash_ok term_hops /\ blen term_hops nv_data <= 2 ^ 63 /\ nchunks (blen term_hops nv_data) = 3 /\
  created_store term_hops nv_data 0 nv_ob /\
  wf_ranges [1; 2] = true /\ wf_ranges [0] = true /\
  length (bao_slice term_hops nv_data (1 * 1024) ((2 - 1) * 1024)) = 1152%nat /\
  ob_tree nv_bad = mkTree (blen term_hops nv_data) 0 /\ ob_root nv_bad = root_hash term_hops nv_data /\
  (exists out, encode_ranges_validated term_hops nv_data nv_bad [0] = (Err (EParentHashMismatch 0), out) /\
               length out = 64%nat) /\
  (exists out, encode_ranges_validated_fsm term_hops nv_data nv_bad [0] = (Err (EParentHashMismatch 0), out) /\
               length out = 64%nat) /\
  (exists it, traverse_ranges_validated term_hops nv_data nv_bad [0]
              = Some (ESize 2049 :: map EItem [it] ++ [EError (EParentHashMismatch 0)])).
Proof.
  split; [exact term_hops_ok|]. split; [vm_compute; discriminate|]. split; [reflexivity|].
  split; [constructor; [right; right; now left|reflexivity|reflexivity|reflexivity]|].
  split; [reflexivity|]. split; [reflexivity|]. split; [vm_compute; reflexivity|].
  split; [reflexivity|]. split; [reflexivity|].
  split; [eexists; split; [vm_compute; reflexivity|reflexivity]|].
  split; [eexists; split; [vm_compute; reflexivity|reflexivity]|].
  eexists. vm_compute. reflexivity.
Qed.

(* ---------- C05, first clause in plain terms: the result is Ok exactly when every unit of the plan is intact ----------
   (a unit = the stored pair of a parent of the plan / the stored bytes of a leaf chunk group of the plan); and when every
   parent of the plan has a slot and the data file has the blob's length, anything else is a hash mismatch *)
Section AnyCorruption.
Variable HO : hops.
Hypothesis HOK : hash_ok HO.
Variable data : bytes HO.
Variables (bs : N) (q : ranges).
Hypothesis Hwf : wf_ranges q = true.
Hypothesis Hsize : blen HO data <= 2 ^ 63.
Hypothesis Hbs : bs <= 10.
Variable ob : outboard HO.
Hypothesis Htree : ob_tree ob = mkTree (blen HO data) bs.
Hypothesis Hroot : ob_root ob = root_hash HO data.
Local Notation size := (blen HO data).
Local Notation plan := (pre_order_chunks_iter (mkTree (blen HO data) bs) (truncate_ranges q (blen HO data)) 0).

Lemma ok_iff_gen (load : loader HO) (data' : bytes HO) r out :
  (forall nd l r, load nd = Ok (Some (l, r)) -> length l = 32%nat /\ length r = 32%nat) ->
  bloop HO load (rplan size bs (truncate_ranges q size)) [root_hash HO data] bs data' = (r, out) ->
  (r = Ok tt <-> Forall (unit_ok HO data bs load data') plan).
Proof.
  intros Hlen Hrun. rewrite (iter_plan HO data bs q Hsize Hbs).
  destruct q as [|x q0] eqn:Eq.
  - rewrite truncate_nil, rplan_nil in *. cbn [bloop] in Hrun. apply pair_inj in Hrun. destruct Hrun as [<- _].
    split; [constructor|reflexivity].
  - rewrite <- Eq in *. assert (Hne : q <> []) by (rewrite Eq; discriminate). clear Eq.
    pose proof (bloop_srun HO data bs q Hwf Hsize Hbs load data' HOK Hlen Hne) as H. rewrite Hrun in H.
    destruct (srun_inv HO data bs q load data' _ r out H) as [(-> & _ & Hall)|(P1 & u & P2 & EP & _ & Hf & _)].
    + split; [intros _; exact Hall|reflexivity].
    + split.
      * intro Hr. exfalso. exact (unit_fail_not_Ok HO data bs load data' u r Hf Hr).
      * intro Hall. exfalso. rewrite EP in Hall. rewrite Forall_forall in Hall.
        exact (unit_fail_not_ok HO data bs load data' u r Hf (Hall u (in_mid P1 u P2))).
Qed.

Theorem any_corruption_sync (data' : bytes HO) r out :
  encode_ranges_validated HO data' ob q = (r, out) ->
  (r = Ok tt <-> Forall (unit_ok HO data bs (load_sync HO ob) data') plan) /\
  ((forall nd, In nd (enc_nodes size bs q) -> exists p, load_sync HO ob nd = Ok (Some p)) ->
   blen HO data' = size -> r = Ok tt \/ is_mismatch r).
Proof.
  intro Hrun. split.
  - destruct q as [|x q0] eqn:Eq.
    + rewrite erv_bloop in Hrun. cbn [r_is_empty] in Hrun. apply pair_inj in Hrun. destruct Hrun as [<- _].
      rewrite (iter_plan HO data bs [] Hsize Hbs), truncate_nil, rplan_nil. split; [constructor|reflexivity].
    + rewrite <- Eq in *. assert (Hne : q <> []) by (rewrite Eq; discriminate). clear Eq.
      rewrite (erv_plan HO data bs q Hwf Hsize Hbs ob Htree Hroot data' Hne) in Hrun.
      exact (ok_iff_gen (load_sync HO ob) data' r out (load_sync_len HO ob) Hrun).
  - intros Hld Hb.
    destruct (c05_prefix HO data bs q Hwf Hsize Hbs ob Htree Hroot data' r out HOK Hrun) as (_ & Hr & Hn).
    destruct (Hn Hld) as [Hnp Hio]. destruct Hr as [Hr|[Hr|[(k & Hr)|Hr]]]; [now left|now right| |contradiction].
    exfalso. exact (Hio Hb k Hr).
Qed.

Theorem any_corruption_fsm (data' : bytes HO) r out :
  encode_ranges_validated_fsm HO data' ob q = (r, out) ->
  (r = Ok tt <-> Forall (unit_ok HO data bs (load_fsm HO ob) data') plan) /\
  ((forall nd, In nd (enc_nodes size bs q) -> exists p, load_fsm HO ob nd = Ok (Some p)) ->
   blen HO data' = size -> r = Ok tt \/ is_mismatch r).
Proof.
  intro Hrun. split.
  - pose proof Hrun as Hrun'. rewrite (erv_fsm_plan HO data bs q Hsize Hbs ob Htree Hroot data') in Hrun'.
    exact (ok_iff_gen (load_fsm HO ob) data' r out (load_fsm_len HO ob) Hrun').
  - intros Hld Hb.
    destruct (c05_prefix_fsm_all HO data bs q Hwf Hsize Hbs ob Htree Hroot data' r out HOK Hrun) as (_ & Hr & Hn).
    destruct (Hn Hld) as [Hnp Hio]. destruct Hr as [Hr|[Hr|[(k & Hr)|Hr]]]; [now left|now right| |contradiction].
    exfalso. exact (Hio Hb k Hr).
Qed.

End AnyCorruption.

(* more non-vacuity, same blob: (a) two different queries with the same selection; (b) two different stores that agree
   on every unit of the plan of a query (chunk 2 only: the plan never reads the zeroed pair of nv_bad); (c) the split of
   the plan at the first differing unit, as in C05_detects / C05_detects_mixed *)
Lemma nv_sel_eq : forall c, sel [0; 3] 2049 c = sel [0] 2049 c.
Proof.
  intro c. unfold sel, reaches. change (nchunks 2049) with 3. cbn [length Nat.odd last]. rewrite mem_pair, mem_single.
  destruct (N.ltb_spec c 3), (N.leb_spec 0 c), (N.ltb_spec c 3), (N.eqb_spec c (3 - 1)), (N.ltb_spec 3 3);
    cbn; try reflexivity; lia.
Qed.

Lemma gap_enc_nonvacuous2 :
  (wf_ranges [0; 3] = true /\ wf_ranges [0] = true /\ [0; 3] <> [0] /\
   (forall c, sel [0; 3] (blen term_hops nv_data) c = sel [0] (blen term_hops nv_data) c) /\
   groups_full 0 [0; 3] (blen term_hops nv_data)) /\
  (nv_ob <> nv_bad /\ ob_tree nv_ob = ob_tree nv_bad /\ ob_root nv_ob = ob_root nv_bad /\
   let plan := pre_order_chunks_iter (ob_tree nv_ob) (truncate_ranges [2; 3] (tsize (ob_tree nv_ob))) 0 in
   plan <> [] /\
   (forall nd, In nd (plan_nodes plan) -> load_sync term_hops nv_ob nd = load_sync term_hops nv_bad nd) /\
   (forall nd, In nd (plan_nodes plan) -> load_fsm term_hops nv_ob nd = load_fsm term_hops nv_bad nd)) /\
  (exists P1 u P2 p,
     pre_order_chunks_iter (mkTree (blen term_hops nv_data) 0) (truncate_ranges [0] (blen term_hops nv_data)) 0
       = P1 ++ u :: P2 /\
     P1 <> [] /\ Forall (unit_ok term_hops nv_data 0 (load_sync term_hops nv_bad) nv_data) P1 /\
     u = CParent 0 false true true [0] /\
     load_sync term_hops nv_bad 0 = Ok (Some p) /\ p <> true_pair term_hops nv_data 0).
Proof.
  split; [|split].
  - split; [reflexivity|]. split; [reflexivity|]. split; [discriminate|]. split; [exact nv_sel_eq|apply groups_full_bs0].
  - split.
    + intro E. apply (f_equal (@ob_data term_hops)) in E. vm_compute in E. discriminate.
    + split; [reflexivity|]. split; [vm_compute; reflexivity|]. cbv zeta. split; [vm_compute; discriminate|]. split.
      * intros nd H. vm_compute in H. destruct H as [<-|[]]. vm_compute. reflexivity.
      * intros nd H. vm_compute in H. destruct H as [<-|[]]. vm_compute. reflexivity.
  - exists [CParent 1 true true true [0]], (CParent 0 false true true [0]),
           [CLeaf 0 1024 false [0]; CLeaf 1 1024 false [0]; CLeaf 2 1 false [0]].
    eexists. split; [vm_compute; reflexivity|]. split; [discriminate|]. split.
    + constructor; [|constructor]. vm_compute. reflexivity.
    + split; [reflexivity|]. split; [vm_compute; reflexivity|]. vm_compute. discriminate.
Qed.
