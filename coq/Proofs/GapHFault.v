(* Gap audit (C07 b / C02 i), part 5: the decode_ranges drivers (sync and fsm, with failing sinks) on the HONEST
   stream, exactly:
     fault_cut sf ys nw ns = (the items of ys that are applied before the first sink call that the fault plan sf
                              makes fail, whether such a call is reached)
   - the driver applies exactly fst (fault_cut sf honest 0 0) and returns Err (DIo kind) if a failing call is
     reached, Ok otherwise, in which case the reader stands exactly at the end of the honest encoding;
   - no sink fault: Ok, all honest items applied, reader at the end - for every sink whose saves succeed; they do for
     io-backed stores of any length, for EmptyOutboard and for pre-sized stores of the four kinds. *)
From BaoV Require Import Model.IO Spec.RangeSpec Spec.PlanSpec Spec.PlanWf Spec.NodeSpec Spec.EncSpec Spec.HashAssm.
From BaoV Require Import Proofs.RangeBase Proofs.RangeTrunc Proofs.PlanBase Proofs.BridgeBase Proofs.BridgeTree Proofs.BridgeLeaves
  Proofs.ShapeBase Proofs.ShapeOffsets
  Proofs.DecLoop Proofs.DecConst Proofs.DecForest Proofs.DecRanges Proofs.IOSinkFaults
  Proofs.E2EGlue Proofs.E2EDecode Proofs.E2ERanges Proofs.E2EMisc
  Proofs.ValSpec Proofs.HistOb Proofs.HistEnc Proofs.HistInv Proofs.HistStep
  Proofs.E2EDownload Proofs.E2EDownloadStep
  Proofs.GapTarget Proofs.GapStores Proofs.GapValFsmView Proofs.GapHNodes Proofs.GapHFrame Proofs.GapHShort.
From Coq Require Import ZArith Lia.
Open Scope N_scope.
Arguments N.add : simpl never.
Arguments N.sub : simpl never.
Arguments N.mul : simpl never.
Arguments N.pow : simpl never.
Arguments N.div : simpl never.
Arguments N.modulo : simpl never.
Arguments N.min : simpl never.
Arguments N.max : simpl never.

Lemma steps_inr_mono {S R} (f : S -> S + R) : forall k m s r, steps k f s = inr r -> (k <= m)%nat -> steps m f s = inr r.
Proof.
  induction k as [|k IH]; intros m s r H Hle; [discriminate H|].
  destruct m as [|m]; [lia|]. cbn [steps] in *. destruct (f s) as [s'|r']; [apply (IH m s' r H); lia|exact H].
Qed.

Lemma steps_ext {S R} (f g : S -> S + R) : (forall s, f s = g s) -> forall k s, steps k f s = steps k g s.
Proof.
  intros E. induction k as [|k IH]; intro s; [reflexivity|]. cbn [steps]. rewrite E. destruct (g s); [apply IH|reflexivity].
Qed.

Section Gen.
Variable HO : hops.
Notation bytes := (bytes HO).
Notation outboard := (outboard HO).
Notation item := (item HO).

(* what a fault plan lets through *)
Fixpoint fault_cut (sf : sink_faults) (ys : list item) (nw ns : N) : list item * bool :=
  match ys with
  | [] => ([], false)
  | IParent nd l r :: ys' =>
      if hits (sf_save sf) ns then ([], true)
      else (IParent nd l r :: fst (fault_cut sf ys' nw (ns + 1)), snd (fault_cut sf ys' nw (ns + 1)))
  | ILeaf off d :: ys' =>
      if hits (sf_target sf) nw then ([], true)
      else (ILeaf off d :: fst (fault_cut sf ys' (nw + 1) ns), snd (fault_cut sf ys' (nw + 1) ns))
  end.

Lemma fault_cut_none : forall ys nw ns, fault_cut no_faults ys nw ns = (ys, false).
Proof.
  induction ys as [|[nd l r|off d] ys IH]; intros nw ns; cbn [fault_cut no_faults sf_save sf_target hits]; [reflexivity| |];
    rewrite IH; reflexivity.
Qed.

Lemma fault_cut_prefix sf : forall ys nw ns, is_prefix (fst (fault_cut sf ys nw ns)) ys.
Proof.
  induction ys as [|[nd l r|off d] ys IH]; intros nw ns; cbn [fault_cut].
  - exists []. reflexivity.
  - destruct (hits (sf_save sf) ns); cbn [fst]; [eexists; reflexivity|].
    destruct (IH nw (ns + 1)) as [rest Hr]. exists rest. cbn [app]. now rewrite <- Hr.
  - destruct (hits (sf_target sf) nw); cbn [fst]; [eexists; reflexivity|].
    destruct (IH (nw + 1) ns) as [rest Hr]. exists rest. cbn [app]. now rewrite <- Hr.
Qed.

(* the number of leaves / parents before the cut *)
Definition n_leaves (ys : list item) : N := N.of_nat (length (filter (fun it => match it with ILeaf _ _ => true | _ => false end) ys)).
Definition n_parents (ys : list item) : N := N.of_nat (length (filter (fun it => match it with IParent _ _ _ => true | _ => false end) ys)).

(* a single failing target write: the cut is just before leaf number j (from 0) *)
Lemma fault_cut_target j kind : forall ys nw ns, nw <= j ->
  let p := fault_cut (mkSF (Some j) None kind) ys nw ns in
  (snd p = true -> exists off d rest, ys = fst p ++ ILeaf off d :: rest /\ nw + n_leaves (fst p) = j) /\
  (snd p = false -> fst p = ys /\ nw + n_leaves ys <= j).
Proof.
  induction ys as [|[nd l r|off d] ys IH]; intros nw ns Hle; cbn zeta; cbn [fault_cut sf_save sf_target hits].
  - split; [discriminate|]. intros _. split; [reflexivity|]. unfold n_leaves. cbn. lia.
  - cbn [fst snd]. destruct (IH nw (ns + 1) Hle) as [I1 I2]. cbv zeta in I1, I2. split.
    + intro H. destruct (I1 H) as (off & d & rest & E & Hn). exists off, d, rest. split; [cbn [app]; now rewrite <- E|exact Hn].
    + intro H. destruct (I2 H) as [E Hn]. split; [now rewrite E|exact Hn].
  - destruct (N.eqb_spec j nw) as [->|Hne]; cbn [fst snd].
    + split; [|discriminate]. intros _. exists off, d, ys. split; [reflexivity|]. unfold n_leaves. cbn. lia.
    + destruct (IH (nw + 1) ns ltac:(lia)) as [I1 I2]. cbv zeta in I1, I2.
      assert (Hl : forall zs, n_leaves (ILeaf off d :: zs) = 1 + n_leaves zs) by (intro zs; unfold n_leaves; cbn [filter length]; lia).
      split.
      * intro H. destruct (I1 H) as (off' & d' & rest & E & Hn). exists off', d', rest.
        split; [cbn [app]; now rewrite <- E|rewrite Hl; lia].
      * intro H. destruct (I2 H) as [E Hn]. split; [now rewrite E|rewrite Hl; lia].
Qed.

(* a single failing save: the cut is just before parent number j (from 0) *)
Lemma fault_cut_save j kind : forall ys nw ns, ns <= j ->
  let p := fault_cut (mkSF None (Some j) kind) ys nw ns in
  (snd p = true -> exists nd l r rest, ys = fst p ++ IParent nd l r :: rest /\ ns + n_parents (fst p) = j) /\
  (snd p = false -> fst p = ys /\ ns + n_parents ys <= j).
Proof.
  induction ys as [|[nd l r|off d] ys IH]; intros nw ns Hle; cbn zeta; cbn [fault_cut sf_save sf_target hits].
  - split; [discriminate|]. intros _. split; [reflexivity|]. unfold n_parents. cbn. lia.
  - destruct (N.eqb_spec j ns) as [->|Hne]; cbn [fst snd].
    + split; [|discriminate]. intros _. exists nd, l, r, ys. split; [reflexivity|]. unfold n_parents. cbn. lia.
    + destruct (IH nw (ns + 1) ltac:(lia)) as [I1 I2]. cbv zeta in I1, I2.
      assert (Hl : forall zs, n_parents (IParent nd l r :: zs) = 1 + n_parents zs) by (intro zs; unfold n_parents; cbn [filter length]; lia).
      split.
      * intro H. destruct (I1 H) as (nd' & l' & r' & rest & E & Hn). exists nd', l', r', rest.
        split; [cbn [app]; now rewrite <- E|rewrite Hl; lia].
      * intro H. destruct (I2 H) as [E Hn]. split; [now rewrite E|rewrite Hl; lia].
  - cbn [fst snd]. destruct (IH (nw + 1) ns Hle) as [I1 I2]. cbv zeta in I1, I2. split.
    + intro H. destruct (I1 H) as (nd & l & r & rest & E & Hn). exists nd, l, r, rest. split; [cbn [app]; now rewrite <- E|exact Hn].
    + intro H. destruct (I2 H) as [E Hn]. split; [now rewrite E|exact Hn].
Qed.

(* ---- a generic decoder machine ---- *)
Context {St : Type}.
Variable next : St -> option (res dec_err item * St).

Inductive okc : St -> list item -> St -> Prop :=
| okc_nil : forall s, okc s [] s
| okc_cons : forall s it s1 ys s2, next s = Some (Ok it, s1) -> okc s1 ys s2 -> okc s (it :: ys) s2.

Lemma okc_snoc s ys s1 it s2 : okc s ys s1 -> next s1 = Some (Ok it, s2) -> okc s (ys ++ [it]) s2.
Proof.
  induction 1 as [s|s it0 s0 ys s1 Hn _ IH]; intro H.
  - cbn [app]. econstructor; [exact H|constructor].
  - cbn [app]. econstructor; [exact Hn|exact (IH H)].
Qed.

Definition gstep (sf : sink_faults) (x : St * bytes * outboard * N * N)
  : (St * bytes * outboard * N * N) + (res dec_err unit * bytes * outboard * St) :=
  let '(st, target, ob, nw, ns) := x in
  match next st with
  | None => inr (Ok tt, target, ob, st)
  | Some (Err e, st') => inr (Err e, target, ob, st')
  | Some (Panic, st') => inr (Panic, target, ob, st')
  | Some (Ok (IParent node l r), st') =>
      if hits (sf_save sf) ns then inr (Err (DIo (sf_kind sf)), target, ob, st')
      else match save HO ob node l r with
           | Ok ob' => inl (st', target, ob', nw, ns + 1)
           | Err k => inr (Err (DIo k), target, ob, st')
           | Panic => inr (Panic, target, ob, st')
           end
  | Some (Ok (ILeaf off d), st') =>
      if hits (sf_target sf) nw then inr (Err (DIo (sf_kind sf)), target, ob, st')
      else inl (st', write_at HO target off d, ob, nw + 1, ns)
  end.

Lemma gsteps_cut sf : forall ys s0 s1 (t : bytes) (ob : outboard) nw ns t' ob',
  okc s0 ys s1 -> next s1 = None ->
  apply_items HO (fst (fault_cut sf ys nw ns)) t ob = (SOk, t', ob') ->
  exists k st', (k <= length ys + 1)%nat /\
    steps k (gstep sf) (s0, t, ob, nw, ns) =
      inr ((if snd (fault_cut sf ys nw ns) then Err (DIo (sf_kind sf)) else Ok tt), t', ob', st') /\
    (snd (fault_cut sf ys nw ns) = false -> st' = s1).
Proof.
  induction ys as [|it ys IH]; intros s0 s1 t ob nw ns t' ob' Hrun Hend Ha.
  - inversion Hrun; subst. cbn [fault_cut fst snd apply_items] in *. injection Ha as <- <-.
    exists 1%nat, s1. split; [cbn; lia|]. split; [|reflexivity]. cbn [steps gstep]. rewrite Hend. reflexivity.
  - inversion Hrun as [|s it' sm ys' s2 Hn Hrest]; subst.
    destruct it as [nd l r|off d]; cbn [fault_cut] in *.
    + destruct (hits (sf_save sf) ns) eqn:Eh; cbn [fst snd] in *.
      * cbn [apply_items] in Ha. injection Ha as <- <-. exists 1%nat, sm. split; [cbn; lia|]. split; [|discriminate].
        cbn [steps gstep]. rewrite Hn, Eh. reflexivity.
      * cbn [apply_items] in Ha. destruct (save HO ob nd l r) as [ob1|k|] eqn:Es; try discriminate Ha.
        destruct (IH sm s1 t ob1 nw (ns + 1) t' ob' Hrest Hend Ha) as (k & st' & Hk & Hs & He).
        exists (S k), st'. split; [cbn [length]; lia|]. split; [|exact He].
        cbn [steps gstep]. rewrite Hn, Eh, Es. exact Hs.
    + destruct (hits (sf_target sf) nw) eqn:Eh; cbn [fst snd] in *.
      * cbn [apply_items] in Ha. injection Ha as <- <-. exists 1%nat, sm. split; [cbn; lia|]. split; [|discriminate].
        cbn [steps gstep]. rewrite Hn, Eh. reflexivity.
      * cbn [apply_items] in Ha.
        destruct (IH sm s1 (write_at HO t off d) ob (nw + 1) ns t' ob' Hrest Hend Ha) as (k & st' & Hk & Hs & He).
        exists (S k), st'. split; [cbn [length]; lia|]. split; [|exact He].
        cbn [steps gstep]. rewrite Hn, Eh. exact Hs.
Qed.
End Gen.

Section Inst.
Variable HO : hops.
Notation bytes := (bytes HO).
Notation outboard := (outboard HO).
Notation item := (item HO).

Definition rd_next_opt (st : rstate HO) : option (res dec_err item * rstate HO) :=
  match rd_next HO st with RMore st' r => Some (r, st') | RDone _ => None end.

Lemma step_f_gstep sf x : decode_step_f HO sf x = gstep HO (dec_next HO) sf x.
Proof. destruct x as [[[[st t] ob] nw] ns]. reflexivity. Qed.

Lemma step_fsm_f_gstep sf x : decode_step_fsm_f HO sf x = gstep HO rd_next_opt sf x.
Proof.
  destruct x as [[[[st t] ob] nw] ns]. unfold decode_step_fsm_f, gstep, rd_next_opt.
  destruct (rd_next HO st) as [st' [[nd l r|off d]|e|]|rest]; reflexivity.
Qed.

Lemma dec_ok_okc st0 ys st : dec_ok_run HO st0 ys st -> okc HO (dec_next HO) st0 ys st.
Proof.
  induction 1 as [|ys st it st' _ IH Hn]; [constructor|]. exact (okc_snoc HO (dec_next HO) _ _ _ _ _ IH Hn).
Qed.

Lemma rd_ok_okc st0 ys st : rd_ok_run HO st0 ys st -> okc HO rd_next_opt st0 ys st.
Proof.
  induction 1 as [|ys st it st' _ IH Hn]; [constructor|]. apply (okc_snoc HO rd_next_opt _ _ _ _ _ IH).
  unfold rd_next_opt. rewrite Hn. reflexivity.
Qed.

(* successful calls of next consume items of the plan *)
Lemma okc_len_sync : forall ys it stk enc st n, okc HO (dec_next HO) (mkD HO it stk enc) ys st ->
  ends_within response_next it n -> (length ys <= n)%nat.
Proof.
  induction ys as [|y ys IH]; intros it stk enc st n Hrun He; [cbn; lia|].
  inversion Hrun as [|s it' sm ys' s2 Hn Hrest]; subst. rewrite dec_next_step in Hn. cbn [d_inner d_stack d_enc] in Hn.
  destruct (response_next it) as [[c it1]|] eqn:E; [|discriminate Hn].
  destruct (step_sync HO c stk enc) as [[r stk'] enc']. injection Hn as _ <-.
  destruct n as [|n]; cbn [ends_within] in He; rewrite E in He; [contradiction|].
  cbn [length]. pose proof (IH it1 stk' enc' st n Hrest He). lia.
Qed.

Lemma okc_len_fsm : forall ys it stk enc root st n, okc HO rd_next_opt (mkR HO it stk enc root) ys st ->
  ends_within response_next it n -> (length ys <= n)%nat.
Proof.
  induction ys as [|y ys IH]; intros it stk enc root st n Hrun He; [cbn; lia|].
  inversion Hrun as [|s it' sm ys' s2 Hn Hrest]; subst. unfold rd_next_opt in Hn. rewrite rd_next_step in Hn.
  cbn [Fsm.r_iter Fsm.r_stack Fsm.r_enc Fsm.r_root] in Hn.
  destruct (response_next it) as [[c it1]|] eqn:E; [|discriminate Hn].
  destruct (step_fsm HO c stk enc) as [[r stk'] enc']. injection Hn as _ <-.
  destruct n as [|n]; cbn [ends_within] in He; rewrite E in He; [contradiction|].
  cbn [length]. pose proof (IH it1 stk' enc' root st n Hrest He). lia.
Qed.

End Inst.

(* ---------- the drivers on the honest stream ---------- *)
Section Drivers.
Variable HO : hops.
Hypothesis HOK : hash_ok HO.
Notation bytes := (bytes HO).
Notation outboard := (outboard HO).
Notation item := (item HO).
Variable data : bytes.
Variables (bs : N) (q : ranges).
Hypothesis Hsize : blen HO data <= 2 ^ 63.
Hypothesis Hbs : bs <= 10.
Hypothesis Hwf : wf_ranges q = true.
Notation size := (blen HO data).
Notation t0 := (mkTree (blen HO data) bs).
Notation root := (root_hash HO data).
Notation hon := (honest HO data bs q).

Lemma hon_ok_sync (rest : bytes) : exists st,
  okc HO (dec_next HO) (dec_new HO root t0 (flat HO hon ++ rest) q) hon st /\ dec_next HO st = None /\ d_enc HO st = rest.
Proof.
  destruct (list_eq_dec N.eq_dec q []) as [Eq|Hne].
  - subst q. rewrite (honest_nil HO data bs). exists (dec_new HO root t0 (flat HO [] ++ rest) []).
    split; [constructor|]. split; [|reflexivity].
    rewrite dec_next_step. unfold dec_new. cbn [d_inner]. rewrite truncate_nil, response_new_nil. reflexivity.
  - destruct (e2e_done_position_sync HO HOK data bs q Hsize Hbs Hwf Hne rest) as (st & R & N0 & E).
    exists st. split; [exact (dec_ok_okc HO _ _ _ R)|]. split; assumption.
Qed.

Lemma hon_ok_fsm (rest : bytes) : exists st,
  okc HO (rd_next_opt HO) (rd_new HO root q t0 (flat HO hon ++ rest)) hon st /\ rd_next_opt HO st = None /\ Fsm.r_enc HO st = rest.
Proof.
  destruct (list_eq_dec N.eq_dec q []) as [Eq|Hne].
  - subst q. rewrite (honest_nil HO data bs). exists (rd_new HO root [] t0 (flat HO [] ++ rest)).
    split; [constructor|]. split; [|reflexivity].
    unfold rd_next_opt. rewrite rd_next_step. unfold rd_new. cbn [Fsm.r_iter]. rewrite truncate_owned_eq, truncate_nil, response_new_nil. reflexivity.
  - destruct (e2e_done_position HO HOK data bs q Hsize Hbs Hwf Hne rest) as (st & R & N0 & E).
    exists st. split; [exact (rd_ok_okc HO _ _ _ R)|]. split.
    + unfold rd_next_opt. rewrite N0. reflexivity.
    + pose proof (rd_next_step HO st) as X. rewrite N0 in X.
      destruct (response_next (Fsm.r_iter HO st)) as [[c it']|]; [destruct (step_fsm HO c _ _) as [[? ?] ?]; discriminate X|].
      injection X as X. now rewrite <- X.
Qed.

Lemma hon_len : (length hon + 1 <= 2 ^ LOOP_DEPTH)%nat.
Proof.
  destruct (setup_ends HO data bs q Hsize Hbs Hwf) as (n & En & Bn).
  destruct (hon_ok_sync []) as (st & R & _ & _). unfold dec_new in R.
  pose proof (okc_len_sync HO _ _ _ _ _ n R En) as Hl.
  pose proof (loop_bound_of_N n Bn). lia.
Qed.

Theorem fault_exact_sync sf (rest t : bytes) (ob : outboard) t' ob' :
  ob_root ob = root -> ob_tree ob = t0 ->
  apply_items HO (fst (fault_cut HO sf hon 0 0)) t ob = (SOk, t', ob') ->
  exists st', decode_ranges_f HO sf (flat HO hon ++ rest) q t ob =
    ((if snd (fault_cut HO sf hon 0 0) then Err (DIo (sf_kind sf)) else Ok tt), t', ob', st') /\
    (snd (fault_cut HO sf hon 0 0) = false -> d_enc HO st' = rest).
Proof.
  intros Hr Ht Ha. destruct (hon_ok_sync rest) as (st & R & N0 & E).
  destruct (gsteps_cut HO (dec_next HO) sf hon _ st t ob 0 0 t' ob' R N0 Ha) as (k & st' & Hk & Hs & He).
  exists st'. split; [|intro H; rewrite (He H); exact E].
  rewrite decode_ranges_f_eq, loop2_steps, Hr, Ht.
  rewrite (steps_ext _ _ (step_f_gstep HO sf)).
  rewrite (steps_inr_mono _ k _ _ _ Hs); [reflexivity|]. pose proof hon_len. lia.
Qed.

Theorem fault_exact_fsm sf (rest t : bytes) (ob : outboard) t' ob' :
  ob_root ob = root -> ob_tree ob = t0 ->
  apply_items HO (fst (fault_cut HO sf hon 0 0)) t ob = (SOk, t', ob') ->
  exists st', decode_ranges_fsm_f HO sf (flat HO hon ++ rest) q t ob =
    ((if snd (fault_cut HO sf hon 0 0) then Err (DIo (sf_kind sf)) else Ok tt), t', ob', st') /\
    (snd (fault_cut HO sf hon 0 0) = false -> Fsm.r_enc HO st' = rest).
Proof.
  intros Hr Ht Ha. destruct (hon_ok_fsm rest) as (st & R & N0 & E).
  destruct (gsteps_cut HO (rd_next_opt HO) sf hon _ st t ob 0 0 t' ob' R N0 Ha) as (k & st' & Hk & Hs & He).
  exists st'. split; [|intro H; rewrite (He H); exact E].
  rewrite decode_ranges_fsm_f_eq, loop2_steps, Hr, Ht.
  rewrite (steps_ext _ _ (step_fsm_f_gstep HO sf)).
  rewrite (steps_inr_mono _ k _ _ _ Hs); [reflexivity|]. pose proof hon_len. lia.
Qed.

End Drivers.

(* ---------- every sink of the crate accepts the honest items ---------- *)
Section Sinks.
Variable HO : hops.
Hypothesis HOK : hash_ok HO.
Notation bytes := (bytes HO).
Notation outboard := (outboard HO).
Notation item := (item HO).
Variable data : bytes.
Variable bs : N.
Hypothesis Hsize : blen HO data <= 2 ^ 63.
Hypothesis Hbs : bs <= 10.
Notation size := (blen HO data).
Notation t0 := (mkTree (blen HO data) bs).
Notation root := (root_hash HO data).
Notation nslots := (N.to_nat ((sp_blocks (blen HO data) bs - 1) * 64)).

(* io-backed of any length, EmptyOutboard, or pre-sized of one of the four kinds *)
Definition sink_ok (ob : outboard) : Prop :=
  is_io (ob_k ob) = true \/ ob_k ob = EmptyOb \/ ob_sized HO ob size bs.

Lemma apply_items_leaves : forall (ys : list item) (t : bytes) (ob : outboard) t' ob',
  apply_items HO ys t ob = (SOk, t', ob') -> t' = write_leaves HO t ys.
Proof.
  intros ys t ob t' ob' H. destruct (apply_items_target HO ys t ob) as (zs & _ & E & Z).
  rewrite H in E, Z. cbn [a_target a_res fst snd] in E, Z. rewrite (Z eq_refl) in E. exact E.
Qed.

Lemma apply_items_empty : forall (ys : list item) (t : bytes) (ob : outboard),
  parents_ok HO data bs ys -> ob_k ob = EmptyOb -> ob_tree ob = t0 ->
  exists t', apply_items HO ys t ob = (SOk, t', ob).
Proof.
  induction ys as [|[nd l r|off d] ys IH]; intros t ob Hok K T.
  - exists t. reflexivity.
  - destruct (Hok nd l r (or_introl eq_refl)) as (_ & _ & _ & [Hp|Hlv]).
    + assert (Es : save HO ob nd l r = Ok ob).
      { unfold save. rewrite K, T. cbn [tbs]. rewrite pnodes_eq in Hp. apply filter_In in Hp. destruct Hp as [Hin Hpe].
        rewrite (relevant_is_persisted size bs nd Hsize Hbs Hin), Hpe. destruct (level nd <? bs); reflexivity. }
      destruct (IH t ob (fun n l' r' H => Hok n l' r' (or_intror H)) K T) as (t' & A). exists t'. cbn [apply_items]. now rewrite Es.
    + assert (Es : save HO ob nd l r = Ok ob).
      { unfold save. rewrite K, T. cbn [tbs]. replace (level nd <? bs) with true by (symmetry; apply N.ltb_lt; exact Hlv). reflexivity. }
      destruct (IH t ob (fun n l' r' H => Hok n l' r' (or_intror H)) K T) as (t' & A). exists t'. cbn [apply_items]. now rewrite Es.
  - destruct (IH (write_at HO t off d) ob (fun n l' r' H => Hok n l' r' (or_intror H)) K T) as (t' & A). exists t'. exact A.
Qed.

(* applying a prefix of an honest encoding to any sink of the crate *)
Theorem sink_apply q ys (t : bytes) (ob : outboard) : wf_ranges q = true -> is_prefix ys (honest HO data bs q) ->
  ob_tree ob = t0 -> sink_ok ob ->
  exists ob', apply_items HO ys t ob = (SOk, write_leaves HO t ys, ob') /\
    ob_k ob' = ob_k ob /\ ob_root ob' = ob_root ob /\ ob_tree ob' = ob_tree ob /\
    (ob_k ob = EmptyOb -> ob' = ob) /\
    (hist_kind (ob_k ob) -> forall nd, pnode size bs nd ->
       stored_pair HO (ob_pad HO data bs ob') nd =
       if saved HO ys nd then Some (true_pair HO data nd) else stored_pair HO (ob_pad HO data bs ob) nd) /\
    skipn nslots (ob_data ob') = skipn nslots (ob_data ob) /\
    blen HO (ob_data ob) <= blen HO (ob_data ob').
Proof.
  intros Hwf Hp T Hsk.
  pose proof (prefix_items_ok HO HOK data bs Hsize Hbs q ys Hwf Hp) as [Pok Lok].
  destruct Hsk as [K|[K|Hs]].
  - (* io-backed, any length *)
    destruct (apply_items_pad HO data bs Hsize Hbs ys t ob (conj Pok Lok) K T)
      as (t' & ob' & A1 & A2 & K' & R' & T' & S' & _ & _ & G' & _).
    pose proof (ob_pad_sized HO data bs ob K T) as Hs.
    destruct (apply_items_slots HO data bs Hsize Hbs ys (pad HO (length data) t) (ob_pad HO data bs ob) Pok Hs)
      as (t2 & ob2 & A2' & _ & _ & _ & F).
    rewrite A2 in A2'. injection A2' as _ <-.
    exists ob'. rewrite (apply_items_leaves ys t ob t' ob' A1) in A1.
    split; [exact A1|]. split; [exact K'|]. split; [exact R'|]. split; [exact T'|].
    split; [intro E; rewrite E in K; discriminate K|]. split; [intros _; exact F|]. split; [exact S'|exact G'].
  - (* EmptyOutboard *)
    destruct (apply_items_empty ys t ob Pok K T) as (t' & A). exists ob.
    rewrite (apply_items_leaves ys t ob t' ob A) in A.
    split; [exact A|]. split; [reflexivity|]. split; [reflexivity|]. split; [reflexivity|]. split; [reflexivity|].
    split; [intros [E|[E|[E|E]]]; rewrite E in K; discriminate K|]. split; [reflexivity|lia].
  - (* pre-sized *)
    destruct (apply_items_slots HO data bs Hsize Hbs ys t ob Pok Hs) as (t' & ob' & A & S' & R' & K' & F).
    exists ob'. rewrite (apply_items_leaves ys t ob t' ob' A) in A.
    split; [exact A|]. split; [exact K'|]. split; [exact R'|].
    split; [rewrite (os_tree HO ob' _ _ S'), (os_tree HO ob _ _ Hs); reflexivity|].
    split; [intro E; destruct (os_kind HO ob _ _ Hs) as [X|[X|[X|X]]]; rewrite X in E; discriminate E|].
    rewrite (ob_pad_id HO data bs Hsize Hbs ob' S'), (ob_pad_id HO data bs Hsize Hbs ob Hs).
    split; [intros _; exact F|].
    assert (Hb : forall x : bytes, blen HO x = N.of_nat (length x)) by reflexivity.
    pose proof (os_len HO ob' _ _ S') as L1. pose proof (os_len HO ob _ _ Hs) as L2. rewrite Hb in L1, L2.
    split; [rewrite !skipn_all2 by lia; reflexivity|rewrite !Hb; lia].
Qed.

(* C02 (i): the honest encoding of any well-formed query, followed by any bytes, decoded by either driver into
   any target and any sink of the crate: Ok, exactly the honest leaves written, exactly the pairs of the honest
   parents stored, the reader exactly at the end of the encoding *)
Theorem roundtrip_sinks q (rest target : bytes) (sink : outboard) : wf_ranges q = true ->
  ob_root sink = root -> ob_tree sink = t0 -> sink_ok sink ->
  exists ob',
    (exists st', decode_ranges HO (flat HO (honest HO data bs q) ++ rest) q target sink =
                 (Ok tt, write_leaves HO target (honest HO data bs q), ob', st') /\ d_enc HO st' = rest) /\
    (exists st', decode_ranges_fsm HO (flat HO (honest HO data bs q) ++ rest) q target sink =
                 (Ok tt, write_leaves HO target (honest HO data bs q), ob', st') /\ Fsm.r_enc HO st' = rest) /\
    apply_items HO (honest HO data bs q) target sink = (SOk, write_leaves HO target (honest HO data bs q), ob') /\
    ob_k ob' = ob_k sink /\ ob_root ob' = ob_root sink /\ ob_tree ob' = ob_tree sink /\
    (ob_k sink = EmptyOb -> ob' = sink) /\
    (hist_kind (ob_k sink) -> forall nd, pnode size bs nd ->
       stored_pair HO (ob_pad HO data bs ob') nd =
       if saved HO (honest HO data bs q) nd then Some (true_pair HO data nd) else stored_pair HO (ob_pad HO data bs sink) nd) /\
    skipn nslots (ob_data ob') = skipn nslots (ob_data sink).
Proof.
  intros Hwf Hr Ht Hsk.
  destruct (sink_apply q (honest HO data bs q) target sink Hwf (is_prefix_refl _) Ht Hsk) as (ob' & A & K' & R' & T' & E' & F & S' & _).
  exists ob'.
  assert (Hc : fault_cut HO no_faults (honest HO data bs q) 0 0 = (honest HO data bs q, false)) by apply fault_cut_none.
  split; [|split].
  - destruct (fault_exact_sync HO HOK data bs q Hsize Hbs Hwf no_faults rest target sink
                (write_leaves HO target (honest HO data bs q)) ob' Hr Ht) as (st' & D1 & D2).
    { rewrite Hc. exact A. }
    rewrite Hc in D1, D2. cbn [snd] in D1, D2. rewrite decode_no_fault in D1. exists st'. split; [exact D1|exact (D2 eq_refl)].
  - destruct (fault_exact_fsm HO HOK data bs q Hsize Hbs Hwf no_faults rest target sink
                (write_leaves HO target (honest HO data bs q)) ob' Hr Ht) as (st' & D1 & D2).
    { rewrite Hc. exact A. }
    rewrite Hc in D1, D2. cbn [snd] in D1, D2. rewrite decode_fsm_no_fault in D1. exists st'. split; [exact D1|exact (D2 eq_refl)].
  - split; [exact A|]. split; [exact K'|]. split; [exact R'|]. split; [exact T'|]. split; [exact E'|]. split; [exact F|exact S'].
Qed.

(* C07 (b): a step of a history that reads the honest encoding of its query (then any bytes) under ANY sink fault
   plan, from a state of the invariant: exactly the items before the first failing sink call are applied; the
   result is Err (DIo kind) if such a call is reached and Ok otherwise *)
Theorem fault_step q sf (rest : bytes) (fsm : bool) D (t : bytes) (ob : outboard) : wf_ranges q = true ->
  Inv HO data bs D (t, ob) ->
  let cut := fault_cut HO sf (honest HO data bs q) 0 0 in
  let o := mkOp HO q (flat HO (honest HO data bs q) ++ rest) sf fsm in
  is_prefix (fst cut) (honest HO data bs q) /\
  apply_items HO (fst cut) t ob = (SOk, fst (hist_step HO (t, ob) o), snd (hist_step HO (t, ob) o)) /\
  Inv HO data bs (fun c => D c || delivered HO (fst cut) c) (hist_step HO (t, ob) o) /\
  (fsm = false -> fst (fst (fst (decode_ranges_f HO sf (flat HO (honest HO data bs q) ++ rest) q t ob))) =
                  if snd cut then Err (DIo (sf_kind sf)) else Ok tt) /\
  (fsm = true -> fst (fst (fst (decode_ranges_fsm_f HO sf (flat HO (honest HO data bs q) ++ rest) q t ob))) =
                 if snd cut then Err (DIo (sf_kind sf)) else Ok tt).
Proof.
  intros Hwf I. cbv zeta.
  pose proof (fault_cut_prefix HO sf (honest HO data bs q) 0 0) as Hp.
  destruct (inv_apply HO HOK data bs Hsize Hbs D t ob q _ I Hp) as (t' & ob' & A & I').
  pose proof (inv_root HO data bs D _ I) as Hr. pose proof (os_tree HO _ _ _ (inv_sized HO data bs D _ I)) as Ht.
  cbn [snd] in Hr, Ht.
  destruct (fault_exact_sync HO HOK data bs q Hsize Hbs Hwf sf rest t ob t' ob' Hr Ht A) as (s1 & D1 & _).
  destruct (fault_exact_fsm HO HOK data bs q Hsize Hbs Hwf sf rest t ob t' ob' Hr Ht A) as (s2 & D2 & _).
  assert (Hst : hist_step HO (t, ob) (mkOp HO q (flat HO (honest HO data bs q) ++ rest) sf fsm) = (t', ob')).
  { destruct fsm.
    - apply step_result_fsm. cbv zeta. rewrite D2. split; reflexivity.
    - apply step_result_sync. cbv zeta. rewrite D1. split; reflexivity. }
  rewrite Hst. cbn [fst snd].
  split; [exact Hp|]. split; [exact A|]. split; [exact I'|].
  split; intros _; [rewrite D1|rewrite D2]; reflexivity.
Qed.

End Sinks.

(* ---------- closed forms used by Props/C02.v and Props/C07.v ---------- *)
Theorem gaph_fault_cut_def : forall (HO : hops) (sf : sink_faults) (nw ns : N),
  fault_cut HO sf [] nw ns = ([], false) /\
  (forall nd l r ys, fault_cut HO sf (IParent nd l r :: ys) nw ns =
     if hits (sf_save sf) ns then ([], true)
     else (IParent nd l r :: fst (fault_cut HO sf ys nw (ns + 1)), snd (fault_cut HO sf ys nw (ns + 1)))) /\
  (forall off d ys, fault_cut HO sf (ILeaf off d :: ys) nw ns =
     if hits (sf_target sf) nw then ([], true)
     else (ILeaf off d :: fst (fault_cut HO sf ys (nw + 1) ns), snd (fault_cut HO sf ys (nw + 1) ns))).
Proof. intros. split; [reflexivity|]. split; reflexivity. Qed.

Theorem gaph_fault_cut_facts : forall (HO : hops) (ys : list (item HO)),
  fault_cut HO no_faults ys 0 0 = (ys, false) /\
  (forall sf, is_prefix (fst (fault_cut HO sf ys 0 0)) ys) /\
  (forall j kind, let p := fault_cut HO (mkSF (Some j) None kind) ys 0 0 in
     (snd p = true -> exists off d rest, ys = fst p ++ ILeaf off d :: rest /\ n_leaves HO (fst p) = j) /\
     (snd p = false -> fst p = ys /\ n_leaves HO ys <= j)) /\
  (forall j kind, let p := fault_cut HO (mkSF None (Some j) kind) ys 0 0 in
     (snd p = true -> exists nd l r rest, ys = fst p ++ IParent nd l r :: rest /\ n_parents HO (fst p) = j) /\
     (snd p = false -> fst p = ys /\ n_parents HO ys <= j)).
Proof.
  intros HO ys. split; [apply fault_cut_none|]. split; [intro sf; apply fault_cut_prefix|]. split.
  - intros j kind. pose proof (fault_cut_target HO j kind ys 0 0 ltac:(lia)) as [H1 H2]. cbv zeta in *. split.
    + intro H. destruct (H1 H) as (off & d & rest & E & Hn). exists off, d, rest. split; [exact E|lia].
    + intro H. destruct (H2 H) as [E Hn]. split; [exact E|lia].
  - intros j kind. pose proof (fault_cut_save HO j kind ys 0 0 ltac:(lia)) as [H1 H2]. cbv zeta in *. split.
    + intro H. destruct (H1 H) as (nd & l & r & rest & E & Hn). exists nd, l, r, rest. split; [exact E|lia].
    + intro H. destruct (H2 H) as [E Hn]. split; [exact E|lia].
Qed.

Theorem gaph_counts_def : forall (HO : hops) (ys : list (item HO)),
  n_leaves HO ys = N.of_nat (length (filter (fun it => match it with ILeaf _ _ => true | _ => false end) ys)) /\
  n_parents HO ys = N.of_nat (length (filter (fun it => match it with IParent _ _ _ => true | _ => false end) ys)).
Proof. intros. split; reflexivity. Qed.

Theorem gaph_sink_ok_def : forall (HO : hops) (data : bytes HO) (bs : N) (ob : outboard HO),
  sink_ok HO data bs ob <-> (is_io (ob_k ob) = true \/ ob_k ob = EmptyOb \/ ob_sized HO ob (blen HO data) bs).
Proof. intros. reflexivity. Qed.

Theorem gaph_fault_exact : forall (HO : hops), hash_ok HO ->
  forall (data : bytes HO) (bs : N) (q : ranges), blen HO data <= 2 ^ 63 -> bs <= 10 -> wf_ranges q = true ->
  forall (sf : sink_faults) (rest t : bytes HO) (ob : outboard HO) (t' : bytes HO) (ob' : outboard HO),
  ob_root ob = root_hash HO data -> ob_tree ob = mkTree (blen HO data) bs ->
  apply_items HO (fst (fault_cut HO sf (honest HO data bs q) 0 0)) t ob = (SOk, t', ob') ->
  (exists st', decode_ranges_f HO sf (flat HO (honest HO data bs q) ++ rest) q t ob =
     ((if snd (fault_cut HO sf (honest HO data bs q) 0 0) then Err (DIo (sf_kind sf)) else Ok tt), t', ob', st') /\
     (snd (fault_cut HO sf (honest HO data bs q) 0 0) = false -> d_enc HO st' = rest)) /\
  (exists st', decode_ranges_fsm_f HO sf (flat HO (honest HO data bs q) ++ rest) q t ob =
     ((if snd (fault_cut HO sf (honest HO data bs q) 0 0) then Err (DIo (sf_kind sf)) else Ok tt), t', ob', st') /\
     (snd (fault_cut HO sf (honest HO data bs q) 0 0) = false -> Fsm.r_enc HO st' = rest)).
Proof.
  intros HO HOK data bs q Hs Hb Hwf sf rest t ob t' ob' Hr Ht A. split.
  - exact (fault_exact_sync HO HOK data bs q Hs Hb Hwf sf rest t ob t' ob' Hr Ht A).
  - exact (fault_exact_fsm HO HOK data bs q Hs Hb Hwf sf rest t ob t' ob' Hr Ht A).
Qed.

Theorem gaph_sink_apply : forall (HO : hops), hash_ok HO ->
  forall (data : bytes HO) (bs : N), blen HO data <= 2 ^ 63 -> bs <= 10 ->
  forall (q : ranges) (ys : list (item HO)) (t : bytes HO) (ob : outboard HO),
  wf_ranges q = true -> is_prefix ys (honest HO data bs q) ->
  ob_tree ob = mkTree (blen HO data) bs -> sink_ok HO data bs ob ->
  exists ob', apply_items HO ys t ob = (SOk, write_leaves HO t ys, ob') /\
    ob_k ob' = ob_k ob /\ ob_root ob' = ob_root ob /\ ob_tree ob' = ob_tree ob /\
    (ob_k ob = EmptyOb -> ob' = ob) /\
    (hist_kind (ob_k ob) -> forall nd, pnode (blen HO data) bs nd ->
       stored_pair HO (ob_pad HO data bs ob') nd =
       if saved HO ys nd then Some (true_pair HO data nd) else stored_pair HO (ob_pad HO data bs ob) nd) /\
    skipn (N.to_nat ((sp_blocks (blen HO data) bs - 1) * 64)) (ob_data ob') =
      skipn (N.to_nat ((sp_blocks (blen HO data) bs - 1) * 64)) (ob_data ob) /\
    blen HO (ob_data ob) <= blen HO (ob_data ob').
Proof. intros HO HOK data bs Hs Hb. exact (sink_apply HO HOK data bs Hs Hb). Qed.

Theorem gaph_roundtrip_sinks : forall (HO : hops), hash_ok HO ->
  forall (data : bytes HO) (bs : N), blen HO data <= 2 ^ 63 -> bs <= 10 ->
  forall (q : ranges) (rest target : bytes HO) (sink : outboard HO), wf_ranges q = true ->
  ob_root sink = root_hash HO data -> ob_tree sink = mkTree (blen HO data) bs -> sink_ok HO data bs sink ->
  exists ob',
    (exists st', decode_ranges HO (flat HO (honest HO data bs q) ++ rest) q target sink =
                 (Ok tt, write_leaves HO target (honest HO data bs q), ob', st') /\ d_enc HO st' = rest) /\
    (exists st', decode_ranges_fsm HO (flat HO (honest HO data bs q) ++ rest) q target sink =
                 (Ok tt, write_leaves HO target (honest HO data bs q), ob', st') /\ Fsm.r_enc HO st' = rest) /\
    apply_items HO (honest HO data bs q) target sink = (SOk, write_leaves HO target (honest HO data bs q), ob') /\
    ob_k ob' = ob_k sink /\ ob_root ob' = ob_root sink /\ ob_tree ob' = ob_tree sink /\
    (ob_k sink = EmptyOb -> ob' = sink) /\
    (hist_kind (ob_k sink) -> forall nd, pnode (blen HO data) bs nd ->
       stored_pair HO (ob_pad HO data bs ob') nd =
       if saved HO (honest HO data bs q) nd then Some (true_pair HO data nd)
       else stored_pair HO (ob_pad HO data bs sink) nd) /\
    skipn (N.to_nat ((sp_blocks (blen HO data) bs - 1) * 64)) (ob_data ob') =
      skipn (N.to_nat ((sp_blocks (blen HO data) bs - 1) * 64)) (ob_data sink).
Proof. intros HO HOK data bs Hs Hb. exact (roundtrip_sinks HO HOK data bs Hs Hb). Qed.

(* every kind of sink has an instance satisfying the hypotheses of gaph_roundtrip_sinks: an empty file for the
   io-backed ones, EmptyOutboard, the zeroed pre-sized vector for the memory ones *)
Lemma gaph_sinks_nonvacuous : forall (HO : hops) (data : bytes HO) (bs : N), blen HO data <= 2 ^ 63 -> bs <= 10 ->
  forall k : ob_kind, exists sink : outboard HO,
    ob_k sink = k /\ ob_root sink = root_hash HO data /\ ob_tree sink = mkTree (blen HO data) bs /\ sink_ok HO data bs sink.
Proof.
  intros HO data bs Hs Hb k. destruct k.
  - exists (mkOb PreIO (root_hash HO data) (mkTree (blen HO data) bs) []). repeat split. left. reflexivity.
  - exists (mkOb PostIO (root_hash HO data) (mkTree (blen HO data) bs) []). repeat split. left. reflexivity.
  - exists (init_ob HO data bs PreMem). repeat split. right. right. apply (init_sized HO data bs Hs Hb). right. right. now left.
  - exists (init_ob HO data bs PostMem). repeat split. right. right. apply (init_sized HO data bs Hs Hb). right. right. now right.
  - exists (mkOb EmptyOb (root_hash HO data) (mkTree (blen HO data) bs) []). repeat split. right. left. reflexivity.
Qed.

Theorem gaph_fault_step : forall (HO : hops), hash_ok HO ->
  forall (data : bytes HO) (bs : N), blen HO data <= 2 ^ 63 -> bs <= 10 ->
  forall (q : ranges) (sf : sink_faults) (rest : bytes HO) (fsm : bool) (D : N -> bool) (t : bytes HO) (ob : outboard HO),
  wf_ranges q = true -> Inv HO data bs D (t, ob) ->
  let cut := fault_cut HO sf (honest HO data bs q) 0 0 in
  let o := mkOp HO q (flat HO (honest HO data bs q) ++ rest) sf fsm in
  is_prefix (fst cut) (honest HO data bs q) /\
  apply_items HO (fst cut) t ob = (SOk, fst (hist_step HO (t, ob) o), snd (hist_step HO (t, ob) o)) /\
  Inv HO data bs (fun c => D c || delivered HO (fst cut) c) (hist_step HO (t, ob) o) /\
  (fsm = false -> fst (fst (fst (decode_ranges_f HO sf (flat HO (honest HO data bs q) ++ rest) q t ob))) =
                  if snd cut then Err (DIo (sf_kind sf)) else Ok tt) /\
  (fsm = true -> fst (fst (fst (decode_ranges_fsm_f HO sf (flat HO (honest HO data bs q) ++ rest) q t ob))) =
                 if snd cut then Err (DIo (sf_kind sf)) else Ok tt).
Proof. intros HO HOK data bs Hs Hb. exact (fault_step HO HOK data bs Hs Hb). Qed.

(* a fault plan that does cut: the first target write fails for the query "all" on a blob of three chunks at block
   size 0: two parents are saved, no leaf is written, three more items are never reached *)
Lemma gaph_fault_cut_nonvacuous :
  exists (HO : hops) (data : bytes HO) (bs : N) (q : ranges) (sf : sink_faults),
    hash_ok HO /\ blen HO data <= 2 ^ 63 /\ bs <= 10 /\ wf_ranges q = true /\
    snd (fault_cut HO sf (honest HO data bs q) 0 0) = true /\
    length (fst (fault_cut HO sf (honest HO data bs q) 0 0)) = 2%nat /\
    length (honest HO data bs q) = 5%nat.
Proof.
  exists DecWitness.term_hops, (repeat DecWitness.TZ 3000), 0, [0], (mkSF (Some 0) None KOther).
  split; [exact DecWitness.term_hops_ok|]. split; [unfold blen; rewrite repeat_length; cbn; lia|].
  split; [lia|]. split; [reflexivity|]. split; [vm_compute; reflexivity|]. split; vm_compute; reflexivity.
Qed.
