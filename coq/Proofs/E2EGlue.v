(* End-to-end composition, part 1: the interface hypotheses between the layers are discharged.
   - the response iterator ends within (length of the recursive plan) < 2^64 steps;
   - the decoder set up for (root_hash data, mkTree (blen data) bs, q) is the plan decoder of the
     plan tree spec_tree data bs q, which is consistent, has good leaves, and projects to the honest
     encoding. *)
From BaoV Require Import Model.Fsm Spec.RangeSpec Spec.PlanSpec Spec.EncSpec Spec.HashAssm Spec.PTree Spec.SpecTree.
From BaoV Require Proofs.PlanRun Proofs.PlanPreIter Proofs.PlanProps.
From BaoV Require Proofs.RangeTrunc Proofs.RangeProofs.
From BaoV Require Proofs.BridgeBase Proofs.BridgeTree Proofs.BridgePlan Proofs.BridgeLeaves.
From BaoV Require Import Proofs.DecLoop Proofs.DecHash Proofs.DecForest Proofs.DecConst Proofs.DecRanges Proofs.DecTheorems.
From Coq Require Import Lia Arith.
Open Scope N_scope.

(* ---------- A. a finite trace bounds the iterator ---------- *)
Lemma steps_ends_within {St A : Type} (next : St -> option (A * St)) st l st' :
  PlanRun.steps next st l st' -> next st' = None -> ends_within next st (length l).
Proof.
  induction 1 as [st|st a st1 l st' Hn _ IH]; intro He.
  - cbn. rewrite He. exact I.
  - cbn. rewrite Hn. apply IH. exact He.
Qed.

Lemma trace_ends_within {St A : Type} (next : St -> option (A * St)) st l :
  PlanRun.trace next st l -> ends_within next st (length l).
Proof. intros (st' & Hs & He). eapply steps_ends_within; eauto. Qed.

(* the response iterator of a well-formed query is exhausted after exactly the items of the recursive plan *)
Lemma response_trace size bs q : size <= 2 ^ 63 -> bs <= 10 -> wf_ranges q = true ->
  PlanRun.trace response_next (response_new (mkTree size bs) q) (pre_plan size 0 bs q) /\
  N.of_nat (length (pre_plan size 0 bs q)) < 2 ^ 64.
Proof.
  intros Hsize Hbs Hwf.
  destruct (PlanPreIter.pre_plan_trace size 0 bs q Hsize ltac:(lia) Hwf) as (items & (st' & St & He) & Mp & Ln).
  set (plan := pre_plan size 0 bs q) in *. clearbody plan. subst plan.
  split.
  - exists st'. split.
    + unfold response_new. cbn [tsize tbs].
      apply (PlanRun.steps_map pp_next' without_ranges) in St. exact St.
    + rewrite PlanPreIter.response_next_eq, He. reflexivity.
  - unfold PlanRun.len in Ln. rewrite map_length. exact Ln.
Qed.

Theorem response_ends_within size bs q : size <= 2 ^ 63 -> bs <= 10 -> wf_ranges q = true ->
  let n := length (pre_plan size 0 bs q) in
  ends_within response_next (response_new (mkTree size bs) q) n /\ N.of_nat n < 2 ^ 64.
Proof.
  intros Hsize Hbs Hwf. destruct (response_trace size bs q Hsize Hbs Hwf) as [Tr Ln].
  split; [apply trace_ends_within; exact Tr|exact Ln].
Qed.

Theorem response_ends_within_ex size bs q : size <= 2 ^ 63 -> bs <= 10 -> wf_ranges q = true ->
  exists n, ends_within response_next (response_new (mkTree size bs) q) n /\ N.of_nat n < 2 ^ 64.
Proof. intros H1 H2 H3. eexists. exact (response_ends_within size bs q H1 H2 H3). Qed.

(* ---------- flat = flat_items ---------- *)
Lemma flat_flat_items HO (l : list (item HO)) : flat HO l = flat_items HO l.
Proof. reflexivity. Qed.

(* ---------- the leaves of the spec tree are short enough for hash_subtree ---------- *)
Lemma leaves_ok_of_leaf_in HO (T : ptree HO) :
  (forall s r d, BridgeTree.leaf_in HO T s r d -> leaf_len_ok HO d) -> leaves_ok HO T.
Proof.
  induction T as [|s r d|n ir lh rh l IHl r IHr]; intro H; cbn [leaves_ok].
  - exact I.
  - apply (H s r d). cbn. auto.
  - split; [apply IHl|apply IHr]; intros s0 r0 d0 Hin; apply (H s0 r0 d0); cbn; auto.
Qed.

Lemma spec_tree_leaves_ok HO (data : bytes HO) bs q :
  blen HO data <= 2 ^ 63 -> bs <= 10 -> leaves_ok HO (spec_tree HO data bs q).
Proof.
  intros Hs Hb. apply leaves_ok_of_leaf_in. intros s r d Hin.
  destruct (BridgeTree.bridge_leaves HO data bs q s r d Hs Hin) as (Hlen & _).
  unfold leaf_len_ok.
  assert (P : 2 ^ bs <= 2 ^ 10) by (apply N.pow_le_mono_r; lia).
  assert (Q : 2 ^ 10 <= 2 ^ 63) by (apply N.pow_le_mono_r; lia).
  nia.
Qed.

(* ---------- the decoder's set-up is the plan decoder of the spec tree ---------- *)
Section Setup.
Variable HO : hops.
Hypothesis HOK : hash_ok HO.
Variable data : bytes HO.
Variables (bs : N) (q : ranges).
Hypothesis Hsize : blen HO data <= 2 ^ 63.
Hypothesis Hbs : bs <= 10.
Hypothesis Hwf : wf_ranges q = true.

Notation size := (blen HO data).
Notation t := (mkTree (blen HO data) bs).
Notation q' := (truncate_ranges q (blen HO data)).

Lemma setup_wf' : wf_ranges q' = true.
Proof. apply RangeTrunc.truncate_wf. exact Hwf. Qed.

Lemma setup_run_iter :
  run_iter response_next (response_new t q') = plan_of HO (spec_tree HO data bs q).
Proof.
  rewrite (BridgePlan.bridge_plan HO data bs q Hwf Hsize).
  rewrite <- (PlanProps.c15_response_plan size bs q' Hsize Hbs setup_wf').
  unfold response_iter. reflexivity.
Qed.

Lemma setup_ends : exists n, ends_within response_next (response_new t q') n /\ (N.of_nat n < 2 ^ 64)%N.
Proof. exact (response_ends_within_ex size bs q' Hsize Hbs setup_wf'). Qed.

Lemma setup_consistent : consistent HO (spec_tree HO data bs q).
Proof. apply BridgeTree.bridge_consistent; [exact (ho_len HO HOK)|exact Hsize]. Qed.

Lemma setup_leaves : leaves_ok HO (spec_tree HO data bs q).
Proof. apply spec_tree_leaves_ok; assumption. Qed.

Lemma setup_items : items_of HO (spec_tree HO data bs q) = honest HO data bs q.
Proof. apply BridgeTree.bridge_items. exact Hsize. Qed.

Hypothesis Hne : q <> [].

Lemma setup_cv : cv_of HO (spec_tree HO data bs q) = root_hash HO data.
Proof. apply BridgeTree.bridge_cv; assumption. Qed.

Lemma setup_dec_new stream :
  dec_new HO (root_hash HO data) t stream q =
  mkD HO (response_new t q') [cv_of HO (spec_tree HO data bs q)] stream.
Proof. rewrite setup_cv. reflexivity. Qed.

Lemma setup_rd_new stream :
  rd_new HO (root_hash HO data) q t stream =
  mkR HO (response_new t q') [cv_of HO (spec_tree HO data bs q)] stream (root_hash HO data).
Proof. rewrite setup_cv. unfold rd_new. rewrite RangeTrunc.truncate_owned_eq. reflexivity. Qed.

End Setup.
