(* L1: level / index decomposition  x + 1 = (2k+1) * 2^level *)
From BaoV Require Import Model.Node Spec.NodeSpec.
From Coq Require Import Lia.

Lemma pos_to_tz_succ p : pos_trailing_ones p = pos_trailing_zeros (Pos.succ p).
Proof.
  induction p as [q IH|q IH|]; cbn [pos_trailing_ones pos_trailing_zeros Pos.succ]; try reflexivity.
  now rewrite IH.
Qed.

Lemma level_is_sp_level x : level x = sp_level x.
Proof.
  unfold level, sp_level, trailing_ones, trailing_zeros64.
  destruct x as [|p]; [reflexivity|].
  change (N.pos p + 1) with (N.pos (p + 1)). rewrite Pos.add_1_r. apply pos_to_tz_succ.
Qed.

Lemma pos_decomp p :
  N.pos p = (2 * (N.pos p / 2 ^ (pos_trailing_zeros p + 1)) + 1) * 2 ^ pos_trailing_zeros p.
Proof.
  induction p as [q IH|q IH|].
  - cbn [pos_trailing_zeros]. rewrite N.add_0_l, N.pow_1_r, N.pow_0_r, N.mul_1_r.
    change (N.pos q~1) with (2 * N.pos q + 1).
    replace ((2 * N.pos q + 1) / 2) with (N.pos q); [reflexivity|].
    symmetry. rewrite N.mul_comm. rewrite N.div_add_l by discriminate. cbn. lia.
  - cbn [pos_trailing_zeros].
    change (N.pos q~0) with (2 * N.pos q).
    rewrite <- N.add_1_r at 1.
    replace (pos_trailing_zeros q + 1 + 1) with (N.succ (pos_trailing_zeros q + 1)) by lia.
    rewrite N.pow_succ_r', N.div_mul_cancel_l by (try discriminate; apply N.pow_nonzero; discriminate).
    rewrite N.pow_succ_r'. lia.
  - reflexivity.
Qed.

Lemma level_index_decomp x : x + 1 = (2 * sp_index x + 1) * 2 ^ sp_level x.
Proof.
  unfold sp_index, sp_level, trailing_zeros64.
  destruct (x + 1) as [|p] eqn:E; [lia|]. apply pos_decomp.
Qed.

Lemma level_decomp x : x + 1 = (2 * sp_index x + 1) * 2 ^ level x.
Proof. rewrite level_is_sp_level. apply level_index_decomp. Qed.
