(* C10 (7): decode_ranges with a failing target write / outboard save. *)
From BaoV Require Import Model.IOCalls Proofs.IODecodeIndep.
From Coq Require Import Lia.

Arguments N.mul : simpl never. Arguments N.add : simpl never. Arguments N.sub : simpl never.

(* ---- a loop as a number of steps ---- *)
Fixpoint steps {S R : Type} (n : nat) (f : S -> S + R) (s : S) : S + R :=
  match n with
  | O => inl s
  | Datatypes.S m => match f s with inl s' => steps m f s' | inr r => inr r end
  end.

Lemma steps_add {S R} (f : S -> S + R) : forall n m s,
  steps (n + m) f s = match steps n f s with inl s' => steps m f s' | inr r => inr r end.
Proof.
  induction n as [|n IH]; intros m s; [reflexivity|].
  cbn [Nat.add steps]. destruct (f s) as [s'|r]; [apply IH | reflexivity].
Qed.

Lemma loop2_steps {S R} (f : S -> S + R) : forall d s, loop2 d f s = steps (Nat.pow 2 d) f s.
Proof.
  induction d as [|d IH]; intros s.
  - cbn [loop2 Nat.pow steps]. destruct (f s); reflexivity.
  - replace (Nat.pow 2 (Datatypes.S d)) with (Nat.pow 2 d + Nat.pow 2 d)%nat by (cbn [Nat.pow]; lia).
    rewrite steps_add. cbn [loop2]. rewrite IH. destruct (steps (Nat.pow 2 d) f s) as [s'|r]; [apply IH | reflexivity].
Qed.

(* f behaves as g except at `hit` states, where it stops: a run of f is the run of g, or it is g's run up to
   the first hit state and f's verdict there *)
Lemma steps_fault {S R} (f g : S -> S + R) (hit : S -> bool) :
  (forall s, hit s = false -> f s = g s) -> (forall s, hit s = true -> exists r, f s = inr r) ->
  forall n s,
    ((forall m s1, (m < n)%nat -> steps m g s = inl s1 -> hit s1 = false) /\ steps n f s = steps n g s) \/
    (exists m s', (m < n)%nat /\ steps m g s = inl s' /\ hit s' = true /\
       (forall m' s1, (m' < m)%nat -> steps m' g s = inl s1 -> hit s1 = false) /\
       steps n f s = f s').
Proof.
  intros Hno Hyes. induction n as [|n IH]; intros s.
  - left. split; [intros m s1 Hm; lia | reflexivity].
  - destruct (hit s) eqn:Eh.
    + right. exists 0%nat, s. split; [lia|]. split; [reflexivity|]. split; [exact Eh|]. split; [intros m' s1 Hm; lia|].
      cbn [steps]. destruct (Hyes s Eh) as [r Hr]. rewrite Hr. reflexivity.
    + cbn [steps]. rewrite (Hno s Eh). destruct (g s) as [s1|r] eqn:Eg.
      * destruct (IH s1) as [[Hnh He] | (m & s' & Hm & Hs & Hh & Hmin & He)].
        -- left. split; [|exact He]. intros m s2 Hm Hs. destruct m as [|m].
           ++ cbn [steps] in Hs. injection Hs as <-. exact Eh.
           ++ cbn [steps] in Hs. rewrite Eg in Hs. apply (Hnh m s2); [lia | exact Hs].
        -- right. exists (Datatypes.S m), s'. split; [lia|]. cbn [steps]. rewrite Eg. split; [exact Hs|].
           split; [exact Hh|]. split; [|exact He]. intros m' s2 Hm' Hs2. destruct m' as [|m'].
           ++ cbn [steps] in Hs2. injection Hs2 as <-. exact Eh.
           ++ cbn [steps] in Hs2. rewrite Eg in Hs2. apply (Hmin m' s2); [lia | exact Hs2].
      * left. split; [|reflexivity]. intros m s2 Hm Hs. destruct m as [|m].
        -- cbn [steps] in Hs. injection Hs as <-. exact Eh.
        -- cbn [steps] in Hs. rewrite Eg in Hs. discriminate.
Qed.

Section SinkFaults.
Variable HO : hops.
Notation bytes := (bytes HO).
Notation outboard := (outboard HO).
Notation item := (item HO).

Lemma hits_true o n : hits o n = true <-> o = Some n.
Proof.
  unfold hits. destruct o as [k|]; [|split; discriminate]. rewrite N.eqb_eq. split; [now intros -> | now intros [= ->]].
Qed.

(* ================= sync ================= *)
Notation fstate := (dstate HO * bytes * outboard * N * N)%type.
Notation fresult := (res dec_err unit * bytes * outboard * dstate HO)%type.

(* ---- no fault: decode_ranges ---- *)
Definition fin_f (x : fstate + fresult) : fresult :=
  match x with inr r => r | inl (st, target', ob', _, _) => (Panic, target', ob', st) end.
Definition fin_p (x : (dstate HO * bytes * outboard) + fresult) : fresult :=
  match x with inr r => r | inl (st, target', ob') => (Panic, target', ob', st) end.
Definition forget (s : fstate) (t : dstate HO * bytes * outboard) : Prop := fst (fst s) = t.

Lemma decode_step_nofault s t : forget s t -> sum_rel forget eq (decode_step_f HO (no_faults) s) (decode_step HO t).
Proof.
  destruct s as [[[[st tg] ob] nw] ns]. unfold forget. cbn [fst]. intros <-.
  unfold decode_step_f, decode_step. cbn [no_faults sf_save sf_target hits].
  destruct (dec_next HO st) as [[[[node l r|off d]|e|] st']|]; unfold sum_rel; try reflexivity.
  destruct (save HO ob node l r); reflexivity.
Qed.

Lemma decode_nofault_d d s : fin_f (loop2 d (decode_step_f HO no_faults) s) = fin_p (loop2 d (decode_step HO) (fst (fst s))).
Proof.
  pose proof (loop2_sim forget eq _ _ decode_step_nofault d s (fst (fst s)) eq_refl) as H. unfold sum_rel in H.
  destruct (loop2 d (decode_step_f HO no_faults) s) as [[[[[st tg] ob] nw] ns]|r],
           (loop2 d (decode_step HO) (fst (fst s))) as [[[st' tg'] ob']|r']; try contradiction.
  - unfold forget in H. cbn [fst] in H. injection H as -> -> ->. reflexivity.
  - subst. reflexivity.
Qed.

Lemma decode_ranges_f_eq sf enc q target ob :
  decode_ranges_f HO sf enc q target ob
  = fin_f (loop2 LOOP_DEPTH (decode_step_f HO sf) (dec_new HO (ob_root ob) (ob_tree ob) enc q, target, ob, 0, 0)).
Proof. unfold decode_ranges_f, fin_f. reflexivity. Qed.
Lemma decode_ranges_eq enc q target ob :
  decode_ranges HO enc q target ob
  = fin_p (loop2 LOOP_DEPTH (decode_step HO) (dec_new HO (ob_root ob) (ob_tree ob) enc q, target, ob)).
Proof. unfold decode_ranges, fin_p. reflexivity. Qed.

Theorem decode_no_fault enc q target ob :
  decode_ranges_f HO no_faults enc q target ob = decode_ranges HO enc q target ob.
Proof.
  rewrite decode_ranges_f_eq, decode_ranges_eq. generalize LOOP_DEPTH. intros d.
  exact (decode_nofault_d d (dec_new HO (ob_root ob) (ob_tree ob) enc q, target, ob, 0, 0)).
Qed.

(* ---- a failing sink ---- *)
(* the next item goes to a sink call that the plan makes fail *)
Definition sink_hit (sf : sink_faults) (s : fstate) : bool :=
  let '(st, _, _, nw, ns) := s in
  match dec_next HO st with
  | Some (Ok (IParent _ _ _), _) => hits (sf_save sf) ns
  | Some (Ok (ILeaf _ _), _) => hits (sf_target sf) nw
  | _ => false
  end.

Lemma decode_step_nohit sf s : sink_hit sf s = false -> decode_step_f HO sf s = decode_step_f HO no_faults s.
Proof.
  destruct s as [[[[st tg] ob] nw] ns]. unfold sink_hit, decode_step_f. cbn [no_faults sf_save sf_target hits].
  destruct (dec_next HO st) as [[[[node l r|off d]|e|] st']|]; try reflexivity; intros ->; reflexivity.
Qed.
Lemma decode_step_hit sf st tg ob nw ns : sink_hit sf (st, tg, ob, nw, ns) = true ->
  exists it st', dec_next HO st = Some (Ok it, st') /\
    match it with IParent _ _ _ => sf_save sf = Some ns | ILeaf _ _ => sf_target sf = Some nw end /\
    decode_step_f HO sf (st, tg, ob, nw, ns) = inr (Err (DIo (sf_kind sf)), tg, ob, st').
Proof.
  unfold sink_hit, decode_step_f.
  destruct (dec_next HO st) as [[[[node l r|off d]|e|] st']|]; try discriminate; intros H; rewrite H;
    eexists _, st'; (split; [reflexivity|]); (split; [now apply hits_true | reflexivity]).
Qed.

Lemma decode_sink_fault_d sf (d : nat) s0 :
  ((forall m s1, (m < Nat.pow 2 d)%nat -> steps m (decode_step_f HO no_faults) s0 = inl s1 -> sink_hit sf s1 = false) /\
   fin_f (loop2 d (decode_step_f HO sf) s0) = fin_f (loop2 d (decode_step_f HO no_faults) s0)) \/
  (exists m st tg ob nw ns it st',
     (m < Nat.pow 2 d)%nat /\
     steps m (decode_step_f HO no_faults) s0 = inl (st, tg, ob, nw, ns) /\
     (forall m' s1, (m' < m)%nat -> steps m' (decode_step_f HO no_faults) s0 = inl s1 -> sink_hit sf s1 = false) /\
     dec_next HO st = Some (Ok it, st') /\
     match it with IParent _ _ _ => sf_save sf = Some ns | ILeaf _ _ => sf_target sf = Some nw end /\
     fin_f (loop2 d (decode_step_f HO sf) s0) = (Err (DIo (sf_kind sf)), tg, ob, st')).
Proof.
  rewrite !loop2_steps.
  destruct (steps_fault (decode_step_f HO sf) (decode_step_f HO no_faults) (sink_hit sf)
              (decode_step_nohit sf)
              (fun s H => match s return sink_hit sf s = true -> exists r, decode_step_f HO sf s = inr r with
                          | (st, tg, ob, nw, ns) => fun H =>
                              match decode_step_hit sf st tg ob nw ns H with
                              | ex_intro _ it (ex_intro _ st' (conj _ (conj _ E))) => ex_intro _ _ E
                              end
                          end H)
              (Nat.pow 2 d) s0) as [[Hnh He] | (m & s' & Hm & Hs & Hh & Hmin & He)].
  - left. split; [exact Hnh | now rewrite He].
  - right. destruct s' as [[[[st tg] ob] nw] ns].
    destruct (decode_step_hit sf st tg ob nw ns Hh) as (it & st' & Hn & Hp & Hf).
    exists m, st, tg, ob, nw, ns, it, st'. repeat (split; [assumption|]). rewrite He, Hf. reflexivity.
Qed.

(* the fault-free prefix run: n steps of decode_step_f no_faults from the initial state *)
Definition decode_prefix (n : nat) (enc : bytes) (q : ranges) (target : bytes) (ob : outboard) : fstate + fresult :=
  steps n (decode_step_f HO no_faults) (dec_new HO (ob_root ob) (ob_tree ob) enc q, target, ob, 0, 0).

Theorem decode_sink_fault sf enc q target ob :
  ((forall m s1, (m < Nat.pow 2 LOOP_DEPTH)%nat -> decode_prefix m enc q target ob = inl s1 -> sink_hit sf s1 = false) /\
   decode_ranges_f HO sf enc q target ob = decode_ranges HO enc q target ob) \/
  (exists m st tg ob' nw ns it st',
     (m < Nat.pow 2 LOOP_DEPTH)%nat /\
     decode_prefix m enc q target ob = inl (st, tg, ob', nw, ns) /\
     (forall m' s1, (m' < m)%nat -> decode_prefix m' enc q target ob = inl s1 -> sink_hit sf s1 = false) /\
     dec_next HO st = Some (Ok it, st') /\
     match it with IParent _ _ _ => sf_save sf = Some ns | ILeaf _ _ => sf_target sf = Some nw end /\
     decode_ranges_f HO sf enc q target ob = (Err (DIo (sf_kind sf)), tg, ob', st')).
Proof.
  rewrite <- decode_no_fault. rewrite !decode_ranges_f_eq. unfold decode_prefix. generalize LOOP_DEPTH. intros d.
  exact (decode_sink_fault_d sf d (dec_new HO (ob_root ob) (ob_tree ob) enc q, target, ob, 0, 0)).
Qed.

(* the counters are what they are called: along the fault-free prefix, nw + ns = number of steps *)
Lemma steps_counters : forall n st tg ob nw ns st' tg' ob' nw' ns',
  steps n (decode_step_f HO no_faults) (st, tg, ob, nw, ns) = inl (st', tg', ob', nw', ns') ->
  nw' + ns' = nw + ns + N.of_nat n /\ nw <= nw' /\ ns <= ns'.
Proof.
  induction n as [|n IH]; intros st tg ob nw ns st' tg' ob' nw' ns' H.
  - cbn [steps] in H. injection H as <- <- <- <- <-. lia.
  - cbn [steps] in H. unfold decode_step_f at 1 in H. cbn [no_faults sf_save sf_target hits] in H.
    destruct (dec_next HO st) as [[[[node l r|off d]|e|] st1]|]; try discriminate.
    + destruct (save HO ob node l r) as [ob1| |]; try discriminate. apply IH in H. lia.
    + apply IH in H. lia.
Qed.

(* ================= fsm ================= *)
Notation mstate := (rstate HO * bytes * outboard * N * N)%type.
Notation mresult := (res dec_err unit * bytes * outboard * rstate HO)%type.

Definition fin_mf (x : mstate + mresult) : mresult :=
  match x with inr r => r | inl (st, target', ob', _, _) => (Panic, target', ob', st) end.
Definition fin_mp (x : (rstate HO * bytes * outboard) + mresult) : mresult :=
  match x with inr r => r | inl (st, target', ob') => (Panic, target', ob', st) end.
Definition forget_m (s : mstate) (t : rstate HO * bytes * outboard) : Prop := fst (fst s) = t.

Lemma decode_step_fsm_nofault s t : forget_m s t ->
  sum_rel forget_m eq (decode_step_fsm_f HO (no_faults) s) (decode_step_fsm HO t).
Proof.
  destruct s as [[[[st tg] ob] nw] ns]. unfold forget_m. cbn [fst]. intros <-.
  unfold decode_step_fsm_f, decode_step_fsm. cbn [no_faults sf_save sf_target hits].
  destruct (rd_next HO st) as [st' [[node l r|off d]|e|]|rest]; unfold sum_rel; try reflexivity.
  destruct (save HO ob node l r); reflexivity.
Qed.

Lemma decode_fsm_nofault_d d s :
  fin_mf (loop2 d (decode_step_fsm_f HO no_faults) s) = fin_mp (loop2 d (decode_step_fsm HO) (fst (fst s))).
Proof.
  pose proof (loop2_sim forget_m eq _ _ decode_step_fsm_nofault d s (fst (fst s)) eq_refl) as H. unfold sum_rel in H.
  destruct (loop2 d (decode_step_fsm_f HO no_faults) s) as [[[[[st tg] ob] nw] ns]|r],
           (loop2 d (decode_step_fsm HO) (fst (fst s))) as [[[st' tg'] ob']|r']; try contradiction.
  - unfold forget_m in H. cbn [fst] in H. injection H as -> -> ->. reflexivity.
  - subst. reflexivity.
Qed.

Lemma decode_ranges_fsm_f_eq sf enc q target ob :
  decode_ranges_fsm_f HO sf enc q target ob
  = fin_mf (loop2 LOOP_DEPTH (decode_step_fsm_f HO sf) (rd_new HO (ob_root ob) q (ob_tree ob) enc, target, ob, 0, 0)).
Proof. unfold decode_ranges_fsm_f, fin_mf. reflexivity. Qed.
Lemma decode_ranges_fsm_eq enc q target ob :
  decode_ranges_fsm HO enc q target ob
  = fin_mp (loop2 LOOP_DEPTH (decode_step_fsm HO) (rd_new HO (ob_root ob) q (ob_tree ob) enc, target, ob)).
Proof. unfold decode_ranges_fsm, fin_mp. reflexivity. Qed.

Theorem decode_fsm_no_fault enc q target ob :
  decode_ranges_fsm_f HO no_faults enc q target ob = decode_ranges_fsm HO enc q target ob.
Proof.
  rewrite decode_ranges_fsm_f_eq, decode_ranges_fsm_eq. generalize LOOP_DEPTH. intros d.
  exact (decode_fsm_nofault_d d (rd_new HO (ob_root ob) q (ob_tree ob) enc, target, ob, 0, 0)).
Qed.

Definition sink_hit_fsm (sf : sink_faults) (s : mstate) : bool :=
  let '(st, _, _, nw, ns) := s in
  match rd_next HO st with
  | RMore _ (Ok (IParent _ _ _)) => hits (sf_save sf) ns
  | RMore _ (Ok (ILeaf _ _)) => hits (sf_target sf) nw
  | _ => false
  end.

Lemma decode_step_fsm_nohit sf s : sink_hit_fsm sf s = false -> decode_step_fsm_f HO sf s = decode_step_fsm_f HO no_faults s.
Proof.
  destruct s as [[[[st tg] ob] nw] ns]. unfold sink_hit_fsm, decode_step_fsm_f. cbn [no_faults sf_save sf_target hits].
  destruct (rd_next HO st) as [st' [[node l r|off d]|e|]|rest]; try reflexivity; intros ->; reflexivity.
Qed.
Lemma decode_step_fsm_hit sf st tg ob nw ns : sink_hit_fsm sf (st, tg, ob, nw, ns) = true ->
  exists it st', rd_next HO st = RMore st' (Ok it) /\
    match it with IParent _ _ _ => sf_save sf = Some ns | ILeaf _ _ => sf_target sf = Some nw end /\
    decode_step_fsm_f HO sf (st, tg, ob, nw, ns) = inr (Err (DIo (sf_kind sf)), tg, ob, st').
Proof.
  unfold sink_hit_fsm, decode_step_fsm_f.
  destruct (rd_next HO st) as [st' [[node l r|off d]|e|]|rest]; try discriminate; intros H; rewrite H;
    eexists _, st'; (split; [reflexivity|]); (split; [now apply hits_true | reflexivity]).
Qed.

Lemma decode_fsm_sink_fault_d sf (d : nat) s0 :
  ((forall m s1, (m < Nat.pow 2 d)%nat -> steps m (decode_step_fsm_f HO no_faults) s0 = inl s1 -> sink_hit_fsm sf s1 = false) /\
   fin_mf (loop2 d (decode_step_fsm_f HO sf) s0) = fin_mf (loop2 d (decode_step_fsm_f HO no_faults) s0)) \/
  (exists m st tg ob nw ns it st',
     (m < Nat.pow 2 d)%nat /\
     steps m (decode_step_fsm_f HO no_faults) s0 = inl (st, tg, ob, nw, ns) /\
     (forall m' s1, (m' < m)%nat -> steps m' (decode_step_fsm_f HO no_faults) s0 = inl s1 -> sink_hit_fsm sf s1 = false) /\
     rd_next HO st = RMore st' (Ok it) /\
     match it with IParent _ _ _ => sf_save sf = Some ns | ILeaf _ _ => sf_target sf = Some nw end /\
     fin_mf (loop2 d (decode_step_fsm_f HO sf) s0) = (Err (DIo (sf_kind sf)), tg, ob, st')).
Proof.
  rewrite !loop2_steps.
  destruct (steps_fault (decode_step_fsm_f HO sf) (decode_step_fsm_f HO no_faults) (sink_hit_fsm sf)
              (decode_step_fsm_nohit sf)
              (fun s H => match s return sink_hit_fsm sf s = true -> exists r, decode_step_fsm_f HO sf s = inr r with
                          | (st, tg, ob, nw, ns) => fun H =>
                              match decode_step_fsm_hit sf st tg ob nw ns H with
                              | ex_intro _ it (ex_intro _ st' (conj _ (conj _ E))) => ex_intro _ _ E
                              end
                          end H)
              (Nat.pow 2 d) s0) as [[Hnh He] | (m & s' & Hm & Hs & Hh & Hmin & He)].
  - left. split; [exact Hnh | now rewrite He].
  - right. destruct s' as [[[[st tg] ob] nw] ns].
    destruct (decode_step_fsm_hit sf st tg ob nw ns Hh) as (it & st' & Hn & Hp & Hf).
    exists m, st, tg, ob, nw, ns, it, st'. repeat (split; [assumption|]). rewrite He, Hf. reflexivity.
Qed.

Definition decode_prefix_fsm (n : nat) (enc : bytes) (q : ranges) (target : bytes) (ob : outboard) : mstate + mresult :=
  steps n (decode_step_fsm_f HO no_faults) (rd_new HO (ob_root ob) q (ob_tree ob) enc, target, ob, 0, 0).

Theorem decode_fsm_sink_fault sf enc q target ob :
  ((forall m s1, (m < Nat.pow 2 LOOP_DEPTH)%nat -> decode_prefix_fsm m enc q target ob = inl s1 -> sink_hit_fsm sf s1 = false) /\
   decode_ranges_fsm_f HO sf enc q target ob = decode_ranges_fsm HO enc q target ob) \/
  (exists m st tg ob' nw ns it st',
     (m < Nat.pow 2 LOOP_DEPTH)%nat /\
     decode_prefix_fsm m enc q target ob = inl (st, tg, ob', nw, ns) /\
     (forall m' s1, (m' < m)%nat -> decode_prefix_fsm m' enc q target ob = inl s1 -> sink_hit_fsm sf s1 = false) /\
     rd_next HO st = RMore st' (Ok it) /\
     match it with IParent _ _ _ => sf_save sf = Some ns | ILeaf _ _ => sf_target sf = Some nw end /\
     decode_ranges_fsm_f HO sf enc q target ob = (Err (DIo (sf_kind sf)), tg, ob', st')).
Proof.
  rewrite <- decode_fsm_no_fault. rewrite !decode_ranges_fsm_f_eq. unfold decode_prefix_fsm. generalize LOOP_DEPTH. intros d.
  exact (decode_fsm_sink_fault_d sf d (rd_new HO (ob_root ob) q (ob_tree ob) enc, target, ob, 0, 0)).
Qed.

Lemma steps_counters_fsm : forall n st tg ob nw ns st' tg' ob' nw' ns',
  steps n (decode_step_fsm_f HO no_faults) (st, tg, ob, nw, ns) = inl (st', tg', ob', nw', ns') ->
  nw' + ns' = nw + ns + N.of_nat n /\ nw <= nw' /\ ns <= ns'.
Proof.
  induction n as [|n IH]; intros st tg ob nw ns st' tg' ob' nw' ns' H.
  - cbn [steps] in H. injection H as <- <- <- <- <-. lia.
  - cbn [steps] in H. unfold decode_step_fsm_f at 1 in H. cbn [no_faults sf_save sf_target hits] in H.
    destruct (rd_next HO st) as [st1 [[node l r|off d]|e|]|rest]; try discriminate.
    + destruct (save HO ob node l r) as [ob1| |]; try discriminate. apply IH in H. lia.
    + apply IH in H. lia.
Qed.

(* ---- the two single-sink plans, spelled out ---- *)
Theorem decode_target_fault j kind enc q target ob :
  decode_ranges_f HO (mkSF (Some j) None kind) enc q target ob = decode_ranges HO enc q target ob \/
  exists m st tg ob' ns off d st',
    decode_prefix m enc q target ob = inl (st, tg, ob', j, ns) /\ N.of_nat m = j + ns /\
    dec_next HO st = Some (Ok (ILeaf off d), st') /\
    decode_ranges_f HO (mkSF (Some j) None kind) enc q target ob = (Err (DIo kind), tg, ob', st').
Proof.
  destruct (decode_sink_fault (mkSF (Some j) None kind) enc q target ob)
    as [[_ He] | (m & st & tg & ob' & nw & ns & it & st' & _ & Hs & _ & Hn & Hp & He)]; [left; exact He|].
  right. destruct it as [node l r|off d]; cbn [sf_save sf_target sf_kind] in *; [discriminate|].
  injection Hp as <-. exists m, st, tg, ob', ns, off, d, st'. split; [exact Hs|]. split; [|split; assumption].
  unfold decode_prefix in Hs. apply steps_counters in Hs. lia.
Qed.
Theorem decode_save_fault j kind enc q target ob :
  decode_ranges_f HO (mkSF None (Some j) kind) enc q target ob = decode_ranges HO enc q target ob \/
  exists m st tg ob' nw node l r st',
    decode_prefix m enc q target ob = inl (st, tg, ob', nw, j) /\ N.of_nat m = nw + j /\
    dec_next HO st = Some (Ok (IParent node l r), st') /\
    decode_ranges_f HO (mkSF None (Some j) kind) enc q target ob = (Err (DIo kind), tg, ob', st').
Proof.
  destruct (decode_sink_fault (mkSF None (Some j) kind) enc q target ob)
    as [[_ He] | (m & st & tg & ob' & nw & ns & it & st' & _ & Hs & _ & Hn & Hp & He)]; [left; exact He|].
  right. destruct it as [node l r|off d]; cbn [sf_save sf_target sf_kind] in *; [|discriminate].
  injection Hp as <-. exists m, st, tg, ob', nw, node, l, r, st'. split; [exact Hs|]. split; [|split; assumption].
  unfold decode_prefix in Hs. apply steps_counters in Hs. lia.
Qed.
Theorem decode_fsm_target_fault j kind enc q target ob :
  decode_ranges_fsm_f HO (mkSF (Some j) None kind) enc q target ob = decode_ranges_fsm HO enc q target ob \/
  exists m st tg ob' ns off d st',
    decode_prefix_fsm m enc q target ob = inl (st, tg, ob', j, ns) /\ N.of_nat m = j + ns /\
    rd_next HO st = RMore st' (Ok (ILeaf off d)) /\
    decode_ranges_fsm_f HO (mkSF (Some j) None kind) enc q target ob = (Err (DIo kind), tg, ob', st').
Proof.
  destruct (decode_fsm_sink_fault (mkSF (Some j) None kind) enc q target ob)
    as [[_ He] | (m & st & tg & ob' & nw & ns & it & st' & _ & Hs & _ & Hn & Hp & He)]; [left; exact He|].
  right. destruct it as [node l r|off d]; cbn [sf_save sf_target sf_kind] in *; [discriminate|].
  injection Hp as <-. exists m, st, tg, ob', ns, off, d, st'. split; [exact Hs|]. split; [|split; assumption].
  unfold decode_prefix_fsm in Hs. apply steps_counters_fsm in Hs. lia.
Qed.
Theorem decode_fsm_save_fault j kind enc q target ob :
  decode_ranges_fsm_f HO (mkSF None (Some j) kind) enc q target ob = decode_ranges_fsm HO enc q target ob \/
  exists m st tg ob' nw node l r st',
    decode_prefix_fsm m enc q target ob = inl (st, tg, ob', nw, j) /\ N.of_nat m = nw + j /\
    rd_next HO st = RMore st' (Ok (IParent node l r)) /\
    decode_ranges_fsm_f HO (mkSF None (Some j) kind) enc q target ob = (Err (DIo kind), tg, ob', st').
Proof.
  destruct (decode_fsm_sink_fault (mkSF None (Some j) kind) enc q target ob)
    as [[_ He] | (m & st & tg & ob' & nw & ns & it & st' & _ & Hs & _ & Hn & Hp & He)]; [left; exact He|].
  right. destruct it as [node l r|off d]; cbn [sf_save sf_target sf_kind] in *; [|discriminate].
  injection Hp as <-. exists m, st, tg, ob', nw, node, l, r, st'. split; [exact Hs|]. split; [|split; assumption].
  unfold decode_prefix_fsm in Hs. apply steps_counters_fsm in Hs. lia.
Qed.

End SinkFaults.
