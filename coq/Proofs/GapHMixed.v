(* Gap audit (C08, the item stream of src/io/mixed.rs traverse_ranges_validated), at ITEM level.
   (A) mixed_items_refuted: on an intact store the items are NOT the honest items (the decoder's): inside a
       partially selected chunk group the stream has TreeNode(0) parents and one leaf per chunk.
   (B) mixed_apply_eq: what the items are, exactly (its = concat (map mixed_unit plan), mix_rec inside a chunk
       group), and that applying them to any target and any sink of the blob's geometry has exactly the effect
       of applying the honest items (same result, same target, same outboard).
   (C) mixed_apply_nonvacuous. *)
From BaoV Require Import Model.Fsm Spec.RangeSpec Spec.PlanSpec Spec.EncSpec Spec.HashAssm.
From BaoV Require Import Proofs.NodeLevel Proofs.NodeBits Proofs.RangeBase Proofs.RangeRound Proofs.RangeTrunc
  Proofs.PlanQuery Proofs.PlanRs.
From BaoV Require Import Proofs.BridgeBase Proofs.BridgeTree Proofs.BridgeGeom Proofs.BridgePlan Proofs.BridgeLeaves.
From BaoV Require Import Proofs.EncPlan Proofs.EncRec Proofs.EncGeom Proofs.EncLoop Proofs.EncMain Proofs.EncTop Proofs.EncThm.
From BaoV Require Import Proofs.ShapeOffsets Proofs.DecRanges Proofs.HistOb Proofs.HistEnc Proofs.HistInv
  Proofs.GapTarget Proofs.GapPairs Proofs.DecWitness Proofs.FinalStore Proofs.GapHFault.
From Coq Require Import Lia Arith PeanoNat ZArith ZifyN ZifyNat ZifyBool.
Ltac Zify.zify_post_hook ::= Z.div_mod_to_equations.
Arguments N.add : simpl never.
Arguments N.sub : simpl never.
Arguments N.mul : simpl never.
Arguments N.pow : simpl never.
Arguments N.div : simpl never.
Arguments N.modulo : simpl never.
Arguments N.log2 : simpl never.
Arguments N.min : simpl never.
Arguments N.max : simpl never.

(* ---------- applying items: saves below the block level are no-ops for every outboard ---------- *)
Section Apply.
Variable HO : hops.
Notation bytes := (bytes HO).
Notation hash := (hash HO).
Notation item := (item HO).
Notation outboard := (outboard HO).

Lemma mx_save_tree (ob : outboard) nd (l r : hash) ob' : save HO ob nd l r = Ok ob' -> ob_tree ob' = ob_tree ob.
Proof.
  unfold save. destruct (ob_k ob).
  - destruct (ob_offset HO ob nd); intro H; apply Ok_inj in H; subst ob'; reflexivity.
  - destruct (ob_offset HO ob nd); intro H; apply Ok_inj in H; subst ob'; reflexivity.
  - destruct (level nd <? tbs (ob_tree ob)); [intro H; apply Ok_inj in H; now subst|].
    destruct (ob_offset HO ob nd); [|discriminate].
    destruct (_ <=? _); [|discriminate]. intro H; apply Ok_inj in H; subst ob'; reflexivity.
  - destruct (level nd <? tbs (ob_tree ob)); [intro H; apply Ok_inj in H; now subst|].
    destruct (ob_offset HO ob nd); [|discriminate].
    destruct (_ <=? _); [|discriminate]. intro H; apply Ok_inj in H; subst ob'; reflexivity.
  - destruct (level nd <? tbs (ob_tree ob)); [intro H; apply Ok_inj in H; now subst|].
    destruct (is_relevant_for_outboard (ob_tree ob) nd); [|discriminate]. intro H; apply Ok_inj in H; now subst.
Qed.

(* every kind of outboard, of any length *)
Lemma mx_save_low size bs (ob : outboard) nd (l r : hash) : ob_tree ob = mkTree size bs -> level nd < bs ->
  save HO ob nd l r = Ok ob.
Proof.
  intros T Hl. unfold save, ob_offset. rewrite T. cbn [tbs].
  destruct (below_block size bs nd Hl) as [E1 E2]. rewrite E1, E2.
  assert (Hlv : (level nd <? bs) = true) by (apply N.ltb_lt; exact Hl). rewrite Hlv.
  destruct (ob_k ob); reflexivity.
Qed.

(* all parents of the list lie below the block level *)
Definition mx_low (bs : N) (l : list item) : Prop := forall nd x y, In (IParent nd x y) l -> level nd < bs.

Lemma apply_low size bs : forall (l : list item) (t : bytes) (ob : outboard),
  mx_low bs l -> ob_tree ob = mkTree size bs ->
  apply_items HO l t ob = (SOk, write_leaves HO t l, ob).
Proof.
  induction l as [|[nd x y|off d] l IH]; intros t ob Hlow T.
  - reflexivity.
  - cbn [apply_items]. rewrite (mx_save_low size bs ob nd x y T (Hlow nd x y (or_introl eq_refl))).
    rewrite IH; [reflexivity| |exact T]. intros n a b H. apply (Hlow n a b). now right.
  - cbn [apply_items]. rewrite IH; [reflexivity| |exact T]. intros n a b H. apply (Hlow n a b). now right.
Qed.

Lemma apply_app_cong (T : tree) (r1 r2 : list item) :
  (forall t ob, ob_tree ob = T -> apply_items HO r1 t ob = apply_items HO r2 t ob) ->
  forall (l : list item) t ob, ob_tree ob = T -> apply_items HO (l ++ r1) t ob = apply_items HO (l ++ r2) t ob.
Proof.
  intro H. induction l as [|[nd x y|off d] l IH]; intros t ob Ht; cbn [app apply_items].
  - now apply H.
  - destruct (save HO ob nd x y) as [ob'|k|] eqn:Es; try reflexivity.
    apply IH. rewrite (mx_save_tree ob nd x y ob' Es). exact Ht.
  - now apply IH.
Qed.

(* units: equal, or both without effect on the outboard and with the same writes *)
Definition mx_unit_equiv (bs : N) (l1 l2 : list item) : Prop :=
  l1 = l2 \/ (mx_low bs l1 /\ mx_low bs l2 /\ forall t, write_leaves HO t l1 = write_leaves HO t l2).

Lemma apply_concat_equiv {A : Type} size bs (f g : A -> list item) : forall (plan : list A),
  (forall c, In c plan -> mx_unit_equiv bs (f c) (g c)) ->
  forall t ob, ob_tree ob = mkTree size bs ->
  apply_items HO (concat (map f plan)) t ob = apply_items HO (concat (map g plan)) t ob.
Proof.
  induction plan as [|c plan IH]; intros Hu t ob T; [reflexivity|].
  cbn [map concat].
  assert (IH' : forall t ob, ob_tree ob = mkTree size bs ->
                apply_items HO (concat (map f plan)) t ob = apply_items HO (concat (map g plan)) t ob).
  { apply IH. intros c' Hc'. apply Hu. now right. }
  destruct (Hu c (or_introl eq_refl)) as [E|(L1 & L2 & W)].
  - rewrite E. now apply (apply_app_cong (mkTree size bs)).
  - rewrite (apply_items_app HO (f c) _ t ob _ _ (apply_low size bs (f c) t ob L1 T)).
    rewrite (apply_items_app HO (g c) _ t ob _ _ (apply_low size bs (g c) t ob L2 T)).
    rewrite W. now apply IH'.
Qed.

Lemma write_concat_equiv {A : Type} (f g : A -> list item) : forall (plan : list A),
  (forall c, In c plan -> forall t, write_leaves HO t (f c) = write_leaves HO t (g c)) ->
  forall t, write_leaves HO t (concat (map f plan)) = write_leaves HO t (concat (map g plan)).
Proof.
  induction plan as [|c plan IH]; intros Hu t; [reflexivity|].
  cbn [map concat]. rewrite !write_leaves_app. rewrite (Hu c (or_introl eq_refl)).
  apply IH. intros c' Hc'. apply Hu. now right.
Qed.

Lemma mx_unit_equiv_write bs l1 l2 : mx_unit_equiv bs l1 l2 -> forall t, write_leaves HO t l1 = write_leaves HO t l2.
Proof. intros [->|(_ & _ & W)] t; [reflexivity|apply W]. Qed.

(* two adjacent positioned writes are one *)
Lemma write_at_app (t : bytes) off (d1 d2 : bytes) :
  write_at HO t off (d1 ++ d2) = write_at HO (write_at HO t off d1) (off + blen HO d1) d2.
Proof.
  apply nth_error_ext'. intro i. rewrite !nth_error_write_at, write_at_length, app_length.
  unfold blen. replace (N.to_nat (off + N.of_nat (length d1))) with (N.to_nat off + length d1)%nat by lia.
  set (o := N.to_nat off).
  destruct (Nat.ltb_spec i o) as [L1|L1].
  - replace (i <? o + length d1)%nat with true by (symmetry; apply Nat.ltb_lt; lia).
    destruct (Nat.ltb_spec i (length t)) as [L2|L2].
    + replace (i <? Nat.max (length t) (o + length d1))%nat with true by (symmetry; apply Nat.ltb_lt; lia). reflexivity.
    + replace (i <? Nat.max (length t) (o + length d1))%nat with true by (symmetry; apply Nat.ltb_lt; lia). reflexivity.
  - destruct (Nat.ltb_spec i (o + length d1)) as [L2|L2].
    + replace (i <? o + (length d1 + length d2))%nat with true by (symmetry; apply Nat.ltb_lt; lia).
      replace (i <? Nat.max (length t) (o + length d1))%nat with true by (symmetry; apply Nat.ltb_lt; lia).
      apply nth_error_app1. lia.
    + destruct (Nat.ltb_spec i (o + (length d1 + length d2))) as [L3|L3].
      * replace (i <? o + length d1 + length d2)%nat with true by (symmetry; apply Nat.ltb_lt; lia).
        rewrite nth_error_app2 by lia. f_equal. lia.
      * replace (i <? o + length d1 + length d2)%nat with false by (symmetry; apply Nat.ltb_ge; lia). reflexivity.
Qed.

End Apply.

(* ---------- inside one chunk group: what the item-stream twin of encode_selected_rec emits ---------- *)
Section Mix.
Variable HO : hops.
Notation bytes := (bytes HO).
Notation hash := (hash HO).
Notation item := (item HO).

(* pre-order over the chunk interval [a, b): nothing if no chunk is selected; one leaf per CHUNK; a parent
   carrying node 0 (mixed.rs has TreeNode(0) and a todo there) over every partially selected interval *)
Fixpoint mix_rec (fuel : nat) (data : bytes) (Sel : N -> bool) (a b : N) : list item :=
  match fuel with
  | O => []
  | S f =>
    if negb (existsb Sel (chunk_range_list a b)) then []
    else if b - a <=? 1 then [ILeaf (a * 1024) (chunk_bytes HO data a b)]
    else
      let h := next_pow2 (b - a) / 2 in
      (if forallb Sel (chunk_range_list a b) then []
       else [IParent 0 (cv HO data a (a + h) false) (cv HO data (a + h) b false)])
      ++ mix_rec f data Sel a (a + h) ++ mix_rec f data Sel (a + h) b
  end.

Lemma mix_rec_unfold f (data : bytes) (Sel : N -> bool) a b :
  mix_rec (S f) data Sel a b =
    if negb (existsb Sel (chunk_range_list a b)) then []
    else if b - a <=? 1 then [ILeaf (a * 1024) (chunk_bytes HO data a b)]
    else
      (if forallb Sel (chunk_range_list a b) then []
       else [IParent 0 (cv HO data a (a + next_pow2 (b - a) / 2) false) (cv HO data (a + next_pow2 (b - a) / 2) b false)])
      ++ mix_rec f data Sel a (a + next_pow2 (b - a) / 2) ++ mix_rec f data Sel (a + next_pow2 (b - a) / 2) b.
Proof. reflexivity. Qed.

Lemma mix_rec_none f (data : bytes) (Sel : N -> bool) a b :
  existsb Sel (chunk_range_list a b) = false -> mix_rec f data Sel a b = [].
Proof. intro H. destruct f as [|f]; [reflexivity|]. rewrite mix_rec_unfold, H. reflexivity. Qed.

Lemma tsr_snd fuel s (d : bytes) ir rs ml ed :
  snd (traverse_selected_rec HO fuel s d ir rs ml ed) = subtree_cv HO fuel s d ir.
Proof. rewrite <- (esr_snd HO fuel s d ir rs ml ed). rewrite (tsr_flat HO fuel s d ir rs ml ed). reflexivity. Qed.

Lemma IParent_not_leaf n (l r : hash) off (d : bytes) : @IParent HO n l r <> ILeaf off d.
Proof. discriminate. Qed.
Lemma ILeaf_inj off (d : bytes) off' (d' : bytes) : @ILeaf HO off d = ILeaf off' d' -> off = off' /\ d = d'.
Proof. intro H. injection H. auto. Qed.

(* every leaf of mix_rec is ONE selected chunk of the interval *)
Lemma mix_rec_leaves (data : bytes) (Sel : N -> bool) : forall f a b off (d : bytes),
  In (ILeaf off d) (mix_rec f data Sel a b) ->
  exists c, a <= c /\ c < b /\ Sel c = true /\ off = c * 1024 /\ d = chunk_bytes HO data c (c + 1).
Proof.
  induction f as [|f IH]; intros a b off d Hin; [contradiction|].
  rewrite mix_rec_unfold in Hin.
  destruct (negb (existsb Sel (chunk_range_list a b))) eqn:Ex; [contradiction|]. apply negb_false_iff in Ex.
  destruct (b - a <=? 1) eqn:E1.
  - apply N.leb_le in E1. destruct Hin as [Hd|[]]. apply ILeaf_inj in Hd. destruct Hd as [<- <-].
    apply existsb_exists in Ex. destruct Ex as (x & Hx & Sx). apply crl_in in Hx.
    assert (x = a) by lia. subst x. exists a. repeat split; try lia; try assumption.
    f_equal. lia.
  - apply N.leb_gt in E1.
    destruct (np2_half (b - a) ltac:(lia)) as (k & Ek & Eh & K1 & K2). pose proof (pow2_ge1 k) as Pk.
    rewrite Eh in Hin.
    apply in_app_or in Hin. destruct Hin as [Hin|Hin].
    + destruct (forallb Sel (chunk_range_list a b)); [contradiction|]. destruct Hin as [Hd|[]]. now apply IParent_not_leaf in Hd.
    + apply in_app_or in Hin. destruct Hin as [Hin|Hin].
      * destruct (IH _ _ _ _ Hin) as (c & C1 & C2 & C3 & C4 & C5). exists c. repeat split; try assumption; lia.
      * destruct (IH _ _ _ _ Hin) as (c & C1 & C2 & C3 & C4 & C5). exists c. repeat split; try assumption; lia.
Qed.

Section Group.
Variable data : bytes.
Variable bs : N.
Variable q : ranges.
Hypothesis Hwf : wf_ranges q = true.
Hypothesis Hsize : blen HO data <= 2 ^ 63.
Local Notation size := (blen HO data).
Local Notation nn := (nchunks (blen HO data)).
Local Notation q' := (truncate_ranges q (blen HO data)).
Local Notation Sel := (sel q (blen HO data)).

(* the item-level twin of EncRec.esr_group *)
Lemma tsr_group : forall (m : nat) a E rm rs ir,
  rs_ok q' rs a E rm -> a < E -> E <= nn -> (rm = true -> E = nn) -> (rm = false -> E < nn) ->
  E - a <= 2 ^ N.of_nat m -> (m <= 63)%nat -> E - a <= 2 ^ bs ->
  fst (traverse_selected_rec HO (S m) a (chunk_bytes HO data a E) ir rs bs true) = mix_rec (S m) data Sel a E.
Proof.
  induction m as [|m IH]; intros a E rm rs ir Hrs Hae HE H1 H2 Hm Hm63 Hbs;
    pose proof (nchunks_bounds size) as (B1 & B2 & B3);
    pose proof (nchunks_small _ Hsize) as Hn53;
    assert (P54 : 2 ^ 53 < 2 ^ 54) by (apply N.pow_lt_mono_r; lia);
    rewrite tsr_eq, mix_rec_unfold; rewrite blen_chunk_bytes;
    rewrite <- (rs_empty_sel HO data q Hwf Hsize rs a E rm Hrs Hae HE H1 H2);
    rewrite (to_bytes_small a) by lia.
  - change (2 ^ N.of_nat 0) with 1 in Hm.
    assert (E1 : (N.min ((E - a) * 1024) (size - a * 1024) <=? 1024) = true) by (apply N.leb_le; lia).
    rewrite E1. cbn [fst andb]. destruct (r_is_empty rs); cbn [negb]; [reflexivity|].
    assert (E2 : (E - a <=? 1) = true) by (apply N.leb_le; lia). rewrite E2. reflexivity.
  - destruct (E - a <=? 1) eqn:E2.
    + apply N.leb_le in E2.
      assert (E1 : (N.min ((E - a) * 1024) (size - a * 1024) <=? 1024) = true) by (apply N.leb_le; lia).
      rewrite E1. cbn [fst andb]. destruct (r_is_empty rs); cbn [negb]; reflexivity.
    + apply N.leb_gt in E2.
      assert (E1 : (N.min ((E - a) * 1024) (size - a * 1024) <=? 1024) = false) by (apply N.leb_gt; lia).
      rewrite E1. cbv zeta.
      assert (En : (N.min ((E - a) * 1024) (size - a * 1024) + 1023) / 1024 = E - a) by lia.
      rewrite En.
      destruct (np2_half (E - a) ltac:(lia)) as (k & Ek & Eh & K1 & K2).
      pose proof (pow2_ge1 k) as Hk1.
      rewrite of_nat_S in Hm.
      pose proof (half_bounds (E - a) (N.of_nat m) ltac:(lia) Hm) as (A1 & A2 & A3 & A4 & A5). cbv zeta in *.
      assert (Hcap : next_pow2 (E - a) <= 2 ^ bs) by now apply np2_le.
      rewrite Ek, tz_pow2.
      assert (Elvl : (bs <=? k + 1 - 1) = false).
      { apply N.leb_gt. rewrite Ek in Hcap. apply BridgeBase.pow2_le_inv in Hcap. lia. }
      rewrite Elvl, orb_false_r. rewrite <- Ek.
      set (h := next_pow2 (E - a) / 2) in *.
      rewrite chunk_bytes_take', chunk_bytes_drop' by lia.
      destruct (split_inner rs a (a + h)) as [l_rs r_rs] eqn:Esp. cbn [fst snd].
      destruct (split_ok q' rs a (a + h) E rm l_rs r_rs Hrs ltac:(lia) ltac:(lia) Esp) as [Hl Hr].
      rewrite (IH a (a + h) false l_rs false Hl) by (try discriminate; try lia).
      rewrite (IH (a + h) E rm r_rs false Hr) by (try assumption; try lia).
      rewrite !tsr_snd.
      rewrite (subtree_cv_rec HO data (S m) a (a + h) false) by lia.
      rewrite (subtree_cv_rec HO data (S m) (a + h) E false) by lia.
      assert (C1 : cv_rec HO (S m) data a (a + h) false = cv HO data a (a + h) false).
      { unfold cv. change 64%nat with (S 63). apply cv_rec_fuel; [lia|]. change (N.of_nat 63) with 63. lia. }
      assert (C2 : cv_rec HO (S m) data (a + h) E false = cv HO data (a + h) E false).
      { unfold cv. change 64%nat with (S 63). apply cv_rec_fuel; [lia|]. change (N.of_nat 63) with 63. lia. }
      rewrite C1, C2.
      rewrite (rs_all_sel HO data q Hwf Hsize rs a E rm Hrs ltac:(lia) HE H1 H2).
      destruct (r_is_empty rs) eqn:Eem; cbn [negb andb].
      * assert (Ex : existsb Sel (chunk_range_list a E) = false).
        { pose proof (rs_empty_sel HO data q Hwf Hsize rs a E rm Hrs Hae HE H1 H2) as X. rewrite Eem in X.
          now destruct (existsb Sel (chunk_range_list a E)). }
        rewrite (crl_app a (a + h) E), existsb_app in Ex by lia. apply orb_false_iff in Ex. destruct Ex as [Ex1 Ex2].
        rewrite (mix_rec_none _ data Sel _ _ Ex1), (mix_rec_none _ data Sel _ _ Ex2). reflexivity.
      * destruct (forallb Sel (chunk_range_list a E)); reflexivity.
Qed.


Lemma wl_parent (t : bytes) nd (x y : hash) (l : list item) :
  write_leaves HO t (IParent nd x y :: l) = write_leaves HO t l.
Proof. reflexivity. Qed.
Lemma wl_leaf (t : bytes) off (d : bytes) (l : list item) :
  write_leaves HO t (ILeaf off d :: l) = write_leaves HO (write_at HO t off d) l.
Proof. reflexivity. Qed.
Lemma wl_nil (t : bytes) : write_leaves HO t [] = t.
Proof. reflexivity. Qed.
Lemma IParent_node n (l r : hash) n' (l' r' : hash) : @IParent HO n l r = IParent n' l' r' -> n = n'.
Proof. intro H. injection H. auto. Qed.
Lemma level_0 : level 0 = 0.
Proof. reflexivity. Qed.

(* the parents of mix_rec lie below the block level: there are none at block size 0 *)
Lemma mix_low : forall f a b, b - a <= 2 ^ bs -> mx_low HO bs (mix_rec f data Sel a b).
Proof.
  induction f as [|f IH]; intros a b Hsm nd x y Hin; [contradiction|].
  rewrite mix_rec_unfold in Hin.
  destruct (negb (existsb Sel (chunk_range_list a b))); [contradiction|].
  destruct (b - a <=? 1) eqn:E1; [destruct Hin as [Hd|[]]; discriminate|].
  apply N.leb_gt in E1.
  destruct (np2_half (b - a) ltac:(lia)) as (k & Ek & Eh & K1 & K2). pose proof (pow2_ge1 k) as Pk.
  rewrite Eh in Hin.
  apply in_app_or in Hin. destruct Hin as [Hin|Hin].
  - destruct (forallb Sel (chunk_range_list a b)); [contradiction|].
    destruct Hin as [Hd|[]]. apply IParent_node in Hd. subst nd. rewrite level_0.
    destruct (N.eq_dec bs 0) as [->|Hne]; [change (2 ^ 0) with 1 in Hsm; lia|lia].
  - apply in_app_or in Hin. destruct Hin as [Hin|Hin].
    + apply (IH a (a + 2 ^ k) ltac:(lia) nd x y Hin).
    + apply (IH (a + 2 ^ k) b ltac:(lia) nd x y Hin).
Qed.

(* a fully selected interval: the per-chunk leaves write what the one leaf of the interval writes *)
Lemma mix_all_write : forall (m : nat) a b (t : bytes), a < b -> b <= nn -> b - a <= 2 ^ N.of_nat m ->
  forallb Sel (chunk_range_list a b) = true ->
  write_leaves HO t (mix_rec (S m) data Sel a b) = write_at HO t (a * 1024) (chunk_bytes HO data a b).
Proof.
  induction m as [|m IH]; intros a b t Hab Hb Hm Hall;
    pose proof (nchunks_bounds size) as (B1 & B2 & B3);
    rewrite mix_rec_unfold;
    assert (Ex : existsb Sel (chunk_range_list a b) = true)
      by (apply existsb_exists; exists a; split; [apply crl_in; lia|]; rewrite forallb_forall in Hall; apply Hall; apply crl_in; lia);
    rewrite Ex; cbn [negb].
  - change (2 ^ N.of_nat 0) with 1 in Hm.
    assert (E2 : (b - a <=? 1) = true) by (apply N.leb_le; lia). rewrite E2. reflexivity.
  - destruct (b - a <=? 1) eqn:E2; [reflexivity|]. apply N.leb_gt in E2.
    rewrite Hall. cbn [app].
    rewrite of_nat_S in Hm.
    pose proof (half_bounds (b - a) (N.of_nat m) ltac:(lia) Hm) as (A1 & A2 & A3 & A4 & A5). cbv zeta in *.
    set (h := next_pow2 (b - a) / 2) in *.
    rewrite (crl_app a (a + h) b), forallb_app in Hall by lia. apply andb_true_iff in Hall. destruct Hall as [Ha1 Ha2].
    rewrite write_leaves_app.
    rewrite (IH a (a + h) t) by (try assumption; lia).
    rewrite (IH (a + h) b) by (try assumption; lia).
    rewrite (chunk_bytes_app HO data a (a + h) b) by lia.
    rewrite write_at_app. f_equal. rewrite blen_chunk_bytes. lia.
Qed.

(* inside one chunk group: same writes as the honest items *)
Lemma mix_write_eq : forall (m : nat) a b (t : bytes), b <= nn -> b - a <= 2 ^ N.of_nat m -> b - a <= 2 ^ bs ->
  write_leaves HO t (mix_rec (S m) data Sel a b) = write_leaves HO t (enc_rec HO (S m) data bs Sel a b).
Proof.
  induction m as [|m IH]; intros a b t Hb Hm Hsm.
  - rewrite mix_rec_unfold, enc_rec_unfold. change (2 ^ N.of_nat 0) with 1 in Hm.
    assert (E2 : (b - a <=? 1) = true) by (apply N.leb_le; lia). rewrite E2. reflexivity.
  - destruct (existsb Sel (chunk_range_list a b)) eqn:Ex.
    2:{ rewrite (mix_rec_none _ data Sel a b Ex), enc_rec_unfold, Ex. reflexivity. }
    destruct (b - a <=? 1) eqn:E2.
    { rewrite mix_rec_unfold, enc_rec_unfold, Ex, E2. reflexivity. }
    apply N.leb_gt in E2.
    assert (Hcap : (next_pow2 (b - a) <=? 2 ^ bs) = true) by (apply N.leb_le; now apply np2_le).
    destruct (forallb Sel (chunk_range_list a b)) eqn:Eall.
    + rewrite (mix_all_write (S m) a b t ltac:(lia) Hb Hm Eall).
      rewrite enc_rec_unfold, Ex, Eall, Hcap. cbn [negb andb].
      replace (b - a <=? 1) with false by (symmetry; apply N.leb_gt; exact E2). reflexivity.
    + rewrite mix_rec_unfold, enc_rec_unfold, Ex, Eall. cbn [negb andb].
      replace (b - a <=? 1) with false by (symmetry; apply N.leb_gt; exact E2).
      rewrite of_nat_S in Hm.
      pose proof (half_bounds (b - a) (N.of_nat m) ltac:(lia) Hm) as (A1 & A2 & A3 & A4 & A5). cbv zeta in *.
      set (h := next_pow2 (b - a) / 2) in *.
      cbn [app]. rewrite !wl_parent, !write_leaves_app.
      rewrite (IH a (a + h) t) by lia. rewrite (IH (a + h) b) by lia. reflexivity.
Qed.

End Group.
End Mix.

(* ---------- the honest items inside one chunk group lie below the block level ----------
   (the two lemmas on aligned intervals are those of Proofs/GapHNodes.v, restated here so that this file depends
   only on the encoder layers) *)
Lemma mx_aligned_parent_level n a b : aligned n a b -> 2 <= b - a ->
  exists i, next_pow2 (b - a) = 2 ^ (i + 1) /\ next_pow2 (b - a) / 2 = 2 ^ i /\
            level (a + next_pow2 (b - a) / 2 - 1) = i /\ 2 ^ i < b - a.
Proof.
  intros (Hab & Hbn & j & k & Ej & Ea & Eb) H2.
  destruct (np2_half (b - a) H2) as (i & E1 & Eh & K1 & K2).
  exists i. split; [exact E1|]. split; [exact Eh|]. split; [|exact K1].
  rewrite Eh. assert (Eji : 2 ^ j = 2 ^ (i + 1)) by congruence.
  pose proof (pow2_ge1 i) as Pi. rewrite BridgeBase.pow2_succ in Eji.
  apply (decomp_unique (a + 2 ^ i - 1) i k). rewrite Ea, Eji. lia.
Qed.

Lemma group_aligned n bs a E ga : a < E -> E <= n -> E = N.min (a + 2 ^ bs) n -> a = ga * 2 ^ bs -> aligned n a E.
Proof.
  intros Hae HE Hg Ha. split; [exact Hae|]. split; [exact HE|].
  destruct (np2_spec (E - a) ltac:(lia)) as (j & Ej & J1 & J2).
  assert (Hjb : j <= bs).
  { assert (X : 2 ^ j < 2 ^ (bs + 1)) by (rewrite BridgeBase.pow2_succ; lia). apply pow2_lt_inv in X. lia. }
  exists j, (ga * 2 ^ (bs - j)). split; [exact Ej|]. split.
  - rewrite Ha. replace bs with ((bs - j) + j) at 1 by lia. rewrite N.pow_add_r. lia.
  - destruct (N.le_gt_cases (a + 2 ^ bs) n) as [L|L]; [left|right; lia].
    assert (X : E - a = 2 ^ bs) by lia. rewrite X, np2_pow2 in Ej. lia.
Qed.

Section Class.
Variable HO : hops.
Notation bytes := (bytes HO).
Notation item := (item HO).
Variable data : bytes.
Variable bs : N.
Variable S0 : N -> bool.
Local Notation nn := (blob_chunks HO data).

Lemma mx_small_rec_level : forall f a b, aligned nn a b -> b - a <= 2 ^ bs -> mx_low HO bs (enc_rec HO f data bs S0 a b).
Proof.
  induction f as [|f IH]; intros a b Hal Hsm nd l r Hin; [contradiction|].
  rewrite enc_rec_unfold in Hin.
  destruct (negb (existsb S0 (chunk_range_list a b))); [contradiction|].
  destruct (b - a <=? 1) eqn:E1; [destruct Hin as [Hd|[]]; discriminate|].
  destruct (forallb S0 (chunk_range_list a b) && (next_pow2 (b - a) <=? 2 ^ bs));
    [destruct Hin as [Hd|[]]; discriminate|].
  apply N.leb_gt in E1.
  destruct (aligned_children _ a b Hal ltac:(lia)) as (AL & AR & _).
  destruct (mx_aligned_parent_level _ a b Hal ltac:(lia)) as (i & Ei & Eh & Lv & Hi).
  pose proof (pow2_ge1 i) as Pi.
  assert (Hcap : next_pow2 (b - a) <= 2 ^ bs) by now apply np2_le.
  assert (Hib : i < bs) by (rewrite Ei in Hcap; apply BridgeBase.pow2_le_inv in Hcap; lia).
  assert (Hle : b - a <= 2 ^ (i + 1)).
  { destruct (np2_spec (b - a) ltac:(lia)) as (k & Ek & K1 & _). rewrite <- Ei, Ek. exact K1. }
  rewrite BridgeBase.pow2_succ in Hle.
  cbv zeta in AL, AR. rewrite Eh in AL, AR.
  destruct Hin as [Hd|Hin].
  - apply IParent_node in Hd. subst nd. rewrite Lv. exact Hib.
  - rewrite Eh in Hin. apply in_app_or in Hin. destruct Hin as [Hin|Hin].
    + apply (IH _ _ AL ltac:(lia) _ _ _ Hin).
    + apply (IH _ _ AR ltac:(lia) _ _ _ Hin).
Qed.
End Class.

(* ---------- the plan level ---------- *)
Section PlanLevel.
Variable HO : hops.
Notation bytes := (bytes HO).
Notation hash := (hash HO).
Notation item := (item HO).
Notation outboard := (outboard HO).

Lemma li_all bs s (buf : bytes) ir rs : r_is_all rs = true ->
  fst (leaf_items HO bs s buf ir rs) = [ILeaf (to_bytes s) buf].
Proof. intro H. unfold leaf_items. rewrite H. reflexivity. Qed.
Lemma li_part bs s (buf : bytes) ir rs : r_is_all rs = false ->
  fst (leaf_items HO bs s buf ir rs) = fst (traverse_selected_rec HO REC_FUEL s buf ir rs bs true).
Proof. intro H. unfold leaf_items. rewrite H. reflexivity. Qed.

(* the items of one unit of the plan, read off the store *)
Definition mx_ui (load : loader HO) (data' : bytes) (bs : N) (c : chunk) : list item :=
  match c with
  | CParent nd _ _ _ _ => match load nd with Ok (Some p) => [IParent nd (fst p) (snd p)] | _ => [] end
  | CLeaf s sz ir rs =>
      match read_exact_at HO data' (to_bytes s) sz with Ok buf => fst (leaf_items HO bs s buf ir rs) | _ => [] end
  end.

(* a successful run of the generic loop emits the items of its units, in order *)
Lemma gloop_ok_items (load : loader HO) (data' : bytes) (bs : N) : forall pl stk its,
  gloop HO load pl stk bs data' = (Ok tt, its) -> its = concat (map (mx_ui load data' bs) pl).
Proof.
  induction pl as [|c rest IH]; intros stk its H.
  - cbn [gloop] in H. apply pair_inj in H. destruct H as [_ <-]. reflexivity.
  - destruct c as [node ir lf rt rs|start sz ir rs]; cbn [gloop] in H; cbn [map concat mx_ui].
    + destruct (load node) as [[[l r]|]|k|]; try discriminate H.
      destruct stk as [|expected stk]; [discriminate H|].
      destruct (negb (bytes_eqb HO (parent_cv HO l r ir) expected)); [discriminate H|].
      cbv zeta in H. apply pair_inj in H. destruct H as [H1 H2]. subst its. cbn [fst snd app]. f_equal.
      apply (IH (push HO lf l (push HO rt r stk))). rewrite <- H1. apply surjective_pairing.
    + destruct stk as [|expected stk]; [discriminate H|].
      destruct (read_exact_at HO data' (to_bytes start) sz) as [buf|k|]; try discriminate H.
      cbv zeta in H. remember (leaf_items HO bs start buf ir rs) as LI eqn:ELI.
      destruct (negb (bytes_eqb HO (snd LI) expected)); [discriminate H|].
      apply pair_inj in H. destruct H as [H1 H2]. subst its. f_equal.
      apply (IH stk). rewrite <- H1. apply surjective_pairing.
Qed.

Variable data : bytes.
Variable bs : N.
Variable q : ranges.
Hypothesis Hwf : wf_ranges q = true.
Hypothesis Hsize : blen HO data <= 2 ^ 63.
Hypothesis Hbs : bs <= 10.
Local Notation size := (blen HO data).
Local Notation nn := (nchunks (blen HO data)).
Local Notation q' := (truncate_ranges q (blen HO data)).
Local Notation Sel := (sel q (blen HO data)).
Local Notation ENC := (ENC HO data bs Sel).
Local Notation gE := (gE HO data bs).
Local Notation plan := (rplan (blen HO data) bs (truncate_ranges q (blen HO data))).

(* the honest items of a unit *)
Definition mx_hi (c : chunk) : list item :=
  match c with
  | CParent nd _ _ _ _ => [IParent nd (fst (true_pair HO data nd)) (snd (true_pair HO data nd))]
  | CLeaf s _ _ _ => ENC s (gE s)
  end.

(* the items the mixed stream emits for a unit *)
Definition mixed_unit (c : chunk) : list item :=
  match c with
  | CParent nd _ _ _ _ => [IParent nd (fst (true_pair HO data nd)) (snd (true_pair HO data nd))]
  | CLeaf s _ _ rs => if r_is_all rs then [ILeaf (s * 1024) (chunk_bytes HO data s (gE s))]
                      else mix_rec HO 64 data Sel s (gE s)
  end.

Definition mx_Phi (a E : N) (rm : bool) (rs : ranges) (ir : bool) (pl : list chunk) : Prop :=
  concat (map mx_hi pl) = ENC a E.

(* the item-level twin of EncMain.hbs_plan_gen *)
Theorem his_plan_gen q0 : wf_ranges q0 = true -> q0 <> [] -> empty_is_sel HO data q q0 ->
  concat (map mx_hi (rplan size bs q0)) = honest HO data bs q.
Proof.
  intros Hq0 Hne Hemp. pose proof (nn53 HO data Hsize) as Hn.
  assert (P63 : 2 ^ 53 <= 2 ^ 63) by (apply pow2_le_mono; lia).
  pose proof (rplan_ind_root size bs q0 Hsize Hbs mx_Phi) as H.
  assert (HP : mx_Phi 0 nn true q0 true (rplan size bs q0)).
  { apply H; clear H.
    - intros a E rm rs ir Hl. unfold mx_Phi. destruct (leaf_group HO data bs q Hsize Hbs _ a E rm rs Hl) as [HgE _].
      cbn [map concat mx_hi]. now rewrite HgE, app_nil_r.
    - intros a m E rm rs ir l_rs r_rs pl pr Hpar Hrs Hrne H1 H2 Esp Hl Hr HPl HPr. unfold mx_Phi in *.
      destruct (tp_par HO data bs q Hsize Hbs a m E Hpar) as [Htp _]. destruct Hpar as [A1 A2 A3 A4 A5 A6 A7].
      cbn [map concat mx_hi]. rewrite map_app, concat_app. rewrite Htp. cbn [fst snd].
      rewrite ENC_unfold by lia.
      pose proof (Hemp rs a E rm Hrs ltac:(lia) A3 H1 H2) as X.
      assert (Ex : existsb Sel (chunk_range_list a E) = true).
      { destruct rs; [congruence|]. cbn [r_is_empty] in X. now destruct (existsb Sel (chunk_range_list a E)). }
      rewrite Ex. cbn [negb].
      assert (E1 : (E - a <=? 1) = false) by (apply N.leb_gt; lia). rewrite E1.
      assert (E2 : (next_pow2 (E - a) <=? 2 ^ bs) = false) by (apply N.leb_gt; lia). rewrite E2, andb_false_r.
      rewrite A4. replace (a + (m - a)) with m by lia.
      cbn [app]. f_equal. f_equal.
      + pose proof (Hemp l_rs a m false Hl A1 ltac:(lia) ltac:(discriminate) ltac:(intros _; lia)) as Y.
        destruct (r_is_empty l_rs).
        * subst pl. rewrite ENC_none; [reflexivity|]. now destruct (existsb Sel (chunk_range_list a m)).
        * exact HPl.
      + pose proof (Hemp r_rs m E rm Hr A2 A3 H1 H2) as Y.
        destruct (r_is_empty r_rs).
        * subst pr. rewrite ENC_none; [reflexivity|]. now destruct (existsb Sel (chunk_range_list m E)).
        * exact HPr.
    - apply rs_ok_root. exact Hq0.
    - exact Hne. }
  unfold mx_Phi in HP. rewrite HP. rewrite honest_ENC. reflexivity.
Qed.

Theorem his_plan : q <> [] -> concat (map mx_hi plan) = honest HO data bs q.
Proof.
  intro Hne. apply his_plan_gen; [now apply q'_wf|now apply q'_nonempty|now apply empty_is_sel_trunc].
Qed.

(* a unit that agrees with the blob emits mixed_unit *)
Lemma ui_mixed (load : loader HO) (data' : bytes) c :
  unit_ok HO data bs load data' c -> unit_geom HO data bs q' c -> mx_ui load data' bs c = mixed_unit c.
Proof.
  intros Hok Hg. destruct c as [nd ir lf rt rs|s sz ir rs]; cbn [unit_ok] in Hok; cbn [mx_ui mixed_unit].
  - rewrite Hok. reflexivity.
  - rewrite Hok.
    destruct (geom_leaf HO data bs q Hsize Hbs q' s sz ir rs Hg) as (T & _).
    destruct Hg as (E & rm & Hl & _).
    destruct (leaf_group HO data bs q Hsize Hbs _ s E rm rs Hl) as [HgE Hgrp].
    destruct Hl as [L1 L2 L3 L4 L5 L6 L7 L8].
    destruct (r_is_all rs) eqn:Eall.
    + rewrite (li_all bs s _ ir rs Eall), T. reflexivity.
    + rewrite (li_part bs s _ ir rs Eall), HgE. unfold REC_FUEL. change 64%nat with (S 63).
      apply (tsr_group HO data bs q Hwf Hsize 63 s E rm rs ir L4 L1 L2 L5 L6); [|lia|exact Hgrp].
      change (N.of_nat 63) with 63. apply N.le_trans with (1 := Hgrp). apply pow2_le_mono. lia.
Qed.

(* unit by unit, the mixed items have the effect of the honest items *)
Lemma mx_unit_eqv c : unit_geom HO data bs q' c -> mx_unit_equiv HO bs (mixed_unit c) (mx_hi c).
Proof.
  intro Hg. destruct c as [nd ir lf rt rs|s sz ir rs]; [left; reflexivity|].
  destruct Hg as (E & rm & Hl & _).
  destruct (leaf_group HO data bs q Hsize Hbs _ s E rm rs Hl) as [HgE Hgrp].
  pose proof (leaf_sel HO data bs q Hwf Hsize s E rm rs Hl) as Hs.
  destruct Hl as [L1 L2 L3 L4 L5 L6 L7 [ga L8]].
  cbn [mixed_unit mx_hi]. rewrite HgE.
  destruct (r_is_all rs) eqn:Eall.
  - left. symmetry. apply ENC_all; [exact L1|exact Hgrp|].
    destruct (N.lt_ge_cases (s + 1) E) as [L|L].
    + rewrite <- (rs_all_sel HO data q Hwf Hsize rs s E rm L4 L L2 L5 L6). exact Eall.
    + assert (X : E = s + 1) by lia. rewrite X in Hs |- *. rewrite crl_single in Hs. rewrite crl_single.
      cbn [existsb] in Hs. cbn [forallb]. rewrite orb_false_r in Hs. rewrite Hs. reflexivity.
  - right. split; [apply (mix_low HO data bs q Hsize); exact Hgrp|]. split.
    + unfold EncRec.ENC. apply mx_small_rec_level; [|exact Hgrp].
      apply (group_aligned _ bs s E ga L1 L2 L3 L8).
    + intro t. unfold EncRec.ENC. change 64%nat with (S 63).
      apply (mix_write_eq HO data bs q Hsize); [exact L2| |exact Hgrp].
      change (N.of_nat 63) with 63. apply N.le_trans with (1 := Hgrp). apply pow2_le_mono. lia.
Qed.

(* a fully selected chunk group *)
Lemma leaf_all_sel s E rm rs : leaf_ok size bs q' s E rm rs -> r_is_all rs = true ->
  forallb Sel (chunk_range_list s E) = true.
Proof.
  intros Hl Eall. pose proof (leaf_sel HO data bs q Hwf Hsize s E rm rs Hl) as Hs.
  destruct Hl as [L1 L2 L3 L4 L5 L6 L7 L8].
  destruct (N.lt_ge_cases (s + 1) E) as [L|L].
  - rewrite <- (rs_all_sel HO data q Hwf Hsize rs s E rm L4 L L2 L5 L6). exact Eall.
  - assert (X : E = s + 1) by lia. rewrite X in Hs |- *. rewrite crl_single in Hs. rewrite crl_single.
    cbn [existsb] in Hs. cbn [forallb]. rewrite orb_false_r in Hs. rewrite Hs. reflexivity.
Qed.

(* the leaves of a unit: the whole group when it is fully selected, single selected chunks otherwise *)
Lemma mixed_unit_leaves c off (d : bytes) : unit_geom HO data bs q' c -> In (ILeaf off d) (mixed_unit c) ->
  exists s e, off = s * 1024 /\ d = chunk_bytes HO data s e /\ s < e /\ e <= nn /\
              (forall x, s <= x -> x < e -> Sel x = true) /\
              (e = s + 1 \/ exists sz ir rs, c = CLeaf s sz ir rs /\ r_is_all rs = true /\ e = gE s).
Proof.
  intros Hg Hin. destruct c as [nd ir lf rt rs|s sz ir rs]; cbn [mixed_unit] in Hin.
  - destruct Hin as [Hd|[]]. now apply IParent_not_leaf in Hd.
  - destruct Hg as (E & rm & Hl & _).
    destruct (leaf_group HO data bs q Hsize Hbs _ s E rm rs Hl) as [HgE Hgrp].
    pose proof (leaf_all_sel s E rm rs Hl) as Hall.
    destruct Hl as [L1 L2 L3 L4 L5 L6 L7 L8]. rewrite HgE in Hin.
    destruct (r_is_all rs) eqn:Eall.
    + destruct Hin as [Hd|[]]. apply ILeaf_inj in Hd. destruct Hd as [<- <-].
      exists s, E. split; [reflexivity|]. split; [reflexivity|]. split; [exact L1|]. split; [exact L2|]. split.
      * intros x X1 X2. specialize (Hall eq_refl). rewrite forallb_forall in Hall. apply Hall. apply crl_in. lia.
      * right. exists sz, ir, rs. split; [reflexivity|]. split; [exact Eall|symmetry; exact HgE].
    + destruct (mix_rec_leaves HO data Sel _ _ _ _ _ Hin) as (x & C1 & C2 & C3 & C4 & C5).
      exists x, (x + 1). split; [exact C4|]. split; [exact C5|]. split; [lia|]. split; [lia|]. split.
      * intros y Y1 Y2. assert (y = x) by lia. subst y. exact C3.
      * now left.
Qed.

Lemma honest_empty : honest HO data bs [] = [].
Proof.
  assert (E : existsb (sel [] size) (chunk_range_list 0 (blob_chunks HO data)) = false).
  { induction (chunk_range_list 0 (blob_chunks HO data)) as [|x l IH]; [reflexivity|].
    cbn [existsb]. now rewrite sel_nil, IH. }
  rewrite (honest_ENC HO data bs []).
  apply (ENC_none HO data bs (sel [] size) 0 nn E).
Qed.

End PlanLevel.

(* ---------- the theorems ---------- *)
(* the items of the mixed stream on an intact store: per unit of the encoder's plan *)
Definition mixed_items (HO : hops) (data : bytes HO) (bs : N) (q : ranges) : list (item HO) :=
  concat (map (mixed_unit HO data bs q) (rplan (blen HO data) bs (truncate_ranges q (blen HO data)))).

Lemma q_nil_or (q : ranges) : q = [] \/ q <> [].
Proof. destruct q; [now left|right; discriminate]. Qed.

Lemma mx_geom_all (HO : hops) (data : bytes HO) (bs : N) (q : ranges) :
  wf_ranges q = true -> blen HO data <= 2 ^ 63 -> bs <= 10 ->
  Forall (unit_geom HO data bs (truncate_ranges q (blen HO data)))
         (rplan (blen HO data) bs (truncate_ranges q (blen HO data))).
Proof.
  intros Hwf Hs Hb. destruct (q_nil_or q) as [->|Hne].
  - rewrite truncate_nil, rplan_nil. constructor.
  - now apply geom_plan.
Qed.

(* the honest items, per unit of the same plan *)
Theorem honest_units (HO : hops) (data : bytes HO) (bs : N) (q : ranges) :
  wf_ranges q = true -> blen HO data <= 2 ^ 63 -> bs <= 10 ->
  honest HO data bs q = concat (map (mx_hi HO data bs q) (rplan (blen HO data) bs (truncate_ranges q (blen HO data)))).
Proof.
  intros Hwf Hs Hb. destruct (q_nil_or q) as [->|Hne].
  - rewrite truncate_nil, rplan_nil. cbn [map concat]. apply honest_empty.
  - symmetry. now apply his_plan.
Qed.

Lemma trv_ok_pair (HO : hops) (its : list (item HO)) (size : N) :
  trv_result HO (Ok tt, its) size = Some (ESize size :: map EItem its ++ [EDone]).
Proof. reflexivity. Qed.
Lemma flat_def (HO : hops) (l : list (item HO)) : concat (map (item_bytes HO) l) = flat HO l.
Proof. reflexivity. Qed.

Lemma mx_run_ok (HO : hops) (data : bytes HO) (bs : N) (q : ranges) (ob : outboard HO) :
  beq_correct HO -> wf_ranges q = true -> blen HO data <= 2 ^ 63 -> bs <= 10 ->
  (forall nd, In nd (enc_nodes (blen HO data) bs q) -> stored_ok HO data ob nd) -> q <> [] ->
  exists its : list (item HO),
    gloop HO (load_sync HO ob) (rplan (blen HO data) bs (truncate_ranges q (blen HO data)))
          [root_hash HO data] bs data = (Ok tt, its) /\ flat HO its = flat HO (honest HO data bs q).
Proof.
  intros Hbeq Hwf Hs Hb Hst Hne.
  assert (Hall : Forall (unit_ok HO data bs (load_sync HO ob) data)
                   (rplan (blen HO data) bs (truncate_ranges q (blen HO data)))).
  { apply intact_units; try assumption. intros nd Hnd. apply Hst. now rewrite <- nodes_eq. }
  pose proof (bloop_all_ok HO data bs q Hwf Hs Hb (load_sync HO ob) data Hbeq Hne Hall) as H.
  rewrite bloop_gloop in H.
  remember (gloop HO (load_sync HO ob) (rplan (blen HO data) bs (truncate_ranges q (blen HO data)))
              [root_hash HO data] bs data) as G eqn:EG.
  apply pair_inj in H. destruct H as [H1 H2]. rewrite iflat_flat in H2.
  exists (snd G). split; [|exact H2].
  rewrite <- H1. apply surjective_pairing.
Qed.

Lemma mx_run_items (HO : hops) (data : bytes HO) (bs : N) (q : ranges) (ob : outboard HO) :
  wf_ranges q = true -> blen HO data <= 2 ^ 63 -> bs <= 10 ->
  (forall nd, In nd (enc_nodes (blen HO data) bs q) -> stored_ok HO data ob nd) -> q <> [] ->
  forall its, gloop HO (load_sync HO ob) (rplan (blen HO data) bs (truncate_ranges q (blen HO data)))
                    [root_hash HO data] bs data = (Ok tt, its) -> its = mixed_items HO data bs q.
Proof.
  intros Hwf Hs Hb Hst Hne its EG'.
  assert (Hall : Forall (unit_ok HO data bs (load_sync HO ob) data)
                   (rplan (blen HO data) bs (truncate_ranges q (blen HO data)))).
  { apply intact_units; try assumption. intros nd Hnd. apply Hst. now rewrite <- nodes_eq. }
  pose proof (geom_plan HO data bs q Hwf Hs Hb Hne) as Hgeom.
  pose proof (gloop_ok_items HO (load_sync HO ob) data bs _ _ _ EG') as Eits.
  assert (Em : map (mx_ui HO (load_sync HO ob) data bs) (rplan (blen HO data) bs (truncate_ranges q (blen HO data)))
               = map (mixed_unit HO data bs q) (rplan (blen HO data) bs (truncate_ranges q (blen HO data)))).
  { apply map_ext_in. intros c Hc. rewrite Forall_forall in Hall, Hgeom.
    apply (ui_mixed HO data bs q Hwf Hs Hb); [apply Hall; exact Hc|apply Hgeom; exact Hc]. }
  rewrite Em in Eits. exact Eits.
Qed.

Lemma mixed_items_nil (HO : hops) (data : bytes HO) (bs : N) : mixed_items HO data bs [] = [].
Proof. unfold mixed_items. rewrite truncate_nil, rplan_nil. reflexivity. Qed.

Theorem mixed_items_exact (HO : hops) (data : bytes HO) (bs : N) (q : ranges) (ob : outboard HO) :
  beq_correct HO -> wf_ranges q = true -> blen HO data <= 2 ^ 63 -> bs <= 10 ->
  ob_tree ob = mkTree (blen HO data) bs -> ob_root ob = root_hash HO data ->
  (forall nd, In nd (enc_nodes (blen HO data) bs q) -> stored_ok HO data ob nd) ->
  traverse_ranges_validated HO data ob q =
    Some (ESize (blen HO data) :: map EItem (mixed_items HO data bs q) ++ [EDone]) /\
  concat (map (item_bytes HO) (mixed_items HO data bs q)) = flat HO (honest HO data bs q).
Proof.
  intros Hbeq Hwf Hs Hb Htree Hroot Hst. rewrite flat_def. destruct (q_nil_or q) as [->|Hne].
  - rewrite mixed_items_nil. split.
    + rewrite trv_gloop. cbn [r_is_empty]. rewrite trv_ok_pair, Htree. reflexivity.
    + rewrite honest_nil. reflexivity.
  - rewrite (trv_plan HO data bs q Hwf Hs Hb ob Htree Hroot data Hne).
    destruct (mx_run_ok HO data bs q ob Hbeq Hwf Hs Hb Hst Hne) as (its & EG & H2).
    rewrite EG. rewrite (mx_run_items HO data bs q ob Hwf Hs Hb Hst Hne its EG) in H2 |- *.
    rewrite trv_ok_pair. split; [reflexivity|exact H2].
Qed.

Lemma mx_prefix_refl {A} (l : list A) : DecForest.is_prefix l l.
Proof. exists []. now rewrite app_nil_r. Qed.

(* (B) the item stream of traverse_ranges_validated on an intact store: exactly mixed_items; the bytes of the honest
   encoding; and applied to any target and any sink with the blob's geometry (whatever its kind and length), unit by
   unit of the plan, exactly the effect of the honest items: same result, same target, same outboard *)
Theorem mixed_apply_eq : forall HO, hash_ok HO ->
  forall (data : bytes HO) bs, blen HO data <= 2 ^ 63 -> bs <= 10 -> forall q, wf_ranges q = true ->
  forall ob : outboard HO, ob_tree ob = mkTree (blen HO data) bs -> ob_root ob = root_hash HO data ->
    (forall nd, In nd (enc_nodes (blen HO data) bs q) -> stored_ok HO data ob nd) ->
  exists its,
    traverse_ranges_validated HO data ob q = Some (ESize (blen HO data) :: map EItem its ++ [EDone]) /\
    concat (map (item_bytes HO) its) = flat HO (honest HO data bs q) /\
    its = concat (map (mixed_unit HO data bs q) (rplan (blen HO data) bs (truncate_ranges q (blen HO data)))) /\
    honest HO data bs q = concat (map (mx_hi HO data bs q) (rplan (blen HO data) bs (truncate_ranges q (blen HO data)))) /\
    (forall c, In c (rplan (blen HO data) bs (truncate_ranges q (blen HO data))) ->
       mx_unit_equiv HO bs (mixed_unit HO data bs q c) (mx_hi HO data bs q c)) /\
    (forall target : bytes HO, write_leaves HO target its = write_leaves HO target (honest HO data bs q)) /\
    (forall (target : bytes HO) (sink : outboard HO), ob_tree sink = mkTree (blen HO data) bs ->
       apply_items HO its target sink = apply_items HO (honest HO data bs q) target sink) /\
    (forall (target : bytes HO) (sink : outboard HO), ob_tree sink = mkTree (blen HO data) bs ->
       sink_ok HO data bs sink ->
       exists ob', apply_items HO its target sink = (SOk, write_leaves HO target (honest HO data bs q), ob') /\
                   apply_items HO (honest HO data bs q) target sink = (SOk, write_leaves HO target (honest HO data bs q), ob')).
Proof.
  intros HO HOK data bs Hs Hb q Hwf ob Htree Hroot Hst.
  destruct (mixed_items_exact HO data bs q ob (ho_beq HO HOK) Hwf Hs Hb Htree Hroot Hst) as [T1 T2].
  pose proof (honest_units HO data bs q Hwf Hs Hb) as Hh.
  pose proof (mx_geom_all HO data bs q Hwf Hs Hb) as Hgeom. rewrite Forall_forall in Hgeom.
  assert (Hu : forall c, In c (rplan (blen HO data) bs (truncate_ranges q (blen HO data))) ->
               mx_unit_equiv HO bs (mixed_unit HO data bs q c) (mx_hi HO data bs q c)).
  { intros c Hc. apply (mx_unit_eqv HO data bs q Hwf Hs Hb). apply Hgeom. exact Hc. }
  assert (Ha : forall (target : bytes HO) (sink : outboard HO), ob_tree sink = mkTree (blen HO data) bs ->
               apply_items HO (mixed_items HO data bs q) target sink = apply_items HO (honest HO data bs q) target sink).
  { intros target sink Tk. rewrite Hh. unfold mixed_items. now apply (apply_concat_equiv HO (blen HO data) bs). }
  exists (mixed_items HO data bs q).
  split; [exact T1|]. split; [exact T2|]. split; [reflexivity|]. split; [exact Hh|]. split; [exact Hu|].
  split; [|split].
  - intro target. rewrite Hh. unfold mixed_items. apply write_concat_equiv.
    intros c Hc. apply (mx_unit_equiv_write HO bs). now apply Hu.
  - exact Ha.
  - intros target sink Tk Sk.
    destruct (gaph_sink_apply HO HOK data bs Hs Hb q (honest HO data bs q) target sink Hwf (mx_prefix_refl _) Tk Sk)
      as (ob' & A & _).
    exists ob'. split; [|exact A]. rewrite (Ha target sink Tk). exact A.
Qed.

(* the leaves of the stream: runs of selected chunks of the blob; a single chunk, except for a fully selected chunk
   group (one leaf for the group) *)
Theorem mixed_items_leaves : forall HO (data : bytes HO) bs, blen HO data <= 2 ^ 63 -> bs <= 10 ->
  forall q, wf_ranges q = true -> forall off (d : bytes HO),
  In (ILeaf off d) (concat (map (mixed_unit HO data bs q) (rplan (blen HO data) bs (truncate_ranges q (blen HO data))))) ->
  exists s e, off = s * 1024 /\ d = chunk_bytes HO data s e /\ s < e /\ e <= nchunks (blen HO data) /\
    (forall x, s <= x -> x < e -> sel q (blen HO data) x = true) /\
    (e = s + 1 \/ (e = gE HO data bs s /\ exists ga, s = ga * 2 ^ bs)).
Proof.
  intros HO data bs Hs Hb q Hwf off d Hin.
  apply in_concat in Hin. destruct Hin as (l & Hl & Hin). apply in_map_iff in Hl. destruct Hl as (c & <- & Hc).
  pose proof (mx_geom_all HO data bs q Hwf Hs Hb) as Hgeom. rewrite Forall_forall in Hgeom.
  destruct (mixed_unit_leaves HO data bs q Hwf Hs Hb c off d (Hgeom c Hc) Hin) as (s & e & A1 & A2 & A3 & A4 & A5 & A6).
  exists s, e. split; [exact A1|]. split; [exact A2|]. split; [exact A3|]. split; [exact A4|]. split; [exact A5|].
  destruct A6 as [A6|(sz & ir & rs & -> & _ & A6)]; [now left|right]. split; [exact A6|].
  destruct (Hgeom _ Hc) as (E & rm & [_ _ _ _ _ _ _ L8] & _). exact L8.
Qed.

(* ---------- (A) the items are not the honest items ---------- *)
Definition mx_wdata (n : N) : bytes term_hops := repeat (TC 7 [] false) (N.to_nat n).
Definition mx_wob (n : N) (bs : N) : outboard term_hops :=
  mkOb PreMem (root_hash term_hops (mx_wdata n)) (mkTree n bs) (spec_outboard term_hops false (mx_wdata n) bs).

(* four chunks, one chunk group of four (block size 2), chunks 0 and 1 selected: the stream is
   Size, Parent(node 0), Leaf(0, 1024 bytes), Leaf(1024, 1024 bytes), Done; the honest encoding (what the decoder
   expects and yields) is Parent(node 1), Leaf(0, 2048 bytes) *)
Theorem mixed_items_refuted :
  exists (HO : hops) (data : bytes HO) (bs : N) (ob : outboard HO) (q : ranges) (its : list (item HO)),
    hash_ok HO /\ blen HO data <= 2 ^ 63 /\ bs <= 10 /\ wf_ranges q = true /\ created_store HO data bs ob /\
    ob_k ob = PreMem /\ ob_data ob = [] /\
    traverse_ranges_validated HO data ob q = Some (ESize (blen HO data) :: map EItem its ++ [EDone]) /\
    its <> honest HO data bs q /\
    length its = 3%nat /\ length (honest HO data bs q) = 2%nat /\
    (exists l r, nth 0 its (ILeaf 0 []) = IParent 0 l r) /\
    (exists d, nth 1 its (ILeaf 0 []) = ILeaf 0 d /\ blen HO d = 1024) /\
    (exists d, nth 2 its (ILeaf 0 []) = ILeaf 1024 d /\ blen HO d = 1024) /\
    (exists l r, nth 0 (honest HO data bs q) (ILeaf 0 []) = IParent 1 l r) /\
    (exists d, nth 1 (honest HO data bs q) (ILeaf 0 []) = ILeaf 0 d /\ blen HO d = 2048).
Proof.
  exists term_hops, (mx_wdata 4096), 2, (mx_wob 4096 2), [0; 2], (mixed_items term_hops (mx_wdata 4096) 2 [0; 2]).
  split; [exact term_hops_ok|]. split; [vm_compute; discriminate|]. split; [lia|]. split; [reflexivity|].
  split; [constructor; [right; right; now left|vm_compute; reflexivity|reflexivity|vm_compute; reflexivity]|].
  split; [reflexivity|]. split; [vm_compute; reflexivity|]. split; [vm_compute; reflexivity|].
  split; [intro H; apply (f_equal (@length _)) in H; vm_compute in H; discriminate H|].
  split; [vm_compute; reflexivity|]. split; [vm_compute; reflexivity|].
  split.
  { exists (match nth 0 (mixed_items term_hops (mx_wdata 4096) 2 [0; 2]) (ILeaf 0 []) with IParent _ l _ => l | _ => [] end),
           (match nth 0 (mixed_items term_hops (mx_wdata 4096) 2 [0; 2]) (ILeaf 0 []) with IParent _ _ r => r | _ => [] end).
    vm_compute. reflexivity. }
  split.
  { exists (match nth 1 (mixed_items term_hops (mx_wdata 4096) 2 [0; 2]) (ILeaf 0 []) with ILeaf _ d => d | _ => [] end).
    split; vm_compute; reflexivity. }
  split.
  { exists (match nth 2 (mixed_items term_hops (mx_wdata 4096) 2 [0; 2]) (ILeaf 0 []) with ILeaf _ d => d | _ => [] end).
    split; vm_compute; reflexivity. }
  split.
  { exists (match nth 0 (honest term_hops (mx_wdata 4096) 2 [0; 2]) (ILeaf 0 []) with IParent _ l _ => l | _ => [] end),
           (match nth 0 (honest term_hops (mx_wdata 4096) 2 [0; 2]) (ILeaf 0 []) with IParent _ _ r => r | _ => [] end).
    vm_compute. reflexivity. }
  exists (match nth 1 (honest term_hops (mx_wdata 4096) 2 [0; 2]) (ILeaf 0 []) with ILeaf _ d => d | _ => [] end).
  split; vm_compute; reflexivity.
Qed.

(* ---------- (C) the hypotheses of mixed_apply_eq hold, on a store with a stored pair, with differing items, and
   sinks of every kind exist ---------- *)
Lemma mixed_apply_nonvacuous :
  exists (HO : hops) (data : bytes HO) (bs : N) (q : ranges) (ob : outboard HO),
    hash_ok HO /\ blen HO data <= 2 ^ 63 /\ bs <= 10 /\ wf_ranges q = true /\ created_store HO data bs ob /\
    ob_tree ob = mkTree (blen HO data) bs /\ ob_root ob = root_hash HO data /\
    (forall nd, In nd (enc_nodes (blen HO data) bs q) -> stored_ok HO data ob nd) /\
    enc_nodes (blen HO data) bs q = [3] /\
    mixed_items HO data bs q <> honest HO data bs q /\
    length (mixed_items HO data bs q) = 4%nat /\ length (honest HO data bs q) = 3%nat /\
    (forall k : ob_kind, exists sink : outboard HO,
       ob_k sink = k /\ ob_tree sink = mkTree (blen HO data) bs /\ sink_ok HO data bs sink).
Proof.
  exists term_hops, (mx_wdata 8192), 2, [0; 2], (mx_wob 8192 2).
  assert (Hs : blen term_hops (mx_wdata 8192) <= 2 ^ 63) by (vm_compute; discriminate).
  assert (Hb : 2 <= 10) by lia.
  split; [exact term_hops_ok|]. split; [exact Hs|]. split; [exact Hb|]. split; [reflexivity|].
  split; [constructor; [right; right; now left|vm_compute; reflexivity|reflexivity|vm_compute; reflexivity]|].
  split; [vm_compute; reflexivity|]. split; [reflexivity|].
  assert (En : enc_nodes (blen term_hops (mx_wdata 8192)) 2 [0; 2] = [3]) by (vm_compute; reflexivity).
  split; [rewrite En; intros nd [<-|[]]; vm_compute; reflexivity|]. split; [exact En|].
  split; [intro H; apply (f_equal (@length _)) in H; vm_compute in H; discriminate H|].
  split; [vm_compute; reflexivity|]. split; [vm_compute; reflexivity|].
  intro k. destruct (gaph_sinks_nonvacuous term_hops (mx_wdata 8192) 2 Hs Hb k) as (sink & K & _ & T & S).
  exists sink. split; [exact K|]. split; [exact T|exact S].
Qed.

Print Assumptions mixed_items_refuted.
Print Assumptions mixed_items_exact.
Print Assumptions honest_units.
Print Assumptions mixed_apply_eq.
Print Assumptions mixed_apply_nonvacuous.
Print Assumptions mixed_items_leaves.
Print Assumptions tsr_group.
Print Assumptions gloop_ok_items.
