(* C07, part 2: the nodes on the path of a chunk group are persisted nodes of the tree's listing. *)
From BaoV Require Import Model.Sync Model.Fsm Spec.PlanSpec Spec.PlanWf Spec.EncSpec Spec.HashAssm.
From BaoV Require Import Proofs.NodeLevel Proofs.NodeBits Proofs.NodeAlgebra
  Proofs.ObBase Proofs.RangeBase Proofs.BridgeBase
  Proofs.PlanBase Proofs.PlanNav Proofs.ValSpec Proofs.ValPath Proofs.ValTop Proofs.HistOb.
From Coq Require Import ZArith Lia.
Open Scope N_scope.
Arguments N.add : simpl never.
Arguments N.sub : simpl never.
Arguments N.mul : simpl never.
Arguments N.pow : simpl never.
Arguments N.shiftl : simpl never.
Arguments N.shiftr : simpl never.
Arguments N.land : simpl never.
Arguments N.div : simpl never.
Arguments N.modulo : simpl never.
Arguments N.log2 : simpl never.
Arguments N.min : simpl never.
Arguments N.max : simpl never.
Ltac Zify.zify_post_hook ::= Z.to_euclidean_division_equations.

Section HistPath.
Variables (size bs : N).
Hypothesis Hsize : size <= 2 ^ 63.
Hypothesis Hbs : bs <= 10.
Let B := sp_blocks size bs.

Lemma persisted_node ga n rm : node_ok size bs ga n rm -> (rm = false -> ga + n < B) -> 2 <= n ->
  sp_persisted size bs (unshift bs (sid ga n)) = true.
Proof.
  intros Hok Hnr H2. pose proof (node_geom_ok size bs ga n rm Hsize Hbs Hok) as [G1 G2 G3 G4 G5].
  pose proof (node_end_bound size bs ga n rm Hsize Hbs Hok) as HE.
  destruct Hok as [P [k Al] I R]. pose proof (pow2_pos bs) as Hp.
  unfold sp_persisted. rewrite <- level_is_sp_level, G2. unfold mid in G5. rewrite G5.
  destruct (N.le_gt_cases n 2) as [L|L].
  - assert (n = 2) by lia. subst n. rewrite cexp_small by lia. rewrite N.add_0_l, N.ltb_irrefl, N.eqb_refl.
    change (capof 2 / 2) with 1. cbn [orb andb].
    apply N.ltb_lt. assert (H : ga + 1 < sp_blocks size bs) by (fold B; destruct rm; lia).
    apply sp_blocks_spec in H. destruct H as [H|H]; [lia|assumption].
  - pose proof (cexp_inner n ltac:(lia)) as Hc.
    assert (E2 : (bs <? cexp n + bs) = true) by (apply N.ltb_lt; lia). rewrite E2. reflexivity.
Qed.

Lemma path_nodes : forall fuel ga0 n rm ga nd rt,
  node_ok size bs ga0 n rm -> (rm = false -> ga0 + n < B) -> N.log2 (capof n) <= N.of_nat fuel ->
  In (nd, rt) (grp_path fuel bs ga0 n ga) ->
  In nd (map (unshift bs) (sh_pre fuel ga0 n)) /\ sp_persisted size bs nd = true.
Proof.
  induction fuel as [|f IH]; intros ga0 n rm ga nd rt Hok Hnr Hf Hin.
  { destruct Hin. }
  rewrite grp_path_eq in Hin.
  destruct (N.leb_spec n 1) as [L1|L1]; [destruct Hin|].
  destruct (N.leb_spec n 2) as [L2|L2].
  - destruct Hin as [Hin|[]]. injection Hin as <- _. split.
    + rewrite sh_pre_small by assumption. now left.
    + apply (persisted_node ga0 n rm); (assumption || lia).
  - assert (H3 : 3 <= n) by lia. cbv zeta in Hin.
    destruct (fuel_children n f H3 Hf) as [F1 F2].
    pose proof (node_ok_left size bs ga0 n rm Hok H3) as Hokl.
    pose proof (node_ok_right size bs ga0 n rm Hok H3) as Hokr.
    destruct (capof_inner n H3) as (j & Ecap & Eh & K1 & K2 & C1 & C2). pose proof (pow2_pos (j + 1)) as Hpj.
    pose proof (nk_in _ _ _ _ _ Hok) as Hi. fold B in Hi.
    rewrite sh_pre_inner by assumption. cbn [map]. rewrite map_app.
    destruct (ga <? ga0 + capof n / 2).
    + destruct Hin as [Hin|Hin].
      * injection Hin as <- _. split; [now left|]. apply (persisted_node ga0 n rm); (assumption || lia).
      * destruct (IH ga0 (capof n / 2) false ga nd rt Hokl ltac:(intros _; rewrite Eh; lia) F1 Hin) as [I1 I2].
        split; [right; apply in_or_app; now left|exact I2].
    + destruct Hin as [Hin|Hin].
      * injection Hin as <- _. split; [now left|]. apply (persisted_node ga0 n rm); (assumption || lia).
      * destruct (IH (ga0 + capof n / 2) (n - capof n / 2) rm ga nd rt Hokr
                    ltac:(intro Erm; specialize (Hnr Erm); rewrite Eh; lia) F2 Hin) as [I1 I2].
        split; [right; apply in_or_app; now right|exact I2].
Qed.

Lemma top_path_pnode ga nd rt : In (nd, rt) (top_path size bs ga) -> pnode size bs nd.
Proof.
  rewrite top_path_eq. intro Hin.
  destruct (path_nodes VFUEL 0 (sp_blocks size bs) true ga nd rt (node_ok_root size bs) ltac:(discriminate)
              (top_fuel size bs Hsize) Hin) as [I1 I2].
  rewrite pnodes_eq. apply filter_In. split; [|exact I2]. unfold sp_pre_nodes.
  rewrite (sh_pre_fuel 65 VFUEL 0 (sp_blocks size bs)); [exact I1|unfold sp_blocks; lia| |apply (top_fuel size bs Hsize)].
  exact (root_fuel size bs Hsize).
Qed.

End HistPath.
