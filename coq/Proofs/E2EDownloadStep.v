(* End-to-end download, part 2: a fault-free decode step (sync or fsm) fed the whole honest encoding of its
   query, followed by any bytes, applies all honest items, hence adds exactly the selection of the query to the
   delivered set (full_step). *)
From BaoV Require Import Model.Sync Model.Fsm Model.IO Spec.RangeSpec Spec.PlanSpec Spec.PlanWf Spec.EncSpec Spec.HashAssm.
From BaoV Require Import Proofs.RangeBase Proofs.BridgeBase Proofs.BridgeTree Proofs.BridgeLeaves
  Proofs.DecForest Proofs.DecRanges Proofs.IOSinkFaults Proofs.E2EMisc
  Proofs.HistOb Proofs.HistEnc Proofs.HistInv Proofs.HistStep.
From Coq Require Import ZArith Lia.
Open Scope N_scope.
Arguments N.add : simpl never.
Arguments N.sub : simpl never.
Arguments N.mul : simpl never.
Arguments N.pow : simpl never.
Arguments N.div : simpl never.
Arguments N.modulo : simpl never.
Arguments N.log2 : simpl never.
Arguments N.min : simpl never.
Arguments N.max : simpl never.

From BaoV Require Import Proofs.E2EDownload.

(* ---- (B) a fault-free step fed the complete honest encoding ---- *)
Section Generic.
Variable HO : hops.
Notation bytes := (bytes HO).
Notation outboard := (outboard HO).
Notation item := (item HO).

Lemma hist_step_sync st q enc sf :
  hist_step HO st (mkOp HO q enc sf false) =
  (snd (fst (fst (decode_ranges_f HO sf enc q (fst st) (snd st)))), snd (fst (decode_ranges_f HO sf enc q (fst st) (snd st)))).
Proof. reflexivity. Qed.

Lemma hist_step_fsm st q enc sf :
  hist_step HO st (mkOp HO q enc sf true) =
  (snd (fst (fst (decode_ranges_fsm_f HO sf enc q (fst st) (snd st)))), snd (fst (decode_ranges_fsm_f HO sf enc q (fst st) (snd st)))).
Proof. reflexivity. Qed.

(* over an abstract item list: if decode_ranges returns what apply_items computes, and that is (SOk, t', ob') *)
Lemma full_sync_gen (hon : list item) q (enc t : bytes) (ob : outboard) t' ob' :
  apply_items HO hon t ob = (SOk, t', ob') ->
  (exists st', decode_ranges HO enc q t ob =
     (ranges_result (a_res HO (apply_items HO hon t ob)) Finished,
      a_target HO (apply_items HO hon t ob), a_ob HO (apply_items HO hon t ob), st')) ->
  hist_step HO (t, ob) (mkOp HO q enc no_faults false) = (t', ob').
Proof.
  intros Ha (st' & R). rewrite hist_step_sync. cbn [fst snd]. rewrite decode_no_fault, R, Ha. reflexivity.
Qed.

Lemma full_fsm_gen (hon : list item) q (enc t : bytes) (ob : outboard) t' ob' :
  apply_items HO hon t ob = (SOk, t', ob') ->
  (exists st', decode_ranges_fsm HO enc q t ob =
     (ranges_result (a_res HO (apply_items HO hon t ob)) Finished,
      a_target HO (apply_items HO hon t ob), a_ob HO (apply_items HO hon t ob), st')) ->
  hist_step HO (t, ob) (mkOp HO q enc no_faults true) = (t', ob').
Proof.
  intros Ha (st' & R). rewrite hist_step_fsm. cbn [fst snd]. rewrite decode_fsm_no_fault, R, Ha. reflexivity.
Qed.

(* reading off a step from the (target, outboard) components of the decoder's result; stated over pairs so that
   no conversion ever has to look inside decode_ranges_f *)
Lemma step_result_sync (t : bytes) (ob : outboard) q enc sf t' ob' :
  (let r := decode_ranges_f HO sf enc q t ob in snd (fst (fst r)) = t' /\ snd (fst r) = ob') ->
  hist_step HO (t, ob) (mkOp HO q enc sf false) = (t', ob').
Proof. cbv zeta. intros [E1 E2]. rewrite hist_step_sync. cbn [fst snd]. rewrite E1, E2. reflexivity. Qed.

Lemma step_result_fsm (t : bytes) (ob : outboard) q enc sf t' ob' :
  (let r := decode_ranges_fsm_f HO sf enc q t ob in snd (fst (fst r)) = t' /\ snd (fst r) = ob') ->
  hist_step HO (t, ob) (mkOp HO q enc sf true) = (t', ob').
Proof. cbv zeta. intros [E1 E2]. rewrite hist_step_fsm. cbn [fst snd]. rewrite E1, E2. reflexivity. Qed.

Lemma is_prefix_refl {A} (l : list A) : is_prefix l l.
Proof. exists []. symmetry. apply app_nil_r. Qed.

Lemma is_prefix_nil_inv {A} (ys : list A) : is_prefix ys [] -> ys = [].
Proof. intros [r Hp]. symmetry in Hp. apply app_eq_nil in Hp. exact (proj1 Hp). Qed.

End Generic.

Section FullStep.
Variable HO : hops.
Hypothesis HOK : hash_ok HO.
Notation bytes := (bytes HO).
Notation outboard := (outboard HO).
Variable data : bytes.
Variable bs : N.
Hypothesis Hsize : blen HO data <= 2 ^ 63.
Hypothesis Hbs : bs <= 10.
Notation size := (blen HO data).

(* a non-empty query: the fault-free decoders apply all honest items *)
Lemma full_step_ne q (rest : bytes) fsm D st : wf_ranges q = true -> q <> [] -> Inv HO data bs D st ->
  Inv HO data bs (fun c => D c || delivered HO (honest HO data bs q) c)
      (hist_step HO st (mkOp HO q (flat HO (honest HO data bs q) ++ rest) no_faults fsm)).
Proof.
  intros Hwf Hne I. destruct st as [t ob].
  destruct (inv_apply HO HOK data bs Hsize Hbs D t ob q _ I (is_prefix_refl (honest HO data bs q)))
    as (t' & ob' & Ha & I').
  pose proof (e2e_decode_ranges_roundtrip HO HOK data bs q Hsize Hbs Hwf Hne rest t ob
                (inv_root HO data bs D (t, ob) I)
                (os_tree HO ob size bs (inv_sized HO data bs D (t, ob) I))) as R.
  destruct fsm.
  - rewrite (full_fsm_gen HO (honest HO data bs q) q _ t ob t' ob' Ha (proj2 R)). exact I'.
  - rewrite (full_sync_gen HO (honest HO data bs q) q _ t ob t' ob' Ha (proj1 R)). exact I'.
Qed.

(* the empty query: every prefix of the (empty) honest encoding is empty *)
Lemma full_step_nil (enc : bytes) fsm D st : Inv HO data bs D st ->
  Inv HO data bs (fun c => D c || delivered HO (honest HO data bs []) c)
      (hist_step HO st (mkOp HO [] enc no_faults fsm)).
Proof.
  intro I.
  destruct (inv_step HO HOK data bs Hsize Hbs D st (mkOp HO [] enc no_faults fsm) eq_refl I) as (ys & Hp & I').
  rewrite honest_nil in *.
  apply is_prefix_nil_inv in Hp. subst ys. exact I'.
Qed.

Theorem full_step_delivered q (rest : bytes) fsm D st : wf_ranges q = true -> Inv HO data bs D st ->
  Inv HO data bs (fun c => D c || delivered HO (honest HO data bs q) c)
      (hist_step HO st (mkOp HO q (flat HO (honest HO data bs q) ++ rest) no_faults fsm)).
Proof.
  intros Hwf I. destruct (list_eq_dec N.eq_dec q []) as [->|Hne].
  - now apply full_step_nil.
  - now apply full_step_ne.
Qed.

Theorem full_step_sel q (rest : bytes) fsm D st : wf_ranges q = true -> Inv HO data bs D st ->
  Inv HO data bs (fun c => D c || sel q size c)
      (hist_step HO st (mkOp HO q (flat HO (honest HO data bs q) ++ rest) no_faults fsm)).
Proof.
  intros Hwf I.
  apply (Inv_ext HO data bs (fun c => D c || delivered HO (honest HO data bs q) c)).
  - intros c _. now rewrite (delivered_honest_all HO data Hsize bs q c).
  - now apply full_step_delivered.
Qed.

End FullStep.

Theorem full_step : forall (HO : hops), hash_ok HO ->
  forall (data : bytes HO) (bs : N), blen HO data <= 2 ^ 63 -> bs <= 10 ->
  forall q : ranges, wf_ranges q = true ->
  forall (D : N -> bool) (st : bytes HO * outboard HO) (rest : bytes HO) (fsm : bool),
  Inv HO data bs D st ->
  Inv HO data bs (fun c => D c || sel q (blen HO data) c)
      (hist_step HO st (mkOp HO q (flat HO (honest HO data bs q) ++ rest) no_faults fsm)).
Proof.
  intros HO HOK data bs Hsize Hbs q Hwf D st rest fsm I.
  exact (full_step_sel HO HOK data bs Hsize Hbs q rest fsm D st Hwf I).
Qed.
