(* The spec tree: its items are the honest encoding, its value is the root hash, it is consistent. *)
From BaoV Require Import Spec.RangeSpec Spec.PlanSpec Spec.EncSpec Spec.PTree Spec.SpecTree Spec.HashAssm.
From BaoV Require Import Proofs.RangeBase Proofs.RangeRound Proofs.RangeTrunc Proofs.BridgeBase.
From Coq Require Import Lia Arith PeanoNat ZArith ZifyN ZifyNat ZifyBool.
Ltac Zify.zify_post_hook ::= Z.div_mod_to_equations.

Section BridgeTree.
Variable HO : hops.
Notation bytes := (bytes HO).

Lemma exists_nonempty (Sel : N -> bool) a b : existsb Sel (chunk_range_list a b) = true -> a < b.
Proof.
  intro H. destruct (N.lt_ge_cases a b) as [L|L]; [assumption|].
  rewrite crl_nil in H by assumption. discriminate.
Qed.

(* ---- 1. items ---- *)
Lemma items_st_rec f (data : bytes) bs Sel : forall a b r, b <= 2 ^ 54 ->
  items_of HO (st_rec HO f data bs Sel a b r) = enc_rec HO f data bs Sel a b.
Proof.
  induction f as [|f IH]; intros a b r Hb; [reflexivity|].
  cbn [st_rec enc_rec]. cbv zeta.
  destruct (existsb Sel (chunk_range_list a b)) eqn:Eex; cbn [negb]; [|reflexivity].
  apply exists_nonempty in Eex.
  destruct (b - a <=? 1) eqn:E1.
  - cbn [items_of]. rewrite to_bytes_small by lia. reflexivity.
  - apply N.leb_gt in E1.
    destruct (forallb Sel (chunk_range_list a b) && (next_pow2 (b - a) <=? 2 ^ bs)).
    + cbn [items_of]. rewrite to_bytes_small by lia. reflexivity.
    + destruct (np2_half (b - a) ltac:(lia)) as (k & _ & Eh & K1 & _).
      cbn [items_of]. rewrite !IH by lia. reflexivity.
Qed.

Lemma nchunks_small size : size <= 2 ^ 63 -> nchunks size <= 2 ^ 53.
Proof. intro H. apply nchunks_le. exact H. Qed.

Lemma bridge_items (data : bytes) bs q :
  blen HO data <= 2 ^ 63 ->
  items_of HO (spec_tree HO data bs q) = honest HO data bs q.
Proof.
  intro Hs. unfold spec_tree, honest, enc_spec. apply items_st_rec.
  unfold blob_chunks. pose proof (nchunks_small _ Hs).
  assert (2 ^ 53 <= 2 ^ 54) by (apply pow2_le_mono; lia). lia.
Qed.

(* ---- 3. values ---- *)
Lemma cv_rec_unfold f (data : bytes) a b r :
  cv_rec HO (S f) data a b r =
  if b - a <=? 1 then chunk_cv HO a (chunk_bytes HO data a b) r
  else parent_cv HO (cv_rec HO f data a (a + next_pow2 (b - a) / 2) false)
                    (cv_rec HO f data (a + next_pow2 (b - a) / 2) b false) r.
Proof. reflexivity. Qed.

Lemma cv_rec_fuel (data : bytes) : forall f f' a b r,
  b - a <= 2 ^ N.of_nat f -> b - a <= 2 ^ N.of_nat f' ->
  cv_rec HO (S f) data a b r = cv_rec HO (S f') data a b r.
Proof.
  induction f as [|f IH]; intros f' a b r H1 H2; rewrite (cv_rec_unfold _ data a b r), (cv_rec_unfold f' data a b r).
  - change (2 ^ N.of_nat 0) with 1 in H1. apply N.leb_le in H1. rewrite H1. reflexivity.
  - destruct (b - a <=? 1) eqn:E1; [reflexivity|]. apply N.leb_gt in E1.
    destruct (pow2_ge2_fuel (b - a) f' ltac:(lia) H2) as [f1 ->].
    rewrite of_nat_S in H1, H2.
    pose proof (half_bounds (b - a) (N.of_nat f) ltac:(lia) H1) as (A1 & A2 & A3 & A4 & A5).
    pose proof (half_bounds (b - a) (N.of_nat f1) ltac:(lia) H2) as (B1 & B2 & B3 & B4 & B5).
    cbv zeta in *. set (h := next_pow2 (b - a) / 2) in *.
    rewrite (IH f1 a (a + h) false) by lia. rewrite (IH f1 (a + h) b false) by lia. reflexivity.
Qed.

Lemma cv_unfold (data : bytes) a b r : 2 <= b - a -> b - a <= 2 ^ 63 ->
  cv HO data a b r =
  parent_cv HO (cv HO data a (a + next_pow2 (b - a) / 2) false)
               (cv HO data (a + next_pow2 (b - a) / 2) b false) r.
Proof.
  intros H1 H2. unfold cv. rewrite cv_rec_unfold.
  assert (E : (b - a <=? 1) = false) by (apply N.leb_gt; lia). rewrite E.
  pose proof (half_bounds (b - a) 62 ltac:(lia) H2) as (A1 & A2 & A3 & A4 & A5).
  cbv zeta in *. set (h := next_pow2 (b - a) / 2) in *.
  assert (P : 2 ^ 62 <= 2 ^ 63) by (apply pow2_le_mono; lia).
  assert (E1 : cv_rec HO 63 data a (a + h) false = cv_rec HO 64 data a (a + h) false).
  { apply (cv_rec_fuel data 62 63); change (N.of_nat 62) with 62; change (N.of_nat 63) with 63; lia. }
  assert (E2 : cv_rec HO 63 data (a + h) b false = cv_rec HO 64 data (a + h) b false).
  { apply (cv_rec_fuel data 62 63); change (N.of_nat 62) with 62; change (N.of_nat 63) with 63; lia. }
  rewrite E1, E2. reflexivity.
Qed.

Lemma chunk_bytes_take' (data : bytes) a b h : a <= b -> h <= b - a ->
  take HO (h * 1024) (chunk_bytes HO data a b) = chunk_bytes HO data a (a + h).
Proof.
  intros H0 H. rewrite <- (chunk_bytes_take HO data a (a + h) b) by lia. f_equal. lia.
Qed.
Lemma chunk_bytes_drop' (data : bytes) a b h : a <= b -> h <= b - a ->
  drop HO (h * 1024) (chunk_bytes HO data a b) = chunk_bytes HO data (a + h) b.
Proof.
  intros H0 H. rewrite <- (chunk_bytes_drop HO data a (a + h) b) by lia. f_equal. lia.
Qed.

(* the byte-list recursion and the chunk-interval recursion agree inside the blob *)
Lemma subtree_cv_rec (data : bytes) : forall f a b r,
  a < b -> b <= nchunks (blen HO data) ->
  subtree_cv HO f a (chunk_bytes HO data a b) r = cv_rec HO f data a b r.
Proof.
  induction f as [|f IH]; intros a b r Hab Hb; [reflexivity|].
  rewrite cv_rec_unfold. cbn [subtree_cv]. cbv zeta. rewrite blen_chunk_bytes.
  pose proof (nchunks_bounds (blen HO data)) as (B1 & B2 & B3).
  set (n := nchunks (blen HO data)) in *. set (size := blen HO data) in *.
  destruct (b - a <=? 1) eqn:E1.
  - apply N.leb_le in E1.
    assert (E : (N.min ((b - a) * 1024) (size - a * 1024) <=? 1024) = true) by (apply N.leb_le; lia).
    rewrite E. reflexivity.
  - apply N.leb_gt in E1.
    assert (E : (N.min ((b - a) * 1024) (size - a * 1024) <=? 1024) = false) by (apply N.leb_gt; lia).
    rewrite E.
    assert (En : (N.min ((b - a) * 1024) (size - a * 1024) + 1023) / 1024 = b - a) by lia.
    rewrite En.
    destruct (np2_half (b - a) ltac:(lia)) as (k & _ & Eh & K1 & _).
    pose proof (pow2_ge1 k).
    set (h := next_pow2 (b - a) / 2) in *.
    rewrite chunk_bytes_take', chunk_bytes_drop' by lia.
    rewrite !IH by lia. reflexivity.
Qed.

Lemma hash_subtree_cv (data : bytes) a b r :
  a < b -> b <= nchunks (blen HO data) ->
  hash_subtree HO a (chunk_bytes HO data a b) r = cv HO data a b r.
Proof. intros. unfold hash_subtree, cv. now apply subtree_cv_rec. Qed.

(* is_skip of the spec tree *)
Lemma st_is_skip f (data : bytes) bs Sel a b r :
  is_skip HO (st_rec HO (S f) data bs Sel a b r) = negb (existsb Sel (chunk_range_list a b)).
Proof.
  cbn [st_rec]. cbv zeta.
  destruct (existsb Sel (chunk_range_list a b)); cbn [negb]; [|reflexivity].
  destruct (b - a <=? 1); [reflexivity|].
  destruct (forallb Sel (chunk_range_list a b) && (next_pow2 (b - a) <=? 2 ^ bs)); reflexivity.
Qed.

Lemma st_cv_of f (data : bytes) bs Sel a b r :
  a < b -> b <= nchunks (blen HO data) -> b - a <= 2 ^ 63 ->
  is_skip HO (st_rec HO f data bs Sel a b r) = false ->
  cv_of HO (st_rec HO f data bs Sel a b r) = cv HO data a b r.
Proof.
  intros Hab Hb Hsz. destruct f as [|f]; [cbn [st_rec is_skip]; discriminate|].
  cbn [st_rec]. cbv zeta.
  destruct (existsb Sel (chunk_range_list a b)); cbn [negb]; [|cbn [is_skip]; discriminate].
  destruct (b - a <=? 1) eqn:E1.
  - intros _. cbn [cv_of]. now apply hash_subtree_cv.
  - apply N.leb_gt in E1.
    destruct (forallb Sel (chunk_range_list a b) && (next_pow2 (b - a) <=? 2 ^ bs)); intros _; cbn [cv_of].
    + now apply hash_subtree_cv.
    + symmetry. apply cv_unfold; lia.
Qed.

Lemma wf_nonempty_hd q : wf_ranges q = true -> q <> [] -> exists x t, q = x :: t /\ Forall (fun y => x < y) t.
Proof.
  intros Hwf Hne. destruct q as [|x t]; [congruence|]. exists x, t. split; [reflexivity|].
  apply wf_iff in Hwf. destruct Hwf as [Hs _]. now apply ss_head_lt.
Qed.

(* a non-empty well-formed query selects a chunk *)
Lemma sel_exists q size : wf_ranges q = true -> q <> [] -> exists c, sel q size c = true.
Proof.
  intros Hwf Hne. destruct (wf_nonempty_hd q Hwf Hne) as (x & t & -> & Hgt).
  pose proof (nchunks_bounds size) as (B1 & _).
  set (n := nchunks size) in *.
  destruct (N.lt_ge_cases x n) as [L|L].
  - exists x. unfold sel. fold n. assert (E : (x <? n) = true) by (apply N.ltb_lt; lia). rewrite E. cbn [andb].
    cbn [mem]. rewrite N.leb_refl.
    assert (M : mem t x = false).
    { rewrite mem_cnt, cnt_all_gt by assumption. reflexivity. }
    rewrite M. reflexivity.
  - exists (n - 1). unfold sel. fold n. assert (E : (n - 1 <? n) = true) by (apply N.ltb_lt; lia). rewrite E. cbn [andb].
    rewrite N.eqb_refl. cbn [andb]. apply orb_true_iff. right.
    apply wf_iff in Hwf. destruct Hwf as [Hs _].
    rewrite reaches_cnt by assumption.
    destruct (Nat.odd (length (x :: t))) eqn:Eo; [reflexivity|]. cbn [orb].
    apply Nat.ltb_lt. cbn [cnt length].
    destruct (x <=? n) eqn:E2.
    + apply N.leb_le in E2. assert (x = n) by lia. subst x.
      rewrite cnt_all_gt by assumption. destruct t as [|y t']; [discriminate Eo | cbn [length]; lia].
    + apply N.leb_gt in E2. lia.
Qed.

Lemma sel_exists_list q size : wf_ranges q = true -> q <> [] ->
  existsb (sel q size) (chunk_range_list 0 (nchunks size)) = true.
Proof.
  intros Hwf Hne. destruct (sel_exists q size Hwf Hne) as [c Hc].
  apply existsb_exists. exists c. split; [|assumption]. apply crl_in.
  unfold sel in Hc. apply andb_true_iff in Hc. destruct Hc as [Hc _]. apply N.ltb_lt in Hc. lia.
Qed.

Lemma bridge_cv (data : bytes) bs q :
  wf_ranges q = true -> q <> [] -> blen HO data <= 2 ^ 63 ->
  cv_of HO (spec_tree HO data bs q) = root_hash HO data.
Proof.
  intros Hwf Hne Hs. unfold spec_tree, root_hash, blob_chunks.
  pose proof (nchunks_small _ Hs) as Hn. pose proof (nchunks_bounds (blen HO data)) as (B1 & _).
  assert (P : 2 ^ 53 <= 2 ^ 63) by (apply pow2_le_mono; lia).
  apply st_cv_of; try lia.
  change 64%nat with (S 63). rewrite st_is_skip, sel_exists_list by assumption. reflexivity.
Qed.

(* ---- 4. consistency ---- *)
Hypothesis Hlen : cv_len32 HO.

Lemma cv_rec_len (data : bytes) : forall f a b r, b - a <= 2 ^ N.of_nat f ->
  length (cv_rec HO (S f) data a b r) = 32%nat.
Proof.
  induction f as [|f IH]; intros a b r H; rewrite cv_rec_unfold.
  - change (2 ^ N.of_nat 0) with 1 in H. assert (E : (b - a <=? 1) = true) by (apply N.leb_le; lia). rewrite E.
    apply (Hlen (InChunk HO a (chunk_bytes HO data a b) r)). cbn [valid_input].
    pose proof (blen_chunk_bytes HO data a b) as L. unfold blen in L. lia.
  - destruct (b - a <=? 1) eqn:E1.
    + apply (Hlen (InChunk HO a (chunk_bytes HO data a b) r)). cbn [valid_input].
      apply N.leb_le in E1. pose proof (blen_chunk_bytes HO data a b) as L. unfold blen in L. lia.
    + apply N.leb_gt in E1. rewrite of_nat_S in H.
      pose proof (half_bounds (b - a) (N.of_nat f) ltac:(lia) H) as (A1 & A2 & A3 & A4 & A5).
      cbv zeta in *. set (h := next_pow2 (b - a) / 2) in *.
      apply (Hlen (InParent HO _ _ r)). cbn [valid_input]. split; apply IH; lia.
Qed.

Lemma cv_len (data : bytes) a b r : b - a <= 2 ^ 63 -> length (cv HO data a b r) = 32%nat.
Proof. intro H. unfold cv. apply (cv_rec_len data 63). exact H. Qed.

Lemma consistent_st_rec (data : bytes) bs Sel : forall f a b r,
  b <= nchunks (blen HO data) -> b - a <= 2 ^ 63 ->
  consistent HO (st_rec HO f data bs Sel a b r).
Proof.
  induction f as [|f IH]; intros a b r Hb Hsz; [exact I|].
  cbn [st_rec]. cbv zeta.
  destruct (existsb Sel (chunk_range_list a b)) eqn:Eex; cbn [negb]; [|exact I].
  apply exists_nonempty in Eex.
  destruct (b - a <=? 1) eqn:E1; [exact I|]. apply N.leb_gt in E1.
  destruct (forallb Sel (chunk_range_list a b) && (next_pow2 (b - a) <=? 2 ^ bs)); [exact I|].
  pose proof (half_bounds (b - a) 62 ltac:(lia) Hsz) as (A1 & A2 & A3 & A4 & A5).
  cbv zeta in *. set (h := next_pow2 (b - a) / 2) in *.
  cbn [consistent]. repeat split.
  - apply cv_len. lia.
  - apply cv_len. lia.
  - apply st_cv_of; lia.
  - apply st_cv_of; lia.
  - apply IH; lia.
  - apply IH; lia.
Qed.

Lemma bridge_consistent (data : bytes) bs q :
  blen HO data <= 2 ^ 63 -> consistent HO (spec_tree HO data bs q).
Proof.
  intro Hs. unfold spec_tree, blob_chunks. pose proof (nchunks_small _ Hs) as Hn.
  assert (P : 2 ^ 53 <= 2 ^ 63) by (apply pow2_le_mono; lia).
  apply consistent_st_rec; lia.
Qed.

End BridgeTree.

(* ---- leaves of a plan tree ---- *)
Section Leaves.
Variable HO : hops.
Notation bytes := (bytes HO).

Fixpoint leaf_in (t : ptree HO) (s : N) (r : bool) (d : bytes) : Prop :=
  match t with
  | PSkip => False
  | PLeaf s' r' d' => s' = s /\ r' = r /\ d' = d
  | PNode _ _ _ _ l rr => leaf_in l s r d \/ leaf_in rr s r d
  end.

Lemma leaves_st_rec (data : bytes) bs Sel s r d : forall f a b r0,
  a <= b ->
  leaf_in (st_rec HO f data bs Sel a b r0) s r d ->
  exists e, a <= s /\ s < e /\ e <= b /\ e - s <= 2 ^ bs /\ d = chunk_bytes HO data s e /\
            (forall c, s <= c < e -> Sel c = true).
Proof.
  induction f as [|f IH]; intros a b r0 Hab; [intros []|].
  cbn [st_rec]. cbv zeta.
  destruct (existsb Sel (chunk_range_list a b)) eqn:Eex; cbn [negb]; [|intros []].
  pose proof (exists_nonempty _ _ _ Eex) as Hlt.
  destruct (b - a <=? 1) eqn:E1.
  - apply N.leb_le in E1. cbn [leaf_in]. intros (<- & _ & <-). exists b. pose proof (pow2_ge1 bs).
    repeat split; try lia. intros c Hc. assert (c = a) by lia. subst c.
    apply existsb_exists in Eex. destruct Eex as (c & Hin & Hc'). apply crl_in in Hin.
    assert (c = a) by lia. now subst c.
  - apply N.leb_gt in E1.
    destruct (forallb Sel (chunk_range_list a b)) eqn:Efa; cbn [andb].
    + destruct (next_pow2 (b - a) <=? 2 ^ bs) eqn:Ecap.
      * apply N.leb_le in Ecap. cbn [leaf_in]. intros (<- & _ & <-). exists b.
        destruct (np2_spec (b - a) ltac:(lia)) as (k & Ek & K1 & _).
        repeat split; try lia. intros c Hc. rewrite forallb_forall in Efa. apply Efa. apply crl_in. lia.
      * destruct (np2_half (b - a) ltac:(lia)) as (k & _ & Eh & K1 & _). pose proof (pow2_ge1 k) as Hk1.
        cbn [leaf_in]. intros [H|H]; apply IH in H; try lia;
          destruct H as (e & H1 & H2 & H3 & H4 & H5 & H6); exists e; repeat split; try assumption; lia.
    + destruct (np2_half (b - a) ltac:(lia)) as (k & _ & Eh & K1 & _). pose proof (pow2_ge1 k) as Hk1.
      cbn [leaf_in]. intros [H|H]; apply IH in H; try lia;
        destruct H as (e & H1 & H2 & H3 & H4 & H5 & H6); exists e; repeat split; try assumption; lia.
Qed.

Lemma spec_tree_unfold (data : bytes) bs q :
  spec_tree HO data bs q = st_rec HO 64 data bs (sel q (blen HO data)) 0 (nchunks (blen HO data)) true.
Proof. reflexivity. Qed.

(* the side facts a decoder proof needs about the leaves of the spec tree *)
Lemma bridge_leaves (data : bytes) bs q s r d :
  let size := blen HO data in
  size <= 2 ^ 63 ->
  leaf_in (spec_tree HO data bs q) s r d ->
  blen HO d <= 2 ^ bs * 1024 /\ s < 2 ^ 54 /\
  exists e, s < e /\ e <= nchunks size /\ e - s <= 2 ^ bs /\
            d = chunk_bytes HO data s e /\ blen HO d = span_bytes size s e /\
            (forall c, s <= c < e -> sel q size c = true).
Proof.
  cbn zeta. intros Hs H. rewrite spec_tree_unfold in H.
  pose proof (leaves_st_rec data bs (sel q (blen HO data)) s r d 64 0 (nchunks (blen HO data)) true ltac:(lia) H)
    as (e & H1 & H2 & H3 & H4 & H5 & H6).
  pose proof (nchunks_small _ Hs) as Hn.
  assert (P : 2 ^ 53 < 2 ^ 54) by (apply N.pow_lt_mono_r; lia).
  split; [|split; [lia|]].
  - rewrite H5, blen_chunk_bytes. nia.
  - exists e. repeat split; try assumption.
    rewrite H5. symmetry. apply span_chunk_bytes; lia.
Qed.
End Leaves.
