(* C10 gap closure (1): a reader whose k-th read call fails, under the WHOLE runs: the sync and the fsm
   decoder (items are a prefix of the fault-free run's, the error is the io error / the not-found error
   naming the item being read, the reader is called exactly k+1 times), the fsm decoder step, and the
   outboard creation entry points that read the blob from a stream (written pairs / saved pairs are a
   prefix). *)
From BaoV Require Import Model.IOCalls Proofs.IOReadExact Proofs.IODecodeIndep Proofs.IOSinkFaults Proofs.ObCreate.
From Coq Require Import Lia.

Arguments N.mul : simpl never. Arguments N.add : simpl never. Arguments N.sub : simpl never.

(* ---- two runs in lock step until the first one stops early ---- *)
Lemma steps_early {S1 S2 R1 R2} (RS : S1 -> S2 -> Prop) (RR : R1 -> R2 -> Prop) (RE : R1 -> S2 -> Prop)
      (f : S1 -> S1 + R1) (g : S2 -> S2 + R2) :
  (forall s t, RS s t -> sum_rel RS RR (f s) (g t) \/ exists x, f s = inr x /\ RE x t) ->
  forall n s t, RS s t ->
    sum_rel RS RR (steps n f s) (steps n g t) \/
    exists m t' x, (m < n)%nat /\ steps m g t = inl t' /\ steps n f s = inr x /\ RE x t'.
Proof.
  intros H. induction n as [|n IH]; intros s t Hst.
  - left. exact Hst.
  - cbn [steps]. destruct (H s t Hst) as [Hl | (x & Hx & He)].
    + unfold sum_rel in Hl. destruct (f s) as [s1|r1] eqn:Ef, (g t) as [t1|r2] eqn:Eg; try contradiction.
      * destruct (IH s1 t1 Hl) as [Hl' | (m & t' & x & Hm & Hs & Hfx & He)].
        -- left. exact Hl'.
        -- right. exists (Datatypes.S m), t', x. split; [lia|]. cbn [steps]. rewrite Eg. now repeat split.
      * left. exact Hl.
    + right. exists 0%nat, t, x. split; [lia|]. split; [reflexivity|]. rewrite Hx. now split.
Qed.

Section ReadFault.
Variable HO : hops.
Notation bytes := (bytes HO).
Notation hash := (hash HO).
Notation item := (item HO).
Notation reader := (reader HO).
Notation blen := (blen HO).
Notation take := (take HO).
Notation drop := (drop HO).

(* what an exact read returns when the reader has a fault ahead *)
Lemma exact_cases (f : reader -> N -> res io_kind bytes * reader) r len k kind :
  exact_spec HO f r len -> rd_fail HO r = Some (k, kind) ->
  exists x r', f r len = (x, r') /\ rd_fail HO r' = Some (k, kind) /\ suffix (rd_sched HO r') (rd_sched HO r) /\
    ((x = Err kind /\ rd_calls HO r' = k + 1) \/
     (rd_calls HO r' <= k /\ len <= blen (rd_rest HO r) /\ x = Ok (take len (rd_rest HO r)) /\
      rd_rest HO r' = drop len (rd_rest HO r)) \/
     (rd_calls HO r' <= k /\ blen (rd_rest HO r) < len /\ x = Err KUnexpectedEof)).
Proof.
  intros (x & r' & He & Hf & Hs & Hc & Hp) Hfk. exists x, r'. split; [exact He|]. split; [congruence|].
  split; [exact Hs|].
  destruct Hp as [(k' & kind' & Hfk' & Hx & Hck) | (Hb & [(Hle & Hx & Hr) | (Hlt & Hx)])].
  - left. rewrite Hfk in Hfk'. injection Hfk' as <- <-. now split.
  - right. left. cbn [app] in Hx. repeat split; try assumption. now apply (Hb k kind).
  - right. right. repeat split; try assumption. now apply (Hb k kind).
Qed.

Lemma fail_ok_ahead (r : reader) k kind :
  rd_fail HO r = Some (k, kind) -> kind <> KInterrupted -> rd_calls HO r <= k -> fail_ok HO r.
Proof. intros Hf Hk Hc k' kind' Hf'. rewrite Hf in Hf'. injection Hf' as <- <-. now split. Qed.

(* the error a failing read of the item c turns into *)
Definition read_err (kind : io_kind) (c : chunk) : dec_err :=
  match c with
  | CParent node _ _ _ _ => maybe_parent_not_found kind node
  | CLeaf start _ _ _ => maybe_leaf_not_found kind start
  end.

(* ================= sync decoder ================= *)
Definition frel (k : N) (kind : io_kind) (a : dstate_r HO) (b : dstate HO) : Prop :=
  dr_inner HO a = d_inner HO b /\ dr_stack HO a = d_stack HO b /\ rd_rest HO (dr_rd HO a) = d_enc HO b /\
  rd_fail HO (dr_rd HO a) = Some (k, kind) /\ rd_calls HO (dr_rd HO a) <= k.
Definition frel_after (k : N) (kind : io_kind) (x : res dec_err item) (a : dstate_r HO) (b : dstate HO) : Prop :=
  dr_inner HO a = d_inner HO b /\ dr_stack HO a = d_stack HO b /\
  rd_fail HO (dr_rd HO a) = Some (k, kind) /\ rd_calls HO (dr_rd HO a) <= k /\
  (is_not_found HO x = false -> rd_rest HO (dr_rd HO a) = d_enc HO b).

Lemma dec_next_fault_sim k kind a b : kind <> KInterrupted -> frel k kind a b ->
  (exists c a', response_next (dr_inner HO a) = Some (c, dr_inner HO a') /\
                dec_next_r HO a = Some (Err (read_err kind c), a') /\ rd_calls HO (dr_rd HO a') = k + 1) \/
  match dec_next_r HO a, dec_next HO b with
  | None, None => True
  | Some (x, a'), Some (y, b') => x = y /\ frel_after k kind x a' b'
  | _, _ => False
  end.
Proof.
  intros Hk. destruct a as [inner stack rd], b as [inner' stack' enc]. unfold frel.
  cbn [dr_inner dr_stack dr_rd d_inner d_stack d_enc].
  intros (<- & <- & Hrest & Hf & Hc). unfold dec_next_r, dec_next. cbn [dr_inner dr_stack dr_rd d_inner d_stack d_enc].
  pose proof (fail_ok_ahead rd k kind Hf Hk Hc) as Hok.
  destruct (response_next inner) as [[c inner1]|] eqn:En; [|right; exact I].
  destruct c as [node is_root lf rt rs | start size is_root rs].
  - destruct (exact_cases (read_exact_sync HO) rd 64 k kind (read_exact_sync_spec HO rd 64 Hok) Hf)
      as (x & rd' & Er & Hf' & _ & [(Hx & Hc') | [(Hc' & Hle & Hx & Hr') | (Hc' & Hlt & Hx)]]); rewrite Er; subst x.
    + left. exists (CParent node is_root lf rt rs), (mkDR HO inner1 stack rd'). cbn [dr_inner dr_rd read_err]. now repeat split.
    + right. rewrite <- Hrest. replace (blen (rd_rest HO rd) <? 64) with false by (symmetry; apply N.ltb_ge; exact Hle).
      destruct (parse_pair HO (take 64 (rd_rest HO rd))) as [l r].
      destruct stack as [|ph stk].
      * split; [reflexivity|]. unfold frel_after. cbn. now repeat split.
      * destruct (negb (bytes_eqb HO ph (parent_cv HO l r is_root))).
        -- split; [reflexivity|]. unfold frel_after. cbn. now repeat split.
        -- split; [reflexivity|]. unfold frel_after. cbn. now repeat split.
    + right. rewrite <- Hrest. replace (blen (rd_rest HO rd) <? 64) with true by (symmetry; apply N.ltb_lt; exact Hlt).
      split; [reflexivity|]. unfold frel_after. cbn. repeat split; try assumption. discriminate.
  - destruct (exact_cases (read_exact_sync HO) rd size k kind (read_exact_sync_spec HO rd size Hok) Hf)
      as (x & rd' & Er & Hf' & _ & [(Hx & Hc') | [(Hc' & Hle & Hx & Hr') | (Hc' & Hlt & Hx)]]); rewrite Er; subst x.
    + left. exists (CLeaf start size is_root rs), (mkDR HO inner1 stack rd'). cbn [dr_inner dr_rd read_err]. now repeat split.
    + right. rewrite <- Hrest. replace (blen (rd_rest HO rd) <? size) with false by (symmetry; apply N.ltb_ge; exact Hle).
      destruct stack as [|lh stk].
      * split; [reflexivity|]. unfold frel_after. cbn. now repeat split.
      * destruct (negb (bytes_eqb HO lh (hash_subtree HO start (take size (rd_rest HO rd)) is_root))).
        -- split; [reflexivity|]. unfold frel_after. cbn. now repeat split.
        -- split; [reflexivity|]. unfold frel_after. cbn. now repeat split.
    + right. rewrite <- Hrest. replace (blen (rd_rest HO rd) <? size) with true by (symmetry; apply N.ltb_lt; exact Hlt).
      split; [reflexivity|]. unfold frel_after. cbn. repeat split; try assumption. discriminate.
Qed.

(* results of the two runs when they stop together *)
Definition fres_rel (k : N) (x : list item * outcome * dstate_r HO) (y : list item * outcome * dstate HO) : Prop :=
  fst x = fst y /\ rd_calls HO (dr_rd HO (snd x)) <= k.
(* the faulty run stops at the failing read, the fault-free one is in state t *)
Definition fres_early (k : N) (kind : io_kind) (x : list item * outcome * dstate_r HO) (t : dstate HO * list item) : Prop :=
  fst (fst x) = rev (snd t) /\
  exists c inner, response_next inner = Some (c, dr_inner HO (snd x)) /\
    snd (fst x) = Failed (read_err kind c) /\ rd_calls HO (dr_rd HO (snd x)) = k + 1.
Definition frel_acc (k : N) (kind : io_kind) (s : dstate_r HO * list item) (t : dstate HO * list item) : Prop :=
  frel k kind (fst s) (fst t) /\ snd s = snd t.

Lemma dec_step_fault_sim k kind s t : kind <> KInterrupted -> frel_acc k kind s t ->
  sum_rel (frel_acc k kind) (fres_rel k) (dec_step_r HO s) (dec_step_p HO t) \/
  exists x, dec_step_r HO s = inr x /\ fres_early k kind x t.
Proof.
  intros Hk. destruct s as [s acc], t as [t acc']. intros [Hst Hacc]. cbn [fst snd] in *. subst acc'.
  unfold dec_step_r, dec_step_p. cbn [fst snd].
  destruct (dec_next_fault_sim k kind s t Hk Hst) as [(c & s' & Hc1 & Hx & Hc2) | Hn].
  { right. rewrite Hx. eexists. split; [reflexivity|]. unfold fres_early. cbn [fst snd].
    split; [reflexivity|]. exists c, (dr_inner HO s). now repeat split. }
  destruct (dec_next_r HO s) as [[x s']|], (dec_next HO t) as [[y t']|]; try contradiction.
  - destruct Hn as [<- (Hi & Hs & Hf & Hc & Hr)].
    left. destruct x as [it|e|]; unfold sum_rel.
    + split; [|reflexivity]. cbn [fst]. unfold frel. repeat split; try assumption. now apply Hr.
    + unfold fres_rel. cbn [fst snd]. now split.
    + unfold fres_rel. cbn [fst snd]. now split.
  - left. unfold sum_rel, fres_rel. cbn [fst snd]. destruct Hst as (Hi & Hs & Hr & Hf & Hc). now split.
Qed.

Definition fin_r (x : dstate_r HO * list item + list item * outcome * dstate_r HO) : list item * outcome * dstate_r HO :=
  match x with inr r => r | inl sa => (rev (snd sa), OutOfFuel, fst sa) end.
Definition fin_pl (x : dstate HO * list item + list item * outcome * dstate HO) : list item * outcome * dstate HO :=
  match x with inr r => r | inl sa => (rev (snd sa), OutOfFuel, fst sa) end.

(* the items of a run extend the accumulator it starts from *)
Lemma dec_steps_extend : forall j b acc,
  exists more, fst (fst (fin_pl (steps j (dec_step_p HO) (b, acc)))) = rev acc ++ more.
Proof.
  induction j as [|j IH]; intros b acc.
  - exists []. cbn [steps fin_pl fst snd]. now rewrite app_nil_r.
  - cbn [steps]. unfold dec_step_p at 1. cbn [fst snd].
    destruct (dec_next HO b) as [[[it|e|] b']|].
    + destruct (IH b' (it :: acc)) as [more Hm]. exists (it :: more). rewrite Hm. cbn [rev]. now rewrite <- app_assoc.
    + exists []. cbn [fin_pl fst]. now rewrite app_nil_r.
    + exists []. cbn [fin_pl fst]. now rewrite app_nil_r.
    + exists []. cbn [fin_pl fst]. now rewrite app_nil_r.
Qed.

(* what the two results have to do with each other *)
Definition fault_concl (k : N) (kind : io_kind)
    (x : list item * outcome * dstate_r HO) (y : list item * outcome * dstate HO) : Prop :=
  (fst x = fst y /\ rd_calls HO (dr_rd HO (snd x)) <= k) \/
  (exists more c inner,
     fst (fst y) = fst (fst x) ++ more /\
     response_next inner = Some (c, dr_inner HO (snd x)) /\
     snd (fst x) = Failed (match c with
                           | CParent node _ _ _ _ => maybe_parent_not_found kind node
                           | CLeaf start _ _ _ => maybe_leaf_not_found kind start
                           end) /\
     rd_calls HO (dr_rd HO (snd x)) = k + 1).

Lemma dec_run_fault_steps k kind (n : nat) a b : kind <> KInterrupted -> frel k kind a b ->
  fault_concl k kind (fin_r (steps n (dec_step_r HO) (a, []))) (fin_pl (steps n (dec_step_p HO) (b, []))).
Proof.
  intros Hk Hab. unfold fault_concl.
  destruct (steps_early (frel_acc k kind) (fres_rel k) (fres_early k kind) (dec_step_r HO) (dec_step_p HO)
              (fun s t H => dec_step_fault_sim k kind s t Hk H) n (a, []) (b, []) (conj Hab eq_refl))
    as [Hl | (m & t' & x & Hm & Hs & Hfx & He)].
  - left. unfold sum_rel in Hl.
    destruct (steps n (dec_step_r HO) (a, [])) as [[s acc]|rx],
             (steps n (dec_step_p HO) (b, [])) as [[t acc']|ry]; try contradiction.
    + destruct Hl as [(Hi & Hs & Hr & Hf & Hc) Hacc]. cbn [fst snd] in *. subst acc'. cbn [fin_r fin_pl fst snd]. now split.
    + exact Hl.
  - right. rewrite Hfx. cbn [fin_r].
    replace n with (m + (n - m))%nat by lia. rewrite steps_add, Hs.
    destruct t' as [t1 acc1]. destruct He as (Hit & c & inner & Hn & Ho & Hc).
    destruct (dec_steps_extend (n - m) t1 acc1) as [more Hmore].
    exists more, c, inner. rewrite Hmore, Hit. cbn [snd]. now repeat split.
Qed.

Lemma dec_run_fault_d k kind (d : nat) a b : kind <> KInterrupted -> frel k kind a b ->
  fault_concl k kind
    (match loop2 d (dec_step_r HO) (a, []) with inr r => r | inl sa => (rev (snd sa), OutOfFuel, fst sa) end)
    (match loop2 d (dec_step_p HO) (b, []) with inr r => r | inl sa => (rev (snd sa), OutOfFuel, fst sa) end).
Proof.
  intros Hk Hab. rewrite !loop2_steps. exact (dec_run_fault_steps k kind (Nat.pow 2 d) a b Hk Hab).
Qed.

Lemma dec_run_fault k kind a b : kind <> KInterrupted -> frel k kind a b ->
  fault_concl k kind (dec_run_r HO a) (dec_run HO b).
Proof. exact (dec_run_fault_d k kind LOOP_DEPTH a b). Qed.

Lemma frel_init root t (stream : bytes) (sched : list ev) q k kind :
  frel k kind (dec_new_r HO root t (mkRd HO stream sched 0 (Some (k, kind))) q) (dec_new HO root t stream q).
Proof.
  unfold frel, dec_new_r, dec_new. cbn [dr_inner dr_stack dr_rd d_inner d_stack d_enc rd_rest rd_fail rd_calls].
  repeat split. lia.
Qed.

Theorem dec_run_read_fault root t (stream : bytes) (sched : list ev) q k kind :
  kind <> KInterrupted ->
  let x := dec_run_r HO (dec_new_r HO root t (mkRd HO stream sched 0 (Some (k, kind))) q) in
  let y := dec_run HO (dec_new HO root t stream q) in
  (fst x = fst y /\ rd_calls HO (dr_rd HO (snd x)) <= k) \/
  (exists more c inner,
     fst (fst y) = fst (fst x) ++ more /\
     response_next inner = Some (c, dr_inner HO (snd x)) /\
     snd (fst x) = Failed (match c with
                           | CParent node _ _ _ _ => maybe_parent_not_found kind node
                           | CLeaf start _ _ _ => maybe_leaf_not_found kind start
                           end) /\
     rd_calls HO (dr_rd HO (snd x)) = k + 1).
Proof. intros Hk x y. exact (dec_run_fault k kind _ _ Hk (frel_init root t stream sched q k kind)). Qed.

End ReadFault.

(* ================= fsm decoder ================= *)
Section ReadFaultFsm.
Variable HO : hops.
Notation bytes := (bytes HO).
Notation hash := (hash HO).
Notation item := (item HO).
Notation reader := (reader HO).
Notation blen := (blen HO).
Notation take := (take HO).
Notation drop := (drop HO).

Definition grel (k : N) (kind : io_kind) (a : rstate_r HO) (b : rstate HO) : Prop :=
  rr_iter HO a = r_iter HO b /\ rr_stack HO a = r_stack HO b /\ rd_rest HO (rr_rd HO a) = r_enc HO b /\
  rd_fail HO (rr_rd HO a) = Some (k, kind) /\ rd_calls HO (rr_rd HO a) <= k /\ no_intr HO (rr_rd HO a).
Definition grel_after (k : N) (kind : io_kind) (x : res dec_err item) (a : rstate_r HO) (b : rstate HO) : Prop :=
  rr_iter HO a = r_iter HO b /\ rr_stack HO a = r_stack HO b /\
  rd_fail HO (rr_rd HO a) = Some (k, kind) /\ rd_calls HO (rr_rd HO a) <= k /\ no_intr HO (rr_rd HO a) /\
  (is_not_found HO x = false -> rd_rest HO (rr_rd HO a) = r_enc HO b).

(* the fsm decoder step whose stream read is the failing call *)
Lemma rd_next_fault_sim k kind a b : kind <> KInterrupted -> grel k kind a b ->
  (exists c a', response_next (rr_iter HO a) = Some (c, rr_iter HO a') /\
                rd_next_r HO a = Some (Err (read_err kind c), a') /\ rd_calls HO (rr_rd HO a') = k + 1 /\
                rr_stack HO a' = rr_stack HO a) \/
  match rd_next_r HO a, rd_next HO b with
  | None, RDone _ => True
  | Some (x, a'), RMore b' y => x = y /\ grel_after k kind x a' b'
  | _, _ => False
  end.
Proof.
  intros Hk. destruct a as [iter stack rd], b as [iter' stack' enc root]. unfold grel.
  cbn [rr_iter rr_stack rr_rd r_iter r_stack r_enc].
  intros (<- & <- & Hrest & Hf & Hc & Hni). unfold rd_next_r, rd_next. cbn [rr_iter rr_stack rr_rd r_iter r_stack r_enc r_root].
  pose proof (fail_ok_ahead HO rd k kind Hf Hk Hc) as Hok.
  destruct (response_next iter) as [[c iter1]|] eqn:En; [|right; exact I].
  destruct c as [node is_root lf rt rs | start size is_root rs].
  - destruct (exact_cases HO (tokio_read_n HO) rd 64 k kind (tokio_read_n_spec HO rd 64 Hok Hni) Hf)
      as (x & rd' & Er & Hf' & Hs' & [(Hx & Hc') | [(Hc' & Hle & Hx & Hr') | (Hc' & Hlt & Hx)]]); rewrite Er; subst x;
      pose proof (no_intr_suffix HO rd rd' Hs' Hni) as Hni'.
    + left. exists (CParent node is_root lf rt rs), (mkRR HO iter1 stack rd'). cbn [rr_iter rr_rd rr_stack read_err]. now repeat split.
    + right. rewrite <- Hrest. replace (blen (rd_rest HO rd) <? 64) with false by (symmetry; apply N.ltb_ge; exact Hle).
      destruct (parse_pair HO (take 64 (rd_rest HO rd))) as [l r].
      destruct stack as [|ph stk].
      * split; [reflexivity|]. unfold grel_after. cbn. now repeat split.
      * destruct (negb (bytes_eqb HO ph (parent_cv HO l r is_root))).
        -- split; [reflexivity|]. unfold grel_after. cbn. now repeat split.
        -- split; [reflexivity|]. unfold grel_after. cbn. now repeat split.
    + right. rewrite <- Hrest. replace (blen (rd_rest HO rd) <? 64) with true by (symmetry; apply N.ltb_lt; exact Hlt).
      split; [reflexivity|]. unfold grel_after. cbn. repeat split; try assumption. discriminate.
  - destruct (exact_cases HO (tokio_read_bytes_exact HO) rd size k kind (tokio_read_bytes_exact_spec HO rd size Hok Hni) Hf)
      as (x & rd' & Er & Hf' & Hs' & [(Hx & Hc') | [(Hc' & Hle & Hx & Hr') | (Hc' & Hlt & Hx)]]); rewrite Er; subst x;
      pose proof (no_intr_suffix HO rd rd' Hs' Hni) as Hni'.
    + left. exists (CLeaf start size is_root rs), (mkRR HO iter1 stack rd'). cbn [rr_iter rr_rd rr_stack read_err]. now repeat split.
    + right. rewrite <- Hrest. replace (blen (rd_rest HO rd) <? size) with false by (symmetry; apply N.ltb_ge; exact Hle).
      destruct stack as [|lh stk].
      * split; [reflexivity|]. unfold grel_after. cbn. now repeat split.
      * destruct (negb (bytes_eqb HO lh (hash_subtree HO start (take size (rd_rest HO rd)) is_root))).
        -- split; [reflexivity|]. unfold grel_after. cbn. now repeat split.
        -- split; [reflexivity|]. unfold grel_after. cbn. now repeat split.
    + right. rewrite <- Hrest. replace (blen (rd_rest HO rd) <? size) with true by (symmetry; apply N.ltb_lt; exact Hlt).
      split; [reflexivity|]. unfold grel_after. cbn. repeat split; try assumption. discriminate.
Qed.

(* the step on its own, as C10_decoder_read_fault states it for the sync decoder *)
Theorem rd_next_r_read_fault (st : rstate_r HO) k kind c iter' :
  response_next (rr_iter HO st) = Some (c, iter') ->
  rd_fail HO (rr_rd HO st) = Some (k, kind) -> kind <> KInterrupted -> rd_calls HO (rr_rd HO st) = k ->
  (forall e, In e (rd_sched HO (rr_rd HO st)) -> e <> EIntr) ->
  0 < chunk_size c ->
  exists e rd', rd_next_r HO st = Some (Err e, mkRR HO iter' (rr_stack HO st) rd') /\
    rd_calls HO rd' = k + 1 /\ rd_rest HO rd' = rd_rest HO (rr_rd HO st) /\
    e = match c with CParent node _ _ _ _ => maybe_parent_not_found kind node
                   | CLeaf start _ _ _ => maybe_leaf_not_found kind start end.
Proof.
  intros Hn Hf Hk Hc Hni Hlen.
  assert (Ef : fails_now HO (rr_rd HO st) = Some kind).
  { unfold fails_now. rewrite Hf, Hc, N.eqb_refl. reflexivity. }
  unfold rd_next_r. rewrite Hn.
  destruct c as [node is_root lf rt rs | start size is_root rs]; cbn [chunk_size] in Hlen.
  - unfold tokio_read_n, rx_fuel. cbn [read_exact_tokio].
    replace (64 =? 0) with false by reflexivity.
    destruct (rd_read_fail HO (rr_rd HO st) 64 kind Ef) as (s' & _ & Hr). rewrite Hr.
    eexists _, _. split; [reflexivity|]. cbn [rd_calls rd_rest]. rewrite Hc. now repeat split.
  - unfold tokio_read_bytes_exact, rx_fuel. cbn [take_read_to_end].
    replace (size =? 0) with false by (symmetry; apply N.eqb_neq; lia).
    destruct (rd_read_fail HO (rr_rd HO st) size kind Ef) as (s' & _ & Hr). rewrite Hr.
    eexists _, _. split; [reflexivity|]. cbn [rd_calls rd_rest]. rewrite Hc. now repeat split.
Qed.

Definition gres_rel (k : N) (x : list item * outcome * rstate_r HO) (y : list item * outcome * rstate HO) : Prop :=
  fst x = fst y /\ rd_calls HO (rr_rd HO (snd x)) <= k.
Definition gres_early (k : N) (kind : io_kind) (x : list item * outcome * rstate_r HO) (t : rstate HO * list item) : Prop :=
  fst (fst x) = rev (snd t) /\
  exists c iter, response_next iter = Some (c, rr_iter HO (snd x)) /\
    snd (fst x) = Failed (read_err kind c) /\ rd_calls HO (rr_rd HO (snd x)) = k + 1.
Definition grel_acc (k : N) (kind : io_kind) (s : rstate_r HO * list item) (t : rstate HO * list item) : Prop :=
  grel k kind (fst s) (fst t) /\ snd s = snd t.

Lemma rd_step_fault_sim k kind s t : kind <> KInterrupted -> grel_acc k kind s t ->
  sum_rel (grel_acc k kind) (gres_rel k) (rd_step_r HO s) (rd_step_p HO t) \/
  exists x, rd_step_r HO s = inr x /\ gres_early k kind x t.
Proof.
  intros Hk. destruct s as [s acc], t as [t acc']. intros [Hst Hacc]. cbn [fst snd] in *. subst acc'.
  unfold rd_step_r, rd_step_p. cbn [fst snd].
  destruct (rd_next_fault_sim k kind s t Hk Hst) as [(c & s' & Hc1 & Hx & Hc2 & _) | Hn].
  { right. rewrite Hx. eexists. split; [reflexivity|]. unfold gres_early. cbn [fst snd].
    split; [reflexivity|]. exists c, (rr_iter HO s). now repeat split. }
  destruct (rd_next_r HO s) as [[x s']|], (rd_next HO t) as [t' y|rest]; try contradiction.
  - destruct Hn as [<- (Hi & Hs & Hf & Hc & Hni & Hr)].
    left. destruct x as [it|e|]; unfold sum_rel.
    + split; [|reflexivity]. cbn [fst]. unfold grel. repeat split; try assumption. now apply Hr.
    + unfold gres_rel. cbn [fst snd]. now split.
    + unfold gres_rel. cbn [fst snd]. now split.
  - left. unfold sum_rel, gres_rel. cbn [fst snd]. destruct Hst as (Hi & Hs & Hr & Hf & Hc & Hni). now split.
Qed.

Definition fin_rr (x : rstate_r HO * list item + list item * outcome * rstate_r HO) : list item * outcome * rstate_r HO :=
  match x with inr r => r | inl sa => (rev (snd sa), OutOfFuel, fst sa) end.
Definition fin_rp (x : rstate HO * list item + list item * outcome * rstate HO) : list item * outcome * rstate HO :=
  match x with inr r => r | inl sa => (rev (snd sa), OutOfFuel, fst sa) end.

Lemma rd_steps_extend : forall j b acc,
  exists more, fst (fst (fin_rp (steps j (rd_step_p HO) (b, acc)))) = rev acc ++ more.
Proof.
  induction j as [|j IH]; intros b acc.
  - exists []. cbn [steps fin_rp fst snd]. now rewrite app_nil_r.
  - cbn [steps]. unfold rd_step_p at 1. cbn [fst snd].
    destruct (rd_next HO b) as [b' [it|e|]|rest].
    + destruct (IH b' (it :: acc)) as [more Hm]. exists (it :: more). rewrite Hm. cbn [rev]. now rewrite <- app_assoc.
    + exists []. cbn [fin_rp fst]. now rewrite app_nil_r.
    + exists []. cbn [fin_rp fst]. now rewrite app_nil_r.
    + exists []. cbn [fin_rp fst]. now rewrite app_nil_r.
Qed.

Definition fault_concl_fsm (k : N) (kind : io_kind)
    (x : list item * outcome * rstate_r HO) (y : list item * outcome * rstate HO) : Prop :=
  (fst x = fst y /\ rd_calls HO (rr_rd HO (snd x)) <= k) \/
  (exists more c iter,
     fst (fst y) = fst (fst x) ++ more /\
     response_next iter = Some (c, rr_iter HO (snd x)) /\
     snd (fst x) = Failed (match c with
                           | CParent node _ _ _ _ => maybe_parent_not_found kind node
                           | CLeaf start _ _ _ => maybe_leaf_not_found kind start
                           end) /\
     rd_calls HO (rr_rd HO (snd x)) = k + 1).

Lemma rd_run_fault_steps k kind (n : nat) a b : kind <> KInterrupted -> grel k kind a b ->
  fault_concl_fsm k kind (fin_rr (steps n (rd_step_r HO) (a, []))) (fin_rp (steps n (rd_step_p HO) (b, []))).
Proof.
  intros Hk Hab. unfold fault_concl_fsm.
  destruct (steps_early (grel_acc k kind) (gres_rel k) (gres_early k kind) (rd_step_r HO) (rd_step_p HO)
              (fun s t H => rd_step_fault_sim k kind s t Hk H) n (a, []) (b, []) (conj Hab eq_refl))
    as [Hl | (m & t' & x & Hm & Hs & Hfx & He)].
  - left. unfold sum_rel in Hl.
    destruct (steps n (rd_step_r HO) (a, [])) as [[s acc]|rx],
             (steps n (rd_step_p HO) (b, [])) as [[t acc']|ry]; try contradiction.
    + destruct Hl as [(Hi & Hs & Hr & Hf & Hc & Hni) Hacc]. cbn [fst snd] in *. subst acc'. cbn [fin_rr fin_rp fst snd]. now split.
    + exact Hl.
  - right. rewrite Hfx. cbn [fin_rr].
    replace n with (m + (n - m))%nat by lia. rewrite steps_add, Hs.
    destruct t' as [t1 acc1]. destruct He as (Hit & c & iter & Hn & Ho & Hc).
    destruct (rd_steps_extend (n - m) t1 acc1) as [more Hmore].
    exists more, c, iter. rewrite Hmore, Hit. cbn [snd]. now repeat split.
Qed.

Lemma rd_run_fault_d k kind (d : nat) a b : kind <> KInterrupted -> grel k kind a b ->
  fault_concl_fsm k kind
    (match loop2 d (rd_step_r HO) (a, []) with inr r => r | inl sa => (rev (snd sa), OutOfFuel, fst sa) end)
    (match loop2 d (rd_step_p HO) (b, []) with inr r => r | inl sa => (rev (snd sa), OutOfFuel, fst sa) end).
Proof.
  intros Hk Hab. rewrite !loop2_steps. exact (rd_run_fault_steps k kind (Nat.pow 2 d) a b Hk Hab).
Qed.

Lemma rd_run_fault k kind a b : kind <> KInterrupted -> grel k kind a b ->
  fault_concl_fsm k kind (rd_run_r HO a) (rd_run HO b).
Proof. exact (rd_run_fault_d k kind LOOP_DEPTH a b). Qed.

Lemma grel_init root q t (stream : bytes) (sched : list ev) k kind :
  (forall e, In e sched -> e <> EIntr) ->
  grel k kind (rd_new_r HO root q t (mkRd HO stream sched 0 (Some (k, kind)))) (rd_new HO root q t stream).
Proof.
  intros Hni. unfold grel, rd_new_r, rd_new. cbn [rr_iter rr_stack rr_rd r_iter r_stack r_enc rd_rest rd_fail rd_calls].
  repeat split; [lia | exact Hni].
Qed.

Theorem rd_run_read_fault root q t (stream : bytes) (sched : list ev) k kind :
  kind <> KInterrupted -> (forall e, In e sched -> e <> EIntr) ->
  let x := rd_run_r HO (rd_new_r HO root q t (mkRd HO stream sched 0 (Some (k, kind)))) in
  let y := rd_run HO (rd_new HO root q t stream) in
  (fst x = fst y /\ rd_calls HO (rr_rd HO (snd x)) <= k) \/
  (exists more c iter,
     fst (fst y) = fst (fst x) ++ more /\
     response_next iter = Some (c, rr_iter HO (snd x)) /\
     snd (fst x) = Failed (match c with
                           | CParent node _ _ _ _ => maybe_parent_not_found kind node
                           | CLeaf start _ _ _ => maybe_leaf_not_found kind start
                           end) /\
     rd_calls HO (rr_rd HO (snd x)) = k + 1).
Proof. intros Hk Hni x y. exact (rd_run_fault k kind _ _ Hk (grel_init root q t stream sched k kind Hni)). Qed.

End ReadFaultFsm.

(* ================= outboard creation from a stream whose k-th read fails ================= *)
Section CreateFault.
Variable HO : hops.
Notation bytes := (bytes HO).
Notation hash := (hash HO).
Notation outboard := (outboard HO).
Notation reader := (reader HO).
Notation blen := (blen HO).
Notation take := (take HO).
Notation drop := (drop HO).

(* outboard_post_order: what has been written only grows *)
Lemma outboard_po_loop_extends : forall items stack (data out : bytes),
  exists more, snd (fst (outboard_po_loop HO items stack data out)) = out ++ more.
Proof.
  induction items as [|c rest IH]; intros stack data out.
  - exists []. cbn [outboard_po_loop]. destruct stack as [|h [|h2 stk]]; cbn [fst snd]; now rewrite app_nil_r.
  - destruct c as [node is_root lf rt rs | start size is_root rs]; cbn [outboard_po_loop].
    + destruct stack as [|rh [|lh stk]]; try (exists []; cbn [fst snd]; now rewrite app_nil_r).
      destruct (IH (parent_cv HO lh rh is_root :: stk) data (out ++ lh ++ rh)) as [more Hm].
      exists ((lh ++ rh) ++ more). rewrite Hm. now rewrite <- !app_assoc.
    + destruct (blen data <? size); [exists []; cbn [fst snd]; now rewrite app_nil_r | apply IH].
Qed.

Lemma outboard_po_loop_fault k kind : kind <> KInterrupted ->
  forall items stack (rd : reader) (data out : bytes),
  rd_fail HO rd = Some (k, kind) -> rd_calls HO rd <= k -> rd_rest HO rd = data ->
  let x := outboard_po_loop_r HO items stack rd out in
  let y := outboard_po_loop HO items stack data out in
  (fst x = fst y /\ rd_calls HO (snd x) <= k) \/
  (fst (fst x) = Err kind /\ (exists more, snd (fst y) = snd (fst x) ++ more) /\ rd_calls HO (snd x) = k + 1).
Proof.
  intros Hk. induction items as [|c rest IH]; intros stack rd data out Hf Hc Hrest; cbv zeta.
  - left. cbn [outboard_po_loop_r outboard_po_loop]. destruct stack as [|h [|h2 stk]]; cbn [fst snd]; now split.
  - destruct c as [node is_root lf rt rs | start size is_root rs]; cbn [outboard_po_loop_r outboard_po_loop].
    + destruct stack as [|rh [|lh stk]]; try (left; cbn [fst snd]; now split). now apply IH.
    + subst data. pose proof (fail_ok_ahead HO rd k kind Hf Hk Hc) as Hok.
      destruct (exact_cases HO (read_exact_sync HO) rd size k kind (read_exact_sync_spec HO rd size Hok) Hf)
        as (x & rd' & Er & Hf' & _ & [(Hx & Hc') | [(Hc' & Hle & Hx & Hr') | (Hc' & Hlt & Hx)]]); rewrite Er; subst x.
      * right. cbn [fst snd]. split; [reflexivity|]. split; [|exact Hc'].
        match goal with |- exists more, snd (fst ?y) = _ => change y with (outboard_po_loop HO (CLeaf start size is_root rs :: rest) stack (rd_rest HO rd) out) end.
        apply outboard_po_loop_extends.
      * replace (blen (rd_rest HO rd) <? size) with false by (symmetry; apply N.ltb_ge; exact Hle).
        now apply IH.
      * replace (blen (rd_rest HO rd) <? size) with true by (symmetry; apply N.ltb_lt; exact Hlt).
        left. cbn [fst snd]. now split.
Qed.

Theorem outboard_post_order_read_fault t (data : bytes) (sched : list ev) k kind :
  kind <> KInterrupted ->
  let x := outboard_post_order_r HO t (mkRd HO data sched 0 (Some (k, kind))) in
  let y := outboard_post_order HO t data in
  (fst x = fst y /\ rd_calls HO (snd x) <= k) \/
  (fst (fst x) = Err kind /\ (exists more, snd (fst y) = snd (fst x) ++ more) /\ rd_calls HO (snd x) = k + 1).
Proof.
  intros Hk. unfold outboard_post_order_r, outboard_post_order.
  apply (outboard_po_loop_fault k kind Hk); cbn [rd_fail rd_calls rd_rest]; [reflexivity | lia | reflexivity].
Qed.

(* sync::outboard into an outboard store: the store only changes by successful saves *)
Lemma outboard_loop_saves : forall items stack (data : bytes) (ob : outboard),
  exists l, save_all HO ob l = Ok (snd (fst (outboard_loop HO items stack data ob))).
Proof.
  induction items as [|c rest IH]; intros stack data ob.
  - exists []. cbn [outboard_loop]. destruct stack as [|h [|h2 stk]]; reflexivity.
  - destruct c as [node is_root lf rt rs | start size is_root rs]; cbn [outboard_loop].
    + destruct stack as [|rh [|lh stk]]; try (exists []; reflexivity).
      destruct (save HO ob node lh rh) as [ob'|e|] eqn:Es; try (exists []; reflexivity).
      destruct (IH (parent_cv HO lh rh is_root :: stk) data ob') as [l Hl].
      exists ((node, (lh, rh)) :: l). cbn [save_all]. rewrite Es. exact Hl.
    + destruct (blen data <? size); [exists []; reflexivity | apply IH].
Qed.

Lemma outboard_loop_fault k kind : kind <> KInterrupted ->
  forall items stack (rd : reader) (data : bytes) (ob : outboard),
  rd_fail HO rd = Some (k, kind) -> rd_calls HO rd <= k -> rd_rest HO rd = data ->
  let x := outboard_loop_r HO items stack rd ob in
  let y := outboard_loop HO items stack data ob in
  (fst x = fst y /\ rd_calls HO (snd x) <= k) \/
  (fst (fst x) = Err kind /\ rd_calls HO (snd x) = k + 1 /\
   exists l1 l2, save_all HO ob l1 = Ok (snd (fst x)) /\ save_all HO (snd (fst x)) l2 = Ok (snd (fst y))).
Proof.
  intros Hk. induction items as [|c rest IH]; intros stack rd data ob Hf Hc Hrest; cbv zeta.
  - left. cbn [outboard_loop_r outboard_loop]. destruct stack as [|h [|h2 stk]]; cbn [fst snd]; now split.
  - destruct c as [node is_root lf rt rs | start size is_root rs]; cbn [outboard_loop_r outboard_loop].
    + destruct stack as [|rh [|lh stk]]; try (left; cbn [fst snd]; now split).
      destruct (save HO ob node lh rh) as [ob'|e|] eqn:Es; try (left; cbn [fst snd]; now split).
      destruct (IH (parent_cv HO lh rh is_root :: stk) rd data ob' Hf Hc Hrest) as [Hl | (He & Hc' & l1 & l2 & H1 & H2)].
      * left. exact Hl.
      * right. split; [exact He|]. split; [exact Hc'|]. exists ((node, (lh, rh)) :: l1), l2.
        split; [cbn [save_all]; rewrite Es; exact H1 | exact H2].
    + subst data. pose proof (fail_ok_ahead HO rd k kind Hf Hk Hc) as Hok.
      destruct (exact_cases HO (read_exact_sync HO) rd size k kind (read_exact_sync_spec HO rd size Hok) Hf)
        as (x & rd' & Er & Hf' & _ & [(Hx & Hc') | [(Hc' & Hle & Hx & Hr') | (Hc' & Hlt & Hx)]]); rewrite Er; subst x.
      * right. cbn [fst snd]. split; [reflexivity|]. split; [exact Hc'|]. exists [].
        match goal with |- exists l2, _ /\ save_all HO ob l2 = Ok (snd (fst ?y)) =>
          change y with (outboard_loop HO (CLeaf start size is_root rs :: rest) stack (rd_rest HO rd) ob) end.
        destruct (outboard_loop_saves (CLeaf start size is_root rs :: rest) stack (rd_rest HO rd) ob) as [l2 Hl2].
        exists l2. split; [reflexivity | exact Hl2].
      * replace (blen (rd_rest HO rd) <? size) with false by (symmetry; apply N.ltb_ge; exact Hle).
        now apply IH.
      * replace (blen (rd_rest HO rd) <? size) with true by (symmetry; apply N.ltb_lt; exact Hlt).
        left. cbn [fst snd]. now split.
Qed.

Theorem outboard_impl_read_fault t (data : bytes) (sched : list ev) (ob : outboard) k kind :
  kind <> KInterrupted ->
  let x := outboard_impl_r HO t (mkRd HO data sched 0 (Some (k, kind))) ob in
  let y := outboard_impl HO t data ob in
  (fst x = fst y /\ rd_calls HO (snd x) <= k) \/
  (fst (fst x) = Err kind /\ rd_calls HO (snd x) = k + 1 /\
   exists l1 l2, save_all HO ob l1 = Ok (snd (fst x)) /\ save_all HO (snd (fst x)) l2 = Ok (snd (fst y))).
Proof.
  intros Hk. unfold outboard_impl_r, outboard_impl.
  apply (outboard_loop_fault k kind Hk); cbn [rd_fail rd_calls rd_rest]; [reflexivity | lia | reflexivity].
Qed.

(* C11: sync::outboard over a scheduled reader = over the plain bytes (result, stored outboard, and - unless the
   blob ended early - the unread remainder) *)
Lemma outboard_loop_sim : forall items stack (rd : reader) (data : bytes) (ob : outboard),
  rd_fail HO rd = None -> rd_rest HO rd = data ->
  let x := outboard_loop_r HO items stack rd ob in
  let y := outboard_loop HO items stack data ob in
  fst x = fst y /\ (fst (fst x) <> Err KUnexpectedEof -> rd_rest HO (snd x) = snd y).
Proof.
  induction items as [|c rest IH]; intros stack rd data ob Hnf Hrest; cbv zeta.
  - cbn [outboard_loop_r outboard_loop]. destruct stack as [|h [|h2 stk]]; cbn [fst snd]; now split.
  - destruct c as [node is_root lf rt rs | start size is_root rs]; cbn [outboard_loop_r outboard_loop].
    + destruct stack as [|rh [|lh stk]]; try (cbn [fst snd]; now split).
      destruct (save HO ob node lh rh) as [ob'|e|]; try (cbn [fst snd]; now split). now apply IH.
    + subst data. destruct (N.le_gt_cases size (blen (rd_rest HO rd))) as [Hle|Hlt].
      * destruct (read_exact_sync_enough HO rd size Hnf Hle) as (rd' & Er & Hr' & Hf' & _). rewrite Er.
        replace (blen (rd_rest HO rd) <? size) with false by (symmetry; apply N.ltb_ge; exact Hle).
        now apply IH.
      * destruct (read_exact_sync_short HO rd size Hnf Hlt) as (rd' & Er & Hf' & _). rewrite Er.
        replace (blen (rd_rest HO rd) <? size) with true by (symmetry; apply N.ltb_lt; exact Hlt).
        cbn [fst snd]. split; [reflexivity|]. intros H. now elim H.
Qed.

Theorem outboard_impl_indep t (data : bytes) (sched : list ev) (ob : outboard) :
  fst (outboard_impl_r HO t (mkRd HO data sched 0 None) ob) = fst (outboard_impl HO t data ob).
Proof. unfold outboard_impl_r, outboard_impl. exact (proj1 (outboard_loop_sim _ _ (mkRd HO data sched 0 None) data ob eq_refl eq_refl)). Qed.
Theorem outboard_impl_indep_rest t (data : bytes) (sched : list ev) (ob : outboard) :
  fst (fst (outboard_impl_r HO t (mkRd HO data sched 0 None) ob)) <> Err KUnexpectedEof ->
  rd_rest HO (snd (outboard_impl_r HO t (mkRd HO data sched 0 None) ob)) = snd (outboard_impl HO t data ob).
Proof. unfold outboard_impl_r, outboard_impl. exact (proj2 (outboard_loop_sim _ _ (mkRd HO data sched 0 None) data ob eq_refl eq_refl)). Qed.

(* ---- a blob that ends early (the only failure a byte-list source has): sync and fsm entry points ---- *)
Lemma take_app_enough (d more : bytes) n : n <= blen d -> take n (d ++ more) = take n d.
Proof.
  unfold Hash.take, Hash.blen. intros H. rewrite firstn_app.
  replace (N.to_nat n - length d)%nat with 0%nat by lia. cbn [firstn]. now rewrite app_nil_r.
Qed.
Lemma drop_app_enough (d more : bytes) n : n <= blen d -> drop n (d ++ more) = drop n d ++ more.
Proof.
  unfold Hash.drop, Hash.blen. intros H. rewrite skipn_app.
  replace (N.to_nat n - length d)%nat with 0%nat by lia. reflexivity.
Qed.

Lemma outboard_loop_truncated : forall items stack (data more : bytes) (ob : outboard),
  let x := outboard_loop HO items stack data ob in
  let y := outboard_loop HO items stack (data ++ more) ob in
  fst x = fst y \/
  (fst (fst x) = Err KUnexpectedEof /\
   exists l1 l2, save_all HO ob l1 = Ok (snd (fst x)) /\ save_all HO (snd (fst x)) l2 = Ok (snd (fst y))).
Proof.
  induction items as [|c rest IH]; intros stack data more ob; cbv zeta.
  - left. cbn [outboard_loop]. destruct stack as [|h [|h2 stk]]; reflexivity.
  - destruct c as [node is_root lf rt rs | start size is_root rs]; cbn [outboard_loop].
    + destruct stack as [|rh [|lh stk]]; try (left; reflexivity).
      destruct (save HO ob node lh rh) as [ob'|e|] eqn:Es; try (left; reflexivity).
      destruct (IH (parent_cv HO lh rh is_root :: stk) data more ob') as [Hl | (He & l1 & l2 & H1 & H2)].
      * left. exact Hl.
      * right. split; [exact He|]. exists ((node, (lh, rh)) :: l1), l2.
        split; [cbn [save_all]; rewrite Es; exact H1 | exact H2].
    + destruct (blen data <? size) eqn:E.
      * right. cbn [fst snd]. split; [reflexivity|]. exists [].
        destruct (outboard_loop_saves (CLeaf start size is_root rs :: rest) stack (data ++ more) ob) as [l2 Hl2].
        exists l2. split; [reflexivity | exact Hl2].
      * apply N.ltb_ge in E.
        replace (blen (data ++ more) <? size) with false
          by (symmetry; apply N.ltb_ge; unfold Hash.blen in *; rewrite app_length; lia).
        rewrite take_app_enough, drop_app_enough by exact E. apply IH.
Qed.

Lemma outboard_po_loop_truncated : forall items stack (data more out : bytes),
  let x := outboard_po_loop HO items stack data out in
  let y := outboard_po_loop HO items stack (data ++ more) out in
  fst x = fst y \/
  (fst (fst x) = Err KUnexpectedEof /\ exists later, snd (fst y) = snd (fst x) ++ later).
Proof.
  induction items as [|c rest IH]; intros stack data more out; cbv zeta.
  - left. cbn [outboard_po_loop]. destruct stack as [|h [|h2 stk]]; reflexivity.
  - destruct c as [node is_root lf rt rs | start size is_root rs]; cbn [outboard_po_loop].
    + destruct stack as [|rh [|lh stk]]; try (left; reflexivity). apply IH.
    + destruct (blen data <? size) eqn:E.
      * right. cbn [fst snd]. split; [reflexivity|].
        apply (outboard_po_loop_extends (CLeaf start size is_root rs :: rest) stack (data ++ more) out).
      * apply N.ltb_ge in E.
        replace (blen (data ++ more) <? size) with false
          by (symmetry; apply N.ltb_ge; unfold Hash.blen in *; rewrite app_length; lia).
        rewrite take_app_enough, drop_app_enough by exact E. apply IH.
Qed.

(* the fsm loops are the sync loops (over any item list) *)
Lemma outboard_loop_fsm_eq items stack (data : bytes) (ob : outboard) :
  outboard_loop_fsm HO items stack data ob = outboard_loop HO items stack data ob.
Proof. rewrite outboard_loop_fsm_gloop, <- outboard_loop_gloop. reflexivity. Qed.
Lemma outboard_po_loop_fsm_eq items stack (data out : bytes) :
  outboard_po_loop_fsm HO items stack data out = outboard_po_loop HO items stack data out.
Proof. rewrite outboard_po_loop_fsm_gloop, <- outboard_po_loop_gloop. reflexivity. Qed.

Theorem outboard_impl_truncated t (data more : bytes) (ob : outboard) :
  fst (outboard_impl HO t data ob) = fst (outboard_impl HO t (data ++ more) ob) \/
  (fst (fst (outboard_impl HO t data ob)) = Err KUnexpectedEof /\
   exists l1 l2, save_all HO ob l1 = Ok (snd (fst (outboard_impl HO t data ob))) /\
     save_all HO (snd (fst (outboard_impl HO t data ob))) l2 = Ok (snd (fst (outboard_impl HO t (data ++ more) ob)))).
Proof. unfold outboard_impl. exact (outboard_loop_truncated (post_order_chunks_iter t) [] data more ob). Qed.

Theorem outboard_impl_fsm_truncated t (data more : bytes) (ob : outboard) :
  fst (outboard_impl_fsm HO t data ob) = fst (outboard_impl_fsm HO t (data ++ more) ob) \/
  (fst (fst (outboard_impl_fsm HO t data ob)) = Err KUnexpectedEof /\
   exists l1 l2, save_all HO ob l1 = Ok (snd (fst (outboard_impl_fsm HO t data ob))) /\
     save_all HO (snd (fst (outboard_impl_fsm HO t data ob))) l2 = Ok (snd (fst (outboard_impl_fsm HO t (data ++ more) ob)))).
Proof. unfold outboard_impl_fsm. rewrite (outboard_loop_fsm_eq _ _ data), (outboard_loop_fsm_eq _ _ (data ++ more)). exact (outboard_loop_truncated (post_order_chunks_iter t) [] data more ob). Qed.

Theorem outboard_post_order_truncated t (data more : bytes) :
  fst (outboard_post_order HO t data) = fst (outboard_post_order HO t (data ++ more)) \/
  (fst (fst (outboard_post_order HO t data)) = Err KUnexpectedEof /\
   exists later, snd (fst (outboard_post_order HO t (data ++ more))) = snd (fst (outboard_post_order HO t data)) ++ later).
Proof. unfold outboard_post_order. exact (outboard_po_loop_truncated (post_order_chunks_iter t) [] data more []). Qed.

Theorem outboard_post_order_fsm_truncated t (data more : bytes) :
  fst (outboard_post_order_fsm HO t data) = fst (outboard_post_order_fsm HO t (data ++ more)) \/
  (fst (fst (outboard_post_order_fsm HO t data)) = Err KUnexpectedEof /\
   exists later, snd (fst (outboard_post_order_fsm HO t (data ++ more))) = snd (fst (outboard_post_order_fsm HO t data)) ++ later).
Proof. unfold outboard_post_order_fsm. rewrite (outboard_po_loop_fsm_eq _ _ data), (outboard_po_loop_fsm_eq _ _ (data ++ more)). exact (outboard_po_loop_truncated (post_order_chunks_iter t) [] data more []). Qed.

(* init_from: Ok with the same outboard, or the io error *)
Theorem init_from_truncated (ob : outboard) (data more : bytes) :
  init_from HO ob data = init_from HO ob (data ++ more) \/ init_from HO ob data = Err KUnexpectedEof.
Proof.
  unfold init_from. destruct (outboard_impl_truncated (ob_tree ob) data more ob) as [H | [H _]]; revert H.
  - generalize (outboard_impl HO (ob_tree ob) data ob). generalize (outboard_impl HO (ob_tree ob) (data ++ more) ob).
    intros [[r1 o1] d1] [[r2 o2] d2]. cbn [fst]. intros [= -> ->]. left. reflexivity.
  - generalize (outboard_impl HO (ob_tree ob) data ob). intros [[r2 o2] d2]. cbn [fst]. intros ->. right. reflexivity.
Qed.
Theorem init_from_fsm_truncated (ob : outboard) (data more : bytes) :
  init_from_fsm HO ob data = init_from_fsm HO ob (data ++ more) \/ init_from_fsm HO ob data = Err KUnexpectedEof.
Proof.
  unfold init_from_fsm. destruct (outboard_impl_fsm_truncated (ob_tree ob) data more ob) as [H | [H _]]; revert H.
  - generalize (outboard_impl_fsm HO (ob_tree ob) data ob). generalize (outboard_impl_fsm HO (ob_tree ob) (data ++ more) ob).
    intros [[r1 o1] d1] [[r2 o2] d2]. cbn [fst]. intros [= -> ->]. left. reflexivity.
  - generalize (outboard_impl_fsm HO (ob_tree ob) data ob). intros [[r2 o2] d2]. cbn [fst]. intros ->. right. reflexivity.
Qed.

End CreateFault.

(* ---- the failing branch of the theorems above does occur ---- *)
Section Examples.
Variable HO : hops.

Theorem dec_run_read_fault_nonvacuous :
  fst (dec_run_r HO (dec_new_r HO [] (mkTree 2048 0) (mkRd HO [] [EPending; EFrag 3] 0 (Some (0, KOther))) [0]))
    = ([], Failed (DIo KOther)) /\
  fst (dec_run_r HO (dec_new_r HO [] (mkTree 2048 0) (mkRd HO [] [] 0 (Some (0, KUnexpectedEof))) [0]))
    = ([], Failed (DParentNotFound 0)) /\
  fst (rd_run_r HO (rd_new_r HO [] [0] (mkTree 2048 0) (mkRd HO [] [EPending; EFrag 3] 0 (Some (0, KConnectionReset)))))
    = ([], Failed (DIo KConnectionReset)).
Proof. repeat split; vm_compute; reflexivity. Qed.

Theorem outboard_read_fault_nonvacuous :
  fst (fst (outboard_post_order_r HO (mkTree 2048 0) (mkRd HO (repeat (bzero HO) 2048) [EFrag 1000] 0 (Some (2, KOther)))))
    = Err KOther /\
  rd_calls HO (snd (outboard_post_order_r HO (mkTree 2048 0) (mkRd HO (repeat (bzero HO) 2048) [EFrag 1000] 0 (Some (2, KOther)))))
    = 3.
Proof. split; vm_compute; reflexivity. Qed.

End Examples.
