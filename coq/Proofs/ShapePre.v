(* L9: pre_order_offset is the position in the pre-order listing (C12 item 3). *)
From BaoV Require Import Model.Iter Spec.NodeSpec Proofs.NodeLevel Proofs.NodeBits Proofs.NodeAlgebra
  Proofs.NodeRestricted Proofs.ShapeBase Proofs.ShapeIter Proofs.ShapeOffsets Proofs.ShapePos.
From Coq Require Import ZArith Lia.
Open Scope N_scope.
Ltac Zify.zify_post_hook ::= Z.to_euclidean_division_equations.

Lemma parent_expr x : level x <> 63 ->
  (if N.land x (2 ^ level x * 2) =? 0 then x + 2 ^ level x else x - 2 ^ level x) = sp_parent x.
Proof.
  intros H. pose proof (parent_gen x H) as E. unfold parent in E.
  destruct (N.eqb_spec (level x) 63); [contradiction|].
  rewrite N.shiftl_1_l in E. now injection E.
Qed.

Lemma tz_not64 s : s < 2 ^ 62 -> trailing_zeros64 (not64 s) = level s.
Proof.
  intros H. pose proof (level_decomp s) as D. pose proof (pow2_pos (level s)) as P.
  pose proof (lt62_level s H) as L.
  unfold not64. rewrite N.mod_small by (unfold W64; change (2 ^ 62) with 4611686018427387904 in H; lia).
  set (i := level s) in *. set (k := sp_index s) in *.
  assert (E64 : 2 ^ 64 = 2 * 2 ^ (63 - i) * 2 ^ i).
  { rewrite <- N.mul_assoc, <- pow2_add, <- pow2_succ. f_equal. lia. }
  assert (Hk : k + 1 <= 2 ^ (63 - i)).
  { change (2 ^ 62) with 4611686018427387904 in H.
    change (2 ^ 64) with 18446744073709551616 in E64.
    set (T := 2 ^ (63 - i)) in *. clearbody T k i.
    destruct (N.le_gt_cases (k + 1) T) as [|G]; [assumption|exfalso].
    assert (T * 2 ^ i <= k * 2 ^ i) by (apply N.mul_le_mono_r; lia). nia. }
  set (y := MAX64 - s).
  assert (Ey : y - 1 + 1 = (2 * (2 ^ (63 - i) - k - 1) + 1) * 2 ^ i).
  { unfold y, MAX64. change (2 ^ 64) with 18446744073709551616 in E64.
    set (T := 2 ^ (63 - i)) in *. clearbody T k i. nia. }
  assert (Y1 : y = y - 1 + 1).
  { unfold y, MAX64. change (2 ^ 62) with 4611686018427387904 in H. lia. }
  rewrite Y1. change (trailing_zeros64 (y - 1 + 1)) with (sp_level (y - 1)).
  rewrite <- level_is_sp_level. exact (proj1 (decomp_unique _ _ _ Ey)).
Qed.

(* ---- ancestors of s in the infinite tree, and how many of them are inside the tree ---- *)
Section Anc.
Variables len s : N.

Definition anc (j : N) : N := (s / 2 ^ (j + 1)) * 2 ^ (j + 1) + 2 ^ j - 1.

Fixpoint cntu (g : nat) (j : N) : N :=
  match g with
  | O => 0
  | S g' => b2n (anc (j + 1) <? len) + cntu g' (j + 1)
  end.
Definition cntN (g j : N) : N := cntu (N.to_nat g) j.

Lemma anc_spine j : anc j = spine ((s / 2 ^ (j + 1)) * 2 ^ (j + 1)) j.
Proof. reflexivity. Qed.

Lemma anc_in a0 q j : a0 = q * 2 ^ (j + 1) -> a0 <= s -> s < a0 + 2 ^ (j + 1) -> anc j = spine a0 j.
Proof.
  intros Ha H1 H2. rewrite anc_spine. f_equal. rewrite Ha. f_equal.
  pose proof (pow2_pos (j + 1)). symmetry.
  apply N.div_unique with (r := s - a0); lia.
Qed.

Lemma anc_self : anc (level s) = s.
Proof.
  pose proof (level_decomp s) as D. pose proof (pow2_pos (level s)) as P.
  rewrite (anc_in (sp_index s * 2 ^ (level s + 1)) (sp_index s)); try reflexivity.
  - unfold spine. rewrite pow2_succ. lia.
  - rewrite pow2_succ. lia.
  - rewrite pow2_succ. lia.
Qed.

Lemma anc_ge j : 2 ^ j - 1 <= anc j.
Proof. unfold anc. generalize (s / 2 ^ (j + 1)). intros q. pose proof (pow2_pos (j + 1)). nia. Qed.

Lemma anc_level j : level (anc j) = j.
Proof. rewrite anc_spine. now apply (spine_level _ j (s / 2 ^ (j + 1))). Qed.

Lemma anc_parent j : j <= 62 ->
  (if N.land (anc j) (2 ^ j * 2) =? 0 then anc j + 2 ^ j else anc j - 2 ^ j) = anc (j + 1).
Proof.
  intros Hj. pose proof (parent_expr (anc j)) as E. rewrite anc_level in E. rewrite E by lia.
  unfold sp_parent. rewrite <- level_is_sp_level, anc_level.
  rewrite anc_spine at 1. rewrite (spine_index _ j (s / 2 ^ (j + 1)) eq_refl).
  unfold sp_node, anc.
  rewrite N.div_div by (try apply N.pow_nonzero; lia).
  replace (2 ^ (j + 1) * 2) with (2 ^ (j + 1 + 1)) by (rewrite (pow2_succ (j + 1)); lia).
  rewrite (pow2_succ (j + 1)). pose proof (pow2_pos (j + 1)). lia.
Qed.

Lemma cntu_split g1 : forall g2 j, cntu (g1 + g2) j = cntu g1 j + cntu g2 (j + N.of_nat g1).
Proof.
  induction g1 as [|g1 IH]; intros g2 j.
  - cbn [Nat.add cntu N.of_nat]. now rewrite N.add_0_r.
  - cbn [Nat.add cntu]. rewrite IH. replace (j + 1 + N.of_nat g1) with (j + N.of_nat (S g1)) by lia. lia.
Qed.

Lemma cntu_zero g : forall j, (forall j', j < j' -> j' <= j + N.of_nat g -> len <= anc j') -> cntu g j = 0.
Proof.
  induction g as [|g IH]; intros j H; [reflexivity|]. cbn [cntu].
  destruct (N.ltb_spec (anc (j + 1)) len) as [Lt|_].
  - pose proof (H (j + 1) ltac:(lia) ltac:(lia)). lia.
  - cbn [b2n]. rewrite IH; [reflexivity|]. intros j' A C. apply H; lia.
Qed.

Lemma cntN_0 j : cntN 0 j = 0.
Proof. reflexivity. Qed.

Lemma cntN_1 j : cntN 1 j = b2n (anc (j + 1) <? len).
Proof. unfold cntN. change (N.to_nat 1) with 1%nat. cbn [cntu]. lia. Qed.

Lemma cntN_split g1 g2 j : cntN (g1 + g2) j = cntN g1 j + cntN g2 (j + g1).
Proof. unfold cntN. rewrite N2Nat.inj_add, cntu_split, N2Nat.id. reflexivity. Qed.

Lemma cntN_zero g j : (forall j', j < j' -> j' <= j + g -> len <= anc j') -> cntN g j = 0.
Proof. intros H. unfold cntN. apply cntu_zero. intros j' A C. apply H; lia. Qed.

Lemma pre_loop_cnt : len <= 2 ^ 61 -> forall fuel j pc, j <= 62 ->
  pre_loop fuel (anc j) (2 ^ j) len pc = pc + cntu fuel j.
Proof.
  intros Hlen. induction fuel as [|f IH]; intros j pc Hj; [cbn [pre_loop cntu]; lia|].
  cbn [pre_loop cntu]. rewrite (anc_parent j Hj).
  assert (Epc : (if anc (j + 1) <? len then pc + 1 else pc) = pc + b2n (anc (j + 1) <? len)).
  { destruct (anc (j + 1) <? len); cbn [b2n]; lia. }
  rewrite Epc.
  destruct (N.leb_spec len (2 ^ j * 2)) as [Stop|Go].
  - rewrite (cntu_zero f (j + 1)); [lia|].
    intros j' A _. pose proof (anc_ge j') as G.
    assert (M : 2 ^ (j + 2) <= 2 ^ j') by (apply pow2_le_mono; lia).
    replace (j + 2) with (j + 1 + 1) in M by lia. rewrite !pow2_succ in M. lia.
  - replace (2 ^ j * 2) with (2 ^ (j + 1)) in * by (rewrite pow2_succ; lia).
    rewrite IH; [lia|].
    assert (2 ^ (j + 1) < 2 ^ 61) by lia. apply pow2_lt_inv in H. lia.
Qed.
End Anc.

Lemma pre_offset_loop_cnt len s : len <= 2 ^ 61 -> s < 2 ^ 62 ->
  pre_order_offset_loop s len = nleft s - popcount (nleft s) + cntu len s 65 (level s).
Proof.
  intros Hlen Hs. unfold pre_order_offset_loop. rewrite (tz_not64 s Hs), N.shiftl_1_l.
  fold (nleft s). f_equal.
  rewrite <- (anc_self s) at 1. rewrite pre_loop_cnt; [lia|assumption|].
  pose proof (lt62_level s Hs). lia.
Qed.

Lemma shlen_lt_pow m l : 1 <= m -> m <= 2 ^ (l + 1) -> shlen m + 1 <= 2 ^ (l + 1).
Proof. intros H1 H2. rewrite pow2_succ in *. unfold shlen. lia. Qed.

Lemma shlen_pow l : 1 <= l -> shlen (2 ^ l) = 2 ^ l - 1.
Proof. intros H. rewrite (pow2_pred l) by lia. unfold shlen. pose proof (pow2_pos (l - 1)). lia. Qed.

Lemma shlen_split m l : 1 <= l -> 2 ^ l < m -> shlen m = 2 ^ l + shlen (m - 2 ^ l).
Proof. intros H1 H2. rewrite (pow2_pred l) in * by lia. unfold shlen. lia. Qed.

(* ---- sh_pre_pos by descent = nodes to the left that are not left ancestors + ancestors in the tree ---- *)
Section PrePos.
Variable B : N.
Hypothesis HB : B <= 2 ^ 60.
Let len := shlen B.

Lemma pre_pos_cnt : forall f a m l c, wf B a m l c -> m <= 2 * 2 ^ N.of_nat f ->
  forall s, a <= s -> s < a + shlen m ->
    level s <= l /\
    sh_pre_pos (S f) a m s + popcount (nleft s - a) = (nleft s - a) + cntN len s (l - level s) (level s).
Proof.
  apply (shape_ind B (fun f a m l c => forall s, a <= s -> s < a + shlen m ->
    level s <= l /\
    sh_pre_pos f a m s + popcount (nleft s - a) = (nleft s - a) + cntN len s (l - level s) (level s))).
  - intros f a m c W Hm s H1 H2.
    assert (Es : s = a) by (destruct W as (W1 & _); unfold shlen in H2; lia). rewrite Es.
    pose proof (nav_a _ _ _ _ _ W) as Ha.
    pose proof (spine_level a 0 c Ha) as Lv. rewrite spine_0 in Lv.
    pose proof (nleft_spine a 0 c Ha) as Nl. rewrite spine_0 in Nl.
    rewrite Lv, Nl, N.sub_diag, sh_pre_pos_leaf by assumption. cbn [popcount].
    split; [lia|]. rewrite cntN_0. reflexivity.
  - intros f a m l c l' c' W Hm Hl Hl' WL WR Hsp Hf1 Hf2 IH1 IH2 s H1 H2.
    pose proof (nav_a _ _ _ _ _ W) as Ha.
    destruct (wf_large _ _ _ _ _ W Hm) as [_ Hlt].
    assert (Hmu : m <= 2 ^ (l + 1)) by (destruct W as (_ & _ & _ & W4 & _); exact W4).
    pose proof (shlen_pow l Hl) as E1. pose proof (shlen_split m l Hl Hlt) as E2.
    pose proof (shlen_lt_pow m l ltac:(lia) Hmu) as E3.
    pose proof (wf_root_in _ _ _ _ _ W) as Hr. fold len in Hr.
    pose proof (spine_level a l c Ha) as Rl. pose proof (nleft_spine a l c Ha) as Rn.
    pose proof (pow2_ge2 l Hl) as G2.
    assert (Al : anc s l = spine a l) by (apply (anc_in s a c l Ha); lia).
    rewrite (sh_pre_pos_node B _ _ _ _ _ _ W Hm).
    destruct (N.eqb_spec s (spine a l)) as [Es|Ne].
    + rewrite Es, Rl, Rn, (N.sub_diag a), (N.sub_diag l). cbn [popcount]. split; [lia|]. now rewrite cntN_0.
    + destruct (N.ltb_spec s (spine a l)) as [Lt|Ge].
      * destruct (IH1 s H1 ltac:(unfold spine in Lt; lia)) as [L1 Q1].
        split; [lia|].
        replace (l - level s) with ((l - 1 - level s) + 1) by lia.
        rewrite cntN_split, cntN_1.
        replace (level s + (l - 1 - level s) + 1) with l by lia. rewrite Al.
        destruct (N.ltb_spec (spine a l) len); [|lia]. cbn [b2n]. lia.
      * assert (Ge' : a + 2 ^ l <= s) by (unfold spine in *; lia).
        destruct (IH2 s Ge' ltac:(lia)) as [L2 Q2].
        pose proof (nav_a _ _ _ _ _ WR) as Ha'.
        assert (Hm' : 1 <= m - 2 ^ l /\ m - 2 ^ l <= 2 ^ (l' + 1)) by (destruct WR as (W1 & _ & _ & W4 & _); split; assumption).
        pose proof (shlen_lt_pow (m - 2 ^ l) l' (proj1 Hm') (proj2 Hm')) as E4.
        destruct (sub_contained (a + 2 ^ l) l' c' s Ha' Ge' ltac:(lia)) as (C1 & C2 & C3).
        assert (P2 : 2 ^ (l' + 1) <= 2 ^ l) by (apply pow2_le_mono; lia).
        pose proof (pow2_pos (level s + 1)) as P3.
        split; [lia|].
        set (d := nleft s - (a + 2 ^ l)) in *.
        replace (nleft s - a) with (2 ^ l + d) by (unfold d; lia).
        rewrite popcount_add_pow2 by (unfold d; lia).
        replace (l - level s) with ((l' - level s) + ((l - 1 - l') + 1)) by lia.
        rewrite cntN_split, cntN_split, cntN_1.
        replace (level s + (l' - level s)) with l' by lia.
        replace (l' + (l - 1 - l') + 1) with l by lia. rewrite Al.
        destruct (N.ltb_spec (spine a l) len); [|lia]. cbn [b2n].
        rewrite (cntN_zero len s (l - 1 - l') l'); [lia|].
        intros j' J1 J2.
        destruct Hsp as [Hsp|Hsp]; [lia|]. fold len in Hsp.
        assert (Aj : anc s j' = spine (a + 2 ^ l) j').
        { apply (anc_in s (a + 2 ^ l) ((2 * c + 1) * 2 ^ (l - (j' + 1))) j').
          - rewrite <- N.mul_assoc, <- pow2_split by lia. rewrite Ha, pow2_succ. lia.
          - exact Ge'.
          - assert (2 ^ (l' + 1) <= 2 ^ (j' + 1)) by (apply pow2_le_mono; lia). lia. }
        rewrite Aj. pose proof (spine_mono (a + 2 ^ l) (l' + 1) j' ltac:(lia)). lia.
Qed.
End PrePos.

Lemma pre_offset_pos B l0 s : B <= 2 ^ 60 -> wf B 0 B l0 0 -> s < shlen B ->
  pre_order_offset_loop s (shlen B) = sh_pre_pos 65 0 B s.
Proof.
  intros HB W Hs.
  assert (B1 : 1 <= B) by (destruct W as (W1 & _); exact W1).
  pose proof (shlen_le B B1) as SL.
  assert (L61 : shlen B <= 2 ^ 61).
  { change (2 ^ 60) with 1152921504606846976 in HB. change (2 ^ 61) with 2305843009213693952. lia. }
  assert (S62 : s < 2 ^ 62).
  { change (2 ^ 60) with 1152921504606846976 in HB. change (2 ^ 62) with 4611686018427387904. lia. }
  rewrite (pre_offset_loop_cnt _ _ L61 S62).
  destruct (pre_pos_cnt B HB 64 0 B l0 0 W (fuel64 B HB) s ltac:(lia) ltac:(lia)) as [Ll Q].
  rewrite N.sub_0_r in Q.
  pose proof (popcount_le (nleft s)) as PC.
  pose proof (nav_l60 _ _ _ _ _ HB W) as L60.
  change (S 64) with 65%nat in Q. set (pos := sh_pre_pos 65 0 B s) in *.
  replace 65%nat with (N.to_nat (l0 - level s) + (65 - N.to_nat (l0 - level s)))%nat by lia.
  rewrite cntu_split. fold (cntN (shlen B) s (l0 - level s) (level s)).
  rewrite (cntu_zero (shlen B) s).
  - lia.
  - intros j' J1 _. pose proof (anc_ge s j') as G.
    assert (Hmu : B <= 2 ^ (l0 + 1)) by (destruct W as (_ & _ & _ & W4 & _); exact W4).
    pose proof (shlen_lt_pow B l0 B1 Hmu) as E3.
    assert (M : 2 ^ (l0 + 1) <= 2 ^ j') by (apply pow2_le_mono; lia). lia.
Qed.

(* ---- the stored nodes of the pre-order listing sit at positions 0, 1, 2, ... ---- *)
Lemma map_shift (g : N -> N) k (l : list N) n s0 : map g l = nseq s0 n ->
  map (fun x => N.of_nat k + g x) l = nseq (k + s0) n.
Proof. intros H. rewrite <- nseq_shift, <- H, map_map. reflexivity. Qed.

Lemma pre_pos_seq B : forall f a m l c, wf B a m l c -> m <= 2 * 2 ^ N.of_nat f ->
  map (sh_pre_pos (S f) a m) (filter (pers B) (sh_pre (S f) a m)) = nseq 0 (N.to_nat (m - 1)).
Proof.
  apply (shape_ind B (fun f a m l c =>
    map (sh_pre_pos f a m) (filter (pers B) (sh_pre f a m)) = nseq 0 (N.to_nat (m - 1)))).
  - intros f a m c W Hm. rewrite sh_pre_leaf by assumption.
    pose proof (nav_a _ _ _ _ _ W) as Ha.
    pose proof (spine_level a 0 c Ha) as Lv. rewrite spine_0 in Lv.
    cbn [filter]. unfold pers. rewrite Lv. change (0 <? 0) with false. cbn [orb].
    destruct W as (W1 & W2 & _ & _ & _ & W6). change (2 ^ (0 + 1)) with 2 in W6.
    destruct (N.ltb_spec (a + 1) B) as [Lt|Ge].
    + assert (Em : m = 2) by lia. rewrite Em. cbn [map]. rewrite sh_pre_pos_leaf by lia. reflexivity.
    + assert (Em : m = 1) by lia. rewrite Em. reflexivity.
  - intros f a m l c l' c' W Hm Hl Hl' WL WR Hsp Hf1 Hf2 IH1 IH2.
    pose proof (nav_a _ _ _ _ _ W) as Ha.
    destruct (wf_large _ _ _ _ _ W Hm) as [_ Hlt].
    pose proof (shlen_pow l Hl) as E1.
    pose proof (spine_level a l c Ha) as Rl.
    pose proof (pow2_ge2 l Hl) as G2.
    rewrite (sh_pre_node B _ _ _ _ _ W Hm). cbn [filter].
    assert (Pr : pers B (spine a l) = true).
    { unfold pers. rewrite Rl. destruct (N.ltb_spec 0 l); [reflexivity|lia]. }
    rewrite Pr, filter_app. cbn [map]. rewrite map_app.
    rewrite (sh_pre_pos_node B _ _ _ _ _ _ W Hm), N.eqb_refl.
    assert (M1 : map (sh_pre_pos (S (S f)) a m) (filter (pers B) (sh_pre (S f) a (2 ^ l))) =
                 nseq 1 (N.to_nat (2 ^ l - 1))).
    { rewrite <- (Nat.add_0_r 1). rewrite <- (map_shift (sh_pre_pos (S f) a (2 ^ l)) 1 _ _ 0 IH1).
      apply map_ext_in. intros x Hx. apply filter_In_sub in Hx.
      apply (sh_pre_range B f _ _ _ _ WL Hf1) in Hx.
      rewrite (sh_pre_pos_node B _ _ _ _ _ _ W Hm).
      destruct (N.eqb_spec x (spine a l)); [unfold spine in *; lia|].
      destruct (N.ltb_spec x (spine a l)); [reflexivity|unfold spine in *; lia]. }
    assert (M2 : map (sh_pre_pos (S (S f)) a m) (filter (pers B) (sh_pre (S f) (a + 2 ^ l) (m - 2 ^ l))) =
                 nseq (N.to_nat (2 ^ l)) (N.to_nat (m - 2 ^ l - 1))).
    { rewrite <- (Nat.add_0_r (N.to_nat (2 ^ l))).
      rewrite <- (map_shift (sh_pre_pos (S f) (a + 2 ^ l) (m - 2 ^ l)) (N.to_nat (2 ^ l)) _ _ 0 IH2).
      apply map_ext_in. intros x Hx. apply filter_In_sub in Hx.
      apply (sh_pre_range B f _ _ _ _ WR Hf2) in Hx.
      rewrite (sh_pre_pos_node B _ _ _ _ _ _ W Hm).
      destruct (N.eqb_spec x (spine a l)); [unfold spine in *; lia|].
      destruct (N.ltb_spec x (spine a l)); [unfold spine in *; lia|]. rewrite N2Nat.id. lia. }
    rewrite M1, M2.
    replace (N.to_nat (m - 1)) with (1 + (N.to_nat (2 ^ l - 1) + N.to_nat (m - 2 ^ l - 1)))%nat by lia.
    rewrite (nseq_app 0 1), nseq_app. change (nseq 0 1) with [0]. cbn [app Nat.add].
    replace (S (N.to_nat (2 ^ l - 1))) with (N.to_nat (2 ^ l)) by lia. reflexivity.
Qed.

Theorem pre_offsets_spec size bs : size <= 2 ^ 63 -> bs <= 10 ->
  map (pre_order_offset (mkTree size bs)) (filter (sp_persisted size bs) (sp_pre_nodes size bs)) =
  map (fun i => Some (N.of_nat i)) (seq 0 (N.to_nat (sp_blocks size bs - 1))).
Proof.
  intros Hs Hb. destruct (shifted_spec size bs) as (l0 & W & _).
  pose proof (sp_blocks_60 size bs Hs) as HB. set (nb := sp_blocks size bs) in *.
  rewrite sp_pre_nodes_eq. fold nb. rewrite filter_map_comm, map_map.
  assert (In_s : forall x, In x (sh_pre 65 0 nb) -> x + 1 <= shlen nb).
  { intros x Hx. apply (sh_pre_range nb 64 _ _ _ _ W (fuel64 _ HB)) in Hx. lia. }
  rewrite (filter_ext_in' _ (pers nb)) by (intros x Hx; apply (pers_spec size bs x Hs Hb (In_s x Hx))).
  transitivity (map Some (map (sh_pre_pos 65 0 nb) (filter (pers nb) (sh_pre 65 0 nb)))).
  - rewrite map_map. apply map_ext_in. intros x Hx. apply filter_In in Hx. destruct Hx as [Hx Hp].
    rewrite (pre_offset_listed size bs x Hs Hb (In_s x Hx)).
    rewrite (pers_spec size bs x Hs Hb (In_s x Hx)). fold nb. rewrite Hp. f_equal.
    apply (pre_offset_pos nb l0 x HB W). pose proof (In_s x Hx). lia.
  - rewrite (pre_pos_seq nb 64 0 nb l0 0 W (fuel64 _ HB)). unfold nseq. now rewrite map_map.
Qed.

Theorem pre_none_spec size bs nd : size <= 2 ^ 63 -> bs <= 10 ->
  In nd (sp_pre_nodes size bs) -> sp_persisted size bs nd = false ->
  pre_order_offset (mkTree size bs) nd = None.
Proof.
  intros Hs Hb H Hp. destruct (pre_listed size bs nd Hs H) as (s & -> & Hin & _).
  rewrite (pre_offset_listed size bs s Hs Hb Hin). now rewrite Hp.
Qed.
