(* Part 1: loop2 / run_iter unrolling, the decoders over an explicit plan list, and the refinement
   of dec_run / rd_run / decode_ranges / decode_ranges_fsm to them. *)
From BaoV Require Import Model.Fsm.
From Coq Require Import Lia Arith.

(* ---------- loop2 as a bounded run ---------- *)
Section Loop.
Context {St R : Type}.
Variable step : St -> St + R.

Fixpoint runN (n : nat) (s : St) : St + R :=
  match n with
  | O => inl s
  | S n' => match step s with inl s' => runN n' s' | inr r => inr r end
  end.

Lemma runN_add : forall a b s,
  runN (a + b) s = match runN a s with inl s' => runN b s' | inr r => inr r end.
Proof. induction a; intros; cbn; [reflexivity|]. destruct (step s); auto. Qed.

Lemma loop2_runN : forall d s, loop2 d step s = runN (2 ^ d)%nat s.
Proof.
  induction d; intros s.
  - cbn. destruct (step s); reflexivity.
  - cbn [loop2]. rewrite Nat.pow_succ_r'.
    replace (2 * 2 ^ d)%nat with (2 ^ d + 2 ^ d)%nat by lia.
    rewrite runN_add, IHd. destruct (runN (2 ^ d)%nat s); auto.
Qed.
End Loop.

(* the bound in the form other layers prove it *)
Lemma loop_bound_of_N : forall n : nat, (N.of_nat n < 2 ^ 64)%N -> (n < 2 ^ LOOP_DEPTH)%nat.
Proof.
  intros n H. unfold LOOP_DEPTH.
  assert (E : N.of_nat (2 ^ 64)%nat = (2 ^ 64)%N) by (rewrite Nat2N.inj_pow; reflexivity).
  destruct (Nat.lt_ge_cases n (2 ^ 64)%nat) as [L|G]; [exact L|].
  exfalso. rewrite <- E in H. revert H G. generalize (2 ^ 64)%nat. intros. lia.
Qed.

(* ---------- iterators ---------- *)
Section IterGen.
Context {St A : Type}.
Variable next : St -> option (A * St).

(* the iterator returns None after at most n items *)
Fixpoint ends_within (st : St) (n : nat) : Prop :=
  match next st with
  | None => True
  | Some (_, st') => match n with O => False | S n' => ends_within st' n' end
  end.

Fixpoint unroll (n : nat) (st : St) : list A :=
  match next st with
  | None => []
  | Some (a, st') => match n with O => [] | S n' => a :: unroll n' st' end
  end.

(* the state after k calls of next (stays at the exhausted state) *)
Fixpoint iter_skip (k : nat) (st : St) : St :=
  match k with
  | O => st
  | S k' => match next st with Some (_, st') => iter_skip k' st' | None => st end
  end.

Definition iter_step (sa : St * list A) : (St * list A) + list A :=
  match next (fst sa) with
  | None => inr (rev (snd sa))
  | Some (a, st') => inl (st', a :: snd sa)
  end.

Lemma ends_within_mono : forall n m st, ends_within st n -> (n <= m)%nat -> ends_within st m.
Proof.
  induction n; intros m st H Hle.
  - destruct m; cbn in *; destruct (next st) as [[a st']|]; auto; contradiction.
  - destruct m; [lia|]. cbn in *. destruct (next st) as [[a st']|]; auto. apply IHn; auto. lia.
Qed.

Lemma iter_runN : forall n st acc m, ends_within st n -> (n < m)%nat ->
  runN iter_step m (st, acc) = inr (rev acc ++ unroll n st).
Proof.
  induction n; intros st acc m He Hm; (destruct m; [lia|]).
  - cbn in *. unfold iter_step at 1. cbn [fst snd].
    destruct (next st) as [[a st']|]; [contradiction|]. rewrite app_nil_r. reflexivity.
  - cbn [runN]. unfold iter_step at 1. cbn [fst snd]. cbn in He. cbn [unroll].
    destruct (next st) as [[a st']|].
    + rewrite (IHn st' (a :: acc) m He) by lia. cbn [rev]. rewrite <- app_assoc. reflexivity.
    + rewrite app_nil_r. reflexivity.
Qed.

Theorem run_iter_unroll : forall n st, ends_within st n -> (n < 2 ^ LOOP_DEPTH)%nat ->
  run_iter next st = unroll n st.
Proof.
  intros n st He Hn.
  change (run_iter next st) with
    (match loop2 LOOP_DEPTH iter_step (st, []) with inr l => l | inl sa => rev (snd sa) end).
  rewrite loop2_runN, (iter_runN n) by assumption. reflexivity.
Qed.

Theorem run_iter_nil : forall st, next st = None -> run_iter next st = [].
Proof.
  intros st E. rewrite (run_iter_unroll 0).
  - cbn. rewrite E. reflexivity.
  - cbn. rewrite E. exact I.
  - apply Nat.lt_le_trans with (m := (2 ^ 0)%nat); [cbn; lia|].
    apply Nat.pow_le_mono_r; lia.
Qed.

Theorem run_iter_cons : forall n st x st', next st = Some (x, st') ->
  ends_within st n -> (n < 2 ^ LOOP_DEPTH)%nat ->
  run_iter next st = x :: run_iter next st' /\ exists n', n = S n' /\ ends_within st' n'.
Proof.
  intros n st x st' E He Hn.
  destruct n as [|n']; cbn in He; rewrite E in He; [contradiction|].
  split; [|exists n'; auto].
  assert (He' : ends_within st (S n')) by (cbn; rewrite E; exact He).
  rewrite (run_iter_unroll (S n') st He' Hn).
  rewrite (run_iter_unroll n' st' He) by lia.
  cbn. rewrite E. reflexivity.
Qed.
End IterGen.

(* ---------- the decoders over an explicit plan ---------- *)
Section DecPlan.
Variable HO : hops.
Notation bytes := (bytes HO).
Notation hash := (hash HO).
Notation outboard := (outboard HO).
Notation item := (item HO).

(* what one call of DecodeResponseIter::next does with the plan item c (sync.rs) *)
Definition step_sync (c : chunk) (stack : list hash) (enc : bytes)
  : res dec_err item * list hash * bytes :=
  match c with
  | CParent node is_root lf rt _ =>
      if blen HO enc <? 64 then (Err (DParentNotFound node), stack, [])
      else
        let '(l, r) := parse_pair HO (take HO 64 enc) in
        let enc' := drop HO 64 enc in
        match stack with
        | [] => (Panic, [], enc')
        | ph :: stk =>
            if negb (bytes_eqb HO ph (parent_cv HO l r is_root))
            then (Err (DParentHashMismatch node), stk, enc')
            else (Ok (IParent node l r),
                  (if lf then l :: (if rt then r :: stk else stk) else (if rt then r :: stk else stk)), enc')
        end
  | CLeaf start size is_root _ =>
      if blen HO enc <? size then (Err (DLeafNotFound start), stack, [])
      else
        let buf := take HO size enc in
        let enc' := drop HO size enc in
        match stack with
        | [] => (Panic, [], enc')
        | lh :: stk =>
            if negb (bytes_eqb HO lh (hash_subtree HO start buf is_root))
            then (Err (DLeafHashMismatch start), stk, enc')
            else (Ok (ILeaf (to_bytes start) buf), stk, enc')
        end
  end.

(* ResponseDecoder::next (fsm.rs): children pushed before the comparison, EOF on a pair consumes nothing *)
Definition step_fsm (c : chunk) (stack : list hash) (enc : bytes)
  : res dec_err item * list hash * bytes :=
  match c with
  | CParent node is_root lf rt _ =>
      if blen HO enc <? 64 then (Err (DParentNotFound node), stack, enc)
      else
        let '(l, r) := parse_pair HO (take HO 64 enc) in
        let enc' := drop HO 64 enc in
        match stack with
        | [] => (Panic, [], enc')
        | ph :: stk =>
            let stk2 := (if lf then l :: (if rt then r :: stk else stk) else (if rt then r :: stk else stk)) in
            if negb (bytes_eqb HO ph (parent_cv HO l r is_root))
            then (Err (DParentHashMismatch node), stk2, enc')
            else (Ok (IParent node l r), stk2, enc')
        end
  | CLeaf start size is_root _ =>
      if blen HO enc <? size then (Err (DLeafNotFound start), stack, [])
      else
        let data := take HO size enc in
        let enc' := drop HO size enc in
        match stack with
        | [] => (Panic, [], enc')
        | lh :: stk =>
            if negb (bytes_eqb HO lh (hash_subtree HO start data is_root))
            then (Err (DLeafHashMismatch start), stk, enc')
            else (Ok (ILeaf (to_bytes start) data), stk, enc')
        end
  end.

(* result of a run: yielded items, outcome, pending stack, unread stream *)
Definition dres := (list item * outcome * list hash * bytes)%type.
Definition r_items (r : dres) : list item := fst (fst (fst r)).
Definition r_outcome (r : dres) : outcome := snd (fst (fst r)).
Definition r_stack (r : dres) : list hash := snd (fst r).
Definition r_enc (r : dres) : bytes := snd r.
Definition cons_item (i : item) (r : dres) : dres :=
  (i :: r_items r, r_outcome r, r_stack r, r_enc r).
(* number of plan items consumed by the run *)
Definition consumed (r : dres) : nat :=
  match r_outcome r with Finished => length (r_items r) | _ => S (length (r_items r)) end.

Section Generic.
Variable step : chunk -> list hash -> bytes -> res dec_err item * list hash * bytes.
Fixpoint dec_items (plan : list chunk) (stack : list hash) (enc : bytes) : dres :=
  match plan with
  | [] => ([], Finished, stack, enc)
  | c :: plan' =>
      match step c stack enc with
      | (Ok i, stk', enc') => cons_item i (dec_items plan' stk' enc')
      | (Err e, stk', enc') => ([], Failed e, stk', enc')
      | (Panic, stk', enc') => ([], Panicked, stk', enc')
      end
  end.
End Generic.

Definition dec_items_sync := dec_items step_sync.
Definition dec_items_fsm := dec_items step_fsm.

(* ---- dec_next / rd_next in terms of the per-item steps ---- *)
Lemma dec_next_step : forall st,
  dec_next HO st =
  match response_next (d_inner HO st) with
  | None => None
  | Some (c, inner') =>
      let '(r, stk, enc) := step_sync c (d_stack HO st) (d_enc HO st) in
      Some (r, mkD HO inner' stk enc)
  end.
Proof.
  intros st. unfold dec_next, step_sync.
  destruct (response_next (d_inner HO st)) as [[c inner']|]; [|reflexivity].
  destruct c as [node ir lf rt rs|start size ir rs].
  - destruct (blen HO (d_enc HO st) <? 64); [reflexivity|].
    destruct (parse_pair HO (take HO 64 (d_enc HO st))) as [l r].
    destruct (d_stack HO st) as [|ph stk]; [reflexivity|].
    destruct (negb (bytes_eqb HO ph (parent_cv HO l r ir))); [reflexivity|].
    destruct lf, rt; reflexivity.
  - destruct (blen HO (d_enc HO st) <? size); [reflexivity|].
    destruct (d_stack HO st) as [|lh stk]; [reflexivity|].
    destruct (negb (bytes_eqb HO lh _)); reflexivity.
Qed.

Lemma rd_next_step : forall st,
  rd_next HO st =
  match response_next (r_iter HO st) with
  | None => RDone (Fsm.r_enc HO st)
  | Some (c, it') =>
      let '(r, stk, enc) := step_fsm c (Fsm.r_stack HO st) (Fsm.r_enc HO st) in
      RMore (mkR HO it' stk enc (r_root HO st)) r
  end.
Proof.
  intros st. unfold rd_next, step_fsm.
  destruct (response_next (r_iter HO st)) as [[c it']|]; [|reflexivity].
  destruct c as [node ir lf rt rs|start size ir rs].
  - destruct (blen HO (Fsm.r_enc HO st) <? 64); [reflexivity|].
    destruct (parse_pair HO (take HO 64 (Fsm.r_enc HO st))) as [l r].
    destruct (Fsm.r_stack HO st) as [|ph stk]; [reflexivity|].
    destruct (negb (bytes_eqb HO ph (parent_cv HO l r ir))); destruct lf, rt; reflexivity.
  - destruct (blen HO (Fsm.r_enc HO st) <? size); [reflexivity|].
    destruct (Fsm.r_stack HO st) as [|lh stk]; [reflexivity|].
    destruct (negb (bytes_eqb HO lh _)); reflexivity.
Qed.

(* ---- dec_run ---- *)
Definition dec_run_step (sa : dstate HO * list item)
  : (dstate HO * list item) + (list item * outcome * dstate HO) :=
  match dec_next HO (fst sa) with
  | None => inr (rev (snd sa), Finished, fst sa)
  | Some (Ok it, st') => inl (st', it :: snd sa)
  | Some (Err e, st') => inr (rev (snd sa), Failed e, st')
  | Some (Panic, st') => inr (rev (snd sa), Panicked, st')
  end.

Lemma dec_runN : forall n it stk enc acc m,
  ends_within response_next it n -> (n < m)%nat ->
  let r := dec_items_sync (unroll response_next n it) stk enc in
  runN dec_run_step m (mkD HO it stk enc, acc) =
  inr (rev acc ++ r_items r, r_outcome r,
       mkD HO (iter_skip response_next (consumed r) it) (r_stack r) (r_enc r)).
Proof.
  induction n; intros it stk enc acc m He Hm; (destruct m; [lia|]);
    cbn [runN]; unfold dec_run_step at 1; cbn [fst snd]; rewrite dec_next_step; cbn [d_inner d_stack d_enc];
    cbn in He; cbn [unroll].
  - destruct (response_next it) as [[c it']|] eqn:E; [contradiction|].
    cbn. rewrite app_nil_r. reflexivity.
  - destruct (response_next it) as [[c it']|] eqn:E.
    + unfold dec_items_sync. cbn [dec_items].
      destruct (step_sync c stk enc) as [[[i|e|] stk'] enc'].
      * rewrite (IHn it' stk' enc' (i :: acc) m He) by lia.
        unfold dec_items_sync.
        set (r := dec_items step_sync (unroll response_next n it') stk' enc').
        unfold cons_item, consumed, r_items, r_outcome, r_stack, r_enc. cbn [fst snd rev length].
        rewrite <- app_assoc. cbn [app].
        destruct (snd (fst (fst r))); cbn [iter_skip]; rewrite E; reflexivity.
      * cbn. rewrite E, app_nil_r. reflexivity.
      * cbn. rewrite E, app_nil_r. reflexivity.
    + cbn. rewrite app_nil_r. reflexivity.
Qed.

Theorem dec_run_unroll : forall n it stk enc,
  ends_within response_next it n -> (n < 2 ^ LOOP_DEPTH)%nat ->
  let r := dec_items_sync (run_iter response_next it) stk enc in
  dec_run HO (mkD HO it stk enc) =
  (r_items r, r_outcome r, mkD HO (iter_skip response_next (consumed r) it) (r_stack r) (r_enc r)).
Proof.
  intros n it stk enc He Hn. rewrite (run_iter_unroll _ n) by assumption.
  change (dec_run HO (mkD HO it stk enc)) with
    (match loop2 LOOP_DEPTH dec_run_step (mkD HO it stk enc, []) with
     | inr r => r | inl sa => (rev (snd sa), OutOfFuel, fst sa) end).
  rewrite loop2_runN. cbv zeta. rewrite (dec_runN n) by assumption. reflexivity.
Qed.

(* ---- rd_run ---- *)
Definition rd_run_step (sa : rstate HO * list item)
  : (rstate HO * list item) + (list item * outcome * rstate HO) :=
  match rd_next HO (fst sa) with
  | RDone _ => inr (rev (snd sa), Finished, fst sa)
  | RMore st' (Ok it) => inl (st', it :: snd sa)
  | RMore st' (Err e) => inr (rev (snd sa), Failed e, st')
  | RMore st' Panic => inr (rev (snd sa), Panicked, st')
  end.

Lemma rd_runN : forall n it stk enc root acc m,
  ends_within response_next it n -> (n < m)%nat ->
  let r := dec_items_fsm (unroll response_next n it) stk enc in
  runN rd_run_step m (mkR HO it stk enc root, acc) =
  inr (rev acc ++ r_items r, r_outcome r,
       mkR HO (iter_skip response_next (consumed r) it) (r_stack r) (r_enc r) root).
Proof.
  induction n; intros it stk enc root acc m He Hm; (destruct m; [lia|]);
    cbn [runN]; unfold rd_run_step at 1; cbn [fst snd]; rewrite rd_next_step;
    cbn [r_iter Fsm.r_stack Fsm.r_enc r_root];
    cbn in He; cbn [unroll].
  - destruct (response_next it) as [[c it']|] eqn:E; [contradiction|].
    cbn. rewrite app_nil_r. reflexivity.
  - destruct (response_next it) as [[c it']|] eqn:E.
    + unfold dec_items_fsm. cbn [dec_items].
      destruct (step_fsm c stk enc) as [[[i|e|] stk'] enc'].
      * rewrite (IHn it' stk' enc' root (i :: acc) m He) by lia.
        unfold dec_items_fsm.
        set (r := dec_items step_fsm (unroll response_next n it') stk' enc').
        unfold cons_item, consumed, r_items, r_outcome, r_stack, r_enc. cbn [fst snd rev length].
        rewrite <- app_assoc. cbn [app].
        destruct (snd (fst (fst r))); cbn [iter_skip]; rewrite E; reflexivity.
      * cbn. rewrite E, app_nil_r. reflexivity.
      * cbn. rewrite E, app_nil_r. reflexivity.
    + cbn. rewrite app_nil_r. reflexivity.
Qed.

Theorem rd_run_unroll : forall n it stk enc root,
  ends_within response_next it n -> (n < 2 ^ LOOP_DEPTH)%nat ->
  let r := dec_items_fsm (run_iter response_next it) stk enc in
  rd_run HO (mkR HO it stk enc root) =
  (r_items r, r_outcome r, mkR HO (iter_skip response_next (consumed r) it) (r_stack r) (r_enc r) root).
Proof.
  intros n it stk enc root He Hn. rewrite (run_iter_unroll _ n) by assumption.
  change (rd_run HO (mkR HO it stk enc root)) with
    (match loop2 LOOP_DEPTH rd_run_step (mkR HO it stk enc root, []) with
     | inr r => r | inl sa => (rev (snd sa), OutOfFuel, fst sa) end).
  rewrite loop2_runN. cbv zeta. rewrite (rd_runN n) by assumption. reflexivity.
Qed.

End DecPlan.
