(* C03: create_sized on the io-backed outboards produces exactly the specified outboard bytes. *)
From BaoV Require Import Model.Sync Model.Fsm Spec.EncSpec Spec.PlanSpec Spec.HashAssm
  Proofs.NodeLevel Proofs.NodeBits Proofs.RangeRound Proofs.ObBase Proofs.ObLoop Proofs.ObCreate Proofs.ObSize
  Proofs.ObLayout.
From Coq Require Import Lia Arith PeanoNat ZArith ZifyN ZifyNat ZifyBool.

Definition sh_list (post : bool) := if post then sh_post else sh_pre.

Lemma sh_list_small post f a n : n <= 2 -> sh_list post (S f) a n = [a].
Proof. intro H. destruct post; cbn [sh_list sh_post sh_pre]; replace (n <=? 2) with true by lia; reflexivity. Qed.
Lemma sh_list_unfold post f a n : 3 <= n ->
  sh_list post (S f) a n =
    let half := next_pow2 n / 2 in
    if post then sh_list post f a half ++ sh_list post f (a + half) (n - half) ++ [a + half - 1]
    else (a + half - 1) :: sh_list post f a half ++ sh_list post f (a + half) (n - half).
Proof. intro H. destruct post; cbn [sh_list sh_post sh_pre]; replace (n <=? 2) with false by lia; reflexivity. Qed.

Lemma node_level bs a k J : a = 2 * J * 2 ^ k -> sp_level (unshift bs (a + 2 ^ k - 1)) = k + bs.
Proof.
  intro Ha. pose proof (pow2_pos k). pose proof (pow2_pos bs).
  rewrite <- level_is_sp_level.
  apply (decomp_unique _ (k + bs) J).
  rewrite unshift_succ, pow2_add, Ha. replace (2 * J * 2 ^ k + 2 ^ k - 1 + 1) with ((2 * J + 1) * 2 ^ k) by lia. lia.
Qed.

Lemma sp_post_nodes_eq size bs :
  sp_post_nodes size bs = map (unshift bs) (sh_list true 65 0 (sp_blocks size bs)).
Proof. unfold sp_post_nodes, sh_list. reflexivity. Qed.
Lemma sp_pre_nodes_eq size bs :
  sp_pre_nodes size bs = map (unshift bs) (sh_list false 65 0 (sp_blocks size bs)).
Proof. unfold sp_pre_nodes, sh_list. reflexivity. Qed.

Definition aligned1 (g nch a n : N) : Prop :=
  exists c j, 1 <= c /\ a = j * 2 ^ c /\ n <= 2 ^ c /\ (n = 2 ^ c \/ nch <= (a + n) * g).

Section Shape.
Variable HO : hops.
Notation bytes := (bytes HO).
Notation hash := (hash HO).
Notation blen := (blen HO).
Variable data : bytes.
Variable bs : N.
Notation size := (blen data).
Notation nch := (blob_chunks HO data).
Notation g := (2 ^ bs).

Lemma persisted_leaf a : (exists J, a = 2 * J) ->
  sp_persisted size bs (unshift bs a) = ((a + 1) * g * 1024 <? size).
Proof.
  intros (J & Ha). unfold sp_persisted.
  assert (E : sp_level (unshift bs a) = bs).
  { pose proof (node_level bs a 0 J ltac:(rewrite Ha; change (2 ^ 0) with 1; lia)) as H.
    change (2 ^ 0) with 1 in H. replace (a + 1 - 1) with a in H by lia. rewrite H. lia. }
  rewrite E, unshift_succ, N.ltb_irrefl, N.eqb_refl. reflexivity.
Qed.

Lemma shape_nodes post : forall (m : nat) f1 f2 a n,
  (m < f1)%nat -> (m < f2)%nat -> 1 <= n -> n <= 2 ^ N.of_nat m -> (a + n - 1) * g < nch ->
  aligned1 g nch a n ->
  filter (sp_persisted size bs) (map (unshift bs) (sh_list post f1 a n))
  = map fst (pairs_rec HO f2 post data bs nch a n).
Proof.
  pose proof (pow2_pos bs) as Hg.
  assert (Hcov : size <= nch * 1024) by apply nchunks_cover.
  assert (Hone : forall f1 f2 a, (exists c j, 1 <= c /\ a = j * 2 ^ c /\ nch <= (a + 1) * g) ->
            filter (sp_persisted size bs) (map (unshift bs) (sh_list post (S f1) a 1))
            = map fst (pairs_rec HO f2 post data bs nch a 1)).
  { intros f1 f2 a (c & j & Hc & Ha & Hedge). rewrite sh_list_small, pairs_rec_1 by lia.
    cbn [map filter]. rewrite persisted_leaf.
    - replace ((a + 1) * g * 1024 <? size) with false; [reflexivity|].
      assert (nch * 1024 <= (a + 1) * g * 1024) by lia. lia.
    - exists (j * 2 ^ (c - 1)). rewrite Ha, (pow2_pred c) by lia. lia. }
  induction m as [|m IH]; intros f1 f2 a n Hf1 Hf2 H1 Hm Hlast Hal;
    (destruct f1 as [|f1]; [lia|]); (destruct f2 as [|f2]; [lia|]).
  - apply le1_pow0 in Hm. assert (n = 1) by lia. subst n.
    apply Hone. destruct Hal as (c & j & Hc & Ha & Hn & Hedge). exists c, j.
    split; [exact Hc|split; [exact Ha|]]. destruct Hedge as [E|E]; [|exact E].
    pose proof (pow2_pred c ltac:(lia)). pose proof (pow2_pos (c - 1)). lia.
  - destruct (N.eq_dec n 1) as [->|Hn1].
    { apply Hone. destruct Hal as (c & j & Hc & Ha & Hn & Hedge). exists c, j.
      split; [exact Hc|split; [exact Ha|]]. destruct Hedge as [E|E]; [|exact E].
      pose proof (pow2_pred c ltac:(lia)). pose proof (pow2_pos (c - 1)). lia. }
    destruct Hal as (c & j & Hc & Ha & Hnc & Hedge).
    destruct (N.eq_dec n 2) as [->|Hn2].
    { rewrite sh_list_small, pairs_rec_unfold by lia. cbv zeta. rewrite next_pow2_2, !pairs_rec_1.
      cbn [map filter]. rewrite persisted_leaf.
      - replace ((a + 1) * g * 1024 <? size) with true.
        + replace (a + 1 - 1) with a by lia. destruct post; reflexivity.
        + replace (a + 2 - 1) with (a + 1) in Hlast by lia.
          apply nchunks_spec in Hlast. fold size in Hlast. nia.
      - exists (j * 2 ^ (c - 1)). rewrite Ha, (pow2_pred c) by lia. lia. }
    assert (H3 : 3 <= n) by lia.
    rewrite sh_list_unfold, pairs_rec_unfold by lia. cbv zeta.
    destruct (half_facts n m ltac:(lia) Hm) as (Hh1 & Hh2 & Hh3 & Hh4 & (k & Hk)).
    set (half := next_pow2 n / 2) in *.
    assert (Hk1 : 1 <= k).
    { destruct (N.eq_dec k 0) as [E|E]; [|lia]. rewrite E in Hk. change (2 ^ 0) with 1 in Hk. lia. }
    pose proof (pow2_pos k) as Hkp.
    assert (Hck : k + 1 <= c).
    { assert (A : 2 ^ k < 2 ^ c) by lia. apply N.pow_lt_mono_r_iff in A; lia. }
    assert (Hc2 : 2 ^ c = 2 ^ (c - (k + 1)) * (2 * 2 ^ k)).
    { rewrite <- pow2_succ, <- pow2_add. f_equal. lia. }
    set (J := j * 2 ^ (c - (k + 1))).
    assert (HaJ : a = 2 * J * 2 ^ k) by (unfold J; rewrite Ha, Hc2; lia).
    assert (Hfull : n = 2 * half \/ nch <= (a + n) * g).
    { destruct Hedge as [E|E]; [left|right; exact E].
      pose proof (pow2_pos (c - (k + 1))). rewrite Hk. nia. }
    assert (HlastL : (a + half - 1) * g < nch) by (apply (mul_lt_le _ (a + n - 1)); [lia|exact Hlast]).
    assert (HlastR : (a + half + (n - half) - 1) * g < nch) by (replace (a + half + (n - half)) with (a + n) by lia; exact Hlast).
    assert (IHL := IH f1 f2 a half ltac:(lia) ltac:(lia) ltac:(lia) ltac:(lia) HlastL
                     ltac:(exists k, (2 * J); rewrite Hk; split; [lia|split; [lia|split; [lia|left; reflexivity]]])).
    assert (IHR := IH f1 f2 (a + half) (n - half) ltac:(lia) ltac:(lia) ltac:(lia) ltac:(lia) HlastR
                     ltac:(exists k, (2 * J + 1); rewrite Hk; split; [lia|split; [lia|split; [lia|]]];
                           destruct Hfull as [E|E]; [left; lia|right];
                           replace (a + 2 ^ k + (n - 2 ^ k)) with (a + n) by lia; exact E)).
    assert (Hroot : sp_persisted size bs (unshift bs (a + half - 1)) = true).
    { unfold sp_persisted. rewrite Hk, (node_level bs a k J HaJ).
      replace (bs <? k + bs) with true by lia. reflexivity. }
    destruct post.
    + rewrite !map_app, !filter_app, IHL, IHR. cbn [map filter fst]. rewrite Hroot. reflexivity.
    + cbn [map filter fst]. rewrite Hroot. rewrite !map_app, !filter_app, IHL, IHR. reflexivity.
Qed.

Lemma pairs_in_equiv n0 : forall f ga n p,
  In p (pairs_rec HO f true data bs n0 ga n) <-> In p (pairs_rec HO f false data bs n0 ga n).
Proof.
  induction f as [|f IH]; intros ga n p; [reflexivity|].
  cbn [pairs_rec]. destruct (n <=? 1); [reflexivity|]. cbv zeta.
  cbn [In]. rewrite !in_app_iff. cbn [In]. rewrite !IH. tauto.
Qed.
End Shape.

Section Create.
Variable HO : hops.
Hypothesis Hlen : cv_len32 HO.
Notation bytes := (bytes HO).
Notation hash := (hash HO).
Notation outboard := (outboard HO).
Notation blen := (blen HO).
Variable data : bytes.
Variable bs : N.
Hypothesis Hsize : blen data <= 2 ^ 63.
Notation size := (blen data).
Notation nch := (blob_chunks HO data).
Notation t := (mkTree size bs).
Hypothesis Hplan : post_order_chunks_iter t = post_plan size bs.

Lemma set_root_mk k (h0 : hash) tr (d : bytes) (h : hash) : set_root HO (mkOb k h0 tr d) h = mkOb k h tr d.
Proof. reflexivity. Qed.

Lemma blocks_m63 : sp_blocks size bs <= 2 ^ N.of_nat 63.
Proof.
  pose proof (sp_blocks_bound size bs Hsize) as Hb2.
  change (2 ^ N.of_nat 63) with 9223372036854775808. change (2 ^ 53) with 9007199254740992 in Hb2. lia.
Qed.

Lemma saved_layout (kd : ob_kind) (post : bool) (offn : N -> option N) (nodes : list N) (r0 : hash) :
  io_backed kd ->
  (forall nd, off_of HO kd r0 t nd = offn nd) ->
  nodes = map (unshift bs) (sh_list post 65 0 (sp_blocks size bs)) ->
  map offn (filter (sp_persisted size bs) nodes)
    = map (fun i => Some (N.of_nat i)) (seq 0 (N.to_nat (sp_blocks size bs - 1))) ->
  save_all HO (mkOb kd r0 t []) (saves HO data (post_plan size bs))
    = Ok (mkOb kd r0 t (spec_outboard HO post data bs)).
Proof.
  intros Hk Hoffn Hnodes Hoff. subst nodes.
  pose proof (sp_blocks_pos size bs) as Hb1. pose proof blocks_m63 as Hm.
  pose proof (sp_blocks_last size bs) as Hlast.
  set (P := pairs_rec HO 64 post data bs nch 0 (sp_blocks size bs)).
  destruct (pairs_rec_len HO Hlen data bs nch post (nchunks_bound _ Hsize) 63 64 0 (sp_blocks size bs)
              ltac:(lia) Hb1 Hm ltac:(exact Hlast)) as [HL HP32]. fold P in HL, HP32.
  assert (Hsh : filter (sp_persisted size bs) (map (unshift bs) (sh_list post 65 0 (sp_blocks size bs)))
                = map fst P).
  { apply (shape_nodes HO data bs post 63 65 64 0 (sp_blocks size bs)); try lia; try exact Hm.
    - exact Hlast.
    - exists 63, 0. split; [lia|split; [lia|split; [exact Hm|right]]].
      rewrite N.add_0_l. apply sp_blocks_cover. }
  assert (HoffP : map (off_of HO kd r0 t) (map fst P) = map (fun i => Some (N.of_nat i)) (seq 0 (length P))).
  { rewrite HL, <- Hsh, <- Hoff. apply map_ext. exact Hoffn. }
  unfold post_plan. rewrite <- (pairs_eq_saves HO data bs Hsize 65 64) by lia.
  rewrite spec_outboard_flat. fold P.
  apply (layout HO kd Hk r0 t P HP32 HoffP).
  intro p. destruct post; [reflexivity|apply pairs_in_equiv].
Qed.

Lemma create_layout (kd : ob_kind) (post : bool) (offn : N -> option N) (nodes : list N) :
  io_backed kd ->
  (forall r0 nd, off_of HO kd r0 t nd = offn nd) ->
  nodes = map (unshift bs) (sh_list post 65 0 (sp_blocks size bs)) ->
  map offn (filter (sp_persisted size bs) nodes)
    = map (fun i => Some (N.of_nat i)) (seq 0 (N.to_nat (sp_blocks size bs - 1))) ->
  create_sized HO kd data size bs = Ok (mkOb kd (root_hash HO data) t (spec_outboard HO post data bs)) /\
  create_sized_fsm HO kd data size bs = Ok (mkOb kd (root_hash HO data) t (spec_outboard HO post data bs)).
Proof.
  intros Hk Hoffn Hnodes Hoff.
  pose proof (saved_layout kd post offn nodes (hash_subtree HO 0 [] true) Hk (Hoffn _) Hnodes Hoff) as E.
  split.
  - unfold create_sized, init_from. cbn [ob_tree].
    rewrite <- (set_root_mk kd (hash_subtree HO 0 [] true) t (spec_outboard HO post data bs) (root_hash HO data)).
    exact (init_match HO _ _ _ _ (outboard_impl_ok HO data bs Hsize Hplan _ _ E)).
  - unfold create_sized_fsm, init_from_fsm. cbn [ob_tree].
    rewrite <- (set_root_mk kd (hash_subtree HO 0 [] true) t (spec_outboard HO post data bs) (root_hash HO data)).
    exact (init_match HO _ _ _ _ (outboard_impl_fsm_ok HO data bs Hsize Hplan _ _ E)).
Qed.

Lemma layout_post :
  map (fun nd => option_map po_value (post_order_offset t nd))
      (filter (sp_persisted size bs) (sp_post_nodes size bs))
    = map (fun i => Some (N.of_nat i)) (seq 0 (N.to_nat (sp_blocks size bs - 1))) ->
  create_sized HO PostIO data size bs = Ok (mkOb PostIO (root_hash HO data) t (spec_outboard HO true data bs)) /\
  create_sized_fsm HO PostIO data size bs = Ok (mkOb PostIO (root_hash HO data) t (spec_outboard HO true data bs)).
Proof.
  intro Hoff.
  apply (create_layout PostIO true (fun nd => option_map po_value (post_order_offset t nd)) (sp_post_nodes size bs)).
  - right. reflexivity.
  - intros r0 nd. reflexivity.
  - apply sp_post_nodes_eq.
  - exact Hoff.
Qed.

Lemma layout_pre :
  map (fun nd => pre_order_offset t nd)
      (filter (sp_persisted size bs) (sp_pre_nodes size bs))
    = map (fun i => Some (N.of_nat i)) (seq 0 (N.to_nat (sp_blocks size bs - 1))) ->
  create_sized HO PreIO data size bs = Ok (mkOb PreIO (root_hash HO data) t (spec_outboard HO false data bs)) /\
  create_sized_fsm HO PreIO data size bs = Ok (mkOb PreIO (root_hash HO data) t (spec_outboard HO false data bs)).
Proof.
  intro Hoff.
  apply (create_layout PreIO false (fun nd => pre_order_offset t nd) (sp_pre_nodes size bs)).
  - left. reflexivity.
  - intros r0 nd. reflexivity.
  - apply sp_pre_nodes_eq.
  - exact Hoff.
Qed.
End Create.
