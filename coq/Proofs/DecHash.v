(* Consequences of the hash assumptions: bytes_eqb decides equality; hash_subtree is injective on
   data of equal length (for lengths the fuel of hash_subtree covers). *)
From BaoV Require Import Model.Fsm Spec.HashAssm.
From Coq Require Import Lia Arith.

(* ---------- next_pow2 ---------- *)
Lemma next_pow2_facts : forall n f, 2 <= n -> n <= 2 ^ f ->
  let p := next_pow2 n in
  n <= p /\ p <= 2 ^ f /\ p = 2 * (p / 2) /\ p / 2 < n.
Proof.
  intros n f H2 Hf. cbv zeta. unfold next_pow2.
  destruct n as [|q] eqn:En; [lia|]. rewrite <- En in *. clear En q.
  assert (Hpos : 0 < n) by lia.
  pose proof (N.log2_spec n Hpos) as [Hlo Hhi].
  assert (Hl1 : 1 <= N.log2 n).
  { destruct (N.log2 n) eqn:E; [|lia]. rewrite N.pow_succ_r' in Hhi. cbn in Hhi. lia. }
  assert (Hsplit : 2 ^ N.log2 n = 2 * 2 ^ (N.log2 n - 1)).
  { rewrite <- N.pow_succ_r'. f_equal. lia. }
  set (m := 2 ^ (N.log2 n - 1)) in *.
  destruct (n =? 2 ^ N.log2 n) eqn:E.
  - apply N.eqb_eq in E.
    assert (Hd : n / 2 = m) by (symmetry; apply N.div_unique_exact; lia).
    rewrite Hd. lia.
  - apply N.eqb_neq in E. rewrite N.pow_succ_r'.
    rewrite (N.mul_comm 2), N.div_mul by lia.
    rewrite N.pow_succ_r' in Hhi.
    assert (N.log2 n < f).
    { destruct (N.lt_ge_cases (N.log2 n) f) as [L|G]; [exact L|].
      apply (N.pow_le_mono_r 2) in G; lia. }
    assert (2 ^ N.succ (N.log2 n) <= 2 ^ f) by (apply N.pow_le_mono_r; lia).
    rewrite N.pow_succ_r' in *. repeat split; lia.
Qed.

Section DecHash.
Variable HO : hops.
Notation bytes := (bytes HO).
Notation hash := (hash HO).
Hypothesis HOK : hash_ok HO.

Lemma bytes_eqb_refl : forall a : bytes, bytes_eqb HO a a = true.
Proof.
  induction a; cbn; [reflexivity|]. rewrite IHa.
  rewrite (proj2 (ho_beq HO HOK a a) eq_refl). reflexivity.
Qed.

Lemma bytes_eqb_eq : forall a b : bytes, bytes_eqb HO a b = true <-> a = b.
Proof.
  split.
  - revert b. induction a; destruct b; cbn; intros H; try discriminate; [reflexivity|].
    apply andb_true_iff in H. destruct H as [H1 H2].
    apply (ho_beq HO HOK) in H1. subst. f_equal. auto.
  - intros ->. apply bytes_eqb_refl.
Qed.

Lemma blen_take : forall k (d : bytes), blen HO (take HO k d) = N.min k (blen HO d).
Proof. intros. unfold blen, take. rewrite firstn_length. lia. Qed.
Lemma blen_drop : forall k (d : bytes), blen HO (drop HO k d) = blen HO d - k.
Proof. intros. unfold blen, drop. rewrite skipn_length. lia. Qed.
Lemma take_drop : forall k (d : bytes), take HO k d ++ drop HO k d = d.
Proof. intros. apply firstn_skipn. Qed.

(* the arithmetic of one split of subtree_cv *)
Lemma split_facts : forall len f, 1024 < len -> len <= 1024 * 2 ^ N.succ f ->
  let half := next_pow2 ((len + 1023) / 1024) / 2 in
  half * 1024 < len /\ half * 1024 <= 1024 * 2 ^ f /\ len - half * 1024 <= 1024 * 2 ^ f.
Proof.
  intros len f Hlo Hhi. cbv zeta.
  assert (Z1 : 1024 <> 0) by lia.
  pose proof (N.div_mod (len + 1023) 1024 Z1) as D1.
  pose proof (N.mod_lt (len + 1023) 1024 Z1) as D2.
  remember ((len + 1023) / 1024) as n eqn:En.
  remember ((len + 1023) mod 1024) as rr eqn:Er. clear En Er.
  assert (H2 : 2 <= n) by lia.
  assert (Hf : n <= 2 ^ N.succ f) by lia.
  pose proof (next_pow2_facts n (N.succ f) H2 Hf) as [P1 [P2 [P3 P4]]].
  rewrite N.pow_succ_r' in P2.
  remember (next_pow2 n / 2) as half eqn:Eh. clear Eh.
  remember (2 ^ f) as pf eqn:Ep. rewrite N.pow_succ_r' in Hhi. rewrite <- Ep in Hhi. clear Ep.
  lia.
Qed.

(* fuel S f covers data of at most 1024 * 2^f bytes *)
Lemma subtree_cv_len : forall f s (d : bytes) r,
  blen HO d <= 1024 * 2 ^ N.of_nat f -> length (subtree_cv HO (S f) s d r) = 32%nat.
Proof.
  induction f; intros s d r Hd; cbn [subtree_cv].
  - cbn in Hd. replace (blen HO d <=? 1024) with true by (symmetry; apply N.leb_le; lia).
    apply (ho_len HO HOK (InChunk HO s d r)). cbn. unfold blen in Hd. lia.
  - destruct (blen HO d <=? 1024) eqn:E.
    + apply N.leb_le in E. apply (ho_len HO HOK (InChunk HO s d r)). cbn. unfold blen in E. lia.
    + apply N.leb_gt in E. rewrite Nat2N.inj_succ in Hd.
      destruct (split_facts (blen HO d) (N.of_nat f) E Hd) as [S1 [S2 S3]].
      apply (ho_len HO HOK (InParent HO _ _ r)). cbn. split; apply IHf.
      * rewrite blen_take. lia.
      * rewrite blen_drop. lia.
Qed.

Lemma subtree_cv_inj : forall f s (d1 d2 : bytes) r,
  blen HO d1 <= 1024 * 2 ^ N.of_nat f -> length d1 = length d2 ->
  subtree_cv HO (S f) s d1 r = subtree_cv HO (S f) s d2 r -> d1 = d2.
Proof.
  induction f; intros s d1 d2 r Hd Hlen; cbn [subtree_cv];
    assert (Hb : blen HO d2 = blen HO d1) by (unfold blen; rewrite Hlen; reflexivity); rewrite Hb.
  - cbn in Hd. replace (blen HO d1 <=? 1024) with true by (symmetry; apply N.leb_le; lia).
    intros H. apply (ho_inj HO HOK (InChunk HO s d1 r) (InChunk HO s d2 r)) in H.
    + congruence.
    + cbn. unfold blen in Hd. lia.
    + cbn. unfold blen in Hd. lia.
  - destruct (blen HO d1 <=? 1024) eqn:E.
    + apply N.leb_le in E. intros H.
      apply (ho_inj HO HOK (InChunk HO s d1 r) (InChunk HO s d2 r)) in H.
      * congruence.
      * cbn. unfold blen in E. lia.
      * cbn. unfold blen in E. lia.
    + apply N.leb_gt in E. rewrite Nat2N.inj_succ in Hd.
      destruct (split_facts (blen HO d1) (N.of_nat f) E Hd) as [S1 [S2 S3]].
      set (k := next_pow2 ((blen HO d1 + 1023) / 1024) / 2 * 1024) in *.
      intros H.
      apply (ho_inj HO HOK (InParent HO _ _ r) (InParent HO _ _ r)) in H.
      * injection H as H1 H2.
        apply IHf in H1; [|rewrite blen_take; lia|unfold take; rewrite !firstn_length; lia].
        apply IHf in H2; [|rewrite blen_drop; lia|unfold drop; rewrite !skipn_length; lia].
        rewrite <- (take_drop k d1), <- (take_drop k d2). congruence.
      * cbn. split; apply subtree_cv_len; [rewrite blen_take|rewrite blen_drop]; lia.
      * cbn. split; apply subtree_cv_len; [rewrite blen_take|rewrite blen_drop]; lia.
Qed.

(* leaves the fuel of hash_subtree (64) covers: at most 2^63 chunks *)
Definition leaf_len_ok (d : bytes) : Prop := blen HO d <= 1024 * 2 ^ 63.

Lemma hash_subtree_inj : forall s (d1 d2 : bytes) r,
  leaf_len_ok d1 -> length d1 = length d2 ->
  hash_subtree HO s d1 r = hash_subtree HO s d2 r -> d1 = d2.
Proof.
  intros s d1 d2 r Hd Hlen. unfold hash_subtree.
  change 64%nat with (S 63). apply subtree_cv_inj; [|exact Hlen].
  unfold leaf_len_ok in Hd. change (N.of_nat 63) with 63. exact Hd.
Qed.

Lemma parent_cv_inj : forall (l r l' r' : hash) f,
  length l = 32%nat -> length r = 32%nat -> length l' = 32%nat -> length r' = 32%nat ->
  parent_cv HO l r f = parent_cv HO l' r' f -> l = l' /\ r = r'.
Proof.
  intros l r l' r' f H1 H2 H3 H4 H.
  apply (ho_inj HO HOK (InParent HO l r f) (InParent HO l' r' f)) in H; cbn; auto.
  injection H; auto.
Qed.

End DecHash.
