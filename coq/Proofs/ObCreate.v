(* C03: the outboard creation entry points compute the BLAKE3 root and the specified pairs. *)
From BaoV Require Import Model.Sync Model.Fsm Spec.EncSpec Spec.PlanSpec Spec.HashAssm
  Proofs.NodeLevel Proofs.NodeBits Proofs.RangeRound Proofs.ObBase Proofs.ObLoop.
From Coq Require Import Lia Arith PeanoNat ZArith ZifyN ZifyNat ZifyBool.

Lemma blocks_sp_blocks size bs : blocks (mkTree size bs) = sp_blocks size bs.
Proof.
  unfold blocks, blocks_raw, sp_blocks. cbn [tsize tbs].
  rewrite mask_ones, N.land_ones, b2n_part, N.shiftr_div_pow2.
  pose proof (pow2_pos bs) as Hg.
  rewrite (cdiv_alt size (1024 * 2 ^ bs)) by lia.
  replace (1024 * 2 ^ bs) with (2 ^ (bs + 10)) by (rewrite pow2_add; change (2 ^ 10) with 1024; lia).
  unfold cdiv. lia.
Qed.

Section ObCreate.
Variable HO : hops.
Notation bytes := (bytes HO).
Notation hash := (hash HO).
Notation outboard := (outboard HO).
Notation blen := (blen HO).
Notation take := (take HO).
Notation drop := (drop HO).
Notation cv := (cv HO).

(* ---- the four model loops are instances of the generic loop ---- *)
Definition po_sink (out : bytes) (_ : N) (l r : hash) : res io_kind bytes := Ok (out ++ l ++ r).

Lemma outboard_loop_gloop : forall items stk d ob,
  outboard_loop HO items stk d ob = gloop HO outboard (save HO) items stk d ob.
Proof. intros. reflexivity. Qed.
Lemma outboard_loop_fsm_gloop : forall items stk d ob,
  outboard_loop_fsm HO items stk d ob = gloop HO outboard (save HO) items stk d ob.
Proof. intros. reflexivity. Qed.
Lemma outboard_po_loop_gloop : forall items stk d out,
  outboard_po_loop HO items stk d out = gloop HO bytes po_sink items stk d out.
Proof. intros. reflexivity. Qed.
Lemma outboard_po_loop_fsm_gloop : forall items stk d out,
  outboard_po_loop_fsm HO items stk d out = gloop HO bytes po_sink items stk d out.
Proof. intros. reflexivity. Qed.

Lemma gfold_po_sink : forall l out, gfold HO bytes po_sink out l = Ok (out ++ flat_pairs HO l).
Proof.
  induction l as [|[nd [lh rh]] l IH]; intro out.
  - cbn [gfold]. unfold flat_pairs. cbn [map concat]. now rewrite app_nil_r.
  - cbn [gfold]. unfold po_sink at 1. rewrite IH. f_equal.
    unfold flat_pairs. cbn [map concat fst snd]. now rewrite <- !app_assoc.
Qed.

(* ---- the sequence of saves ---- *)
Definition saves (data : bytes) (plan : list chunk) : list (N * (hash * hash)) :=
  map (fun nd => (nd, true_pair HO data nd)) (plan_parents plan).

Fixpoint save_all (ob : outboard) (l : list (N * (hash * hash))) : res io_kind outboard :=
  match l with
  | [] => Ok ob
  | (nd, (lh, rh)) :: t =>
      match save HO ob nd lh rh with
      | Ok ob' => save_all ob' t
      | Err k => Err k
      | Panic => Panic
      end
  end.
Lemma save_all_gfold : forall l ob, save_all ob l = gfold HO outboard (save HO) ob l.
Proof.
  induction l as [|[nd [lh rh]] l IH]; intro ob; [reflexivity|].
  cbn [save_all gfold]. destruct (save HO ob nd lh rh); [apply IH|reflexivity|reflexivity].
Qed.

Lemma in_saves data p plan : In p (saves data plan) -> In (fst p) (plan_parents plan).
Proof. unfold saves. intro H. apply in_map_iff in H. destruct H as (nd & <- & H). exact H. Qed.

Lemma set_root_fields (ob : outboard) (h : hash) :
  ob_root (set_root HO ob h) = h /\ ob_k (set_root HO ob h) = ob_k ob /\ ob_tree (set_root HO ob h) = ob_tree ob.
Proof. repeat split. Qed.
Lemma init_match (x : res io_kind hash * outboard * bytes) h ob' d : x = (Ok h, ob', d) ->
  match x with (Ok h1, ob1, _) => Ok (set_root HO ob1 h1) | (Err k, _, _) => Err k | (Panic, _, _) => Panic end
  = Ok (set_root HO ob' h).
Proof. intros ->. reflexivity. Qed.
Lemma pre_mem_match (x : res io_kind hash * outboard * bytes) h ob' d : x = (Ok h, ob', d) ->
  match x with (Ok h1, ob1, _) => Ok (set_root HO ob1 h1) | _ => Panic end = (Ok (set_root HO ob' h) : res io_kind outboard).
Proof. intros ->. reflexivity. Qed.
Lemma post_mem_match (x : res io_kind hash * bytes * bytes) (tr : tree) h out d : x = (Ok h, out, d) ->
  match x with (Ok h1, out1, _) => Ok (mkOb PostMem h1 tr out1) | _ => Panic end = (Ok (mkOb PostMem h tr out) : res io_kind outboard).
Proof. intros ->. reflexivity. Qed.

Section Blob.
Variable data : bytes.
Variable bs : N.
Hypothesis Hsize : blen data <= 2 ^ 63.
Notation size := (blen data).
Notation nch := (blob_chunks HO data).
Notation t := (mkTree size bs).

Lemma pairs_eq_saves f1 f2 : (63 < f1)%nat -> (63 < f2)%nat ->
  pairs_rec HO f2 true data bs nch 0 (sp_blocks size bs)
  = saves data (post_plan_rec f1 size bs 0 (sp_blocks size bs) true).
Proof.
  intros Hf1 Hf2.
  pose proof (sp_blocks_pos size bs) as Hb1. pose proof (sp_blocks_bound size bs Hsize) as Hb2.
  assert (Hm : sp_blocks size bs <= 2 ^ N.of_nat 63).
  { change (2 ^ N.of_nat 63) with 9223372036854775808. change (2 ^ 53) with 9007199254740992 in Hb2. lia. }
  unfold saves.
  rewrite (pairs_nodes_post HO data size bs nch 63 f1 f2 0 (sp_blocks size bs) true Hf1 Hf2 Hb1 Hm).
  apply Forall_pairs_map.
  apply (pairs_true HO data bs true 63 f2 0 (sp_blocks size bs) Hf2 Hb1 Hm).
  exists 63, 0. split; [lia|split; [exact Hm|right]].
  pose proof (sp_blocks_cover size bs) as Hc. rewrite N.add_0_l. exact Hc.
Qed.

Lemma spec_outboard_flat post :
  spec_outboard HO post data bs = flat_pairs HO (pairs_rec HO 64 post data bs nch 0 (sp_blocks size bs)).
Proof.
  unfold spec_outboard. cbv zeta. rewrite ob_rec_flat.
  rewrite sp_blocks_groups. reflexivity.
Qed.

Hypothesis Hplan : post_order_chunks_iter t = post_plan size bs.

(* 2: the post-order writer *)
Lemma post_order_writer :
  outboard_post_order HO t data = (Ok (root_hash HO data), spec_outboard HO true data bs, []).
Proof.
  unfold outboard_post_order. rewrite Hplan, outboard_po_loop_gloop.
  rewrite (spec_outboard_flat true).
  apply (loop_post_plan_ok HO bytes po_sink data bs Hsize). rewrite gfold_po_sink, app_nil_l. reflexivity.
Qed.
Lemma post_order_writer_fsm :
  outboard_post_order_fsm HO t data = (Ok (root_hash HO data), spec_outboard HO true data bs, []).
Proof.
  unfold outboard_post_order_fsm. rewrite Hplan, outboard_po_loop_fsm_gloop.
  rewrite (spec_outboard_flat true).
  apply (loop_post_plan_ok HO bytes po_sink data bs Hsize). rewrite gfold_po_sink, app_nil_l. reflexivity.
Qed.

(* 3: outboard_impl *)
Lemma outboard_impl_spec ob0 :
  match save_all ob0 (saves data (post_plan size bs)) with
  | Ok ob' => outboard_impl HO t data ob0 = (Ok (root_hash HO data), ob', [])
  | Err k => fst (fst (outboard_impl HO t data ob0)) = Err k
  | Panic => fst (fst (outboard_impl HO t data ob0)) = Panic
  end.
Proof.
  unfold outboard_impl. rewrite Hplan, outboard_loop_gloop, save_all_gfold.
  unfold post_plan at 1. rewrite <- (pairs_eq_saves 65 64) by lia.
  exact (loop_post_plan HO outboard (save HO) data bs Hsize ob0).
Qed.
Lemma outboard_impl_fsm_spec ob0 :
  match save_all ob0 (saves data (post_plan size bs)) with
  | Ok ob' => outboard_impl_fsm HO t data ob0 = (Ok (root_hash HO data), ob', [])
  | Err k => fst (fst (outboard_impl_fsm HO t data ob0)) = Err k
  | Panic => fst (fst (outboard_impl_fsm HO t data ob0)) = Panic
  end.
Proof.
  unfold outboard_impl_fsm. rewrite Hplan, outboard_loop_fsm_gloop, save_all_gfold.
  unfold post_plan at 1. rewrite <- (pairs_eq_saves 65 64) by lia.
  exact (loop_post_plan HO outboard (save HO) data bs Hsize ob0).
Qed.

Lemma outboard_impl_ok ob0 ob' : save_all ob0 (saves data (post_plan size bs)) = Ok ob' ->
  outboard_impl HO t data ob0 = (Ok (root_hash HO data), ob', []).
Proof. intro E. pose proof (outboard_impl_spec ob0) as H. rewrite E in H. exact H. Qed.
Lemma outboard_impl_fsm_ok ob0 ob' : save_all ob0 (saves data (post_plan size bs)) = Ok ob' ->
  outboard_impl_fsm HO t data ob0 = (Ok (root_hash HO data), ob', []).
Proof. intro E. pose proof (outboard_impl_fsm_spec ob0) as H. rewrite E in H. exact H. Qed.

(* ---- entry points ---- *)
Definition io_backed (k : ob_kind) : Prop := k = PreIO \/ k = PostIO.

Lemma save_io (ob : outboard) nd l r : io_backed (ob_k ob) ->
  exists ob', save HO ob nd l r = Ok ob' /\ ob_k ob' = ob_k ob /\ ob_tree ob' = ob_tree ob.
Proof.
  intros [E|E]; unfold save; rewrite E; (destruct (ob_offset HO ob nd); eexists; (split; [reflexivity|])); cbn [ob_root ob_k ob_tree ob_data]; auto.
Qed.
Lemma save_all_io : forall l (ob : outboard), io_backed (ob_k ob) ->
  exists ob', save_all ob l = Ok ob' /\ ob_k ob' = ob_k ob /\ ob_tree ob' = ob_tree ob.
Proof.
  induction l as [|[nd [lh rh]] l IH]; intros ob Hk.
  - exists ob. cbn [save_all]. auto.
  - cbn [save_all]. destruct (save_io ob nd lh rh Hk) as (ob1 & E1 & K1 & T1). rewrite E1.
    destruct (IH ob1 ltac:(rewrite K1; exact Hk)) as (ob2 & E2 & K2 & T2).
    exists ob2. split; [exact E2|]. rewrite K2, T2. auto.
Qed.

Lemma init_from_root (ob0 : outboard) : io_backed (ob_k ob0) -> ob_tree ob0 = t ->
  exists ob, init_from HO ob0 data = Ok ob /\ ob_root ob = root_hash HO data /\ ob_k ob = ob_k ob0 /\ ob_tree ob = t.
Proof.
  intros Hk Ht.
  destruct (save_all_io (saves data (post_plan size bs)) ob0 Hk) as (ob1 & E1 & K1 & T1).
  exists (set_root HO ob1 (root_hash HO data)).
  destruct (set_root_fields ob1 (root_hash HO data)) as (F1 & F2 & F3).
  split; [|split; [exact F1|split; [rewrite F2; exact K1|rewrite F3, T1; exact Ht]]].
  unfold init_from. rewrite Ht. exact (init_match _ _ _ _ (outboard_impl_ok _ _ E1)).
Qed.
Lemma init_from_fsm_root (ob0 : outboard) : io_backed (ob_k ob0) -> ob_tree ob0 = t ->
  exists ob, init_from_fsm HO ob0 data = Ok ob /\ ob_root ob = root_hash HO data /\ ob_k ob = ob_k ob0 /\ ob_tree ob = t.
Proof.
  intros Hk Ht.
  destruct (save_all_io (saves data (post_plan size bs)) ob0 Hk) as (ob1 & E1 & K1 & T1).
  exists (set_root HO ob1 (root_hash HO data)).
  destruct (set_root_fields ob1 (root_hash HO data)) as (F1 & F2 & F3).
  split; [|split; [exact F1|split; [rewrite F2; exact K1|rewrite F3, T1; exact Ht]]].
  unfold init_from_fsm. rewrite Ht. exact (init_match _ _ _ _ (outboard_impl_fsm_ok _ _ E1)).
Qed.
Lemma create_sized_root k : io_backed k ->
  exists ob, create_sized HO k data size bs = Ok ob /\ ob_root ob = root_hash HO data /\ ob_k ob = k /\ ob_tree ob = t.
Proof. intro Hk. unfold create_sized. apply init_from_root; [exact Hk|reflexivity]. Qed.
Lemma create_sized_fsm_root k : io_backed k ->
  exists ob, create_sized_fsm HO k data size bs = Ok ob /\ ob_root ob = root_hash HO data /\ ob_k ob = k /\ ob_tree ob = t.
Proof. intro Hk. unfold create_sized_fsm. apply init_from_fsm_root; [exact Hk|reflexivity]. Qed.

Lemma post_mem_create_spec :
  post_mem_create HO data bs = Ok (mkOb PostMem (root_hash HO data) t (spec_outboard HO true data bs)).
Proof. unfold post_mem_create. cbv zeta. exact (post_mem_match _ t _ _ _ post_order_writer). Qed.

(* pre-order memory outboard: pre-sized buffer, every saved node needs a slot *)
Lemma blen_write_at_ge (d : bytes) off b : off <= blen d -> blen d <= blen (write_at HO d off b).
Proof.
  intro H. unfold write_at. replace (blen d <? off) with false by lia.
  rewrite !blen_app, blen_take, blen_drop. lia.
Qed.
Lemma blen_zeros n : blen (zeros HO n) = N.of_nat n.
Proof. unfold blen, zeros. now rewrite repeat_length. Qed.

Definition pre_mem_inv (ob : outboard) : Prop :=
  ob_k ob = PreMem /\ ob_tree ob = t /\ (sp_blocks size bs - 1) * 64 <= blen (ob_data ob).
Definition has_slot (nd : N) : Prop :=
  exists o, pre_order_offset t nd = Some o /\ o < sp_blocks size bs - 1.

Lemma save_pre_mem (ob : outboard) nd l r : pre_mem_inv ob -> has_slot nd ->
  exists ob', save HO ob nd l r = Ok ob' /\ pre_mem_inv ob'.
Proof.
  intros (K & T & L) (o & Ho & Hlt). unfold save. rewrite K.
  destruct (level nd <? tbs (ob_tree ob)); [exists ob; split; [reflexivity|repeat split; assumption]|].
  unfold ob_offset. rewrite K, T, Ho.
  replace (o * 64 + 64 <=? blen (ob_data ob)) with true by lia.
  eexists. split; [reflexivity|]. repeat split; cbn [ob_root ob_k ob_tree ob_data]; try assumption.
  pose proof (blen_write_at_ge (ob_data ob) (o * 64) (combine_pair HO l r) ltac:(lia)). lia.
Qed.
Lemma save_all_pre_mem : forall l (ob : outboard), pre_mem_inv ob -> (forall p, In p l -> has_slot (fst p)) ->
  exists ob', save_all ob l = Ok ob' /\ pre_mem_inv ob'.
Proof.
  induction l as [|[nd [lh rh]] l IH]; intros ob Hi Hs.
  - exists ob. cbn [save_all]. auto.
  - cbn [save_all]. destruct (save_pre_mem ob nd lh rh Hi (Hs _ (or_introl eq_refl))) as (ob1 & E1 & I1).
    rewrite E1. apply IH; [exact I1|]. intros p Hp. apply Hs. right. exact Hp.
Qed.

Definition pre_mem_ob0 : outboard := mkOb PreMem (zero_hash HO) t (zeros HO (N.to_nat (outboard_size t))).
Lemma pre_mem_ob0_inv : pre_mem_inv pre_mem_ob0.
Proof.
  split; [reflexivity|split; [reflexivity|]]. unfold pre_mem_ob0. cbn [ob_data].
  rewrite blen_zeros. unfold outboard_size, outboard_hash_pairs.
  rewrite blocks_sp_blocks. lia.
Qed.
Lemma pre_mem_create_unfold :
  pre_mem_create HO data bs =
  match outboard_impl HO t data pre_mem_ob0 with
  | (Ok h, ob', _) => Ok (set_root HO ob' h)
  | _ => Panic
  end.
Proof. reflexivity. Qed.

Lemma pre_mem_create_root :
  (forall nd, In nd (plan_parents (post_plan size bs)) -> has_slot nd) ->
  exists ob, pre_mem_create HO data bs = Ok ob /\ ob_root ob = root_hash HO data /\ ob_k ob = PreMem /\ ob_tree ob = t.
Proof.
  intro Hoff.
  destruct (save_all_pre_mem (saves data (post_plan size bs)) pre_mem_ob0 pre_mem_ob0_inv) as (ob1 & E1 & K1 & T1 & _).
  { intros p Hp. apply Hoff. exact (in_saves _ _ _ Hp). }
  exists (set_root HO ob1 (root_hash HO data)).
  destruct (set_root_fields ob1 (root_hash HO data)) as (F1 & F2 & F3).
  split; [|split; [exact F1|split; [rewrite F2; exact K1|rewrite F3; exact T1]]].
  rewrite pre_mem_create_unfold. exact (pre_mem_match _ _ _ _ (outboard_impl_ok _ _ E1)).
Qed.

End Blob.
End ObCreate.

(* ---- closed forms used by Props/C03.v ---- *)
Lemma c03_post_order_writer : forall (HO : hops) (data : bytes HO) (bs : N),
  blen HO data <= 2 ^ 63 ->
  post_order_chunks_iter (mkTree (blen HO data) bs) = post_plan (blen HO data) bs ->
  outboard_post_order HO (mkTree (blen HO data) bs) data
    = (Ok (root_hash HO data), spec_outboard HO true data bs, []) /\
  outboard_post_order_fsm HO (mkTree (blen HO data) bs) data
    = (Ok (root_hash HO data), spec_outboard HO true data bs, []).
Proof.
  intros HO data bs Hs Hp. split; [exact (post_order_writer HO data bs Hs Hp)|exact (post_order_writer_fsm HO data bs Hs Hp)].
Qed.

Lemma c03_outboard_impl : forall (HO : hops) (data : bytes HO) (bs : N) (ob0 : outboard HO),
  blen HO data <= 2 ^ 63 ->
  post_order_chunks_iter (mkTree (blen HO data) bs) = post_plan (blen HO data) bs ->
  let t := mkTree (blen HO data) bs in
  match save_all HO ob0 (saves HO data (post_plan (blen HO data) bs)) with
  | Ok ob' => outboard_impl HO t data ob0 = (Ok (root_hash HO data), ob', []) /\
              outboard_impl_fsm HO t data ob0 = (Ok (root_hash HO data), ob', [])
  | Err k => fst (fst (outboard_impl HO t data ob0)) = Err k /\
             fst (fst (outboard_impl_fsm HO t data ob0)) = Err k
  | Panic => fst (fst (outboard_impl HO t data ob0)) = Panic /\
             fst (fst (outboard_impl_fsm HO t data ob0)) = Panic
  end.
Proof.
  intros HO data bs ob0 Hs Hp. cbv zeta.
  pose proof (outboard_impl_spec HO data bs Hs Hp ob0) as H1.
  pose proof (outboard_impl_fsm_spec HO data bs Hs Hp ob0) as H2.
  destruct (save_all HO ob0 (saves HO data (post_plan (blen HO data) bs))); (split; [exact H1|exact H2]).
Qed.

Lemma c03_root_all_entry_points : forall (HO : hops) (data : bytes HO) (bs : N),
  blen HO data <= 2 ^ 63 ->
  post_order_chunks_iter (mkTree (blen HO data) bs) = post_plan (blen HO data) bs ->
  let size := blen HO data in
  let t := mkTree size bs in
  let good (k : ob_kind) (r : res io_kind (outboard HO)) :=
    exists ob, r = Ok ob /\ ob_root ob = root_hash HO data /\ ob_k ob = k /\ ob_tree ob = t in
  (forall k, k = PreIO \/ k = PostIO -> good k (create_sized HO k data size bs)) /\
  (forall k, k = PreIO \/ k = PostIO -> good k (create_sized_fsm HO k data size bs)) /\
  (forall ob0 : outboard HO, ob_k ob0 = PreIO \/ ob_k ob0 = PostIO -> ob_tree ob0 = t ->
     good (ob_k ob0) (init_from HO ob0 data) /\ good (ob_k ob0) (init_from_fsm HO ob0 data)) /\
  ((forall nd, In nd (plan_parents (post_plan size bs)) ->
      exists o, pre_order_offset t nd = Some o /\ o < sp_blocks size bs - 1) ->
   good PreMem (pre_mem_create HO data bs)) /\
  post_mem_create HO data bs = Ok (mkOb PostMem (root_hash HO data) t (spec_outboard HO true data bs)).
Proof.
  intros HO data bs Hs Hp. cbv zeta.
  split; [|split; [|split; [|split]]].
  - intros k Hk. exact (create_sized_root HO data bs Hs Hp k Hk).
  - intros k Hk. exact (create_sized_fsm_root HO data bs Hs Hp k Hk).
  - intros ob0 Hk Ht. split; [exact (init_from_root HO data bs Hs Hp ob0 Hk Ht)|exact (init_from_fsm_root HO data bs Hs Hp ob0 Hk Ht)].
  - intro Hoff. exact (pre_mem_create_root HO data bs Hs Hp Hoff).
  - exact (post_mem_create_spec HO data bs Hs Hp).
Qed.
