(* C04: the honest encoding at block size bs is the honest encoding at block size 0 without the pairs of
   the nodes below the block size whose chunks (inside the blob) are all selected; and the validating
   encoders depend on the query only through the selection. *)
From BaoV Require Import Model.Fsm Spec.RangeSpec Spec.NodeSpec Spec.PlanSpec Spec.EncSpec Spec.HashAssm.
From BaoV Require Import Proofs.NodeLevel Proofs.NodeBits.
From BaoV Require Import Proofs.BridgeBase Proofs.BridgeTree Proofs.BridgePlan.
From BaoV Require Import Proofs.EncRec Proofs.EncLoop Proofs.EncMain Proofs.EncThm.
From Coq Require Import Lia Arith PeanoNat ZArith ZifyN ZifyNat ZifyBool.
Ltac Zify.zify_post_hook ::= Z.div_mod_to_equations.
Arguments N.add : simpl never.
Arguments N.sub : simpl never.
Arguments N.mul : simpl never.
Arguments N.pow : simpl never.
Arguments N.div : simpl never.
Arguments N.modulo : simpl never.
Arguments N.log2 : simpl never.
Arguments N.min : simpl never.
Arguments N.max : simpl never.

(* the items of the block-size-0 encoding that survive at block size bs *)
Definition keep (HO : hops) (bs : N) (q : ranges) (size : N) (i : item HO) : bool :=
  match i with
  | ILeaf _ _ => true
  | IParent n _ _ =>
      negb ((sp_level n <? bs) &&
            forallb (sel q size) (chunk_range_list (sp_chunk_start n) (N.min (sp_chunk_end n) (nchunks size))))
  end.

Lemma keep_def (HO : hops) (bs : N) (q : ranges) (size : N) (i : item HO) :
  keep HO bs q size i =
  match i with
  | ILeaf _ _ => true
  | IParent n _ _ =>
      negb ((sp_level n <? bs) &&
            forallb (sel q size) (chunk_range_list (sp_chunk_start n) (N.min (sp_chunk_end n) (nchunks size))))
  end.
Proof. reflexivity. Qed.

Lemma node_of_interval J k :
  let n := (2 * J + 1) * 2 ^ k - 1 in
  sp_level n = k /\ sp_chunk_start n = 2 * J * 2 ^ k /\ sp_chunk_end n = (2 * J + 2) * 2 ^ k.
Proof.
  cbv zeta. pose proof (pow2_pos k) as Hp.
  assert (E : (2 * J + 1) * 2 ^ k - 1 + 1 = (2 * J + 1) * 2 ^ k) by nia.
  destruct (decomp_unique _ _ _ E) as [L I]. rewrite level_is_sp_level in L.
  unfold sp_chunk_start, sp_chunk_end. rewrite L, I. repeat split.
Qed.

Section Prune.
Variable HO : hops.
Notation bytes := (bytes HO).
Variable data : bytes.
Variable bs : N.
Variable q : ranges.
Hypothesis Hsize : blen HO data <= 2 ^ 63.
Local Notation size := (blen HO data).
Local Notation nn := (nchunks (blen HO data)).
Local Notation Sel := (sel q (blen HO data)).
Local Notation Eb := (ENC HO data bs Sel).
Local Notation E0 := (ENC HO data 0 Sel).
Local Notation kp := (keep HO bs q (blen HO data)).

(* the interval [a, b) is a node of the left-full tree over the chunks of the blob *)
Definition al (a b : N) : Prop :=
  exists c j, a = j * 2 ^ c /\ b - a <= 2 ^ c /\ (b - a = 2 ^ c \/ b = nn) /\ a < b /\ b <= nn.

Lemma al_children a b : al a b -> 2 <= b - a ->
  let h := next_pow2 (b - a) / 2 in
  al a (a + h) /\ al (a + h) b /\ a < a + h /\ a + h < b /\
  exists k, h = 2 ^ k /\ next_pow2 (b - a) = 2 ^ (k + 1) /\
    sp_level (a + h - 1) = k /\ sp_chunk_start (a + h - 1) = a /\ N.min (sp_chunk_end (a + h - 1)) nn = b.
Proof.
  intros (c & j & Ha & Hle & Hfull & Hab & Hb) H2. cbv zeta.
  destruct (np2_half (b - a) H2) as (k & Ek & Eh & K1 & K2). rewrite Eh.
  pose proof (pow2_pos k) as Hpk.
  assert (Hkc : k + 1 <= c).
  { assert (X : 2 ^ k < 2 ^ c) by lia. apply pow2_lt_inv in X. lia. }
  assert (Hc : 2 ^ c = 2 ^ (c - (k + 1)) * (2 * 2 ^ k)).
  { rewrite <- pow2_succ, <- N.pow_add_r. f_equal. lia. }
  pose proof (pow2_pos (c - (k + 1))) as Hpq.
  set (Q := 2 ^ (c - (k + 1))) in *. set (P := 2 ^ k) in *. rewrite pow2_succ in K2. fold P in K2.
  set (J := j * Q).
  assert (HaJ : a = 2 * J * P) by (unfold J; rewrite Ha, Hc; lia).
  assert (Hfull' : b - a = 2 * P \/ b = nn).
  { destruct Hfull as [F|F]; [left|now right]. rewrite F, Hc in *. nia. }
  split; [|split; [|split; [lia|split; [lia|]]]].
  - exists k, (2 * J). fold P. split; [lia|]. split; [lia|]. split; [left; lia|]. split; lia.
  - exists k, (2 * J + 1). fold P. split; [lia|]. split; [lia|]. split; [|split; lia].
    destruct Hfull' as [F|F]; [left; lia|now right].
  - exists k. split; [reflexivity|]. split; [exact Ek|].
    destruct (node_of_interval J k) as (N1 & N2 & N3). cbv zeta in N1, N2, N3. fold P in N1, N2, N3.
    replace (a + P - 1) with ((2 * J + 1) * P - 1) by lia.
    rewrite N1, N2, N3. repeat split; try lia.
Qed.

Lemma flat_filter_leaf off (d : bytes) : filter kp [ILeaf off d] = [ILeaf off d].
Proof. reflexivity. Qed.

Lemma filter_cons_parent n (l r : hash HO) rest :
  filter kp (IParent n l r :: rest) =
  if negb ((sp_level n <? bs) &&
           forallb Sel (chunk_range_list (sp_chunk_start n) (N.min (sp_chunk_end n) nn)))
  then IParent n l r :: filter kp rest else filter kp rest.
Proof. reflexivity. Qed.

Lemma prune_rec : forall (m : nat) a b, al a b -> b - a <= 2 ^ N.of_nat m ->
  flat HO (Eb a b) = flat HO (filter kp (E0 a b)).
Proof.
  pose proof (nchunks_small _ Hsize) as Hn.
  assert (P63 : 2 ^ 53 <= 2 ^ 63) by (apply pow2_le_mono; lia).
  induction m as [|m IH]; intros a b Hal Hm;
    pose proof Hal as (c0 & j0 & _ & _ & _ & Hab & Hb);
    rewrite (ENC_unfold HO data bs Sel a b), (ENC_unfold HO data 0 Sel a b) by lia;
    destruct (existsb Sel (chunk_range_list a b)) eqn:Ex; cbn [negb]; try reflexivity.
  - change (2 ^ N.of_nat 0) with 1 in Hm. assert (E1 : (b - a <=? 1) = true) by (apply N.leb_le; lia).
    rewrite E1. reflexivity.
  - destruct (b - a <=? 1) eqn:E1; [reflexivity|]. apply N.leb_gt in E1.
    destruct (al_children a b Hal ltac:(lia)) as (Hl & Hr & L1 & L2 & k & Eh & Ecap & N1 & N2 & N3).
    cbv zeta in *. set (h := next_pow2 (b - a) / 2) in *.
    rewrite of_nat_S in Hm.
    pose proof (half_bounds (b - a) (N.of_nat m) ltac:(lia) Hm) as (A1 & A2 & A3 & A4 & A5). cbv zeta in A1, A2, A3, A4, A5.
    fold h in A1, A2, A3, A4, A5.
    assert (E0c : (next_pow2 (b - a) <=? 2 ^ 0) = false).
    { apply N.leb_gt. rewrite Ecap, pow2_succ. change (2 ^ 0) with 1. pose proof (pow2_pos k). lia. }
    rewrite E0c, andb_false_r.
    rewrite filter_cons_parent. rewrite N1, N2, N3.
    assert (Ecmp : (next_pow2 (b - a) <=? 2 ^ bs) = (k <? bs)).
    { rewrite Ecap. destruct (N.ltb_spec k bs) as [L|L].
      - apply N.leb_le. apply pow2_le_mono. lia.
      - apply N.leb_gt. apply N.pow_lt_mono_r; lia. }
    rewrite Ecmp, (andb_comm (forallb _ _)).
    rewrite filter_app.
    destruct ((k <? bs) && forallb Sel (chunk_range_list a b)) eqn:Ek; cbn [negb];
      rewrite ?flat_cons_parent, !flat_app;
      rewrite <- (IH a (a + h) Hl) by lia; rewrite <- (IH (a + h) b Hr) by lia.
    + apply andb_true_iff in Ek. destruct Ek as [Ek1 Ek2]. apply N.ltb_lt in Ek1.
      rewrite flat_leaf.
      rewrite (crl_app a (a + h) b), forallb_app in Ek2 by lia. apply andb_true_iff in Ek2. destruct Ek2 as [Ea1 Ea2].
      assert (Hh : h <= 2 ^ bs).
      { rewrite Eh. apply pow2_le_mono. lia. }
      rewrite (ENC_all HO data bs Sel a (a + h)), (ENC_all HO data bs Sel (a + h) b) by (try assumption; lia).
      rewrite !flat_leaf. apply chunk_bytes_app; lia.
    + reflexivity.
Qed.

Theorem prune : flat HO (honest HO data bs q) = flat HO (filter kp (honest HO data 0 q)).
Proof.
  rewrite !honest_ENC. pose proof (nchunks_small _ Hsize) as Hn. pose proof (nchunks_bounds size) as (B1 & _).
  apply (prune_rec 53).
  - exists 53, 0. split; [lia|]. split; [lia|]. split; [now right|]. split; lia.
  - change (N.of_nat 53) with 53. lia.
Qed.

End Prune.

