(* C16, part 1: consequences of the hash assumptions that are sensitive to the LENGTH of the data:
   hash_subtree is injective in (start chunk, data) for data of different lengths; what an accepted
   parent / leaf comparison against a value cv data a b f of the true tree says. *)
From BaoV Require Import Model.Fsm Spec.HashAssm Spec.EncSpec Spec.RangeSpec Spec.PlanSpec.
From BaoV Require Import Proofs.DecHash Proofs.BridgeBase Proofs.BridgeTree.
From Coq Require Import Lia Arith.

Section SizeHash.
Variable HO : hops.
Notation bytes := (bytes HO).
Notation hash := (hash HO).
Hypothesis HOK : hash_ok HO.

(* injectivity of subtree_cv in the start chunk and the data, whatever the two lengths and flags *)
Lemma subtree_cv_inj_gen : forall f s1 s2 (d1 d2 : bytes) r1 r2,
  blen HO d1 <= 1024 * 2 ^ N.of_nat f -> blen HO d2 <= 1024 * 2 ^ N.of_nat f ->
  subtree_cv HO (S f) s1 d1 r1 = subtree_cv HO (S f) s2 d2 r2 -> s1 = s2 /\ d1 = d2.
Proof.
  induction f; intros s1 s2 d1 d2 r1 r2 Hd1 Hd2; cbn [subtree_cv].
  - cbn in Hd1, Hd2.
    replace (blen HO d1 <=? 1024) with true by (symmetry; apply N.leb_le; lia).
    replace (blen HO d2 <=? 1024) with true by (symmetry; apply N.leb_le; lia).
    intros H. apply (ho_inj HO HOK (InChunk HO s1 d1 r1) (InChunk HO s2 d2 r2)) in H.
    + injection H; auto.
    + cbn. unfold blen in Hd1. lia.
    + cbn. unfold blen in Hd2. lia.
  - rewrite Nat2N.inj_succ in Hd1, Hd2.
    destruct (blen HO d1 <=? 1024) eqn:E1; destruct (blen HO d2 <=? 1024) eqn:E2.
    + apply N.leb_le in E1, E2. intros H.
      apply (ho_inj HO HOK (InChunk HO s1 d1 r1) (InChunk HO s2 d2 r2)) in H.
      * injection H; auto.
      * cbn. unfold blen in E1. lia.
      * cbn. unfold blen in E2. lia.
    + apply N.leb_le in E1. apply N.leb_gt in E2.
      destruct (split_facts (blen HO d2) (N.of_nat f) E2 Hd2) as [S1 [S2 S3]].
      intros H. exfalso.
      apply (ho_inj HO HOK (InChunk HO s1 d1 r1) (InParent HO _ _ r2)) in H.
      * discriminate.
      * cbn. unfold blen in E1. lia.
      * cbn. split; apply (subtree_cv_len HO HOK); [rewrite blen_take|rewrite blen_drop]; lia.
    + apply N.leb_gt in E1. apply N.leb_le in E2.
      destruct (split_facts (blen HO d1) (N.of_nat f) E1 Hd1) as [S1 [S2 S3]].
      intros H. exfalso.
      apply (ho_inj HO HOK (InParent HO _ _ r1) (InChunk HO s2 d2 r2)) in H.
      * discriminate.
      * cbn. split; apply (subtree_cv_len HO HOK); [rewrite blen_take|rewrite blen_drop]; lia.
      * cbn. unfold blen in E2. lia.
    + apply N.leb_gt in E1, E2.
      destruct (split_facts (blen HO d1) (N.of_nat f) E1 Hd1) as [S1 [S2 S3]].
      destruct (split_facts (blen HO d2) (N.of_nat f) E2 Hd2) as [T1 [T2 T3]].
      set (k1 := next_pow2 ((blen HO d1 + 1023) / 1024) / 2) in *.
      set (k2 := next_pow2 ((blen HO d2 + 1023) / 1024) / 2) in *.
      intros H.
      apply (ho_inj HO HOK (InParent HO _ _ r1) (InParent HO _ _ r2)) in H.
      * injection H as H1 H2 _.
        apply IHf in H1; [|rewrite blen_take; lia|rewrite blen_take; lia].
        apply IHf in H2; [|rewrite blen_drop; lia|rewrite blen_drop; lia].
        destruct H1 as [Hs Ht]. destruct H2 as [_ Hdd]. split; [exact Hs|].
        rewrite <- (take_drop HO (k1 * 1024) d1), <- (take_drop HO (k2 * 1024) d2). congruence.
      * cbn. split; apply (subtree_cv_len HO HOK); [rewrite blen_take|rewrite blen_drop]; lia.
      * cbn. split; apply (subtree_cv_len HO HOK); [rewrite blen_take|rewrite blen_drop]; lia.
Qed.

Lemma hash_subtree_inj_gen : forall s1 s2 (d1 d2 : bytes) r1 r2,
  blen HO d1 <= 1024 * 2 ^ 63 -> blen HO d2 <= 1024 * 2 ^ 63 ->
  hash_subtree HO s1 d1 r1 = hash_subtree HO s2 d2 r2 -> s1 = s2 /\ d1 = d2.
Proof.
  intros s1 s2 d1 d2 r1 r2 H1 H2. unfold hash_subtree. change 64%nat with (S 63).
  apply subtree_cv_inj_gen; change (N.of_nat 63) with 63; assumption.
Qed.

(* ---- values of the true tree ---- *)
Lemma cv_chunk : forall (data : bytes) a b r, b - a <= 1 ->
  cv HO data a b r = chunk_cv HO a (chunk_bytes HO data a b) r.
Proof.
  intros data a b r H. unfold cv. rewrite cv_rec_unfold.
  apply N.leb_le in H. rewrite H. reflexivity.
Qed.

(* an accepted parent comparison: the true node is a parent too, and the pair is its true pair *)
Lemma parent_eq_cv : forall (data : bytes) a b f (l r : hash) ir,
  b - a <= 2 ^ 63 -> length l = 32%nat -> length r = 32%nat ->
  parent_cv HO l r ir = cv HO data a b f ->
  2 <= b - a /\
  l = cv HO data a (a + next_pow2 (b - a) / 2) false /\
  r = cv HO data (a + next_pow2 (b - a) / 2) b false.
Proof.
  intros data a b f l r ir Hb Hl Hr H.
  destruct (N.le_gt_cases (b - a) 1) as [L|G].
  - exfalso. rewrite cv_chunk in H by assumption.
    apply (ho_inj HO HOK (InParent HO l r ir) (InChunk HO a _ f)) in H.
    + discriminate.
    + cbn [valid_input]. auto.
    + cbn [valid_input]. pose proof (blen_chunk_bytes HO data a b) as E. unfold blen in E. lia.
  - split; [lia|]. rewrite cv_unfold in H by lia.
    pose proof (half_bounds (b - a) 62 ltac:(lia) Hb) as (A1 & A2 & A3 & A4 & A5).
    cbv zeta in *. set (h := next_pow2 (b - a) / 2) in *.
    assert (P : 2 ^ 62 <= 2 ^ 63) by (apply pow2_le_mono; lia).
    assert (L1 : length (cv HO data a (a + h) false) = 32%nat) by (apply (cv_len HO (ho_len HO HOK)); lia).
    assert (L2 : length (cv HO data (a + h) b false) = 32%nat) by (apply (cv_len HO (ho_len HO HOK)); lia).
    set (cl := cv HO data a (a + h) false) in *. set (cr := cv HO data (a + h) b false) in *.
    clearbody cl cr.
    apply (ho_inj HO HOK (InParent HO l r ir) (InParent HO cl cr f)) in H.
    + injection H; auto.
    + cbn [valid_input]. auto.
    + cbn [valid_input]. auto.
Qed.

(* an accepted leaf comparison against the value of the true right-spine node [a, nchunks):
   the leaf starts at chunk a and carries exactly the bytes of the blob from there to its end *)
Lemma leaf_eq_cv : forall (data buf : bytes) s a f f',
  blen HO data <= 2 ^ 63 -> blen HO buf <= 2 ^ 63 -> a < nchunks (blen HO data) ->
  hash_subtree HO s buf f' = cv HO data a (nchunks (blen HO data)) f ->
  s = a /\ buf = chunk_bytes HO data a (nchunks (blen HO data)).
Proof.
  intros data buf s a f f' Hd Hb Ha H.
  rewrite <- hash_subtree_cv in H by lia.
  assert (P : 2 ^ 63 <= 1024 * 2 ^ 63) by lia.
  apply hash_subtree_inj_gen in H; [exact H|lia|].
  rewrite blen_chunk_bytes. lia.
Qed.

(* ... hence its length determines the size of the blob *)
Lemma leaf_size_eq : forall (data buf : bytes) size' s e a f f',
  blen HO data <= 2 ^ 63 -> size' <= 2 ^ 63 ->
  s < nchunks size' -> nchunks size' <= e ->
  blen HO buf = span_bytes size' s e ->
  a < nchunks (blen HO data) ->
  hash_subtree HO s buf f' = cv HO data a (nchunks (blen HO data)) f ->
  size' = blen HO data.
Proof.
  intros data buf size' s e a f f' Hd Hs' Hs He Hlen Ha H.
  pose proof (nchunks_bounds size') as (B1 & B2 & B3).
  pose proof (nchunks_bounds (blen HO data)) as (C1 & C2 & C3).
  assert (Hbuf : blen HO buf <= 2 ^ 63) by (rewrite Hlen; unfold span_bytes; lia).
  destruct (leaf_eq_cv data buf s a f f' Hd Hbuf Ha H) as [-> Eb].
  rewrite Eb, blen_chunk_bytes in Hlen. unfold span_bytes in Hlen.
  set (n := nchunks (blen HO data)) in *. set (n' := nchunks size') in *.
  set (size := blen HO data) in *. clearbody n n' size. nia.
Qed.

End SizeHash.
