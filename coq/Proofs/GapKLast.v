(* Gap audit (C01 / C16), part 6: per-item form of "decoding the last chunk authenticates the claimed size": a decoder
   told ANY size that yields a leaf ending at the claimed size has been told the true size (no hypothesis on the
   query, the run need not finish); a run that finishes has labelled every pair with its right node id. *)
From BaoV Require Import Model.Fsm Spec.HashAssm Spec.EncSpec Spec.RangeSpec Spec.PlanSpec.
From BaoV Require Import Proofs.DecLoop Proofs.BridgeBase Proofs.PlanBase Proofs.GapPairs.
From BaoV Require Import Proofs.GapKInv Proofs.GapKRun Proofs.GapKTop Proofs.GapKShape Proofs.GapKShapeTop.
From Coq Require Import Lia Arith.
Open Scope N_scope.

(* nodes on the same path: one is on the right spine of its tree iff the other is *)
Lemma same_path_spine : forall n' n a' b' a b, 1 <= n' -> 1 <= n ->
  same_path n' n a' b' a b -> (b' = n' <-> b = n).
Proof.
  intros n' n a' b' a b H1 H2. induction 1 as [|a' b' a b Hsp IH G1 G2|a' b' a b Hsp IH G1 G2].
  - split; reflexivity.
  - destruct (same_path_aligned _ _ _ _ _ _ H1 H2 Hsp) as [(_ & B1 & _) (_ & B2 & _)].
    destruct (np2_half (b' - a') G1) as (k' & _ & E' & K' & _). destruct (np2_half (b - a) G2) as (k & _ & E & K & _).
    rewrite E', E. split; intro; lia.
  - exact IH.
Qed.

Lemma last_leaf_size : forall HO (data : bytes HO) size' off d,
  true_item HO data size' (ILeaf off d) -> off + blen HO d = size' -> size' = blen HO data.
Proof.
  intros HO data size' off d (s & e & e' & Hsp & Hoff & Hse & HeN & Hd & _ & Hfit & _ & Hlen) Hend.
  pose proof (nchunks_bounds (blen HO data)) as (B1 & B2 & _).
  pose proof (nchunks_bounds size') as (B1' & B2' & _).
  destruct (same_path_aligned _ _ _ _ _ _ B1' B1 Hsp) as [(Hse' & He'N & _) _].
  assert (Hs' : s = 0 \/ s * 1024 < size') by (apply nchunks_spec; lia).
  assert (Hs : s = 0 \/ s * 1024 < blen HO data) by (apply nchunks_spec; lia).
  unfold span_bytes in Hlen.
  assert (Ee' : e' = nchunks size').
  { destruct (N.eq_dec e' (nchunks size')) as [E|NE]; [exact E|exfalso].
    assert (L : e' < nchunks size') by lia. apply nchunks_spec in L. lia. }
  assert (Ee : e = nchunks (blen HO data)) by (apply (same_path_spine _ _ _ _ _ _ B1' B1 Hsp); exact Ee').
  pose proof (blen_chunk_bytes HO data s e) as Lb. rewrite <- Hd in Lb. rewrite Ee in Lb. lia.
Qed.

Theorem any_size_last_leaf : forall HO, hash_ok HO ->
  forall (data : bytes HO) (size' bs : N) (q : ranges),
  size' <= 2 ^ 63 -> blen HO data <= 2 ^ 63 -> wf_ranges q = true ->
  forall (stream : bytes HO) ys o,
  (exists st, dec_run HO (dec_new HO (root_hash HO data) (mkTree size' bs) stream q) = (ys, o, st)) \/
  (exists st, rd_run HO (rd_new HO (root_hash HO data) q (mkTree size' bs) stream) = (ys, o, st)) ->
  forall off d, In (ILeaf off d) ys -> off + blen HO d = size' -> size' = blen HO data.
Proof.
  intros HO HOK data size' bs q Hs Hd Hwf stream ys o Hrun off d Hin Hend.
  apply (last_leaf_size HO data size' off d); [|exact Hend].
  destruct Hrun as [[st H]|[st H]].
  - exact (any_size_sync HO HOK data size' bs q Hs Hd Hwf stream ys o st H _ Hin).
  - exact (any_size_fsm HO HOK data size' bs q Hs Hd Hwf stream ys o st H _ Hin).
Qed.

(* a run that finishes has labelled everything right *)
Theorem any_size_finished_ids : forall HO, hash_ok HO ->
  forall (data : bytes HO) (size' bs : N) (q : ranges),
  size' <= 2 ^ 63 -> blen HO data <= 2 ^ 63 -> wf_ranges q = true ->
  forall (stream : bytes HO) ys,
  (exists st, dec_run HO (dec_new HO (root_hash HO data) (mkTree size' bs) stream q) = (ys, Finished, st)) \/
  (exists st, rd_run HO (rd_new HO (root_hash HO data) q (mkTree size' bs) stream) = (ys, Finished, st)) ->
  forall i, In i ys -> right_id_item HO data size' i.
Proof.
  intros HO HOK data size' bs q Hs Hd Hwf stream ys Hrun i Hin.
  destruct (any_size_ids HO HOK data size' bs q Hs Hd Hwf stream ys Finished Hrun) as (ys1 & ys2 & -> & G1 & _ & G3).
  destruct ys2 as [|y ys2].
  - rewrite app_nil_r in Hin. exact (G1 i Hin).
  - exfalso. apply G3; [discriminate|reflexivity].
Qed.

From BaoV Require Import Proofs.DecWitness.
Theorem any_size_last_leaf_nonvacuous :
  exists HO, hash_ok HO /\
  exists (data stream : bytes HO) (size' bs : N) (q : ranges) ys o st off d,
    size' <= 2 ^ 63 /\ blen HO data <= 2 ^ 63 /\ bs <= 10 /\ wf_ranges q = true /\
    dec_run HO (dec_new HO (root_hash HO data) (mkTree size' bs) stream q) = (ys, o, st) /\
    In (ILeaf off d) ys /\ off + blen HO d = size'.
Proof.
  exists term_hops. split; [exact term_hops_ok|].
  pose (run := dec_run term_hops (dec_new term_hops (root_hash term_hops kdata3) (mkTree 2049 0) kstream3 kq_all)).
  exists kdata3, kstream3, 2049, 0, kq_all, (fst (fst run)), (snd (fst run)), (snd run), 2048, [TZ].
  split; [vm_compute; discriminate|]. split; [vm_compute; discriminate|]. split; [lia|]. split; [reflexivity|].
  split; [apply triple_eta|]. split; [|reflexivity].
  apply (nth_error_In _ 4). vm_compute. reflexivity.
Qed.
