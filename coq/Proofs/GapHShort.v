(* Gap audit (C07 / C02), part 4: io-backed outboards that are NOT pre-sized (PreOrderOutboard / PostOrderOutboard
   over a file that is empty, shorter or longer than the full outboard) and targets of any length.
   Positioned writes past the end of a Vec zero-extend it, so a decode into such a sink behaves, on the first
   (blocks - 1) * 64 bytes of the store and the first |blob| bytes of the target, exactly like the decode into
   the zero-padded store / target, and touches nothing beyond:
     pad n t              t cut / zero-extended to n bytes (Proofs/GapTarget.v)
     ob_pad ob            ob with its bytes padded to (blocks - 1) * 64
     ShortInv D (t, ob)   ob io-backed, made of whole 64-byte slots, and Inv D (pad |blob| t, ob_pad ob)
   ShortInv is kept by every step of a history (any stream, any sink faults, sync or fsm).  On such a state the FSM
   validators report what they report on the padded state (exactly the fully delivered groups); the SYNC validators
   may stop with UnexpectedEof at the first missing slot (witness below): the 'pre-sized' premise of the property
   is what excludes this. *)
From BaoV Require Import Model.IO Spec.RangeSpec Spec.PlanSpec Spec.PlanWf Spec.NodeSpec Spec.EncSpec Spec.HashAssm.
From BaoV Require Import Proofs.RangeBase Proofs.PlanBase Proofs.BridgeBase Proofs.BridgeTree Proofs.BridgeLeaves
  Proofs.ShapeBase Proofs.ShapeOffsets
  Proofs.DecForest Proofs.DecRanges Proofs.IOSinkFaults Proofs.E2ERanges Proofs.E2EMisc
  Proofs.ValSpec Proofs.ValPath Proofs.ValTop Proofs.ValSound
  Proofs.HistOb Proofs.HistPath Proofs.HistEnc Proofs.HistInv Proofs.HistStep
  Proofs.FinalStore Proofs.FinalConv Proofs.FinalVal
  Proofs.E2EDownload Proofs.E2EDownloadStep Proofs.E2EDownloadConv
  Proofs.GapTarget Proofs.GapPairs Proofs.GapValFsmView Proofs.GapHNodes Proofs.GapHFrame.
From Coq Require Import ZArith Lia.
Open Scope N_scope.
Arguments N.add : simpl never.
Arguments N.sub : simpl never.
Arguments N.mul : simpl never.
Arguments N.pow : simpl never.
Arguments N.div : simpl never.
Arguments N.modulo : simpl never.
Arguments N.log2 : simpl never.
Arguments N.min : simpl never.
Arguments N.max : simpl never.

Section PadFacts.
Variable HO : hops.
Notation bytes := (bytes HO).

(* the first n bytes of d followed by n zeros = d padded to n *)
Lemma firstn_zeros_pad (d : bytes) n : firstn n (d ++ zeros HO n) = pad HO n d.
Proof.
  apply nth_error_ext'. intro i. unfold zeros.
  rewrite nth_error_firstn', nth_error_app', nth_error_repeat', nth_error_pad.
  destruct (Nat.ltb_spec i n); [|reflexivity].
  destruct (Nat.ltb_spec i (length d)); [reflexivity|].
  destruct (Nat.ltb_spec (i - length d) n); [reflexivity|lia].
Qed.

Lemma pad_pad n (d : bytes) : pad HO n (pad HO n d) = pad HO n d.
Proof. apply pad_id. apply pad_length. Qed.

Lemma write_at_blen (d : bytes) off (b : bytes) :
  blen HO (write_at HO d off b) = N.max (blen HO d) (off + blen HO b).
Proof. unfold blen. rewrite write_at_length. lia. Qed.
End PadFacts.

Section Short.
Variable HO : hops.
Hypothesis HOK : hash_ok HO.
Notation bytes := (bytes HO).
Notation hash := (hash HO).
Notation outboard := (outboard HO).
Notation item := (item HO).

Variable data : bytes.
Variable bs : N.
Hypothesis Hsize : blen HO data <= 2 ^ 63.
Hypothesis Hbs : bs <= 10.
Let size := blen HO data.
Let nc := nchunks size.
Let g := 2 ^ bs.
Let B := sp_blocks size bs.
Let n := N.to_nat ((B - 1) * 64).

Definition ob_pad (ob : outboard) : outboard :=
  mkOb (ob_k ob) (ob_root ob) (ob_tree ob) (pad HO (N.to_nat ((sp_blocks (blen HO data) bs - 1) * 64)) (ob_data ob)).
Definition pad_state (st : bytes * outboard) : bytes * outboard := (pad HO (length data) (fst st), ob_pad (snd st)).

Lemma ob_pad_sized (ob : outboard) : is_io (ob_k ob) = true -> ob_tree ob = mkTree size bs -> ob_sized HO (ob_pad ob) size bs.
Proof.
  intros K T. constructor; cbn [ob_pad ob_k ob_tree ob_data]; [exact (io_hist _ K)|exact T|].
  assert (Hb : forall x : bytes, blen HO x = N.of_nat (length x)) by reflexivity.
  rewrite Hb, pad_length, N2Nat.id. reflexivity.
Qed.

Lemma ob_pad_id (ob : outboard) : ob_sized HO ob size bs -> ob_pad ob = ob.
Proof.
  intros [K T L]. destruct ob as [k r t d]. unfold ob_pad. cbn [ob_k ob_root ob_tree ob_data] in *. f_equal.
  apply pad_id. assert (Hb : forall x : bytes, blen HO x = N.of_nat (length x)) by reflexivity.
  rewrite Hb in L. fold size. lia.
Qed.

(* a save of a pair on an io-backed store of any length *)
Lemma save_io_pnode (ob : outboard) nd (l r : hash) : is_io (ob_k ob) = true -> ob_tree ob = mkTree size bs ->
  pnode size bs nd -> length l = 32%nat -> length r = 32%nat ->
  exists ob1, save HO ob nd l r = Ok ob1 /\ save HO (ob_pad ob) nd l r = Ok (ob_pad ob1) /\
    ob_k ob1 = ob_k ob /\ ob_root ob1 = ob_root ob /\ ob_tree ob1 = ob_tree ob /\
    skipn n (ob_data ob1) = skipn n (ob_data ob) /\
    (blen HO (ob_data ob) mod 64 = 0 -> blen HO (ob_data ob1) mod 64 = 0) /\
    blen HO (ob_data ob) <= blen HO (ob_data ob1).
Proof.
  intros K T Hp Ll Lr. pose proof (ob_pad_sized ob K T) as Hs.
  destruct (pnode_offset HO size bs Hsize Hbs (ob_pad ob) nd Hs Hp) as (o & Ho & Hlt). fold B in Hlt.
  assert (Ho' : ob_offset HO ob nd = Some o) by exact Ho.
  pose proof (pnode_level size bs Hsize Hbs nd Hp) as Hlv.
  assert (Hb : blen HO (combine_pair HO l r) = 64).
  { unfold combine_pair, blen. rewrite app_length, Ll, Lr. reflexivity. }
  assert (Hfit : (N.to_nat (o * 64) + length (combine_pair HO l r) <= n)%nat).
  { unfold blen in Hb. unfold n. lia. }
  destruct (write_at_pad HO n (ob_data ob) (o * 64) (combine_pair HO l r) Hfit) as [W1 W2].
  exists (mkOb (ob_k ob) (ob_root ob) (ob_tree ob) (write_at HO (ob_data ob) (o * 64) (combine_pair HO l r))).
  split; [|split].
  - unfold save. rewrite Ho'. destruct (ob_k ob); cbn [is_io] in K; try discriminate K; reflexivity.
  - rewrite (sized_save HO size bs Hsize Hbs (ob_pad ob) nd o l r Hs Hlv Ho Hlt).
    unfold ob_pad. cbn [ob_k ob_root ob_tree ob_data]. fold size. fold B. fold n. now rewrite W1.
  - cbn [ob_k ob_root ob_tree ob_data]. repeat (split; [reflexivity|]). split; [exact W2|].
    rewrite write_at_blen, Hb. split; [|lia]. intro Hm. lia.
Qed.

Lemma save_io_below (ob : outboard) nd (l r : hash) : is_io (ob_k ob) = true -> ob_tree ob = mkTree size bs ->
  level nd < bs -> save HO ob nd l r = Ok ob.
Proof.
  intros K T Hl. unfold save, ob_offset. rewrite T. destruct (below_block size bs nd Hl) as [E1 E2].
  rewrite E1, E2. destruct (ob_k ob); cbn [is_io] in K; try discriminate K; reflexivity.
Qed.

(* items whose parents are fine and whose leaves are runs of chunks of the blob *)
Definition items_ok (ys : list item) : Prop :=
  parents_ok HO data bs ys /\
  forall off d, In (ILeaf off d) ys -> exists s e, off = s * 1024 /\ s < e /\ e <= nc /\ d = chunk_bytes HO data s e.

Lemma items_ok_tail it ys : items_ok (it :: ys) -> items_ok ys.
Proof.
  intros [P L]. split; [intros nd l r H; apply P; now right|intros off d H; apply L; now right].
Qed.

Lemma prefix_items_ok q ys : wf_ranges q = true -> is_prefix ys (honest HO data bs q) -> items_ok ys.
Proof.
  intros Hwf Hp. split; [exact (honest_parents_ok HO (ho_len HO HOK) data bs Hsize Hbs q ys Hwf Hp)|].
  intros off d Hin. destruct (prefix_good_leaves HO data bs q Hsize ys Hp off d Hin) as (s & e & H1 & H2 & H3 & H4 & _).
  exists s, e. repeat split; assumption.
Qed.

(* applying such items to an io-backed store of any length and a target of any length commutes with padding *)
Lemma apply_items_pad : forall (ys : list item) (t : bytes) (ob : outboard),
  items_ok ys -> is_io (ob_k ob) = true -> ob_tree ob = mkTree size bs ->
  exists t' ob', apply_items HO ys t ob = (SOk, t', ob') /\
    apply_items HO ys (pad HO (length data) t) (ob_pad ob) = (SOk, pad HO (length data) t', ob_pad ob') /\
    ob_k ob' = ob_k ob /\ ob_root ob' = ob_root ob /\ ob_tree ob' = ob_tree ob /\
    skipn n (ob_data ob') = skipn n (ob_data ob) /\
    skipn (length data) t' = skipn (length data) t /\
    (blen HO (ob_data ob) mod 64 = 0 -> blen HO (ob_data ob') mod 64 = 0) /\
    blen HO (ob_data ob) <= blen HO (ob_data ob') /\ (length t <= length t')%nat.
Proof.
  induction ys as [|[nd l r|off d] ys IH]; intros t ob Hok K T.
  - exists t, ob. repeat (split; [reflexivity|]). split; [auto|]. split; [lia|lia].
  - destruct (proj1 Hok nd l r (or_introl eq_refl)) as (Etp & Ll & Lr & [Hp|Hlv]).
    + destruct (save_io_pnode ob nd l r K T Hp Ll Lr) as (ob1 & E1 & E2 & K1 & R1 & T1 & S1 & M1 & G1).
      destruct (IH t ob1 (items_ok_tail _ _ Hok) ltac:(now rewrite K1) ltac:(now rewrite T1))
        as (t' & ob' & A1 & A2 & K' & R' & T' & S' & St & M' & G' & Gt).
      exists t', ob'. cbn [apply_items]. rewrite E1, E2. split; [exact A1|]. split; [exact A2|].
      split; [congruence|]. split; [congruence|]. split; [congruence|]. split; [congruence|].
      split; [exact St|]. split; [auto|]. split; [lia|exact Gt].
    + destruct (IH t ob (items_ok_tail _ _ Hok) K T) as (t' & ob' & A1 & A2 & R).
      exists t', ob'. cbn [apply_items].
      rewrite (save_io_below ob nd l r K T Hlv), (save_io_below (ob_pad ob) nd l r K T Hlv).
      split; [exact A1|]. split; [exact A2|exact R].
  - destruct (proj2 Hok off d (or_introl eq_refl)) as (s & e & -> & Hse & He & ->).
    destruct (write_at_pad HO (length data) t (s * 1024) (chunk_bytes HO data s e) (good_leaf_fits HO data s e Hse He)) as [W1 W2].
    destruct (IH (write_at HO t (s * 1024) (chunk_bytes HO data s e)) ob (items_ok_tail _ _ Hok) K T)
      as (t' & ob' & A1 & A2 & K' & R' & T' & S' & St & M' & G' & Gt).
    exists t', ob'. cbn [apply_items]. rewrite <- W1. split; [exact A1|]. split; [exact A2|].
    split; [exact K'|]. split; [exact R'|]. split; [exact T'|]. split; [exact S'|].
    split; [congruence|]. split; [exact M'|]. split; [exact G'|].
    rewrite write_at_length in Gt. lia.
Qed.

(* ---------- the invariant for sinks that are not pre-sized ---------- *)
Definition ShortInv (D : N -> bool) (st : bytes * outboard) : Prop :=
  is_io (ob_k (snd st)) = true /\ blen HO (ob_data (snd st)) mod 64 = 0 /\ Inv HO data bs D (pad_state st).

(* an empty (or any all-zero, whole-slot) io-backed outboard file and an empty (or any all-zero) data file *)
Lemma ShortInv_init k a j : is_io k = true ->
  ShortInv (fun _ => false) (zeros HO a, mkOb k (root_hash HO data) (mkTree size bs) (zeros HO (64 * j))).
Proof.
  intro K. split; [exact K|]. split.
  - cbn [snd ob_data]. unfold blen, zeros. rewrite repeat_length. lia.
  - assert (E : pad_state (zeros HO a, mkOb k (root_hash HO data) (mkTree size bs) (zeros HO (64 * j)))
               = (init_target HO data, init_ob HO data bs k)).
    { unfold pad_state, ob_pad, init_target, init_ob. cbn [fst snd ob_k ob_root ob_tree ob_data]. f_equal; [|f_equal].
      - apply nth_error_ext'. intro i. unfold zeros. rewrite nth_error_pad, !nth_error_repeat', repeat_length.
        destruct (i <? length data)%nat, (i <? a)%nat; reflexivity.
      - fold size. fold B. apply nth_error_ext'. intro i. unfold zeros. rewrite nth_error_pad, !nth_error_repeat', repeat_length.
        destruct (i <? N.to_nat ((B - 1) * 64))%nat, (i <? 64 * j)%nat; reflexivity. }
    rewrite E. exact (init_inv HO data bs Hsize Hbs k (io_hist _ K)).
Qed.

Theorem ShortInv_step D st (o : op HO) : wf_ranges (op_q HO o) = true -> ShortInv D st ->
  exists ys, is_prefix ys (honest HO data bs (op_q HO o)) /\
    ShortInv (fun c => D c || delivered HO ys c) (hist_step HO st o) /\
    skipn n (ob_data (snd (hist_step HO st o))) = skipn n (ob_data (snd st)) /\
    skipn (length data) (fst (hist_step HO st o)) = skipn (length data) (fst st) /\
    blen HO (ob_data (snd st)) <= blen HO (ob_data (snd (hist_step HO st o))) /\
    (length (fst st) <= length (fst (hist_step HO st o)))%nat.
Proof.
  intros Hwf (K & M & I). destruct st as [t ob]. destruct o as [q enc sf fsm]. cbn [op_q fst snd] in *.
  pose proof (os_tree HO _ size bs (inv_sized HO data bs D _ I)) as Ht.
  pose proof (inv_root HO data bs D _ I) as Hr. cbn [pad_state fst snd ob_pad ob_tree ob_root] in Ht, Hr.
  assert (Hstep : exists ys, is_prefix ys (honest HO data bs q) /\
            forall t' ob', apply_items HO ys t ob = (SOk, t', ob') -> hist_step HO (t, ob) (mkOp HO q enc sf fsm) = (t', ob')).
  { destruct fsm.
    - destruct (fsm_step_prefix HO HOK data bs Hsize Hbs sf enc q t ob Hwf Ht Hr) as (ys & Hp & Hres).
      exists ys. split; [exact Hp|]. intros t' ob' A. exact (step_result_fsm HO t ob q enc sf t' ob' (Hres t' ob' A)).
    - destruct (sync_step_prefix HO HOK data bs Hsize Hbs sf enc q t ob Hwf Ht Hr) as (ys & Hp & Hres).
      exists ys. split; [exact Hp|]. intros t' ob' A. exact (step_result_sync HO t ob q enc sf t' ob' (Hres t' ob' A)). }
  destruct Hstep as (ys & Hp & Hres). exists ys. split; [exact Hp|].
  destruct (apply_items_pad ys t ob (prefix_items_ok q ys Hwf Hp) K Ht)
    as (t' & ob' & A1 & A2 & K' & R' & T' & S' & St & M' & G' & Gt).
  rewrite (Hres t' ob' A1). cbn [fst snd].
  destruct (inv_apply HO HOK data bs Hsize Hbs D _ _ q ys I Hp) as (t2 & ob2 & A2' & I').
  unfold pad_state in A2'. cbn [fst snd] in A2'. rewrite A2 in A2'. injection A2' as <- <-.
  split; [|split; [exact S'|split; [exact St|split; [exact G'|exact Gt]]]].
  split; [cbn [snd]; now rewrite K'|]. split; [cbn [snd]; auto|exact I'].
Qed.

Theorem ShortInv_history ops : Forall (fun o => wf_ranges (op_q HO o) = true) ops ->
  forall D st, ShortInv D st ->
  exists D', ShortInv D' (fold_left (hist_step HO) ops st) /\ (forall c, D c = true -> D' c = true) /\
    skipn n (ob_data (snd (fold_left (hist_step HO) ops st))) = skipn n (ob_data (snd st)) /\
    skipn (length data) (fst (fold_left (hist_step HO) ops st)) = skipn (length data) (fst st).
Proof.
  induction 1 as [|o ops Ho _ IH]; intros D st I; cbn [fold_left].
  - exists D. split; [exact I|]. split; [auto|]. split; reflexivity.
  - destruct (ShortInv_step D st o Ho I) as (ys & _ & I1 & S1 & S2 & _).
    destruct (IH _ _ I1) as (D' & I2 & Hm & S3 & S4). exists D'. split; [exact I2|]. split.
    + intros c Hc. apply Hm. now rewrite Hc.
    + split; congruence.
Qed.

(* the view of the fsm loader is the padded store when the store consists of whole slots *)
Lemma fsm_view_pad (ob : outboard) : is_io (ob_k ob) = true -> ob_tree ob = mkTree size bs ->
  blen HO (ob_data ob) mod 64 = 0 -> fsm_view HO ob = ob_pad ob.
Proof.
  intros K T M. unfold fsm_view, ob_pad. rewrite K. f_equal. rewrite T, blocks_spec. fold size. fold B.
  unfold fsm_bytes. replace (blen HO (ob_data ob) / 64 * 64) with (blen HO (ob_data ob)) by lia.
  unfold take at 2. unfold blen. rewrite Nat2N.id, firstn_all. unfold take. fold n. apply firstn_zeros_pad.
Qed.

(* the fsm validators on a state of ShortInv (target of the blob's length) *)
Theorem ShortInv_validator_fsm D t ob q : ShortInv D (t, ob) -> length t = length data ->
  (valid_ranges_fsm HO ob t q = valid_ranges HO (ob_pad ob) t q /\
   valid_outboard_ranges_fsm HO ob q = valid_outboard_ranges HO (ob_pad ob) q) /\
  (nondegenerate HO data -> 2 <= B -> wf_ranges q = true ->
   valid_ranges_fsm HO ob t q =
   (flat_map (fun ga => if touchedb q size bs ga && grp_full HO data bs D ga
                        then [(grp_start bs ga, grp_end size bs ga)] else [])
             (chunk_range_list 0 B), Ok tt)).
Proof.
  intros (K & M & I) Hl. cbn [snd] in K, M. unfold pad_state in I. cbn [fst snd] in I. rewrite (pad_id HO _ t Hl) in I.
  pose proof (os_tree HO _ size bs (inv_sized HO data bs D _ I)) as Ht. cbn [snd ob_pad ob_tree] in Ht.
  pose proof (valid_ranges_fsm_view HO size bs Hsize Hbs ob Ht t q) as V1.
  pose proof (valid_outboard_ranges_fsm_view HO size bs Hsize Hbs ob Ht q) as V2.
  rewrite (fsm_view_pad ob K Ht M) in V1, V2.
  split; [split; assumption|]. intros Hnd HB Hwf. rewrite V1.
  exact (inv_validator_exact HO HOK data bs Hsize Hbs D t (ob_pad ob) q I Hnd HB Hwf).
Qed.

(* convergence: once every chunk is delivered, the first |blob| bytes of the target are the blob and the first
   (blocks - 1) * 64 bytes of the store are the blob's outboard *)
Theorem ShortInv_converges D st : ShortInv D st -> (forall c, c < nc -> D c = true) ->
  pad HO (length data) (fst st) = data /\ created_store HO data bs (ob_pad (snd st)).
Proof.
  intros (_ & _ & I) HD. exact (inv_converges HO HOK data bs Hsize Hbs D _ I HD).
Qed.

End Short.

(* ---------- closed forms used by Props/C07.v ---------- *)
Theorem gaph_short_defs : forall (HO : hops) (data : bytes HO) (bs : N) (D : N -> bool) (st : bytes HO * outboard HO),
  (forall ob : outboard HO,
     ob_pad HO data bs ob =
     mkOb (ob_k ob) (ob_root ob) (ob_tree ob) (pad HO (N.to_nat ((sp_blocks (blen HO data) bs - 1) * 64)) (ob_data ob))) /\
  pad_state HO data bs st = (pad HO (length data) (fst st), ob_pad HO data bs (snd st)) /\
  (ShortInv HO data bs D st <->
   is_io (ob_k (snd st)) = true /\ blen HO (ob_data (snd st)) mod 64 = 0 /\ Inv HO data bs D (pad_state HO data bs st)).
Proof. intros. split; [reflexivity|]. split; reflexivity. Qed.

Theorem gaph_short_pad_id : forall (HO : hops) (data : bytes HO) (bs : N), blen HO data <= 2 ^ 63 -> bs <= 10 ->
  forall ob : outboard HO, ob_sized HO ob (blen HO data) bs -> ob_pad HO data bs ob = ob.
Proof. exact ob_pad_id. Qed.

Theorem gaph_short_init : forall (HO : hops) (data : bytes HO) (bs : N), blen HO data <= 2 ^ 63 -> bs <= 10 ->
  forall (k : ob_kind) (a j : nat), is_io k = true ->
  ShortInv HO data bs (fun _ => false)
    (zeros HO a, mkOb k (root_hash HO data) (mkTree (blen HO data) bs) (zeros HO (64 * j))).
Proof. intros HO data bs Hs Hb. exact (ShortInv_init HO data bs Hs Hb). Qed.

Theorem gaph_short_step : forall (HO : hops), hash_ok HO ->
  forall (data : bytes HO) (bs : N), blen HO data <= 2 ^ 63 -> bs <= 10 ->
  forall (D : N -> bool) (st : bytes HO * outboard HO) (o : op HO),
  wf_ranges (op_q HO o) = true -> ShortInv HO data bs D st ->
  exists ys, is_prefix ys (honest HO data bs (op_q HO o)) /\
    ShortInv HO data bs (fun c => D c || delivered HO ys c) (hist_step HO st o) /\
    skipn (N.to_nat ((sp_blocks (blen HO data) bs - 1) * 64)) (ob_data (snd (hist_step HO st o))) =
      skipn (N.to_nat ((sp_blocks (blen HO data) bs - 1) * 64)) (ob_data (snd st)) /\
    skipn (length data) (fst (hist_step HO st o)) = skipn (length data) (fst st) /\
    blen HO (ob_data (snd st)) <= blen HO (ob_data (snd (hist_step HO st o))) /\
    (length (fst st) <= length (fst (hist_step HO st o)))%nat.
Proof. intros HO HOK data bs Hs Hb. exact (ShortInv_step HO HOK data bs Hs Hb). Qed.

Theorem gaph_short_history : forall (HO : hops), hash_ok HO ->
  forall (data : bytes HO) (bs : N), blen HO data <= 2 ^ 63 -> bs <= 10 ->
  forall ops : list (op HO), Forall (fun o => wf_ranges (op_q HO o) = true) ops ->
  forall (D : N -> bool) (st : bytes HO * outboard HO), ShortInv HO data bs D st ->
  exists D', ShortInv HO data bs D' (fold_left (hist_step HO) ops st) /\ (forall c, D c = true -> D' c = true) /\
    skipn (N.to_nat ((sp_blocks (blen HO data) bs - 1) * 64)) (ob_data (snd (fold_left (hist_step HO) ops st))) =
      skipn (N.to_nat ((sp_blocks (blen HO data) bs - 1) * 64)) (ob_data (snd st)) /\
    skipn (length data) (fst (fold_left (hist_step HO) ops st)) = skipn (length data) (fst st).
Proof. intros HO HOK data bs Hs Hb. exact (ShortInv_history HO HOK data bs Hs Hb). Qed.

Theorem gaph_short_validator_fsm : forall (HO : hops), hash_ok HO ->
  forall (data : bytes HO) (bs : N), blen HO data <= 2 ^ 63 -> bs <= 10 ->
  forall (D : N -> bool) (t : bytes HO) (ob : outboard HO) (q : ranges),
  ShortInv HO data bs D (t, ob) -> length t = length data ->
  (valid_ranges_fsm HO ob t q = valid_ranges HO (ob_pad HO data bs ob) t q /\
   valid_outboard_ranges_fsm HO ob q = valid_outboard_ranges HO (ob_pad HO data bs ob) q) /\
  (nondegenerate HO data -> 2 <= sp_blocks (blen HO data) bs -> wf_ranges q = true ->
   valid_ranges_fsm HO ob t q =
   (flat_map (fun ga => if touchedb q (blen HO data) bs ga && grp_full HO data bs D ga
                        then [(grp_start bs ga, grp_end (blen HO data) bs ga)] else [])
             (chunk_range_list 0 (sp_blocks (blen HO data) bs)), Ok tt)).
Proof. intros HO HOK data bs Hs Hb. exact (ShortInv_validator_fsm HO HOK data bs Hs Hb). Qed.

Theorem gaph_short_converges : forall (HO : hops), hash_ok HO ->
  forall (data : bytes HO) (bs : N), blen HO data <= 2 ^ 63 -> bs <= 10 ->
  forall (D : N -> bool) (st : bytes HO * outboard HO),
  ShortInv HO data bs D st -> (forall c, c < nchunks (blen HO data) -> D c = true) ->
  pad HO (length data) (fst st) = data /\ created_store HO data bs (ob_pad HO data bs (snd st)).
Proof. intros HO HOK data bs Hs Hb. exact (ShortInv_converges HO HOK data bs Hs Hb). Qed.

(* ---------- the pre-sized premise is needed for the SYNC validators ----------
   a blob of 3 chunks at block size 0 (two stored pairs, 128 bytes), a pre-sized all-zero target, an EMPTY
   PreOrderOutboard file; one fault-free decode of the honest encoding of the query [2, oo) (the last chunk:
   only the root pair is sent).  The store then holds 64 of its 128 bytes.  The sync validators stop with
   UnexpectedEof at the missing slot of node 0 and report nothing, not even the delivered chunk; the fsm validators
   read the missing slot as a zero pair and report exactly the delivered chunk. *)
Definition wit_byte : B DecWitness.term_hops := DecWitness.TC 7 [] false.
Definition wit_data : bytes DecWitness.term_hops := repeat wit_byte 3000.
Definition wit_ob0 : outboard DecWitness.term_hops :=
  mkOb PreIO (root_hash DecWitness.term_hops wit_data) (mkTree 3000 0) [].
Definition wit_op : op DecWitness.term_hops :=
  mkOp DecWitness.term_hops [2] (flat DecWitness.term_hops (honest DecWitness.term_hops wit_data 0 [2])) no_faults false.
Definition wit_st : bytes DecWitness.term_hops * outboard DecWitness.term_hops :=
  hist_step DecWitness.term_hops (init_target DecWitness.term_hops wit_data, wit_ob0) wit_op.

Lemma wit_nondegenerate : nondegenerate DecWitness.term_hops wit_data.
Proof.
  unfold nondegenerate. assert (Hl : blen DecWitness.term_hops wit_data = 3000) by (unfold blen, wit_data; rewrite repeat_length; reflexivity).
  rewrite Hl. change (nchunks 3000) with 3. intros c Hc.
  assert (Hcases : c = 0 \/ c = 1 \/ c = 2) by lia.
  destruct Hcases as [->|[->| ->]]; vm_compute; intro H; discriminate H.
Qed.

Theorem gaph_unsized_sync_validator_refuted :
  exists (HO : hops) (data : bytes HO) (bs : N) (ob0 : outboard HO) (o : op HO),
    hash_ok HO /\ blen HO data <= 2 ^ 63 /\ bs <= 10 /\ nondegenerate HO data /\ sp_blocks (blen HO data) bs = 3 /\
    ob0 = mkOb PreIO (root_hash HO data) (mkTree (blen HO data) bs) [] /\
    wf_ranges (op_q HO o) = true /\ op_sf HO o = no_faults /\
    op_enc HO o = flat HO (honest HO data bs (op_q HO o)) /\
    let st := hist_step HO (init_target HO data, ob0) o in
    (exists D, ShortInv HO data bs D st) /\
    length (fst st) = length data /\ blen HO (ob_data (snd st)) = 64 /\
    valid_ranges HO (snd st) (fst st) [0] = ([], Err KUnexpectedEof) /\
    valid_outboard_ranges HO (snd st) [0] = ([], Err KUnexpectedEof) /\
    valid_ranges_fsm HO (snd st) (fst st) [0] = ([(2, 3)], Ok tt) /\
    valid_outboard_ranges_fsm HO (snd st) [0] = ([(2, 3)], Ok tt).
Proof.
  exists DecWitness.term_hops, wit_data, 0, wit_ob0, wit_op.
  assert (Hl : blen DecWitness.term_hops wit_data = 3000) by (unfold blen, wit_data; rewrite repeat_length; reflexivity).
  assert (Hs : blen DecWitness.term_hops wit_data <= 2 ^ 63) by (rewrite Hl; cbn; lia).
  split; [exact DecWitness.term_hops_ok|]. split; [exact Hs|]. split; [lia|]. split; [exact wit_nondegenerate|].
  split; [rewrite Hl; reflexivity|]. split; [unfold wit_ob0; rewrite Hl; reflexivity|].
  split; [reflexivity|]. split; [reflexivity|]. split; [reflexivity|].
  cbv zeta. fold wit_st.
  split.
  - assert (Z : ShortInv DecWitness.term_hops wit_data 0 (fun _ => false) (init_target DecWitness.term_hops wit_data, wit_ob0)).
    { pose proof (ShortInv_init DecWitness.term_hops wit_data 0 Hs ltac:(lia) PreIO (length wit_data) 0 eq_refl) as Z.
      unfold wit_ob0. rewrite Hl in Z. exact Z. }
    destruct (ShortInv_step DecWitness.term_hops DecWitness.term_hops_ok wit_data 0 Hs ltac:(lia) (fun _ => false)
                (init_target DecWitness.term_hops wit_data, wit_ob0) wit_op eq_refl Z) as (ys & Hp & I & _).
    eexists. exact I.
  - split; [vm_compute; reflexivity|]. split; [vm_compute; reflexivity|]. split; [vm_compute; reflexivity|].
    split; [vm_compute; reflexivity|]. split; vm_compute; reflexivity.
Qed.
