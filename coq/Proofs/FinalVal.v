(* Final composition, part 4 (C06): on a store created by the crate and the blob's own data the validators
   report exactly the touched chunk groups. *)
From BaoV Require Import Model.Sync Model.Fsm Spec.EncSpec Spec.HashAssm.
From BaoV Require Import Proofs.NodeLevel Proofs.NodeBits Proofs.NodeAlgebra Proofs.RangeBase Proofs.PlanBase Proofs.PlanNav Proofs.DecHash
  Proofs.ValSpec Proofs.ValPath Proofs.ValTrue Proofs.ValTop Proofs.ValSound Proofs.HistOb Proofs.HistPath.
From BaoV Require Import Proofs.EncThm Proofs.FinalStore.
From Coq Require Import ZArith Lia.
Open Scope N_scope.

(* ---- the fsm validators agree with the sync ones as soon as the two loaders agree on the nodes of the tree
        (C06_sync_eq_fsm asks for all nodes, which fails for io-backed stores beyond the tree) ---- *)
Section ValFsmTree.
Variable HO : hops.
Variables (size bs : N).
Hypothesis Hsize : size <= 2 ^ 63.
Hypothesis Hbs : bs <= 10.
Variable ob : outboard HO.
Variable d : bytes HO.
Variable wd : bool.
Local Notation B := (sp_blocks size bs).
Local Notation t := (mkTree size bs).

Lemma validate_fsm_shape : forall fuel ga n rm rs owed ir,
  node_ok size bs ga n rm -> N.log2 (capof n) <= N.of_nat fuel ->
  (forall x, In x (sh_pre fuel ga n) -> load_fsm HO ob (unshift bs x) = load_sync HO ob (unshift bs x)) ->
  validate_rec_fsm HO fuel wd t (filled_of B) ob d owed (sid ga n) ir rs
  = validate_rec HO fuel wd t (filled_of B) ob d owed (sid ga n) ir rs.
Proof.
  induction fuel as [|f IH]; intros ga n rm rs owed ir Hok Hf Hl; [reflexivity|].
  pose proof (node_geom_ok size bs ga n rm Hsize Hbs Hok) as [G1 G2 G3 G4 G5].
  pose proof (nk_pos _ _ _ _ _ Hok) as P.
  cbn [validate_rec_fsm validate_rec]. change (tbs t) with bs. rewrite G1.
  rewrite (Hl (sid ga n) (sh_pre_head f ga n P)).
  change (yield_if_valid_fsm HO) with (yield_if_valid HO).
  destruct (r_is_empty rs); [reflexivity|].
  destruct (leaf_byte_ranges3 t (unshift bs (sid ga n))) as [[l m] r].
  destruct (negb (is_relevant_for_outboard t (unshift bs (sid ga n)))); [reflexivity|].
  destruct (load_sync HO ob (unshift bs (sid ga n))) as [[[lh rh]|]|k|]; try reflexivity.
  destruct (negb (bytes_eqb HO (parent_cv HO lh rh ir) owed)); [reflexivity|].
  destruct (Ranges.split rs (unshift bs (sid ga n))) as [l_rs r_rs].
  rewrite (is_leaf_sid ga n rm size bs Hok).
  destruct (N.leb_spec n 2) as [L2|L2]; [reflexivity|].
  assert (Hn : 3 <= n) by lia.
  assert (Hce : cexp n <= 64).
  { pose proof (node_end_bound size bs ga n rm Hsize Hbs Hok) as HE. pose proof (pow2_pos bs) as Hp.
    assert (capof n <= 2 ^ 53) by nia. rewrite (capof_pow2 n ltac:(lia)) in H. apply pow2_le_inv in H. lia. }
  rewrite (left_child_sid size bs ga n rm Hok Hn).
  rewrite (right_descendant_sid size bs ga n rm Hok Hn Hce).
  destruct (fuel_children n f Hn Hf) as [F1 F2].
  pose proof (node_ok_left size bs ga n rm Hok Hn) as Hokl.
  pose proof (node_ok_right size bs ga n rm Hok Hn) as Hokr.
  rewrite (sh_pre_inner f ga n Hn) in Hl.
  rewrite (IH ga (capof n / 2) false l_rs lh false Hokl F1)
    by (intros y Hy; apply Hl; right; apply in_or_app; left; exact Hy).
  destruct (validate_rec HO f wd t (filled_of B) ob d lh (sid ga (capof n / 2)) false l_rs) as [ys1 r1].
  destruct r1; try reflexivity.
  rewrite (IH (ga + capof n / 2) (n - capof n / 2) rm r_rs rh false Hokr F2)
    by (intros y Hy; apply Hl; right; apply in_or_app; right; exact Hy).
  reflexivity.
Qed.
End ValFsmTree.

Section ValFsmTop.
Variable HO : hops.
Variables (size bs : N).
Hypothesis Hsize : size <= 2 ^ 63.
Hypothesis Hbs : bs <= 10.
Variable ob : outboard HO.
Hypothesis Htree : ob_tree ob = mkTree size bs.
Hypothesis Hagree : forall nd, In nd (sp_pre_nodes size bs) -> load_fsm HO ob nd = load_sync HO ob nd.
Local Notation B := (sp_blocks size bs).

Lemma agree_shape : forall x, In x (sh_pre 70 0 B) -> load_fsm HO ob (unshift bs x) = load_sync HO ob (unshift bs x).
Proof.
  intros x Hx. apply Hagree. unfold sp_pre_nodes. apply in_map.
  assert (HB1 : 1 <= B) by (unfold sp_blocks; lia).
  rewrite (sh_pre_fuel 65 70 0 B HB1 (root_fuel size bs Hsize)); [exact Hx|].
  pose proof (root_fuel size bs Hsize). lia.
Qed.

Lemma fuel70 : N.log2 (capof B) <= N.of_nat 70.
Proof. pose proof (root_fuel size bs Hsize). lia. Qed.

Theorem valid_ranges_fsm_tree d q : valid_ranges_fsm HO ob d q = valid_ranges HO ob d q.
Proof.
  unfold valid_ranges_fsm, valid_ranges. rewrite Htree.
  destruct (blocks (mkTree size bs) =? 1); [reflexivity|].
  rewrite shifted_eq. cbn [tsize].
  exact (validate_fsm_shape HO size bs Hsize Hbs ob d true 70 0 B true _ (ob_root ob) true
           (node_ok_root size bs) fuel70 agree_shape).
Qed.

Theorem valid_outboard_ranges_fsm_tree q : valid_outboard_ranges_fsm HO ob q = valid_outboard_ranges HO ob q.
Proof.
  unfold valid_outboard_ranges_fsm, valid_outboard_ranges. rewrite Htree.
  destruct (blocks (mkTree size bs) =? 1); [reflexivity|].
  rewrite shifted_eq. cbn [tsize].
  exact (validate_fsm_shape HO size bs Hsize Hbs ob [] false 70 0 B true _ (ob_root ob) true
           (node_ok_root size bs) fuel70 agree_shape).
Qed.
End ValFsmTop.

Section Val.
Variable HO : hops.
Hypothesis HOK : hash_ok HO.
Variable data : bytes HO.
Variable bs : N.
Hypothesis Hsize : blen HO data <= 2 ^ 63.
Hypothesis Hbs : bs <= 10.
Notation size := (blen HO data).
Notation B := (sp_blocks (blen HO data) bs).
Variable ob : outboard HO.
Hypothesis Hst : created_store HO data bs ob.

Lemma created_loads_ok : loads_ok HO ob size bs.
Proof.
  intros nd Hin. destruct Hst as [K T R D].
  destruct (c03_created_store_loads HO (ho_len HO HOK) data bs Hsize Hbs ob K T D nd Hin) as [H1 H2].
  destruct (sp_persisted size bs nd).
  - destruct (H1 eq_refl) as [E _]. eexists. exact E.
  - destruct (H2 eq_refl) as [E _]. eexists. exact E.
Qed.

Lemma created_stored_pair nd : pnode size bs nd -> stored_pair HO ob nd = Some (true_pair HO data nd).
Proof.
  intro Hp. destruct Hst as [K T R D]. unfold stored_pair.
  rewrite (proj1 (created_loads_pnode HO (ho_len HO HOK) data bs Hsize Hbs ob K T D nd Hp)). reflexivity.
Qed.

Lemma created_path_true ga : path_true HO data bs ob ga.
Proof.
  intros nd rt Hin. apply created_stored_pair.
  exact (top_path_pnode size bs Hsize Hbs ga nd rt Hin).
Qed.

Lemma created_loads_agree nd : In nd (sp_pre_nodes size bs) -> load_fsm HO ob nd = load_sync HO ob nd.
Proof.
  intro Hin. destruct Hst as [K T R D].
  destruct (c03_created_store_loads HO (ho_len HO HOK) data bs Hsize Hbs ob K T D nd Hin) as [H1 H2].
  destruct (sp_persisted size bs nd).
  - destruct (H1 eq_refl) as [E1 E2]. rewrite E1, E2. reflexivity.
  - destruct (H2 eq_refl) as [E1 E2]. rewrite E1, E2. reflexivity.
Qed.

Lemma created_fsm_eq d q0 :
  valid_ranges_fsm HO ob d q0 = valid_ranges HO ob d q0 /\
  valid_outboard_ranges_fsm HO ob q0 = valid_outboard_ranges HO ob q0.
Proof.
  pose proof Hst as [K T R D]. split.
  - exact (valid_ranges_fsm_tree HO size bs Hsize Hbs ob T created_loads_agree d q0).
  - exact (valid_outboard_ranges_fsm_tree HO size bs Hsize Hbs ob T created_loads_agree q0).
Qed.

Variable q : ranges.
Hypothesis Hwf : wf_ranges q = true.

Theorem created_complete : 2 <= B ->
  valid_ranges HO ob data q =
  (flat_map (fun ga => if touchedb q size bs ga then [(grp_start bs ga, grp_end size bs ga)] else [])
            (chunk_range_list 0 B), Ok tt) /\
  valid_outboard_ranges HO ob q =
  (flat_map (fun ga => if touchedb q size bs ga then [(grp_start bs ga, grp_end size bs ga)] else [])
            (chunk_range_list 0 B), Ok tt).
Proof.
  intro H2. pose proof Hst as [K T R D]. split.
  - exact (intact_complete HO HOK data bs ob Hsize Hbs R q Hwf T created_loads_ok H2 (fun ga _ => created_path_true ga)).
  - exact (outboard_intact_complete HO HOK data bs ob Hsize Hbs R q Hwf T created_loads_ok H2 (fun ga _ => created_path_true ga)).
Qed.

Theorem created_single : B = 1 ->
  valid_ranges HO ob data q = ([(0, chunks size)], Ok tt) /\
  valid_outboard_ranges HO ob q = ([(0, chunks size)], Ok tt).
Proof.
  intro H1. pose proof Hst as [K T R D]. split.
  - exact (single_valid_is_reported HO HOK data bs ob Hsize R q T H1).
  - exact (outboard_single HO size bs q ob T H1).
Qed.

End Val.

Theorem c06_created_store_complete : forall (HO : hops), hash_ok HO ->
  forall (data : bytes HO) (bs : N) (ob : outboard HO),
  blen HO data <= 2 ^ 63 -> bs <= 10 -> created_store HO data bs ob ->
  forall q : ranges, wf_ranges q = true ->
  (loads_ok HO ob (blen HO data) bs /\ forall ga, path_true HO data bs ob ga) /\
  (2 <= sp_blocks (blen HO data) bs ->
     valid_ranges HO ob data q =
     (flat_map (fun ga => if touchedb q (blen HO data) bs ga
                          then [(grp_start bs ga, grp_end (blen HO data) bs ga)] else [])
               (chunk_range_list 0 (sp_blocks (blen HO data) bs)), Ok tt) /\
     valid_outboard_ranges HO ob q =
     (flat_map (fun ga => if touchedb q (blen HO data) bs ga
                          then [(grp_start bs ga, grp_end (blen HO data) bs ga)] else [])
               (chunk_range_list 0 (sp_blocks (blen HO data) bs)), Ok tt)) /\
  (sp_blocks (blen HO data) bs = 1 ->
     valid_ranges HO ob data q = ([(0, chunks (blen HO data))], Ok tt) /\
     valid_outboard_ranges HO ob q = ([(0, chunks (blen HO data))], Ok tt)) /\
  (forall (d : bytes HO) (q0 : ranges),
     valid_ranges_fsm HO ob d q0 = valid_ranges HO ob d q0 /\
     valid_outboard_ranges_fsm HO ob q0 = valid_outboard_ranges HO ob q0).
Proof.
  intros HO HOK data bs ob Hsize Hbs Hst q Hwf.
  split; [split; [exact (created_loads_ok HO HOK data bs Hsize Hbs ob Hst)|
                  exact (created_path_true HO HOK data bs Hsize Hbs ob Hst)]|].
  split; [exact (created_complete HO HOK data bs Hsize Hbs ob Hst q Hwf)|].
  split; [exact (created_single HO HOK data bs Hsize ob Hst q)|
          exact (created_fsm_eq HO HOK data bs Hsize Hbs ob Hst)].
Qed.

(* the fsm validators equal the sync ones whenever the loaders agree on the nodes of the tree
   (pre-sized stores: C07_sized_loads) *)
Theorem c06_sync_eq_fsm_tree : forall (HO : hops) (size bs : N), size <= 2 ^ 63 -> bs <= 10 ->
  forall ob : outboard HO, ob_tree ob = mkTree size bs ->
  (forall nd, In nd (sp_pre_nodes size bs) -> load_fsm HO ob nd = load_sync HO ob nd) ->
  forall (d : bytes HO) (q : ranges),
  valid_ranges_fsm HO ob d q = valid_ranges HO ob d q /\
  valid_outboard_ranges_fsm HO ob q = valid_outboard_ranges HO ob q.
Proof.
  intros HO size bs Hsize Hbs ob T Hag d q. split.
  - exact (valid_ranges_fsm_tree HO size bs Hsize Hbs ob T Hag d q).
  - exact (valid_outboard_ranges_fsm_tree HO size bs Hsize Hbs ob T Hag q).
Qed.
