(* End-to-end download, part 3: fault-free honest steps whose queries cover the blob turn the all-zero
   initial state into (blob, created store of the blob) (download_converges, download_all); composed with the
   validating encoders on a created store (e2e_create_encode_decode, e2e_download_all); the hypotheses are
   satisfiable (download_nonvacuous). *)
From BaoV Require Import Model.Sync Model.Fsm Model.IO Spec.RangeSpec Spec.PlanSpec Spec.PlanWf Spec.EncSpec Spec.HashAssm.
From BaoV Require Import Proofs.RangeBase Proofs.BridgeBase Proofs.BridgeTree Proofs.BridgeLeaves
  Proofs.DecForest Proofs.DecRanges Proofs.IOSinkFaults Proofs.E2EMisc
  Proofs.HistOb Proofs.HistEnc Proofs.HistInv Proofs.HistStep
  Proofs.FinalStore Proofs.FinalEnc Proofs.FinalConv Proofs.DecWitness Proofs.E2EDownload Proofs.E2EDownloadStep.
From Coq Require Import ZArith Lia.
Open Scope N_scope.
Arguments N.add : simpl never.
Arguments N.sub : simpl never.
Arguments N.mul : simpl never.
Arguments N.pow : simpl never.
Arguments N.div : simpl never.
Arguments N.modulo : simpl never.
Arguments N.log2 : simpl never.
Arguments N.min : simpl never.
Arguments N.max : simpl never.


(* ---- generic facts ---- *)
Section Generic.
Variable HO : hops.
Notation bytes := (bytes HO).
Notation outboard := (outboard HO).

Lemma ob_eq (o1 o2 : outboard) : ob_k o1 = ob_k o2 -> ob_root o1 = ob_root o2 -> ob_tree o1 = ob_tree o2 ->
  ob_data o1 = ob_data o2 -> o1 = o2.
Proof. destruct o1, o2. simpl. intros -> -> -> ->. reflexivity. Qed.

Lemma sel_all size c : sel [0] size c = (c <? nchunks size).
Proof.
  unfold sel. cbn [mem]. assert (E : (0 <=? c) = true) by (apply N.leb_le; lia). rewrite E.
  cbn [negb orb]. apply andb_true_r.
Qed.

Lemma wf_all : wf_ranges [0] = true.
Proof. reflexivity. Qed.
End Generic.

Section Conv.
Variable HO : hops.
Hypothesis HOK : hash_ok HO.
Notation bytes := (bytes HO).
Notation outboard := (outboard HO).
Variable data : bytes.
Variable bs : N.
Hypothesis Hsize : blen HO data <= 2 ^ 63.
Hypothesis Hbs : bs <= 10.
Notation size := (blen HO data).

(* a created store is determined by its kind *)
Lemma created_store_unique (o1 o2 : outboard) :
  created_store HO data bs o1 -> created_store HO data bs o2 -> ob_k o1 = ob_k o2 -> o1 = o2.
Proof.
  intros [K1 T1 R1 D1] [K2 T2 R2 D2] E. apply ob_eq; [exact E| | |].
  - rewrite R1, R2. reflexivity.
  - rewrite T1, T2. reflexivity.
  - rewrite D1, D2, E. reflexivity.
Qed.

(* no step of a history (any stream, any sink faults) changes the kind of the store *)
Lemma hist_step_kind D st o : wf_ranges (op_q HO o) = true -> Inv HO data bs D st ->
  ob_k (snd (hist_step HO st o)) = ob_k (snd st).
Proof.
  intros Hwf I. destruct st as [t ob]. destruct o as [q enc sf fsm]. cbn [op_q] in Hwf.
  pose proof (os_tree HO ob size bs (inv_sized HO data bs D (t, ob) I)) as Ht.
  pose proof (inv_root HO data bs D (t, ob) I) as Hr.
  pose proof (inv_len HO data bs D (t, ob) I) as Hl.
  pose proof (inv_sized HO data bs D (t, ob) I) as Hs. cbn [fst snd] in Hl, Hs.
  destruct fsm.
  - destruct (fsm_step_prefix HO HOK data bs Hsize Hbs sf enc q t ob Hwf Ht Hr) as (ys & [r Hp] & Hres).
    destruct (honest_good HO HOK data bs Hsize Hbs q ys r t ob Hp Hl Hs) as (t' & ob' & A1 & _ & M & _).
    rewrite (step_result_fsm HO t ob q enc sf t' ob' (Hres t' ob' A1)). cbn [snd].
    destruct M as (_ & _ & K & _). exact K.
  - destruct (sync_step_prefix HO HOK data bs Hsize Hbs sf enc q t ob Hwf Ht Hr) as (ys & [r Hp] & Hres).
    destruct (honest_good HO HOK data bs Hsize Hbs q ys r t ob Hp Hl Hs) as (t' & ob' & A1 & _ & M & _).
    rewrite (step_result_sync HO t ob q enc sf t' ob' (Hres t' ob' A1)). cbn [snd].
    destruct M as (_ & _ & K & _). exact K.
Qed.

(* a fault-free step fed the honest encoding of its query, then any bytes *)
Definition honest_op (o : op HO) : Prop :=
  wf_ranges (op_q HO o) = true /\ op_sf HO o = no_faults /\
  exists rest, op_enc HO o = flat HO (honest HO data bs (op_q HO o)) ++ rest.

Lemma honest_op_step D st o : honest_op o -> Inv HO data bs D st ->
  Inv HO data bs (fun c => D c || sel (op_q HO o) size c) (hist_step HO st o).
Proof.
  intros (Hwf & Hsf & rest & He) I. destruct o as [q enc sf fsm]. cbn [op_q op_sf op_enc] in *.
  rewrite Hsf, He. exact (full_step_sel HO HOK data bs Hsize Hbs q rest fsm D st Hwf I).
Qed.

Lemma download_inv ops : Forall honest_op ops -> forall D st, Inv HO data bs D st ->
  Inv HO data bs (fun c => D c || existsb (fun o => sel (op_q HO o) size c) ops) (fold_left (hist_step HO) ops st) /\
  ob_k (snd (fold_left (hist_step HO) ops st)) = ob_k (snd st).
Proof.
  induction 1 as [|o ops Ho _ IH]; intros D st I; cbn [fold_left existsb].
  - split; [|reflexivity]. apply (Inv_ext HO data bs D); [|exact I]. intros c _. now rewrite orb_false_r.
  - pose proof (honest_op_step D st o Ho I) as I1.
    destruct (IH _ _ I1) as [I2 K2]. split.
    + apply (Inv_ext HO data bs (fun c => (D c || sel (op_q HO o) size c) ||
                                          existsb (fun o0 => sel (op_q HO o0) size c) ops)); [|exact I2].
      intros c _. now rewrite orb_assoc.
    + rewrite K2. exact (hist_step_kind D st o (proj1 Ho) I).
Qed.

Lemma init_ob_kind k : ob_k (snd (init_target HO data, init_ob HO data bs k)) = k.
Proof. reflexivity. Qed.

Theorem download_converges_sec k ops : hist_kind k -> Forall honest_op ops ->
  (forall c, c < nchunks size -> exists o, In o ops /\ sel (op_q HO o) size c = true) ->
  fst (fold_left (hist_step HO) ops (init_target HO data, init_ob HO data bs k)) = data /\
  created_store HO data bs (snd (fold_left (hist_step HO) ops (init_target HO data, init_ob HO data bs k))) /\
  ob_k (snd (fold_left (hist_step HO) ops (init_target HO data, init_ob HO data bs k))) = k.
Proof.
  intros Hk Hops Hcov.
  destruct (download_inv ops Hops _ _ (init_inv HO data bs Hsize Hbs k Hk)) as [I K].
  pose proof (eq_trans K (init_ob_kind k)) as K'.
  destruct (inv_converges HO HOK data bs Hsize Hbs _ _ I) as [E C].
  - intros c Hc. destruct (Hcov c Hc) as (o & Hin & Hs). cbn [orb]. apply existsb_exists. exists o. split; assumption.
  - split; [exact E|]. split; [exact C|exact K'].
Qed.

End Conv.

(* ---- (C) closed forms ---- *)
Theorem download_converges : forall (HO : hops), hash_ok HO ->
  forall (data : bytes HO) (bs : N), blen HO data <= 2 ^ 63 -> bs <= 10 ->
  forall k, hist_kind k ->
  forall ops : list (op HO),
  Forall (fun o => wf_ranges (op_q HO o) = true /\ op_sf HO o = no_faults /\
                   exists rest, op_enc HO o = flat HO (honest HO data bs (op_q HO o)) ++ rest) ops ->
  (forall c, c < nchunks (blen HO data) -> exists o, In o ops /\ sel (op_q HO o) (blen HO data) c = true) ->
  fst (fold_left (hist_step HO) ops (init_target HO data, init_ob HO data bs k)) = data /\
  created_store HO data bs (snd (fold_left (hist_step HO) ops (init_target HO data, init_ob HO data bs k))) /\
  ob_k (snd (fold_left (hist_step HO) ops (init_target HO data, init_ob HO data bs k))) = k.
Proof.
  intros HO HOK data bs Hsize Hbs k Hk ops Hops Hcov.
  exact (download_converges_sec HO HOK data bs Hsize Hbs k ops Hk Hops Hcov).
Qed.

(* the query ChunkRanges::all() = [0] alone *)
Theorem download_all : forall (HO : hops), hash_ok HO ->
  forall (data : bytes HO) (bs : N), blen HO data <= 2 ^ 63 -> bs <= 10 ->
  forall k, hist_kind k ->
  forall (rest : bytes HO) (fsm : bool),
  fst (hist_step HO (init_target HO data, init_ob HO data bs k)
         (mkOp HO [0] (flat HO (honest HO data bs [0]) ++ rest) no_faults fsm)) = data /\
  created_store HO data bs
    (snd (hist_step HO (init_target HO data, init_ob HO data bs k)
            (mkOp HO [0] (flat HO (honest HO data bs [0]) ++ rest) no_faults fsm))) /\
  ob_k (snd (hist_step HO (init_target HO data, init_ob HO data bs k)
               (mkOp HO [0] (flat HO (honest HO data bs [0]) ++ rest) no_faults fsm))) = k.
Proof.
  intros HO HOK data bs Hsize Hbs k Hk rest fsm.
  set (o := mkOp HO [0] (flat HO (honest HO data bs [0]) ++ rest) no_faults fsm).
  assert (Ho : honest_op HO data bs o).
  { split; [exact wf_all|]. split; [reflexivity|]. exists rest. reflexivity. }
  apply (download_converges_sec HO HOK data bs Hsize Hbs k [o] Hk (Forall_cons o Ho (Forall_nil _))).
  intros c Hc. exists o. split; [now left|]. unfold o. cbn [op_q]. rewrite sel_all. now apply N.ltb_lt.
Qed.

(* ---- (D) provider: create, encode; requester: decode into zeros ---- *)
Theorem e2e_create_encode_decode : forall (HO : hops), hash_ok HO ->
  forall (data : bytes HO) (bs : N), blen HO data <= 2 ^ 63 -> bs <= 10 ->
  forall ob : outboard HO, created_store HO data bs ob ->
  forall q : ranges, wf_ranges q = true ->
  exists enc : bytes HO,
    encode_ranges_validated HO data ob q = (Ok tt, enc) /\
    encode_ranges_validated_fsm HO data ob q = (Ok tt, enc) /\
    forall (D : N -> bool) (st : bytes HO * outboard HO) (rest : bytes HO) (fsm : bool),
    Inv HO data bs D st ->
    Inv HO data bs (fun c => D c || sel q (blen HO data) c)
        (hist_step HO st (mkOp HO q (enc ++ rest) no_faults fsm)).
Proof.
  intros HO HOK data bs Hsize Hbs ob Hc q Hwf.
  destruct (c05_created_store_ok HO HOK data bs Hsize Hbs ob Hc q Hwf) as (_ & _ & E1 & E2).
  exists (flat HO (honest HO data bs q)). split; [exact E1|]. split; [exact E2|].
  intros D st rest fsm I. exact (full_step HO HOK data bs Hsize Hbs q Hwf D st rest fsm I).
Qed.

Theorem e2e_download_all : forall (HO : hops), hash_ok HO ->
  forall (data : bytes HO) (bs : N), blen HO data <= 2 ^ 63 -> bs <= 10 ->
  forall ob : outboard HO, created_store HO data bs ob ->
  exists enc : bytes HO,
    encode_ranges_validated HO data ob [0] = (Ok tt, enc) /\
    encode_ranges_validated_fsm HO data ob [0] = (Ok tt, enc) /\
    forall k, hist_kind k -> forall (rest : bytes HO) (fsm : bool),
    fst (hist_step HO (init_target HO data, init_ob HO data bs k) (mkOp HO [0] (enc ++ rest) no_faults fsm)) = data /\
    created_store HO data bs
      (snd (hist_step HO (init_target HO data, init_ob HO data bs k) (mkOp HO [0] (enc ++ rest) no_faults fsm))) /\
    (k = ob_k ob ->
     snd (hist_step HO (init_target HO data, init_ob HO data bs k) (mkOp HO [0] (enc ++ rest) no_faults fsm)) = ob).
Proof.
  intros HO HOK data bs Hsize Hbs ob Hc.
  destruct (c05_created_store_ok HO HOK data bs Hsize Hbs ob Hc [0] (wf_all)) as (_ & _ & E1 & E2).
  exists (flat HO (honest HO data bs [0])). split; [exact E1|]. split; [exact E2|].
  intros k Hk rest fsm.
  destruct (download_all HO HOK data bs Hsize Hbs k Hk rest fsm) as (A1 & A2 & A3).
  split; [exact A1|]. split; [exact A2|].
  intro Ek. apply (created_store_unique HO data bs _ ob A2 Hc). rewrite A3. exact Ek.
Qed.

(* ---- non-vacuity: the hypotheses of download_converges hold for a blob of 3 chunks over the term-algebra hash,
   chunk groups of 2 chunks, and the two queries [0, 1) (sync decoder) and [1, oo) (fsm decoder, one trailing
   byte); neither query alone covers the blob ---- *)
Section NonVac.
Variable HO : hops.
Variable data : bytes HO.
Variable bs : N.
Hypothesis Hlen : blen HO data = 2049.
Variables e1 e2 : bytes HO.
Let o1 := mkOp HO [0; 1] e1 no_faults false.
Let o2 := mkOp HO [1] e2 no_faults true.

Lemma nonvac_chunks : nchunks (blen HO data) = 3.
Proof. rewrite Hlen. reflexivity. Qed.

Lemma nonvac_cover : forall c, c < nchunks (blen HO data) ->
  exists o, In o [o1; o2] /\ sel (op_q HO o) (blen HO data) c = true.
Proof.
  rewrite Hlen. change (nchunks 2049) with 3. intros c Hc.
  assert (Hcases : c = 0 \/ c = 1 \/ c = 2) by lia.
  destruct Hcases as [->|[->| ->]].
  - exists o1. split; [now left|reflexivity].
  - exists o2. split; [right; now left|reflexivity].
  - exists o2. split; [right; now left|reflexivity].
Qed.

Lemma nonvac_needs_both : forall o, In o [o1; o2] ->
  exists c, c < nchunks (blen HO data) /\ sel (op_q HO o) (blen HO data) c = false.
Proof.
  rewrite Hlen. change (nchunks 2049) with 3. intros o [<-|[<-|[]]].
  - exists 1. split; [lia|reflexivity].
  - exists 0. split; [lia|reflexivity].
Qed.
End NonVac.

Theorem download_nonvacuous :
  exists (HO : hops) (data : bytes HO) (bs : N) (k : ob_kind) (ops : list (op HO)),
    hash_ok HO /\ blen HO data <= 2 ^ 63 /\ bs <= 10 /\ hist_kind k /\
    nchunks (blen HO data) = 3 /\ length ops = 2%nat /\
    Forall (fun o => wf_ranges (op_q HO o) = true /\ op_sf HO o = no_faults /\
                     exists rest, op_enc HO o = flat HO (honest HO data bs (op_q HO o)) ++ rest) ops /\
    (forall c, c < nchunks (blen HO data) -> exists o, In o ops /\ sel (op_q HO o) (blen HO data) c = true) /\
    (forall o, In o ops -> exists c, c < nchunks (blen HO data) /\ sel (op_q HO o) (blen HO data) c = false).
Proof.
  set (data := (repeat TZ 2049 : bytes term_hops)).
  assert (Hlen : blen term_hops data = 2049) by (unfold blen, data; rewrite repeat_length; reflexivity).
  exists term_hops, data, 1, PreMem.
  exists [mkOp term_hops [0; 1] (flat term_hops (honest term_hops data 1 [0; 1]) ++ []) no_faults false;
          mkOp term_hops [1] (flat term_hops (honest term_hops data 1 [1]) ++ [TZ]) no_faults true].
  split; [exact term_hops_ok|]. split; [rewrite Hlen; discriminate|]. split; [discriminate|].
  split; [right; right; now left|].
  split; [exact (nonvac_chunks term_hops data Hlen)|]. split; [reflexivity|].
  split.
  - constructor; [|constructor; [|constructor]].
    + split; [reflexivity|]. split; [reflexivity|]. exists []. reflexivity.
    + split; [reflexivity|]. split; [reflexivity|]. exists [TZ]. reflexivity.
  - split.
    + exact (nonvac_cover term_hops data Hlen _ _).
    + exact (nonvac_needs_both term_hops data Hlen _ _).
Qed.
