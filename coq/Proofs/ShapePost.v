(* L10: post_order_offset is the position in the post-order listing of stored nodes (C12 item 4). *)
From BaoV Require Import Model.Iter Spec.NodeSpec Proofs.NodeLevel Proofs.NodeBits Proofs.NodeAlgebra
  Proofs.NodeRestricted Proofs.ShapeBase Proofs.ShapeIter Proofs.ShapeOffsets Proofs.ShapePos Proofs.ShapePre.
From Coq Require Import ZArith Lia.
Open Scope N_scope.
Ltac Zify.zify_post_hook ::= Z.to_euclidean_division_equations.

(* B groups, of which the first FB are full *)
Section PostPos.
Variables B FB : N.
Hypothesis HFB1 : FB <= B.
Hypothesis HFB2 : B <= FB + 1.

Lemma post_pos_formula : forall f a m l c, wf B a m l c -> m <= 2 * 2 ^ N.of_nat f ->
  forall s, a <= s -> s < a + shlen m ->
    level s <= l /\
    (ins FB s = true ->
       sh_post_pos (S f) a m s + popcount (nleft s - a) + 2 = (nleft s - a) + 2 ^ (level s + 1)) /\
    (ins FB s = false -> pers B s = true -> a + m = B ->
       sh_post_pos (S f) a m s + popcount (nleft s - a) + 2 = m).
Proof.
  apply (shape_ind B (fun f a m l c => forall s, a <= s -> s < a + shlen m ->
    level s <= l /\
    (ins FB s = true ->
       sh_post_pos f a m s + popcount (nleft s - a) + 2 = (nleft s - a) + 2 ^ (level s + 1)) /\
    (ins FB s = false -> pers B s = true -> a + m = B ->
       sh_post_pos f a m s + popcount (nleft s - a) + 2 = m))).
  - intros f a m c W Hm s H1 H2.
    assert (Es : s = a) by (destruct W as (W1 & _); unfold shlen in H2; lia). rewrite Es.
    pose proof (nav_a _ _ _ _ _ W) as Ha.
    pose proof (spine_level a 0 c Ha) as Lv. rewrite spine_0 in Lv.
    pose proof (nleft_spine a 0 c Ha) as Nl. rewrite spine_0 in Nl.
    rewrite Lv, Nl, N.sub_diag, sh_post_pos_leaf by assumption. cbn [popcount].
    split; [lia|]. split; [intros _; reflexivity|].
    intros _ Hp Hb. unfold pers in Hp. rewrite Lv in Hp. change (0 <? 0) with false in Hp. cbn [orb] in Hp.
    apply N.ltb_lt in Hp. lia.
  - intros f a m l c l' c' W Hm Hl Hl' WL WR Hsp Hf1 Hf2 IH1 IH2 s H1 H2.
    pose proof (nav_a _ _ _ _ _ W) as Ha.
    destruct (wf_large _ _ _ _ _ W Hm) as [_ Hlt].
    assert (Hmu : m <= 2 ^ (l + 1)) by (destruct W as (_ & _ & _ & W4 & _); exact W4).
    assert (Hab : a + m <= B) by (destruct W as (_ & W2 & _); exact W2).
    assert (Hsh : a + m = B \/ m = 2 ^ (l + 1)) by (destruct W as (_ & _ & _ & _ & _ & W6); exact W6).
    pose proof (shlen_pow l Hl) as E1. pose proof (shlen_split m l Hl Hlt) as E2.
    pose proof (shlen_lt_pow m l ltac:(lia) Hmu) as E3.
    pose proof (spine_level a l c Ha) as Rl. pose proof (nleft_spine a l c Ha) as Rn.
    pose proof (pow2_ge2 l Hl) as G2.
    rewrite (sh_post_pos_node B _ _ _ _ _ _ W Hm).
    destruct (N.eqb_spec s (spine a l)) as [Es|Ne].
    + rewrite Es, Rl, Rn, (N.sub_diag a). cbn [popcount]. split; [lia|]. split.
      * intros Hi. unfold ins in Hi. rewrite Rl, Rn in Hi. apply N.leb_le in Hi. lia.
      * intros _ _ _. lia.
    + destruct (N.ltb_spec s (spine a l)) as [Lt|Ge].
      * destruct (IH1 s H1 ltac:(unfold spine in Lt; lia)) as (L1 & Q1 & _).
        split; [lia|].
        assert (Ha2 : a = (2 * c) * 2 ^ (l - 1 + 1)).
        { replace (l - 1 + 1) with l by lia. rewrite Ha, pow2_succ. lia. }
        destruct (sub_contained a (l - 1) (2 * c) s Ha2 H1) as (C1 & C2 & C3).
        { replace (l - 1 + 1) with l by lia. unfold spine in Lt. lia. }
        replace (l - 1 + 1) with l in C2 by lia.
        assert (Hi : ins FB s = true) by (unfold ins; apply N.leb_le; lia).
        split; [intros _; exact (Q1 Hi)|]. intros Hn. rewrite Hi in Hn. discriminate.
      * assert (Ge' : a + 2 ^ l <= s) by (unfold spine in *; lia).
        destruct (IH2 s Ge' ltac:(lia)) as (L2 & Q2 & R2).
        pose proof (nav_a _ _ _ _ _ WR) as Ha'.
        assert (Hm' : 1 <= m - 2 ^ l /\ m - 2 ^ l <= 2 ^ (l' + 1)) by (destruct WR as (W1 & _ & _ & W4 & _); split; assumption).
        pose proof (shlen_lt_pow (m - 2 ^ l) l' (proj1 Hm') (proj2 Hm')) as E4.
        destruct (sub_contained (a + 2 ^ l) l' c' s Ha' Ge' ltac:(lia)) as (C1 & C2 & C3).
        assert (P2 : 2 ^ (l' + 1) <= 2 ^ l) by (apply pow2_le_mono; lia).
        pose proof (pow2_pos (level s + 1)) as P3.
        split; [lia|].
        set (d := nleft s - (a + 2 ^ l)) in *.
        replace (nleft s - a) with (2 ^ l + d) by (unfold d; lia).
        rewrite popcount_add_pow2 by (unfold d; lia).
        split.
        -- intros Hi. pose proof (Q2 Hi). lia.
        -- intros Hn Hp Hb. pose proof (R2 Hn Hp ltac:(lia)). lia.
Qed.

End PostPos.

Lemma post_pos_seq B : forall f a m l c, wf B a m l c -> m <= 2 * 2 ^ N.of_nat f ->
  map (sh_post_pos (S f) a m) (filter (pers B) (sh_post (S f) a m)) = nseq 0 (N.to_nat (m - 1)).
Proof.
  apply (shape_ind B (fun f a m l c =>
    map (sh_post_pos f a m) (filter (pers B) (sh_post f a m)) = nseq 0 (N.to_nat (m - 1)))).
  - intros f a m c W Hm. rewrite sh_post_leaf by assumption.
    pose proof (nav_a _ _ _ _ _ W) as Ha.
    pose proof (spine_level a 0 c Ha) as Lv. rewrite spine_0 in Lv.
    cbn [filter]. unfold pers. rewrite Lv. change (0 <? 0) with false. cbn [orb].
    destruct W as (W1 & W2 & _ & _ & _ & W6). change (2 ^ (0 + 1)) with 2 in W6.
    destruct (N.ltb_spec (a + 1) B) as [Lt|Ge].
    + assert (Em : m = 2) by lia. rewrite Em. cbn [map]. rewrite sh_post_pos_leaf by lia. reflexivity.
    + assert (Em : m = 1) by lia. rewrite Em. reflexivity.
  - intros f a m l c l' c' W Hm Hl Hl' WL WR Hsp Hf1 Hf2 IH1 IH2.
    pose proof (nav_a _ _ _ _ _ W) as Ha.
    destruct (wf_large _ _ _ _ _ W Hm) as [_ Hlt].
    pose proof (shlen_pow l Hl) as E1.
    pose proof (spine_level a l c Ha) as Rl.
    pose proof (pow2_ge2 l Hl) as G2.
    rewrite (sh_post_node B _ _ _ _ _ W Hm). rewrite !filter_app, !map_app. cbn [filter].
    assert (Pr : pers B (spine a l) = true).
    { unfold pers. rewrite Rl. destruct (N.ltb_spec 0 l); [reflexivity|lia]. }
    rewrite Pr. cbn [map].
    rewrite (sh_post_pos_node B _ _ _ _ _ _ W Hm), N.eqb_refl.
    assert (M1 : map (sh_post_pos (S (S f)) a m) (filter (pers B) (sh_post (S f) a (2 ^ l))) =
                 nseq 0 (N.to_nat (2 ^ l - 1))).
    { rewrite <- IH1.
      apply map_ext_in. intros x Hx. apply filter_In_sub in Hx.
      apply (sh_post_range B f _ _ _ _ WL Hf1) in Hx.
      rewrite (sh_post_pos_node B _ _ _ _ _ _ W Hm).
      destruct (N.eqb_spec x (spine a l)); [unfold spine in *; lia|].
      destruct (N.ltb_spec x (spine a l)); [reflexivity|unfold spine in *; lia]. }
    assert (M2 : map (sh_post_pos (S (S f)) a m) (filter (pers B) (sh_post (S f) (a + 2 ^ l) (m - 2 ^ l))) =
                 nseq (N.to_nat (2 ^ l - 1)) (N.to_nat (m - 2 ^ l - 1))).
    { rewrite <- (Nat.add_0_r (N.to_nat (2 ^ l - 1))).
      rewrite <- (map_shift (sh_post_pos (S f) (a + 2 ^ l) (m - 2 ^ l)) (N.to_nat (2 ^ l - 1)) _ _ 0 IH2).
      apply map_ext_in. intros x Hx. apply filter_In_sub in Hx.
      apply (sh_post_range B f _ _ _ _ WR Hf2) in Hx.
      rewrite (sh_post_pos_node B _ _ _ _ _ _ W Hm).
      destruct (N.eqb_spec x (spine a l)); [unfold spine in *; lia|].
      destruct (N.ltb_spec x (spine a l)); [unfold spine in *; lia|]. rewrite N2Nat.id. lia. }
    rewrite M1, M2.
    replace (N.to_nat (m - 1)) with (N.to_nat (2 ^ l - 1) + (N.to_nat (m - 2 ^ l - 1) + 1))%nat by lia.
    rewrite !nseq_app. cbn [Nat.add]. f_equal. f_equal.
    unfold nseq. cbn [seq map]. f_equal. lia.
Qed.


Lemma full_blocks_bounds size bs :
  size / (1024 * 2 ^ bs) <= sp_blocks size bs /\ sp_blocks size bs <= size / (1024 * 2 ^ bs) + 1.
Proof.
  unfold sp_blocks. pose proof (pow2_pos bs) as P. rewrite ceil_div by lia.
  generalize (size / (1024 * 2 ^ bs)). intros d.
  destruct (negb (size mod (1024 * 2 ^ bs) =? 0)); cbn [b2n]; lia.
Qed.

Lemma popcount_nleft s : popcount (nleft s) = popcount (sp_index s).
Proof. now rewrite nleft_start, start_eq, popcount_mul_pow2, popcount_double. Qed.

Lemma post_offset_pos size bs l0 s : size <= 2 ^ 63 -> bs <= 10 ->
  wf (sp_blocks size bs) 0 (sp_blocks size bs) l0 0 -> s + 1 <= shlen (sp_blocks size bs) ->
  option_map po_value (post_order_offset (mkTree size bs) (unshift bs s)) =
    if pers (sp_blocks size bs) s then Some (sh_post_pos 65 0 (sp_blocks size bs) s) else None.
Proof.
  intros Hs Hb W Hin. pose proof (sp_blocks_60 size bs Hs) as HB.
  destruct (full_blocks_bounds size bs) as [F1 F2].
  pose proof (inside_persisted size bs s Hs Hb Hin) as IP.
  rewrite (post_offset_listed size bs s Hs Hb Hin).
  rewrite (ins_spec size bs s Hs Hb Hin), (pers_spec size bs s Hs Hb Hin) in *.
  set (nb := sp_blocks size bs) in *. set (FB := size / (1024 * 2 ^ bs)) in *.
  destruct (post_pos_formula nb FB F1 F2 64 0 nb l0 0 W (fuel64 _ HB) s ltac:(lia) ltac:(lia)) as (Ll & Q1 & Q2).
  rewrite N.sub_0_r in Q1, Q2. change (S 64) with 65%nat in Q1, Q2.
  pose proof (popcount_le (nleft s)) as PC. pose proof (pow2_ge2 (level s + 1) ltac:(lia)) as G2.
  destruct (ins FB s) eqn:Ei.
  - rewrite (IP eq_refl). cbn [option_map po_value]. f_equal.
    unfold sp_post_offset. rewrite <- nleft_start, <- level_is_sp_level, <- popcount_nleft.
    pose proof (Q1 eq_refl). lia.
  - destruct (pers nb s) eqn:Ep; [|reflexivity]. cbn [option_map po_value]. f_equal.
    rewrite <- popcount_nleft. pose proof (Q2 eq_refl eq_refl ltac:(lia)). lia.
Qed.

Theorem post_offsets_spec size bs : size <= 2 ^ 63 -> bs <= 10 ->
  map (fun nd => option_map po_value (post_order_offset (mkTree size bs) nd))
      (filter (sp_persisted size bs) (sp_post_nodes size bs)) =
  map (fun i => Some (N.of_nat i)) (seq 0 (N.to_nat (sp_blocks size bs - 1))).
Proof.
  intros Hs Hb. destruct (shifted_spec size bs) as (l0 & W & _).
  pose proof (sp_blocks_60 size bs Hs) as HB. set (nb := sp_blocks size bs) in *.
  rewrite sp_post_nodes_eq. fold nb. rewrite filter_map_comm, map_map.
  assert (In_s : forall x, In x (sh_post 65 0 nb) -> x + 1 <= shlen nb).
  { intros x Hx. apply (sh_post_range nb 64 _ _ _ _ W (fuel64 _ HB)) in Hx. lia. }
  rewrite (filter_ext_in' _ (pers nb)) by (intros x Hx; apply (pers_spec size bs x Hs Hb (In_s x Hx))).
  transitivity (map Some (map (sh_post_pos 65 0 nb) (filter (pers nb) (sh_post 65 0 nb)))).
  - rewrite map_map. apply map_ext_in. intros x Hx. apply filter_In in Hx. destruct Hx as [Hx Hp].
    rewrite (post_offset_pos size bs l0 x Hs Hb W (In_s x Hx)). fold nb. now rewrite Hp.
  - rewrite (post_pos_seq nb 64 0 nb l0 0 W (fuel64 _ HB)). unfold nseq. now rewrite map_map.
Qed.

Theorem post_none_spec size bs nd : size <= 2 ^ 63 -> bs <= 10 ->
  In nd (sp_post_nodes size bs) -> sp_persisted size bs nd = false ->
  option_map po_value (post_order_offset (mkTree size bs) nd) = None.
Proof.
  intros Hs Hb H Hp. destruct (post_listed size bs nd Hs H) as (s & -> & Hin & _).
  destruct (shifted_spec size bs) as (l0 & W & _).
  rewrite (post_offset_pos size bs l0 s Hs Hb W Hin).
  rewrite (pers_spec size bs s Hs Hb Hin) in Hp. now rewrite Hp.
Qed.
