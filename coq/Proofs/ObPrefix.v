(* C13 (byte level): the pairs of the stable nodes form a prefix of the post-order outboard that
   does not change when data is appended. *)
From BaoV Require Import Model.Sync Spec.EncSpec Spec.PlanSpec Spec.HashAssm
  Proofs.NodeLevel Proofs.NodeBits Proofs.RangeRound Proofs.ObBase Proofs.ObLoop Proofs.ObCreate Proofs.ObSize
  Proofs.ObStable Proofs.ObLayout Proofs.ObLayoutC.
From Coq Require Import Lia Arith PeanoNat ZArith ZifyN ZifyNat ZifyBool.

(* shape of the post-order listing: (first group, half) of every node over more than one group *)
Fixpoint shp (fuel : nat) (a n : N) : list (N * N) :=
  match fuel with
  | O => []
  | S f => if n <=? 1 then []
           else let h := next_pow2 n / 2 in shp f a h ++ shp f (a + h) (n - h) ++ [(a, h)]
  end.
Definition nname (bs : N) (p : N * N) : N := unshift bs (fst p + snd p - 1).
Definition pend (p : N * N) : N := fst p + 2 * snd p.
Definition stq (q : N) (p : N * N) : bool := pend p <=? q.

Lemma shp_1 f a : shp f a 1 = [].
Proof. destruct f; reflexivity. Qed.
Lemma shp_unfold f a n : 2 <= n ->
  shp (S f) a n = let h := next_pow2 n / 2 in shp f a h ++ shp f (a + h) (n - h) ++ [(a, h)].
Proof. intro H. cbn [shp]. replace (n <=? 1) with false by lia. reflexivity. Qed.

Lemma filter_all {A} (P : A -> bool) l : Forall (fun x => P x = true) l -> filter P l = l.
Proof. induction 1 as [|x l Hx _ IH]; [reflexivity|]. cbn [filter]. rewrite Hx, IH. reflexivity. Qed.
Lemma filter_none {A} (P : A -> bool) l : Forall (fun x => P x = false) l -> filter P l = [].
Proof. induction 1 as [|x l Hx _ IH]; [reflexivity|]. cbn [filter]. rewrite Hx, IH. reflexivity. Qed.
Lemma filter_map_comm {A B} (f : A -> B) (P : B -> bool) l :
  filter P (map f l) = map f (filter (fun x => P (f x)) l).
Proof.
  induction l as [|x l IH]; [reflexivity|]. cbn [map filter]. destruct (P (f x)); cbn [map]; rewrite IH; reflexivity.
Qed.
Lemma filter_andb {A} (P Q : A -> bool) l : filter (fun x => P x && Q x) l = filter Q (filter P l).
Proof.
  induction l as [|x l IH]; [reflexivity|]. cbn [filter]. destruct (P x); cbn [andb filter]; rewrite IH; reflexivity.
Qed.

Lemma filter_single_st q a h : filter (stq q) [(a, h)] = if a + 2 * h <=? q then [(a, h)] else [].
Proof. reflexivity. Qed.
Lemma filter_single_nst q a h :
  filter (fun p => negb (stq q p)) [(a, h)] = if a + 2 * h <=? q then [] else [(a, h)].
Proof. cbn [filter]. unfold stq, pend. cbn [fst snd]. destruct (a + 2 * h <=? q); reflexivity. Qed.

Lemma pow2_le_of_lt2 j c : 2 ^ j < 2 ^ c -> 2 * 2 ^ j <= 2 ^ c.
Proof.
  intro H. apply N.pow_lt_mono_r_iff in H; [|lia].
  rewrite <- pow2_succ. apply N.pow_le_mono_r; lia.
Qed.

Lemma shp_bounds : forall (m : nat) f b k c,
  (m < f)%nat -> 1 <= k -> k <= 2 ^ N.of_nat m -> k <= 2 ^ c ->
  Forall (fun p => b + 2 <= pend p /\ pend p <= b + 2 ^ c) (shp f b k).
Proof.
  induction m as [|m IH]; intros f b k c Hf H1 Hm Hc; (destruct f as [|f]; [lia|]).
  - apply le1_pow0 in Hm. assert (k = 1) by lia. subst k. rewrite shp_1. constructor.
  - destruct (N.eq_dec k 1) as [->|Hk1]; [rewrite shp_1; constructor|].
    rewrite shp_unfold by lia. cbv zeta.
    destruct (half_facts k m ltac:(lia) Hm) as (Hh1 & Hh2 & Hh3 & Hh4 & (j & Hj)).
    set (h := next_pow2 k / 2) in *.
    assert (H2h : 2 * h <= 2 ^ c) by (rewrite Hj; apply pow2_le_of_lt2; lia).
    pose proof (IH f b h j ltac:(lia) ltac:(lia) ltac:(lia) ltac:(lia)) as IL.
    pose proof (IH f (b + h) (k - h) j ltac:(lia) ltac:(lia) ltac:(lia) ltac:(lia)) as IR.
    apply Forall_app; split; [|apply Forall_app; split].
    + eapply Forall_impl; [|exact IL]. cbv beta. intros p [A B]. lia.
    + eapply Forall_impl; [|exact IR]. cbv beta. intros p [A B]. lia.
    + constructor; [|constructor]. unfold pend. cbn [fst snd]. lia.
Qed.

Lemma shp_fuel : forall (m : nat) f1 f2 b k,
  (m < f1)%nat -> (m < f2)%nat -> k <= 2 ^ N.of_nat m -> shp f1 b k = shp f2 b k.
Proof.
  induction m as [|m IH]; intros f1 f2 b k Hf1 Hf2 Hm;
    (destruct f1 as [|f1]; [lia|]); (destruct f2 as [|f2]; [lia|]); cbn [shp].
  - apply le1_pow0 in Hm. replace (k <=? 1) with true by lia. reflexivity.
  - destruct (k <=? 1) eqn:E; [reflexivity|]. cbv zeta.
    destruct (half_facts k m ltac:(lia) Hm) as (Hh1 & Hh2 & Hh3 & Hh4 & _).
    set (h := next_pow2 k / 2) in *.
    rewrite (IH f1 f2 b h), (IH f1 f2 (b + h) (k - h)) by lia. reflexivity.
Qed.

Lemma stq_all q l hi : Forall (fun p => pend p <= hi) l -> hi <= q -> Forall (fun p => stq q p = true) l.
Proof. intros H Hq. eapply Forall_impl; [|exact H]. cbv beta. intros p Hp. unfold stq. lia. Qed.
Lemma stq_none q l lo : Forall (fun p => lo <= pend p) l -> q < lo -> Forall (fun p => stq q p = false) l.
Proof. intros H Hq. eapply Forall_impl; [|exact H]. cbv beta. intros p Hp. unfold stq. lia. Qed.
Lemma negb_all {A} (P : A -> bool) l : Forall (fun x => P x = true) l -> Forall (fun x => negb (P x) = false) l.
Proof. intro H. eapply Forall_impl; [|exact H]. cbv beta. intros x ->. reflexivity. Qed.
Lemma negb_none {A} (P : A -> bool) l : Forall (fun x => P x = false) l -> Forall (fun x => negb (P x) = true) l.
Proof. intro H. eapply Forall_impl; [|exact H]. cbv beta. intros x ->. reflexivity. Qed.

(* the stable nodes come first *)
Lemma shp_split q : forall (m : nat) f b k,
  (m < f)%nat -> 1 <= k -> k <= 2 ^ N.of_nat m ->
  shp f b k = filter (stq q) (shp f b k) ++ filter (fun p => negb (stq q p)) (shp f b k).
Proof.
  induction m as [|m IH]; intros f b k Hf H1 Hm; (destruct f as [|f]; [lia|]).
  - apply le1_pow0 in Hm. assert (k = 1) by lia. subst k. rewrite shp_1. reflexivity.
  - destruct (N.eq_dec k 1) as [->|Hk1]; [rewrite shp_1; reflexivity|].
    rewrite shp_unfold by lia. cbv zeta.
    destruct (half_facts k m ltac:(lia) Hm) as (Hh1 & Hh2 & Hh3 & Hh4 & (j & Hj)).
    set (h := next_pow2 k / 2) in *.
    pose proof (shp_bounds m f b h j ltac:(lia) ltac:(lia) ltac:(lia) ltac:(lia)) as BL.
    pose proof (shp_bounds m f (b + h) (k - h) j ltac:(lia) ltac:(lia) ltac:(lia) ltac:(lia)) as BR.
    rewrite <- Hj in BL, BR.
    assert (BLhi : Forall (fun p => pend p <= b + h) (shp f b h))
      by (eapply Forall_impl; [|exact BL]; cbv beta; intros p [A B]; lia).
    assert (BRhi : Forall (fun p => pend p <= b + 2 * h) (shp f (b + h) (k - h)))
      by (eapply Forall_impl; [|exact BR]; cbv beta; intros p [A B]; lia).
    assert (BRlo : Forall (fun p => b + h + 2 <= pend p) (shp f (b + h) (k - h)))
      by (eapply Forall_impl; [|exact BR]; cbv beta; intros p [A B]; lia).
    pose proof (IH f b h ltac:(lia) ltac:(lia) ltac:(lia)) as IL.
    pose proof (IH f (b + h) (k - h) ltac:(lia) ltac:(lia) ltac:(lia)) as IR.
    set (L := shp f b h) in *. set (R := shp f (b + h) (k - h)) in *.
    rewrite !filter_app, filter_single_st, filter_single_nst.
    destruct (N.le_gt_cases (b + 2 * h) q) as [Hq|Hq].
    + (* everything stable *)
      replace (b + 2 * h <=? q) with true by lia.
      pose proof (stq_all q L (b + h) BLhi ltac:(lia)) as SL.
      pose proof (stq_all q R (b + 2 * h) BRhi ltac:(lia)) as SR.
      rewrite (filter_all _ _ SL), (filter_all _ _ SR).
      rewrite (filter_none _ _ (negb_all _ _ SL)), (filter_none _ _ (negb_all _ _ SR)).
      cbn [app]. rewrite app_nil_r. reflexivity.
    + replace (b + 2 * h <=? q) with false by lia.
      destruct (N.le_gt_cases (b + h) q) as [Hq2|Hq2].
      * pose proof (stq_all q L (b + h) BLhi Hq2) as SL.
        rewrite (filter_all _ _ SL), (filter_none _ _ (negb_all _ _ SL)).
        cbn [app]. rewrite app_nil_r. rewrite IR at 1. rewrite <- !app_assoc. reflexivity.
      * pose proof (stq_none q R (b + h + 2) BRlo ltac:(lia)) as SR.
        rewrite (filter_none _ _ SR), (filter_all _ _ (negb_none _ _ SR)).
        cbn [app]. rewrite app_nil_r. rewrite IL at 1. rewrite <- !app_assoc. reflexivity.
Qed.

(* the stable nodes do not depend on the number of groups beyond them *)
Lemma shp_stable_eq q : forall (m : nat) f a n n',
  (m < f)%nat -> 1 <= n -> n <= n' -> n' <= 2 ^ N.of_nat m -> q <= a + n ->
  filter (stq q) (shp f a n) = filter (stq q) (shp f a n').
Proof.
  induction m as [|m IH]; intros f a n n' Hf H1 Hnn Hm Hq.
  - apply le1_pow0 in Hm. assert (n = n') by lia. subst n'. reflexivity.
  - destruct (N.eq_dec n n') as [->|Hne]; [reflexivity|].
    destruct f as [|f]; [lia|].
    rewrite (shp_unfold f a n') by lia. cbv zeta.
    destruct (half_facts n' m ltac:(lia) Hm) as (Hh1 & Hh2 & Hh3 & Hh4 & (j & Hj)).
    set (h' := next_pow2 n' / 2) in *.
    rewrite !filter_app, filter_single_st.
    destruct (N.le_gt_cases n h') as [Hle|Hgt].
    + (* the smaller tree sits inside the complete left subtree *)
      pose proof (shp_bounds m f (a + h') (n' - h') j ltac:(lia) ltac:(lia) ltac:(lia) ltac:(lia)) as BR.
      assert (BRlo : Forall (fun p => a + h' + 2 <= pend p) (shp f (a + h') (n' - h')))
        by (eapply Forall_impl; [|exact BR]; cbv beta; intros p [A B]; lia).
      rewrite (filter_none _ _ (stq_none q _ _ BRlo ltac:(lia))).
      replace (a + 2 * h' <=? q) with false by lia. cbn [app]. rewrite app_nil_r.
      rewrite <- (IH f a n h') by lia.
      f_equal. apply (shp_fuel m); lia.
    + (* same split *)
      assert (Hh : next_pow2 n / 2 = h').
      { rewrite Hj. apply next_pow2_half_unique; [lia|]. rewrite pow2_succ. lia. }
      rewrite (shp_unfold f a n) by lia. cbv zeta. rewrite Hh.
      rewrite !filter_app, filter_single_st.
      rewrite (IH f (a + h') (n - h') (n' - h')) by lia. reflexivity.
Qed.

(* alignment of every listed node *)
Definition pal (p : N * N) : Prop := exists k J, snd p = 2 ^ k /\ fst p = 2 * J * 2 ^ k.

Lemma shp_aligned : forall (m : nat) f a n,
  (m < f)%nat -> 1 <= n -> n <= 2 ^ N.of_nat m -> (exists c j, a = j * 2 ^ c /\ n <= 2 ^ c) ->
  Forall pal (shp f a n).
Proof.
  induction m as [|m IH]; intros f a n Hf H1 Hm Hal; (destruct f as [|f]; [lia|]).
  - apply le1_pow0 in Hm. assert (n = 1) by lia. subst n. rewrite shp_1. constructor.
  - destruct (N.eq_dec n 1) as [->|Hn1]; [rewrite shp_1; constructor|].
    rewrite shp_unfold by lia. cbv zeta.
    destruct (half_facts n m ltac:(lia) Hm) as (Hh1 & Hh2 & Hh3 & Hh4 & (k & Hk)).
    set (h := next_pow2 n / 2) in *.
    destruct Hal as (c & j & Ha & Hnc).
    pose proof (pow2_pos k) as Hkp.
    assert (Hck : k + 1 <= c).
    { assert (A : 2 ^ k < 2 ^ c) by lia. apply N.pow_lt_mono_r_iff in A; lia. }
    assert (Hc2 : 2 ^ c = 2 ^ (c - (k + 1)) * (2 * 2 ^ k)).
    { rewrite <- pow2_succ, <- pow2_add. f_equal. lia. }
    set (J := j * 2 ^ (c - (k + 1))).
    assert (HaJ : a = 2 * J * 2 ^ k) by (unfold J; rewrite Ha, Hc2; lia).
    apply Forall_app; split; [|apply Forall_app; split].
    + apply IH; try lia. exists k, (2 * J). rewrite Hk. lia.
    + apply IH; try lia. exists k, (2 * J + 1). rewrite Hk. lia.
    + constructor; [|constructor]. exists k, J. cbn [fst snd]. split; assumption.
Qed.

Lemma pal_inside size bs p : pal p ->
  sp_subtree_inside size (nname bs p) = stq (size / (1024 * 2 ^ bs)) p.
Proof.
  intros (k & J & Hs & Hf). unfold sp_subtree_inside, stq, pend, nname. rewrite Hs.
  destruct (true_pair_node bs (fst p) k J Hf) as (_ & _ & E3). cbv zeta in E3. rewrite E3.
  pose proof (pow2_pos bs) as Hg.
  pose proof (div_le_iff size (1024 * 2 ^ bs) (fst p + 2 * 2 ^ k) ltac:(lia)) as H.
  replace ((fst p + 2 * 2 ^ k) * (1024 * 2 ^ bs)) with ((fst p + 2 * 2 ^ k) * 2 ^ bs * 1024) in H by lia.
  destruct (fst p + 2 * 2 ^ k <=? size / (1024 * 2 ^ bs)) eqn:E.
  - apply N.leb_le in E. apply N.leb_le. apply H. exact E.
  - apply N.leb_gt in E. apply N.leb_gt. lia.
Qed.

Section Prefix.
Variable HO : hops.
Hypothesis Hlen : cv_len32 HO.
Notation bytes := (bytes HO).
Notation hash := (hash HO).
Notation blen := (blen HO).

Lemma pairs_nodes_shp (data : bytes) bs n0 : forall f a n,
  map fst (pairs_rec HO f true data bs n0 a n) = map (nname bs) (shp f a n).
Proof.
  induction f as [|f IH]; intros a n; [reflexivity|].
  cbn [pairs_rec shp]. destruct (n <=? 1); [reflexivity|]. cbv zeta.
  rewrite !map_app, !IH. reflexivity.
Qed.

Lemma count_cons (Q : N -> bool) x l :
  length (filter Q (x :: l)) = ((if Q x then 1 else 0) + length (filter Q l))%nat.
Proof. cbn [filter]. destruct (Q x); reflexivity. Qed.
Lemma count_app (Q : N -> bool) l1 l2 :
  length (filter Q (l1 ++ l2)) = (length (filter Q l1) + length (filter Q l2))%nat.
Proof. now rewrite filter_app, app_length. Qed.

Lemma pairs_count (data : bytes) bs n0 (Q : N -> bool) : forall f a n,
  length (filter Q (map fst (pairs_rec HO f false data bs n0 a n)))
  = length (filter Q (map fst (pairs_rec HO f true data bs n0 a n))).
Proof.
  induction f as [|f IH]; intros a n; [reflexivity|].
  cbn [pairs_rec]. destruct (n <=? 1); [reflexivity|]. cbv zeta.
  cbn [map fst]. rewrite !map_app. cbn [map fst].
  rewrite count_cons, !count_app, count_cons, !IH. cbn [filter length]. lia.
Qed.

Lemma firstn_flat_pairs : forall (k : nat) (l : list (N * (hash * hash))), Forall (pair32 HO) l ->
  firstn (64 * k) (flat_pairs HO l) = flat_pairs HO (firstn k l).
Proof.
  induction k as [|k IH]; intros l Hl.
  - reflexivity.
  - destruct l as [|[nd [lh rh]] l]; [reflexivity|].
    inversion Hl as [|? ? [H1 H2] Hl']; subst. cbn [fst snd] in H1, H2.
    cbn [firstn]. change ((nd, (lh, rh)) :: ?x) with ([(nd, (lh, rh))] ++ x).
    rewrite !flat_pairs_app. unfold flat_pairs at 1 3. cbn [map concat fst snd]. rewrite app_nil_r.
    replace (64 * S k)%nat with (length (lh ++ rh) + 64 * k)%nat by (rewrite app_length, H1, H2; lia).
    rewrite firstn_app_2. f_equal. apply IH. exact Hl'.
Qed.

Variable data ext : bytes.
Variable bs : N.
Hypothesis Hsize' : blen (data ++ ext) <= 2 ^ 63.
Notation data' := (data ++ ext).
Notation size := (blen data).
Notation size' := (blen data').
Notation g := (2 ^ bs).
Notation q := (size / (1024 * g)).

Lemma size_le : size <= size'.
Proof. rewrite blen_app. lia. Qed.

Lemma blocks_mono : sp_blocks size bs <= sp_blocks size' bs.
Proof.
  pose proof size_le. pose proof (pow2_pos bs) as Hg. unfold sp_blocks.
  rewrite !(cdiv_alt _ (1024 * g)) by lia.
  assert (cdiv size (1024 * g) <= cdiv size' (1024 * g)).
  { apply cdiv_le; [lia|]. pose proof (cdiv_mul_ge size' (1024 * g) ltac:(lia)). lia. }
  lia.
Qed.
Lemma q_le_blocks : q <= sp_blocks size bs.
Proof.
  pose proof (pow2_pos bs) as Hg. unfold sp_blocks. rewrite (cdiv_alt _ (1024 * g)) by lia.
  pose proof (div_mul_le size (1024 * g) ltac:(lia)) as H1.
  pose proof (cdiv_mul_ge size (1024 * g) ltac:(lia)) as H2.
  assert (q <= cdiv size (1024 * g)) by nia.
  lia.
Qed.

(* the post-order pairs as the true pairs of the shape nodes *)
Lemma pairs_as_shape (d : bytes) : blen d <= 2 ^ 63 ->
  pairs_rec HO 64 true d bs (blob_chunks HO d) 0 (sp_blocks (blen d) bs)
  = map (fun nd => (nd, true_pair HO d nd)) (map (nname bs) (shp 64 0 (sp_blocks (blen d) bs))).
Proof.
  intro Hs. rewrite <- (pairs_nodes_shp d bs (blob_chunks HO d)). apply Forall_pairs_map.
  pose proof (sp_blocks_pos (blen d) bs) as Hb1. pose proof (blocks_m63 HO d bs Hs) as Hm.
  apply (pairs_true HO d bs true 63 64 0 (sp_blocks (blen d) bs) ltac:(lia) Hb1 Hm).
  exists 63, 0. split; [lia|split; [exact Hm|right]].
  rewrite N.add_0_l. apply sp_blocks_cover.
Qed.

Definition stable_shape : list (N * N) := filter (stq q) (shp 64 0 (sp_blocks size bs)).

Lemma stable_count : sp_stable_count size bs = N.of_nat (length stable_shape).
Proof.
  assert (Hs : size <= 2 ^ 63) by (pose proof size_le; lia).
  pose proof (sp_blocks_pos size bs) as Hb1. pose proof (blocks_m63 HO data bs Hs) as Hm.
  unfold sp_stable_count. f_equal.
  rewrite (filter_andb (sp_persisted size bs) (sp_subtree_inside size)).
  rewrite sp_pre_nodes_eq.
  rewrite (shape_nodes HO data bs false 63 65 64 0 (sp_blocks size bs) ltac:(lia) ltac:(lia) Hb1 Hm
             ltac:(exact (sp_blocks_last size bs))
             ltac:(exists 63, 0; split; [lia|split; [lia|split; [exact Hm|right]]];
                   rewrite N.add_0_l; apply sp_blocks_cover)).
  rewrite pairs_count, pairs_nodes_shp, filter_map_comm, map_length.
  unfold stable_shape. f_equal. apply filter_ext_in. intros p Hp.
  apply pal_inside.
  pose proof (shp_aligned 63 64 0 (sp_blocks size bs) ltac:(lia) Hb1 Hm
                ltac:(exists 63, 0; split; [lia|exact Hm])) as Hal.
  rewrite Forall_forall in Hal. apply Hal. exact Hp.
Qed.

Lemma prefix_pairs :
  firstn (length stable_shape)
    (pairs_rec HO 64 true data bs (blob_chunks HO data) 0 (sp_blocks size bs))
  = firstn (length stable_shape)
    (pairs_rec HO 64 true data' bs (blob_chunks HO data') 0 (sp_blocks size' bs)).
Proof.
  assert (Hs : size <= 2 ^ 63) by (pose proof size_le; lia).
  pose proof (sp_blocks_pos size bs) as Hb1. pose proof (blocks_m63 HO data bs Hs) as Hm.
  pose proof (blocks_m63 HO data' bs Hsize') as Hm'.
  rewrite (pairs_as_shape data Hs), (pairs_as_shape data' Hsize').
  rewrite !map_map, !firstn_map.
  rewrite (shp_split q 63 64 0 (sp_blocks size bs) ltac:(lia) Hb1 Hm).
  rewrite (shp_split q 63 64 0 (sp_blocks size' bs) ltac:(lia) ltac:(pose proof blocks_mono; lia) Hm').
  rewrite <- (shp_stable_eq q 63 64 0 (sp_blocks size bs) (sp_blocks size' bs) ltac:(lia) Hb1 blocks_mono Hm'
               ltac:(rewrite N.add_0_l; exact q_le_blocks)).
  unfold stable_shape.
  rewrite !firstn_app, !firstn_all, Nat.sub_diag, !firstn_O, !app_nil_r.
  apply map_ext_in. intros p Hp.
  rewrite (keeps_pair HO data ext (nname bs p)); [reflexivity|].
  unfold stable_shape in Hp. apply filter_In in Hp. destruct Hp as [Hin Hst].
  pose proof (shp_aligned 63 64 0 (sp_blocks size bs) ltac:(lia) Hb1 Hm
                ltac:(exists 63, 0; split; [lia|exact Hm])) as Hal.
  rewrite Forall_forall in Hal. rewrite <- (pal_inside size bs p (Hal p Hin)) in Hst.
  unfold sp_subtree_inside in Hst. apply N.leb_le in Hst. exact Hst.
Qed.

Theorem outboard_prefix :
  take HO (64 * sp_stable_count size bs) (spec_outboard HO true data bs)
  = take HO (64 * sp_stable_count size bs) (spec_outboard HO true data' bs).
Proof.
  assert (Hs : size <= 2 ^ 63) by (pose proof size_le; lia).
  rewrite !spec_outboard_flat, stable_count. unfold Hash.take.
  replace (N.to_nat (64 * N.of_nat (length stable_shape))) with (64 * length stable_shape)%nat by lia.
  rewrite !firstn_flat_pairs.
  - rewrite prefix_pairs. reflexivity.
  - apply (pairs_rec_len HO Hlen data' bs _ true (nchunks_bound _ Hsize') 63 64 0 (sp_blocks size' bs)
             ltac:(lia) (sp_blocks_pos _ _) (blocks_m63 HO data' bs Hsize') (sp_blocks_last size' bs)).
  - apply (pairs_rec_len HO Hlen data bs _ true (nchunks_bound _ Hs) 63 64 0 (sp_blocks size bs)
             ltac:(lia) (sp_blocks_pos _ _) (blocks_m63 HO data bs Hs) (sp_blocks_last size bs)).
Qed.
End Prefix.
