(* L11: the listings have no duplicates and are permutations of each other (C12 item 6). *)
From BaoV Require Import Model.Iter Spec.NodeSpec Proofs.NodeLevel Proofs.NodeBits Proofs.NodeAlgebra
  Proofs.NodeRestricted Proofs.ShapeBase Proofs.ShapeIter Proofs.ShapeOffsets Proofs.ShapePos Proofs.ShapePre.
From Coq Require Import ZArith Lia Permutation FinFun.
Open Scope N_scope.
Ltac Zify.zify_post_hook ::= Z.to_euclidean_division_equations.

Lemma NoDup_app_disj {A} (l1 l2 : list A) :
  NoDup l1 -> NoDup l2 -> (forall x, In x l1 -> In x l2 -> False) -> NoDup (l1 ++ l2).
Proof.
  induction l1 as [|x l1 IH]; intros H1 H2 D; [exact H2|].
  cbn [app]. inversion H1 as [|y l N1 N2]; subst. constructor.
  - intros Hin. apply in_app_or in Hin. destruct Hin as [Hin|Hin]; [contradiction|].
    apply (D x); [now left|assumption].
  - apply IH; [assumption|assumption|]. intros z Z1 Z2. apply (D z); [now right|assumption].
Qed.

Lemma sh_pre_nodup B : forall f a m l c, wf B a m l c -> m <= 2 * 2 ^ N.of_nat f -> NoDup (sh_pre (S f) a m).
Proof.
  apply (shape_ind B (fun f a m l c => NoDup (sh_pre f a m))).
  - intros f a m c W Hm. rewrite sh_pre_leaf by assumption. constructor; [intros []|constructor].
  - intros f a m l c l' c' W Hm Hl Hl' WL WR Hsp Hf1 Hf2 IH1 IH2.
    rewrite (sh_pre_node B _ _ _ _ _ W Hm).
    pose proof (shlen_pow l Hl) as E1. pose proof (pow2_ge2 l Hl) as G2.
    constructor.
    + intros Hin. apply in_app_or in Hin. destruct Hin as [Hin|Hin].
      * apply (sh_pre_range B f _ _ _ _ WL Hf1) in Hin. unfold spine in Hin. lia.
      * apply (sh_pre_range B f _ _ _ _ WR Hf2) in Hin. unfold spine in Hin. lia.
    + apply NoDup_app_disj; [assumption|assumption|].
      intros x X1 X2.
      apply (sh_pre_range B f _ _ _ _ WL Hf1) in X1.
      apply (sh_pre_range B f _ _ _ _ WR Hf2) in X2. lia.
Qed.

Lemma sh_pre_post_perm B : forall f a m l c, wf B a m l c -> m <= 2 * 2 ^ N.of_nat f ->
  Permutation (sh_pre (S f) a m) (sh_post (S f) a m).
Proof.
  apply (shape_ind B (fun f a m l c => Permutation (sh_pre f a m) (sh_post f a m))).
  - intros f a m c W Hm. rewrite sh_pre_leaf, sh_post_leaf by assumption. apply Permutation_refl.
  - intros f a m l c l' c' W Hm Hl Hl' WL WR Hsp Hf1 Hf2 IH1 IH2.
    rewrite (sh_pre_node B _ _ _ _ _ W Hm), (sh_post_node B _ _ _ _ _ W Hm).
    rewrite app_assoc.
    eapply Permutation_trans; [apply Permutation_cons_append|].
    apply Permutation_app_tail. now apply Permutation_app.
Qed.

Lemma unshift_injective bs : Injective (unshift bs).
Proof. intros x y H. now apply (unshift_inj bs). Qed.

Theorem pre_nodes_nodup size bs : size <= 2 ^ 63 -> NoDup (sp_pre_nodes size bs).
Proof.
  intros Hs. destruct (shifted_spec size bs) as (l0 & W & _).
  rewrite sp_pre_nodes_eq. apply Injective_map_NoDup; [apply unshift_injective|].
  exact (sh_pre_nodup _ 64 _ _ _ _ W (fuel64 _ (sp_blocks_60 size bs Hs))).
Qed.

Theorem pre_post_perm size bs : size <= 2 ^ 63 -> Permutation (sp_pre_nodes size bs) (sp_post_nodes size bs).
Proof.
  intros Hs. destruct (shifted_spec size bs) as (l0 & W & _).
  rewrite sp_pre_nodes_eq, sp_post_nodes_eq. apply Permutation_map.
  exact (sh_pre_post_perm _ 64 _ _ _ _ W (fuel64 _ (sp_blocks_60 size bs Hs))).
Qed.

Theorem persisted_count size bs : size <= 2 ^ 63 -> bs <= 10 ->
  length (filter (sp_persisted size bs) (sp_pre_nodes size bs)) = N.to_nat (sp_blocks size bs - 1).
Proof.
  intros Hs Hb. pose proof (pre_offsets_spec size bs Hs Hb) as E.
  apply (f_equal (@length _)) in E. now rewrite !map_length, seq_length in E.
Qed.
