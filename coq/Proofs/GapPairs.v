(* Gap audit (C01): every parent item of the honest encoding carries the TRUE pair of its node
   (true_pair, Spec/EncSpec.v: the chaining values of the two children of the node in the blob's tree),
   so every pair a decode_ranges driver passes to OutboardMut::save is the blob's pair of that node.
   Direct induction over the recursion of enc_rec with the alignment of its chunk intervals. *)
From BaoV Require Import Model.Fsm Spec.RangeSpec Spec.PlanSpec Spec.NodeSpec Spec.EncSpec Spec.HashAssm Spec.PTree.
From BaoV Require Import Proofs.PlanBase Proofs.BridgeBase Proofs.BridgeLeaves.
From BaoV Require Import Proofs.DecLoop Proofs.DecForest Proofs.DecRanges.
From BaoV Require Import Proofs.E2ERanges Proofs.GapDrivers.
From Coq Require Import Lia Arith.
Open Scope N_scope.

(* the interval [a, b) of chunks is (the in-blob part of) an aligned power-of-two block *)
Definition aligned (n a b : N) : Prop :=
  a < b /\ b <= n /\ exists j k, next_pow2 (b - a) = 2 ^ j /\ a = k * 2 ^ j /\ (b = a + 2 ^ j \/ b = n).

Lemma unshift_0 s : unshift 0 s = s.
Proof. unfold unshift. change (2 ^ 0) with 1. lia. Qed.

Lemma aligned_root n : 1 <= n -> aligned n 0 n.
Proof.
  intro H. split; [lia|]. split; [lia|].
  destruct (np2_spec n H) as (j & E & _). exists j, 0. rewrite N.sub_0_r. split; [exact E|]. split; [lia|now right].
Qed.

Lemma aligned_children n a b : aligned n a b -> 2 <= b - a ->
  let h := next_pow2 (b - a) / 2 in
  aligned n a (a + h) /\ aligned n (a + h) b /\
  sp_chunk_start (a + h - 1) = a /\ N.min (sp_chunk_end (a + h - 1)) n = b /\ a + h - 1 + 1 = a + h.
Proof.
  intros (Hab & Hbn & j & k & Ej & Ea & Eb) H2. cbn zeta.
  destruct (np2_half (b - a) H2) as (i & E1 & Eh & K1 & K2). rewrite Eh.
  assert (Eji : 2 ^ j = 2 ^ (i + 1)) by congruence.
  pose proof (pow2_ge1 i) as Pi. rewrite pow2_succ in Eji, K2.
  assert (Ea' : a = k * (2 * 2 ^ i)) by (rewrite Ea, Eji; reflexivity).
  split; [|split; [|split; [|split]]].
  - (* left child: a full block of 2^i chunks *)
    split; [lia|]. split; [lia|]. exists i, (2 * k).
    replace (a + 2 ^ i - a) with (2 ^ i) by lia. rewrite np2_pow2.
    split; [reflexivity|]. split; [lia|now left].
  - (* right child *)
    split; [lia|]. split; [lia|].
    set (s' := b - (a + 2 ^ i)). assert (Hs' : 1 <= s' /\ s' <= 2 ^ i) by (unfold s'; lia).
    destruct (np2_spec s' (proj1 Hs')) as (j' & Ej' & L1 & L2).
    assert (Hj' : j' <= i).
    { pose proof (np2_le s' i (proj2 Hs')) as Hle. rewrite Ej' in Hle. apply pow2_le_inv. exact Hle. }
    exists j', ((2 * k + 1) * 2 ^ (i - j')). split; [exact Ej'|]. split.
    + assert (Ep : 2 ^ i = 2 ^ (i - j') * 2 ^ j').
      { rewrite <- N.pow_add_r. f_equal. lia. }
      rewrite <- N.mul_assoc, <- Ep. lia.
    + destruct Eb as [Eb|Eb]; [|now right]. left.
      assert (Es : s' = 2 ^ i) by (unfold s'; lia).
      rewrite Es, np2_pow2 in Ej'. rewrite <- Ej'. lia.
  - pose proof (unshift_geom 0 k i) as G. cbn zeta in G. rewrite unshift_0 in G.
    destruct G as (_ & G2 & _ & _). rewrite <- Ea' in G2. change (2 ^ 0) with 1 in G2. lia.
  - pose proof (unshift_geom 0 k i) as G. cbn zeta in G. rewrite unshift_0 in G.
    destruct G as (_ & _ & G3 & _). rewrite <- Ea' in G3. change (2 ^ 0) with 1 in G3.
    rewrite G3. destruct Eb as [Eb|Eb]; lia.
  - lia.
Qed.

Section Pairs.
Variable HO : hops.
Notation bytes := (bytes HO).
Notation item := (item HO).

Lemma enc_rec_pairs (data : bytes) bs (S0 : N -> bool) : forall f a b,
  aligned (blob_chunks HO data) a b ->
  forall nd l r, In (IParent nd l r) (enc_rec HO f data bs S0 a b) -> (l, r) = true_pair HO data nd.
Proof.
  induction f as [|f IH]; intros a b Hal nd l r Hin; [contradiction|].
  rewrite enc_rec_unfold in Hin.
  destruct (negb (existsb S0 (chunk_range_list a b))); [contradiction|].
  destruct (b - a <=? 1) eqn:E1; [destruct Hin as [Hd|[]]; discriminate|].
  destruct (forallb S0 (chunk_range_list a b) && (next_pow2 (b - a) <=? 2 ^ bs));
    [destruct Hin as [Hd|[]]; discriminate|].
  apply N.leb_gt in E1.
  destruct (aligned_children _ a b Hal ltac:(lia)) as (AL & AR & G1 & G2 & G3).
  set (h := next_pow2 (b - a) / 2) in *.
  assert (E : (cv HO data a (a + h) false, cv HO data (a + h) b false) = true_pair HO data (a + h - 1)).
  { unfold true_pair. cbv zeta. rewrite G3, G1, G2. reflexivity. }
  revert Hin E. generalize (cv HO data a (a + h) false) (cv HO data (a + h) b false). intros cl cr Hin E.
  destruct Hin as [Hd|Hin].
  - injection Hd as <- <- <-. exact E.
  - apply in_app_or in Hin. destruct Hin as [Hin|Hin]; [exact (IH _ _ AL _ _ _ Hin)|exact (IH _ _ AR _ _ _ Hin)].
Qed.

Lemma honest_unfold (data : bytes) bs q :
  honest HO data bs q = enc_rec HO 64 data bs (sel q (blen HO data)) 0 (blob_chunks HO data).
Proof. reflexivity. Qed.

Theorem honest_pairs_true : forall (data : bytes) (bs : N) (q : ranges) nd l r,
  In (IParent nd l r) (honest HO data bs q) -> (l, r) = true_pair HO data nd.
Proof.
  intros data bs q nd l r Hin. rewrite honest_unfold in Hin.
  assert (A : aligned (blob_chunks HO data) 0 (blob_chunks HO data)).
  { apply aligned_root. unfold blob_chunks, nchunks. lia. }
  exact (enc_rec_pairs data bs (sel q (blen HO data)) 64 0 (blob_chunks HO data) A nd l r Hin).
Qed.

(* the saves apply_items makes are those of the parent items of the list *)
Lemma apply_items_saves_prefix : forall (ys zs : list item), is_prefix zs ys ->
  forall nd l r, In (IParent nd l r) zs -> In (IParent nd l r) ys.
Proof. intros ys zs Hp nd l r Hin. eapply is_prefix_In; eauto. Qed.
End Pairs.

(* ---------- the drivers: every pair saved is the blob's pair of its node ---------- *)
Theorem e2e_decode_ranges_pairs : forall HO, hash_ok HO ->
  forall (data : bytes HO) (bs : N) (q : ranges),
  blen HO data <= 2 ^ 63 -> bs <= 10 -> wf_ranges q = true ->
  forall (stream target : bytes HO) (ob : outboard HO),
  ob_root ob = root_hash HO data -> ob_tree ob = mkTree (blen HO data) bs ->
  forall res target' ob',
  (exists st', decode_ranges HO stream q target ob = (res, target', ob', st')) \/
  (exists st', decode_ranges_fsm HO stream q target ob = (res, target', ob', st')) ->
  exists ys, let a := apply_items HO ys target ob in
    target' = a_target HO a /\ ob' = a_ob HO a /\
    (forall nd l r, In (IParent nd l r) ys -> (l, r) = true_pair HO data nd) /\
    (forall off d, In (ILeaf off d) ys ->
       exists s e, off = s * 1024 /\ s < e /\ e <= nchunks (blen HO data) /\ d = chunk_bytes HO data s e).
Proof.
  intros HO HOK data bs q Hs Hb Hwf stream target ob Hr Ht res target' ob' Hd.
  destruct (e2e_decode_ranges_any HO HOK data bs q Hs Hb Hwf stream target ob Hr Ht) as [A B].
  assert (Z : exists ys, is_prefix ys (honest HO data bs q) /\
                target' = a_target HO (apply_items HO ys target ob) /\ ob' = a_ob HO (apply_items HO ys target ob)).
  { destruct Hd as [[st' Hd]|[st' Hd]].
    - destruct A as (ys & o & st1 & Hd' & S1 & _). cbv zeta in Hd'. rewrite Hd in Hd'. injection Hd' as _ -> -> _.
      exists ys. auto.
    - destruct B as (ys & o & st1 & Hd' & S1 & _). cbv zeta in Hd'. rewrite Hd in Hd'. injection Hd' as _ -> -> _.
      exists ys. auto. }
  destruct Z as (ys & P & -> & ->). exists ys. cbv zeta. split; [reflexivity|]. split; [reflexivity|]. split.
  - intros nd l r Hin. apply (honest_pairs_true HO data bs q). eapply is_prefix_In; eauto.
  - intros off d Hin.
    destruct (prefix_good_leaves HO data bs q Hs ys P off d Hin) as (s & e & H1 & H2 & H3 & H4 & _).
    exists s, e. auto.
Qed.
